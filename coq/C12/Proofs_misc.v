(* C12 proofs, part 8: square-root enclosures, symmetry in the two variables, generic form of the accumulators,
   permutation corollary. *)
From Coq Require Import List ZArith QArith Qabs Qround Qminmax Bool Lqa Lia Permutation.
From Gst Require Import lib.QAux C12.Model C12.Spec C12.Proofs_enum C12.Proofs_lag C12.Proofs_acc C12.Proofs_geom C12.Proofs_vg C12.Proofs_main.
Import ListNotations.
Local Open Scope Q_scope.

(* ---------------------------------------------------------------- enclosure of sqrt *)
Lemma sqrt_enclosure x : 0 <= x ->
  0 <= sqrt_lo x /\ sqrt_lo x * sqrt_lo x <= x /\ x < sqrt_hi x * sqrt_hi x /\ sqrt_hi x == sqrt_lo x + 1 / inject_Z sq_prec.
Proof.
  intro Hx. unfold sqrt_lo, sqrt_hi. rewrite !Qred_correct.
  set (P := inject_Z sq_prec).
  assert (HP : 0 < P) by (unfold P, sq_prec; reflexivity).
  assert (HPP : inject_Z (sq_prec * sq_prec) == P * P) by (unfold P; rewrite inject_Z_mult; reflexivity).
  set (r := x * inject_Z (sq_prec * sq_prec)).
  assert (Hr : 0 <= r) by (unfold r; rewrite HPP; nra).
  destruct (sqrt_floor_bounds r Hr) as (S0 & S1 & S2).
  set (s := inject_Z (Z.sqrt (Qfloor r))) in *.
  rewrite injZ_add1. fold s.
  assert (Er : r == x * (P * P)) by (unfold r; rewrite HPP; reflexivity).
  assert (E1 : s / P * (s / P) == s * s / (P * P)) by (field; lra).
  assert (E2 : (s + 1) / P * ((s + 1) / P) == (s + 1) * (s + 1) / (P * P)) by (field; lra).
  assert (HPP0 : 0 < P * P) by nra.
  repeat split.
  - apply Qle_shift_div_l; [exact HP|]. lra.
  - rewrite E1. apply Qle_shift_div_r; [exact HPP0|]. lra.
  - rewrite E2. apply Qlt_shift_div_l; [exact HPP0|]. lra.
  - field. lra.
Qed.

(* ---------------------------------------------------------------- symmetry in the two variables *)
Lemma var_rank_sym iv jv : var_rank iv jv = var_rank jv iv.
Proof.
  unfold var_rank. destruct (Nat.ltb_spec jv iv), (Nat.ltb_spec iv jv); try lia; try reflexivity.
  assert (iv = jv) by lia. subst. reflexivity.
Qed.
Lemma dir_address_sym asym npas iv jv k o : dir_address asym npas iv jv k o = dir_address asym npas jv iv k o.
Proof. unfold dir_address. rewrite (var_rank_sym iv jv). reflexivity. Qed.

Lemma defined2_vars a b iv jv :
  defined2 a b jv iv = match defined2 a b iv jv with Some (z11, z12, z21, z22) => Some (z21, z22, z11, z12) | None => None end.
Proof. unfold defined2. destruct (zval a iv), (zval b iv), (zval a jv), (zval b jv); reflexivity. Qed.

Lemma vg_terms_sym cf d iv jv k l :
  sumQ (map fst (vg_terms cf d iv jv k l)) == sumQ (map fst (vg_terms cf d jv iv k l)) /\
  sumQ (map (fun t => fst t * snd t) (vg_terms cf d iv jv k l)) == sumQ (map (fun t => fst t * snd t) (vg_terms cf d jv iv k l)).
Proof.
  unfold vg_terms.
  induction (all_pairs (filter (usable cf) l)) as [|[a b] r [IH1 IH2]]; [split; reflexivity|].
  cbn [flat_map]. rewrite !map_app, !sumQ_app, IH1, IH2.
  rewrite (defined2_vars a b iv jv).
  destruct (pair_in d k a b); [|split; reflexivity].
  destruct (defined2 a b iv jv) as [[[[z11 z12] z21] z22]|]; [|split; reflexivity].
  cbn [map fst snd]. rewrite !sumQ_cons. change (sumQ []) with 0. split; (apply Qplus_comp; [|reflexivity]); field.
Qed.
Lemma vg_sym cf d iv jv k l :
  vg_sw cf d iv jv k l == vg_sw cf d jv iv k l /\ vg_num cf d iv jv k l == vg_num cf d jv iv k l.
Proof. unfold vg_sw, vg_num. apply vg_terms_sym. Qed.

(* ---------------------------------------------------------------- generic form, every estimator *)
Lemma accumulate1_generic cf d n l k :
  0 < d_dpas d -> 0 <= d_tol d -> Forall (same_dim n) l ->
  (k < dir_size (is_asym (c_calc cf)) (d_npas d) (c_nvar cf))%nat ->
  cell_eq (nth k (accumulate1 cf d l) cell0)
          (spec_cell (flat_map (fun p => pair_updates cf d (stat_means cf l) (fst p) (snd p))
                               (filter (unskipped cf) (loop_pairs (c_dateLoop cf) [] (sort_x1 l)))) k).
Proof.
  intros H1 H2 Hl Hk. unfold accumulate1, zero_arr.
  rewrite (reached1_updates cf d (stat_means cf l) n l H1 H2 Hl).
  apply apply_upds_sums. exact Hk.
Qed.

(* ---------------------------------------------------------------- permutation, model level (variogram) *)
Lemma accumulate1_vg_perm cf d n l l' iv jv k :
  c_calc cf = Vg -> c_dateLoop cf = false -> c_dateChk cf = false ->
  0 < d_dpas d -> 0 <= d_tol d -> 0 <= d_psmin d -> 0 < Qred (dot (d_codir d) (d_codir d)) ->
  Forall (same_dim n) l ->
  (jv <= iv)%nat -> (iv < c_nvar cf)%nat -> (k < d_npas d)%nat ->
  Permutation l l' ->
  let adr := dir_address false (d_npas d) iv jv k Ozero in
  a_sw (nth adr (accumulate1 cf d l) cell0) == a_sw (nth adr (accumulate1 cf d l') cell0) /\
  a_glo (nth adr (accumulate1 cf d l) cell0) == a_glo (nth adr (accumulate1 cf d l') cell0) /\
  a_ghi (nth adr (accumulate1 cf d l) cell0) == a_ghi (nth adr (accumulate1 cf d l') cell0).
Proof.
  intros Hc Hl Hk' Hdp Htol Hps Hco Hdim Hj Hi Hk Hp. cbv zeta.
  assert (Hdim' : Forall (same_dim n) l') by (eapply Permutation_Forall; eassumption).
  destruct (accumulate1_vg cf d Hc Hk' Hdp Htol Hps Hco n l iv jv k Hl Hdim Hj Hi Hk) as (A1 & A2 & A3).
  destruct (accumulate1_vg cf d Hc Hk' Hdp Htol Hps Hco n l' iv jv k Hl Hdim' Hj Hi Hk) as (B1 & B2 & B3).
  destruct (vg_sums_perm cf d Hk' iv jv k l l' Hp) as [P1 P2].
  rewrite A1, A2, A3, B1, B2, B3. repeat split; assumption.
Qed.

(* C12 runner: decodes a case, runs the model and the brute-force spec, encodes both. Executable only.
   case  (0 ndim calc flag_sample (hasSel hasW hasDate nvar) samples dirs dates prime)
         sample = ((x..) sel w date (z..))        dir = (npas dpas toldis tolang psmin (codir..) bench cylrad idate)
   result ( (tie model_blocks spec_blocks) per direction )
         blocks = one list of cells per variable pair (0,0),(1,0),(1,1),(2,0).. ; cell = (sw hh gg), hh/gg = () | (lo hi) *)
From Coq Require Import List ZArith QArith Qabs Qround Qminmax Bool.
From Gst Require Import lib.Sx lib.QAux C12.Model C12.Spec.
Import ListNotations.
Local Open Scope Q_scope.

Definition asCalc (s : sx) : option calc :=
  match s with
  | I 0%Z => Some Vg | I 1%Z => Some Cov | I 2%Z => Some Covg | I 3%Z => Some Mado
  | I 5%Z => Some Poisson | I 9%Z => Some CovNC | I 10%Z => Some Order4
  | _ => None
  end.
Definition asSample (s : sx) : option sample :=
  match s with
  | L [x; sel; w; dt; z] =>
      match asListOf asQ x, asB sel, asOQ w, asOQ dt, asListOf asOQ z with
      | Some x', Some sel', Some w', Some dt', Some z' =>
          Some {| s_x := x'; s_sel := sel'; s_w := w'; s_date := dt'; s_z := z' |}
      | _, _, _, _, _ => None
      end
  | _ => None
  end.
(* raw direction: the date interval is filled in afterwards *)
Definition asDir (dates : list Q) (s : sx) : option dirp :=
  match s with
  | L [np; dp; tol; _tolang; psm; cod; be; cy; idate] =>
      match asNat np, asQ dp, asQ tol, asQ psm, asListOf asQ cod, asOQ be, asOQ cy, asNat idate with
      | Some np', Some dp', Some tol', Some psm', Some cod', Some be', Some cy', Some id' =>
          (* VarioParam::getDate(idate, icas): 0 when the index is invalid *)
          let valid := Nat.ltb (2 * id' + 1) (length dates) in
          Some {| d_npas := np'; d_dpas := dp'; d_tol := tol'; d_psmin := psm'; d_codir := cod';
                  d_bench := be'; d_cyl := cy';
                  d_dmin := if valid then nth (2 * id') dates 0 else 0;
                  d_dmax := if valid then nth (2 * id' + 1) dates 0 else 0 |}
      | _, _, _, _, _, _, _, _ => None
      end
  | _ => None
  end.

Definition ofIv (o : option (Q * Q)) : sx :=
  match o with Some (lo, hi) => L [ofQ lo; ofQ hi] | None => L [] end.
Definition ofCell (c : ocell) : sx := L [ofQ (o_sw c); ofIv (o_hh c); ofIv (o_gg c)].
Definition ofBlocks (b : list (list ocell)) : sx := ofList (ofList ofCell) b.

(* ---- tie flags: decisions taken on reals whose relative margin is below 2^-30 ---- *)
Definition eps_tie : Q := 1 # (2 ^ 30).
Definition near (a b : Q) : bool := qleb (Qabs (a - b)) (eps_tie * (Qabs a + Qabs b)).
Definition near_ne (a b : Q) : bool := near a b && negb (qeqb a b).
Definition tie_pair (d : dirp) (a b : sample) : bool :=
  let g := geo_pair d a b in
  if qleb (g_d2 g) 0 then false
  else
    let prod := g_d2 g * g_dn2 g in
    let p2 := g_dproj g * g_dproj g in
    let del2 := d_dpas d * d_dpas d in
    let k := inject_Z (lag_index d (g_d2 g)) in
    (qltb 0 (d_psmin d) && qltb (d_psmin d) 1 && qltb 0 prod && near p2 (d_psmin d * d_psmin d * prod))
    || (match opt_pos (d_cyl d) with Some c => qltb 0 prod && near (prod - p2) (c * c * g_dn2 g) | None => false end)
    || near_ne (4 * g_d2 g) ((2 * k + 1) * (2 * k + 1) * del2)
    || (qltb 0 k && near_ne (4 * g_d2 g) ((2 * k - 1) * (2 * k - 1) * del2))
    || near_ne (g_d2 g) ((k + d_tol d) * (k + d_tol d) * del2)
    || (qltb 0 (k - d_tol d) && near_ne (g_d2 g) ((k - d_tol d) * (k - d_tol d) * del2)).
Definition tie_dir (cf : cfg) (d : dirp) (l : list sample) : bool :=
  existsb (fun p : sample * sample => tie_pair d (fst p) (snd p)) (all_pairs (filter (usable cf) l)).

(* the spec with the raw sums obtained by folding the updates (equal, cell by cell, to the sums of
   Spec.spec_arr1 by theorem C12_accumulate); same scaling *)
Definition spec_solution1_fast (cf : cfg) (d : dirp) (l : list sample) : list (list ocell) :=
  finish cf d l (apply_upds (zero_arr cf d) (spec_updates1 cf d l)).
Definition spec_dir_fast (cf : cfg) (flag_sample : bool) (d : dirp) (l : list sample) : list (list ocell) :=
  if flag_sample || (match c_calc cf with Covg => true | _ => false end)
  then spec_solution2 cf d l else spec_solution1_fast cf d l.

Definition run (c : sx) : sx :=
  match c with
  | L [I 0%Z; _ndim; cal; fs; L [hs; hw; hd; nv]; ss; ds; dts; _prime] =>
      match asCalc cal, asB fs, asB hs, asB hw, asB hd, asNat nv, asListOf asSample ss, asListOf asQ dts with
      | Some cal', Some fs', Some hs', Some hw', Some hd', Some nv', Some ss', Some dts' =>
          match asListOf (asDir dts') ds with
          | Some ds' =>
              let nonempty := negb (Nat.eqb (length dts') 0) in
              (* VarioParam::hasDate(): getDateNumber() > 0 && (dates[0] > -1e30 || dates[1] < 1e30) *)
              let big := inject_Z (10 ^ 30) in
              let chk := Nat.leb 2 (length dts') && (qltb (- big) (nth 0 dts' 0) || qltb (nth 1 dts' 0) big) in
              let cf := {| c_calc := cal'; c_hasSel := hs'; c_hasW := hw';
                           c_dateLoop := nonempty && hd'; c_dateChk := chk; c_nvar := nv' |} in
              ofList (fun d => L [ofB (tie_dir cf d ss');
                                  ofBlocks (compute_dir cf fs' d ss');
                                  ofBlocks (spec_dir_fast cf fs' d ss')]) ds'
          | None => sx_error 2
          end
      | _, _, _, _, _, _, _, _ => sx_error 1
      end
  | _ => sx_error 0
  end.

(* C12 runner: decodes a case, runs the model and the brute-force spec, encodes both. Executable only.
   case  (0 ndim calc flag_sample (hasSel hasW hasDate nvar) samples dirs dates prime)
         sample = ((x..) sel w date (z..))        dir = (npas dpas toldis tolang psmin (codir..) bench cylrad idate)
   result ( (tie model_blocks spec_blocks) per direction )
         blocks = one list of cells per variable pair (0,0),(1,0),(1,1),(2,0).. ; cell = (sw hh gg), hh/gg = () | (lo hi) *)
From Coq Require Import List ZArith QArith Qabs Qround Qminmax Bool.
From Gst Require Import lib.Sx lib.QAux C12.Model C12.ModelExt C12.Spec.
Import ListNotations.
Local Open Scope Q_scope.

Definition asCalc (s : sx) : option calc :=
  match s with
  | I 0%Z => Some Vg | I 1%Z => Some Cov | I 2%Z => Some Covg | I 3%Z => Some Mado | I 4%Z => Some Rodo
  | I 5%Z => Some Poisson | I 9%Z => Some CovNC | I 10%Z => Some Order4
  | _ => None
  end.
Definition asSample (s : sx) : option sample :=
  match s with
  | L [x; sel; w; dt; z] =>
      match asListOf asQ x, asB sel, asOQ w, asOQ dt, asListOf asOQ z with
      | Some x', Some sel', Some w', Some dt', Some z' =>
          Some {| s_x := x'; s_sel := sel'; s_w := w'; s_date := dt'; s_z := z' |}
      | _, _, _, _, _ => None
      end
  | _ => None
  end.
(* raw direction: the date interval is filled in afterwards *)
Definition mkDir (dates : list Q) (np dp tol psm cod be cy idate : sx) : option dirp :=
  match asNat np, asQ dp, asQ tol, asQ psm, asListOf asQ cod, asOQ be, asOQ cy, asNat idate with
  | Some np', Some dp', Some tol', Some psm', Some cod', Some be', Some cy', Some id' =>
      (* VarioParam::getDate(idate, icas): 0 when the index is invalid *)
      let valid := Nat.ltb (2 * id' + 1) (length dates) in
      Some {| d_npas := np'; d_dpas := dp'; d_tol := tol'; d_psmin := psm'; d_codir := cod';
              d_bench := be'; d_cyl := cy';
              d_dmin := if valid then nth (2 * id') dates 0 else 0;
              d_dmax := if valid then nth (2 * id' + 1) dates 0 else 0 |}
  | _, _, _, _, _, _, _, _ => None
  end.
(* a direction and its breaks (empty = regular lags) *)
Definition asDir (dates : list Q) (s : sx) : option (dirp * list Q) :=
  match s with
  | L [np; dp; tol; _tolang; psm; cod; be; cy; idate] =>
      match mkDir dates np dp tol psm cod be cy idate with Some d => Some (d, []) | None => None end
  | L [np; dp; tol; _tolang; psm; cod; be; cy; idate; brk] =>
      match mkDir dates np dp tol psm cod be cy idate, asListOf asQ brk with Some d, Some b => Some (d, b) | _, _ => None end
  | _ => None
  end.

Definition ofIv (o : option (Q * Q)) : sx :=
  match o with Some (lo, hi) => L [ofQ lo; ofQ hi] | None => L [] end.
Definition ofCell (c : ocell) : sx := L [ofQ (o_sw c); ofIv (o_hh c); ofIv (o_gg c)].
Definition ofBlocks (b : list (list ocell)) : sx := ofList (ofList ofCell) b.

(* ---- tie flags: decisions taken on reals whose relative margin is below 2^-30 ---- *)
Definition eps_tie : Q := 1 # (2 ^ 30).
Definition near (a b : Q) : bool := qleb (Qabs (a - b)) (eps_tie * (Qabs a + Qabs b)).
Definition near_ne (a b : Q) : bool := near a b && negb (qeqb a b).
Definition tie_pair (d : dirp) (a b : sample) : bool :=
  let g := geo_pair d a b in
  if qleb (g_d2 g) 0 then false
  else
    let prod := g_d2 g * g_dn2 g in
    let p2 := g_dproj g * g_dproj g in
    let del2 := d_dpas d * d_dpas d in
    let k := inject_Z (lag_index d (g_d2 g)) in
    (qltb 0 (d_psmin d) && qltb (d_psmin d) 1 && qltb 0 prod && near p2 (d_psmin d * d_psmin d * prod))
    || (match opt_pos (d_cyl d) with Some c => qltb 0 prod && near (prod - p2) (c * c * g_dn2 g) | None => false end)
    || near_ne (4 * g_d2 g) ((2 * k + 1) * (2 * k + 1) * del2)
    || (qltb 0 k && near_ne (4 * g_d2 g) ((2 * k - 1) * (2 * k - 1) * del2))
    || near_ne (g_d2 g) ((k + d_tol d) * (k + d_tol d) * del2)
    || (qltb 0 (k - d_tol d) && near_ne (g_d2 g) ((k - d_tol d) * (k - d_tol d) * del2)).
Definition tie_dir (cf : cfg) (d : dirp) (l : list sample) : bool :=
  existsb (fun p : sample * sample => tie_pair d (fst p) (snd p)) (all_pairs (filter (usable cf) l)).

(* the spec with the raw sums obtained by folding the updates (equal, cell by cell, to the sums of
   Spec.spec_arr1 by theorem C12_accumulate); same scaling *)
Definition spec_solution1_fast (cf : cfg) (d : dirp) (l : list sample) : list (list ocell) :=
  finish cf d l (apply_upds (zero_arr cf d) (spec_updates1 cf d l)).
Definition spec_dir_fast (cf : cfg) (flag_sample : bool) (d : dirp) (l : list sample) : list (list ocell) :=
  if flag_sample || (match c_calc cf with Covg => true | _ => false end)
  then spec_solution2 cf d l else spec_solution1_fast cf d l.

(* ---- irregular lags: ties at the breaks; spec = all pairs, no sorting / pruning, declarative acceptance, the lag searched from
   the LAST interval downwards (the intervals of increasing breaks are disjoint: same answer as the first match) ---- *)
Definition tie_pair_irr (d : dirp) (bs : list Q) (a b : sample) : bool :=
  tie_pair {| d_npas := 0; d_dpas := 1; d_tol := 0; d_psmin := d_psmin d; d_codir := d_codir d; d_bench := d_bench d; d_cyl := d_cyl d;
              d_dmin := 0; d_dmax := 0 |} a b
  || (negb (qleb (g_d2 (geo_pair d a b)) 0) && existsb (fun bk => near_ne (g_d2 (geo_pair d a b)) (bk * bk)) bs).
Definition spec_lag_irr (npas : nat) (bs : list Q) (d2 : Q) : option nat := find (in_break bs d2) (rev (seq 0 npas)).
Definition spec_solution1_irr (cf : cfg) (d : dirp) (bs : list Q) (l : list sample) : list (list ocell) :=
  let means := spec_means cf l in
  finish cf d l (apply_upds (zero_arr cf d)
    (flat_map (fun p : sample * sample =>
                 let (a, b) := p in
                 let g := geo_pair d a b in
                 if accepted_b d g && (negb (c_dateChk cf) || real_date_ok d a b) then
                   match spec_lag_irr (d_npas d) bs (g_d2 g) with
                   | None => []
                   | Some k =>
                       let pc o := {| p_w1 := get_weight cf a; p_w2 := get_weight cf b; p_dlo := sqrt_lo (g_d2 g); p_dhi := sqrt_hi (g_d2 g);
                                      p_ipas := k; p_orient := o; p_coinc := false |} in
                       if is_asym (c_calc cf) then
                         match spec_orient g with
                         | Ozero => map halve (spec_evaluate cf (d_npas d) means (pc Oplus) a b ++ spec_evaluate cf (d_npas d) means (pc Ominus) a b)
                         | o => spec_evaluate cf (d_npas d) means (pc o) a b
                         end
                       else evaluate cf (d_npas d) means (pc Ozero) a b
                   end
                 else []) (spec_pairs cf l))).

(* ---- gridded data: samples in rank order with their coordinates ---- *)
Definition asCell (s : sx) : option (bool * list (option Q)) :=
  match s with L [sel; z] => match asB sel, asListOf asOQ z with Some b, Some z' => Some (b, z') | _, _ => None end | _ => None end.
Definition grid_samples (nx : list nat) (dx x0 : list Q) (w : option Q) (cells : list (bool * list (option Q))) : list sample :=
  map (fun rc : nat * (bool * list (option Q)) =>
         {| s_x := map (fun t : Z * (Q * Q) => snd (snd t) + inject_Z (fst t) * fst (snd t)) (combine (rank_to_index nx (fst rc)) (combine dx x0));
            s_sel := fst (snd rc); s_w := w; s_date := None; s_z := snd (snd rc) |})
      (combine (seq 0 (length cells)) cells).
Definition asGDir (s : sx) : option (nat * list Z) :=
  match s with L [np; g] => match asNat np, asListOf asZ g with Some n, Some g' => Some (n, g') | _, _ => None end | _ => None end.
Definition dir_of_grid (npas : nat) : dirp :=
  {| d_npas := npas; d_dpas := 1; d_tol := 0; d_psmin := 0; d_codir := []; d_bench := None; d_cyl := None; d_dmin := 0; d_dmax := 0 |}.
Definition ofZ (z : Z) : sx := I z.

Definition run (c : sx) : sx :=
  match c with
  | L [I 0%Z; _ndim; cal; fs; L [hs; hw; hd; nv]; ss; ds; dts; _prime] =>
      match asCalc cal, asB fs, asB hs, asB hw, asB hd, asNat nv, asListOf asSample ss, asListOf asQ dts with
      | Some cal', Some fs', Some hs', Some hw', Some hd', Some nv', Some ss', Some dts' =>
          match asListOf (asDir dts') ds with
          | Some ds' =>
              let nonempty := negb (Nat.eqb (length dts') 0) in
              (* VarioParam::hasDate(): getDateNumber() > 0 && (dates[0] > -1e30 || dates[1] < 1e30) *)
              let big := inject_Z (10 ^ 30) in
              let chk := Nat.leb 2 (length dts') && (qltb (- big) (nth 0 dts' 0) || qltb (nth 1 dts' 0) big) in
              let cf := {| c_calc := cal'; c_hasSel := hs'; c_hasW := hw';
                           c_dateLoop := nonempty && hd'; c_dateChk := chk; c_nvar := nv' |} in
              ofList (fun db : dirp * list Q =>
                        let (d, bs) := db in
                        match bs with
                        | [] => L [ofB (tie_dir cf d ss'); ofBlocks (compute_dir cf fs' d ss'); ofBlocks (spec_dir_fast cf fs' d ss')]
                        | _ => L [ofB (existsb (fun p : sample * sample => tie_pair_irr d bs (fst p) (snd p)) (all_pairs (filter (usable cf) ss')));
                                  ofBlocks (solution1_irr cf d bs ss'); ofBlocks (spec_solution1_irr cf d bs ss')]
                        end) ds'
          | None => sx_error 2
          end
      | _, _, _, _, _, _, _, _ => sx_error 1
      end
  | L [I 1%Z; cal; nxs; dxs; x0s; nv; cs; hs; gds; nord] =>
      match asCalc cal, asListOf asNat nxs, asListOf asQ dxs, asListOf asQ x0s, asNat nv, asListOf asCell cs, asB hs, asListOf asGDir gds, asNat nord with
      | Some cal', Some nx, Some dx, Some x0, Some nv', Some cs', Some hs', Some gds', Some nord' =>
          (* covariogram on a grid: the weight of every node is the cell size (Vario::_calculateOnGrid) *)
          let isg := match cal' with Covg => true | _ => false end in
          let maille := fold_right Qmult 1 dx in
          let cells := grid_samples nx dx x0 (if isg then Some maille else None) cs' in
          let cf := {| c_calc := cal'; c_hasSel := hs'; c_hasW := isg; c_dateLoop := false; c_dateChk := false; c_nvar := nv' |} in
          ofList (fun ng : nat * list Z =>
                    let (np, g) := ng in
                    let dp2 := fold_right Qplus 0 (map (fun t : Z * Q => (inject_Z (fst t) * snd t) * (inject_Z (fst t) * snd t)) (combine g dx)) in
                    if Nat.eqb nord' 0 then ofBlocks (grid_solution cf (dir_of_grid np) dp2 nx cells g)
                    else ofBlocks (gen_solution cf (dir_of_grid np) dp2 nord' nx cells g)) gds'
      | _, _, _, _, _, _, _, _, _ => sx_error 3
      end
  | L [I 3%Z; cal; nxs; nv; cs; hs; nxxs] =>
      match asCalc cal, asListOf asNat nxs, asNat nv, asListOf asCell cs, asB hs, asListOf asNat nxxs with
      | Some cal', Some nx, Some nv', Some cs', Some hs', Some nxx =>
          let cells := grid_samples nx (map (fun _ => 1) nx) (map (fun _ => 0) nx) None cs' in
          let cf := {| c_calc := cal'; c_hasSel := hs'; c_hasW := false; c_dateLoop := false; c_dateChk := false; c_nvar := nv' |} in
          ofBlocks (vmap_grid cf nx cells nxx)
      | _, _, _, _, _, _ => sx_error 4
      end
  | L [I 4%Z; cal; _ndim; nv; hs; hw; ss; nxxs; dxxs] =>
      match asCalc cal, asNat nv, asB hs, asB hw, asListOf asSample ss, asListOf asNat nxxs, asListOf asQ dxxs with
      | Some cal', Some nv', Some hs', Some hw', Some ss', Some nxx, Some dxx =>
          let cf := {| c_calc := cal'; c_hasSel := hs'; c_hasW := hw'; c_dateLoop := false; c_dateChk := false; c_nvar := nv' |} in
          (* a pair with equal first coordinates (its order is decided by an unstable sort) of which exactly one of the two
             opposite cells lies on the map: border case, not compared *)
          let tie := existsb (fun p : sample * sample =>
                                let dl := vsub (s_x (snd p)) (s_x (fst p)) in
                                qeqb (x1 (fst p)) (x1 (snd p)) &&
                                xorb (match point_cell nxx dxx dl with Some _ => true | None => false end)
                                     (match point_cell nxx dxx (map Qopp dl) with Some _ => true | None => false end))
                             (all_pairs (filter (is_active cf) ss')) in
          L [ofB tie; ofBlocks (vmap_points cf ss' nxx dxx)]
      | _, _, _, _, _, _, _ => sx_error 5
      end
  | L [I 5%Z; _ndim; hs; ss; dir; lnb; vnb; d0; d1] =>
      match asB hs, asListOf asSample ss, asDir [] dir, asNat lnb, asNat vnb, asQ d0, asQ d1 with
      | Some hs', Some ss', Some (d, _), Some lnb', Some vnb', Some d0', Some d1' =>
          let cf := {| c_calc := Vg; c_hasSel := hs'; c_hasW := false; c_dateLoop := false; c_dateChk := false; c_nvar := 1 |} in
          let dt := {| d_npas := d_npas d; d_dpas := d0'; d_tol := 0; d_psmin := d_psmin d; d_codir := d_codir d;
                       d_bench := d_bench d; d_cyl := d_cyl d; d_dmin := 0; d_dmax := 0 |} in
          L [ofB (existsb (fun p : sample * sample => tie_pair dt (fst p) (snd p)) (cloud_pairs cf ss'));
             ofList ofZ (vcloud cf d lnb' vnb' d0' d1' ss')]
      | _, _, _, _, _, _, _ => sx_error 6
      end
  | L [I 6%Z; nord; nxs; dxs; x0s; cs; hs; dir] =>
      match asNat nord, asListOf asNat nxs, asListOf asQ dxs, asListOf asQ x0s, asListOf asCell cs, asB hs, asDir [] dir with
      | Some nord', Some nx, Some dx, Some x0, Some cs', Some hs', Some (d, _) =>
          let cells := grid_samples nx dx x0 None cs' in
          let cf := {| c_calc := Vg; c_hasSel := hs'; c_hasW := false; c_dateLoop := false; c_dateChk := false; c_nvar := 1 |} in
          L [ofB (existsb (fun p : sample * sample => tie_pair d (fst p) (snd p)) (all_pairs cells));
             ofBlocks (line_solution cf d nord' cells)]
      | _, _, _, _, _, _, _ => sx_error 7
      end
  | L [I 7%Z; cal; nxs; nv; cs; hs; nxxs] =>
      match asCalc cal, asListOf asNat nxs, asNat nv, asListOf asCell cs, asB hs, asListOf asNat nxxs with
      | Some cal', Some nx, Some nv', Some cs', Some hs', Some nxx =>
          let cells := grid_samples nx (map (fun _ => 1) nx) (map (fun _ => 0) nx) None cs' in
          let cf := {| c_calc := cal'; c_hasSel := hs'; c_hasW := false; c_dateLoop := false; c_dateChk := false; c_nvar := nv' |} in
          L [ofBlocks (vmap_fft cf nx cells nxx);
             ofList (fun t : nat * nat => ofNat (fft_size (fst t) (2 * snd t + 1))) (combine nx nxx)]
      | _, _, _, _, _, _ => sx_error 8
      end
  | _ => sx_error 0
  end.

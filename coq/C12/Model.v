(* C12 model: executable mirror (exact rational arithmetic, decisions on squares) of
     Db::getSortArray                       /repo/src/Db/Db.cpp:4727      (stable ascending sort on the first coordinate)
     Db::getDistance1D (signed)             Db.cpp:836
     Db::getWeight / isActive               Db.cpp:2801 / 2927
     Db::getSampleAsSTInPlace               Db.cpp:751
     Vario::_calculateGeneralSolution1/2    /repo/src/Variogram/Vario.cpp:3322 / 3423
     Vario::keepPair                        Vario.cpp:4380
     BiTargetCheckGeometry::isOK            /repo/src/Geometry/BiTargetCheckGeometry.cpp:96
     BiTargetCheckDate::isOK                /repo/src/Geometry/BiTargetCheckDate.cpp:57
     DirParam::getLagRank / getMaximumDistance   /repo/src/Variogram/DirParam.cpp:422 / 253   (regular lags)
     AVario::_evaluate{Variogram,Madogram,Rodogram,Poisson,Covariance,Covariogram,Order4}   /repo/src/Variogram/AVario.cpp:41-229
     Vario::_setResult / getDirAddress      Vario.cpp:3717 / 1732
     Vario::_rescale / _centerCovariance / _patchC00 / _getStatistics(mean)   Vario.cpp:4279 / 3772 / 2810 / 2987
   Every finite double is a rational; square roots never decide anything here: decisions are taken on
   squares, and where a root is *output* (mean separation hh, madogram) a rigorous enclosure is carried.
   [Qred] calls are representation normalisations ([Qred q == q]); they have no counterpart in the C++.
   The model follows the code AFTER the fixes fixes/C12_1..5.patch (date-mode loop, setDate, by-sample reset and
   IDIRLOC, mean of _getStatistics, coincident samples and heterotopic test of _evaluateCovariance).
   No proofs in this file. *)
From Coq Require Import List ZArith QArith Qabs Qround Qminmax Bool.
From Gst Require Import lib.QAux.
Import ListNotations.
Local Open Scope Q_scope.

(* ------------------------------------------------------------------ data *)
Record sample := { s_x : list Q;            (* coordinates (locator x1..) *)
                   s_sel : bool;            (* selection value <> 0 (used only when the Db has a SEL locator) *)
                   s_w : option Q;          (* weight column, None = TEST *)
                   s_date : option Q;       (* date column, None = TEST *)
                   s_z : list (option Q) }. (* variables z1.., None = TEST *)

Inductive calc := Vg | Cov | CovNC | Covg | Mado | Rodo | Order4 | Poisson.
Definition is_asym (c : calc) : bool := match c with Cov | CovNC | Covg => true | _ => false end.   (* Vario::_setFlagAsym 2120 *)

Record dirp := { d_npas : nat; d_dpas : Q; d_tol : Q;
                 d_psmin : Q;               (* GH::getCosineAngularTolerance(tolang): 0 <= psmin <= 1 *)
                 d_codir : list Q;
                 d_bench : option Q; d_cyl : option Q;
                 d_dmin : Q; d_dmax : Q }.  (* date interval of this direction (used when the date checker is on) *)

Record cfg := { c_calc : calc;
                c_hasSel : bool; c_hasW : bool;
                c_dateLoop : bool;          (* VarioParam::isDateUsed(db): dates non empty and DATE locator present *)
                c_dateChk : bool;           (* VarioParam::hasDate(): a BiTargetCheckDate is in the list *)
                c_nvar : nat }.

(* ------------------------------------------------------------------ small helpers *)
Definition qadd (a b : Q) : Q := Qred (a + b).
Fixpoint dot (a b : list Q) : Q :=
  match a, b with x :: a', y :: b' => x * y + dot a' b' | _, _ => 0 end.
(* SpaceRN::_getIncrementInPlace: delta = p2 - p1 *)
Fixpoint vsub (p2 p1 : list Q) : list Q :=
  match p2, p1 with y :: b, x :: a => (y - x) :: vsub b a | _, _ => [] end.
Definition x1 (s : sample) : Q := hd 0 (s_x s).
Definition zval (s : sample) (iv : nat) : option Q := nth iv (s_z s) None.     (* _getIVAR without drift *)

(* Db::getWeight: 1 without W locator; TEST -> 1; negative -> 0.  Never returns TEST, hence the tests
   "hasWeight && FFFF(db->getWeight(iech))" of the pair loops (3349, 3358) are dead and not rendered. *)
Definition get_weight (cf : cfg) (s : sample) : Q :=
  if c_hasW cf then match s_w s with None => 1 | Some w => if qltb w 0 then 0 else w end else 1.
(* Db::isActive (no domain): selection <> 0, or no SEL locator *)
Definition is_active (cf : cfg) (s : sample) : bool := negb (c_hasSel cf) || s_sel s.
(* "if (hasSel && !db->isActive(iech)) continue;" *)
Definition skip (cf : cfg) (s : sample) : bool := c_hasSel cf && negb (is_active cf s).

(* ------------------------------------------------------------------ Db::getSortArray *)
(* VH::orderRanks uses std::stable_sort with '<' : equal keys keep their original order *)
Fixpoint insert (a : sample) (l : list sample) : list sample :=
  match l with
  | [] => [a]
  | b :: r => if qleb (x1 a) (x1 b) then a :: l else b :: insert a r
  end.
Definition sort_x1 (l : list sample) : list sample := fold_right insert [] l.

(* ------------------------------------------------------------------ geometry of one increment *)
Record geo := { g_d2 : Q;      (* dn1 = |delta|^2 *)
                g_dproj : Q;   (* delta . codir *)
                g_dn2 : Q;     (* |codir|^2 *)
                g_dlast : Q }. (* |delta[ndim-1]| *)
Definition geo_of (codir delta : list Q) : geo :=
  {| g_d2 := Qred (dot delta delta); g_dproj := Qred (dot delta codir);
     g_dn2 := Qred (dot codir codir); g_dlast := Qred (Qabs (last delta 0)) |}.

Inductive verdict := Rej | Acc (neg : bool).    (* neg: the oriented distance is negative *)

Definition opt_pos (o : option Q) : option Q :=    (* "!FFFF(v) && v > 0." *)
  match o with Some v => if qltb 0 v then Some v else None | None => None end.

(* BiTargetCheckGeometry::isOK, with ps = dproj / sqrt(dn1*dn2) eliminated by squaring (psmin >= 0) *)
Definition isOK (d : dirp) (asym : bool) (g : geo) : verdict :=
  if qleb (g_d2 g) 0 then Acc false                                    (* _dist <= 0: always accepted *)
  else
    let prod := g_d2 g * g_dn2 g in
    let p2 := g_dproj g * g_dproj g in
    let lim := d_psmin d * d_psmin d * prod in
    (* |ps| < psmin *)
    let abs_lt := if qltb 0 prod then qltb 0 (d_psmin d) && qltb p2 lim else qltb 1 (d_psmin d) in
    if abs_lt then Rej
    else
      (* dortho = sqrt(dn1 (1 - ps^2)) > cylrad   <->   dn1 dn2 - dproj^2 > cylrad^2 dn2 *)
      let cyl_out := match opt_pos (d_cyl d) with
                     | Some c => qltb 0 prod && qltb (c * c * g_dn2 g) (prod - p2)
                     | None => false end in
      if cyl_out then Rej
      else
        let bench_out := match opt_pos (d_bench d) with
                         | Some b => qltb b (g_dlast g)
                         | None => false end in
        if bench_out then Rej
        else
          (* ps < psmin *)
          let lt := if qltb 0 prod then qltb (g_dproj g) 0 || qltb p2 lim else qltb 1 (d_psmin d) in
          Acc (asym && lt).

(* BiTargetCheckDate::isOK on the dates loaded by Db::getSampleAsSTInPlace (P.setDate) *)
Definition st_date (s : sample) : option Q := s_date s.
Definition date_ok (d : dirp) (a b : sample) : bool :=
  match st_date a, st_date b with
  | Some d1, Some d2 => negb (qltb (d2 - d1) (d_dmin d)) && qltb (d2 - d1) (d_dmax d)
  | _, _ => false
  end.

(* DirParam::getMaximumDistance (regular lags) *)
Definition maxdist (d : dirp) : Q := d_dpas d * (inject_Z (Z.of_nat (d_npas d)) + d_tol d).

(* DirParam::getLagRank (regular lags) decided on the squared distance:
     ilag = floor(sqrt(d2)/dpas + 1/2) = (floor(sqrt(4 d2 / dpas^2)) + 1) / 2       (integer division)
     |sqrt(d2) - ilag dpas| > tol dpas  <->  d2 > ((ilag+tol) dpas)^2  \/  (ilag - tol > 0 /\ d2 < ((ilag-tol) dpas)^2) *)
Definition lag_index (d : dirp) (d2 : Q) : Z :=
  ((Z.sqrt (Qfloor (4 * d2 / (d_dpas d * d_dpas d))) + 1) / 2)%Z.
Definition lag_rank (d : dirp) (d2 : Q) : option nat :=
  let k := lag_index d d2 in
  let del2 := d_dpas d * d_dpas d in
  let lo := inject_Z k - d_tol d in
  let hi := inject_Z k + d_tol d in
  if qltb (hi * hi * del2) d2 || (qltb 0 lo && qltb d2 (lo * lo * del2)) then None
  else if (k <? 0)%Z || (Z.of_nat (d_npas d) <=? k)%Z then None
  else Some (Z.to_nat k).

(* ------------------------------------------------------------------ enclosures of square roots *)
Definition sq_prec : Z := (2 ^ 40)%Z.
(* floor(sqrt(x) * 2^40) / 2^40  <=  sqrt(x)  <  that + 2^-40     (x >= 0) *)
Definition sqrt_lo (x : Q) : Q := Qred (inject_Z (Z.sqrt (Qfloor (x * inject_Z (sq_prec * sq_prec)))) / inject_Z sq_prec).
Definition sqrt_hi (x : Q) : Q := Qred (inject_Z (Z.sqrt (Qfloor (x * inject_Z (sq_prec * sq_prec))) + 1) / inject_Z sq_prec).

(* ------------------------------------------------------------------ accumulators *)
Record cell := { a_sw : Q; a_hlo : Q; a_hhi : Q; a_glo : Q; a_ghi : Q }.
Definition cell0 : cell := {| a_sw := 0; a_hlo := 0; a_hhi := 0; a_glo := 0; a_ghi := 0 |}.
(* one call of Vario::_setResult: address, increments of sw, hh (enclosure), gg (enclosure) *)
Record upd := { u_addr : nat; u_sw : Q; u_hlo : Q; u_hhi : Q; u_glo : Q; u_ghi : Q }.
Definition cell_add (c : cell) (u : upd) : cell :=
  {| a_sw := qadd (a_sw c) (u_sw u); a_hlo := qadd (a_hlo c) (u_hlo u); a_hhi := qadd (a_hhi c) (u_hhi u);
     a_glo := qadd (a_glo c) (u_glo u); a_ghi := qadd (a_ghi c) (u_ghi u) |}.
Fixpoint upd_nth {A} (n : nat) (f : A -> A) (l : list A) {struct l} : list A :=
  match l with
  | [] => []
  | x :: r => match n with O => f x :: r | S n' => x :: upd_nth n' f r end
  end.
Definition apply_upd (arr : list cell) (u : upd) : list cell := upd_nth (u_addr u) (fun c => cell_add c u) arr.
Definition apply_upds (arr : list cell) (us : list upd) : list cell := fold_left apply_upd us arr.

(* Vario::getDirAddress(idir, ivar, jvar, ipas, flag_abs = false, orient) *)
Definition var_rank (ivar jvar : nat) : nat :=
  if Nat.ltb jvar ivar then ivar * (ivar + 1) / 2 + jvar else jvar * (jvar + 1) / 2 + ivar.
Definition nlagtot (asym : bool) (npas : nat) : nat := if asym then 2 * npas + 1 else npas.
Inductive orient := Oplus | Ominus | Ozero.
Definition dir_address (asym : bool) (npas ivar jvar ipas : nat) (o : orient) : nat :=
  (if asym then match o with Oplus => npas + ipas + 1 | Ominus => npas - ipas - 1 | Ozero => npas end
   else ipas) + var_rank ivar jvar * nlagtot asym npas.
Definition dir_size (asym : bool) (npas nvar : nat) : nat := nlagtot asym npas * (nvar * (nvar + 1) / 2).
Definition flip (o : orient) : orient := match o with Oplus => Ominus | Ominus => Oplus | Ozero => Ozero end.

(* ------------------------------------------------------------------ AVario::_evaluate* *)
(* the pair context handed to the evaluators *)
Record pctx := { p_w1 : Q; p_w2 : Q; p_dlo : Q; p_dhi : Q; p_ipas : nat; p_orient : orient;
                 p_coinc : bool }.   (* dist <= 0: the two samples coincide *)

Definition mk_upd (asym : bool) (npas : nat) (pc : pctx) (iv jv : nat) (o : orient) (ww vlo vhi extra : Q) : upd :=
  {| u_addr := dir_address asym npas iv jv (p_ipas pc) o; u_sw := ww;
     u_hlo := ww * p_dlo pc; u_hhi := ww * p_dhi pc;
     u_glo := ww * vlo + extra; u_ghi := ww * vhi + extra |}.

(* inner "for jvar <= ivar" loop of the symmetric estimators; phi returns the enclosure of the pair value *)
Definition eval_sym (npas : nat) (pc : pctx) (a b : sample) (ww : Q) (phi : Q -> Q -> Q * Q) (extra : nat -> Q)
                    (iv : nat) : list upd :=
  match zval a iv, zval b iv with
  | Some z11, Some z12 =>
      flat_map (fun jv => match zval a jv, zval b jv with
                          | Some z21, Some z22 =>
                              let v := phi (z12 - z11) (z22 - z21) in
                              [mk_upd false npas pc iv jv Ozero ww (fst v) (snd v) (extra iv)]
                          | _, _ => [] end) (seq 0 (S iv))
  | _, _ => []
  end.
(* _evaluateCovariance / _evaluateCovariogram with do_asym = true.  Each product needs only its own two values;
   a pair of coincident samples (dist <= 0) shares both products between the two sides with half the weight. *)
Definition eval_asym (npas : nat) (pc : pctx) (a b : sample) (ww : Q) (iv : nat) : list upd :=
  flat_map (fun jv =>
              let o := p_orient pc in
              let t1 := match zval a iv, zval b jv with Some z11, Some z22 => Some (z11 * z22) | _, _ => None end in   (* ok1 *)
              let t2 := match zval b iv, zval a jv with Some z12, Some z21 => Some (z12 * z21) | _, _ => None end in   (* ok2 *)
              if p_coinc pc then
                (match t1 with Some v => [mk_upd true npas pc iv jv o (ww / 2) v v 0; mk_upd true npas pc iv jv (flip o) (ww / 2) v v 0]
                             | None => [] end) ++
                (match t2 with Some v => [mk_upd true npas pc iv jv o (ww / 2) v v 0; mk_upd true npas pc iv jv (flip o) (ww / 2) v v 0]
                             | None => [] end)
              else
                (match t1 with Some v => [mk_upd true npas pc iv jv o ww v v 0] | None => [] end) ++
                (match t2 with Some v => [mk_upd true npas pc iv jv (flip o) ww v v 0] | None => [] end))
           (seq 0 (S iv)).

Definition phi_vg (u v : Q) : Q * Q := (u * v / 2, u * v / 2).
Definition phi_mado (u v : Q) : Q * Q := (sqrt_lo (Qabs (u * v)) / 2, sqrt_hi (Qabs (u * v)) / 2).
(* rodogram: |u v|^(1/4) / 2 through two nested square-root enclosures *)
Definition phi_rodo (u v : Q) : Q * Q := (sqrt_lo (sqrt_lo (Qabs (u * v))) / 2, sqrt_hi (sqrt_hi (Qabs (u * v))) / 2).
Definition phi_o4 (u v : Q) : Q * Q := (u * v * (u * v) / 2, u * v * (u * v) / 2).

Definition evaluate (cf : cfg) (npas : nat) (means : list Q) (pc : pctx) (a b : sample) : list upd :=
  let w1 := p_w1 pc in let w2 := p_w2 pc in
  let ivs := seq 0 (c_nvar cf) in
  match c_calc cf with
  | Vg => flat_map (eval_sym npas pc a b (w1 * w2) phi_vg (fun _ => 0)) ivs
  | Mado => flat_map (eval_sym npas pc a b (w1 * w2) phi_mado (fun _ => 0)) ivs
  | Rodo => flat_map (eval_sym npas pc a b (w1 * w2) phi_rodo (fun _ => 0)) ivs
  | Order4 => flat_map (eval_sym npas pc a b (w1 * w2) phi_o4 (fun _ => 0)) ivs
  | Poisson => flat_map (eval_sym npas pc a b (w1 * w2 / (w1 + w2)) phi_vg
                                  (fun iv => - nth iv means 0 / 2)) ivs    (* _setResult: gg += -getMean(ivar)/2 *)
  | Cov | CovNC => flat_map (eval_asym npas pc a b (w1 * w2)) ivs
  | Covg => flat_map (eval_asym npas pc a b w2) ivs
  end.

(* everything that happens to one pair (iech = a, jech = b) after the selection tests:
   keepPair (geometry, date), getLagRank, _evaluate *)
Definition pair_updates (cf : cfg) (d : dirp) (means : list Q) (a b : sample) : list upd :=
  let g := geo_of (d_codir d) (vsub (s_x b) (s_x a)) in
  match isOK d (is_asym (c_calc cf)) g with
  | Rej => []
  | Acc neg =>
      if c_dateChk cf && negb (date_ok d a b) then []
      else match lag_rank d (g_d2 g) with
           | None => []
           | Some k =>
               (* orient = (dist > 0) ? 1 : -1 with dist the oriented distance *)
               let o := if qltb 0 (g_d2 g) && negb neg then Oplus else Ominus in
               evaluate cf (d_npas d) means
                        {| p_w1 := get_weight cf a; p_w2 := get_weight cf b;
                           p_dlo := sqrt_lo (g_d2 g); p_dhi := sqrt_hi (g_d2 g); p_ipas := k; p_orient := o;
                           p_coinc := qleb (g_d2 g) 0 |} a b
           end
  end.

(* ------------------------------------------------------------------ pair enumeration *)
(* inner loop, partners AFTER the first sample in the sorted order (jjech > iiech):
   "dx1 = x1(jech) - x1(iech); if (dx1 > maxdist) break; if (hasSel && !isActive(jech)) continue;" *)
Fixpoint inner_after (cf : cfg) (md : Q) (a : sample) (js : list sample) : list (sample * sample) :=
  match js with
  | [] => []
  | b :: r => if qltb md (x1 b - x1 a) then []
              else if skip cf b then inner_after cf md a r else (a, b) :: inner_after cf md a r
  end.
(* partners BEFORE it (jjech < iiech, date mode only): "if (-dx1 > maxdist) continue;" *)
Fixpoint inner_before (cf : cfg) (md : Q) (a : sample) (js : list sample) : list (sample * sample) :=
  match js with
  | [] => []
  | b :: r => if qltb md (x1 a - x1 b) then inner_before cf md a r
              else if skip cf b then inner_before cf md a r else (a, b) :: inner_before cf md a r
  end.
(* the partners visited for the first sample [a]; [pre] = samples before it, [rest] = samples after it;
   ideb = hasDate ? 0 : iiech + 1, "if (jjech == iiech) continue" *)
Definition partners (cf : cfg) (md : Q) (pre : list sample) (a : sample) (rest : list sample) : list (sample * sample) :=
  (if c_dateLoop cf then inner_before cf md a pre else []) ++ inner_after cf md a rest.
(* _calculateGeneralSolution1: "for iiech < nech" *)
Fixpoint outer1 (cf : cfg) (md : Q) (pre cur : list sample) : list (sample * sample) :=
  match cur with
  | [] => []
  | a :: rest => (if skip cf a then [] else partners cf md pre a rest) ++ outer1 cf md (pre ++ [a]) rest
  end.
(* the pairs reaching keepPair in _calculateGeneralSolution1 *)
Definition reached1 (cf : cfg) (d : dirp) (l : list sample) : list (sample * sample) :=
  outer1 cf (maxdist d) [] (sort_x1 l).

(* ------------------------------------------------------------------ Vario::_getStatistics (mean only) *)
(* weighted mean of a variable over the active samples where it is defined (0 when the total weight is not positive) *)
Definition stat_mean (cf : cfg) (l : list sample) (iv : nat) : Q :=
  let act := filter (is_active cf) l in
  let s1w := fold_left (fun acc s => match zval s iv with Some _ => acc + get_weight cf s | None => acc end) act 0 in
  let s1z := fold_left (fun acc s => match zval s iv with Some z => acc + get_weight cf s * z | None => acc end) act 0 in
  if qleb s1w 0 then 0 else s1z / s1w.
Definition stat_means (cf : cfg) (l : list sample) : list Q := map (stat_mean cf l) (seq 0 (c_nvar cf)).

(* ------------------------------------------------------------------ scaling *)
Record ocell := { o_sw : Q; o_hh : option (Q * Q); o_gg : option (Q * Q) }.   (* None = TEST / NaN *)

Definition iv_abs_neg (p : Q * Q) : Q * Q :=     (* -|x| for x in [lo, hi] *)
  let (lo, hi) := p in
  if qleb 0 lo then (- hi, - lo) else if qleb hi 0 then (lo, hi) else (Qmin lo (- hi), 0).
Definition iv_div (p : Q * Q) (s : Q) : Q * Q := (Qred (fst p / s), Qred (snd p / s)).   (* s > 0 *)
Definition iv_sub (p : Q * Q) (m : Q) : Q * Q := (Qred (fst p - m), Qred (snd p - m)).

(* Vario::_rescale for one cell; [i] is the lag index inside its variable-pair block *)
Definition rescale_cell (cf : cfg) (npas i : nat) (c : cell) : ocell :=
  if qleb (a_sw c) 0 then {| o_sw := a_sw c; o_hh := None; o_gg := None |}
  else
    let hh := iv_div (a_hlo c, a_hhi c) (a_sw c) in
    let hh' := if is_asym (c_calc cf) && Nat.ltb i npas then iv_abs_neg hh else hh in
    let gg := match c_calc cf with Covg => (a_glo c, a_ghi c) | _ => iv_div (a_glo c, a_ghi c) (a_sw c) end in
    {| o_sw := a_sw c; o_hh := Some hh'; o_gg := Some gg |}.
Fixpoint mapi_aux {A B} (f : nat -> A -> B) (i : nat) (l : list A) : list B :=
  match l with [] => [] | x :: r => f i x :: mapi_aux f (S i) r end.
Definition mapi {A B} (f : nat -> A -> B) (l : list A) : list B := mapi_aux f 0 l.
Definition rescale (cf : cfg) (npas : nat) (arr : list cell) : list ocell :=
  let nt := nlagtot (is_asym (c_calc cf)) npas in
  mapi (fun j c => rescale_cell cf npas (Nat.modulo j nt) c) arr.

(* sums over the active samples with both variables defined (shared by _centerCovariance and _patchC00) *)
Record gstat := { t_sumw : Q; t_m1 : Q; t_m2 : Q; t_s12w : Q; t_s12wzz : Q }.
Definition gstats (cf : cfg) (l : list sample) (iv jv : nat) : gstat :=
  fold_left (fun t s =>
     if is_active cf s then
       let ww := get_weight cf s in      (* "FFFF(ww) || ww < 0" is dead: getWeight is >= 0 and never TEST *)
       match zval s iv, zval s jv with
       | Some z1, Some z2 =>
           let scale := match c_calc cf with Covg => ww | _ => ww * ww end in
           {| t_sumw := qadd (t_sumw t) ww; t_m1 := qadd (t_m1 t) (ww * z1); t_m2 := qadd (t_m2 t) (ww * z2);
              t_s12w := match c_calc cf with Covg => t_s12w t | _ => qadd (t_s12w t) scale end;
              t_s12wzz := qadd (t_s12wzz t) (scale * (z1 * z2)) |}
       | _, _ => t
       end
     else t) l {| t_sumw := 0; t_m1 := 0; t_m2 := 0; t_s12w := 0; t_s12wzz := 0 |}.
Definition norm_means (cf : cfg) (t : gstat) : Q * Q :=
  if qltb 0 (t_sumw t) && (match c_calc cf with Cov | CovNC => true | _ => false end)
  then (t_m1 t / t_sumw t, t_m2 t / t_sumw t) else (t_m1 t, t_m2 t).

(* Vario::_centerCovariance then Vario::_patchC00 for the cell at position [i] of the block (ivar, jvar) *)
Definition center_patch_cell (cf : cfg) (npas : nat) (t : gstat) (i : nat) (c : ocell) : ocell :=
  let (m1, m2) := norm_means cf t in
  let centred :=
    match c_calc cf with
    | Cov => if qltb 0 (o_sw c)
             then {| o_sw := o_sw c; o_hh := o_hh c;
                     o_gg := match o_gg c with Some g => Some (iv_sub g (m1 * m2)) | None => None end |}
             else c
    | _ => c
    end in
  if Nat.eqb i npas then
    let gg := match c_calc cf with
              | Covg => Some (t_s12wzz t, t_s12wzz t)
              | CovNC => if qeqb (t_s12w t) 0 then None
                         else Some (Qred (t_s12wzz t / t_s12w t), Qred (t_s12wzz t / t_s12w t))
              | _ => if qeqb (t_s12w t) 0 then None
                     else Some (Qred (t_s12wzz t / t_s12w t - m1 * m2), Qred (t_s12wzz t / t_s12w t - m1 * m2))
              end in
    {| o_sw := t_sumw t; o_hh := Some (0, 0); o_gg := gg |}
  else centred.

(* the block of one variable pair: cells [rank * nt, (rank+1) * nt) *)
Definition block {A} (nt rank : nat) (l : list A) : list A := firstn nt (skipn (rank * nt) l).
Definition var_pairs (nvar : nat) : list (nat * nat) :=
  flat_map (fun iv => map (fun jv => (iv, jv)) (seq 0 (S iv))) (seq 0 nvar).

Definition finish (cf : cfg) (d : dirp) (l : list sample) (arr : list cell) : list (list ocell) :=
  let asym := is_asym (c_calc cf) in
  let nt := nlagtot asym (d_npas d) in
  let res := rescale cf (d_npas d) arr in
  map (fun p : nat * nat =>
         let (iv, jv) := p in
         let blk := block nt (var_rank iv jv) res in
         if asym then mapi (center_patch_cell cf (d_npas d) (gstats cf l iv jv)) blk else blk)
      (var_pairs (c_nvar cf)).

(* ------------------------------------------------------------------ solution 1 *)
Definition zero_arr (cf : cfg) (d : dirp) : list cell :=
  repeat cell0 (dir_size (is_asym (c_calc cf)) (d_npas d) (c_nvar cf)).
Definition accumulate1 (cf : cfg) (d : dirp) (l : list sample) : list cell :=
  let means := stat_means cf l in
  apply_upds (zero_arr cf d) (flat_map (fun p => pair_updates cf d means (fst p) (snd p)) (reached1 cf d l)).
Definition solution1 (cf : cfg) (d : dirp) (l : list sample) : list (list ocell) :=
  finish cf d l (accumulate1 cf d l).

(* ------------------------------------------------------------------ solution 2 (by sample; forced for the covariogram) *)
(* "Cumulate to the global variogram": the ratios of the accumulators of the current first sample *)
Definition cumulate (w1 : Q) (arr sums : list cell) : list cell :=
  map (fun cs : cell * cell =>
         let (c, s) := cs in
         if qleb (a_sw c) 0 then s
         else {| a_sw := qadd (a_sw s) w1;
                 a_hlo := qadd (a_hlo s) (w1 * a_hlo c / a_sw c); a_hhi := qadd (a_hhi s) (w1 * a_hhi c / a_sw c);
                 a_glo := qadd (a_glo s) (w1 * a_glo c / a_sw c); a_ghi := qadd (a_ghi s) (w1 * a_ghi c / a_sw c) |})
      (combine arr sums).
(* the accumulators are reset for every first sample (they hold its own pairs only) *)
Fixpoint outer2 (cf : cfg) (d : dirp) (means : list Q) (pre cur : list sample) (sums : list cell) : list cell :=
  match cur with
  | [] => sums
  | a :: rest =>
      if skip cf a then outer2 cf d means (pre ++ [a]) rest sums
      else
        let own := apply_upds (zero_arr cf d)
                     (flat_map (fun p => pair_updates cf d means (fst p) (snd p)) (partners cf (maxdist d) pre a rest)) in
        outer2 cf d means (pre ++ [a]) rest (cumulate (get_weight cf a) own sums)
  end.
Definition solution2 (cf : cfg) (d : dirp) (l : list sample) : list (list ocell) :=
  finish cf d l (outer2 cf d (stat_means cf l) [] (sort_x1 l) (zero_arr cf d)).

(* Vario::_calculateGeneral: "if (getCalcul() == COVARIOGRAM) flag_sample = 1" *)
Definition compute_dir (cf : cfg) (flag_sample : bool) (d : dirp) (l : list sample) : list (list ocell) :=
  if flag_sample || (match c_calc cf with Covg => true | _ => false end)
  then solution2 cf d l else solution1 cf d l.

(* C12 proofs, part 2: DirParam::getLagRank decided on squares = the closed-form class condition. *)
From Coq Require Import List ZArith QArith Qabs Qround Qminmax Bool Lqa Lia.
From Gst Require Import lib.QAux C12.Model C12.Spec.
Import ListNotations.
Local Open Scope Q_scope.

Lemma injZ_le a b : (a <= b)%Z -> inject_Z a <= inject_Z b.
Proof. intro H. rewrite <- Zle_Qle. exact H. Qed.
Lemma injZ_lt a b : (a < b)%Z -> inject_Z a < inject_Z b.
Proof. intro H. rewrite <- Zlt_Qlt. exact H. Qed.
Lemma injZ_add1 a : inject_Z (a + 1) == inject_Z a + 1.
Proof. rewrite inject_Z_plus. reflexivity. Qed.

(* floor(sqrt r) for a non-negative rational r, through Z.sqrt of its floor *)
Lemma sqrt_floor_bounds r : 0 <= r ->
  let s := inject_Z (Z.sqrt (Qfloor r)) in 0 <= s /\ s * s <= r /\ r < (s + 1) * (s + 1).
Proof.
  intro Hr. cbv zeta.
  assert (Hn : (0 <= Qfloor r)%Z).
  { change 0%Z with (Qfloor 0). apply Qfloor_resp_le. exact Hr. }
  pose proof (Z.sqrt_spec (Qfloor r) Hn) as [Hlo Hhi].
  pose proof (Z.sqrt_nonneg (Qfloor r)) as Hs0.
  pose proof (Qfloor_le r) as Hfl. pose proof (Qlt_floor r) as Hfu.
  set (s := Z.sqrt (Qfloor r)) in *.
  assert (A : inject_Z (s * s) <= inject_Z (Qfloor r)) by (apply injZ_le; exact Hlo).
  assert (B : inject_Z (Qfloor r + 1) <= inject_Z ((s + 1) * (s + 1))) by (apply injZ_le; unfold Z.succ in Hhi; lia).
  rewrite inject_Z_mult in A. rewrite inject_Z_mult, !injZ_add1 in B. rewrite injZ_add1 in Hfu.
  assert (C : 0 <= inject_Z s) by (change 0 with (inject_Z 0); apply injZ_le; exact Hs0).
  repeat split; lra.
Qed.

Section Lag.
Variable d : dirp.
Hypothesis Hdp : 0 < d_dpas d.
Hypothesis Htol : 0 <= d_tol d.

Let del2 := d_dpas d * d_dpas d.
Lemma del2_pos : 0 < del2.
Proof. unfold del2. nra. Qed.

(* the rounding class of an integer k >= 0, on squares *)
Definition round_class (d2 : Q) (k : Z) : Prop :=
  (k = 0%Z \/ (2 * inject_Z k - 1) * (2 * inject_Z k - 1) * del2 <= 4 * d2) /\
  4 * d2 < (2 * inject_Z k + 1) * (2 * inject_Z k + 1) * del2.

Lemma lag_index_class d2 : 0 <= d2 -> (0 <= lag_index d d2)%Z /\ round_class d2 (lag_index d d2).
Proof.
  intro Hd2. pose proof del2_pos as Hdel.
  unfold lag_index. fold del2.
  set (r := 4 * d2 / del2).
  assert (Hr : r * del2 == 4 * d2) by (unfold r; field; lra).
  assert (Hr0 : 0 <= r).
  { destruct (Qlt_le_dec r 0) as [H|H]; [|exact H]. exfalso. nra. }
  destruct (sqrt_floor_bounds r Hr0) as (S0 & S1 & S2).
  set (sz := Z.sqrt (Qfloor r)) in *.
  set (k := ((sz + 1) / 2)%Z).
  assert (Hsz : (0 <= sz)%Z) by apply Z.sqrt_nonneg.
  assert (K1 : (2 * k <= sz + 1)%Z) by (unfold k; apply Z.mul_div_le; lia).
  assert (K2 : (sz + 1 < 2 * k + 2)%Z).
  { unfold k. pose proof (Z.mul_succ_div_gt (sz + 1) 2 ltac:(lia)). lia. }
  assert (K0 : (0 <= k)%Z) by (unfold k; apply Z.div_pos; lia).
  split; [exact K0|].
  assert (Q1 : 2 * inject_Z k - 1 <= inject_Z sz).
  { assert (H : inject_Z (2 * k) <= inject_Z (sz + 1)) by (apply injZ_le; exact K1).
    rewrite inject_Z_mult, injZ_add1 in H. change (inject_Z 2) with 2 in H. lra. }
  assert (Q2 : inject_Z sz + 1 <= 2 * inject_Z k + 1).
  { assert (H : inject_Z (sz + 1) <= inject_Z (2 * k + 1)) by (apply injZ_le; lia).
    rewrite !injZ_add1, inject_Z_mult in H. change (inject_Z 2) with 2 in H. lra. }
  split.
  - destruct (Z.eq_dec k 0) as [E|E]; [left; exact E|right].
    assert (Q3 : 1 <= inject_Z k) by (change 1 with (inject_Z 1); apply injZ_le; lia).
    assert (Q4 : (2 * inject_Z k - 1) * (2 * inject_Z k - 1) <= r) by nra.
    rewrite <- Hr. nra.
  - assert (Q4 : r < (2 * inject_Z k + 1) * (2 * inject_Z k + 1)) by nra.
    rewrite <- Hr. nra.
Qed.

Lemma round_class_unique d2 k k' :
  (0 <= k)%Z -> (0 <= k')%Z -> round_class d2 k -> round_class d2 k' -> k = k'.
Proof.
  pose proof del2_pos as Hdel.
  assert (Hlt : forall a b, (0 <= a)%Z -> (a < b)%Z -> round_class d2 a -> round_class d2 b -> False).
  { intros a b Ha Hab [_ Au] [Bl _].
    destruct Bl as [Bl|Bl]; [lia|].
    assert (Q1 : inject_Z a + 1 <= inject_Z b) by (rewrite <- injZ_add1; apply injZ_le; lia).
    assert (Q0 : 0 <= inject_Z a) by (change 0 with (inject_Z 0); apply injZ_le; exact Ha).
    assert (Q2 : (2 * inject_Z a + 1) * (2 * inject_Z a + 1) <= (2 * inject_Z b - 1) * (2 * inject_Z b - 1)) by nra.
    nra. }
  intros Hk Hk' C C'.
  destruct (Z.lt_trichotomy k k') as [H|[H|H]]; [exfalso; eauto|exact H|exfalso; eauto].
Qed.

(* DirParam::getLagRank  =  closed-form class condition *)
Lemma lag_rank_in_class d2 kn : 0 <= d2 -> (lag_rank d d2 = Some kn <-> in_class d d2 kn).
Proof.
  intro Hd2. pose proof del2_pos as Hdel.
  destruct (lag_index_class d2 Hd2) as [K0 KC].
  unfold lag_rank, in_class. fold del2. cbv zeta.
  set (k := lag_index d d2) in *.
  split.
  - destruct (qltb_spec ((inject_Z k + d_tol d) * (inject_Z k + d_tol d) * del2) d2) as [A|A]; cbn [orb]; [discriminate|].
    destruct (qltb_spec 0 (inject_Z k - d_tol d)) as [B|B]; cbn [andb].
    + destruct (qltb_spec d2 ((inject_Z k - d_tol d) * (inject_Z k - d_tol d) * del2)) as [C|C]; [discriminate|].
      destruct (Z.ltb_spec k 0) as [D|D]; cbn [orb]; [discriminate|].
      destruct (Z.leb_spec (Z.of_nat (d_npas d)) k) as [E|E]; [discriminate|].
      intro H; inversion H; subst kn. rewrite Z2Nat.id by exact K0.
      destruct KC as [KC1 KC2].
      repeat split; try lra; try lia.
      all: try (destruct KC1 as [KC1|KC1]; [left; lia|right; exact KC1]).
      all: try (right; lra).
    + destruct (Z.ltb_spec k 0) as [D|D]; cbn [orb]; [discriminate|].
      destruct (Z.leb_spec (Z.of_nat (d_npas d)) k) as [E|E]; [discriminate|].
      intro H; inversion H; subst kn. rewrite Z2Nat.id by exact K0.
      destruct KC as [KC1 KC2].
      repeat split; try lra; try lia.
      all: try (destruct KC1 as [KC1|KC1]; [left; lia|right; exact KC1]).
      all: try (left; lra).
  - intros (N & R1 & R2 & T1 & T2).
    assert (Ek : k = Z.of_nat kn).
    { apply (round_class_unique d2); [exact K0|lia|exact KC|].
      split; [|exact R2]. destruct R1 as [R1|R1]; [left; lia|right; exact R1]. }
    rewrite Ek.
    destruct (qltb_spec ((inject_Z (Z.of_nat kn) + d_tol d) * (inject_Z (Z.of_nat kn) + d_tol d) * del2) d2) as [A|A]; [exfalso; lra|].
    cbn [orb].
    assert (Hb : (qltb 0 (inject_Z (Z.of_nat kn) - d_tol d) &&
                  qltb d2 ((inject_Z (Z.of_nat kn) - d_tol d) * (inject_Z (Z.of_nat kn) - d_tol d) * del2)) = false).
    { destruct (qltb_spec 0 (inject_Z (Z.of_nat kn) - d_tol d)) as [B|B]; [|reflexivity]. cbn [andb].
      apply qltb_false. destruct T1 as [T1|T1]; [exfalso; lra|exact T1]. }
    rewrite Hb.
    destruct (Z.ltb_spec (Z.of_nat kn) 0) as [D|D]; [lia|]. cbn [orb].
    destruct (Z.leb_spec (Z.of_nat (d_npas d)) (Z.of_nat kn)) as [E|E]; [lia|].
    rewrite Nat2Z.id. reflexivity.
Qed.

Lemma in_class_b_spec d2 kn : in_class_b d d2 kn = true <-> in_class d d2 kn.
Proof.
  unfold in_class_b, in_class. fold del2. cbv zeta.
  rewrite !andb_true_iff, !orb_true_iff, Nat.ltb_lt, Nat.eqb_eq, !qleb_true, qltb_true. tauto.
Qed.

(* at most one class contains a given squared distance *)
Lemma in_class_unique d2 k k' : in_class d d2 k -> in_class d d2 k' -> k = k'.
Proof.
  intros (N & R1 & R2 & _) (N' & R1' & R2' & _).
  apply Nat2Z.inj. apply (round_class_unique d2); try lia.
  - split; [|exact R2]. destruct R1 as [R1|R1]; [left; lia|right; exact R1].
  - split; [|exact R2']. destruct R1' as [R1'|R1']; [left; lia|right; exact R1'].
Qed.

Lemma find_in_class d2 n0 n :
  find (in_class_b d d2) (seq n0 n) = None <-> (forall k, (n0 <= k < n0 + n)%nat -> ~ in_class d d2 k).
Proof.
  revert n0. induction n as [|n IH]; intro n0; cbn [seq find].
  - split; [intros _ k Hk; lia|reflexivity].
  - destruct (in_class_b d d2 n0) eqn:E.
    + split; [discriminate|]. intro H. exfalso. apply (H n0); [lia|]. apply in_class_b_spec. exact E.
    + rewrite IH. split; intros H k Hk.
      * destruct (Nat.eq_dec k n0) as [->|Hne].
        -- intro C. apply in_class_b_spec in C. congruence.
        -- apply H. lia.
      * apply H. lia.
Qed.

(* the algorithm equals the search of the class by its closed form *)
Lemma lag_rank_eq_spec d2 : 0 <= d2 -> lag_rank d d2 = lag_spec d d2.
Proof.
  intro Hd2. unfold lag_spec.
  destruct (lag_rank d d2) as [k|] eqn:E.
  - apply (lag_rank_in_class d2 k Hd2) in E.
    destruct (find (in_class_b d d2) (seq 0 (d_npas d))) as [k'|] eqn:F.
    + apply find_some in F. destruct F as [_ F]. apply in_class_b_spec in F.
      f_equal. apply (in_class_unique d2); assumption.
    + exfalso. rewrite find_in_class in F. apply (F k); [|exact E]. destruct E as [N _]. lia.
  - destruct (find (in_class_b d d2) (seq 0 (d_npas d))) as [k'|] eqn:F; [|reflexivity].
    apply find_some in F. destruct F as [_ F]. apply in_class_b_spec in F.
    apply (lag_rank_in_class d2 k' Hd2) in F. congruence.
Qed.

(* the 1-D pruning test is sound for the pair it is applied to: a pair whose first coordinates differ by more
   than maxdist has no lag *)
Lemma beyond_maxdist_no_lag d2 dx :
  0 <= d2 -> dx * dx <= d2 -> maxdist d < dx -> lag_rank d d2 = None.
Proof.
  intros Hd2 Hdx Hmd. pose proof del2_pos as Hdel.
  destruct (lag_rank d d2) as [k|] eqn:E; [|reflexivity]. exfalso.
  apply (lag_rank_in_class d2 k Hd2) in E. destruct E as (N & _ & _ & _ & T2).
  fold del2 in T2. unfold maxdist in Hmd.
  assert (Q1 : inject_Z (Z.of_nat k) + 1 <= inject_Z (Z.of_nat (d_npas d))) by (rewrite <- injZ_add1; apply injZ_le; lia).
  assert (Q0 : 0 <= inject_Z (Z.of_nat k)) by (change 0 with (inject_Z 0); apply injZ_le; lia).
  set (kq := inject_Z (Z.of_nat k)) in *. set (nq := inject_Z (Z.of_nat (d_npas d))) in *.
  set (dp := d_dpas d) in *. set (tl := d_tol d) in *.
  assert (M0 : 0 <= dp * (nq + tl)) by nra.
  assert (M1 : (kq + tl) * dp <= dp * (nq + tl)) by nra.
  assert (M2 : 0 <= (kq + tl) * dp) by nra.
  assert (M3 : (kq + tl) * (kq + tl) * del2 == ((kq + tl) * dp) * ((kq + tl) * dp)) by (unfold del2; ring).
  assert (M4 : dp * (nq + tl) * (dp * (nq + tl)) < dx * dx) by nra.
  assert (M5 : ((kq + tl) * dp) * ((kq + tl) * dp) <= dp * (nq + tl) * (dp * (nq + tl))) by nra.
  lra.
Qed.
End Lag.

(* C12 — property theorems only. Each is closed by [exact] of a lemma of Proofs_*.v; Examples are non-vacuity /
   refutation witnesses computed on concrete data. No bound on the number of samples, variables or lags anywhere. *)
From Coq Require Import List ZArith QArith Bool Permutation Sorted.
From Gst Require Import lib.QAux C12.Model C12.Spec C12.Proofs.
Import ListNotations.
Local Open Scope Q_scope.

(* ------------------------------------------------------------------ sort (Db::getSortArray) *)
Theorem C12_sort : forall l, Permutation (sort_x1 l) l /\ StronglySorted le_x1 (sort_x1 l).
Proof. exact (fun l => conj (sort_perm l) (sort_sorted l)). Qed.
Print Assumptions C12_sort.

(* ------------------------------------------------------------------ enumeration *)
(* Without dates, the pairs reaching keepPair in _calculateGeneralSolution1 are exactly the pairs i<j of the sorted
   sample list whose two ends pass the selection test: the signed 1-D "break" never fires (it only costs time). *)
Theorem C12_enumeration : forall cf d l,
  c_dateLoop cf = false -> 0 < d_dpas d -> 0 <= d_tol d ->
  reached1 cf d l = filter (unskipped cf) (all_pairs (sort_x1 l)).
Proof. exact reached1_all_pairs. Qed.
Print Assumptions C12_enumeration.

(* With dates (inner loop restarted at 0) only soundness holds: what is evaluated is a pair of unskipped samples
   (possibly the pair of a sample with itself) ... *)
Theorem C12_enumeration_dates_sound : forall cf md all cur p,
  (forall x, In x cur -> In x all) -> In p (outer1 cf md all cur) ->
  In (fst p) all /\ In (snd p) all /\ skip cf (fst p) = false /\ skip cf (snd p) = false.
Proof. exact outer1_sound. Qed.
Print Assumptions C12_enumeration_dates_sound.

(* ... the 1-D test is right about the pair it is applied to ... *)
Theorem C12_break_pair_has_no_lag : forall d, 0 < d_dpas d -> 0 <= d_tol d ->
  forall d2 dx, 0 <= d2 -> dx * dx <= d2 -> maxdist d < dx -> lag_rank d d2 = None.
Proof. exact beyond_maxdist_no_lag. Qed.
Print Assumptions C12_break_pair_has_no_lag.

(* ... but completeness fails: samples at 0, 1, 5, 6 on a line, 3 lags of 1 (tolerance 1/2), date mode on without any
   date constraint: the pair {5,6} falls in lag 1, and neither (5,6) nor (6,5) is ever evaluated (for first point 5 the
   loop meets the sample at 0 first, 5 - 0 > 3.5, and breaks; 6 is last in the order and is never a first point). *)
Definition wit_s (x z : Q) : sample := {| s_x := [x]; s_sel := true; s_w := None; s_date := Some 0; s_z := [Some z] |}.
Definition wit_dir : dirp :=
  {| d_npas := 3; d_dpas := 1; d_tol := 1 # 2; d_psmin := 0; d_codir := [1]; d_bench := None; d_cyl := None;
     d_dmin := 0; d_dmax := 0 |}.
Definition wit_cf (dl : bool) : cfg :=
  {| c_calc := Vg; c_hasSel := false; c_hasW := false; c_dateLoop := dl; c_dateChk := false; c_nvar := 1 |}.
Definition wit_l : list sample := [wit_s 0 1; wit_s 1 3; wit_s 5 2; wit_s 6 5].
Example C12_enumeration_dates_refuted :
  let a := wit_s 5 2 in let b := wit_s 6 5 in
  In (a, b) (all_pairs wit_l) /\
  pair_updates (wit_cf true) wit_dir [0] a b <> [] /\
  existsb (fun p => (qeqb (x1 (fst p)) 5 && qeqb (x1 (snd p)) 6) || (qeqb (x1 (fst p)) 6 && qeqb (x1 (snd p)) 5))
          (reached1 (wit_cf true) wit_dir wit_l) = false /\
  (* the same data without the date mode: the pair is evaluated *)
  existsb (fun p => qeqb (x1 (fst p)) 5 && qeqb (x1 (snd p)) 6) (reached1 (wit_cf false) wit_dir wit_l) = true.
Proof.
  cbv zeta. split; [cbn; auto 10|]. split; [vm_compute; discriminate|]. split; vm_compute; reflexivity.
Qed.

(* ------------------------------------------------------------------ lag rank *)
Theorem C12_lagrank : forall d, 0 < d_dpas d ->
  forall d2 k, 0 <= d2 -> (lag_rank d d2 = Some k <-> in_class d d2 k).
Proof. exact lag_rank_in_class. Qed.
Print Assumptions C12_lagrank.

Theorem C12_lagrank_unique_class : forall d, 0 < d_dpas d ->
  forall d2, 0 <= d2 -> lag_rank d d2 = lag_spec d d2.
Proof. exact lag_rank_eq_spec. Qed.
Print Assumptions C12_lagrank_unique_class.

Example C12_lagrank_nonvacuous :
  (* d = sqrt(13) ~ 3.606, lag 1.5, tolerance 1/4: 3.606 / 1.5 = 2.404 -> class 2, |3.606 - 3| = 0.606 > 0.375 -> none;
     d = sqrt(10) ~ 3.162: class 2, |3.162 - 3| = 0.162 <= 0.375 -> 2;  exact boundary d = 3.375 = (2 + 1/4) 1.5 -> 2 *)
  let d := {| d_npas := 4; d_dpas := 3 # 2; d_tol := 1 # 4; d_psmin := 0; d_codir := [1]; d_bench := None; d_cyl := None; d_dmin := 0; d_dmax := 0 |} in
  lag_rank d 13 = None /\ lag_rank d 10 = Some 2%nat /\ lag_rank d ((27 # 8) * (27 # 8)) = Some 2%nat /\
  lag_rank d ((9 # 2) * (9 # 2)) = Some 3%nat /\ lag_rank d ((15 # 4) * (15 # 4)) = None /\ lag_rank d 36 = None /\ in_class_b d 10 2 = true.
Proof. vm_compute. repeat split; reflexivity. Qed.

(* ------------------------------------------------------------------ geometric test *)
Theorem C12_geometry : forall d, 0 <= d_psmin d ->
  forall asym g, 0 < g_dn2 g -> (isOK d asym g <> Rej <-> accepted d g).
Proof. exact isOK_accepted. Qed.
Print Assumptions C12_geometry.

Theorem C12_orientation : forall d, 0 <= d_psmin d ->
  forall g neg, 0 < g_dn2 g -> isOK d true g = Acc neg -> neg = (qltb 0 (g_d2 g) && qltb (g_dproj g) 0).
Proof. exact isOK_orientation. Qed.
Print Assumptions C12_orientation.

Example C12_geometry_nonvacuous :
  (* direction (1,0), cos^2 of tolerance = 3/4 (30 degrees), cylinder 3/4, bench 1/2 *)
  let d := {| d_npas := 4; d_dpas := 1; d_tol := 1 # 2; d_psmin := 866 # 1000; d_codir := [1; 0]; d_bench := Some (1 # 2); d_cyl := Some (3 # 4);
              d_dmin := 0; d_dmax := 0 |} in
  isOK d true (geo_of [1; 0] [2; 1 # 2]) = Acc false /\ isOK d true (geo_of [1; 0] [-2; 1 # 2]) = Acc true /\
  isOK d true (geo_of [1; 0] [1; 1]) = Rej /\ isOK d true (geo_of [1; 0] [4; 7 # 8]) = Rej /\ isOK d true (geo_of [1;0] [0; 0]) = Acc false /\
  accepted_b d (geo_of [1; 0] [2; 1 # 2]) = true /\ accepted_b d (geo_of [1; 0] [4; 7 # 8]) = false.
Proof. vm_compute. repeat split; reflexivity. Qed.

(* ------------------------------------------------------------------ accumulation and estimators *)
(* after any sequence of _setResult calls every cell holds the sums of the increments addressed to it *)
Theorem C12_accumulate : forall n us k, (k < n)%nat ->
  cell_eq (nth k (apply_upds (repeat cell0 n) us) cell0) (spec_cell us k).
Proof. exact apply_upds_sums. Qed.
Print Assumptions C12_accumulate.

(* every estimator: each raw accumulator = sum, over ALL pairs i<j of usable samples (sorted order), of what _evaluate adds
   for that pair (nothing when the pair is rejected or falls in no lag) *)
Theorem C12_estimators_generic : forall cf d l k,
  c_dateLoop cf = false -> 0 < d_dpas d -> 0 <= d_tol d ->
  (k < dir_size (is_asym (c_calc cf)) (d_npas d) (c_nvar cf))%nat ->
  cell_eq (nth k (accumulate1 cf d l) cell0)
          (spec_cell (flat_map (fun p => pair_updates cf d (stat_means cf l) (fst p) (snd p))
                               (all_pairs (filter (usable cf) (sort_x1 l)))) k).
Proof. exact accumulate1_generic. Qed.
Print Assumptions C12_estimators_generic.

(* variogram: raw accumulators = the explicit pairwise sums over the data in their ORIGINAL order (closed-form lag class,
   declarative acceptance, both variables defined at both ends) *)
Theorem C12_estimators : forall cf d,
  c_calc cf = Vg -> c_dateLoop cf = false -> c_dateChk cf = false ->
  0 < d_dpas d -> 0 <= d_tol d -> 0 <= d_psmin d -> 0 < Qred (dot (d_codir d) (d_codir d)) ->
  forall l iv jv k, (jv <= iv)%nat -> (iv < c_nvar cf)%nat -> (k < d_npas d)%nat ->
  let c := nth (dir_address false (d_npas d) iv jv k Ozero) (accumulate1 cf d l) cell0 in
  a_sw c == vg_sw cf d iv jv k l /\ a_glo c == vg_num cf d iv jv k l /\ a_ghi c == vg_num cf d iv jv k l.
Proof. exact accumulate1_vg. Qed.
Print Assumptions C12_estimators.

(* ... and what is reported after Vario::_rescale: sw = total weight of the lag, gg = the defining average, TEST when empty *)
Theorem C12_reports : forall cf d,
  c_calc cf = Vg -> c_dateLoop cf = false -> c_dateChk cf = false ->
  0 < d_dpas d -> 0 <= d_tol d -> 0 <= d_psmin d -> 0 < Qred (dot (d_codir d) (d_codir d)) ->
  forall l iv jv k, (jv <= iv)%nat -> (iv < c_nvar cf)%nat -> (k < d_npas d)%nat ->
  exists oc,
    nth_error (block (d_npas d) (var_rank iv jv) (rescale cf (d_npas d) (accumulate1 cf d l))) k = Some oc /\
    o_sw oc == vg_sw cf d iv jv k l /\
    (vg_sw cf d iv jv k l <= 0 -> o_gg oc = None /\ o_hh oc = None) /\
    (0 < vg_sw cf d iv jv k l -> exists g, o_gg oc = Some (g, g) /\ g == vg_num cf d iv jv k l / vg_sw cf d iv jv k l).
Proof. intros cf d H1 H2 H3 H4 H5 H6 H7. exact (solution1_vg_reports cf d H1 H2 H3 H4 H5 H6 H7). Qed.
Print Assumptions C12_reports.

Theorem C12_reports_layout : forall cf d l, is_asym (c_calc cf) = false ->
  solution1 cf d l =
  map (fun p : nat * nat => block (d_npas d) (var_rank (fst p) (snd p)) (rescale cf (d_npas d) (accumulate1 cf d l)))
      (var_pairs (c_nvar cf)).
Proof. exact solution1_sym_blocks. Qed.
Print Assumptions C12_reports_layout.

(* covariance (centred or not), raw accumulators of the side o = Oplus / Ominus of lag k: sums of the explicit pair terms
   [cov_pair] (weight w_a w_b; z_i(a) z_j(b) on the side where b lies ahead of a, z_i(b) z_j(a) on the other side; the code's
   convention that variable i must be known at both ends).  Pairs are taken in the order of the first coordinate: *)
Theorem C12_estimators_cov_partial : forall cf d,
  c_calc cf = Cov \/ c_calc cf = CovNC -> c_dateLoop cf = false -> c_dateChk cf = false ->
  0 < d_dpas d -> 0 <= d_tol d -> 0 <= d_psmin d -> 0 < Qred (dot (d_codir d) (d_codir d)) ->
  forall l iv jv k o, (jv <= iv)%nat -> (iv < c_nvar cf)%nat -> (k < d_npas d)%nat -> o <> Ozero ->
  let c := nth (dir_address true (d_npas d) iv jv k o) (accumulate1 cf d l) cell0 in
  let L := filter (usable cf) (sort_x1 l) in
  a_sw c == pair_sum (fun a b => fst (cov_pair cf d iv jv k o a b)) L /\
  a_glo c == pair_sum (fun a b => snd (cov_pair cf d iv jv k o a b)) L /\
  a_ghi c == pair_sum (fun a b => snd (cov_pair cf d iv jv k o a b)) L.
Proof. exact accumulate1_cov. Qed.
Print Assumptions C12_estimators_cov_partial.

(* ... and over the data in ANY order as soon as every pair that can fall in the lag has a non-zero projection on the direction
   (no coincident samples, no pair orthogonal to the direction); without that hypothesis see C12_permutation_refuted *)
Theorem C12_estimators_cov : forall cf d,
  c_calc cf = Cov \/ c_calc cf = CovNC -> c_dateLoop cf = false -> c_dateChk cf = false ->
  0 < d_dpas d -> 0 <= d_tol d -> 0 <= d_psmin d -> 0 < Qred (dot (d_codir d) (d_codir d)) ->
  forall l iv jv k o, (jv <= iv)%nat -> (iv < c_nvar cf)%nat -> (k < d_npas d)%nat -> o <> Ozero ->
  (forall a b, In a l -> In b l -> a = b \/ ~ g_dproj (geo_pair d a b) == 0 \/ pair_in d k a b = false) ->
  let c := nth (dir_address true (d_npas d) iv jv k o) (accumulate1 cf d l) cell0 in
  let L := filter (usable cf) l in
  a_sw c == pair_sum (fun a b => fst (cov_pair cf d iv jv k o a b)) L /\
  a_glo c == pair_sum (fun a b => snd (cov_pair cf d iv jv k o a b)) L /\
  a_ghi c == pair_sum (fun a b => snd (cov_pair cf d iv jv k o a b)) L.
Proof. exact accumulate1_cov_unordered. Qed.
Print Assumptions C12_estimators_cov.

(* hh is reported through enclosures of the square roots *)
Theorem C12_sqrt_enclosure : forall x, 0 <= x ->
  0 <= sqrt_lo x /\ sqrt_lo x * sqrt_lo x <= x /\ x < sqrt_hi x * sqrt_hi x /\ sqrt_hi x == sqrt_lo x + 1 / inject_Z sq_prec.
Proof. exact sqrt_enclosure. Qed.
Print Assumptions C12_sqrt_enclosure.

Definition ex_s (x y z1 : Q) (z2 : option Q) (w : option Q) (sel : bool) : sample :=
  {| s_x := [x; y]; s_sel := sel; s_w := w; s_date := None; s_z := [Some z1; z2] |}.
Definition ex_l : list sample :=
  [ex_s 2 0 1 (Some 4) (Some 2) true; ex_s 0 0 3 (Some 1) None true; ex_s 1 0 2 None (Some (1 # 2)) true;
   ex_s 0 1 7 (Some 2) (Some 1) true; ex_s 1 0 5 (Some 0) (Some 3) false; ex_s 3 0 0 (Some 9) (Some (-1)) true].
Definition ex_d : dirp :=
  {| d_npas := 3; d_dpas := 1; d_tol := 1 # 4; d_psmin := 1 # 2; d_codir := [1; 0]; d_bench := None; d_cyl := None; d_dmin := 0; d_dmax := 0 |}.
Definition ex_cf (c : calc) : cfg := {| c_calc := c; c_hasSel := true; c_hasW := true; c_dateLoop := false; c_dateChk := false; c_nvar := 2 |}.
Example C12_estimators_nonvacuous :
  (* 2 variables with a missing value, weights (one TEST, one negative), a masked sample, unsorted first coordinates:
     lag 1 of variable 1 holds the pairs at (0,0)-(1,0) and (1,0)-(2,0) with weights 1*(1/2) and (1/2)*2;
     lag 2 of the cross term holds (0,0)-(2,0) and (0,1)-(2,0) (distance sqrt 5, inside both tolerances) *)
  vg_sw (ex_cf Vg) ex_d 0 0 1 ex_l == 3 # 2 /\ vg_num (ex_cf Vg) ex_d 0 0 1 ex_l == 3 # 4 /\
  a_sw (nth (dir_address false 3 0 0 1 Ozero) (accumulate1 (ex_cf Vg) ex_d ex_l) cell0) == 3 # 2 /\
  vg_sw (ex_cf Vg) ex_d 1 0 2 ex_l == 4 /\ vg_num (ex_cf Vg) ex_d 1 0 2 ex_l == -18 /\
  a_glo (nth (dir_address false 3 1 0 2 Ozero) (accumulate1 (ex_cf Vg) ex_d ex_l) cell0) == -18.
Proof. vm_compute. repeat split; reflexivity. Qed.

Example C12_estimators_cov_nonvacuous :
  (* cross covariance of the two variables at lag 2: the pairs (0,0)-(2,0) and (0,1)-(2,0), weight 2 each; side "+" holds
     z_2(behind) z_1(ahead) = 1*1 + 2*1 (times 2), side "-" holds z_2(ahead) z_1(behind) = 4*3 + 4*7 (times 2);
     every pair of ex_l that falls in lag 2 has a direction *)
  let cf := ex_cf CovNC in
  let cp := nth (dir_address true 3 1 0 2 Oplus) (accumulate1 cf ex_d ex_l) cell0 in
  let cm := nth (dir_address true 3 1 0 2 Ominus) (accumulate1 cf ex_d ex_l) cell0 in
  a_sw cp == 4 /\ a_glo cp == 6 /\ a_sw cm == 4 /\ a_glo cm == 80 /\
  pair_sum (fun a b => fst (cov_pair cf ex_d 1 0 2 Oplus a b)) (filter (usable cf) ex_l) == 4 /\
  pair_sum (fun a b => snd (cov_pair cf ex_d 1 0 2 Oplus a b)) (filter (usable cf) ex_l) == 6 /\
  pair_sum (fun a b => snd (cov_pair cf ex_d 1 0 2 Ominus a b)) (filter (usable cf) ex_l) == 80 /\
  forallb (fun p => negb (qeqb (g_dproj (geo_pair ex_d (fst p) (snd p))) 0) || negb (pair_in ex_d 2 (fst p) (snd p)))
          (all_pairs (filter (usable cf) ex_l)) = true.
Proof. vm_compute. repeat split; reflexivity. Qed.

(* ------------------------------------------------------------------ symmetry in the two variables *)
Theorem C12_symmetry : forall asym npas iv jv k o cf d l,
  dir_address asym npas iv jv k o = dir_address asym npas jv iv k o /\
  vg_sw cf d iv jv k l == vg_sw cf d jv iv k l /\ vg_num cf d iv jv k l == vg_num cf d jv iv k l.
Proof. exact (fun asym npas iv jv k o cf d l => conj (dir_address_sym asym npas iv jv k o) (vg_sym cf d iv jv k l)). Qed.
Print Assumptions C12_symmetry.

(* ------------------------------------------------------------------ permutation of the samples *)
Theorem C12_permutation_spec : forall cf d iv jv k l l',
  Permutation l l' -> vg_sw cf d iv jv k l == vg_sw cf d iv jv k l' /\ vg_num cf d iv jv k l == vg_num cf d iv jv k l'.
Proof. exact vg_sums_perm. Qed.
Print Assumptions C12_permutation_spec.

Theorem C12_permutation : forall cf d l l' iv jv k,
  c_calc cf = Vg -> c_dateLoop cf = false -> c_dateChk cf = false ->
  0 < d_dpas d -> 0 <= d_tol d -> 0 <= d_psmin d -> 0 < Qred (dot (d_codir d) (d_codir d)) ->
  (jv <= iv)%nat -> (iv < c_nvar cf)%nat -> (k < d_npas d)%nat ->
  Permutation l l' ->
  let adr := dir_address false (d_npas d) iv jv k Ozero in
  a_sw (nth adr (accumulate1 cf d l) cell0) == a_sw (nth adr (accumulate1 cf d l') cell0) /\
  a_glo (nth adr (accumulate1 cf d l) cell0) == a_glo (nth adr (accumulate1 cf d l') cell0) /\
  a_ghi (nth adr (accumulate1 cf d l) cell0) == a_ghi (nth adr (accumulate1 cf d l') cell0).
Proof. exact accumulate1_vg_perm. Qed.
Print Assumptions C12_permutation.

(* For the asymmetric estimators invariance fails: two samples at the same place (or any pair orthogonal to the direction)
   have no orientation, _evaluateCovariance then puts z_i(first) z_j(second) on the "-" side and z_i(second) z_j(first) on the
   "+" side, "first" being decided by the order of the samples. *)
Definition dup_s (x z1 z2 : Q) : sample := {| s_x := [x]; s_sel := true; s_w := None; s_date := None; s_z := [Some z1; Some z2] |}.
Definition dup_cf : cfg := {| c_calc := CovNC; c_hasSel := false; c_hasW := false; c_dateLoop := false; c_dateChk := false; c_nvar := 2 |}.
Definition dup_d : dirp := {| d_npas := 2; d_dpas := 1; d_tol := 1 # 2; d_psmin := 0; d_codir := [1]; d_bench := None; d_cyl := None; d_dmin := 0; d_dmax := 0 |}.
Example C12_permutation_refuted :
  let l := [dup_s 0 1 10; dup_s 0 3 20; dup_s 1 2 50] in
  let l' := [dup_s 0 3 20; dup_s 0 1 10; dup_s 1 2 50] in
  Permutation l l' /\
  map o_gg (nth 1 (solution1 dup_cf dup_d l) []) = [Some (100, 100); Some (30, 30); Some (170 # 3, 170 # 3); Some (20, 20); Some (30, 30)] /\
  map o_gg (nth 1 (solution1 dup_cf dup_d l') []) = [Some (100, 100); Some (20, 20); Some (170 # 3, 170 # 3); Some (30, 30); Some (30, 30)].
Proof. cbv zeta. split; [apply perm_swap|]. split; vm_compute; reflexivity. Qed.

(* ------------------------------------------------------------------ translation of the coordinates *)
Theorem C12_translation : forall t cf d l,
  Forall (fun s => length (s_x s) = length t) l -> solution1 cf d (map (translate t) l) = solution1 cf d l.
Proof. exact solution1_translate. Qed.
Print Assumptions C12_translation.

Example C12_translation_nonvacuous :
  let t := [1000 # 1; -(517 # 2)] in
  Forall (fun s => length (s_x s) = length t) ex_l /\
  solution1 (ex_cf Cov) ex_d (map (translate t) ex_l) = solution1 (ex_cf Cov) ex_d ex_l /\
  existsb (fun c => qltb 0 (o_sw c)) (nth 0 (solution1 (ex_cf Cov) ex_d ex_l) []) = true.
Proof. cbv zeta. split; [repeat constructor|]. split; vm_compute; reflexivity. Qed.

(* ------------------------------------------------------------------ by-sample algorithm (flag_sample, covariogram) *)
(* the accumulators are not reset between two first samples: the result is not the by-sample average *)
Example C12_bysample_refuted :
  let cf := {| c_calc := Vg; c_hasSel := false; c_hasW := false; c_dateLoop := false; c_dateChk := false; c_nvar := 1 |} in
  let l := [wit_s 0 1; wit_s 1 3; wit_s 2 2; wit_s 3 5; wit_s 4 7] in
  map o_gg (nth 0 (solution2 cf wit_dir l) []) = [None; Some (121 # 60, 121 # 60); Some (67 # 20, 67 # 20)] /\
  map o_gg (nth 0 (spec_solution2 cf wit_dir l) []) = [None; Some (9 # 4, 9 # 4); Some (5, 5)] /\
  (* mirrored data: the by-sample average is unchanged, the implemented quantity is not *)
  let l' := [wit_s 4 1; wit_s 3 3; wit_s 2 2; wit_s 1 5; wit_s 0 7] in
  map o_gg (nth 0 (solution2 cf wit_dir l') []) = [None; Some (29 # 12, 29 # 12); Some (139 # 20, 139 # 20)] /\
  map o_gg (nth 0 (spec_solution2 cf wit_dir l') []) = [None; Some (9 # 4, 9 # 4); Some (5, 5)].
Proof. cbv zeta. repeat split; vm_compute; reflexivity. Qed.

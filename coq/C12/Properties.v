(* C12 — property theorems only. Each is closed by [exact] of a lemma of Proofs_*.v; Examples are non-vacuity /
   refutation witnesses computed on concrete data. No bound on the number of samples, variables or lags anywhere. *)
From Coq Require Import List ZArith QArith Bool Permutation Sorted Reals Qreals.
From Gst Require Import lib.QAux C12.Model C12.Spec C12.Proofs.
Import ListNotations.
Local Open Scope Q_scope.

(* ------------------------------------------------------------------ sort (Db::getSortArray) *)
Theorem C12_sort : forall l, Permutation (sort_x1 l) l /\ StronglySorted le_x1 (sort_x1 l).
Proof. exact (fun l => conj (sort_perm l) (sort_sorted l)). Qed.
Print Assumptions C12_sort.

(* ------------------------------------------------------------------ enumeration *)
(* [loop_pairs dl [] srt] lists every pair the loops of _calculateGeneralSolution1 are meant to visit: (a, b) for b after a
   in the sorted list, and in date mode also (a, b) for b before a.  The loops skip some of them with the 1-D tests on the
   first coordinate (break for partners after, continue for partners before); what they skip never reaches the evaluator: *)
Theorem C12_enumeration : forall cf d n l,
  0 < d_dpas d -> 0 <= d_tol d -> Forall (same_dim n) l ->
  filter (evaluated cf d) (reached1 cf d l) =
  filter (evaluated cf d) (filter (unskipped cf) (loop_pairs (c_dateLoop cf) [] (sort_x1 l))).
Proof. exact reached1_evaluated. Qed.
Print Assumptions C12_enumeration.

(* the same for what the evaluators add (any list of means) *)
Theorem C12_enumeration_updates : forall cf d means n l,
  0 < d_dpas d -> 0 <= d_tol d -> Forall (same_dim n) l ->
  flat_map (fun p => pair_updates cf d means (fst p) (snd p)) (reached1 cf d l) =
  flat_map (fun p => pair_updates cf d means (fst p) (snd p))
           (filter (unskipped cf) (loop_pairs (c_dateLoop cf) [] (sort_x1 l))).
Proof. exact reached1_updates. Qed.
Print Assumptions C12_enumeration_updates.

(* without dates these are the unordered pairs i<j; with dates, as a multiset, every unordered pair in both orders *)
Theorem C12_enumeration_pairs : forall l,
  loop_pairs false [] l = all_pairs l /\ Permutation (loop_pairs true [] l) (ordered_pairs l).
Proof. exact (fun l => conj (loop_pairs_nodate [] l) (loop_pairs_ordered l)). Qed.
Print Assumptions C12_enumeration_pairs.

Theorem C12_enumeration_sound : forall cf md pre cur p,
  In p (outer1 cf md pre cur) ->
  In (fst p) cur /\ In (snd p) (pre ++ cur) /\ skip cf (fst p) = false /\ skip cf (snd p) = false.
Proof. exact outer1_sound. Qed.
Print Assumptions C12_enumeration_sound.

(* the 1-D test is right about every pair it discards *)
Theorem C12_break_pair_has_no_lag : forall d, 0 < d_dpas d -> 0 <= d_tol d ->
  forall d2 dx, 0 <= d2 -> dx * dx <= d2 -> maxdist d < dx -> lag_rank d d2 = None.
Proof. exact beyond_maxdist_no_lag. Qed.
Print Assumptions C12_break_pair_has_no_lag.

(* samples at 0, 1, 5, 6 on a line, 3 lags of 1 (tolerance 1/2): the 1-D tests discard (0,5), (0,6), (1,5), (1,6) and in date
   mode their reverses; {0,1} and {5,6} are evaluated, in date mode in both orders (former defect generalSolution:dates-break) *)
Definition wit_s (x z : Q) : sample := {| s_x := [x]; s_sel := true; s_w := None; s_date := Some 0; s_z := [Some z] |}.
Definition wit_dir : dirp :=
  {| d_npas := 3; d_dpas := 1; d_tol := 1 # 2; d_psmin := 0; d_codir := [1]; d_bench := None; d_cyl := None;
     d_dmin := 0; d_dmax := 0 |}.
Definition wit_cf (dl : bool) : cfg :=
  {| c_calc := Vg; c_hasSel := false; c_hasW := false; c_dateLoop := dl; c_dateChk := false; c_nvar := 1 |}.
Definition wit_l : list sample := [wit_s 0 1; wit_s 1 3; wit_s 5 2; wit_s 6 5].
Example C12_enumeration_nonvacuous :
  map (fun p => (x1 (fst p), x1 (snd p))) (filter (evaluated (wit_cf true) wit_dir) (reached1 (wit_cf true) wit_dir wit_l))
    = [(0, 1); (1, 0); (5, 6); (6, 5)] /\
  map (fun p => (x1 (fst p), x1 (snd p))) (filter (evaluated (wit_cf false) wit_dir) (reached1 (wit_cf false) wit_dir wit_l))
    = [(0, 1); (5, 6)] /\
  length (reached1 (wit_cf true) wit_dir wit_l) = 4%nat /\ length (loop_pairs true [] (sort_x1 wit_l)) = 12%nat /\
  map (fun c => (a_sw c, a_glo c)) (accumulate1 (wit_cf true) wit_dir wit_l) = [(0, 0); (4, 13); (0, 0)] /\
  map (fun c => (a_sw c, a_glo c)) (accumulate1 (wit_cf false) wit_dir wit_l) = [(0, 0); (2, 13 # 2); (0, 0)].
Proof. vm_compute. repeat split; reflexivity. Qed.

(* ------------------------------------------------------------------ lag rank *)
Theorem C12_lagrank : forall d, 0 < d_dpas d ->
  forall d2 k, 0 <= d2 -> (lag_rank d d2 = Some k <-> in_class d d2 k).
Proof. exact lag_rank_in_class. Qed.
Print Assumptions C12_lagrank.

Theorem C12_lagrank_unique_class : forall d, 0 < d_dpas d ->
  forall d2, 0 <= d2 -> lag_rank d d2 = lag_spec d d2.
Proof. exact lag_rank_eq_spec. Qed.
Print Assumptions C12_lagrank_unique_class.

(* the same over the reals: with s = sqrt(d2) (the real square root of the rational squared distance),
   getLagRank returns k iff  k < npas,  k - 1/2 <= s/dpas < k + 1/2  and  |s - k dpas| <= tol dpas *)
Theorem C12_lagrank_real : forall d d2 k, 0 < d_dpas d -> 0 <= d_tol d -> 0 <= d2 ->
  (lag_rank d d2 = Some k <-> in_class_R (d_npas d) (Q2R (d_dpas d)) (Q2R (d_tol d)) (Q2R d2) k).
Proof. exact lag_rank_real. Qed.
Print Assumptions C12_lagrank_real.

Example C12_lagrank_nonvacuous :
  (* d = sqrt(13) ~ 3.606, lag 1.5, tolerance 1/4: 3.606 / 1.5 = 2.404 -> class 2, |3.606 - 3| = 0.606 > 0.375 -> none;
     d = sqrt(10) ~ 3.162: class 2, |3.162 - 3| = 0.162 <= 0.375 -> 2;  exact boundary d = 3.375 = (2 + 1/4) 1.5 -> 2 *)
  let d := {| d_npas := 4; d_dpas := 3 # 2; d_tol := 1 # 4; d_psmin := 0; d_codir := [1]; d_bench := None; d_cyl := None; d_dmin := 0; d_dmax := 0 |} in
  lag_rank d 13 = None /\ lag_rank d 10 = Some 2%nat /\ lag_rank d ((27 # 8) * (27 # 8)) = Some 2%nat /\
  lag_rank d ((9 # 2) * (9 # 2)) = Some 3%nat /\ lag_rank d ((15 # 4) * (15 # 4)) = None /\ lag_rank d 36 = None /\ in_class_b d 10 2 = true.
Proof. vm_compute. repeat split; reflexivity. Qed.

(* ------------------------------------------------------------------ geometric test *)
Theorem C12_geometry : forall d, 0 <= d_psmin d ->
  forall asym g, 0 < g_dn2 g -> (isOK d asym g <> Rej <-> accepted d g).
Proof. exact isOK_accepted. Qed.
Print Assumptions C12_geometry.

Theorem C12_orientation : forall d, 0 <= d_psmin d ->
  forall g neg, 0 < g_dn2 g -> isOK d true g = Acc neg -> neg = (qltb 0 (g_d2 g) && qltb (g_dproj g) 0).
Proof. exact isOK_orientation. Qed.
Print Assumptions C12_orientation.

Example C12_geometry_nonvacuous :
  (* direction (1,0), cos^2 of tolerance = 3/4 (30 degrees), cylinder 3/4, bench 1/2 *)
  let d := {| d_npas := 4; d_dpas := 1; d_tol := 1 # 2; d_psmin := 866 # 1000; d_codir := [1; 0]; d_bench := Some (1 # 2); d_cyl := Some (3 # 4);
              d_dmin := 0; d_dmax := 0 |} in
  isOK d true (geo_of [1; 0] [2; 1 # 2]) = Acc false /\ isOK d true (geo_of [1; 0] [-2; 1 # 2]) = Acc true /\
  isOK d true (geo_of [1; 0] [1; 1]) = Rej /\ isOK d true (geo_of [1; 0] [4; 7 # 8]) = Rej /\ isOK d true (geo_of [1;0] [0; 0]) = Acc false /\
  accepted_b d (geo_of [1; 0] [2; 1 # 2]) = true /\ accepted_b d (geo_of [1; 0] [4; 7 # 8]) = false.
Proof. vm_compute. repeat split; reflexivity. Qed.

(* ------------------------------------------------------------------ accumulation and estimators *)
(* after any sequence of _setResult calls every cell holds the sums of the increments addressed to it *)
Theorem C12_accumulate : forall n us k, (k < n)%nat ->
  cell_eq (nth k (apply_upds (repeat cell0 n) us) cell0) (spec_cell us k).
Proof. exact apply_upds_sums. Qed.
Print Assumptions C12_accumulate.

(* every estimator, with or without dates: each raw accumulator = sum, over ALL the pairs of usable samples the loop is meant to
   visit, of what _evaluate adds for that pair (nothing when the pair is rejected or falls in no lag) *)
Theorem C12_estimators_generic : forall cf d n l k,
  0 < d_dpas d -> 0 <= d_tol d -> Forall (same_dim n) l ->
  (k < dir_size (is_asym (c_calc cf)) (d_npas d) (c_nvar cf))%nat ->
  cell_eq (nth k (accumulate1 cf d l) cell0)
          (spec_cell (flat_map (fun p => pair_updates cf d (stat_means cf l) (fst p) (snd p))
                               (filter (unskipped cf) (loop_pairs (c_dateLoop cf) [] (sort_x1 l)))) k).
Proof. exact accumulate1_generic. Qed.
Print Assumptions C12_estimators_generic.

(* variogram: raw accumulators = the explicit pairwise sums over the data in their ORIGINAL order (closed-form lag class,
   declarative acceptance, both variables defined at both ends) *)
Theorem C12_estimators : forall cf d,
  c_calc cf = Vg -> c_dateChk cf = false ->
  0 < d_dpas d -> 0 <= d_tol d -> 0 <= d_psmin d -> 0 < Qred (dot (d_codir d) (d_codir d)) ->
  forall n l iv jv k, c_dateLoop cf = false -> Forall (same_dim n) l ->
  (jv <= iv)%nat -> (iv < c_nvar cf)%nat -> (k < d_npas d)%nat ->
  let c := nth (dir_address false (d_npas d) iv jv k Ozero) (accumulate1 cf d l) cell0 in
  a_sw c == vg_sw cf d iv jv k l /\ a_glo c == vg_num cf d iv jv k l /\ a_ghi c == vg_num cf d iv jv k l.
Proof. exact accumulate1_vg. Qed.
Print Assumptions C12_estimators.

(* variogram in date mode (with or without a date interval): sums over the ORDERED pairs (a, b), a <> b, of the data in their
   original order, each passing the test date(b) - date(a) in [dmin, dmax) when an interval is in force *)
Theorem C12_estimators_dates : forall cf d n l iv jv k,
  c_calc cf = Vg -> c_dateLoop cf = true ->
  0 < d_dpas d -> 0 <= d_tol d -> 0 <= d_psmin d -> 0 < Qred (dot (d_codir d) (d_codir d)) ->
  Forall (same_dim n) l ->
  (jv <= iv)%nat -> (iv < c_nvar cf)%nat -> (k < d_npas d)%nat ->
  let c := nth (dir_address false (d_npas d) iv jv k Ozero) (accumulate1 cf d l) cell0 in
  a_sw c == opair_sum (vg_pair_sw cf d iv jv k) (filter (usable cf) l) /\
  a_glo c == opair_sum (vg_pair_num cf d iv jv k) (filter (usable cf) l) /\
  a_ghi c == opair_sum (vg_pair_num cf d iv jv k) (filter (usable cf) l).
Proof. exact accumulate1_vg_dates. Qed.
Print Assumptions C12_estimators_dates.

Definition dt_s (x z dt : Q) : sample := {| s_x := [x]; s_sel := true; s_w := None; s_date := Some dt; s_z := [Some z] |}.
Example C12_estimators_dates_nonvacuous :
  (* date interval [0, 2): of the ordered pairs at distance 1 only those going forward in time by less than 2 count *)
  let cf := {| c_calc := Vg; c_hasSel := false; c_hasW := false; c_dateLoop := true; c_dateChk := true; c_nvar := 1 |} in
  let d := {| d_npas := 3; d_dpas := 1; d_tol := 1 # 2; d_psmin := 0; d_codir := [1]; d_bench := None; d_cyl := None; d_dmin := 0; d_dmax := 2 |} in
  let l := [dt_s 0 1 5; dt_s 1 3 6; dt_s 2 2 3; dt_s 3 5 3] in
  opair_sum (vg_pair_sw cf d 0 0 1) l == 3 /\
  a_sw (nth 1 (accumulate1 cf d l) cell0) == 3 /\ a_glo (nth 1 (accumulate1 cf d l) cell0) == 11.
Proof. vm_compute. repeat split; reflexivity. Qed.

(* ... and what is reported after Vario::_rescale: sw = total weight of the lag, gg = the defining average, TEST when empty *)
Theorem C12_reports : forall cf d,
  c_calc cf = Vg -> c_dateLoop cf = false -> c_dateChk cf = false ->
  0 < d_dpas d -> 0 <= d_tol d -> 0 <= d_psmin d -> 0 < Qred (dot (d_codir d) (d_codir d)) ->
  forall n l iv jv k, Forall (same_dim n) l -> (jv <= iv)%nat -> (iv < c_nvar cf)%nat -> (k < d_npas d)%nat ->
  exists oc,
    nth_error (block (d_npas d) (var_rank iv jv) (rescale cf (d_npas d) (accumulate1 cf d l))) k = Some oc /\
    o_sw oc == vg_sw cf d iv jv k l /\
    (vg_sw cf d iv jv k l <= 0 -> o_gg oc = None /\ o_hh oc = None) /\
    (0 < vg_sw cf d iv jv k l -> exists g, o_gg oc = Some (g, g) /\ g == vg_num cf d iv jv k l / vg_sw cf d iv jv k l).
Proof. intros cf d H1 H2 H3 H4 H5 H6 H7. exact (solution1_vg_reports cf d H1 H2 H3 H4 H5 H6 H7). Qed.
Print Assumptions C12_reports.

Theorem C12_reports_layout : forall cf d l, is_asym (c_calc cf) = false ->
  solution1 cf d l =
  map (fun p : nat * nat => block (d_npas d) (var_rank (fst p) (snd p)) (rescale cf (d_npas d) (accumulate1 cf d l)))
      (var_pairs (c_nvar cf)).
Proof. exact solution1_sym_blocks. Qed.
Print Assumptions C12_reports_layout.

(* covariance (centred or not), raw accumulators of the side o = Oplus / Ominus of lag k: sums of the explicit pair terms
   [cov_pair] (weight w_a w_b; z_i(a) z_j(b) on the side where b lies ahead of a, z_i(b) z_j(a) on the other side; a product
   needs only its own two values; coincident samples share both products between the two sides).
   Pairs taken in the order of the first coordinate: *)
Theorem C12_estimators_cov_partial : forall cf d,
  c_calc cf = Cov \/ c_calc cf = CovNC -> c_dateLoop cf = false -> c_dateChk cf = false ->
  0 < d_dpas d -> 0 <= d_tol d -> 0 <= d_psmin d -> 0 < Qred (dot (d_codir d) (d_codir d)) ->
  forall n l iv jv k o, Forall (same_dim n) l -> (jv <= iv)%nat -> (iv < c_nvar cf)%nat -> (k < d_npas d)%nat -> o <> Ozero ->
  let c := nth (dir_address true (d_npas d) iv jv k o) (accumulate1 cf d l) cell0 in
  let L := filter (usable cf) (sort_x1 l) in
  a_sw c == pair_sum (fun a b => fst (cov_pair cf d iv jv k o a b)) L /\
  a_glo c == pair_sum (fun a b => snd (cov_pair cf d iv jv k o a b)) L /\
  a_ghi c == pair_sum (fun a b => snd (cov_pair cf d iv jv k o a b)) L.
Proof. exact accumulate1_cov. Qed.
Print Assumptions C12_estimators_cov_partial.

(* ... and over the data in ANY order as soon as no pair that can fall in the lag is orthogonal to the direction without being
   reduced to a point (coincident samples are fine); for the orthogonal case see C12_permutation_refuted *)
Theorem C12_estimators_cov : forall cf d,
  c_calc cf = Cov \/ c_calc cf = CovNC -> c_dateLoop cf = false -> c_dateChk cf = false ->
  0 < d_dpas d -> 0 <= d_tol d -> 0 <= d_psmin d -> 0 < Qred (dot (d_codir d) (d_codir d)) ->
  forall n l iv jv k o, Forall (same_dim n) l -> (jv <= iv)%nat -> (iv < c_nvar cf)%nat -> (k < d_npas d)%nat -> o <> Ozero ->
  (forall a b, In a l -> In b l -> coincident d a b = true \/ ~ g_dproj (geo_pair d a b) == 0 \/ pair_in d k a b = false) ->
  let c := nth (dir_address true (d_npas d) iv jv k o) (accumulate1 cf d l) cell0 in
  let L := filter (usable cf) l in
  a_sw c == pair_sum (fun a b => fst (cov_pair cf d iv jv k o a b)) L /\
  a_glo c == pair_sum (fun a b => snd (cov_pair cf d iv jv k o a b)) L /\
  a_ghi c == pair_sum (fun a b => snd (cov_pair cf d iv jv k o a b)) L.
Proof. exact accumulate1_cov_unordered. Qed.
Print Assumptions C12_estimators_cov.

(* C_ij(h) is the mirror of C_ji(-h), whatever values are missing: pair term by pair term, hence for the sums *)
Theorem C12_cov_mirror : forall cf d iv jv k o L, o <> Ozero ->
  pair_sum (fun a b => fst (cov_pair cf d iv jv k o a b)) L == pair_sum (fun a b => fst (cov_pair cf d jv iv k (flip o) a b)) L /\
  pair_sum (fun a b => snd (cov_pair cf d iv jv k o a b)) L == pair_sum (fun a b => snd (cov_pair cf d jv iv k (flip o) a b)) L.
Proof. exact cov_sums_mirror. Qed.
Print Assumptions C12_cov_mirror.

(* what getSwVec / getGgVec report for the covariance (after _rescale, _centerCovariance, _patchC00) *)
Theorem C12_reports_cov : forall cf d,
  c_calc cf = Cov \/ c_calc cf = CovNC -> c_dateLoop cf = false -> c_dateChk cf = false ->
  0 < d_dpas d -> 0 <= d_tol d -> 0 <= d_psmin d -> 0 < Qred (dot (d_codir d) (d_codir d)) ->
  forall n l iv jv k o, Forall (same_dim n) l ->
  (jv <= iv)%nat -> (iv < c_nvar cf)%nat -> (k < d_npas d)%nat -> o <> Ozero ->
  let L := filter (usable cf) (sort_x1 l) in
  let S := pair_sum (fun a b => fst (cov_pair cf d iv jv k o a b)) L in
  let G := pair_sum (fun a b => snd (cov_pair cf d iv jv k o a b)) L in
  exists oc,
    nth_error (mapi (center_patch_cell cf (d_npas d) (gstats cf l iv jv))
                    (block (2 * d_npas d + 1) (var_rank iv jv) (rescale cf (d_npas d) (accumulate1 cf d l))))
              (side_index (d_npas d) k o) = Some oc /\
    o_sw oc == S /\
    (S <= 0 -> o_gg oc = None /\ o_hh oc = None) /\
    (0 < S -> exists g, o_gg oc = Some (g, g) /\ g == G / S - centring cf l iv jv).
Proof. intros cf d H1 H2 H3 H4 H5 H6 H7. exact (solution1_cov_reports cf d H1 H2 H3 H4 H5 H6 H7). Qed.
Print Assumptions C12_reports_cov.

Theorem C12_reports_cov_layout : forall cf d l, is_asym (c_calc cf) = true ->
  solution1 cf d l =
  map (fun p : nat * nat =>
         mapi (center_patch_cell cf (d_npas d) (gstats cf l (fst p) (snd p)))
              (block (2 * d_npas d + 1) (var_rank (fst p) (snd p)) (rescale cf (d_npas d) (accumulate1 cf d l))))
      (var_pairs (c_nvar cf)).
Proof. exact solution1_asym_blocks. Qed.
Print Assumptions C12_reports_cov_layout.

(* hh is reported through enclosures of the square roots *)
Theorem C12_sqrt_enclosure : forall x, 0 <= x ->
  0 <= sqrt_lo x /\ sqrt_lo x * sqrt_lo x <= x /\ x < sqrt_hi x * sqrt_hi x /\ sqrt_hi x == sqrt_lo x + 1 / inject_Z sq_prec.
Proof. exact sqrt_enclosure. Qed.
Print Assumptions C12_sqrt_enclosure.

Definition ex_s (x y z1 : Q) (z2 : option Q) (w : option Q) (sel : bool) : sample :=
  {| s_x := [x; y]; s_sel := sel; s_w := w; s_date := None; s_z := [Some z1; z2] |}.
Definition ex_l : list sample :=
  [ex_s 2 0 1 (Some 4) (Some 2) true; ex_s 0 0 3 (Some 1) None true; ex_s 1 0 2 None (Some (1 # 2)) true;
   ex_s 0 1 7 (Some 2) (Some 1) true; ex_s 1 0 5 (Some 0) (Some 3) false; ex_s 3 0 0 (Some 9) (Some (-1)) true].
Definition ex_d : dirp :=
  {| d_npas := 3; d_dpas := 1; d_tol := 1 # 4; d_psmin := 1 # 2; d_codir := [1; 0]; d_bench := None; d_cyl := None; d_dmin := 0; d_dmax := 0 |}.
Definition ex_cf (c : calc) : cfg := {| c_calc := c; c_hasSel := true; c_hasW := true; c_dateLoop := false; c_dateChk := false; c_nvar := 2 |}.
Example C12_estimators_nonvacuous :
  (* 2 variables with a missing value, weights (one TEST, one negative), a masked sample, unsorted first coordinates:
     lag 1 of variable 1 holds the pairs at (0,0)-(1,0) and (1,0)-(2,0) with weights 1*(1/2) and (1/2)*2;
     lag 2 of the cross term holds (0,0)-(2,0) and (0,1)-(2,0) (distance sqrt 5, inside both tolerances) *)
  vg_sw (ex_cf Vg) ex_d 0 0 1 ex_l == 3 # 2 /\ vg_num (ex_cf Vg) ex_d 0 0 1 ex_l == 3 # 4 /\
  a_sw (nth (dir_address false 3 0 0 1 Ozero) (accumulate1 (ex_cf Vg) ex_d ex_l) cell0) == 3 # 2 /\
  vg_sw (ex_cf Vg) ex_d 1 0 2 ex_l == 4 /\ vg_num (ex_cf Vg) ex_d 1 0 2 ex_l == -18 /\
  a_glo (nth (dir_address false 3 1 0 2 Ozero) (accumulate1 (ex_cf Vg) ex_d ex_l) cell0) == -18.
Proof. vm_compute. repeat split; reflexivity. Qed.

Example C12_estimators_cov_nonvacuous :
  (* cross covariance of the two variables: lag 2 holds the pairs (0,0)-(2,0) and (0,1)-(2,0), weight 2 each: side "+"
     z_2(behind) z_1(ahead) = 1*1 + 2*1 (times 2), side "-" z_2(ahead) z_1(behind) = 4*3 + 4*7 (times 2).
     Lag 1 is heterotopic (z_2 missing at (1,0)): side "+" only gets z_2(0,0) z_1(1,0), side "-" only z_2(2,0) z_1(1,0).
     Every pair of ex_l that falls in lag 1 or 2 has a direction; the mirror law exchanges the two sides. *)
  let cf := ex_cf CovNC in
  let cell k o := nth (dir_address true 3 1 0 k o) (accumulate1 cf ex_d ex_l) cell0 in
  a_sw (cell 2%nat Oplus) == 4 /\ a_glo (cell 2%nat Oplus) == 6 /\ a_sw (cell 2%nat Ominus) == 4 /\ a_glo (cell 2%nat Ominus) == 80 /\
  a_sw (cell 1%nat Oplus) == 1 # 2 /\ a_glo (cell 1%nat Oplus) == 1 /\ a_sw (cell 1%nat Ominus) == 1 /\ a_glo (cell 1%nat Ominus) == 8 /\
  pair_sum (fun a b => snd (cov_pair cf ex_d 1 0 2 Oplus a b)) (filter (usable cf) ex_l) == 6 /\
  pair_sum (fun a b => snd (cov_pair cf ex_d 0 1 2 Ominus a b)) (filter (usable cf) ex_l) == 6 /\
  pair_sum (fun a b => snd (cov_pair cf ex_d 1 0 1 Ominus a b)) (filter (usable cf) ex_l) == 8 /\
  forallb (fun p => negb (qeqb (g_dproj (geo_pair ex_d (fst p) (snd p))) 0) || (negb (pair_in ex_d 2 (fst p) (snd p)) && negb (pair_in ex_d 1 (fst p) (snd p))))
          (all_pairs (filter (usable cf) ex_l)) = true.
Proof. vm_compute. repeat split; reflexivity. Qed.

(* ------------------------------------------------------------------ symmetry in the two variables *)
Theorem C12_symmetry : forall asym npas iv jv k o cf d l,
  dir_address asym npas iv jv k o = dir_address asym npas jv iv k o /\
  vg_sw cf d iv jv k l == vg_sw cf d jv iv k l /\ vg_num cf d iv jv k l == vg_num cf d jv iv k l.
Proof. exact (fun asym npas iv jv k o cf d l => conj (dir_address_sym asym npas iv jv k o) (vg_sym cf d iv jv k l)). Qed.
Print Assumptions C12_symmetry.

(* ------------------------------------------------------------------ permutation of the samples *)
Theorem C12_permutation_spec : forall cf d, c_dateChk cf = false -> forall iv jv k l l',
  Permutation l l' -> vg_sw cf d iv jv k l == vg_sw cf d iv jv k l' /\ vg_num cf d iv jv k l == vg_num cf d iv jv k l'.
Proof. exact vg_sums_perm. Qed.
Print Assumptions C12_permutation_spec.

Theorem C12_permutation : forall cf d n l l' iv jv k,
  c_calc cf = Vg -> c_dateLoop cf = false -> c_dateChk cf = false ->
  0 < d_dpas d -> 0 <= d_tol d -> 0 <= d_psmin d -> 0 < Qred (dot (d_codir d) (d_codir d)) ->
  Forall (same_dim n) l ->
  (jv <= iv)%nat -> (iv < c_nvar cf)%nat -> (k < d_npas d)%nat ->
  Permutation l l' ->
  let adr := dir_address false (d_npas d) iv jv k Ozero in
  a_sw (nth adr (accumulate1 cf d l) cell0) == a_sw (nth adr (accumulate1 cf d l') cell0) /\
  a_glo (nth adr (accumulate1 cf d l) cell0) == a_glo (nth adr (accumulate1 cf d l') cell0) /\
  a_ghi (nth adr (accumulate1 cf d l) cell0) == a_ghi (nth adr (accumulate1 cf d l') cell0).
Proof. exact accumulate1_vg_perm. Qed.
Print Assumptions C12_permutation.

(* variogram, madogram, order-4: EVERY field of every accumulator (weight, mean-separation enclosure, value enclosure) *)
Theorem C12_permutation_sym : forall cf d n l l' iv jv k,
  plain_sym (c_calc cf) -> c_dateLoop cf = false -> c_dateChk cf = false ->
  0 < d_dpas d -> 0 <= d_tol d -> 0 <= d_psmin d -> 0 < Qred (dot (d_codir d) (d_codir d)) ->
  Forall (same_dim n) l -> Permutation l l' ->
  (jv <= iv)%nat -> (iv < c_nvar cf)%nat -> (k < d_npas d)%nat ->
  cell_eq (nth (dir_address false (d_npas d) iv jv k Ozero) (accumulate1 cf d l) cell0)
          (nth (dir_address false (d_npas d) iv jv k Ozero) (accumulate1 cf d l') cell0).
Proof. exact accumulate1_plain_sym_perm. Qed.
Print Assumptions C12_permutation_sym.

(* in date mode: sums over ordered pairs do not depend on the order of the samples either *)
Theorem C12_permutation_dates : forall (f : sample -> sample -> Q) l l', Permutation l l' -> opair_sum f l == opair_sum f l'.
Proof. exact (@opair_sum_perm sample). Qed.
Print Assumptions C12_permutation_dates.

(* covariance: C12_estimators_cov expresses the accumulators by sums over the data in any order (the right-hand side does not
   mention the sort), under the hypothesis that no contributing pair is orthogonal to the direction.  Coincident samples are
   now handled symmetrically: *)
Definition dup_s (x z1 z2 : Q) : sample := {| s_x := [x]; s_sel := true; s_w := None; s_date := None; s_z := [Some z1; Some z2] |}.
Definition dup_cf : cfg := {| c_calc := CovNC; c_hasSel := false; c_hasW := false; c_dateLoop := false; c_dateChk := false; c_nvar := 2 |}.
Definition dup_d : dirp := {| d_npas := 2; d_dpas := 1; d_tol := 1 # 2; d_psmin := 0; d_codir := [1]; d_bench := None; d_cyl := None; d_dmin := 0; d_dmax := 0 |}.
Example C12_permutation_coincident :
  let l := [dup_s 0 1 10; dup_s 0 3 20; dup_s 1 2 50] in
  let l' := [dup_s 0 3 20; dup_s 0 1 10; dup_s 1 2 50] in
  map o_gg (nth 1 (solution1 dup_cf dup_d l) []) = [Some (100, 100); Some (25, 25); Some (170 # 3, 170 # 3); Some (25, 25); Some (30, 30)] /\
  solution1 dup_cf dup_d l' = solution1 dup_cf dup_d l.
Proof. cbv zeta. split; vm_compute; reflexivity. Qed.

(* The hypothesis cannot be dropped: a pair orthogonal to the direction (angular tolerance 90 degrees) has no orientation;
   _evaluateCovariance puts z_i(first) z_j(second) on the "+" side and z_i(second) z_j(first) on the "-" side, "first" being
   decided by the order of the samples (known finding evaluateCovariance:undirected-pair-orientation). *)
Definition or_s (x y z1 z2 : Q) : sample := {| s_x := [x; y]; s_sel := true; s_w := None; s_date := None; s_z := [Some z1; Some z2] |}.
Definition or_d : dirp := {| d_npas := 2; d_dpas := 1; d_tol := 1 # 2; d_psmin := 0; d_codir := [1; 0]; d_bench := None; d_cyl := None; d_dmin := 0; d_dmax := 0 |}.
Example C12_permutation_refuted :
  let l := [or_s 0 0 1 10; or_s 0 1 3 20] in
  let l' := [or_s 0 1 3 20; or_s 0 0 1 10] in
  Permutation l l' /\
  g_dproj (geo_pair or_d (or_s 0 0 1 10) (or_s 0 1 3 20)) == 0 /\ coincident or_d (or_s 0 0 1 10) (or_s 0 1 3 20) = false /\
  map o_gg (nth 1 (solution1 dup_cf or_d l) []) = [Some (20, 20); None; Some (35, 35); None; Some (30, 30)] /\
  map o_gg (nth 1 (solution1 dup_cf or_d l') []) = [Some (30, 30); None; Some (35, 35); None; Some (20, 20)].
Proof. cbv zeta. split; [apply perm_swap|]. repeat split; vm_compute; reflexivity. Qed.

(* ------------------------------------------------------------------ translation of the coordinates *)
Theorem C12_translation : forall t cf d l,
  Forall (fun s => length (s_x s) = length t) l -> solution1 cf d (map (translate t) l) = solution1 cf d l.
Proof. exact solution1_translate. Qed.
Print Assumptions C12_translation.

Example C12_translation_nonvacuous :
  let t := [1000 # 1; -(517 # 2)] in
  Forall (fun s => length (s_x s) = length t) ex_l /\
  solution1 (ex_cf Cov) ex_d (map (translate t) ex_l) = solution1 (ex_cf Cov) ex_d ex_l /\
  existsb (fun c => qltb 0 (o_sw c)) (nth 0 (solution1 (ex_cf Cov) ex_d ex_l) []) = true.
Proof. cbv zeta. split; [repeat constructor|]. split; vm_compute; reflexivity. Qed.

(* ------------------------------------------------------------------ by-sample algorithm (flag_sample) *)
(* variogram, madogram, order-4: _calculateGeneralSolution2 returns exactly the by-sample estimator of the spec: for every first
   sample a (order of the first coordinate) the ratios G_a(k)/S_a(k) of its OWN pairs (a, b), b after a, averaged with weight w_a;
   pairs, lags and acceptance by their closed forms *)
Theorem C12_bysample : forall cf d,
  plain_sym (c_calc cf) -> c_dateLoop cf = false -> c_dateChk cf = false ->
  0 < d_dpas d -> 0 <= d_tol d -> 0 <= d_psmin d -> 0 < Qred (dot (d_codir d) (d_codir d)) ->
  forall n l, Forall (same_dim n) l -> solution2 cf d l = spec_solution2 cf d l.
Proof. exact solution2_spec. Qed.
Print Assumptions C12_bysample.

(* one pair: isOK + getLagRank + _evaluate = acceptance and lag class by their closed forms *)
Theorem C12_pair_closed_form : forall cf d,
  plain_sym (c_calc cf) -> c_dateChk cf = false ->
  0 < d_dpas d -> 0 <= d_psmin d -> 0 < Qred (dot (d_codir d) (d_codir d)) ->
  forall means means' a b, pair_updates cf d means a b = spec_pair_updates cf d means' a b.
Proof. exact pair_updates_spec. Qed.
Print Assumptions C12_pair_closed_form.

Example C12_bysample_nonvacuous :
  let cf := {| c_calc := Vg; c_hasSel := false; c_hasW := false; c_dateLoop := false; c_dateChk := false; c_nvar := 1 |} in
  let l := [wit_s 0 1; wit_s 1 3; wit_s 2 2; wit_s 3 5; wit_s 4 7] in
  map o_gg (nth 0 (solution2 cf wit_dir l) []) = [None; Some (9 # 4, 9 # 4); Some (5, 5)] /\
  map o_sw (nth 0 (solution2 cf wit_dir l) []) = [0; 4; 3] /\
  solution2 cf wit_dir l = spec_solution2 cf wit_dir l.
Proof. cbv zeta. repeat split; vm_compute; reflexivity. Qed.

(* The by-sample estimator itself is NOT invariant under a mirror image of the data (a pair belongs to its first sample in the
   order of the first coordinate): samples at 0, 1, 5/4, 2 and their mirror image give 19/2 and 6 at lag 1, while the ordinary
   variogram gives 31/4 for both.  This is a property of the definition, not of the code; no mirror theorem is claimed. *)
Example C12_bysample_mirror_refuted :
  let cf := {| c_calc := Vg; c_hasSel := false; c_hasW := false; c_dateLoop := false; c_dateChk := false; c_nvar := 1 |} in
  let l := [wit_s 0 1; wit_s 1 4; wit_s (5 # 4) 2; wit_s 2 8] in
  let l' := [wit_s 2 1; wit_s 1 4; wit_s (3 # 4) 2; wit_s 0 8] in
  map o_gg (nth 0 (spec_solution2 cf wit_dir l) []) = [Some (2, 2); Some (19 # 2, 19 # 2); Some (49 # 2, 49 # 2)] /\
  map o_gg (nth 0 (spec_solution2 cf wit_dir l') []) = [Some (2, 2); Some (6, 6); Some (49 # 2, 49 # 2)] /\
  map o_gg (nth 0 (solution1 cf wit_dir l) []) = map o_gg (nth 0 (solution1 cf wit_dir l') []).
Proof. cbv zeta. repeat split; vm_compute; reflexivity. Qed.

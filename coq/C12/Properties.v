(* C12 — property theorems only. Each is closed by [exact] of a lemma of Proofs_*.v; Examples are non-vacuity /
   refutation witnesses computed on concrete data. No bound on the number of samples, variables or lags anywhere. *)
From Coq Require Import List ZArith QArith Bool Permutation Sorted Reals Qreals.
From Gst Require Import lib.QAux C12.Model C12.ModelExt C12.Spec C12.Proofs.
Import ListNotations.
Local Open Scope Q_scope.

(* ------------------------------------------------------------------ sort (Db::getSortArray) *)
Theorem C12_sort : forall l, Permutation (sort_x1 l) l /\ StronglySorted le_x1 (sort_x1 l).
Proof. exact (fun l => conj (sort_perm l) (sort_sorted l)). Qed.
Print Assumptions C12_sort.

(* ------------------------------------------------------------------ enumeration *)
(* [loop_pairs dl [] srt] lists every pair the loops of _calculateGeneralSolution1 are meant to visit: (a, b) for b after a
   in the sorted list, and in date mode also (a, b) for b before a.  The loops skip some of them with the 1-D tests on the
   first coordinate (break for partners after, continue for partners before); what they skip never reaches the evaluator: *)
Theorem C12_enumeration : forall cf d n l,
  0 < d_dpas d -> 0 <= d_tol d -> Forall (same_dim n) l ->
  filter (evaluated cf d) (reached1 cf d l) =
  filter (evaluated cf d) (filter (unskipped cf) (loop_pairs (c_dateLoop cf) [] (sort_x1 l))).
Proof. exact reached1_evaluated. Qed.
Print Assumptions C12_enumeration.

(* the same for what the evaluators add (any list of means) *)
Theorem C12_enumeration_updates : forall cf d means n l,
  0 < d_dpas d -> 0 <= d_tol d -> Forall (same_dim n) l ->
  flat_map (fun p => pair_updates cf d means (fst p) (snd p)) (reached1 cf d l) =
  flat_map (fun p => pair_updates cf d means (fst p) (snd p))
           (filter (unskipped cf) (loop_pairs (c_dateLoop cf) [] (sort_x1 l))).
Proof. exact reached1_updates. Qed.
Print Assumptions C12_enumeration_updates.

(* without dates these are the unordered pairs i<j; with dates, as a multiset, every unordered pair in both orders *)
Theorem C12_enumeration_pairs : forall l,
  loop_pairs false [] l = all_pairs l /\ Permutation (loop_pairs true [] l) (ordered_pairs l).
Proof. exact (fun l => conj (loop_pairs_nodate [] l) (loop_pairs_ordered l)). Qed.
Print Assumptions C12_enumeration_pairs.

Theorem C12_enumeration_sound : forall cf md pre cur p,
  In p (outer1 cf md pre cur) ->
  In (fst p) cur /\ In (snd p) (pre ++ cur) /\ skip cf (fst p) = false /\ skip cf (snd p) = false.
Proof. exact outer1_sound. Qed.
Print Assumptions C12_enumeration_sound.

(* the 1-D test is right about every pair it discards *)
Theorem C12_break_pair_has_no_lag : forall d, 0 < d_dpas d -> 0 <= d_tol d ->
  forall d2 dx, 0 <= d2 -> dx * dx <= d2 -> maxdist d < dx -> lag_rank d d2 = None.
Proof. exact beyond_maxdist_no_lag. Qed.
Print Assumptions C12_break_pair_has_no_lag.

(* samples at 0, 1, 5, 6 on a line, 3 lags of 1 (tolerance 1/2): the 1-D tests discard (0,5), (0,6), (1,5), (1,6) and in date
   mode their reverses; {0,1} and {5,6} are evaluated, in date mode in both orders (former defect generalSolution:dates-break) *)
Definition wit_s (x z : Q) : sample := {| s_x := [x]; s_sel := true; s_w := None; s_date := Some 0; s_z := [Some z] |}.
Definition wit_dir : dirp :=
  {| d_npas := 3; d_dpas := 1; d_tol := 1 # 2; d_psmin := 0; d_codir := [1]; d_bench := None; d_cyl := None;
     d_dmin := 0; d_dmax := 0 |}.
Definition wit_cf (dl : bool) : cfg :=
  {| c_calc := Vg; c_hasSel := false; c_hasW := false; c_dateLoop := dl; c_dateChk := false; c_nvar := 1 |}.
Definition wit_l : list sample := [wit_s 0 1; wit_s 1 3; wit_s 5 2; wit_s 6 5].
Example C12_enumeration_nonvacuous :
  map (fun p => (x1 (fst p), x1 (snd p))) (filter (evaluated (wit_cf true) wit_dir) (reached1 (wit_cf true) wit_dir wit_l))
    = [(0, 1); (1, 0); (5, 6); (6, 5)] /\
  map (fun p => (x1 (fst p), x1 (snd p))) (filter (evaluated (wit_cf false) wit_dir) (reached1 (wit_cf false) wit_dir wit_l))
    = [(0, 1); (5, 6)] /\
  length (reached1 (wit_cf true) wit_dir wit_l) = 4%nat /\ length (loop_pairs true [] (sort_x1 wit_l)) = 12%nat /\
  map (fun c => (a_sw c, a_glo c)) (accumulate1 (wit_cf true) wit_dir wit_l) = [(0, 0); (4, 13); (0, 0)] /\
  map (fun c => (a_sw c, a_glo c)) (accumulate1 (wit_cf false) wit_dir wit_l) = [(0, 0); (2, 13 # 2); (0, 0)].
Proof. vm_compute. repeat split; reflexivity. Qed.

(* ------------------------------------------------------------------ lag rank *)
Theorem C12_lagrank : forall d, 0 < d_dpas d ->
  forall d2 k, 0 <= d2 -> (lag_rank d d2 = Some k <-> in_class d d2 k).
Proof. exact lag_rank_in_class. Qed.
Print Assumptions C12_lagrank.

Theorem C12_lagrank_unique_class : forall d, 0 < d_dpas d ->
  forall d2, 0 <= d2 -> lag_rank d d2 = lag_spec d d2.
Proof. exact lag_rank_eq_spec. Qed.
Print Assumptions C12_lagrank_unique_class.

(* the same over the reals: with s = sqrt(d2) (the real square root of the rational squared distance),
   getLagRank returns k iff  k < npas,  k - 1/2 <= s/dpas < k + 1/2  and  |s - k dpas| <= tol dpas *)
Theorem C12_lagrank_real : forall d d2 k, 0 < d_dpas d -> 0 <= d_tol d -> 0 <= d2 ->
  (lag_rank d d2 = Some k <-> in_class_R (d_npas d) (Q2R (d_dpas d)) (Q2R (d_tol d)) (Q2R d2) k).
Proof. exact lag_rank_real. Qed.
Print Assumptions C12_lagrank_real.

Example C12_lagrank_nonvacuous :
  (* d = sqrt(13) ~ 3.606, lag 1.5, tolerance 1/4: 3.606 / 1.5 = 2.404 -> class 2, |3.606 - 3| = 0.606 > 0.375 -> none;
     d = sqrt(10) ~ 3.162: class 2, |3.162 - 3| = 0.162 <= 0.375 -> 2;  exact boundary d = 3.375 = (2 + 1/4) 1.5 -> 2 *)
  let d := {| d_npas := 4; d_dpas := 3 # 2; d_tol := 1 # 4; d_psmin := 0; d_codir := [1]; d_bench := None; d_cyl := None; d_dmin := 0; d_dmax := 0 |} in
  lag_rank d 13 = None /\ lag_rank d 10 = Some 2%nat /\ lag_rank d ((27 # 8) * (27 # 8)) = Some 2%nat /\
  lag_rank d ((9 # 2) * (9 # 2)) = Some 3%nat /\ lag_rank d ((15 # 4) * (15 # 4)) = None /\ lag_rank d 36 = None /\ in_class_b d 10 2 = true.
Proof. vm_compute. repeat split; reflexivity. Qed.

(* ------------------------------------------------------------------ geometric test *)
Theorem C12_geometry : forall d, 0 <= d_psmin d ->
  forall asym g, 0 < g_dn2 g -> (isOK d asym g <> Rej <-> accepted d g).
Proof. exact isOK_accepted. Qed.
Print Assumptions C12_geometry.

Theorem C12_orientation : forall d, 0 <= d_psmin d ->
  forall g neg, 0 < g_dn2 g -> isOK d true g = Acc neg -> neg = (qltb 0 (g_d2 g) && qltb (g_dproj g) 0).
Proof. exact isOK_orientation. Qed.
Print Assumptions C12_orientation.

Example C12_geometry_nonvacuous :
  (* direction (1,0), cos^2 of tolerance = 3/4 (30 degrees), cylinder 3/4, bench 1/2 *)
  let d := {| d_npas := 4; d_dpas := 1; d_tol := 1 # 2; d_psmin := 866 # 1000; d_codir := [1; 0]; d_bench := Some (1 # 2); d_cyl := Some (3 # 4);
              d_dmin := 0; d_dmax := 0 |} in
  isOK d true (geo_of [1; 0] [2; 1 # 2]) = Acc false /\ isOK d true (geo_of [1; 0] [-2; 1 # 2]) = Acc true /\
  isOK d true (geo_of [1; 0] [1; 1]) = Rej /\ isOK d true (geo_of [1; 0] [4; 7 # 8]) = Rej /\ isOK d true (geo_of [1;0] [0; 0]) = Acc false /\
  accepted_b d (geo_of [1; 0] [2; 1 # 2]) = true /\ accepted_b d (geo_of [1; 0] [4; 7 # 8]) = false.
Proof. vm_compute. repeat split; reflexivity. Qed.

(* ------------------------------------------------------------------ accumulation and estimators *)
(* after any sequence of _setResult calls every cell holds the sums of the increments addressed to it *)
Theorem C12_accumulate : forall n us k, (k < n)%nat ->
  cell_eq (nth k (apply_upds (repeat cell0 n) us) cell0) (spec_cell us k).
Proof. exact apply_upds_sums. Qed.
Print Assumptions C12_accumulate.

(* every estimator, with or without dates: each raw accumulator = sum, over ALL the pairs of usable samples the loop is meant to
   visit, of what _evaluate adds for that pair (nothing when the pair is rejected or falls in no lag) *)
Theorem C12_estimators_generic : forall cf d n l k,
  0 < d_dpas d -> 0 <= d_tol d -> Forall (same_dim n) l ->
  (k < dir_size (is_asym (c_calc cf)) (d_npas d) (c_nvar cf))%nat ->
  cell_eq (nth k (accumulate1 cf d l) cell0)
          (spec_cell (flat_map (fun p => pair_updates cf d (stat_means cf l) (fst p) (snd p))
                               (filter (unskipped cf) (loop_pairs (c_dateLoop cf) [] (sort_x1 l)))) k).
Proof. exact accumulate1_generic. Qed.
Print Assumptions C12_estimators_generic.

(* variogram: raw accumulators = the explicit pairwise sums over the data in their ORIGINAL order (closed-form lag class,
   declarative acceptance, both variables defined at both ends) *)
Theorem C12_estimators : forall cf d,
  c_calc cf = Vg -> c_dateChk cf = false ->
  0 < d_dpas d -> 0 <= d_tol d -> 0 <= d_psmin d -> 0 < Qred (dot (d_codir d) (d_codir d)) ->
  forall n l iv jv k, c_dateLoop cf = false -> Forall (same_dim n) l ->
  (jv <= iv)%nat -> (iv < c_nvar cf)%nat -> (k < d_npas d)%nat ->
  let c := nth (dir_address false (d_npas d) iv jv k Ozero) (accumulate1 cf d l) cell0 in
  a_sw c == vg_sw cf d iv jv k l /\ a_glo c == vg_num cf d iv jv k l /\ a_ghi c == vg_num cf d iv jv k l.
Proof. exact accumulate1_vg. Qed.
Print Assumptions C12_estimators.

(* variogram in date mode (with or without a date interval): sums over the ORDERED pairs (a, b), a <> b, of the data in their
   original order, each passing the test date(b) - date(a) in [dmin, dmax) when an interval is in force *)
Theorem C12_estimators_dates : forall cf d n l iv jv k,
  c_calc cf = Vg -> c_dateLoop cf = true ->
  0 < d_dpas d -> 0 <= d_tol d -> 0 <= d_psmin d -> 0 < Qred (dot (d_codir d) (d_codir d)) ->
  Forall (same_dim n) l ->
  (jv <= iv)%nat -> (iv < c_nvar cf)%nat -> (k < d_npas d)%nat ->
  let c := nth (dir_address false (d_npas d) iv jv k Ozero) (accumulate1 cf d l) cell0 in
  a_sw c == opair_sum (vg_pair_sw cf d iv jv k) (filter (usable cf) l) /\
  a_glo c == opair_sum (vg_pair_num cf d iv jv k) (filter (usable cf) l) /\
  a_ghi c == opair_sum (vg_pair_num cf d iv jv k) (filter (usable cf) l).
Proof. exact accumulate1_vg_dates. Qed.
Print Assumptions C12_estimators_dates.

Definition dt_s (x z dt : Q) : sample := {| s_x := [x]; s_sel := true; s_w := None; s_date := Some dt; s_z := [Some z] |}.
Example C12_estimators_dates_nonvacuous :
  (* date interval [0, 2): of the ordered pairs at distance 1 only those going forward in time by less than 2 count *)
  let cf := {| c_calc := Vg; c_hasSel := false; c_hasW := false; c_dateLoop := true; c_dateChk := true; c_nvar := 1 |} in
  let d := {| d_npas := 3; d_dpas := 1; d_tol := 1 # 2; d_psmin := 0; d_codir := [1]; d_bench := None; d_cyl := None; d_dmin := 0; d_dmax := 2 |} in
  let l := [dt_s 0 1 5; dt_s 1 3 6; dt_s 2 2 3; dt_s 3 5 3] in
  opair_sum (vg_pair_sw cf d 0 0 1) l == 3 /\
  a_sw (nth 1 (accumulate1 cf d l) cell0) == 3 /\ a_glo (nth 1 (accumulate1 cf d l) cell0) == 11.
Proof. vm_compute. repeat split; reflexivity. Qed.

(* ... and what is reported after Vario::_rescale: sw = total weight of the lag, gg = the defining average, TEST when empty *)
Theorem C12_reports : forall cf d,
  c_calc cf = Vg -> c_dateLoop cf = false -> c_dateChk cf = false ->
  0 < d_dpas d -> 0 <= d_tol d -> 0 <= d_psmin d -> 0 < Qred (dot (d_codir d) (d_codir d)) ->
  forall n l iv jv k, Forall (same_dim n) l -> (jv <= iv)%nat -> (iv < c_nvar cf)%nat -> (k < d_npas d)%nat ->
  exists oc,
    nth_error (block (d_npas d) (var_rank iv jv) (rescale cf (d_npas d) (accumulate1 cf d l))) k = Some oc /\
    o_sw oc == vg_sw cf d iv jv k l /\
    (vg_sw cf d iv jv k l <= 0 -> o_gg oc = None /\ o_hh oc = None) /\
    (0 < vg_sw cf d iv jv k l -> exists g, o_gg oc = Some (g, g) /\ g == vg_num cf d iv jv k l / vg_sw cf d iv jv k l).
Proof. intros cf d H1 H2 H3 H4 H5 H6 H7. exact (solution1_vg_reports cf d H1 H2 H3 H4 H5 H6 H7). Qed.
Print Assumptions C12_reports.

Theorem C12_reports_layout : forall cf d l, is_asym (c_calc cf) = false ->
  solution1 cf d l =
  map (fun p : nat * nat => block (d_npas d) (var_rank (fst p) (snd p)) (rescale cf (d_npas d) (accumulate1 cf d l)))
      (var_pairs (c_nvar cf)).
Proof. exact solution1_sym_blocks. Qed.
Print Assumptions C12_reports_layout.

(* covariance (centred or not), raw accumulators of the side o = Oplus / Ominus of lag k: sums of the explicit pair terms
   [cov_pair] (weight w_a w_b; z_i(a) z_j(b) on the side where b lies ahead of a, z_i(b) z_j(a) on the other side; a product
   needs only its own two values; coincident samples share both products between the two sides).
   Pairs taken in the order of the first coordinate: *)
Theorem C12_estimators_cov_partial : forall cf d,
  c_calc cf = Cov \/ c_calc cf = CovNC -> c_dateLoop cf = false -> c_dateChk cf = false ->
  0 < d_dpas d -> 0 <= d_tol d -> 0 <= d_psmin d -> 0 < Qred (dot (d_codir d) (d_codir d)) ->
  forall n l iv jv k o, Forall (same_dim n) l -> (jv <= iv)%nat -> (iv < c_nvar cf)%nat -> (k < d_npas d)%nat -> o <> Ozero ->
  let c := nth (dir_address true (d_npas d) iv jv k o) (accumulate1 cf d l) cell0 in
  let L := filter (usable cf) (sort_x1 l) in
  a_sw c == pair_sum (fun a b => fst (cov_pair cf d iv jv k o a b)) L /\
  a_glo c == pair_sum (fun a b => snd (cov_pair cf d iv jv k o a b)) L /\
  a_ghi c == pair_sum (fun a b => snd (cov_pair cf d iv jv k o a b)) L.
Proof. exact accumulate1_cov. Qed.
Print Assumptions C12_estimators_cov_partial.

(* ... and over the data in ANY order as soon as no pair that can fall in the lag is orthogonal to the direction without being
   reduced to a point (coincident samples are fine); for the orthogonal case see C12_permutation_refuted *)
Theorem C12_estimators_cov : forall cf d,
  c_calc cf = Cov \/ c_calc cf = CovNC -> c_dateLoop cf = false -> c_dateChk cf = false ->
  0 < d_dpas d -> 0 <= d_tol d -> 0 <= d_psmin d -> 0 < Qred (dot (d_codir d) (d_codir d)) ->
  forall n l iv jv k o, Forall (same_dim n) l -> (jv <= iv)%nat -> (iv < c_nvar cf)%nat -> (k < d_npas d)%nat -> o <> Ozero ->
  (forall a b, In a l -> In b l -> coincident d a b = true \/ ~ g_dproj (geo_pair d a b) == 0 \/ pair_in d k a b = false) ->
  let c := nth (dir_address true (d_npas d) iv jv k o) (accumulate1 cf d l) cell0 in
  let L := filter (usable cf) l in
  a_sw c == pair_sum (fun a b => fst (cov_pair cf d iv jv k o a b)) L /\
  a_glo c == pair_sum (fun a b => snd (cov_pair cf d iv jv k o a b)) L /\
  a_ghi c == pair_sum (fun a b => snd (cov_pair cf d iv jv k o a b)) L.
Proof. exact accumulate1_cov_unordered. Qed.
Print Assumptions C12_estimators_cov.

(* C_ij(h) is the mirror of C_ji(-h), whatever values are missing: pair term by pair term, hence for the sums *)
Theorem C12_cov_mirror : forall cf d iv jv k o L, o <> Ozero ->
  pair_sum (fun a b => fst (cov_pair cf d iv jv k o a b)) L == pair_sum (fun a b => fst (cov_pair cf d jv iv k (flip o) a b)) L /\
  pair_sum (fun a b => snd (cov_pair cf d iv jv k o a b)) L == pair_sum (fun a b => snd (cov_pair cf d jv iv k (flip o) a b)) L.
Proof. exact cov_sums_mirror. Qed.
Print Assumptions C12_cov_mirror.

(* what getSwVec / getGgVec report for the covariance (after _rescale, _centerCovariance, _patchC00) *)
Theorem C12_reports_cov : forall cf d,
  c_calc cf = Cov \/ c_calc cf = CovNC -> c_dateLoop cf = false -> c_dateChk cf = false ->
  0 < d_dpas d -> 0 <= d_tol d -> 0 <= d_psmin d -> 0 < Qred (dot (d_codir d) (d_codir d)) ->
  forall n l iv jv k o, Forall (same_dim n) l ->
  (jv <= iv)%nat -> (iv < c_nvar cf)%nat -> (k < d_npas d)%nat -> o <> Ozero ->
  let L := filter (usable cf) (sort_x1 l) in
  let S := pair_sum (fun a b => fst (cov_pair cf d iv jv k o a b)) L in
  let G := pair_sum (fun a b => snd (cov_pair cf d iv jv k o a b)) L in
  exists oc,
    nth_error (mapi (center_patch_cell cf (d_npas d) (gstats cf l iv jv))
                    (block (2 * d_npas d + 1) (var_rank iv jv) (rescale cf (d_npas d) (accumulate1 cf d l))))
              (side_index (d_npas d) k o) = Some oc /\
    o_sw oc == S /\
    (S <= 0 -> o_gg oc = None /\ o_hh oc = None) /\
    (0 < S -> exists g, o_gg oc = Some (g, g) /\ g == G / S - centring cf l iv jv).
Proof. intros cf d H1 H2 H3 H4 H5 H6 H7. exact (solution1_cov_reports cf d H1 H2 H3 H4 H5 H6 H7). Qed.
Print Assumptions C12_reports_cov.

Theorem C12_reports_cov_layout : forall cf d l, is_asym (c_calc cf) = true ->
  solution1 cf d l =
  map (fun p : nat * nat =>
         mapi (center_patch_cell cf (d_npas d) (gstats cf l (fst p) (snd p)))
              (block (2 * d_npas d + 1) (var_rank (fst p) (snd p)) (rescale cf (d_npas d) (accumulate1 cf d l))))
      (var_pairs (c_nvar cf)).
Proof. exact solution1_asym_blocks. Qed.
Print Assumptions C12_reports_cov_layout.

(* hh is reported through enclosures of the square roots *)
Theorem C12_sqrt_enclosure : forall x, 0 <= x ->
  0 <= sqrt_lo x /\ sqrt_lo x * sqrt_lo x <= x /\ x < sqrt_hi x * sqrt_hi x /\ sqrt_hi x == sqrt_lo x + 1 / inject_Z sq_prec.
Proof. exact sqrt_enclosure. Qed.
Print Assumptions C12_sqrt_enclosure.

Definition ex_s (x y z1 : Q) (z2 : option Q) (w : option Q) (sel : bool) : sample :=
  {| s_x := [x; y]; s_sel := sel; s_w := w; s_date := None; s_z := [Some z1; z2] |}.
Definition ex_l : list sample :=
  [ex_s 2 0 1 (Some 4) (Some 2) true; ex_s 0 0 3 (Some 1) None true; ex_s 1 0 2 None (Some (1 # 2)) true;
   ex_s 0 1 7 (Some 2) (Some 1) true; ex_s 1 0 5 (Some 0) (Some 3) false; ex_s 3 0 0 (Some 9) (Some (-1)) true].
Definition ex_d : dirp :=
  {| d_npas := 3; d_dpas := 1; d_tol := 1 # 4; d_psmin := 1 # 2; d_codir := [1; 0]; d_bench := None; d_cyl := None; d_dmin := 0; d_dmax := 0 |}.
Definition ex_cf (c : calc) : cfg := {| c_calc := c; c_hasSel := true; c_hasW := true; c_dateLoop := false; c_dateChk := false; c_nvar := 2 |}.
Example C12_estimators_nonvacuous :
  (* 2 variables with a missing value, weights (one TEST, one negative), a masked sample, unsorted first coordinates:
     lag 1 of variable 1 holds the pairs at (0,0)-(1,0) and (1,0)-(2,0) with weights 1*(1/2) and (1/2)*2;
     lag 2 of the cross term holds (0,0)-(2,0) and (0,1)-(2,0) (distance sqrt 5, inside both tolerances) *)
  vg_sw (ex_cf Vg) ex_d 0 0 1 ex_l == 3 # 2 /\ vg_num (ex_cf Vg) ex_d 0 0 1 ex_l == 3 # 4 /\
  a_sw (nth (dir_address false 3 0 0 1 Ozero) (accumulate1 (ex_cf Vg) ex_d ex_l) cell0) == 3 # 2 /\
  vg_sw (ex_cf Vg) ex_d 1 0 2 ex_l == 4 /\ vg_num (ex_cf Vg) ex_d 1 0 2 ex_l == -18 /\
  a_glo (nth (dir_address false 3 1 0 2 Ozero) (accumulate1 (ex_cf Vg) ex_d ex_l) cell0) == -18.
Proof. vm_compute. repeat split; reflexivity. Qed.

Example C12_estimators_cov_nonvacuous :
  (* cross covariance of the two variables: lag 2 holds the pairs (0,0)-(2,0) and (0,1)-(2,0), weight 2 each: side "+"
     z_2(behind) z_1(ahead) = 1*1 + 2*1 (times 2), side "-" z_2(ahead) z_1(behind) = 4*3 + 4*7 (times 2).
     Lag 1 is heterotopic (z_2 missing at (1,0)): side "+" only gets z_2(0,0) z_1(1,0), side "-" only z_2(2,0) z_1(1,0).
     Every pair of ex_l that falls in lag 1 or 2 has a direction; the mirror law exchanges the two sides. *)
  let cf := ex_cf CovNC in
  let cell k o := nth (dir_address true 3 1 0 k o) (accumulate1 cf ex_d ex_l) cell0 in
  a_sw (cell 2%nat Oplus) == 4 /\ a_glo (cell 2%nat Oplus) == 6 /\ a_sw (cell 2%nat Ominus) == 4 /\ a_glo (cell 2%nat Ominus) == 80 /\
  a_sw (cell 1%nat Oplus) == 1 # 2 /\ a_glo (cell 1%nat Oplus) == 1 /\ a_sw (cell 1%nat Ominus) == 1 /\ a_glo (cell 1%nat Ominus) == 8 /\
  pair_sum (fun a b => snd (cov_pair cf ex_d 1 0 2 Oplus a b)) (filter (usable cf) ex_l) == 6 /\
  pair_sum (fun a b => snd (cov_pair cf ex_d 0 1 2 Ominus a b)) (filter (usable cf) ex_l) == 6 /\
  pair_sum (fun a b => snd (cov_pair cf ex_d 1 0 1 Ominus a b)) (filter (usable cf) ex_l) == 8 /\
  forallb (fun p => negb (qeqb (g_dproj (geo_pair ex_d (fst p) (snd p))) 0) || (negb (pair_in ex_d 2 (fst p) (snd p)) && negb (pair_in ex_d 1 (fst p) (snd p))))
          (all_pairs (filter (usable cf) ex_l)) = true.
Proof. vm_compute. repeat split; reflexivity. Qed.

(* ------------------------------------------------------------------ symmetry in the two variables *)
Theorem C12_symmetry : forall asym npas iv jv k o cf d l,
  dir_address asym npas iv jv k o = dir_address asym npas jv iv k o /\
  vg_sw cf d iv jv k l == vg_sw cf d jv iv k l /\ vg_num cf d iv jv k l == vg_num cf d jv iv k l.
Proof. exact (fun asym npas iv jv k o cf d l => conj (dir_address_sym asym npas iv jv k o) (vg_sym cf d iv jv k l)). Qed.
Print Assumptions C12_symmetry.

(* ------------------------------------------------------------------ permutation of the samples *)
Theorem C12_permutation_spec : forall cf d, c_dateChk cf = false -> forall iv jv k l l',
  Permutation l l' -> vg_sw cf d iv jv k l == vg_sw cf d iv jv k l' /\ vg_num cf d iv jv k l == vg_num cf d iv jv k l'.
Proof. exact vg_sums_perm. Qed.
Print Assumptions C12_permutation_spec.

Theorem C12_permutation : forall cf d n l l' iv jv k,
  c_calc cf = Vg -> c_dateLoop cf = false -> c_dateChk cf = false ->
  0 < d_dpas d -> 0 <= d_tol d -> 0 <= d_psmin d -> 0 < Qred (dot (d_codir d) (d_codir d)) ->
  Forall (same_dim n) l ->
  (jv <= iv)%nat -> (iv < c_nvar cf)%nat -> (k < d_npas d)%nat ->
  Permutation l l' ->
  let adr := dir_address false (d_npas d) iv jv k Ozero in
  a_sw (nth adr (accumulate1 cf d l) cell0) == a_sw (nth adr (accumulate1 cf d l') cell0) /\
  a_glo (nth adr (accumulate1 cf d l) cell0) == a_glo (nth adr (accumulate1 cf d l') cell0) /\
  a_ghi (nth adr (accumulate1 cf d l) cell0) == a_ghi (nth adr (accumulate1 cf d l') cell0).
Proof. exact accumulate1_vg_perm. Qed.
Print Assumptions C12_permutation.

(* variogram, madogram, order-4: EVERY field of every accumulator (weight, mean-separation enclosure, value enclosure) *)
Theorem C12_permutation_sym : forall cf d n l l' iv jv k,
  plain_sym (c_calc cf) -> c_dateLoop cf = false -> c_dateChk cf = false ->
  0 < d_dpas d -> 0 <= d_tol d -> 0 <= d_psmin d -> 0 < Qred (dot (d_codir d) (d_codir d)) ->
  Forall (same_dim n) l -> Permutation l l' ->
  (jv <= iv)%nat -> (iv < c_nvar cf)%nat -> (k < d_npas d)%nat ->
  cell_eq (nth (dir_address false (d_npas d) iv jv k Ozero) (accumulate1 cf d l) cell0)
          (nth (dir_address false (d_npas d) iv jv k Ozero) (accumulate1 cf d l') cell0).
Proof. exact accumulate1_plain_sym_perm. Qed.
Print Assumptions C12_permutation_sym.

(* in date mode: sums over ordered pairs do not depend on the order of the samples either *)
Theorem C12_permutation_dates : forall (f : sample -> sample -> Q) l l', Permutation l l' -> opair_sum f l == opair_sum f l'.
Proof. exact (@opair_sum_perm sample). Qed.
Print Assumptions C12_permutation_dates.

(* covariance: C12_estimators_cov expresses the accumulators by sums over the data in any order (the right-hand side does not
   mention the sort), under the hypothesis that no contributing pair is orthogonal to the direction.  Coincident samples are
   now handled symmetrically: *)
Definition dup_s (x z1 z2 : Q) : sample := {| s_x := [x]; s_sel := true; s_w := None; s_date := None; s_z := [Some z1; Some z2] |}.
Definition dup_cf : cfg := {| c_calc := CovNC; c_hasSel := false; c_hasW := false; c_dateLoop := false; c_dateChk := false; c_nvar := 2 |}.
Definition dup_d : dirp := {| d_npas := 2; d_dpas := 1; d_tol := 1 # 2; d_psmin := 0; d_codir := [1]; d_bench := None; d_cyl := None; d_dmin := 0; d_dmax := 0 |}.
Example C12_permutation_coincident :
  let l := [dup_s 0 1 10; dup_s 0 3 20; dup_s 1 2 50] in
  let l' := [dup_s 0 3 20; dup_s 0 1 10; dup_s 1 2 50] in
  map o_gg (nth 1 (solution1 dup_cf dup_d l) []) = [Some (100, 100); Some (25, 25); Some (170 # 3, 170 # 3); Some (25, 25); Some (30, 30)] /\
  solution1 dup_cf dup_d l' = solution1 dup_cf dup_d l.
Proof. cbv zeta. split; vm_compute; reflexivity. Qed.

(* The hypothesis cannot be dropped: a pair orthogonal to the direction (angular tolerance 90 degrees) has no orientation;
   _evaluateCovariance puts z_i(first) z_j(second) on the "+" side and z_i(second) z_j(first) on the "-" side, "first" being
   decided by the order of the samples (known finding evaluateCovariance:undirected-pair-orientation). *)
Definition or_s (x y z1 z2 : Q) : sample := {| s_x := [x; y]; s_sel := true; s_w := None; s_date := None; s_z := [Some z1; Some z2] |}.
Definition or_d : dirp := {| d_npas := 2; d_dpas := 1; d_tol := 1 # 2; d_psmin := 0; d_codir := [1; 0]; d_bench := None; d_cyl := None; d_dmin := 0; d_dmax := 0 |}.
Example C12_permutation_refuted :
  let l := [or_s 0 0 1 10; or_s 0 1 3 20] in
  let l' := [or_s 0 1 3 20; or_s 0 0 1 10] in
  Permutation l l' /\
  g_dproj (geo_pair or_d (or_s 0 0 1 10) (or_s 0 1 3 20)) == 0 /\ coincident or_d (or_s 0 0 1 10) (or_s 0 1 3 20) = false /\
  map o_gg (nth 1 (solution1 dup_cf or_d l) []) = [Some (20, 20); None; Some (35, 35); None; Some (30, 30)] /\
  map o_gg (nth 1 (solution1 dup_cf or_d l') []) = [Some (30, 30); None; Some (35, 35); None; Some (20, 20)].
Proof. cbv zeta. split; [apply perm_swap|]. repeat split; vm_compute; reflexivity. Qed.

(* ------------------------------------------------------------------ translation of the coordinates *)
Theorem C12_translation : forall t cf d l,
  Forall (fun s => length (s_x s) = length t) l -> solution1 cf d (map (translate t) l) = solution1 cf d l.
Proof. exact solution1_translate. Qed.
Print Assumptions C12_translation.

Example C12_translation_nonvacuous :
  let t := [1000 # 1; -(517 # 2)] in
  Forall (fun s => length (s_x s) = length t) ex_l /\
  solution1 (ex_cf Cov) ex_d (map (translate t) ex_l) = solution1 (ex_cf Cov) ex_d ex_l /\
  existsb (fun c => qltb 0 (o_sw c)) (nth 0 (solution1 (ex_cf Cov) ex_d ex_l) []) = true.
Proof. cbv zeta. split; [repeat constructor|]. split; vm_compute; reflexivity. Qed.

(* ------------------------------------------------------------------ by-sample algorithm (flag_sample) *)
(* variogram, madogram, order-4: _calculateGeneralSolution2 returns exactly the by-sample estimator of the spec: for every first
   sample a (order of the first coordinate) the ratios G_a(k)/S_a(k) of its OWN pairs (a, b), b after a, averaged with weight w_a;
   pairs, lags and acceptance by their closed forms *)
Theorem C12_bysample : forall cf d,
  plain_sym (c_calc cf) -> c_dateLoop cf = false -> c_dateChk cf = false ->
  0 < d_dpas d -> 0 <= d_tol d -> 0 <= d_psmin d -> 0 < Qred (dot (d_codir d) (d_codir d)) ->
  forall n l, Forall (same_dim n) l -> solution2 cf d l = spec_solution2 cf d l.
Proof. exact solution2_spec. Qed.
Print Assumptions C12_bysample.

(* one pair: isOK + getLagRank + _evaluate = acceptance and lag class by their closed forms *)
Theorem C12_pair_closed_form : forall cf d,
  plain_sym (c_calc cf) -> c_dateChk cf = false ->
  0 < d_dpas d -> 0 <= d_psmin d -> 0 < Qred (dot (d_codir d) (d_codir d)) ->
  forall means means' a b, pair_updates cf d means a b = spec_pair_updates cf d means' a b.
Proof. exact pair_updates_spec. Qed.
Print Assumptions C12_pair_closed_form.

Example C12_bysample_nonvacuous :
  let cf := {| c_calc := Vg; c_hasSel := false; c_hasW := false; c_dateLoop := false; c_dateChk := false; c_nvar := 1 |} in
  let l := [wit_s 0 1; wit_s 1 3; wit_s 2 2; wit_s 3 5; wit_s 4 7] in
  map o_gg (nth 0 (solution2 cf wit_dir l) []) = [None; Some (9 # 4, 9 # 4); Some (5, 5)] /\
  map o_sw (nth 0 (solution2 cf wit_dir l) []) = [0; 4; 3] /\
  solution2 cf wit_dir l = spec_solution2 cf wit_dir l.
Proof. cbv zeta. repeat split; vm_compute; reflexivity. Qed.

(* The by-sample estimator itself is NOT invariant under a mirror image of the data (a pair belongs to its first sample in the
   order of the first coordinate): samples at 0, 1, 5/4, 2 and their mirror image give 19/2 and 6 at lag 1, while the ordinary
   variogram gives 31/4 for both.  This is a property of the definition, not of the code; no mirror theorem is claimed. *)
Example C12_bysample_mirror_refuted :
  let cf := {| c_calc := Vg; c_hasSel := false; c_hasW := false; c_dateLoop := false; c_dateChk := false; c_nvar := 1 |} in
  let l := [wit_s 0 1; wit_s 1 4; wit_s (5 # 4) 2; wit_s 2 8] in
  let l' := [wit_s 2 1; wit_s 1 4; wit_s (3 # 4) 2; wit_s 0 8] in
  map o_gg (nth 0 (spec_solution2 cf wit_dir l) []) = [Some (2, 2); Some (19 # 2, 19 # 2); Some (49 # 2, 49 # 2)] /\
  map o_gg (nth 0 (spec_solution2 cf wit_dir l') []) = [Some (2, 2); Some (6, 6); Some (49 # 2, 49 # 2)] /\
  map o_gg (nth 0 (solution1 cf wit_dir l) []) = map o_gg (nth 0 (solution1 cf wit_dir l') []).
Proof. cbv zeta. repeat split; vm_compute; reflexivity. Qed.

(* ------------------------------------------------------------------ irregular lags (breaks) *)
(* getLagRank with breaks returns the FIRST lag k < npas whose interval ]b_k, b_{k+1}] contains the distance ... *)
Theorem C12_lagrank_irregular : forall npas bs d2 k,
  lag_rank_irr npas bs d2 = Some k <->
  (k < npas)%nat /\ in_break_P bs d2 k /\ forall j, (j < k)%nat -> ~ in_break_P bs d2 j.
Proof. exact lag_rank_irr_spec. Qed.
Print Assumptions C12_lagrank_irregular.
(* ... which, for increasing non-negative breaks, is the only one ... *)
Theorem C12_lagrank_irregular_unique : forall bs d2 j k,
  breaks_increasing bs -> 0 <= nth 0 bs 0 -> (S j < length bs)%nat -> (S k < length bs)%nat ->
  in_break_P bs d2 j -> in_break_P bs d2 k -> j = k.
Proof. exact in_break_unique. Qed.
Print Assumptions C12_lagrank_irregular_unique.
(* ... the interval test on squares being  b_k < sqrt(d2) <= b_{k+1}  over the reals ... *)
Theorem C12_lagrank_irregular_real : forall lo hi d2 : Q, 0 <= d2 ->
  ((lo < 0 \/ lo * lo < d2) /\ 0 <= hi /\ d2 <= hi * hi <-> (Q2R lo < sqrt (Q2R d2) <= Q2R hi)%R).
Proof. exact in_break_real. Qed.
Print Assumptions C12_lagrank_irregular_real.
(* ... and the 1-D pruning at the last break is harmless when the breaks increase *)
Theorem C12_break_irregular : forall npas bs d2 dx,
  breaks_increasing bs -> (npas < length bs)%nat -> 0 <= nth 0 bs 0 ->
  0 <= d2 -> dx * dx <= d2 -> maxdist_irr npas bs < dx -> lag_rank_irr npas bs d2 = None.
Proof. exact beyond_maxdist_irr. Qed.
Print Assumptions C12_break_irregular.
Example C12_lagrank_irregular_nonvacuous :
  let bs := [0; 1; 5 # 2; 4] in
  lag_rank_irr 3 bs 0 = None /\ lag_rank_irr 3 bs 1 = Some 0%nat /\ lag_rank_irr 3 bs 2 = Some 1%nat /\
  lag_rank_irr 3 bs (25 # 4) = Some 1%nat /\ lag_rank_irr 3 bs 16 = Some 2%nat /\ lag_rank_irr 3 bs 17 = None.
Proof. vm_compute. repeat split; reflexivity. Qed.

(* ------------------------------------------------------------------ grid indices, conservation *)
Theorem C12_grid_indices : forall nx,
  (forall r, (r < grid_size nx)%nat -> index_to_rank nx (rank_to_index nx r) = Some r) /\
  (forall u v r, index_to_rank nx u = Some r -> index_to_rank nx v = Some r -> u = v) /\
  (forall idx r, index_to_rank nx idx = Some r -> (r < grid_size nx)%nat).
Proof. exact (fun nx => conj (index_rank_inverse nx) (conj (index_to_rank_inj nx) (index_to_rank_bound nx))). Qed.
Print Assumptions C12_grid_indices.

(* every increment addressed to one of the n cells (lags of a variogram, cells of a map) is accounted for exactly once *)
Theorem C12_conservation : forall ufld n us,
  sumQ (map (fun k => fsum ufld k us) (seq 0 n)) == sumQ (map ufld (filter (fun u => Nat.ltb (u_addr u) n) us)).
Proof. exact fsum_total. Qed.
Print Assumptions C12_conservation.

(* ------------------------------------------------------------------ grid algorithm = general algorithm *)
(* Nodes of a regular grid (coordinates x0 + index * dx, dx > 0) in rank order; direction = the grid increment g (codir = g*dx),
   zero angular tolerance (psmin = 1), lag = length of the increment (rational), no distance tolerance, no bench / cylinder:
   for every lag 1 <= k < npas and every variable pair the weight and the value sums of Vario::_calculateGeneralSolution1 and of
   Vario::_calculateOnGridSolution coincide (variogram).  Lag 0 is never written by the grid algorithm. *)
Theorem C12_grid_eq_general : forall cf d nx dx x0 g cells,
  c_calc cf = Vg -> c_dateLoop cf = false -> c_dateChk cf = false ->
  d_psmin d == 1 -> d_tol d == 0 -> d_bench d = None -> d_cyl d = None ->
  d_codir d = qv g dx -> 0 < d_dpas d -> d_dpas d * d_dpas d == dot (qv g dx) (qv g dx) ->
  Forall (fun e => 0 < e) dx -> length nx = length dx -> length g = length dx -> length x0 = length dx ->
  (forall r s, nth_error cells r = Some s -> s_x s = coord x0 dx (rank_to_index nx r)) ->
  length cells = grid_size nx ->
  forall k iv jv, (1 <= k)%nat -> (k < d_npas d)%nat -> (jv <= iv)%nat -> (iv < c_nvar cf)%nat ->
  forall means',
  let adr := dir_address false (d_npas d) iv jv k Ozero in
  let cg := nth adr (accumulate1 cf d cells) cell0 in
  let cr := nth adr (apply_upds (zero_arr cf d)
                       (grid_updates cf (d_npas d) (sqrt_lo (d_dpas d * d_dpas d)) (sqrt_hi (d_dpas d * d_dpas d)) means' nx cells g)) cell0 in
  a_sw cg == a_sw cr /\ a_glo cg == a_glo cr /\ a_ghi cg == a_ghi cr.
Proof.
  intros cf d nx dx x0 g cells H1 H2 H3 H4 H5 H6 H7 H8 H9 H10 H11 H12 H13 H14 H15 H16 k iv jv K1 K2 K3 K4 means'.
  exact (grid_eq_general_raw cf d nx dx x0 g cells H1 H2 H3 H4 H5 H6 H7 H8 H9 H10 H11 H12 H13 H14 H15 H16 k iv jv K1 K2 K3 K4 means').
Qed.
Print Assumptions C12_grid_eq_general.

(* mean separation of the grid algorithm: the distance sums of lag k are k times the (enclosure of the) increment length times
   the weight sum, i.e. the reported hh is exactly k |increment| *)
Theorem C12_grid_hh : forall cf d nx (dx x0 : list Q) g cells,
  c_calc cf = Vg -> length nx = length dx -> length g = length dx -> length x0 = length dx -> length cells = grid_size nx ->
  forall k iv jv, (1 <= k)%nat -> (k < d_npas d)%nat -> (jv <= iv)%nat -> (iv < c_nvar cf)%nat ->
  forall dlo dhi means',
  let adr := dir_address false (d_npas d) iv jv k Ozero in
  let us := grid_updates cf (d_npas d) dlo dhi means' nx cells g in
  fsum u_hlo adr us == inject_Z (Z.of_nat k) * dlo * fsum u_sw adr us /\
  fsum u_hhi adr us == inject_Z (Z.of_nat k) * dhi * fsum u_sw adr us.
Proof. exact grid_hh_exact. Qed.
Print Assumptions C12_grid_hh.

(* the same agreement for the centred / non-centred covariance, both sides (o = Oplus, Ominus) of every lag *)
Theorem C12_grid_eq_general_cov : forall cf d nx dx x0 g cells,
  c_calc cf = Cov \/ c_calc cf = CovNC -> c_dateLoop cf = false -> c_dateChk cf = false ->
  d_psmin d == 1 -> d_tol d == 0 -> d_bench d = None -> d_cyl d = None ->
  d_codir d = qv g dx -> 0 < d_dpas d -> d_dpas d * d_dpas d == dot (qv g dx) (qv g dx) ->
  Forall (fun e => 0 < e) dx -> length nx = length dx -> length g = length dx -> length x0 = length dx ->
  (forall r s, nth_error cells r = Some s -> s_x s = coord x0 dx (rank_to_index nx r)) ->
  length cells = grid_size nx ->
  forall k iv jv o, (1 <= k)%nat -> (k < d_npas d)%nat -> (jv <= iv)%nat -> (iv < c_nvar cf)%nat -> o <> Ozero ->
  forall means',
  let adr := dir_address true (d_npas d) iv jv k o in
  let cg := nth adr (accumulate1 cf d cells) cell0 in
  let cr := nth adr (apply_upds (zero_arr cf d)
                       (grid_updates cf (d_npas d) (sqrt_lo (d_dpas d * d_dpas d)) (sqrt_hi (d_dpas d * d_dpas d)) means' nx cells g)) cell0 in
  a_sw cg == a_sw cr /\ a_glo cg == a_glo cr /\ a_ghi cg == a_ghi cr.
Proof.
  intros cf d nx dx x0 g cells H1 H2 H3 H4 H5 H6 H7 H8 H9 H10 H11 H12 H13 H14 H15 H16 k iv jv o K1 K2 K3 K4 K5 means'.
  exact (grid_eq_general_cov cf d nx dx x0 g cells H1 H2 H3 H4 H5 H6 H7 H8 H9 H10 H11 H12 H13 H14 H15 H16 k iv jv o K1 K2 K3 K4 K5 means').
Qed.
Print Assumptions C12_grid_eq_general_cov.

(* the pairs of lag k of such a direction are exactly the pairs of nodes k increments apart *)
Theorem C12_grid_pairs : forall d nx dx x0 g cells,
  d_psmin d == 1 -> d_tol d == 0 -> d_bench d = None -> d_cyl d = None ->
  d_codir d = qv g dx -> 0 < d_dpas d -> d_dpas d * d_dpas d == dot (qv g dx) (qv g dx) ->
  Forall (fun e => 0 < e) dx -> length nx = length dx -> length g = length dx -> length x0 = length dx ->
  (forall r s, nth_error cells r = Some s -> s_x s = coord x0 dx (rank_to_index nx r)) ->
  forall ra rb a b k, nth_error cells ra = Some a -> nth_error cells rb = Some b -> (1 <= k)%nat -> (k < d_npas d)%nat ->
  (pair_in d k a b = true <->
   vsubZ (rank_to_index nx rb) (rank_to_index nx ra) = scaleZ (Z.of_nat k) g \/
   vsubZ (rank_to_index nx rb) (rank_to_index nx ra) = scaleZ (- Z.of_nat k) g).
Proof. exact pair_in_grid. Qed.
Print Assumptions C12_grid_pairs.

Definition gx_cells : list sample :=
  map (fun rz : nat * Q => {| s_x := coord [0; 1] [1; 2] (rank_to_index [3; 3]%nat (fst rz)); s_sel := true; s_w := None; s_date := None;
                              s_z := [Some (snd rz)] |})
      (combine (seq 0 9) [1; 4; 2; 7; 0; 3; 5; 5; 9]).
Example C12_grid_eq_general_nonvacuous :
  (* 3 x 3 grid, mesh (1, 2), increment (1, 1): codir (1, 2), lag length... taken along (0, 1): codir (0, 2), lag 2 *)
  let cf := {| c_calc := Vg; c_hasSel := false; c_hasW := false; c_dateLoop := false; c_dateChk := false; c_nvar := 1 |} in
  let d := {| d_npas := 3; d_dpas := 2; d_tol := 0; d_psmin := 1; d_codir := qv [0; 1]%Z [1; 2]; d_bench := None; d_cyl := None; d_dmin := 0; d_dmax := 0 |} in
  let gen := accumulate1 cf d gx_cells in
  let grd := apply_upds (zero_arr cf d) (grid_updates cf 3 (sqrt_lo 4) (sqrt_hi 4) [] [3; 3]%nat gx_cells [0; 1]%Z) in
  map a_sw gen = [0; 6; 3] /\ map a_sw grd = [0; 6; 3] /\ map a_glo gen = map a_glo grd /\ 0 < a_glo (nth 1 grd cell0) /\
  (* mean separation of the grid algorithm: exactly k times the increment *)
  map a_hlo grd = [0; 12; 12].
Proof. vm_compute. repeat split; reflexivity. Qed.

(* ------------------------------------------------------------------ variogram map, variogram cloud *)
(* db_vmap on a grid: an ordered pair of active nodes goes to the single cell of its index difference; the map is symmetric:
   the cells of delta and of -delta hold the same weight and the same value sums (variogram, madogram, rodogram, order 4) *)
Theorem C12_vmap_symmetric : forall cf nx cells nxx,
  plain_sym (c_calc cf) -> length nx = length nxx ->
  forall delta t t' iv jv,
  length delta = length nxx ->
  index_to_rank (map_nx nxx) (vaddZ delta (half_sizes nxx)) = Some t ->
  index_to_rank (map_nx nxx) (vaddZ (map Z.opp delta) (half_sizes nxx)) = Some t' ->
  (jv <= iv)%nat -> (iv < c_nvar cf)%nat ->
  let us := vmap_grid_updates cf nx cells nxx in
  let n := grid_size (map_nx nxx) in
  fsum u_sw (dir_address false n iv jv t Ozero) us == fsum u_sw (dir_address false n iv jv t' Ozero) us /\
  fsum u_glo (dir_address false n iv jv t Ozero) us == fsum u_glo (dir_address false n iv jv t' Ozero) us /\
  fsum u_ghi (dir_address false n iv jv t Ozero) us == fsum u_ghi (dir_address false n iv jv t' Ozero) us.
Proof.
  intros cf nx cells nxx Hc Hd delta t t' iv jv Ld Ht Ht' Hj Hi. cbv zeta. repeat split.
  - exact (vmap_grid_symmetric cf nx cells nxx Hc Hd u_sw (fun u u' H1 H2 H3 H4 H5 => H1) delta t t' iv jv Ld Ht Ht' Hj Hi).
  - exact (vmap_grid_symmetric cf nx cells nxx Hc Hd u_glo (fun u u' H1 H2 H3 H4 H5 => H4) delta t t' iv jv Ld Ht Ht' Hj Hi).
  - exact (vmap_grid_symmetric cf nx cells nxx Hc Hd u_ghi (fun u u' H1 H2 H3 H4 H5 => H5) delta t t' iv jv Ld Ht Ht' Hj Hi).
Qed.
Print Assumptions C12_vmap_symmetric.

(* db_vcloud: every accepted pair with both values defined that falls inside the grid of the cloud is counted in exactly one cell *)
Theorem C12_vcloud_total : forall cf d lagnb varnb dx0 dx1 l,
  fold_right Z.add 0%Z (vcloud cf d lagnb varnb dx0 dx1 l) = Z.of_nat (length (cloud_hits cf d lagnb varnb dx0 dx1 l)).
Proof. exact vcloud_total. Qed.
Print Assumptions C12_vcloud_total.

Example C12_vmap_vcloud_nonvacuous :
  let cf := {| c_calc := Vg; c_hasSel := false; c_hasW := false; c_dateLoop := false; c_dateChk := false; c_nvar := 1 |} in
  let m := vmap_grid cf [3; 3]%nat gx_cells [1; 1]%nat in
  map o_sw (nth 0 m []) = [4; 6; 4; 6; 9; 6; 4; 6; 4] /\
  map o_gg (nth 0 m []) = rev (map o_gg (nth 0 m [])) /\
  let d := {| d_npas := 3; d_dpas := 1; d_tol := 1 # 2; d_psmin := 0; d_codir := [1; 0]; d_bench := None; d_cyl := None; d_dmin := 0; d_dmax := 0 |} in
  fold_right Z.add 0%Z (vcloud cf d 3 4 2 8 gx_cells) = 34%Z.
Proof. vm_compute. repeat split; reflexivity. Qed.

(* ------------------------------------------------------------------ generalised variograms G1, G2, G3 *)
(* the weight tables are those of the finite differences of order 2, 3, 4: they sum to zero, annihilate linear trends,
   and NORWGT is the sum of their squares *)
Theorem C12_gen_weights : forall norder, (1 <= norder <= 3)%nat ->
  let (ws, nor) := gen_weights norder in
  wsum 0 0 ws == 0 /\ wsum 1 0 ws == 0 /\ dot ws ws == nor /\ length ws = (norder + 2)%nat.
Proof. exact gen_weights_facts. Qed.
Print Assumptions C12_gen_weights.

(* every term accumulated by Vario::_calculateGenOnGridSolution: weight 1 at lag ipas, value = squared finite difference of the
   aligned node values z(r), z(r + ipas g), z(r + 2 ipas g), ... over the weight table, divided by NORWGT *)
Theorem C12_gen_value : forall cf npas dlo dhi norder nx cells g u,
  In u (gen_updates cf npas dlo dhi norder nx cells g) ->
  exists r a ipas z0 zs,
    nth_error cells r = Some a /\ (1 <= ipas < npas)%nat /\ zval a 0 = Some z0 /\
    gen_values cf nx cells r g ipas 1 (length (tl (fst (gen_weights norder)))) = Some zs /\
    u_addr u = ipas /\ u_sw u == 1 /\
    u_glo u == dot (z0 :: zs) (fst (gen_weights norder)) * dot (z0 :: zs) (fst (gen_weights norder)) / snd (gen_weights norder) /\
    u_ghi u == u_glo u.
Proof. exact gen_updates_value. Qed.
Print Assumptions C12_gen_value.

(* on a one-dimensional data set in rank order the line version (_calculateOnLineSolution, any accepting direction) and the grid
   version (increment 1) add the same weights and values to every lag *)
Theorem C12_gen_line_eq_grid : forall cf d cells c0,
  d_codir d = [c0] -> ~ c0 == 0 -> 0 <= d_psmin d -> d_psmin d <= 1 -> d_bench d = None -> d_cyl d = None ->
  (forall r s, nth_error cells r = Some s -> exists x, s_x s = [x]) ->
  forall norder dlo dhi k,
  let lu := line_updates cf d norder cells in
  let gu := gen_updates cf (d_npas d) dlo dhi norder [length cells] cells [1%Z] in
  fsum u_sw k lu == fsum u_sw k gu /\ fsum u_glo k lu == fsum u_glo k gu /\ fsum u_ghi k lu == fsum u_ghi k gu.
Proof.
  intros cf d cells c0 H1 H2 H3 H4 H5 H6 H7 norder dlo dhi k. cbv zeta. repeat split.
  - apply (line_eq_grid_1d cf d cells c0 H1 H2 H3 H4 H5 H6 H7 u_sw). intros u u' E1 E2 E3 E4. rewrite E1. destruct (Nat.eqb (u_addr u') k); [exact E2|reflexivity].
  - apply (line_eq_grid_1d cf d cells c0 H1 H2 H3 H4 H5 H6 H7 u_glo). intros u u' E1 E2 E3 E4. rewrite E1. destruct (Nat.eqb (u_addr u') k); [exact E3|reflexivity].
  - apply (line_eq_grid_1d cf d cells c0 H1 H2 H3 H4 H5 H6 H7 u_ghi). intros u u' E1 E2 E3 E4. rewrite E1. destruct (Nat.eqb (u_addr u') k); [exact E4|reflexivity].
Qed.
Print Assumptions C12_gen_line_eq_grid.

Example C12_gen_nonvacuous :
  let cf := {| c_calc := Vg; c_hasSel := false; c_hasW := false; c_dateLoop := false; c_dateChk := false; c_nvar := 1 |} in
  let cells := map (fun xz : Q * Q => {| s_x := [fst xz]; s_sel := true; s_w := None; s_date := None; s_z := [Some (snd xz)] |})
                   [(0, 1); (1, 4); (2, 2); (3, 7); (4, 0); (5, 3); (6, 5)] in
  let d := {| d_npas := 3; d_dpas := 1; d_tol := 1 # 2; d_psmin := 0; d_codir := [1]; d_bench := None; d_cyl := None; d_dmin := 0; d_dmax := 0 |} in
  (* order 1 at lag 1: second differences (1 - 2*4 + 2)^2 / 6, ... five of them *)
  map u_glo (filter (fun u => Nat.eqb (u_addr u) 1) (gen_updates cf 3 1 1 1 [7]%nat cells [1%Z])) = [25 # 6; 49 # 6; 144 # 6; 100 # 6; 1 # 6] /\
  map u_glo (filter (fun u => Nat.eqb (u_addr u) 1) (line_updates cf d 1 cells)) = [25 # 6; 49 # 6; 144 # 6; 100 # 6; 1 # 6] /\
  length (filter (fun u => Nat.eqb (u_addr u) 2) (line_updates cf d 1 cells)) = 3%nat.
Proof. vm_compute. repeat split; reflexivity. Qed.

(* ------------------------------------------------------------------ FFT variogram map (VMap::_grid_fft): index logic *)
(* along one axis: the circular cross-correlation of period P of two arrays of length N padded with zeros equals the linear
   cross-correlation (the sum over the pairs x, x + k) at every lag |k| <= h as soon as P >= N + h: no wrap-around term *)
Theorem C12_fft_no_wraparound : forall (P h : nat) (a b : list Q) (k : Z),
  length b = length a -> (length a + h <= P)%nat -> (- Z.of_nat h <= k <= Z.of_nat h)%Z ->
  circ_corr P a b k == lin_corr a b k.
Proof. exact circ_eq_lin. Qed.
Print Assumptions C12_fft_no_wraparound.

(* the index fact behind it, usable axis by axis in any dimension: the wrapped index of x + k is x + k when that lies at or
   after the origin, and falls in the zero padding [N, P) when x + k is negative *)
Theorem C12_fft_wrap_index : forall (P N h x : nat) (k : Z),
  (N + h <= P)%nat -> (x < N)%nat -> (- Z.of_nat h <= k <= Z.of_nat h)%Z ->
  let j := ((Z.of_nat x + k) mod Z.of_nat P)%Z in
  ((0 <= Z.of_nat x + k)%Z -> j = (Z.of_nat x + k)%Z) /\
  ((Z.of_nat x + k < 0)%Z -> (Z.of_nat N <= j < Z.of_nat P)%Z).
Proof. exact wrap_index. Qed.
Print Assumptions C12_fft_wrap_index.

(* the size chosen by the code, ceil((N + M - 1)/8)*8 with M = 2h + 1 map cells, is large enough ... *)
Theorem C12_fft_size_sufficient : forall n h, (n + h <= fft_size n (2 * h + 1))%nat.
Proof. exact fft_size_sufficient. Qed.
Print Assumptions C12_fft_size_sufficient.
(* ... so that every extracted lag of the FFT path is a pairwise sum *)
Theorem C12_fft_is_pairwise : forall (n h : nat) (a b : list Q) (k : Z),
  length a = n -> length b = n -> (- Z.of_nat h <= k <= Z.of_nat h)%Z ->
  circ_corr (fft_size n (2 * h + 1)) a b k == lin_corr a b k.
Proof. exact fft_no_wraparound. Qed.
Print Assumptions C12_fft_is_pairwise.

(* P = N + h - 1 is one short: N = 5, h = 4, P = 8, indicator arrays: the lag +4 (one pair: x = 0 with x = 4) also receives the
   pair of lag -4 wrapped around; and a size ceil((N + h - 1)/8)*8 would be exactly that P for these N, h *)
Example C12_fft_wraparound_refuted :
  let a := [1; 1; 1; 1; 1] in
  lin_corr a a 4 == 1 /\ circ_corr 8 a a 4 == 2 /\ circ_corr 9 a a 4 == 1 /\
  ((5 + 4 - 1 + 7) / 8 * 8 = 8)%nat /\ fft_size 5 (2 * 4 + 1) = 16%nat /\ circ_corr 16 a a 4 == 1 /\ circ_corr 16 a a (-4) == 1.
Proof. vm_compute. repeat split; reflexivity. Qed.

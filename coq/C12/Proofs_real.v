(* C12 proofs, part 12: the closed-form lag class, written on squares in Spec.in_class, is the statement about the real
   square root:  k - 1/2 <= sqrt(d2)/dpas < k + 1/2  and  |sqrt(d2) - k dpas| <= tol dpas. *)
From Coq Require Import List ZArith QArith Qreals Reals Lra Lia.
From Gst Require Import lib.QAux C12.Model C12.Spec C12.Proofs_lag.
Local Open Scope R_scope.

Lemma Q2R_injZ z : Q2R (inject_Z z) = IZR z.
Proof. unfold Q2R, inject_Z. cbn. rewrite Rinv_1, Rmult_1_r. reflexivity. Qed.

(* comparison with a square root, on squares *)
Lemma le_sqrt_sq x y : 0 <= x -> 0 <= y -> (x <= sqrt y <-> x * x <= y).
Proof.
  intros Hx Hy. pose proof (sqrt_pos y) as Hs. pose proof (sqrt_sqrt y Hy) as Hss.
  split; intro H.
  - rewrite <- Hss. apply Rmult_le_compat; lra.
  - destruct (Rle_or_lt x (sqrt y)) as [L|L]; [exact L|]. exfalso.
    assert (sqrt y * sqrt y < x * x) by (apply Rmult_le_0_lt_compat; lra). lra.
Qed.
Lemma sqrt_lt_sq x y : 0 <= x -> 0 <= y -> (sqrt y < x <-> y < x * x).
Proof.
  intros Hx Hy. pose proof (le_sqrt_sq x y Hx Hy) as H.
  split; intro L.
  - destruct (Rle_or_lt (x * x) y) as [A|A]; [|exact A]. apply H in A. lra.
  - destruct (Rle_or_lt x (sqrt y)) as [A|A]; [|exact A]. apply H in A. lra.
Qed.
Lemma sqrt_le_sq x y : 0 <= x -> 0 <= y -> (sqrt y <= x <-> y <= x * x).
Proof.
  intros Hx Hy. pose proof (sqrt_pos y) as Hs. pose proof (sqrt_sqrt y Hy) as Hss.
  split; intro H.
  - rewrite <- Hss. apply Rmult_le_compat; lra.
  - destruct (Rle_or_lt (sqrt y) x) as [L|L]; [exact L|]. exfalso.
    assert (x * x < sqrt y * sqrt y) by (apply Rmult_le_0_lt_compat; lra). lra.
Qed.

(* the class condition over the reals *)
Definition in_class_R (npas : nat) (dpas tol : R) (d2 : R) (k : nat) : Prop :=
  (k < npas)%nat /\
  INR k - 1 / 2 <= sqrt d2 / dpas < INR k + 1 / 2 /\
  Rabs (sqrt d2 - INR k * dpas) <= tol * dpas.

Lemma in_class_real d d2 k :
  (0 < d_dpas d)%Q -> (0 <= d_tol d)%Q -> (0 <= d2)%Q ->
  (in_class d d2 k <-> in_class_R (d_npas d) (Q2R (d_dpas d)) (Q2R (d_tol d)) (Q2R d2) k).
Proof.
  intros Hdp Htol Hd2. unfold in_class, in_class_R. cbv zeta.
  apply Qlt_Rlt in Hdp. apply Qle_Rle in Htol. apply Qle_Rle in Hd2. rewrite RMicromega.Q2R_0 in *.
  set (De := Q2R (d_dpas d)) in *. set (T := Q2R (d_tol d)) in *. set (D2 := Q2R d2) in *.
  pose proof (sqrt_pos D2) as Hs. pose proof (sqrt_sqrt D2 Hd2) as Hss. set (s := sqrt D2) in *.
  assert (HK : Q2R (inject_Z (Z.of_nat k)) = INR k) by (rewrite Q2R_injZ, <- INR_IZR_INZ; reflexivity).
  assert (HK0 : 0 <= INR k) by apply pos_INR.
  (* translate the four rational inequalities *)
  assert (I1 : ((2 * inject_Z (Z.of_nat k) - 1) * (2 * inject_Z (Z.of_nat k) - 1) * (d_dpas d * d_dpas d) <= 4 * d2)%Q
               <-> (2 * INR k - 1) * (2 * INR k - 1) * (De * De) <= 4 * D2).
  { split; intro H.
    - apply Qle_Rle in H. rewrite !Q2R_mult, !Q2R_minus, !Q2R_mult, HK in H.
      replace (Q2R 2) with 2 in H by (unfold Q2R; cbn; lra). replace (Q2R 1) with 1 in H by (unfold Q2R; cbn; lra).
      replace (Q2R 4) with 4 in H by (unfold Q2R; cbn; lra). exact H.
    - apply Rle_Qle. rewrite !Q2R_mult, !Q2R_minus, !Q2R_mult, HK.
      replace (Q2R 2) with 2 by (unfold Q2R; cbn; lra). replace (Q2R 1) with 1 by (unfold Q2R; cbn; lra).
      replace (Q2R 4) with 4 by (unfold Q2R; cbn; lra). exact H. }
  assert (I2 : (4 * d2 < (2 * inject_Z (Z.of_nat k) + 1) * (2 * inject_Z (Z.of_nat k) + 1) * (d_dpas d * d_dpas d))%Q
               <-> 4 * D2 < (2 * INR k + 1) * (2 * INR k + 1) * (De * De)).
  { split; intro H.
    - apply Qlt_Rlt in H. rewrite !Q2R_mult, !Q2R_plus, !Q2R_mult, HK in H.
      replace (Q2R 2) with 2 in H by (unfold Q2R; cbn; lra). replace (Q2R 1) with 1 in H by (unfold Q2R; cbn; lra).
      replace (Q2R 4) with 4 in H by (unfold Q2R; cbn; lra). exact H.
    - apply Rlt_Qlt. rewrite !Q2R_mult, !Q2R_plus, !Q2R_mult, HK.
      replace (Q2R 2) with 2 by (unfold Q2R; cbn; lra). replace (Q2R 1) with 1 by (unfold Q2R; cbn; lra).
      replace (Q2R 4) with 4 by (unfold Q2R; cbn; lra). exact H. }
  assert (I3 : ((inject_Z (Z.of_nat k) - d_tol d) * (inject_Z (Z.of_nat k) - d_tol d) * (d_dpas d * d_dpas d) <= d2)%Q
               <-> (INR k - T) * (INR k - T) * (De * De) <= D2).
  { split; intro H.
    - apply Qle_Rle in H. rewrite !Q2R_mult, !Q2R_minus, HK in H. exact H.
    - apply Rle_Qle. rewrite !Q2R_mult, !Q2R_minus, HK. exact H. }
  assert (I4 : (d2 <= (inject_Z (Z.of_nat k) + d_tol d) * (inject_Z (Z.of_nat k) + d_tol d) * (d_dpas d * d_dpas d))%Q
               <-> D2 <= (INR k + T) * (INR k + T) * (De * De)).
  { split; intro H.
    - apply Qle_Rle in H. rewrite !Q2R_mult, !Q2R_plus, HK in H. exact H.
    - apply Rle_Qle. rewrite !Q2R_mult, !Q2R_plus, HK. exact H. }
  assert (I5 : (inject_Z (Z.of_nat k) - d_tol d <= 0)%Q <-> INR k - T <= 0).
  { split; intro H.
    - apply Qle_Rle in H. rewrite Q2R_minus, HK, RMicromega.Q2R_0 in H. exact H.
    - apply Rle_Qle. rewrite Q2R_minus, HK, RMicromega.Q2R_0. exact H. }
  rewrite I1, I2, I3, I4, I5. clear I1 I2 I3 I4 I5.
  (* real side: every comparison of s = sqrt D2 with a non-negative bound is a comparison of squares *)
  assert (E1 : forall c, 0 <= c -> (c * De <= s <-> c * c * (De * De) <= D2)).
  { intros c Hc. pose proof (le_sqrt_sq (c * De) D2) as H0. fold s in H0. rewrite H0 by nra. split; intro H; nra. }
  assert (E2 : forall c, 0 <= c -> (s < c * De <-> D2 < c * c * (De * De))).
  { intros c Hc. pose proof (sqrt_lt_sq (c * De) D2) as H0. fold s in H0. rewrite H0 by nra. split; intro H; nra. }
  assert (E3 : forall c, 0 <= c -> (s <= c * De <-> D2 <= c * c * (De * De))).
  { intros c Hc. pose proof (sqrt_le_sq (c * De) D2) as H0. fold s in H0. rewrite H0 by nra. split; intro H; nra. }
  assert (Hdiv : forall c, (c <= s / De <-> c * De <= s) /\ (s / De < c <-> s < c * De)).
  { intro c. unfold Rdiv. split; split; intro H.
    - apply (Rmult_le_compat_r De) in H; [|lra]. rewrite Rmult_assoc, Rinv_l, Rmult_1_r in H by lra. exact H.
    - apply (Rmult_le_reg_r De); [lra|]. rewrite Rmult_assoc, Rinv_l, Rmult_1_r by lra. exact H.
    - apply (Rmult_lt_compat_r De) in H; [|lra]. rewrite Rmult_assoc, Rinv_l, Rmult_1_r in H by lra. exact H.
    - apply (Rmult_lt_reg_r De); [lra|]. rewrite Rmult_assoc, Rinv_l, Rmult_1_r by lra. exact H. }
  clear HK. clearbody s D2 De T.
  split.
  - intros (N & R1 & R2 & T1 & T2). split; [exact N|]. split; [split|].
    + apply (proj1 (Hdiv _)). destruct R1 as [R1|R1].
      * rewrite R1. cbn [INR]. lra.
      * destruct k as [|k']; [cbn [INR]; lra|].
        assert (Hk1 : 1 <= INR (S k')) by (rewrite S_INR; pose proof (pos_INR k'); lra).
        apply (E1 (INR (S k') - 1 / 2)); [lra|]. nra.
    + apply (proj2 (Hdiv _)). apply (E2 (INR k + 1 / 2)); [lra|]. nra.
    + apply Rabs_le. split.
      * destruct T1 as [T1|T1].
        -- nra.
        -- destruct (Rle_or_lt (INR k - T) 0) as [L|L]; [nra|].
           assert ((INR k - T) * De <= s) by (apply (E1 (INR k - T)); [lra|exact T1]). lra.
      * assert (s <= (INR k + T) * De) by (apply (E3 (INR k + T)); [lra|exact T2]). lra.
  - intros (N & [R1 R2] & T0).
    assert (T12 : - (T * De) <= s - INR k * De <= T * De) by (unfold Rabs in T0; destruct (Rcase_abs (s - INR k * De)); lra).
    destruct T12 as [T1 T2].
    split; [exact N|].
    apply (proj1 (Hdiv _)) in R1. apply (proj2 (Hdiv _)) in R2.
    split; [|split; [|split]].
    + destruct k as [|k']; [left; reflexivity|right].
      assert (Hk1 : 1 <= INR (S k')) by (rewrite S_INR; pose proof (pos_INR k'); lra).
      apply (E1 (INR (S k') - 1 / 2)) in R1; [|lra]. nra.
    + apply (E2 (INR k + 1 / 2)) in R2; [|lra]. nra.
    + destruct (Rle_or_lt (INR k - T) 0) as [L|L]; [left; exact L|right].
      apply (E1 (INR k - T)); [lra|]. lra.
    + apply (E3 (INR k + T)); [lra|]. lra.
Qed.

(* DirParam::getLagRank, as modelled on squares, decides the class of the real distance sqrt(d2) *)
Lemma lag_rank_real d d2 k :
  (0 < d_dpas d)%Q -> (0 <= d_tol d)%Q -> (0 <= d2)%Q ->
  (lag_rank d d2 = Some k <-> in_class_R (d_npas d) (Q2R (d_dpas d)) (Q2R (d_tol d)) (Q2R d2) k).
Proof.
  intros Hdp Htol Hd2. rewrite (lag_rank_in_class d Hdp d2 k Hd2). apply in_class_real; assumption.
Qed.

(* irregular lags: the interval test of getLagRank, written on squares in the model, is  b_k < sqrt(d2) <= b_{k+1} *)
Lemma in_break_real (lo hi d2 : Q) : (0 <= d2)%Q ->
  (((lo < 0)%Q \/ (lo * lo < d2)%Q) /\ (0 <= hi)%Q /\ (d2 <= hi * hi)%Q
   <-> Q2R lo < sqrt (Q2R d2) <= Q2R hi).
Proof.
  intro Hd2. apply Qle_Rle in Hd2. rewrite RMicromega.Q2R_0 in Hd2.
  pose proof (sqrt_pos (Q2R d2)) as Hs.
  split.
  - intros (A & B & C). apply Qle_Rle in B. rewrite RMicromega.Q2R_0 in B. apply Qle_Rle in C. rewrite Q2R_mult in C.
    split.
    + destruct A as [A|A].
      * apply Qlt_Rlt in A. rewrite RMicromega.Q2R_0 in A. lra.
      * apply Qlt_Rlt in A. rewrite Q2R_mult in A.
        destruct (Rle_or_lt 0 (Q2R lo)) as [L|L]; [|lra].
        destruct (Rle_or_lt (sqrt (Q2R d2)) (Q2R lo)) as [M|M]; [|exact M].
        apply (sqrt_le_sq (Q2R lo) (Q2R d2) L Hd2) in M. lra.
    + apply (sqrt_le_sq (Q2R hi) (Q2R d2) B Hd2). exact C.
  - intros [A B]. split; [|split].
    + destruct (Rle_or_lt 0 (Q2R lo)) as [L|L].
      * right. apply Rlt_Qlt. rewrite Q2R_mult. apply (sqrt_lt_sq (Q2R lo) (Q2R d2) L Hd2) in A || idtac.
        destruct (Rle_or_lt (Q2R d2) (Q2R lo * Q2R lo)) as [M|M]; [|exact M].
        apply (sqrt_le_sq (Q2R lo) (Q2R d2) L Hd2) in M. lra.
      * left. apply Rlt_Qlt. rewrite RMicromega.Q2R_0. exact L.
    + apply Rle_Qle. rewrite RMicromega.Q2R_0. lra.
    + apply Rle_Qle. rewrite Q2R_mult. apply (sqrt_le_sq (Q2R hi) (Q2R d2)); [lra|exact Hd2|exact B].
Qed.

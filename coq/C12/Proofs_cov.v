(* C12 proofs, part 9: explicit pairwise sums for the (centred or not) covariance; exchange of the two samples;
   exchange of the two variables (C_ij(h) = C_ji(-h)). *)
From Coq Require Import List ZArith QArith Qabs Qround Qminmax Bool Lqa Lia Permutation.
From Gst Require Import lib.QAux C12.Model C12.Spec C12.Proofs_enum C12.Proofs_lag C12.Proofs_acc C12.Proofs_geom C12.Proofs_vg C12.Proofs_main.
Import ListNotations.
Local Open Scope Q_scope.

Definition orient_eqb (o o' : orient) : bool :=
  match o, o' with Oplus, Oplus | Ominus, Ominus | Ozero, Ozero => true | _, _ => false end.
Lemma orient_eqb_spec o o' : reflect (o = o') (orient_eqb o o').
Proof. destruct o, o'; constructor; congruence. Qed.

Lemma asym_address_inj npas iv jv k o iv' jv' k' o' :
  (jv <= iv)%nat -> (jv' <= iv')%nat -> (k < npas)%nat -> (k' < npas)%nat -> o <> Ozero -> o' <> Ozero ->
  dir_address true npas iv jv k o = dir_address true npas iv' jv' k' o' -> iv = iv' /\ jv = jv' /\ k = k' /\ o = o'.
Proof.
  intros H H' Hk Hk' Ho Ho'. unfold dir_address, nlagtot. intro E.
  assert (R : var_rank iv jv = var_rank iv' jv').
  { destruct (Nat.lt_trichotomy (var_rank iv jv) (var_rank iv' jv')) as [L|[L|L]]; [exfalso|exact L|exfalso];
      destruct o, o'; try congruence; nia. }
  destruct (var_rank_inj _ _ _ _ H H' R) as [-> ->].
  destruct o, o'; try congruence; repeat split; nia.
Qed.
Lemma asym_address_bound npas nvar iv jv k o :
  (jv <= iv)%nat -> (iv < nvar)%nat -> (k < npas)%nat ->
  (dir_address true npas iv jv k o < dir_size true npas nvar)%nat.
Proof.
  intros H Hv Hk. unfold dir_address, dir_size, nlagtot. rewrite var_rank_lower by exact H.
  pose proof (tri_double iv) as T. pose proof (tri_double nvar) as T'.
  set (t := (iv * (iv + 1) / 2)%nat) in *. set (t' := (nvar * (nvar + 1) / 2)%nat) in *.
  assert ((iv + 1) * (iv + 2) <= nvar * (nvar + 1))%nat by nia.
  assert (t + jv + 1 <= t')%nat by nia.
  destruct o; nia.
Qed.

Lemma flip_nz o : o <> Ozero -> flip o <> Ozero.
Proof. destruct o; cbn; congruence. Qed.

(* permutation invariance of a pair sum when the summand is symmetric on the elements of the list *)
Lemma pair_sum_perm_on {A} (f : A -> A -> Q) l l' :
  (forall a b, In a l -> In b l -> f a b == f b a) -> Permutation l l' -> pair_sum f l == pair_sum f l'.
Proof.
  intros Hsym Hp. revert Hsym.
  induction Hp as [|x l l' Hp IH|x y l|l l' l'' Hp1 IH1 Hp2 IH2]; intro Hsym.
  - reflexivity.
  - rewrite !pair_sum_cons, IH by (intros; apply Hsym; right; assumption).
    rewrite (sumQ_perm (map (f x) l) (map (f x) l')) by (apply Permutation_map; exact Hp). reflexivity.
  - rewrite !pair_sum_cons. cbn [map]. rewrite !sumQ_cons.
    rewrite (Hsym y x) by (cbn; auto). ring.
  - rewrite IH1 by exact Hsym. apply IH2.
    intros a b Ha Hb. apply Hsym; eapply Permutation_in; try (symmetry; exact Hp1); assumption.
Qed.

Lemma fsum_two ufld k u v : fsum ufld k [u; v] == fsum ufld k [u] + fsum ufld k [v].
Proof. change [u; v] with ([u] ++ [v]). apply fsum_app. Qed.

(* ---------------------------------------------------------------- one pair *)
Section AsymPair.
Variable ufld : upd -> Q.
Variables (npas : nat) (pc : pctx) (a b : sample) (ww : Q).
Hypothesis Hipas : (p_ipas pc < npas)%nat.
Hypothesis Horient : p_orient pc <> Ozero.

Definition t1_of (iv jv : nat) : option Q := match zval a iv, zval b jv with Some z11, Some z22 => Some (z11 * z22) | _, _ => None end.
Definition t2_of (iv jv : nat) : option Q := match zval b iv, zval a jv with Some z12, Some z21 => Some (z12 * z21) | _, _ => None end.
Definition au (iv jv : nat) (o : orient) (w v : Q) : upd := mk_upd true npas pc iv jv o w v v 0.

(* the updates of one (iv, jv) iteration of _evaluateCovariance *)
Definition asym_elem (iv jv : nat) : list upd :=
  let o := p_orient pc in
  if p_coinc pc then
    (match t1_of iv jv with Some v => [au iv jv o (ww / 2) v; au iv jv (flip o) (ww / 2) v] | None => [] end) ++
    (match t2_of iv jv with Some v => [au iv jv o (ww / 2) v; au iv jv (flip o) (ww / 2) v] | None => [] end)
  else
    (match t1_of iv jv with Some v => [au iv jv o ww v] | None => [] end) ++
    (match t2_of iv jv with Some v => [au iv jv (flip o) ww v] | None => [] end).
Lemma eval_asym_elems iv : eval_asym npas pc a b ww iv = flat_map (asym_elem iv) (seq 0 (S iv)).
Proof. reflexivity. Qed.

(* what these updates add to the cell (iv, jv, ipas, o) *)
Definition asym_term (iv jv : nat) (o : orient) : Q :=
  if p_coinc pc then
    (match t1_of iv jv with Some v => ufld (au iv jv o (ww / 2) v) | None => 0 end) +
    (match t2_of iv jv with Some v => ufld (au iv jv o (ww / 2) v) | None => 0 end)
  else
    (if orient_eqb (p_orient pc) o then match t1_of iv jv with Some v => ufld (au iv jv o ww v) | None => 0 end else 0) +
    (if orient_eqb (flip (p_orient pc)) o then match t2_of iv jv with Some v => ufld (au iv jv o ww v) | None => 0 end else 0).

Lemma fsum_au iv jv k o iv' jv' o' w v :
  (jv <= iv)%nat -> (jv' <= iv')%nat -> (k < npas)%nat -> o <> Ozero -> o' <> Ozero ->
  fsum ufld (dir_address true npas iv jv k o) [au iv' jv' o' w v]
  == if (Nat.eqb iv iv' && Nat.eqb jv jv' && Nat.eqb k (p_ipas pc) && orient_eqb o o')%bool then ufld (au iv' jv' o' w v) else 0.
Proof.
  intros Hj Hj' Hk Ho Ho'. rewrite fsum_one. unfold au at 1. cbn [u_addr mk_upd].
  destruct (Nat.eqb_spec (dir_address true npas iv' jv' (p_ipas pc) o') (dir_address true npas iv jv k o)) as [E|E].
  - apply asym_address_inj in E; try assumption. destruct E as (-> & -> & <- & ->).
    rewrite !Nat.eqb_refl. destruct (orient_eqb_spec o o); [reflexivity|congruence].
  - destruct (Nat.eqb_spec iv iv') as [<-|]; [|reflexivity]. destruct (Nat.eqb_spec jv jv') as [<-|]; [|reflexivity].
    destruct (Nat.eqb_spec k (p_ipas pc)) as [->|]; [|reflexivity]. destruct (orient_eqb_spec o o') as [<-|]; [|reflexivity].
    congruence.
Qed.

Lemma fsum_elem_other iv jv k o iv' jv' :
  (jv <= iv)%nat -> (jv' <= iv')%nat -> (k < npas)%nat -> o <> Ozero ->
  (iv, jv) <> (iv', jv') \/ k <> p_ipas pc ->
  fsum ufld (dir_address true npas iv jv k o) (asym_elem iv' jv') == 0.
Proof.
  intros Hj Hj' Hk Ho Hne.
  assert (Hf : flip (p_orient pc) <> Ozero) by (apply flip_nz; exact Horient).
  assert (Z : forall o' w v, o' <> Ozero -> fsum ufld (dir_address true npas iv jv k o) [au iv' jv' o' w v] == 0).
  { intros o' w v Ho'. rewrite (fsum_au iv jv k o iv' jv' o' w v Hj Hj' Hk Ho Ho').
    destruct (Nat.eqb_spec iv iv') as [<-|]; [|reflexivity]. destruct (Nat.eqb_spec jv jv') as [<-|]; [|reflexivity].
    destruct (Nat.eqb_spec k (p_ipas pc)) as [->|]; [|reflexivity]. exfalso. destruct Hne as [H|H]; congruence. }
  unfold asym_elem. cbv zeta.
  destruct (p_coinc pc); rewrite fsum_app;
    destruct (t1_of iv' jv'); destruct (t2_of iv' jv');
    rewrite ?fsum_two, ?Z, ?fsum_nil by assumption; ring.
Qed.

Lemma fsum_elem_at iv jv o :
  (jv <= iv)%nat -> o <> Ozero ->
  fsum ufld (dir_address true npas iv jv (p_ipas pc) o) (asym_elem iv jv) == asym_term iv jv o.
Proof.
  intros Hj Ho.
  assert (Hf : flip (p_orient pc) <> Ozero) by (apply flip_nz; exact Horient).
  assert (Z : forall o' w v, o' <> Ozero ->
              fsum ufld (dir_address true npas iv jv (p_ipas pc) o) [au iv jv o' w v] == if orient_eqb o o' then ufld (au iv jv o' w v) else 0).
  { intros o' w v Ho'. rewrite (fsum_au iv jv (p_ipas pc) o iv jv o' w v Hj Hj Hipas Ho Ho'). rewrite !Nat.eqb_refl. reflexivity. }
  unfold asym_elem, asym_term. cbv zeta.
  assert (Hcase : (p_orient pc = o /\ flip (p_orient pc) <> o) \/ (p_orient pc <> o /\ flip (p_orient pc) = o)).
  { generalize Horient Ho. destruct (p_orient pc), o; cbn; intros H1 H2; try congruence;
      ((left; split; [reflexivity|discriminate]) || (right; split; [discriminate|reflexivity])). }
  destruct (p_coinc pc); rewrite fsum_app;
    destruct (t1_of iv jv); destruct (t2_of iv jv);
    rewrite ?fsum_two, ?Z, ?fsum_nil by assumption;
    destruct Hcase as [[E1 E2]|[E1 E2]];
    (destruct (orient_eqb_spec o (p_orient pc)); try congruence);
    (destruct (orient_eqb_spec o (flip (p_orient pc))); try congruence);
    (destruct (orient_eqb_spec (p_orient pc) o); try congruence);
    (destruct (orient_eqb_spec (flip (p_orient pc)) o); try congruence);
    rewrite <- ?E1, <- ?E2; try ring.
Qed.

Lemma fsum_eval_asym_at iv jv o nvar :
  (jv <= iv)%nat -> (iv < nvar)%nat -> o <> Ozero ->
  fsum ufld (dir_address true npas iv jv (p_ipas pc) o) (flat_map (eval_asym npas pc a b ww) (seq 0 nvar))
  == asym_term iv jv o.
Proof.
  intros Hj Hi Ho.
  rewrite fsum_flat_map. rewrite (sumQ_single _ nvar iv Hi).
  - rewrite eval_asym_elems, fsum_flat_map. rewrite (sumQ_single _ (S iv) jv ltac:(lia)).
    + apply fsum_elem_at; assumption.
    + intros jv' Hjv' Hne. apply fsum_elem_other; [assumption|lia|assumption|assumption|left; congruence].
  - intros iv' Hiv' Hne. rewrite eval_asym_elems, fsum_flat_map. apply sumQ_zero. intros jv' Hin. apply in_seq in Hin.
    apply fsum_elem_other; [assumption|lia|assumption|assumption|left; congruence].
Qed.

Lemma fsum_eval_asym_other nvar iv jv k o :
  (jv <= iv)%nat -> (k < npas)%nat -> o <> Ozero -> k <> p_ipas pc ->
  fsum ufld (dir_address true npas iv jv k o) (flat_map (eval_asym npas pc a b ww) (seq 0 nvar)) == 0.
Proof.
  intros Hj Hk Ho Hne.
  rewrite fsum_flat_map. apply sumQ_zero. intros iv' _.
  rewrite eval_asym_elems, fsum_flat_map. apply sumQ_zero. intros jv' Hin. apply in_seq in Hin.
  apply fsum_elem_other; [assumption|lia|assumption|assumption|right; exact Hne].
Qed.
End AsymPair.

(* ---------------------------------------------------------------- covariance, whole data set *)
Section CovMain.
Variables (cf : cfg) (d : dirp).
Hypothesis Hcalc : c_calc cf = Cov \/ c_calc cf = CovNC.
Hypothesis Hloop : c_dateLoop cf = false.
Hypothesis Hchk : c_dateChk cf = false.
Hypothesis Hdp : 0 < d_dpas d.
Hypothesis Htol : 0 <= d_tol d.
Hypothesis Hps0 : 0 <= d_psmin d.
Hypothesis Hcodir : 0 < Qred (dot (d_codir d) (d_codir d)).

(* the side on which z_i(a) z_j(b) is recorded: "+" when b lies ahead of a, or beside it, along the direction; "-" otherwise *)
Definition pair_side (a b : sample) : orient :=
  let g := geo_pair d a b in
  if qltb 0 (g_d2 g) && negb (qltb (g_dproj g) 0) then Oplus else Ominus.
Definition coincident (a b : sample) : bool := qleb (g_d2 (geo_pair d a b)) 0.

Definition prod1 (iv jv : nat) (a b : sample) : option Q :=
  match zval a iv, zval b jv with Some x, Some y => Some (x * y) | _, _ => None end.
Definition wterm (w : Q) (t : option Q) : Q * Q := match t with Some v => (w, w * v) | None => (0, 0) end.
Definition padd (p q : Q * Q) : Q * Q := (fst p + fst q, snd p + snd q).

(* contribution of the ordered pair (a, b) to the cell (iv, jv, lag k, side o): (weight, weighted product).
   z_i(a) z_j(b) goes to the side where b is ahead of a, z_i(b) z_j(a) to the other side; a product needs only its own
   two values; coincident samples share both products between the two sides. *)
Definition cov_pair (iv jv k : nat) (o : orient) (a b : sample) : Q * Q :=
  if pair_in d k a b then
    let ww := get_weight cf a * get_weight cf b in
    if coincident a b then padd (wterm (ww / 2) (prod1 iv jv a b)) (wterm (ww / 2) (prod1 iv jv b a))
    else padd (if orient_eqb (pair_side a b) o then wterm ww (prod1 iv jv a b) else (0, 0))
              (if orient_eqb (flip (pair_side a b)) o then wterm ww (prod1 iv jv b a) else (0, 0))
  else (0, 0).

Lemma pair_lag_spec_asym a b k :
  (exists neg, isOK d true (geo_pair d a b) = Acc neg) /\ lag_rank d (g_d2 (geo_pair d a b)) = Some k
  <-> pair_in d k a b = true.
Proof.
  unfold pair_in. rewrite andb_true_iff, accepted_b_spec, (in_class_b_spec d).
  rewrite <- (lag_rank_in_class d Hdp _ k (g_d2_nonneg d a b)).
  rewrite <- (isOK_accepted d Hps0 true (geo_pair d a b) Hcodir).
  split; intros [A B]; split; try exact B.
  - destruct A as [neg A]. rewrite A. discriminate.
  - destruct (isOK d true (geo_pair d a b)) as [|neg]; [contradiction|]. exists neg; reflexivity.
Qed.

Lemma pair_updates_cov means a b :
  pair_updates cf d means a b =
  match isOK d true (geo_pair d a b) with
  | Rej => []
  | Acc neg =>
      match lag_rank d (g_d2 (geo_pair d a b)) with
      | None => []
      | Some k =>
          flat_map (eval_asym (d_npas d)
                      {| p_w1 := get_weight cf a; p_w2 := get_weight cf b;
                         p_dlo := sqrt_lo (g_d2 (geo_pair d a b)); p_dhi := sqrt_hi (g_d2 (geo_pair d a b)); p_ipas := k;
                         p_orient := if qltb 0 (g_d2 (geo_pair d a b)) && negb neg then Oplus else Ominus;
                         p_coinc := qleb (g_d2 (geo_pair d a b)) 0 |}
                      a b (get_weight cf a * get_weight cf b)) (seq 0 (c_nvar cf))
      end
  end.
Proof.
  unfold pair_updates, evaluate. rewrite Hchk. fold (geo_pair d a b).
  destruct Hcalc as [E|E]; rewrite E; cbn [is_asym andb];
    (destruct (isOK d true (geo_pair d a b)); [reflexivity|]);
    destruct (lag_rank d (g_d2 (geo_pair d a b))); reflexivity.
Qed.

Lemma cov_pair_fields means a b iv jv k o :
  (jv <= iv)%nat -> (iv < c_nvar cf)%nat -> (k < d_npas d)%nat -> o <> Ozero ->
  let adr := dir_address true (d_npas d) iv jv k o in
  fsum u_sw adr (pair_updates cf d means a b) == fst (cov_pair iv jv k o a b) /\
  fsum u_glo adr (pair_updates cf d means a b) == snd (cov_pair iv jv k o a b) /\
  fsum u_ghi adr (pair_updates cf d means a b) == snd (cov_pair iv jv k o a b).
Proof.
  intros Hj Hi Hk Ho. cbv zeta.
  rewrite pair_updates_cov. unfold cov_pair.
  pose proof (pair_lag_spec_asym a b k) as PL.
  pose proof (g_d2_nonneg d a b) as Hd2.
  destruct (isOK d true (geo_pair d a b)) as [|neg] eqn:EO.
  { assert (E : pair_in d k a b = false).
    { destruct (pair_in d k a b); [|reflexivity]. destruct PL as [_ PL]. destruct (PL eq_refl) as [[n H] _]. discriminate. }
    rewrite E. repeat split; reflexivity. }
  destruct (lag_rank d (g_d2 (geo_pair d a b))) as [k'|] eqn:EL.
  2:{ assert (E : pair_in d k a b = false).
      { destruct (pair_in d k a b); [|reflexivity]. destruct PL as [_ PL]. destruct (PL eq_refl) as [_ H]. discriminate. }
      rewrite E. repeat split; reflexivity. }
  pose proof (lag_rank_lt d Hdp _ _ Hd2 EL) as Hk'.
  pose proof (isOK_orientation d Hps0 (geo_pair d a b) neg Hcodir EO) as En.
  assert (Eside : (if qltb 0 (g_d2 (geo_pair d a b)) && negb neg then Oplus else Ominus) = pair_side a b).
  { unfold pair_side. cbv zeta. rewrite En.
    destruct (qltb 0 (g_d2 (geo_pair d a b))); destruct (qltb (g_dproj (geo_pair d a b)) 0); reflexivity. }
  rewrite Eside.
  assert (Hsnz : pair_side a b <> Ozero).
  { unfold pair_side. cbv zeta. destruct (qltb 0 (g_d2 (geo_pair d a b)) && negb (qltb (g_dproj (geo_pair d a b)) 0)); discriminate. }
  match goal with |- context [eval_asym _ ?pc _ _ _] => set (PC := pc) end.
  destruct (Nat.eq_dec k k') as [<-|Hne].
  - assert (E : pair_in d k a b = true) by (apply PL; split; [exists neg; reflexivity|reflexivity]).
    rewrite E.
    assert (HPC : (p_ipas PC < d_npas d)%nat) by exact Hk.
    assert (HPO : p_orient PC <> Ozero) by exact Hsnz.
    fold (coincident a b).
    assert (T : forall ufld, (forall w v, ufld (au (d_npas d) PC iv jv o w v) == w \/ ufld (au (d_npas d) PC iv jv o w v) == w * v) -> True) by (intros; exact I).
    repeat split.
    + pose proof (fsum_eval_asym_at u_sw (d_npas d) PC a b (get_weight cf a * get_weight cf b) HPC HPO iv jv o (c_nvar cf) Hj Hi Ho) as F.
      change (p_ipas PC) with k in F. rewrite F. unfold asym_term, t1_of, t2_of, prod1, wterm, padd.
      change (p_orient PC) with (pair_side a b). change (p_coinc PC) with (coincident a b).
      destruct (coincident a b);
        destruct (orient_eqb (pair_side a b) o); destruct (orient_eqb (flip (pair_side a b)) o);
        destruct (zval a iv); destruct (zval b jv); destruct (zval b iv); destruct (zval a jv); cbn [fst snd au mk_upd u_sw]; ring.
    + pose proof (fsum_eval_asym_at u_glo (d_npas d) PC a b (get_weight cf a * get_weight cf b) HPC HPO iv jv o (c_nvar cf) Hj Hi Ho) as F.
      change (p_ipas PC) with k in F. rewrite F. unfold asym_term, t1_of, t2_of, prod1, wterm, padd.
      change (p_orient PC) with (pair_side a b). change (p_coinc PC) with (coincident a b).
      destruct (coincident a b);
        destruct (orient_eqb (pair_side a b) o); destruct (orient_eqb (flip (pair_side a b)) o);
        destruct (zval a iv); destruct (zval b jv); destruct (zval b iv); destruct (zval a jv); cbn [fst snd au mk_upd u_glo]; ring.
    + pose proof (fsum_eval_asym_at u_ghi (d_npas d) PC a b (get_weight cf a * get_weight cf b) HPC HPO iv jv o (c_nvar cf) Hj Hi Ho) as F.
      change (p_ipas PC) with k in F. rewrite F. unfold asym_term, t1_of, t2_of, prod1, wterm, padd.
      change (p_orient PC) with (pair_side a b). change (p_coinc PC) with (coincident a b).
      destruct (coincident a b);
        destruct (orient_eqb (pair_side a b) o); destruct (orient_eqb (flip (pair_side a b)) o);
        destruct (zval a iv); destruct (zval b jv); destruct (zval b iv); destruct (zval a jv); cbn [fst snd au mk_upd u_ghi]; ring.
  - assert (E : pair_in d k a b = false).
    { destruct (pair_in d k a b) eqn:E'; [|reflexivity]. destruct PL as [_ PL]. destruct (PL eq_refl) as [_ H]. congruence. }
    rewrite E.
    repeat split; apply fsum_eval_asym_other; cbn [p_ipas p_orient]; auto.
Qed.

(* raw accumulators of the covariance: sums over the pairs i<j of the usable samples in the order of the first coordinate *)
Lemma accumulate1_cov n l iv jv k o :
  Forall (same_dim n) l ->
  (jv <= iv)%nat -> (iv < c_nvar cf)%nat -> (k < d_npas d)%nat -> o <> Ozero ->
  let c := nth (dir_address true (d_npas d) iv jv k o) (accumulate1 cf d l) cell0 in
  let L := filter (usable cf) (sort_x1 l) in
  a_sw c == pair_sum (fun a b => fst (cov_pair iv jv k o a b)) L /\
  a_glo c == pair_sum (fun a b => snd (cov_pair iv jv k o a b)) L /\
  a_ghi c == pair_sum (fun a b => snd (cov_pair iv jv k o a b)) L.
Proof.
  intros Hdim Hj Hi Hk Ho. cbv zeta.
  assert (Hasym : is_asym (c_calc cf) = true) by (destruct Hcalc as [E|E]; rewrite E; reflexivity).
  unfold accumulate1, zero_arr. rewrite Hasym.
  set (adr := dir_address true (d_npas d) iv jv k o).
  assert (Hadr : (adr < dir_size true (d_npas d) (c_nvar cf))%nat) by (apply asym_address_bound; assumption).
  destruct (apply_upds_sums _ (flat_map (fun p => pair_updates cf d (stat_means cf l) (fst p) (snd p)) (reached1 cf d l)) adr Hadr)
    as (S1 & _ & _ & S4 & S5).
  cbn [spec_cell a_sw a_glo a_ghi] in S1, S4, S5.
  rewrite S1, S4, S5. unfold sum_sw, sum_glo, sum_ghi.
  change (sumQ (map ?f (at_addr adr ?us))) with (fsum f adr us).
  rewrite !(fsum_reached1 _ cf d _ n l adr Hloop Hdp Htol Hdim).
  unfold pair_sum.
  repeat split; apply sumQ_map_ext; intros [a b] _; cbn [fst snd];
    destruct (cov_pair_fields (stat_means cf l) a b iv jv k o Hj Hi Hk Ho) as (F1 & F2 & F3); assumption.
Qed.

(* d2 = 0 forces the projection to vanish *)
Lemma coincident_dproj a b : g_d2 (geo_pair d a b) <= 0 -> g_dproj (geo_pair d a b) == 0.
Proof.
  intro H. pose proof (g_d2_nonneg d a b) as H0.
  unfold geo_pair, geo_of in *. cbn [g_d2 g_dproj] in *. rewrite Qred_correct in *.
  assert (Hz : dot (vsub (s_x b) (s_x a)) (vsub (s_x b) (s_x a)) == 0) by lra.
  clear - Hz. revert Hz. generalize (d_codir d). induction (vsub (s_x b) (s_x a)) as [|x r IH]; intros c Hz; [reflexivity|].
  cbn [dot] in *. destruct c as [|y c]; [reflexivity|].
  pose proof (dot_self_nonneg r) as Hr.
  assert (Hx : x == 0) by nra. assert (Hr0 : dot r r == 0) by nra.
  rewrite (IH c Hr0), Hx. ring.
Qed.

(* exchanging the two samples of a pair leaves its contribution unchanged, unless the pair is orthogonal to the direction
   without being reduced to a point *)
Lemma cov_pair_swap iv jv k o a b :
  coincident a b = true \/ ~ g_dproj (geo_pair d a b) == 0 ->
  fst (cov_pair iv jv k o a b) == fst (cov_pair iv jv k o b a) /\ snd (cov_pair iv jv k o a b) == snd (cov_pair iv jv k o b a).
Proof.
  intro Hdir. unfold cov_pair. rewrite (pair_in_swap d k a b).
  destruct (pair_in d k a b); [|split; reflexivity].
  destruct (geo_swap d a b) as (E1 & E2 & E3 & E4).
  assert (Ec : coincident b a = coincident a b) by (unfold coincident; rewrite E1; reflexivity).
  rewrite Ec.
  destruct (coincident a b) eqn:Eco.
  - unfold padd, wterm, prod1.
    destruct (zval a iv); destruct (zval b jv); destruct (zval b iv); destruct (zval a jv); cbn [fst snd]; split; field.
  - destruct Hdir as [Hdir|Hnz]; [discriminate|].
    assert (Hd2 : 0 < g_d2 (geo_pair d a b)) by (unfold coincident in Eco; apply qleb_false; exact Eco).
    assert (Sab : pair_side b a = flip (pair_side a b)).
    { unfold pair_side. cbv zeta. rewrite E1. rewrite (proj2 (qltb_true 0 _) Hd2). cbn [andb].
      destruct (qltb_spec (g_dproj (geo_pair d a b)) 0) as [A|A]; destruct (qltb_spec (g_dproj (geo_pair d b a)) 0) as [B|B];
        cbn [negb flip]; try reflexivity; exfalso; rewrite E2 in B; lra. }
    rewrite Sab.
    assert (Fl : flip (flip (pair_side a b)) = pair_side a b) by (destruct (pair_side a b); reflexivity).
    rewrite Fl. unfold padd, wterm, prod1.
    destruct (orient_eqb (pair_side a b) o); destruct (orient_eqb (flip (pair_side a b)) o);
      destruct (zval a iv); destruct (zval b jv); destruct (zval b iv); destruct (zval a jv); cbn [fst snd]; split; field.
Qed.

(* ... hence the sums can be taken over the data in any order as soon as no pair that can fall in the lag is orthogonal to the
   direction (coincident samples are allowed) *)
Lemma accumulate1_cov_unordered n l iv jv k o :
  Forall (same_dim n) l ->
  (jv <= iv)%nat -> (iv < c_nvar cf)%nat -> (k < d_npas d)%nat -> o <> Ozero ->
  (forall a b, In a l -> In b l ->
     coincident a b = true \/ ~ g_dproj (geo_pair d a b) == 0 \/ pair_in d k a b = false) ->
  let c := nth (dir_address true (d_npas d) iv jv k o) (accumulate1 cf d l) cell0 in
  let L := filter (usable cf) l in
  a_sw c == pair_sum (fun a b => fst (cov_pair iv jv k o a b)) L /\
  a_glo c == pair_sum (fun a b => snd (cov_pair iv jv k o a b)) L /\
  a_ghi c == pair_sum (fun a b => snd (cov_pair iv jv k o a b)) L.
Proof.
  intros Hdim Hj Hi Hk Ho Hdir. cbv zeta.
  destruct (accumulate1_cov n l iv jv k o Hdim Hj Hi Hk Ho) as (A1 & A2 & A3).
  assert (Hp : Permutation (filter (usable cf) (sort_x1 l)) (filter (usable cf) l)) by (apply filter_perm; apply sort_perm).
  assert (Hin : forall x, In x (filter (usable cf) (sort_x1 l)) -> In x l).
  { intros x Hx. apply filter_In in Hx. destruct Hx as [Hx _]. eapply Permutation_in; [apply sort_perm|exact Hx]. }
  assert (Hsym : forall a b, In a (filter (usable cf) (sort_x1 l)) -> In b (filter (usable cf) (sort_x1 l)) ->
                 fst (cov_pair iv jv k o a b) == fst (cov_pair iv jv k o b a) /\ snd (cov_pair iv jv k o a b) == snd (cov_pair iv jv k o b a)).
  { intros a b Ha Hb. destruct (Hdir a b (Hin a Ha) (Hin b Hb)) as [E|[E|E]].
    - apply cov_pair_swap. left; exact E.
    - apply cov_pair_swap. right; exact E.
    - unfold cov_pair. rewrite (pair_in_swap d k a b), E. split; reflexivity. }
  rewrite A1, A2, A3.
  repeat split; apply pair_sum_perm_on; try exact Hp; intros a b Ha Hb; apply (Hsym a b Ha Hb).
Qed.

(* exchange of the two variables: the pair term of C_ij on one side is the pair term of C_ji on the other side,
   whatever values are missing *)
Lemma cov_pair_mirror iv jv k o a b :
  o <> Ozero ->
  fst (cov_pair iv jv k o a b) == fst (cov_pair jv iv k (flip o) a b) /\
  snd (cov_pair iv jv k o a b) == snd (cov_pair jv iv k (flip o) a b).
Proof.
  intro Ho. unfold cov_pair.
  destruct (pair_in d k a b); [|split; reflexivity].
  assert (Hs : pair_side a b <> Ozero).
  { unfold pair_side. cbv zeta. destruct (qltb 0 (g_d2 (geo_pair d a b)) && negb (qltb (g_dproj (geo_pair d a b)) 0)); discriminate. }
  unfold padd, wterm, prod1.
  destruct (coincident a b).
  - destruct (zval a iv); destruct (zval b jv); destruct (zval b iv); destruct (zval a jv); cbn [fst snd]; split; field.
  - destruct (pair_side a b), o; try congruence; cbn [orient_eqb flip];
      destruct (zval a iv); destruct (zval b jv); destruct (zval b iv); destruct (zval a jv); cbn [fst snd]; split; field.
Qed.
Lemma cov_sums_mirror iv jv k o L :
  o <> Ozero ->
  pair_sum (fun a b => fst (cov_pair iv jv k o a b)) L == pair_sum (fun a b => fst (cov_pair jv iv k (flip o) a b)) L /\
  pair_sum (fun a b => snd (cov_pair iv jv k o a b)) L == pair_sum (fun a b => snd (cov_pair jv iv k (flip o) a b)) L.
Proof.
  intro Ho. unfold pair_sum. split; apply sumQ_map_ext; intros [a b] _; cbn [fst snd];
    destruct (cov_pair_mirror iv jv k o a b Ho) as [M1 M2]; assumption.
Qed.
End CovMain.

(* C12 proofs, part 9: explicit pairwise sums for the (centred or not) covariance, pairs taken in the order of the
   first coordinate (the order in which _calculateGeneralSolution1 meets them). *)
From Coq Require Import List ZArith QArith Qabs Qround Qminmax Bool Lqa Lia Permutation.
From Gst Require Import lib.QAux C12.Model C12.Spec C12.Proofs_enum C12.Proofs_lag C12.Proofs_acc C12.Proofs_geom C12.Proofs_vg C12.Proofs_main.
Import ListNotations.
Local Open Scope Q_scope.

Definition orient_eqb (o o' : orient) : bool :=
  match o, o' with Oplus, Oplus | Ominus, Ominus | Ozero, Ozero => true | _, _ => false end.
Lemma orient_eqb_spec o o' : reflect (o = o') (orient_eqb o o').
Proof. destruct o, o'; constructor; congruence. Qed.

Lemma asym_address_inj npas iv jv k o iv' jv' k' o' :
  (jv <= iv)%nat -> (jv' <= iv')%nat -> (k < npas)%nat -> (k' < npas)%nat -> o <> Ozero -> o' <> Ozero ->
  dir_address true npas iv jv k o = dir_address true npas iv' jv' k' o' -> iv = iv' /\ jv = jv' /\ k = k' /\ o = o'.
Proof.
  intros H H' Hk Hk' Ho Ho'. unfold dir_address, nlagtot. intro E.
  assert (R : var_rank iv jv = var_rank iv' jv').
  { destruct (Nat.lt_trichotomy (var_rank iv jv) (var_rank iv' jv')) as [L|[L|L]]; [exfalso|exact L|exfalso];
      destruct o, o'; try congruence; nia. }
  destruct (var_rank_inj _ _ _ _ H H' R) as [-> ->].
  destruct o, o'; try congruence; repeat split; nia.
Qed.
Lemma asym_address_bound npas nvar iv jv k o :
  (jv <= iv)%nat -> (iv < nvar)%nat -> (k < npas)%nat ->
  (dir_address true npas iv jv k o < dir_size true npas nvar)%nat.
Proof.
  intros H Hv Hk. unfold dir_address, dir_size, nlagtot. rewrite var_rank_lower by exact H.
  pose proof (tri_double iv) as T. pose proof (tri_double nvar) as T'.
  set (t := (iv * (iv + 1) / 2)%nat) in *. set (t' := (nvar * (nvar + 1) / 2)%nat) in *.
  assert ((iv + 1) * (iv + 2) <= nvar * (nvar + 1))%nat by nia.
  assert (t + jv + 1 <= t')%nat by nia.
  destruct o; nia.
Qed.

Lemma flip_nz o : o <> Ozero -> flip o <> Ozero.
Proof. destruct o; cbn; congruence. Qed.

(* permutation invariance of a pair sum when the summand is symmetric on the elements of the list *)
Lemma pair_sum_perm_on {A} (f : A -> A -> Q) l l' :
  (forall a b, In a l -> In b l -> f a b == f b a) -> Permutation l l' -> pair_sum f l == pair_sum f l'.
Proof.
  intros Hsym Hp. revert Hsym.
  induction Hp as [|x l l' Hp IH|x y l|l l' l'' Hp1 IH1 Hp2 IH2]; intro Hsym.
  - reflexivity.
  - rewrite !pair_sum_cons, IH by (intros; apply Hsym; right; assumption).
    rewrite (sumQ_perm (map (f x) l) (map (f x) l')) by (apply Permutation_map; exact Hp). reflexivity.
  - rewrite !pair_sum_cons. cbn [map]. rewrite !sumQ_cons.
    rewrite (Hsym y x) by (cbn; auto). ring.
  - rewrite IH1 by exact Hsym. apply IH2.
    intros a b Ha Hb. apply Hsym; eapply Permutation_in; try (symmetry; exact Hp1); assumption.
Qed.

(* ---------------------------------------------------------------- one pair *)
Section AsymPair.
Variable ufld : upd -> Q.
Variables (npas : nat) (pc : pctx) (a b : sample) (ww : Q).
Hypothesis Hipas : (p_ipas pc < npas)%nat.
Hypothesis Horient : p_orient pc <> Ozero.

Definition asym_upd (iv jv : nat) (o : orient) (v : Q) : upd := mk_upd true npas pc iv jv o ww v v 0.

(* what the two _setResult calls of _evaluateCovariance add to the cell (iv, jv, ipas, o) *)
Definition asym_term (iv jv : nat) (o : orient) : Q :=
  match zval a iv, zval b iv with
  | Some z11, Some z12 =>
      (if orient_eqb (p_orient pc) o then match zval b jv with Some z22 => ufld (asym_upd iv jv o (z11 * z22)) | None => 0 end else 0) +
      (if orient_eqb (flip (p_orient pc)) o then match zval a jv with Some z21 => ufld (asym_upd iv jv o (z12 * z21)) | None => 0 end else 0)
  | _, _ => 0
  end.

Lemma fsum_eval_asym_at iv jv o nvar :
  (jv <= iv)%nat -> (iv < nvar)%nat -> o <> Ozero ->
  fsum ufld (dir_address true npas iv jv (p_ipas pc) o) (flat_map (eval_asym npas pc a b ww) (seq 0 nvar))
  == asym_term iv jv o.
Proof.
  intros Hj Hi Ho.
  set (k0 := dir_address true npas iv jv (p_ipas pc) o).
  assert (Hf : flip (p_orient pc) <> Ozero) by (apply flip_nz; exact Horient).
  rewrite fsum_flat_map. rewrite (sumQ_single _ nvar iv Hi).
  - unfold eval_asym, asym_term.
    destruct (zval a iv) as [z11|]; [|reflexivity].
    destruct (zval b iv) as [z12|]; [|reflexivity].
    rewrite fsum_flat_map. rewrite (sumQ_single _ (S iv) jv ltac:(lia)).
    + rewrite fsum_app. apply Qplus_comp.
      * destruct (zval b jv) as [z22|].
        -- rewrite fsum_one. cbn [u_addr mk_upd].
           destruct (orient_eqb_spec (p_orient pc) o) as [E|E].
           ++ rewrite E. fold k0. rewrite Nat.eqb_refl. unfold asym_upd. reflexivity.
           ++ destruct (Nat.eqb_spec (dir_address true npas iv jv (p_ipas pc) (p_orient pc)) k0) as [E'|E']; [|reflexivity].
              exfalso. apply asym_address_inj in E'; try lia; try assumption. destruct E' as (_ & _ & _ & E'). contradiction.
        -- destruct (orient_eqb (p_orient pc) o); reflexivity.
      * destruct (zval a jv) as [z21|].
        -- rewrite fsum_one. cbn [u_addr mk_upd].
           destruct (orient_eqb_spec (flip (p_orient pc)) o) as [E|E].
           ++ rewrite E. fold k0. rewrite Nat.eqb_refl. unfold asym_upd. reflexivity.
           ++ destruct (Nat.eqb_spec (dir_address true npas iv jv (p_ipas pc) (flip (p_orient pc))) k0) as [E'|E']; [|reflexivity].
              exfalso. apply asym_address_inj in E'; try lia; try assumption. destruct E' as (_ & _ & _ & E'). contradiction.
        -- destruct (orient_eqb (flip (p_orient pc)) o); reflexivity.
    + intros jv' Hjv' Hne. rewrite fsum_app.
      assert (Z1 : fsum ufld k0 (match zval b jv' with Some z22 => [mk_upd true npas pc iv jv' (p_orient pc) ww (z11 * z22) (z11 * z22) 0] | None => [] end) == 0).
      { destruct (zval b jv'); [|reflexivity]. rewrite fsum_one. cbn [u_addr mk_upd].
        destruct (Nat.eqb_spec (dir_address true npas iv jv' (p_ipas pc) (p_orient pc)) k0) as [E'|E']; [|reflexivity].
        exfalso. apply asym_address_inj in E'; try lia; try assumption. }
      assert (Z2 : fsum ufld k0 (match zval a jv' with Some z21 => [mk_upd true npas pc iv jv' (flip (p_orient pc)) ww (z12 * z21) (z12 * z21) 0] | None => [] end) == 0).
      { destruct (zval a jv'); [|reflexivity]. rewrite fsum_one. cbn [u_addr mk_upd].
        destruct (Nat.eqb_spec (dir_address true npas iv jv' (p_ipas pc) (flip (p_orient pc))) k0) as [E'|E']; [|reflexivity].
        exfalso. apply asym_address_inj in E'; try lia; try assumption. }
      rewrite Z1, Z2. reflexivity.
  - intros iv' Hiv' Hne. unfold eval_asym.
    destruct (zval a iv') as [z11|]; [|reflexivity].
    destruct (zval b iv') as [z12|]; [|reflexivity].
    rewrite fsum_flat_map. apply sumQ_zero. intros jv' Hin. apply in_seq in Hin. rewrite fsum_app.
    assert (Z1 : fsum ufld k0 (match zval b jv' with Some z22 => [mk_upd true npas pc iv' jv' (p_orient pc) ww (z11 * z22) (z11 * z22) 0] | None => [] end) == 0).
    { destruct (zval b jv'); [|reflexivity]. rewrite fsum_one. cbn [u_addr mk_upd].
      destruct (Nat.eqb_spec (dir_address true npas iv' jv' (p_ipas pc) (p_orient pc)) k0) as [E'|E']; [|reflexivity].
      exfalso. apply asym_address_inj in E'; try lia; try assumption. }
    assert (Z2 : fsum ufld k0 (match zval a jv' with Some z21 => [mk_upd true npas pc iv' jv' (flip (p_orient pc)) ww (z12 * z21) (z12 * z21) 0] | None => [] end) == 0).
    { destruct (zval a jv'); [|reflexivity]. rewrite fsum_one. cbn [u_addr mk_upd].
      destruct (Nat.eqb_spec (dir_address true npas iv' jv' (p_ipas pc) (flip (p_orient pc))) k0) as [E'|E']; [|reflexivity].
      exfalso. apply asym_address_inj in E'; try lia; try assumption. }
    rewrite Z1, Z2. reflexivity.
Qed.

Lemma fsum_eval_asym_other nvar iv jv k o :
  (jv <= iv)%nat -> (k < npas)%nat -> o <> Ozero -> k <> p_ipas pc ->
  fsum ufld (dir_address true npas iv jv k o) (flat_map (eval_asym npas pc a b ww) (seq 0 nvar)) == 0.
Proof.
  intros Hj Hk Ho Hne.
  assert (Hf : flip (p_orient pc) <> Ozero) by (apply flip_nz; exact Horient).
  rewrite fsum_flat_map. apply sumQ_zero. intros iv' _. unfold eval_asym.
  destruct (zval a iv') as [z11|]; [|reflexivity].
  destruct (zval b iv') as [z12|]; [|reflexivity].
  rewrite fsum_flat_map. apply sumQ_zero. intros jv' Hin. apply in_seq in Hin. rewrite fsum_app.
  assert (Z1 : fsum ufld (dir_address true npas iv jv k o) (match zval b jv' with Some z22 => [mk_upd true npas pc iv' jv' (p_orient pc) ww (z11 * z22) (z11 * z22) 0] | None => [] end) == 0).
  { destruct (zval b jv'); [|reflexivity]. rewrite fsum_one. cbn [u_addr mk_upd].
    destruct (Nat.eqb_spec (dir_address true npas iv' jv' (p_ipas pc) (p_orient pc)) (dir_address true npas iv jv k o)) as [E'|E']; [|reflexivity].
    exfalso. apply asym_address_inj in E'; try lia; try assumption. }
  assert (Z2 : fsum ufld (dir_address true npas iv jv k o) (match zval a jv' with Some z21 => [mk_upd true npas pc iv' jv' (flip (p_orient pc)) ww (z12 * z21) (z12 * z21) 0] | None => [] end) == 0).
  { destruct (zval a jv'); [|reflexivity]. rewrite fsum_one. cbn [u_addr mk_upd].
    destruct (Nat.eqb_spec (dir_address true npas iv' jv' (p_ipas pc) (flip (p_orient pc))) (dir_address true npas iv jv k o)) as [E'|E']; [|reflexivity].
    exfalso. apply asym_address_inj in E'; try lia; try assumption. }
  rewrite Z1, Z2. reflexivity.
Qed.
End AsymPair.

(* ---------------------------------------------------------------- covariance, whole data set *)
Section CovMain.
Variables (cf : cfg) (d : dirp).
Hypothesis Hcalc : c_calc cf = Cov \/ c_calc cf = CovNC.
Hypothesis Hloop : c_dateLoop cf = false.
Hypothesis Hchk : c_dateChk cf = false.
Hypothesis Hdp : 0 < d_dpas d.
Hypothesis Htol : 0 <= d_tol d.
Hypothesis Hps0 : 0 <= d_psmin d.
Hypothesis Hcodir : 0 < Qred (dot (d_codir d) (d_codir d)).

(* the side on which z_i(a) z_j(b) is recorded: "+" when b lies strictly ahead of a, or beside it, along the direction;
   "-" when it lies behind or when the two samples coincide *)
Definition pair_side (a b : sample) : orient :=
  let g := geo_pair d a b in
  if qltb 0 (g_d2 g) && negb (qltb (g_dproj g) 0) then Oplus else Ominus.

(* contribution of the ordered pair (a, b) to the cell (iv, jv, lag k, side o): weight and weighted product *)
Definition cov_pair (iv jv k : nat) (o : orient) (a b : sample) : Q * Q :=
  if pair_in d k a b then
    match zval a iv, zval b iv with
    | Some z11, Some z12 =>
        let ww := get_weight cf a * get_weight cf b in
        let t1 := if orient_eqb (pair_side a b) o then match zval b jv with Some z22 => (ww, ww * (z11 * z22)) | None => (0, 0) end else (0, 0) in
        let t2 := if orient_eqb (flip (pair_side a b)) o then match zval a jv with Some z21 => (ww, ww * (z12 * z21)) | None => (0, 0) end else (0, 0) in
        (fst t1 + fst t2, snd t1 + snd t2)
    | _, _ => (0, 0)
    end
  else (0, 0).

Lemma pair_lag_spec_asym a b k :
  (exists neg, isOK d true (geo_pair d a b) = Acc neg) /\ lag_rank d (g_d2 (geo_pair d a b)) = Some k
  <-> pair_in d k a b = true.
Proof.
  unfold pair_in. rewrite andb_true_iff, accepted_b_spec, (in_class_b_spec d).
  rewrite <- (lag_rank_in_class d Hdp _ k (g_d2_nonneg d a b)).
  rewrite <- (isOK_accepted d Hps0 true (geo_pair d a b) Hcodir).
  split; intros [A B]; split; try exact B.
  - destruct A as [neg A]. rewrite A. discriminate.
  - destruct (isOK d true (geo_pair d a b)) as [|neg]; [contradiction|]. exists neg; reflexivity.
Qed.

Lemma pair_updates_cov means a b :
  pair_updates cf d means a b =
  match isOK d true (geo_pair d a b) with
  | Rej => []
  | Acc neg =>
      match lag_rank d (g_d2 (geo_pair d a b)) with
      | None => []
      | Some k =>
          flat_map (eval_asym (d_npas d)
                      {| p_w1 := get_weight cf a; p_w2 := get_weight cf b;
                         p_dlo := sqrt_lo (g_d2 (geo_pair d a b)); p_dhi := sqrt_hi (g_d2 (geo_pair d a b)); p_ipas := k;
                         p_orient := if qltb 0 (g_d2 (geo_pair d a b)) && negb neg then Oplus else Ominus |}
                      a b (get_weight cf a * get_weight cf b)) (seq 0 (c_nvar cf))
      end
  end.
Proof.
  unfold pair_updates, evaluate. rewrite Hchk. fold (geo_pair d a b).
  destruct Hcalc as [E|E]; rewrite E; cbn [is_asym andb];
    (destruct (isOK d true (geo_pair d a b)); [reflexivity|]);
    destruct (lag_rank d (g_d2 (geo_pair d a b))); reflexivity.
Qed.

Lemma cov_pair_fields means a b iv jv k o :
  (jv <= iv)%nat -> (iv < c_nvar cf)%nat -> (k < d_npas d)%nat -> o <> Ozero ->
  let adr := dir_address true (d_npas d) iv jv k o in
  fsum u_sw adr (pair_updates cf d means a b) == fst (cov_pair iv jv k o a b) /\
  fsum u_glo adr (pair_updates cf d means a b) == snd (cov_pair iv jv k o a b) /\
  fsum u_ghi adr (pair_updates cf d means a b) == snd (cov_pair iv jv k o a b).
Proof.
  intros Hj Hi Hk Ho. cbv zeta.
  rewrite pair_updates_cov. unfold cov_pair.
  pose proof (pair_lag_spec_asym a b k) as PL.
  pose proof (g_d2_nonneg d a b) as Hd2.
  destruct (isOK d true (geo_pair d a b)) as [|neg] eqn:EO.
  { assert (E : pair_in d k a b = false).
    { destruct (pair_in d k a b); [|reflexivity]. destruct PL as [_ PL]. destruct (PL eq_refl) as [[n H] _]. discriminate. }
    rewrite E. repeat split; reflexivity. }
  destruct (lag_rank d (g_d2 (geo_pair d a b))) as [k'|] eqn:EL.
  2:{ assert (E : pair_in d k a b = false).
      { destruct (pair_in d k a b); [|reflexivity]. destruct PL as [_ PL]. destruct (PL eq_refl) as [_ H]. discriminate. }
      rewrite E. repeat split; reflexivity. }
  pose proof (lag_rank_lt d Hdp _ _ Hd2 EL) as Hk'.
  (* the orientation computed by isOK *)
  pose proof (isOK_orientation d Hps0 (geo_pair d a b) neg Hcodir EO) as En.
  assert (Eside : (if qltb 0 (g_d2 (geo_pair d a b)) && negb neg then Oplus else Ominus) = pair_side a b).
  { unfold pair_side. cbv zeta. rewrite En.
    destruct (qltb 0 (g_d2 (geo_pair d a b))); destruct (qltb (g_dproj (geo_pair d a b)) 0); reflexivity. }
  rewrite Eside.
  assert (Hsnz : pair_side a b <> Ozero).
  { unfold pair_side. cbv zeta. destruct (qltb 0 (g_d2 (geo_pair d a b)) && negb (qltb (g_dproj (geo_pair d a b)) 0)); discriminate. }
  match goal with |- context [eval_asym _ ?pc _ _ _] => set (PC := pc) end.
  destruct (Nat.eq_dec k k') as [<-|Hne].
  - assert (E : pair_in d k a b = true) by (apply PL; split; [exists neg; reflexivity|reflexivity]).
    rewrite E.
    assert (HPC : (p_ipas PC < d_npas d)%nat) by exact Hk.
    assert (HPO : p_orient PC <> Ozero) by exact Hsnz.
    repeat split.
    + pose proof (fsum_eval_asym_at u_sw (d_npas d) PC a b (get_weight cf a * get_weight cf b) HPC HPO iv jv o (c_nvar cf) Hj Hi Ho) as F.
      change (p_ipas PC) with k in F. rewrite F. unfold asym_term. change (p_orient PC) with (pair_side a b).
      destruct (zval a iv) as [z11|]; [|reflexivity]. destruct (zval b iv) as [z12|]; [|reflexivity].
      cbn [fst].
      destruct (orient_eqb (pair_side a b) o); destruct (orient_eqb (flip (pair_side a b)) o);
        destruct (zval b jv); destruct (zval a jv); cbn [fst asym_upd mk_upd u_sw]; ring.
    + pose proof (fsum_eval_asym_at u_glo (d_npas d) PC a b (get_weight cf a * get_weight cf b) HPC HPO iv jv o (c_nvar cf) Hj Hi Ho) as F.
      change (p_ipas PC) with k in F. rewrite F. unfold asym_term. change (p_orient PC) with (pair_side a b).
      destruct (zval a iv) as [z11|]; [|reflexivity]. destruct (zval b iv) as [z12|]; [|reflexivity].
      cbn [snd].
      destruct (orient_eqb (pair_side a b) o); destruct (orient_eqb (flip (pair_side a b)) o);
        destruct (zval b jv); destruct (zval a jv); cbn [snd asym_upd mk_upd u_glo]; ring.
    + pose proof (fsum_eval_asym_at u_ghi (d_npas d) PC a b (get_weight cf a * get_weight cf b) HPC HPO iv jv o (c_nvar cf) Hj Hi Ho) as F.
      change (p_ipas PC) with k in F. rewrite F. unfold asym_term. change (p_orient PC) with (pair_side a b).
      destruct (zval a iv) as [z11|]; [|reflexivity]. destruct (zval b iv) as [z12|]; [|reflexivity].
      cbn [snd].
      destruct (orient_eqb (pair_side a b) o); destruct (orient_eqb (flip (pair_side a b)) o);
        destruct (zval b jv); destruct (zval a jv); cbn [snd asym_upd mk_upd u_ghi]; ring.
  - assert (E : pair_in d k a b = false).
    { destruct (pair_in d k a b) eqn:E'; [|reflexivity]. destruct PL as [_ PL]. destruct (PL eq_refl) as [_ H]. congruence. }
    rewrite E.
    repeat split; apply fsum_eval_asym_other; cbn [p_ipas p_orient]; auto.
Qed.

(* raw accumulators of the covariance: sums over the pairs i<j of the usable samples in the order of the first coordinate *)
Lemma accumulate1_cov l iv jv k o :
  (jv <= iv)%nat -> (iv < c_nvar cf)%nat -> (k < d_npas d)%nat -> o <> Ozero ->
  let c := nth (dir_address true (d_npas d) iv jv k o) (accumulate1 cf d l) cell0 in
  let L := filter (usable cf) (sort_x1 l) in
  a_sw c == pair_sum (fun a b => fst (cov_pair iv jv k o a b)) L /\
  a_glo c == pair_sum (fun a b => snd (cov_pair iv jv k o a b)) L /\
  a_ghi c == pair_sum (fun a b => snd (cov_pair iv jv k o a b)) L.
Proof.
  intros Hj Hi Hk Ho. cbv zeta.
  assert (Hasym : is_asym (c_calc cf) = true) by (destruct Hcalc as [E|E]; rewrite E; reflexivity).
  unfold accumulate1, zero_arr. rewrite Hasym.
  set (adr := dir_address true (d_npas d) iv jv k o).
  assert (Hadr : (adr < dir_size true (d_npas d) (c_nvar cf))%nat) by (apply asym_address_bound; assumption).
  destruct (apply_upds_sums _ (flat_map (fun p => pair_updates cf d (stat_means cf l) (fst p) (snd p)) (reached1 cf d l)) adr Hadr)
    as (S1 & _ & _ & S4 & S5).
  cbn [spec_cell a_sw a_glo a_ghi] in S1, S4, S5.
  rewrite S1, S4, S5. unfold sum_sw, sum_glo, sum_ghi.
  change (sumQ (map ?f (at_addr adr ?us))) with (fsum f adr us).
  rewrite !(fsum_reached1 _ cf d _ l adr Hloop Hdp Htol).
  unfold pair_sum.
  repeat split; apply sumQ_map_ext; intros [a b] _; cbn [fst snd];
    destruct (cov_pair_fields (stat_means cf l) a b iv jv k o Hj Hi Hk Ho) as (F1 & F2 & F3); assumption.
Qed.

(* exchanging the two samples of a pair with a non-zero projection on the direction leaves its contribution unchanged *)
Lemma cov_pair_swap iv jv k o a b :
  ~ g_dproj (geo_pair d a b) == 0 ->
  fst (cov_pair iv jv k o a b) == fst (cov_pair iv jv k o b a) /\ snd (cov_pair iv jv k o a b) == snd (cov_pair iv jv k o b a).
Proof.
  intro Hnz. unfold cov_pair. rewrite (pair_in_swap d k a b).
  destruct (pair_in d k a b); [|split; reflexivity].
  destruct (geo_swap d a b) as (E1 & E2 & E3 & E4).
  assert (Hd2 : 0 < g_d2 (geo_pair d a b)).
  { pose proof (g_d2_nonneg d a b) as H0.
    destruct (Qlt_le_dec 0 (g_d2 (geo_pair d a b))) as [H|H]; [exact H|]. exfalso. apply Hnz.
    (* d2 = 0 forces every component of the increment, hence the projection, to vanish *)
    unfold geo_pair, geo_of in *. cbn [g_d2 g_dproj] in *. rewrite Qred_correct in *.
    assert (Hz : dot (vsub (s_x b) (s_x a)) (vsub (s_x b) (s_x a)) == 0) by lra.
    clear - Hz. revert Hz. generalize (d_codir d). induction (vsub (s_x b) (s_x a)) as [|x r IH]; intros c Hz; [reflexivity|].
    cbn [dot] in *. destruct c as [|y c]; [reflexivity|].
    assert (Hr : 0 <= dot r r) by (clear; induction r as [|u r IHr]; cbn [dot]; [lra|nra]).
    assert (Hx : x == 0) by nra. assert (Hr0 : dot r r == 0) by nra.
    rewrite (IH c Hr0), Hx. ring. }
  assert (Sab : pair_side b a = flip (pair_side a b)).
  { unfold pair_side. cbv zeta. rewrite E1. rewrite (proj2 (qltb_true 0 _) Hd2). cbn [andb].
    destruct (qltb_spec (g_dproj (geo_pair d a b)) 0) as [A|A]; destruct (qltb_spec (g_dproj (geo_pair d b a)) 0) as [B|B];
      cbn [negb flip]; try reflexivity; exfalso; rewrite E2 in B; lra. }
  rewrite Sab.
  assert (Fl : flip (flip (pair_side a b)) = pair_side a b) by (destruct (pair_side a b); reflexivity).
  rewrite Fl.
  destruct (zval a iv) as [z11|]; destruct (zval b iv) as [z12|]; try (split; reflexivity).
  destruct (orient_eqb (pair_side a b) o); destruct (orient_eqb (flip (pair_side a b)) o);
    destruct (zval b jv); destruct (zval a jv); cbn [fst snd]; split; ring.
Qed.

(* ... hence, when every pair that can contribute has a direction, the sums can be taken over the data in any order *)
Lemma accumulate1_cov_unordered l iv jv k o :
  (jv <= iv)%nat -> (iv < c_nvar cf)%nat -> (k < d_npas d)%nat -> o <> Ozero ->
  (forall a b, In a l -> In b l -> a = b \/ ~ g_dproj (geo_pair d a b) == 0 \/ pair_in d k a b = false) ->
  let c := nth (dir_address true (d_npas d) iv jv k o) (accumulate1 cf d l) cell0 in
  let L := filter (usable cf) l in
  a_sw c == pair_sum (fun a b => fst (cov_pair iv jv k o a b)) L /\
  a_glo c == pair_sum (fun a b => snd (cov_pair iv jv k o a b)) L /\
  a_ghi c == pair_sum (fun a b => snd (cov_pair iv jv k o a b)) L.
Proof.
  intros Hj Hi Hk Ho Hdir. cbv zeta.
  destruct (accumulate1_cov l iv jv k o Hj Hi Hk Ho) as (A1 & A2 & A3).
  assert (Hp : Permutation (filter (usable cf) (sort_x1 l)) (filter (usable cf) l)) by (apply filter_perm; apply sort_perm).
  assert (Hin : forall x, In x (filter (usable cf) (sort_x1 l)) -> In x l).
  { intros x Hx. apply filter_In in Hx. destruct Hx as [Hx _]. eapply Permutation_in; [apply sort_perm|exact Hx]. }
  assert (Hsym : forall a b, In a (filter (usable cf) (sort_x1 l)) -> In b (filter (usable cf) (sort_x1 l)) ->
                 fst (cov_pair iv jv k o a b) == fst (cov_pair iv jv k o b a) /\ snd (cov_pair iv jv k o a b) == snd (cov_pair iv jv k o b a)).
  { intros a b Ha Hb. destruct (Hdir a b (Hin a Ha) (Hin b Hb)) as [E|[E|E]].
    - subst b. split; reflexivity.
    - apply cov_pair_swap. exact E.
    - unfold cov_pair. rewrite (pair_in_swap d k a b), E. split; reflexivity. }
  rewrite A1, A2, A3.
  repeat split; apply pair_sum_perm_on; try exact Hp; intros a b Ha Hb; apply (Hsym a b Ha Hb).
Qed.
End CovMain.

(* C12 proofs, part 19: index logic of the FFT variogram map (VMap::_grid_fft).
   The FFT of zero-padded arrays of size P followed by the product with a conjugate and the inverse FFT is the CIRCULAR
   cross-correlation of period P.  Along every axis the circular correlation coincides with the linear one (the pairwise sums) at
   all the lags |k| <= h that are extracted as soon as P >= N + h; the size chosen by the code satisfies this. *)
From Coq Require Import List ZArith QArith Qabs Qround Qminmax Bool Lqa Lia.
From Gst Require Import lib.QAux C12.Model C12.ModelExt C12.Spec C12.Proofs_acc C12.Proofs_vg.
Import ListNotations.
Local Open Scope Q_scope.

(* value of a zero-padded array: the list on [0, N), zero elsewhere *)
Definition pad (a : list Q) (i : Z) : Q := if (i <? 0)%Z then 0 else nth (Z.to_nat i) a 0.
(* linear cross-correlation at lag k: sum over x in [0, N) of a(x) b(x + k) *)
Definition lin_corr (a b : list Q) (k : Z) : Q :=
  sumQ (map (fun x => nth x a 0 * pad b (Z.of_nat x + k)) (seq 0 (length a))).
(* circular cross-correlation of period P of the two padded arrays, at lag k (any integer, taken modulo P) *)
Definition circ_corr (P : nat) (a b : list Q) (k : Z) : Q :=
  sumQ (map (fun x => pad a (Z.of_nat x) * pad b ((Z.of_nat x + k) mod Z.of_nat P)) (seq 0 P)).

Lemma pad_out a i : (Z.of_nat (length a) <= i)%Z -> pad a i = 0.
Proof. intro H. unfold pad. destruct (Z.ltb_spec i 0); [reflexivity|]. apply nth_overflow. lia. Qed.

(* per-axis index lemma: with P >= N + h the wrapped index of x + k is x + k itself when it lies in the array,
   and falls in the zero padding otherwise *)
Lemma wrap_index (P N h : nat) (x : nat) (k : Z) :
  (N + h <= P)%nat -> (x < N)%nat -> (- Z.of_nat h <= k <= Z.of_nat h)%Z ->
  let j := ((Z.of_nat x + k) mod Z.of_nat P)%Z in
  ((0 <= Z.of_nat x + k)%Z -> j = (Z.of_nat x + k)%Z) /\
  ((Z.of_nat x + k < 0)%Z -> (Z.of_nat N <= j < Z.of_nat P)%Z).
Proof.
  intros HP Hx Hk. cbv zeta. split; intro H.
  - apply Z.mod_small. lia.
  - replace ((Z.of_nat x + k) mod Z.of_nat P)%Z with (Z.of_nat x + k + Z.of_nat P)%Z.
    + lia.
    + symmetry. rewrite <- (Z.mod_add _ 1 (Z.of_nat P)) by lia. rewrite Z.mul_1_l. apply Z.mod_small. lia.
Qed.

Lemma sumQ_seq_split (f : nat -> Q) n m : sumQ (map f (seq 0 (n + m))) == sumQ (map f (seq 0 n)) + sumQ (map f (seq n m)).
Proof. rewrite seq_app, map_app, sumQ_app. reflexivity. Qed.

(* no wrap-around: the circular correlation of the padded arrays IS the linear correlation at every extracted lag *)
Lemma circ_eq_lin (P h : nat) (a b : list Q) (k : Z) :
  length b = length a -> (length a + h <= P)%nat -> (- Z.of_nat h <= k <= Z.of_nat h)%Z ->
  circ_corr P a b k == lin_corr a b k.
Proof.
  intros Lb HP Hk. unfold circ_corr, lin_corr. set (N := length a) in *.
  replace P with (N + (P - N))%nat at 1 by lia. rewrite sumQ_seq_split.
  assert (Z2 : sumQ (map (fun x => pad a (Z.of_nat x) * pad b ((Z.of_nat x + k) mod Z.of_nat P)) (seq N (P - N))) == 0).
  { apply sumQ_zero. intros x Hx. apply in_seq in Hx. rewrite (pad_out a (Z.of_nat x)) by (fold N; lia). ring. }
  rewrite Z2. rewrite Qplus_0_r. apply sumQ_map_ext. intros x Hx. apply in_seq in Hx.
  assert (Ea : pad a (Z.of_nat x) = nth x a 0) by (unfold pad; destruct (Z.ltb_spec (Z.of_nat x) 0); [lia|rewrite Nat2Z.id; reflexivity]).
  rewrite Ea.
  destruct (wrap_index P N h x k HP ltac:(lia) Hk) as [W1 W2]. cbv zeta in W1, W2.
  destruct (Z_lt_le_dec (Z.of_nat x + k) 0) as [Hneg|Hpos].
  - destruct (W2 Hneg) as [J1 J2]. rewrite (pad_out b _) by (rewrite Lb; fold N; lia).
    unfold pad at 1. rewrite (proj2 (Z.ltb_lt _ _) Hneg). reflexivity.
  - rewrite (W1 Hpos). reflexivity.
Qed.

(* the size used by the code: ceil((N + M - 1) / 8) * 8 with M = 2 h + 1 cells in the map *)
Lemma fft_size_ge n m : (n + m - 1 <= fft_size n m)%nat.
Proof.
  unfold fft_size. pose proof (Nat.div_mod (n + m - 1 + 7) 8 ltac:(lia)) as D.
  pose proof (Nat.mod_upper_bound (n + m - 1 + 7) 8 ltac:(lia)) as M. lia.
Qed.
Lemma fft_size_sufficient n h : (n + h <= fft_size n (2 * h + 1))%nat.
Proof. pose proof (fft_size_ge n (2 * h + 1)). lia. Qed.

(* hence every cell of the map computed through the FFT path is a pairwise sum *)
Lemma fft_no_wraparound (n h : nat) (a b : list Q) (k : Z) :
  length a = n -> length b = n -> (- Z.of_nat h <= k <= Z.of_nat h)%Z ->
  circ_corr (fft_size n (2 * h + 1)) a b k == lin_corr a b k.
Proof.
  intros La Lb Hk. apply (circ_eq_lin _ h); [congruence| rewrite La; apply fft_size_sufficient|exact Hk].
Qed.

(* C12 model, second part: further consumers of the same pair logic.
     DirParam::getLagRank with irregular lags ("breaks")           /repo/src/Variogram/DirParam.cpp:422
     Grid::rankToIndice / indiceToRank                              /repo/src/Basic/Grid.cpp:551 / 529
     Vario::_calculateOnGridSolution                                /repo/src/Variogram/Vario.cpp:3535
     Vario::_calculateGenOnGridSolution (generalised variograms)    Vario.cpp:3617  (weight tables NWGT/NORWGT/VARWGT, lines 39-41)
     VMap::_vmap_grid / _vmap_general / _setResult / _vmap_normalize   /repo/src/Variogram/VMap.cpp:725 / 606 / 79 / 1158
     point_to_grid                                                  /repo/src/Core/db.cpp:747
     VCloud::_variogram_cloud / _update_discretization_grid         /repo/src/Variogram/VCloud.cpp:201 / 250
   Executable definitions only. *)
From Coq Require Import List ZArith QArith Qabs Qround Qminmax Bool.
From Gst Require Import lib.QAux C12.Model.
Import ListNotations.
Local Open Scope Q_scope.

(* ------------------------------------------------------------------ irregular lags *)
(* "distloc > breaks[k] && distloc <= breaks[k+1]" on the squared distance *)
Definition in_break (bs : list Q) (d2 : Q) (k : nat) : bool :=
  let lo := nth k bs 0 in
  let hi := nth (S k) bs 0 in
  (qltb lo 0 || qltb (lo * lo) d2) && (qleb 0 hi && qleb d2 (hi * hi)).
(* the first lag k < npas whose interval ]b_k, b_{k+1}] contains the distance *)
Definition lag_rank_irr (npas : nat) (bs : list Q) (d2 : Q) : option nat := find (in_break bs d2) (seq 0 npas).
(* DirParam::getMaximumDistance: getBreak(npas) *)
Definition maxdist_irr (npas : nat) (bs : list Q) : Q := nth npas bs 0.

(* pair_updates with the lag function as a parameter (same text as Model.pair_updates) *)
Definition pair_updates_lag (lagf : Q -> option nat) (cf : cfg) (d : dirp) (means : list Q) (a b : sample) : list upd :=
  let g := geo_of (d_codir d) (vsub (s_x b) (s_x a)) in
  match isOK d (is_asym (c_calc cf)) g with
  | Rej => []
  | Acc neg =>
      if c_dateChk cf && negb (date_ok d a b) then []
      else match lagf (g_d2 g) with
           | None => []
           | Some k =>
               let o := if qltb 0 (g_d2 g) && negb neg then Oplus else Ominus in
               evaluate cf (d_npas d) means
                        {| p_w1 := get_weight cf a; p_w2 := get_weight cf b;
                           p_dlo := sqrt_lo (g_d2 g); p_dhi := sqrt_hi (g_d2 g); p_ipas := k; p_orient := o;
                           p_coinc := qleb (g_d2 g) 0 |} a b
           end
  end.
Definition solution1_irr (cf : cfg) (d : dirp) (bs : list Q) (l : list sample) : list (list ocell) :=
  let means := stat_means cf l in
  let lagf := lag_rank_irr (d_npas d) bs in
  finish cf d l (apply_upds (zero_arr cf d)
                   (flat_map (fun p => pair_updates_lag lagf cf d means (fst p) (snd p))
                             (outer1 cf (maxdist_irr (d_npas d) bs) [] (sort_x1 l)))).

(* ------------------------------------------------------------------ grid indices *)
(* rank = i_0 + nx_0 (i_1 + nx_1 (i_2 ...)) *)
Fixpoint rank_to_index (nx : list nat) (r : nat) : list Z :=
  match nx with [] => [] | n :: t => Z.of_nat (r mod n) :: rank_to_index t (r / n) end.
Fixpoint index_to_rank (nx : list nat) (idx : list Z) : option nat :=
  match nx, idx with
  | [], [] => Some O
  | n :: t, i :: u =>
      if (0 <=? i)%Z && (i <? Z.of_nat n)%Z
      then match index_to_rank t u with Some r => Some (Z.to_nat i + n * r)%nat | None => None end
      else None
  | _, _ => None
  end.
Fixpoint vaddZ (a b : list Z) : list Z := match a, b with x :: a', y :: b' => (x + y)%Z :: vaddZ a' b' | _, _ => [] end.
Definition scaleZ (k : Z) (g : list Z) : list Z := map (Z.mul k) g.
Definition grid_size (nx : list nat) : nat := fold_right Nat.mul 1%nat nx.
(* the node reached from node [r] by the index shift [sh], if it lies inside the grid *)
Definition grid_node (nx : list nat) (cells : list sample) (r : nat) (sh : list Z) : option sample :=
  match index_to_rank nx (vaddZ (rank_to_index nx r) sh) with Some r' => nth_error cells r' | None => None end.

(* ------------------------------------------------------------------ Vario::_calculateOnGridSolution *)
(* no geometry checker on a grid; dist = ipas * dpas (dpas = length of the increment, carried as an enclosure), orient = +1 *)
Definition grid_updates (cf : cfg) (npas : nat) (dlo dhi : Q) (means : list Q) (nx : list nat) (cells : list sample) (g : list Z)
  : list upd :=
  flat_map (fun ra : nat * sample =>
              let (r, a) := ra in
              if skip cf a then []
              else flat_map (fun ipas =>
                     match grid_node nx cells r (scaleZ (Z.of_nat ipas) g) with
                     | Some b =>
                         if skip cf b then []
                         else evaluate cf npas means
                                {| p_w1 := get_weight cf a; p_w2 := get_weight cf b;
                                   p_dlo := inject_Z (Z.of_nat ipas) * dlo; p_dhi := inject_Z (Z.of_nat ipas) * dhi;
                                   p_ipas := ipas; p_orient := Oplus; p_coinc := false |} a b
                     | None => []
                     end) (seq 1 (npas - 1)))
           (combine (seq 0 (length cells)) cells).
Definition grid_solution (cf : cfg) (d : dirp) (dp2 : Q) (nx : list nat) (cells : list sample) (g : list Z) : list (list ocell) :=
  finish cf d cells (apply_upds (zero_arr cf d)
                       (grid_updates cf (d_npas d) (sqrt_lo dp2) (sqrt_hi dp2) (stat_means cf cells) nx cells g)).

(* ------------------------------------------------------------------ Vario::_calculateGenOnGridSolution *)
Definition gen_weights (norder : nat) : list Q * Q :=      (* VARWGT[norder], NORWGT[norder] *)
  match norder with
  | 1%nat => ([1; -(2); 1], 6)
  | 2%nat => ([1; -(3); 3; -(1)], 20)
  | _ => ([1; -(4); 6; -(4); 1], 70)
  end.
(* value += zz * VARWGT[iwgt] along the aligned nodes; None as soon as a node is outside / masked / undefined *)
Fixpoint gen_combine (cf : cfg) (nx : list nat) (cells : list sample) (r : nat) (g : list Z) (ipas : nat)
                     (iwgt : nat) (ws : list Q) (acc : Q) : option Q :=
  match ws with
  | [] => Some acc
  | w :: ws' =>
      match grid_node nx cells r (scaleZ (Z.of_nat (ipas * iwgt)) g) with
      | Some b => if c_hasSel cf && negb (is_active cf b) then None
                  else match zval b 0 with
                       | Some zz => gen_combine cf nx cells r g ipas (S iwgt) ws' (acc + zz * w)
                       | None => None end
      | None => None
      end
  end.
Definition gen_updates (cf : cfg) (npas : nat) (dlo dhi : Q) (norder : nat) (nx : list nat) (cells : list sample) (g : list Z) : list upd :=
  let (ws, nor) := gen_weights norder in
  flat_map (fun ra : nat * sample =>
              let (r, a) := ra in
              if c_hasSel cf && negb (is_active cf a) then []
              else match zval a 0 with
                   | None => []                       (* "if (FFFF(value)) break;" *)
                   | Some z0 =>
                       flat_map (fun ipas =>
                                   match gen_combine cf nx cells r g ipas 1 (tl ws) (z0 * hd 1 ws) with
                                   | Some v =>
                                       [{| u_addr := ipas; u_sw := 1;
                                           u_hlo := inject_Z (Z.of_nat ipas) * dlo; u_hhi := inject_Z (Z.of_nat ipas) * dhi;
                                           u_glo := v * v / nor; u_ghi := v * v / nor |}]
                                   | None => []
                                   end) (seq 1 (npas - 1))
                   end)
           (combine (seq 0 (length cells)) cells).
Definition gen_solution (cf : cfg) (d : dirp) (dp2 : Q) (norder : nat) (nx : list nat) (cells : list sample) (g : list Z) : list (list ocell) :=
  finish cf d cells (apply_upds (zero_arr cf d) (gen_updates cf (d_npas d) (sqrt_lo dp2) (sqrt_hi dp2) norder nx cells g)).

(* ------------------------------------------------------------------ variogram map *)
(* VMap::_setResult: V[cell][ijvar] += ww * value; W[cell][ijvar] += ww.  [evaluate] is reused with the number of map cells in
   the place of the number of lags and the rank of the cell in the place of the lag: address = cell + ijvar * ncell. *)
Definition map_pc (cf : cfg) (cell : nat) (a b : sample) : pctx :=
  {| p_w1 := get_weight cf a; p_w2 := get_weight cf b; p_dlo := 0; p_dhi := 0; p_ipas := cell; p_orient := Oplus; p_coinc := false |}.
Definition half_sizes (nxx : list nat) : list Z := map Z.of_nat nxx.
Definition map_nx (nxx : list nat) : list nat := map (fun n => (2 * n + 1)%nat) nxx.
(* _vmap_normalize *)
Definition map_cell_out (c : cell) : ocell :=
  if qleb (a_sw c) 0 then {| o_sw := a_sw c; o_hh := None; o_gg := None |}
  else {| o_sw := a_sw c; o_hh := None; o_gg := Some (Qred (a_glo c / a_sw c), Qred (a_ghi c / a_sw c)) |}.
Definition map_finish (ncell nvar : nat) (arr : list cell) : list (list ocell) :=
  map (fun r => map map_cell_out (block ncell r arr)) (seq 0 (nvar * (nvar + 1) / 2)).

(* _vmap_grid: every ordered pair of active nodes (a node with itself included); cell = index difference + half size *)
Definition vmap_grid_cell (nxx : list nat) (i1 i2 : list Z) : option nat :=
  index_to_rank (map_nx nxx) (vaddZ (vaddZ i1 (map Z.opp i2)) (half_sizes nxx)).
Definition vmap_grid_updates (cf : cfg) (nx : list nat) (cells : list sample) (nxx : list nat) : list upd :=
  let ncell := grid_size (map_nx nxx) in
  let nodes := combine (seq 0 (length cells)) cells in
  flat_map (fun ra : nat * sample =>
              if is_active cf (snd ra)
              then flat_map (fun rb : nat * sample =>
                               if is_active cf (snd rb)
                               then match vmap_grid_cell nxx (rank_to_index nx (fst ra)) (rank_to_index nx (fst rb)) with
                                    | Some c => evaluate cf ncell [] (map_pc cf c (snd ra) (snd rb)) (snd ra) (snd rb)
                                    | None => [] end
                               else []) nodes
              else []) nodes.
Definition vmap_grid (cf : cfg) (nx : list nat) (cells : list sample) (nxx : list nat) : list (list ocell) :=
  let ncell := grid_size (map_nx nxx) in
  map_finish ncell (c_nvar cf)
             (apply_upds (repeat cell0 (ncell * (c_nvar cf * (c_nvar cf + 1) / 2))) (vmap_grid_updates cf nx cells nxx)).

(* point_to_grid on the map grid (x0 = -nxx dx): index = floor(delta / dx + nxx + 1/2) *)
Definition point_cell (nxx : list nat) (dxx : list Q) (delta : list Q) : option nat :=
  index_to_rank (map_nx nxx)
    (map (fun t : Q * (Q * nat) => Qfloor (fst t / fst (snd t) + inject_Z (Z.of_nat (snd (snd t))) + (1 # 2)))
         (combine delta (combine dxx nxx))).
(* _vmap_general, radius 0: pairs jech2 >= jech1 of the sorted active samples; break on the first coordinate, skip on the others;
   the pair feeds the cell of its increment and, unless it is a sample with itself, the opposite cell *)
Fixpoint vmap_inner (cf : cfg) (nxx : list nat) (dxx mid : list Q) (ncell : nat) (a : sample) (first : bool) (js : list sample) : list upd :=
  match js with
  | [] => []
  | b :: r =>
      if negb (is_active cf b) then vmap_inner cf nxx dxx mid ncell a false r
      else
        let delta := vsub (s_x b) (s_x a) in
        if qltb (hd 0 mid) (hd 0 delta) then []                                       (* break *)
        else
          let rest := vmap_inner cf nxx dxx mid ncell a false r in
          if existsb (fun t : Q * Q => qltb (snd t) (fst t)) (tl (combine delta mid)) then rest      (* flag_out *)
          else match point_cell nxx dxx delta with
               | None => rest
               | Some c =>
                   evaluate cf ncell [] (map_pc cf c a b) a b ++
                   (if first then []
                    else match point_cell nxx dxx (map Qopp delta) with
                         | Some c' => evaluate cf ncell [] (map_pc cf c' a b) a b
                         | None => [] end) ++ rest
               end
  end.
Fixpoint vmap_outer (cf : cfg) (nxx : list nat) (dxx mid : list Q) (ncell : nat) (cur : list sample) : list upd :=
  match cur with
  | [] => []
  | a :: rest => (if is_active cf a then vmap_inner cf nxx dxx mid ncell a true (a :: rest) else [])
                 ++ vmap_outer cf nxx dxx mid ncell rest
  end.
Definition vmap_points (cf : cfg) (l : list sample) (nxx : list nat) (dxx : list Q) : list (list ocell) :=
  let ncell := grid_size (map_nx nxx) in
  let mid := map (fun t : nat * Q => inject_Z (Z.of_nat (2 * fst t + 1)) * snd t / 2) (combine nxx dxx) in
  map_finish ncell (c_nvar cf)
             (apply_upds (repeat cell0 (ncell * (c_nvar cf * (c_nvar cf + 1) / 2)))
                         (vmap_outer cf nxx dxx mid ncell (sort_x1 l))).

(* ------------------------------------------------------------------ variogram cloud *)
(* one variable; pairs i<j in the order of the data base, accepted by the geometric test of the direction; no lag test.
   cell = (floor(dist / dx0 + 1/2), floor(value / dx1 + 1/2)), value = (z_j - z_i)^2 / 2; the count of the cell grows by one *)
Definition cloud_cell (d : dirp) (lagnb varnb : nat) (dx0 dx1 : Q) (a b : sample) : option nat :=
  let g := geo_of (d_codir d) (vsub (s_x b) (s_x a)) in
  match isOK d false g with
  | Rej => None
  | Acc _ =>
      match zval a 0, zval b 0 with
      | Some z1, Some z2 =>
          let ix := ((Z.sqrt (Qfloor (4 * g_d2 g / (dx0 * dx0))) + 1) / 2)%Z in
          let iy := Qfloor ((z2 - z1) * (z2 - z1) / 2 / dx1 + (1 # 2)) in
          index_to_rank [lagnb; varnb] [ix; iy]
      | _, _ => None
      end
  end.
Definition count_cells (n : nat) (hits : list nat) : list Z :=
  map (fun c => Z.of_nat (length (filter (Nat.eqb c) hits))) (seq 0 n).
Fixpoint cloud_pairs (cf : cfg) (l : list sample) : list (sample * sample) :=
  match l with
  | [] => []
  | a :: rest => (if skip cf a then [] else map (pair a) (filter (fun b => negb (skip cf b)) rest)) ++ cloud_pairs cf rest
  end.
Definition cloud_hits (cf : cfg) (d : dirp) (lagnb varnb : nat) (dx0 dx1 : Q) (l : list sample) : list nat :=
  flat_map (fun p : sample * sample => match cloud_cell d lagnb varnb dx0 dx1 (fst p) (snd p) with Some c => [c] | None => [] end)
           (cloud_pairs cf l).
Definition vcloud (cf : cfg) (d : dirp) (lagnb varnb : nat) (dx0 dx1 : Q) (l : list sample) : list Z :=
  count_cells (lagnb * varnb) (cloud_hits cf d lagnb varnb dx0 dx1 l).

(* ------------------------------------------------------------------ Vario::_calculateOnLineSolution (generalised variogram along lines) *)
(* samples taken in rank order: jech = iech + iwgt * ipas; every pair (iech, jech) must pass the geometric test of the direction;
   no code option; dist0 = distance of the first pair *)
Fixpoint line_combine (cf : cfg) (d : dirp) (cells : list sample) (r : nat) (a : sample) (ipas : nat)
                      (iwgt : nat) (ws : list Q) (acc : Q) : option Q :=
  match ws with
  | [] => Some acc
  | w :: ws' =>
      match nth_error cells (r + iwgt * ipas) with
      | Some b => if c_hasSel cf && negb (is_active cf b) then None
                  else match isOK d false (geo_of (d_codir d) (vsub (s_x b) (s_x a))) with
                       | Rej => None
                       | Acc _ => match zval b 0 with
                                  | Some zz => line_combine cf d cells r a ipas (S iwgt) ws' (acc + zz * w)
                                  | None => None end
                       end
      | None => None
      end
  end.
Definition line_updates (cf : cfg) (d : dirp) (norder : nat) (cells : list sample) : list upd :=
  let (ws, nor) := gen_weights norder in
  flat_map (fun ra : nat * sample =>
              let (r, a) := ra in
              if negb (Nat.ltb r (length cells - 1)) then []           (* "for iech < nech - 1" *)
              else if c_hasSel cf && negb (is_active cf a) then []
              else match zval a 0 with
                   | None => []
                   | Some z0 =>
                       flat_map (fun ipas =>
                                   match line_combine cf d cells r a ipas 1 (tl ws) (z0 * hd 1 ws) with
                                   | Some v =>
                                       let d2 := match nth_error cells (r + ipas) with
                                                 | Some b => g_d2 (geo_of (d_codir d) (vsub (s_x b) (s_x a))) | None => 0 end in
                                       [{| u_addr := ipas; u_sw := 1; u_hlo := sqrt_lo d2; u_hhi := sqrt_hi d2;
                                           u_glo := v * v / nor; u_ghi := v * v / nor |}]
                                   | None => []
                                   end) (seq 1 (d_npas d - 1))
                   end)
           (combine (seq 0 (length cells)) cells).
Definition line_solution (cf : cfg) (d : dirp) (norder : nat) (cells : list sample) : list (list ocell) :=
  finish cf d cells (apply_upds (zero_arr cf d) (line_updates cf d norder cells)).

(* ------------------------------------------------------------------ VMap::_grid_fft: what the FFT path computes, pair by pair *)
(* Variogram: as the direct algorithm without weights.  Covariance family (_vmap_load_cross): for every ordered pair of active nodes
   (a, b) stored in the cell of their index difference, when z_ivar(a) and z_jvar(b) are defined:
     N += 1, P += z_ivar(a) z_jvar(b), A += z_ivar(a), B += z_jvar(b);
   non-centred covariance = P/N; covariance and covariogram = P/N - (A/N)(B/N) (means of the pairs of the lag);
   cells without pair hold 0 (no TEST).  The fields u_hlo / u_hhi carry A and B. *)
Definition fft_pair_updates (cf : cfg) (ncell c : nat) (a b : sample) : list upd :=
  flat_map (fun iv => flat_map (fun jv =>
     match zval a iv, zval b jv with
     | Some x, Some y => [{| u_addr := c + var_rank iv jv * ncell; u_sw := 1; u_hlo := x; u_hhi := y; u_glo := x * y; u_ghi := x * y |}]
     | _, _ => [] end) (seq 0 (S iv))) (seq 0 (c_nvar cf)).
Definition vmap_fft_updates (cf : cfg) (nx : list nat) (cells : list sample) (nxx : list nat) : list upd :=
  let ncell := grid_size (map_nx nxx) in
  let nodes := combine (seq 0 (length cells)) cells in
  flat_map (fun ra : nat * sample =>
              if is_active cf (snd ra)
              then flat_map (fun rb : nat * sample =>
                               if is_active cf (snd rb)
                               then match vmap_grid_cell nxx (rank_to_index nx (fst ra)) (rank_to_index nx (fst rb)) with
                                    | Some c => fft_pair_updates cf ncell c (snd ra) (snd rb)
                                    | None => [] end
                               else []) nodes
              else []) nodes.
Definition fft_cell_out (cf : cfg) (c : cell) : ocell :=
  if qleb (a_sw c) 0 then {| o_sw := 0; o_hh := None; o_gg := None |}
  else
    let m := match c_calc cf with Cov | Covg => (a_hlo c / a_sw c) * (a_hhi c / a_sw c) | _ => 0 end in
    {| o_sw := a_sw c; o_hh := None; o_gg := Some (Qred (a_glo c / a_sw c - m), Qred (a_ghi c / a_sw c - m)) |}.
Definition vmap_fft (cf : cfg) (nx : list nat) (cells : list sample) (nxx : list nat) : list (list ocell) :=
  match c_calc cf with
  | Vg => vmap_grid cf nx cells nxx
  | _ =>
      let ncell := grid_size (map_nx nxx) in
      let arr := apply_upds (repeat cell0 (ncell * (c_nvar cf * (c_nvar cf + 1) / 2))) (vmap_fft_updates cf nx cells nxx) in
      map (fun r => map (fft_cell_out cf) (block ncell r arr)) (seq 0 (c_nvar cf * (c_nvar cf + 1) / 2))
  end.

(* size of the zero-padded working arrays along one axis: (int) ceil((nxgrid + nxmap - 1) / 8.) * 8   (VMap.cpp, _grid_fft) *)
Definition fft_size (ngrid nmap : nat) : nat := ((ngrid + nmap - 1 + 7) / 8 * 8)%nat.

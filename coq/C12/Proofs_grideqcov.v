(* C12 proofs, part 17: grid algorithm = general algorithm for the (centred or not) covariance, both sides of every lag. *)
From Coq Require Import List ZArith QArith Qabs Qround Qminmax Bool Lqa Lia Permutation Sorted.
From Gst Require Import lib.QAux C12.Model C12.ModelExt C12.Spec C12.Proofs_enum C12.Proofs_lag C12.Proofs_acc C12.Proofs_geom C12.Proofs_vg C12.Proofs_main
  C12.Proofs_bysample C12.Proofs_sym C12.Proofs_ext C12.Proofs_grid C12.Proofs_cov C12.Proofs_grideq.
Import ListNotations.
Local Open Scope Q_scope.

Section GridCov.
Variables (cf : cfg) (d : dirp) (nx : list nat) (dx x0 : list Q) (g : list Z) (cells : list sample).
Hypothesis Hcalc : c_calc cf = Cov \/ c_calc cf = CovNC.
Hypothesis Hloop : c_dateLoop cf = false.
Hypothesis Hchk : c_dateChk cf = false.
Hypothesis Hps : d_psmin d == 1.
Hypothesis Htol : d_tol d == 0.
Hypothesis Hbench : d_bench d = None.
Hypothesis Hcyl : d_cyl d = None.
Hypothesis Hcodir : d_codir d = qv g dx.
Hypothesis Hdp : 0 < d_dpas d.
Hypothesis Hdp2 : d_dpas d * d_dpas d == dot (qv g dx) (qv g dx).
Hypothesis Hdx : Forall (fun e => 0 < e) dx.
Hypothesis Lnx : length nx = length dx.
Hypothesis Lg : length g = length dx.
Hypothesis Lx0 : length x0 = length dx.
Hypothesis Hcoord : forall r s, nth_error cells r = Some s -> s_x s = coord x0 dx (rank_to_index nx r).
Hypothesis Hlen : length cells = grid_size nx.
Variables (k iv jv : nat) (o : orient).
Hypothesis Hk1 : (1 <= k)%nat.
Hypothesis Hkn : (k < d_npas d)%nat.
Hypothesis Hj : (jv <= iv)%nat.
Hypothesis Hi : (iv < c_nvar cf)%nat.
Hypothesis Ho : o <> Ozero.

Let adr := dir_address true (d_npas d) iv jv k o.
Let nodes := nodes_of cells.
Let D := dot (qv g dx) (qv g dx).
Let kq := inject_Z (Z.of_nat k).

Lemma D_pos : 0 < D.
Proof. apply (dn2_pos d dx g Hdp Hdp2). Qed.
Lemma kq_ge1 : 1 <= kq.
Proof. unfold kq. change 1 with (inject_Z 1). rewrite <- Zle_Qle. lia. Qed.

Lemma reach_geo x y : In x nodes -> In y nodes -> reaches nx g k x y = true ->
  g_d2 (geo_pair d (snd x) (snd y)) == kq * kq * D /\ g_dproj (geo_pair d (snd x) (snd y)) == kq * D.
Proof. exact (reached_geo d nx dx x0 g cells Hcodir Lnx Lg Lx0 Hcoord Hlen k x y). Qed.

(* a pair of nodes that falls in lag k has a non-zero projection on the direction *)
Lemma in_lag_directed x y : In x nodes -> In y nodes -> pair_in d k (snd x) (snd y) = true ->
  ~ g_dproj (geo_pair d (snd x) (snd y)) == 0.
Proof.
  intros Hx Hy P. pose proof D_pos. pose proof kq_ge1.
  apply (pair_in_reaches d nx dx x0 g cells Hps Htol Hbench Hcyl Hcodir Hdp Hdp2 Hdx Lnx Lg Lx0 Hcoord Hlen k Hk1 Hkn x y Hx Hy) in P.
  destruct P as [R|R].
  - destruct (reach_geo x y Hx Hy R) as [_ E]. rewrite E. nra.
  - destruct (reach_geo y x Hy Hx R) as [_ E]. destruct (geo_swap d (snd y) (snd x)) as (_ & E2 & _).
    rewrite E2, E. nra.
Qed.

Definition ww (a b : sample) : Q := get_weight cf a * get_weight cf b.
(* what the grid algorithm adds for the node pair (a, b), b ahead of a *)
Definition Vc (a b : sample) : Q * Q :=
  padd (if orient_eqb Oplus o then wterm (ww a b) (prod1 iv jv a b) else (0, 0))
       (if orient_eqb Ominus o then wterm (ww a b) (prod1 iv jv b a) else (0, 0)).

Lemma cov_reach x y : In x nodes -> In y nodes -> reaches nx g k x y = true ->
  cov_pair cf d iv jv k o (snd x) (snd y) = Vc (snd x) (snd y).
Proof.
  intros Hx Hy R. pose proof D_pos. pose proof kq_ge1.
  destruct (reach_geo x y Hx Hy R) as [E2 Ep].
  assert (P : pair_in d k (snd x) (snd y) = true).
  { apply (pair_in_reaches d nx dx x0 g cells Hps Htol Hbench Hcyl Hcodir Hdp Hdp2 Hdx Lnx Lg Lx0 Hcoord Hlen k Hk1 Hkn x y Hx Hy). left; exact R. }
  unfold cov_pair, Vc. rewrite P.
  assert (Hkk : 1 <= kq * kq) by nra.
  assert (Hd2 : 0 < g_d2 (geo_pair d (snd x) (snd y))) by (rewrite E2; nra).
  assert (Hdp' : 0 < g_dproj (geo_pair d (snd x) (snd y))) by (rewrite Ep; nra).
  assert (C : coincident d (snd x) (snd y) = false) by (unfold coincident; apply qleb_false; exact Hd2).
  assert (Sd : pair_side d (snd x) (snd y) = Oplus).
  { unfold pair_side. cbv zeta. rewrite (proj2 (qltb_true 0 _) Hd2). rewrite (proj2 (qltb_false _ 0)) by lra. reflexivity. }
  rewrite C, Sd. reflexivity.
Qed.
Lemma cov_zero a b : pair_in d k a b = false -> cov_pair cf d iv jv k o a b = (0, 0).
Proof. intro E. unfold cov_pair. rewrite E. reflexivity. Qed.
Lemma cov_sym_nodes x y : In x nodes -> In y nodes ->
  fst (cov_pair cf d iv jv k o (snd x) (snd y)) == fst (cov_pair cf d iv jv k o (snd y) (snd x)) /\
  snd (cov_pair cf d iv jv k o (snd x) (snd y)) == snd (cov_pair cf d iv jv k o (snd y) (snd x)).
Proof.
  intros Hx Hy. destruct (pair_in d k (snd x) (snd y)) eqn:P.
  - apply cov_pair_swap. right. apply (in_lag_directed x y Hx Hy P).
  - pose proof (pair_in_swap d k (snd x) (snd y)) as Sw. rewrite P in Sw.
    rewrite (cov_zero _ _ P), (cov_zero _ _ Sw). split; reflexivity.
Qed.

(* the grid evaluator at the cell (iv, jv, k, o) *)
Lemma eval_cell_cov ufld a b ipas dlo dhi means :
  (1 <= ipas)%nat -> (ipas < d_npas d)%nat ->
  let PC := {| p_w1 := get_weight cf a; p_w2 := get_weight cf b; p_dlo := dlo; p_dhi := dhi; p_ipas := ipas; p_orient := Oplus; p_coinc := false |} in
  fsum ufld adr (evaluate cf (d_npas d) means PC a b) ==
  if Nat.eqb ipas k then asym_term ufld (d_npas d) PC a b (ww a b) iv jv o else 0.
Proof.
  intros H1 H2. cbv zeta.
  assert (E : forall PC, evaluate cf (d_npas d) means PC a b = flat_map (eval_asym (d_npas d) PC a b (p_w1 PC * p_w2 PC)) (seq 0 (c_nvar cf)))
    by (intro PC; unfold evaluate; destruct Hcalc as [Ec|Ec]; rewrite Ec; reflexivity).
  rewrite E. cbn [p_w1 p_w2]. fold (ww a b).
  match goal with |- context [eval_asym _ ?pc _ _ _] => set (PC := pc) end.
  assert (HPO : p_orient PC <> Ozero) by (cbn; discriminate).
  destruct (Nat.eqb_spec ipas k) as [->|Hne].
  - assert (HPC : (p_ipas PC < d_npas d)%nat) by exact Hkn.
    exact (fsum_eval_asym_at ufld (d_npas d) PC a b (ww a b) HPC HPO iv jv o (c_nvar cf) Hj Hi Ho).
  - apply fsum_eval_asym_other; cbn [PC p_ipas p_orient]; try assumption; try discriminate; auto.
Qed.

(* C12_grid_eq_general for the covariance: raw accumulators of lag k, side o *)
Lemma grid_eq_general_cov means' :
  let cg := nth adr (accumulate1 cf d cells) cell0 in
  let cr := nth adr (apply_upds (zero_arr cf d) (grid_updates cf (d_npas d) (sqrt_lo (d_dpas d * d_dpas d)) (sqrt_hi (d_dpas d * d_dpas d)) means' nx cells g)) cell0 in
  a_sw cg == a_sw cr /\ a_glo cg == a_glo cr /\ a_ghi cg == a_ghi cr.
Proof.
  cbv zeta. pose proof D_pos as HD.
  assert (Hps0 : 0 <= d_psmin d) by lra.
  assert (Htol0 : 0 <= d_tol d) by lra.
  assert (Hco : 0 < Qred (dot (d_codir d) (d_codir d))) by (rewrite Qred_correct, Hcodir; exact HD).
  assert (Hdim : Forall (same_dim (length dx)) cells).
  { apply Forall_forall. intros s Hs. apply In_nth_error in Hs. destruct Hs as [r Hr]. unfold same_dim.
    rewrite (Hcoord r s Hr). apply coord_length; [exact Lx0|]. rewrite rank_to_index_length. exact Lnx. }
  assert (Hasym : is_asym (c_calc cf) = true) by (destruct Hcalc as [E|E]; rewrite E; reflexivity).
  assert (Hdir : forall a b, In a cells -> In b cells ->
            coincident d a b = true \/ ~ g_dproj (geo_pair d a b) == 0 \/ pair_in d k a b = false).
  { intros a b Ha Hb. apply In_nth_error in Ha. destruct Ha as [ra Ha]. apply In_nth_error in Hb. destruct Hb as [rb Hb].
    destruct (pair_in d k a b) eqn:P; [|right; right; reflexivity].
    right; left. apply (in_lag_directed (ra, a) (rb, b)); [apply nodes_in; exact Ha|apply nodes_in; exact Hb|exact P]. }
  destruct (accumulate1_cov_unordered cf d Hcalc Hloop Hchk Hdp Htol0 Hps0 Hco (length dx) cells iv jv k o Hdim Hj Hi Hkn Ho Hdir) as (A1 & A2 & A3).
  fold adr in A1, A2, A3.
  assert (Hadr : (adr < dir_size true (d_npas d) (c_nvar cf))%nat) by (apply asym_address_bound; assumption).
  unfold zero_arr. rewrite Hasym.
  destruct (apply_upds_sums _ (grid_updates cf (d_npas d) (sqrt_lo (d_dpas d * d_dpas d)) (sqrt_hi (d_dpas d * d_dpas d)) means' nx cells g) adr Hadr)
    as (S1 & _ & _ & S4 & S5).
  cbn [spec_cell a_sw a_glo a_ghi] in S1, S4, S5. unfold sum_sw, sum_glo, sum_ghi in S1, S4, S5.
  change (sumQ (map ?f (at_addr adr ?us))) with (fsum f adr us) in S1, S4, S5.
  rewrite A1, A2, A3, S1, S4, S5.
  assert (G1 : pair_sum (fun a b => fst (cov_pair cf d iv jv k o a b)) (filter (usable cf) cells) ==
               sumQ (map (fun x : nat * sample => if usable cf (snd x) then match grid_node nx cells (fst x) (scaleZ (Z.of_nat k) g) with
                             | Some b => if usable cf b then fst (Vc (snd x) b) else 0 | None => 0 end else 0) (nodes_of cells))).
  { apply (general_as_shift cf d nx dx x0 g cells Hps Htol Hbench Hcyl Hcodir Hdp Hdp2 Hdx Lnx Lg Lx0 Hcoord Hlen k Hk1 Hkn
             (fun a b => fst (cov_pair cf d iv jv k o a b)) (fun a b => fst (Vc a b))).
    - intros a b E. rewrite (cov_zero a b E). reflexivity.
    - intros x y Hx Hy R. rewrite (cov_reach x y Hx Hy R). reflexivity.
    - intros x y Hx Hy. apply (cov_sym_nodes x y Hx Hy). }
  assert (G2 : pair_sum (fun a b => snd (cov_pair cf d iv jv k o a b)) (filter (usable cf) cells) ==
               sumQ (map (fun x : nat * sample => if usable cf (snd x) then match grid_node nx cells (fst x) (scaleZ (Z.of_nat k) g) with
                             | Some b => if usable cf b then snd (Vc (snd x) b) else 0 | None => 0 end else 0) (nodes_of cells))).
  { apply (general_as_shift cf d nx dx x0 g cells Hps Htol Hbench Hcyl Hcodir Hdp Hdp2 Hdx Lnx Lg Lx0 Hcoord Hlen k Hk1 Hkn
             (fun a b => snd (cov_pair cf d iv jv k o a b)) (fun a b => snd (Vc a b))).
    - intros a b E. rewrite (cov_zero a b E). reflexivity.
    - intros x y Hx Hy R. rewrite (cov_reach x y Hx Hy R). reflexivity.
    - intros x y Hx Hy. apply (cov_sym_nodes x y Hx Hy). }
  rewrite G1, G2.
  split; [|split]; symmetry.
  - apply (grid_as_shift_gen cf (d_npas d) nx cells g k adr Hk1 Hkn u_sw (fun a b => fst (Vc a b))). intros a b ipas H1 H2.
    rewrite (eval_cell_cov u_sw a b ipas _ _ means' H1 H2).
    destruct (Nat.eqb ipas k); [|reflexivity]. unfold asym_term, Vc, t1_of, t2_of, prod1, wterm, padd. cbn [p_coinc p_orient flip].
    destruct (orient_eqb Oplus o); destruct (orient_eqb Ominus o);
      destruct (zval a iv); destruct (zval b jv); destruct (zval b iv); destruct (zval a jv); cbn [fst snd au mk_upd u_sw]; ring.
  - apply (grid_as_shift_gen cf (d_npas d) nx cells g k adr Hk1 Hkn u_glo (fun a b => snd (Vc a b))). intros a b ipas H1 H2.
    rewrite (eval_cell_cov u_glo a b ipas _ _ means' H1 H2).
    destruct (Nat.eqb ipas k); [|reflexivity]. unfold asym_term, Vc, t1_of, t2_of, prod1, wterm, padd. cbn [p_coinc p_orient flip].
    destruct (orient_eqb Oplus o); destruct (orient_eqb Ominus o);
      destruct (zval a iv); destruct (zval b jv); destruct (zval b iv); destruct (zval a jv); cbn [fst snd au mk_upd u_glo]; ring.
  - apply (grid_as_shift_gen cf (d_npas d) nx cells g k adr Hk1 Hkn u_ghi (fun a b => snd (Vc a b))). intros a b ipas H1 H2.
    rewrite (eval_cell_cov u_ghi a b ipas _ _ means' H1 H2).
    destruct (Nat.eqb ipas k); [|reflexivity]. unfold asym_term, Vc, t1_of, t2_of, prod1, wterm, padd. cbn [p_coinc p_orient flip].
    destruct (orient_eqb Oplus o); destruct (orient_eqb Ominus o);
      destruct (zval a iv); destruct (zval b jv); destruct (zval b iv); destruct (zval a jv); cbn [fst snd au mk_upd u_ghi]; ring.
Qed.
End GridCov.

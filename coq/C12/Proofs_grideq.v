(* C12 proofs, part 16: on gridded data the grid-specialised algorithm and the general algorithm accumulate the same sums
   (variogram; direction = a grid increment, zero angular tolerance, lag = length of the increment, no distance tolerance). *)
From Coq Require Import List ZArith QArith Qabs Qround Qminmax Bool Lqa Lia Permutation Sorted.
From Gst Require Import lib.QAux C12.Model C12.ModelExt C12.Spec C12.Proofs_enum C12.Proofs_lag C12.Proofs_acc C12.Proofs_geom C12.Proofs_vg C12.Proofs_main
  C12.Proofs_bysample C12.Proofs_sym C12.Proofs_ext C12.Proofs_grid.
Import ListNotations.
Local Open Scope Q_scope.

(* ---------------------------------------------------------------- vectors *)
Fixpoint qv (m : list Z) (dx : list Q) : list Q :=
  match m, dx with i :: m', e :: dx' => inject_Z i * e :: qv m' dx' | _, _ => [] end.
Fixpoint coord (x0 dx : list Q) (i : list Z) : list Q :=
  match x0, dx, i with o :: x0', e :: dx', k :: i' => (o + inject_Z k * e) :: coord x0' dx' i' | _, _, _ => [] end.

Lemma vsub_coord x0 dx ia ib :
  length ia = length dx -> length ib = length dx -> length x0 = length dx ->
  veq (vsub (coord x0 dx ib) (coord x0 dx ia)) (qv (vsubZ ib ia) dx).
Proof.
  revert x0 ia ib. induction dx as [|e dx IH]; intros x0 ia ib La Lb L0;
    destruct x0 as [|o x0]; destruct ia as [|i ia]; destruct ib as [|j ib]; cbn [length] in *; try discriminate;
    unfold vsubZ; cbn [vsub coord qv vaddZ map]; try constructor.
  - rewrite inject_Z_plus, inject_Z_opp. ring.
  - apply IH; congruence.
Qed.

(* dot (u - lam c) (u - lam c) = u.u - 2 lam u.c + lam^2 c.c *)
Fixpoint vres (lam : Q) (u c : list Q) : list Q :=
  match u, c with x :: u', y :: c' => (x - lam * y) :: vres lam u' c' | _, _ => [] end.
Lemma dot_vres lam u c : length u = length c ->
  dot (vres lam u c) (vres lam u c) == dot u u - 2 * lam * dot u c + lam * lam * dot c c.
Proof.
  revert c. induction u as [|x u IH]; intros c L; destruct c as [|y c]; cbn in *; try discriminate; [ring|].
  rewrite IH by congruence. ring.
Qed.
Lemma dot_self_zero w : dot w w == 0 -> Forall (fun x => x == 0) w.
Proof.
  induction w as [|x w IH]; intro H; [constructor|]. cbn [dot] in H.
  pose proof (dot_self_nonneg w) as Hw.
  assert (Hx : x == 0) by nra. assert (Hw0 : dot w w == 0) by nra.
  constructor; [exact Hx|apply IH; exact Hw0].
Qed.
Lemma vres_zero lam u c : length u = length c -> Forall (fun x => x == 0) (vres lam u c) -> veq u (map (Qmult lam) c).
Proof.
  revert c. induction u as [|x u IH]; intros c L H; destruct c as [|y c]; cbn in *; try discriminate; [constructor|].
  inversion H as [|? ? Hx Hr]; subst. constructor; [lra|apply IH; [congruence|exact Hr]].
Qed.

(* Cauchy-Schwarz with equality: the vector is a multiple of the direction *)
Lemma cs_equality u c : length u = length c -> 0 < dot c c ->
  dot u u * dot c c <= dot u c * dot u c -> veq u (map (Qmult (dot u c / dot c c)) c).
Proof.
  intros L Hc H. apply vres_zero; [exact L|]. apply dot_self_zero.
  rewrite (dot_vres _ u c L).
  pose proof (dot_self_nonneg (vres (dot u c / dot c c) u c)) as Hn. rewrite (dot_vres _ u c L) in Hn.
  assert (E : dot u u - 2 * (dot u c / dot c c) * dot u c + dot u c / dot c c * (dot u c / dot c c) * dot c c
              == (dot u u * dot c c - dot u c * dot u c) / dot c c) by (field; lra).
  rewrite E in *.
  assert (Hle : (dot u u * dot c c - dot u c * dot u c) / dot c c <= 0).
  { apply Qle_shift_div_r; [exact Hc|]. lra. }
  lra.
Qed.

Lemma dot_scale lam c : dot (map (Qmult lam) c) (map (Qmult lam) c) == lam * lam * dot c c.
Proof. induction c as [|y c IH]; cbn [map dot]; [ring|]. rewrite IH. ring. Qed.
Lemma dot_scale_l lam c : dot (map (Qmult lam) c) c == lam * dot c c.
Proof. induction c as [|y c IH]; cbn [map dot]; [ring|]. rewrite IH. ring. Qed.

Lemma qv_scale k g dx : veq (qv (scaleZ k g) dx) (map (Qmult (inject_Z k)) (qv g dx)).
Proof.
  revert dx. induction g as [|i g IH]; intro dx; destruct dx as [|e dx]; cbn [scaleZ map qv]; try constructor.
  - rewrite inject_Z_mult. ring.
  - apply IH.
Qed.
Lemma qv_length m dx : length m = length dx -> length (qv m dx) = length dx.
Proof. revert dx. induction m as [|i m IH]; intros dx L; destruct dx as [|e dx]; cbn in *; try discriminate; [reflexivity|]. rewrite IH; congruence. Qed.
Lemma veq_length u v : veq u v -> length u = length v.
Proof. induction 1; cbn; congruence. Qed.
Lemma veq_sym u v : veq u v -> veq v u.
Proof. induction 1; constructor; [symmetry; assumption|assumption]. Qed.
Lemma veq_trans u v w : veq u v -> veq v w -> veq u w.
Proof. intro H. revert w. induction H as [|x y l l' E _ IH]; intros w Hw; inversion Hw; subst; constructor; [lra|apply IH; assumption]. Qed.

(* a multiple of the increment, componentwise over the integers *)
Lemma qv_multiple m g dx (k : Z) :
  length m = length dx -> length g = length dx -> Forall (fun e => 0 < e) dx ->
  veq (qv m dx) (map (Qmult (inject_Z k)) (qv g dx)) -> m = scaleZ k g.
Proof.
  revert m g. induction dx as [|e dx IH]; intros m g Lm Lg Hpos H; destruct m as [|i m]; destruct g as [|j g]; cbn in *; try discriminate; [reflexivity|].
  inversion Hpos as [|? ? He Hr]; subst. inversion H as [|? ? ? ? E Ht]; subst.
  f_equal.
  - assert (Eq : inject_Z i == inject_Z (k * j)) by (rewrite inject_Z_mult; nra).
    unfold Qeq in Eq. cbn in Eq. lia.
  - apply IH; try congruence; assumption.
Qed.

Lemma map_mult_eq lam mu c : lam == mu -> veq (map (Qmult lam) c) (map (Qmult mu) c).
Proof. intro E. induction c as [|y c IH]; cbn [map]; constructor; [rewrite E; reflexivity|exact IH]. Qed.
Lemma dot_veq_r a b b' : veq b b' -> dot a b == dot a b'.
Proof.
  intro H. revert a. induction H as [|x y l l' E _ IH]; intro a; destruct a as [|z a]; cbn [dot]; try reflexivity.
  rewrite E, IH. reflexivity.
Qed.

Section GridEq.
Variables (cf : cfg) (d : dirp) (nx : list nat) (dx x0 : list Q) (g : list Z) (cells : list sample).
Hypothesis Hps : d_psmin d == 1.
Hypothesis Htol : d_tol d == 0.
Hypothesis Hbench : d_bench d = None.
Hypothesis Hcyl : d_cyl d = None.
Hypothesis Hcodir : d_codir d = qv g dx.
Hypothesis Hdp : 0 < d_dpas d.
Hypothesis Hdp2 : d_dpas d * d_dpas d == dot (qv g dx) (qv g dx).
Hypothesis Hdx : Forall (fun e => 0 < e) dx.
Hypothesis Lnx : length nx = length dx.
Hypothesis Lg : length g = length dx.
Hypothesis Lx0 : length x0 = length dx.
Hypothesis Hcoord : forall r s, nth_error cells r = Some s -> s_x s = coord x0 dx (rank_to_index nx r).

Let c := qv g dx.
Lemma dn2_pos : 0 < dot c c.
Proof. unfold c. rewrite <- Hdp2. nra. Qed.

(* geometric summary of the pair of the nodes ra, rb *)
Lemma geo_nodes ra rb a b :
  nth_error cells ra = Some a -> nth_error cells rb = Some b ->
  let u := qv (vsubZ (rank_to_index nx rb) (rank_to_index nx ra)) dx in
  g_d2 (geo_pair d a b) == dot u u /\ g_dproj (geo_pair d a b) == dot u c /\ g_dn2 (geo_pair d a b) == dot c c.
Proof.
  intros Ha Hb. cbv zeta. unfold geo_pair, geo_of. cbn [g_d2 g_dproj g_dn2]. rewrite !Qred_correct, Hcodir.
  rewrite (Hcoord ra a Ha), (Hcoord rb b Hb).
  pose proof (vsub_coord x0 dx (rank_to_index nx ra) (rank_to_index nx rb)) as V.
  rewrite !rank_to_index_length in V. specialize (V Lnx Lnx Lx0).
  split; [|split].
  - apply dot_veq2. exact V.
  - apply dot_veq. exact V.
  - reflexivity.
Qed.

Lemma pair_in_grid ra rb a b k :
  nth_error cells ra = Some a -> nth_error cells rb = Some b -> (1 <= k)%nat -> (k < d_npas d)%nat ->
  (pair_in d k a b = true <->
   vsubZ (rank_to_index nx rb) (rank_to_index nx ra) = scaleZ (Z.of_nat k) g \/
   vsubZ (rank_to_index nx rb) (rank_to_index nx ra) = scaleZ (- Z.of_nat k) g).
Proof.
  intros Ha Hb Hk1 Hkn.
  destruct (geo_nodes ra rb a b Ha Hb) as (E2 & Ep & En). cbv zeta in E2, Ep.
  set (m := vsubZ (rank_to_index nx rb) (rank_to_index nx ra)) in *.
  set (u := qv m dx) in *.
  pose proof dn2_pos as Hc.
  assert (Lm : length m = length dx) by (unfold m; rewrite vsubZ_length; rewrite !rank_to_index_length; auto).
  assert (Lu : length u = length c) by (unfold u, c; rewrite !qv_length; auto).
  set (kq := inject_Z (Z.of_nat k)).
  assert (Hkq : 1 <= kq) by (unfold kq; change 1 with (inject_Z 1); rewrite <- Zle_Qle; lia).
  unfold pair_in. rewrite andb_true_iff, accepted_b_spec, (in_class_b_spec d).
  unfold accepted, in_class. cbv zeta. rewrite Hbench, Hcyl. fold kq.
  set (G := geo_pair d a b) in *.
  set (del2 := d_dpas d * d_dpas d) in *.
  assert (Edel : del2 == dot c c) by (unfold del2, c; exact Hdp2).
  split.
  - intros (Hacc & _ & _ & _ & T1 & T2).
    assert (Ed2 : g_d2 G == kq * kq * dot c c).
    { destruct T1 as [T1|T1]; [exfalso; lra|]. rewrite <- Edel.
      assert (A : (kq - d_tol d) * (kq - d_tol d) * del2 == kq * kq * del2) by (rewrite Htol; ring).
      assert (B : (kq + d_tol d) * (kq + d_tol d) * del2 == kq * kq * del2) by (rewrite Htol; ring).
      lra. }
    assert (Hkk : 1 <= kq * kq) by nra.
    assert (Hd2pos : 0 < g_d2 G) by (rewrite Ed2; nra).
    destruct Hacc as [Hacc|(Hacc & _)]; [exfalso; lra|].
    assert (Hcs : dot u u * dot c c <= dot u c * dot u c).
    { rewrite <- E2, <- Ep, <- En.
      assert (A : d_psmin d * d_psmin d * (g_d2 G * g_dn2 G) == g_d2 G * g_dn2 G) by (rewrite Hps; ring). lra. }
    pose proof (cs_equality u c Lu Hc Hcs) as Hv.
    set (lam := dot u c / dot c c) in *.
    assert (Elam : lam * lam == kq * kq).
    { assert (A : dot u u == lam * lam * dot c c) by (rewrite (dot_veq2 _ _ Hv); apply dot_scale).
      rewrite <- E2, Ed2 in A. nra. }
    assert (Hl : lam == kq \/ lam == - kq).
    { assert (F : (lam - kq) * (lam + kq) == 0) by (ring_simplify; lra).
      destruct (Qeq_dec lam kq) as [H1|H1]; [left; exact H1|right].
      assert (lam + kq == 0); [|lra].
      destruct (Qeq_dec (lam + kq) 0) as [H2|H2]; [exact H2|]. exfalso. apply H1.
      assert (H3 : ~ lam - kq == 0 -> False).
      { intro H4. apply (Qmult_integral_l _ _ H4) in F. contradiction. }
      destruct (Qeq_dec (lam - kq) 0) as [H5|H5]; [lra|exfalso; exact (H3 H5)]. }
    destruct Hl as [Hl|Hl]; [left|right]; apply (qv_multiple m g dx); auto.
    + eapply veq_trans; [exact Hv|]. apply map_mult_eq. exact Hl.
    + eapply veq_trans; [exact Hv|]. apply map_mult_eq. rewrite Hl. rewrite inject_Z_opp. reflexivity.
  - intro Hm.
    assert (Hz : exists z, (z = Z.of_nat k \/ z = (- Z.of_nat k)%Z) /\ m = scaleZ z g) by (destruct Hm as [H|H]; eauto).
    destruct Hz as (z & Hz & Em).
    assert (Hv : veq u (map (Qmult (inject_Z z)) c)) by (unfold u; rewrite Em; apply qv_scale).
    assert (Ezz : inject_Z z * inject_Z z == kq * kq).
    { destruct Hz as [->| ->]; [reflexivity|]. rewrite inject_Z_opp. fold kq. ring. }
    assert (Ed2 : g_d2 G == kq * kq * dot c c).
    { rewrite E2, (dot_veq2 _ _ Hv), dot_scale, Ezz. reflexivity. }
    assert (Edp : g_dproj G == inject_Z z * dot c c).
    { rewrite Ep, (dot_veq _ _ c Hv), dot_scale_l. reflexivity. }
    split.
    + right. split; [|split; intros; discriminate].
      rewrite Hps, Ed2, Edp, En. setoid_replace (inject_Z z * dot c c * (inject_Z z * dot c c)) with (inject_Z z * inject_Z z * dot c c * dot c c) by ring.
      rewrite Ezz. nra.
    + split; [exact Hkn|]. rewrite Ed2, Edel, Htol.
      assert (Hkk : 1 <= kq * kq) by nra.
      assert (HkD : 0 < kq * dot c c) by nra.
      assert (HkkD : 0 < kq * kq * dot c c) by nra.
      split; [|split; [|split]].
      * right. ring_simplify. nra.
      * ring_simplify. nra.
      * right. ring_simplify. nra.
      * ring_simplify. nra.
Qed.

(* ---- list tools ---- *)
End GridEq.

Lemma all_pairs_map {A B} (h : A -> B) l : all_pairs (map h l) = map (fun p => (h (fst p), h (snd p))) (all_pairs l).
Proof.
  induction l as [|a r IH]; [reflexivity|]. cbn [map all_pairs]. rewrite map_app, IH, !map_map. reflexivity.
Qed.
Lemma pair_sum_map {A B} (f : B -> B -> Q) (h : A -> B) l : pair_sum f (map h l) = pair_sum (fun x y => f (h x) (h y)) l.
Proof. unfold pair_sum. rewrite all_pairs_map, map_map. reflexivity. Qed.
Lemma filter_map_comm {A B} (p : B -> bool) (h : A -> B) l : filter p (map h l) = map h (filter (fun x => p (h x)) l).
Proof. induction l as [|a r IH]; [reflexivity|]. cbn. destruct (p (h a)); cbn; rewrite IH; reflexivity. Qed.
(* sum over all ordered pairs = sum over unordered pairs of both orders + diagonal *)
Lemma double_sum_pairs {A} (S : A -> A -> Q) l :
  sumQ (map (fun a => sumQ (map (fun b => S a b) l)) l) ==
  pair_sum (fun a b => S a b + S b a) l + sumQ (map (fun a => S a a) l).
Proof.
  induction l as [|x r IH]; [reflexivity|].
  cbn [map]. rewrite !sumQ_cons, pair_sum_cons.
  assert (E1 : sumQ (map (fun a => sumQ (map (fun b => S a b) (x :: r))) r) ==
               sumQ (map (fun a => S a x) r) + sumQ (map (fun a => sumQ (map (fun b => S a b) r)) r)).
  { rewrite <- sumQ_plus. apply sumQ_map_ext. intros a _. cbn [map]. rewrite sumQ_cons. reflexivity. }
  assert (E2 : sumQ (map (fun b => S x b + S b x) r) == sumQ (map (fun b => S x b) r) + sumQ (map (fun a => S a x) r)).
  { apply sumQ_plus. }
  rewrite E1, E2, IH. ring.
Qed.
Lemma sum_key_find {A} (key : A -> nat) (t : nat) (f : A -> Q) l :
  NoDup (map key l) ->
  sumQ (map (fun b => if Nat.eqb (key b) t then f b else 0) l) ==
  match find (fun b => Nat.eqb (key b) t) l with Some b => f b | None => 0 end.
Proof.
  induction l as [|x r IH]; intro Hn; [reflexivity|].
  cbn [map find] in *. inversion Hn as [|? ? Hx Hr]; subst. rewrite sumQ_cons.
  destruct (Nat.eqb_spec (key x) t) as [E|E].
  - rewrite sumQ_zero; [ring|]. intros b Hb. destruct (Nat.eqb_spec (key b) t) as [E'|]; [|reflexivity].
    exfalso. apply Hx. rewrite E, <- E'. apply in_map. exact Hb.
  - rewrite IH by exact Hr. ring.
Qed.

Definition nodes_of (cells : list sample) : list (nat * sample) := combine (seq 0 (length cells)) cells.
Lemma combine_seq_snd {A} s (l : list A) : map snd (combine (seq s (length l)) l) = l.
Proof. revert s. induction l as [|a r IH]; intro s; [reflexivity|]. cbn. rewrite IH. reflexivity. Qed.
Lemma combine_seq_fst {A} s (l : list A) : map fst (combine (seq s (length l)) l) = seq s (length l).
Proof. revert s. induction l as [|a r IH]; intro s; [reflexivity|]. cbn. rewrite IH. reflexivity. Qed.
Lemma combine_seq_in {A} s (l : list A) r a : In (r, a) (combine (seq s (length l)) l) <-> (s <= r)%nat /\ nth_error l (r - s) = Some a.
Proof.
  revert s. induction l as [|x t IH]; intro s; cbn [length seq combine].
  - split; [intros []|]. intros [_ H]. destruct (r - s)%nat; discriminate.
  - split.
    + intros [E|H].
      * inversion E; subst. rewrite Nat.sub_diag. split; [lia|reflexivity].
      * apply IH in H. destruct H as [H1 H2]. split; [lia|]. replace (r - s)%nat with (S (r - S s)) by lia. exact H2.
    + intros [H1 H2]. destruct (Nat.eq_dec r s) as [->|Hne].
      * rewrite Nat.sub_diag in H2. inversion H2; subst. left; reflexivity.
      * right. apply IH. split; [lia|]. replace (r - s)%nat with (S (r - S s)) in H2 by lia. exact H2.
Qed.
Lemma nodes_in cells r a : In (r, a) (nodes_of cells) <-> nth_error cells r = Some a.
Proof. unfold nodes_of. rewrite combine_seq_in, Nat.sub_0_r. split; [intros [_ H]; exact H|intro H; split; [lia|exact H]]. Qed.
Lemma find_rank cells t : find (fun b : nat * sample => Nat.eqb (fst b) t) (nodes_of cells) = match nth_error cells t with Some a => Some (t, a) | None => None end.
Proof.
  unfold nodes_of. 
  assert (G : forall s l, find (fun b : nat * sample => Nat.eqb (fst b) t) (combine (seq s (length l)) l) =
                          if Nat.leb s t then match nth_error l (t - s) with Some a => Some (t, a) | None => None end else None).
  { intros s l. revert s. induction l as [|x r IH]; intro s; cbn [length seq combine find].
    - destruct (Nat.leb s t); [|reflexivity]. destruct (t - s)%nat; reflexivity.
    - cbn [fst]. destruct (Nat.eqb_spec s t) as [->|Hne].
      + rewrite Nat.leb_refl, Nat.sub_diag. reflexivity.
      + rewrite IH. destruct (Nat.leb_spec (S s) t), (Nat.leb_spec s t); try lia; try reflexivity.
        replace (t - s)%nat with (S (t - S s)) by lia. reflexivity. }
  rewrite G. cbn [Nat.leb]. rewrite Nat.sub_0_r. reflexivity.
Qed.

(* vectors of indices *)
Lemma vaddZ_vsubZ a b : length a = length b -> vaddZ a (vsubZ b a) = b.
Proof.
  unfold vsubZ. revert b. induction a as [|x a IH]; intros b L; destruct b as [|y b]; cbn in *; try discriminate; [reflexivity|].
  f_equal; [lia|]. apply IH. congruence.
Qed.
Lemma vsubZ_vaddZ a sh : length a = length sh -> vsubZ (vaddZ a sh) a = sh.
Proof.
  unfold vsubZ. revert sh. induction a as [|x a IH]; intros sh L; destruct sh as [|y sh]; cbn in *; try discriminate; [reflexivity|].
  f_equal; [lia|]. apply IH. congruence.
Qed.
Lemma scaleZ_length k g : length (scaleZ k g) = length g.
Proof. apply map_length. Qed.

Lemma pair_sum_filter {A} (f : A -> A -> Q) (p : A -> bool) l :
  pair_sum f (filter p l) == pair_sum (fun a b => if p a && p b then f a b else 0) l.
Proof.
  unfold pair_sum. rewrite all_pairs_filter.
  induction (all_pairs l) as [|[a b] r IH]; [reflexivity|].
  cbn [filter map fst snd]. destruct (p a && p b); cbn [map]; rewrite ?sumQ_cons, IH; cbn [fst snd]; ring.
Qed.
Lemma scaleZ_opp k g : scaleZ (- k) g = map Z.opp (scaleZ k g).
Proof. unfold scaleZ. rewrite map_map. apply map_ext. intro x. lia. Qed.

Lemma self_opp_zero (l : list Z) : l = map Z.opp l -> Forall (fun z => z = 0%Z) l.
Proof.
  induction l as [|z t IH]; intro E; [constructor|]. cbn [map] in E. injection E as E1 E2.
  constructor; [lia|apply IH; exact E2].
Qed.

Section GridMain.
Variables (cf : cfg) (d : dirp) (nx : list nat) (dx x0 : list Q) (g : list Z) (cells : list sample).
Hypothesis Hps : d_psmin d == 1.
Hypothesis Htol : d_tol d == 0.
Hypothesis Hbench : d_bench d = None.
Hypothesis Hcyl : d_cyl d = None.
Hypothesis Hcodir : d_codir d = qv g dx.
Hypothesis Hdp : 0 < d_dpas d.
Hypothesis Hdp2 : d_dpas d * d_dpas d == dot (qv g dx) (qv g dx).
Hypothesis Hdx : Forall (fun e => 0 < e) dx.
Hypothesis Lnx : length nx = length dx.
Hypothesis Lg : length g = length dx.
Hypothesis Lx0 : length x0 = length dx.
Hypothesis Hcoord : forall r s, nth_error cells r = Some s -> s_x s = coord x0 dx (rank_to_index nx r).
Hypothesis Hlen : length cells = grid_size nx.
Variable k : nat.
Hypothesis Hk1 : (1 <= k)%nat.
Hypothesis Hkn : (k < d_npas d)%nat.

Let sh := scaleZ (Z.of_nat k) g.
Let idx := rank_to_index nx.
Let nodes := nodes_of cells.

Lemma sh_length : length sh = length nx.
Proof. unfold sh. rewrite scaleZ_length. congruence. Qed.

Lemma node_rank_lt r a : In (r, a) nodes -> (r < grid_size nx)%nat.
Proof. intro H. apply nodes_in in H. rewrite <- Hlen. apply nth_error_Some. congruence. Qed.

(* node y is the node reached from node x by the shift: on ranks *)
Lemma shift_iff rx ry s : (rx < grid_size nx)%nat -> (ry < grid_size nx)%nat -> length s = length nx ->
  (vsubZ (idx ry) (idx rx) = s <-> index_to_rank nx (vaddZ (idx rx) s) = Some ry).
Proof.
  intros Hx Hy Ls. unfold idx. split.
  - intros <-. rewrite vaddZ_vsubZ by (rewrite !rank_to_index_length; reflexivity). apply index_rank_inverse. exact Hy.
  - intro E. pose proof (index_rank_inverse nx ry Hy) as E'.
    pose proof (index_to_rank_inj _ _ _ _ E E') as Hv. rewrite <- Hv.
    apply vsubZ_vaddZ. rewrite rank_to_index_length. congruence.
Qed.

(* the shift is not the null vector *)
Lemma sh_not_opp : sh <> map Z.opp sh.
Proof.
  intro E.
  assert (Hz : Forall (fun z => z = 0%Z) sh) by (apply self_opp_zero; exact E).
  pose proof (dn2_pos d dx g Hdp Hdp2) as Hc.
  pose proof (qv_scale (Z.of_nat k) g dx) as Hv. fold sh in Hv.
  assert (Z0 : forall l e, Forall (fun z => z = 0%Z) l -> dot (qv l e) (qv l e) == 0).
  { clear. intros l e Hl. revert e. induction Hl as [|z t Ez _ IH]; intro e; destruct e as [|y e]; cbn [qv dot]; try reflexivity.
    subst z. rewrite IH. change (inject_Z 0) with 0. ring. }
  specialize (Z0 sh dx Hz).
  rewrite (dot_veq2 _ _ Hv), dot_scale in Z0.
  assert (Hkq : 1 <= inject_Z (Z.of_nat k)) by (change 1 with (inject_Z 1); rewrite <- Zle_Qle; lia).
  set (kq := inject_Z (Z.of_nat k)) in *. set (D := dot (qv g dx) (qv g dx)) in *.
  assert (Hkk : 1 <= kq * kq) by nra.
  assert (0 < kq * kq * D) by nra. lra.
Qed.

Definition reaches (x y : nat * sample) : bool :=
  match index_to_rank nx (vaddZ (idx (fst x)) sh) with Some r => Nat.eqb r (fst y) | None => false end.
Lemma reaches_iff x y : In x nodes -> In y nodes ->
  (reaches x y = true <-> vsubZ (idx (fst y)) (idx (fst x)) = sh).
Proof.
  intros Hx Hy. destruct x as [rx a], y as [ry b]. cbn [fst].
  rewrite (shift_iff rx ry sh (node_rank_lt _ _ Hx) (node_rank_lt _ _ Hy) sh_length).
  unfold reaches. cbn [fst]. destruct (index_to_rank nx (vaddZ (idx rx) sh)) as [r|].
  - rewrite Nat.eqb_eq. split; congruence.
  - split; discriminate.
Qed.
Lemma reaches_excl x y : In x nodes -> In y nodes -> reaches x y = true -> reaches y x = true -> False.
Proof.
  intros Hx Hy H1 H2. apply (reaches_iff x y Hx Hy) in H1. apply (reaches_iff y x Hy Hx) in H2.
  apply sh_not_opp. rewrite <- H1 at 2. rewrite vsubZ_opp by (unfold idx; rewrite !rank_to_index_length; reflexivity). symmetry. exact H2.
Qed.
Lemma pair_in_reaches x y : In x nodes -> In y nodes ->
  (pair_in d k (snd x) (snd y) = true <-> reaches x y = true \/ reaches y x = true).
Proof.
  intros Hx Hy. destruct x as [rx a], y as [ry b]. cbn [snd].
  pose proof (proj1 (nodes_in _ _ _) Hx) as Na. pose proof (proj1 (nodes_in _ _ _) Hy) as Nb.
  rewrite (pair_in_grid d nx dx x0 g cells Hps Htol Hbench Hcyl Hcodir Hdp Hdp2 Hdx Lnx Lg Lx0 Hcoord rx ry a b k Na Nb Hk1 Hkn).
  rewrite (reaches_iff _ _ Hx Hy), (reaches_iff _ _ Hy Hx). cbn [fst]. fold idx. fold sh.
  rewrite scaleZ_opp. fold sh.
  split; (intros [H|H]; [left; exact H|right]).
  - rewrite <- (vsubZ_opp (idx ry) (idx rx)) by (unfold idx; rewrite !rank_to_index_length; reflexivity). rewrite H.
    rewrite map_map. rewrite (map_ext _ (fun z => z)) by (intro; lia). apply map_id.
  - rewrite <- (vsubZ_opp (idx rx) (idx ry)) by (unfold idx; rewrite !rank_to_index_length; reflexivity). rewrite H. reflexivity.
Qed.

(* geometry of a pair of nodes k increments apart *)
Lemma reached_geo x y : In x nodes -> In y nodes -> reaches x y = true ->
  let kq := inject_Z (Z.of_nat k) in
  g_d2 (geo_pair d (snd x) (snd y)) == kq * kq * dot (qv g dx) (qv g dx) /\
  g_dproj (geo_pair d (snd x) (snd y)) == kq * dot (qv g dx) (qv g dx).
Proof.
  intros Hx Hy R. cbv zeta. apply (reaches_iff x y Hx Hy) in R.
  destruct x as [rx a], y as [ry b]. cbn [fst snd] in *.
  pose proof (proj1 (nodes_in _ _ _) Hx) as Na. pose proof (proj1 (nodes_in _ _ _) Hy) as Nb.
  destruct (geo_nodes d nx dx x0 g cells Hcodir Lnx Lx0 Hcoord rx ry a b Na Nb) as (E2 & Ep & _). cbv zeta in E2, Ep.
  fold idx in E2, Ep. rewrite R in E2, Ep.
  pose proof (qv_scale (Z.of_nat k) g dx) as Hv. fold sh in Hv.
  split.
  - rewrite E2, (dot_veq2 _ _ Hv), dot_scale. reflexivity.
  - rewrite Ep, (dot_veq _ _ _ Hv), dot_scale_l. reflexivity.
Qed.

(* ---- generic comparison of one accumulator field ---- *)
Variable T V : sample -> sample -> Q.
Hypothesis T_zero : forall a b, pair_in d k a b = false -> T a b == 0.
Hypothesis T_reach : forall x y, In x nodes -> In y nodes -> reaches x y = true -> T (snd x) (snd y) == V (snd x) (snd y).
Hypothesis T_sym : forall x y, In x nodes -> In y nodes -> T (snd x) (snd y) == T (snd y) (snd x).

Definition Sdir (x y : nat * sample) : Q := if reaches x y then T (snd x) (snd y) else 0.
Lemma T_split x y : In x nodes -> In y nodes -> T (snd x) (snd y) == Sdir x y + Sdir y x.
Proof.
  intros Hx Hy. unfold Sdir.
  pose proof (pair_in_reaches x y Hx Hy) as PI. pose proof (reaches_excl x y Hx Hy) as EX.
  destruct (reaches x y) eqn:E1; destruct (reaches y x) eqn:E2.
  - exfalso. apply EX; reflexivity.
  - ring.
  - rewrite (T_sym x y Hx Hy). ring.
  - destruct (pair_in d k (snd x) (snd y)) eqn:EP.
    + exfalso. destruct PI as [PI _]. destruct (PI eq_refl); discriminate.
    + rewrite (T_zero _ _ EP). ring.
Qed.
Lemma S_diag x : In x nodes -> Sdir x x == 0.
Proof.
  intro Hx. unfold Sdir. destruct (reaches x x) eqn:E; [|reflexivity]. exfalso. apply (reaches_excl x x Hx Hx E E).
Qed.

Let usable_n (x : nat * sample) : bool := usable cf (snd x).

(* general algorithm: the sum over unordered pairs = sum over the nodes of the term of the node reached by the shift *)
Lemma general_as_shift :
  pair_sum T (filter (usable cf) cells) ==
  sumQ (map (fun x : nat * sample =>
               if usable_n x then match grid_node nx cells (fst x) sh with
                                  | Some b => if usable cf b then V (snd x) b else 0
                                  | None => 0 end
               else 0) nodes).
Proof.
  assert (Ecells : cells = map snd nodes) by (unfold nodes, nodes_of; rewrite combine_seq_snd; reflexivity).
  rewrite Ecells at 1. rewrite (filter_map_comm (usable cf) snd nodes), pair_sum_map.
  rewrite (pair_sum_filter (fun x y => T (snd x) (snd y)) (fun x => usable cf (snd x)) nodes).
  set (S' := fun x y => if usable_n x && usable_n y then Sdir x y else 0).
  assert (E1 : pair_sum (fun a b => if usable cf (snd a) && usable cf (snd b) then T (snd a) (snd b) else 0) nodes ==
               pair_sum (fun a b => S' a b + S' b a) nodes).
  { unfold pair_sum. apply sumQ_map_ext. intros [x y] Hin. cbn [fst snd].
    assert (Hx : In x nodes /\ In y nodes).
    { clear - Hin. induction nodes as [|a r IH]; [destruct Hin|]. cbn [all_pairs] in Hin. apply in_app_or in Hin. destruct Hin as [H|H].
      - apply in_map_iff in H. destruct H as (b & E & Hb). inversion E; subst. split; [left; reflexivity|right; exact Hb].
      - destruct (IH H). split; right; assumption. }
    destruct Hx as [Hx Hy]. unfold S', usable_n. rewrite (andb_comm (usable cf (snd y)) (usable cf (snd x))).
    destruct (usable cf (snd x) && usable cf (snd y)); [apply T_split; assumption|ring]. }
  rewrite E1.
  pose proof (double_sum_pairs S' nodes) as D.
  assert (Dg : sumQ (map (fun a => S' a a) nodes) == 0).
  { apply sumQ_zero. intros x Hx. unfold S'. destruct (usable_n x && usable_n x); [apply S_diag; exact Hx|reflexivity]. }
  rewrite Dg in D.
  transitivity (sumQ (map (fun a => sumQ (map (fun b => S' a b) nodes)) nodes)); [rewrite D; ring|].
  apply sumQ_map_ext. intros x Hx. unfold S'.
  destruct (usable_n x) eqn:Ux; cbn [andb].
  2:{ apply sumQ_zero. intros; reflexivity. }
  unfold Sdir, reaches, grid_node. fold idx.
  destruct (index_to_rank nx (vaddZ (idx (fst x)) sh)) as [r|] eqn:Er.
  - rewrite (sumQ_map_ext _ (fun b : nat * sample => if Nat.eqb (fst b) r then (if usable_n b then T (snd x) (snd b) else 0) else 0)).
    + rewrite (sum_key_find fst r (fun b => if usable_n b then T (snd x) (snd b) else 0) nodes).
      * unfold nodes at 1. rewrite find_rank.
        destruct (nth_error cells r) as [b|] eqn:Eb; [|reflexivity].
        unfold usable_n. cbn [snd]. destruct (usable cf b); [|reflexivity].
        assert (Hy : In (r, b) nodes) by (apply nodes_in; exact Eb).
        assert (R : reaches x (r, b) = true) by (unfold reaches; fold idx; rewrite Er; cbn [fst]; apply Nat.eqb_refl).
        exact (T_reach x (r, b) Hx Hy R).
      * unfold nodes, nodes_of. rewrite combine_seq_fst. apply seq_NoDup.
    + intros b _. rewrite (Nat.eqb_sym r (fst b)). destruct (Nat.eqb (fst b) r); destruct (usable_n b); reflexivity.
  - apply sumQ_zero. intros b _. destruct (usable_n b); reflexivity.
Qed.
End GridMain.

Lemma sumQ_single_nodup {A} (f : A -> Q) (l : list A) x0 :
  NoDup l -> In x0 l -> (forall x, In x l -> x <> x0 -> f x == 0) -> sumQ (map f l) == f x0.
Proof.
  intros Hn Hin Hz. induction l as [|x r IH]; [destruct Hin|].
  inversion Hn as [|? ? Hx Hr]; subst. cbn [map]. rewrite sumQ_cons.
  destruct Hin as [->|Hin].
  - rewrite sumQ_zero; [ring|]. intros y Hy. apply Hz; [right; exact Hy|]. intro E; subst. contradiction.
  - rewrite IH; auto.
    + rewrite (Hz x); [ring|left; reflexivity|]. intro E; subst. contradiction.
    + intros y Hy Hne. apply Hz; [right; exact Hy|exact Hne].
Qed.
Lemma coord_length x0 dx i : length x0 = length dx -> length i = length dx -> length (coord x0 dx i) = length dx.
Proof.
  revert x0 i. induction dx as [|e dx IH]; intros x0 i L0 Li; destruct x0 as [|o x0]; destruct i as [|j i]; cbn in *; try discriminate; [reflexivity|].
  rewrite IH; congruence.
Qed.

Section GridFinal.
Variables (cf : cfg) (d : dirp) (nx : list nat) (dx x0 : list Q) (g : list Z) (cells : list sample).
Hypothesis Hcalc : c_calc cf = Vg.
Hypothesis Hloop : c_dateLoop cf = false.
Hypothesis Hchk : c_dateChk cf = false.
Hypothesis Hps : d_psmin d == 1.
Hypothesis Htol : d_tol d == 0.
Hypothesis Hbench : d_bench d = None.
Hypothesis Hcyl : d_cyl d = None.
Hypothesis Hcodir : d_codir d = qv g dx.
Hypothesis Hdp : 0 < d_dpas d.
Hypothesis Hdp2 : d_dpas d * d_dpas d == dot (qv g dx) (qv g dx).
Hypothesis Hdx : Forall (fun e => 0 < e) dx.
Hypothesis Lnx : length nx = length dx.
Hypothesis Lg : length g = length dx.
Hypothesis Lx0 : length x0 = length dx.
Hypothesis Hcoord : forall r s, nth_error cells r = Some s -> s_x s = coord x0 dx (rank_to_index nx r).
Hypothesis Hlen : length cells = grid_size nx.
Variables (k iv jv : nat).
Hypothesis Hk1 : (1 <= k)%nat.
Hypothesis Hkn : (k < d_npas d)%nat.
Hypothesis Hj : (jv <= iv)%nat.
Hypothesis Hi : (iv < c_nvar cf)%nat.

Let adr := dir_address false (d_npas d) iv jv k Ozero.
Let sh := scaleZ (Z.of_nat k) g.

(* the grid algorithm: what it adds to the cell of lag k *)
Lemma grid_as_shift ufld (V : sample -> sample -> Q) dlo dhi means :
  (forall a b ipas, (1 <= ipas)%nat -> (ipas < d_npas d)%nat ->
     fsum ufld adr (evaluate cf (d_npas d) means
                      {| p_w1 := get_weight cf a; p_w2 := get_weight cf b;
                         p_dlo := inject_Z (Z.of_nat ipas) * dlo; p_dhi := inject_Z (Z.of_nat ipas) * dhi;
                         p_ipas := ipas; p_orient := Oplus; p_coinc := false |} a b)
     == if Nat.eqb ipas k then V a b else 0) ->
  fsum ufld adr (grid_updates cf (d_npas d) dlo dhi means nx cells g) ==
  sumQ (map (fun x : nat * sample =>
               if usable cf (snd x) then match grid_node nx cells (fst x) sh with
                                         | Some b => if usable cf b then V (snd x) b else 0
                                         | None => 0 end
               else 0) (nodes_of cells)).
Proof.
  intro HV. unfold grid_updates. fold (nodes_of cells). rewrite fsum_flat_map.
  apply sumQ_map_ext. intros [r a] _. cbn [fst snd].
  rewrite <- (unskipped_usable cf a). destruct (skip cf a); cbn [negb]; [reflexivity|].
  rewrite fsum_flat_map.
  rewrite (sumQ_single_nodup _ (seq 1 (d_npas d - 1)) k).
  - fold sh. destruct (grid_node nx cells r sh) as [b|]; [|reflexivity].
    rewrite <- (unskipped_usable cf b). destruct (skip cf b); cbn [negb]; [reflexivity|].
    rewrite (HV a b k Hk1 Hkn), Nat.eqb_refl. reflexivity.
  - apply seq_NoDup.
  - apply in_seq. lia.
  - intros ipas Hin Hne. apply in_seq in Hin.
    destruct (grid_node nx cells r (scaleZ (Z.of_nat ipas) g)) as [b|]; [|reflexivity].
    destruct (skip cf b); [reflexivity|].
    rewrite (HV a b ipas) by lia. rewrite (proj2 (Nat.eqb_neq ipas k) Hne). reflexivity.
Qed.

Lemma plain_vg : plain_sym (c_calc cf).
Proof. left. exact Hcalc. Qed.

(* the evaluator at the cell of lag k *)
Lemma eval_cell ufld a b ipas dlo dhi means :
  (1 <= ipas)%nat -> (ipas < d_npas d)%nat ->
  let PC := {| p_w1 := get_weight cf a; p_w2 := get_weight cf b; p_dlo := dlo; p_dhi := dhi; p_ipas := ipas; p_orient := Oplus; p_coinc := false |} in
  fsum ufld adr (evaluate cf (d_npas d) means PC a b) ==
  if Nat.eqb ipas k
  then match defined2 a b iv jv with
       | Some z => ufld (sym_upd (d_npas d) PC (get_weight cf a * get_weight cf b) phi_vg (fun _ => 0) iv jv z)
       | None => 0 end
  else 0.
Proof.
  intros H1 H2. cbv zeta. rewrite (evaluate_plain cf _ means _ a b plain_vg). rewrite Hcalc. cbn [phi_of p_w1 p_w2].
  destruct (Nat.eqb_spec ipas k) as [->|Hne].
  - match goal with |- context [eval_sym _ ?pc _ _ _ _ _] => set (PC := pc) end.
    assert (HPC : (p_ipas PC < d_npas d)%nat) by exact Hkn.
    pose proof (fsum_eval_sym_at ufld (d_npas d) PC a b (get_weight cf a * get_weight cf b) phi_vg (fun _ => 0) HPC iv jv (c_nvar cf) Hj Hi) as F.
    exact F.
  - apply fsum_eval_sym_other; cbn [p_ipas]; auto.
Qed.

(* C12_grid_eq_general, raw accumulators of lag k: weight and value sums of the two algorithms coincide *)
Lemma grid_eq_general_raw means' :
  let cg := nth adr (accumulate1 cf d cells) cell0 in
  let cr := nth adr (apply_upds (zero_arr cf d) (grid_updates cf (d_npas d) (sqrt_lo (d_dpas d * d_dpas d)) (sqrt_hi (d_dpas d * d_dpas d)) means' nx cells g)) cell0 in
  a_sw cg == a_sw cr /\ a_glo cg == a_glo cr /\ a_ghi cg == a_ghi cr.
Proof.
  cbv zeta.
  pose proof (dn2_pos d dx g Hdp Hdp2) as Hc.
  assert (Hps0 : 0 <= d_psmin d) by lra.
  assert (Htol0 : 0 <= d_tol d) by lra.
  assert (Hco : 0 < Qred (dot (d_codir d) (d_codir d))) by (rewrite Qred_correct, Hcodir; exact Hc).
  assert (Hdim : Forall (same_dim (length dx)) cells).
  { apply Forall_forall. intros s Hs. apply In_nth_error in Hs. destruct Hs as [r Hr]. unfold same_dim.
    rewrite (Hcoord r s Hr). apply coord_length; [exact Lx0|]. rewrite rank_to_index_length. exact Lnx. }
  destruct (accumulate1_vg cf d Hcalc Hchk Hdp Htol0 Hps0 Hco (length dx) cells iv jv k Hloop Hdim Hj Hi Hkn) as (A1 & A2 & A3).
  fold adr in A1, A2, A3.
  assert (Hadr : (adr < dir_size false (d_npas d) (c_nvar cf))%nat) by (apply sym_address_bound; assumption).
  unfold zero_arr. rewrite Hcalc. cbn [is_asym].
  destruct (apply_upds_sums _ (grid_updates cf (d_npas d) (sqrt_lo (d_dpas d * d_dpas d)) (sqrt_hi (d_dpas d * d_dpas d)) means' nx cells g) adr Hadr)
    as (S1 & _ & _ & S4 & S5).
  cbn [spec_cell a_sw a_glo a_ghi] in S1, S4, S5. unfold sum_sw, sum_glo, sum_ghi in S1, S4, S5.
  change (sumQ (map ?f (at_addr adr ?us))) with (fsum f adr us) in S1, S4, S5.
  rewrite A1, A2, A3, S1, S4, S5.
  rewrite (vg_sw_pair_sum cf d Hchk iv jv k cells), (vg_num_pair_sum cf d Hchk iv jv k cells).
  set (Vsw := fun a b : sample => match defined2 a b iv jv with Some _ => get_weight cf a * get_weight cf b | None => 0 end).
  set (Vnum := fun a b : sample => match defined2 a b iv jv with
                                   | Some (z11, z12, z21, z22) => get_weight cf a * get_weight cf b * ((z12 - z11) * (z22 - z21) / 2)
                                   | None => 0 end).
  assert (Tsw : forall a b, vg_pair_sw cf d iv jv k a b == if pair_in d k a b then Vsw a b else 0).
  { intros a b. unfold vg_pair_sw, Vsw. rewrite (dchk_off cf d a b Hchk), andb_true_r. reflexivity. }
  assert (Tnum : forall a b, vg_pair_num cf d iv jv k a b == if pair_in d k a b then Vnum a b else 0).
  { intros a b. unfold vg_pair_num, Vnum. rewrite (dchk_off cf d a b Hchk), andb_true_r. reflexivity. }
  assert (Reach : forall x y, In x (nodes_of cells) -> In y (nodes_of cells) ->
                  reaches nx g k x y = true -> pair_in d k (snd x) (snd y) = true).
  { intros x y Hx Hy R. apply (pair_in_reaches d nx dx x0 g cells Hps Htol Hbench Hcyl Hcodir Hdp Hdp2 Hdx Lnx Lg Lx0 Hcoord Hlen k Hk1 Hkn x y Hx Hy). left; exact R. }
  assert (Gsw : pair_sum (vg_pair_sw cf d iv jv k) (filter (usable cf) cells) ==
                sumQ (map (fun x : nat * sample => if usable cf (snd x) then match grid_node nx cells (fst x) (scaleZ (Z.of_nat k) g) with
                             | Some b => if usable cf b then Vsw (snd x) b else 0 | None => 0 end else 0) (nodes_of cells))).
  { apply (general_as_shift cf d nx dx x0 g cells Hps Htol Hbench Hcyl Hcodir Hdp Hdp2 Hdx Lnx Lg Lx0 Hcoord Hlen k Hk1 Hkn (vg_pair_sw cf d iv jv k) Vsw).
    - intros a b E. rewrite Tsw, E. reflexivity.
    - intros x y Hx Hy R. rewrite Tsw, (Reach x y Hx Hy R). reflexivity.
    - intros x y _ _. apply vg_pair_sw_swap. exact Hchk. }
  assert (Gnum : pair_sum (vg_pair_num cf d iv jv k) (filter (usable cf) cells) ==
                sumQ (map (fun x : nat * sample => if usable cf (snd x) then match grid_node nx cells (fst x) (scaleZ (Z.of_nat k) g) with
                             | Some b => if usable cf b then Vnum (snd x) b else 0 | None => 0 end else 0) (nodes_of cells))).
  { apply (general_as_shift cf d nx dx x0 g cells Hps Htol Hbench Hcyl Hcodir Hdp Hdp2 Hdx Lnx Lg Lx0 Hcoord Hlen k Hk1 Hkn (vg_pair_num cf d iv jv k) Vnum).
    - intros a b E. rewrite Tnum, E. reflexivity.
    - intros x y Hx Hy R. rewrite Tnum, (Reach x y Hx Hy R). reflexivity.
    - intros x y _ _. apply vg_pair_num_swap. exact Hchk. }
  rewrite Gsw, Gnum. fold sh.
  split; [|split]; symmetry.
  - apply (grid_as_shift u_sw Vsw). intros a b ipas H1 H2.
    rewrite (eval_cell u_sw a b ipas _ _ means' H1 H2).
    destruct (Nat.eqb ipas k); [|reflexivity]. unfold Vsw.
    destruct (defined2 a b iv jv) as [[[[z11 z12] z21] z22]|]; reflexivity.
  - apply (grid_as_shift u_glo Vnum). intros a b ipas H1 H2.
    rewrite (eval_cell u_glo a b ipas _ _ means' H1 H2).
    destruct (Nat.eqb ipas k); [|reflexivity]. unfold Vnum.
    destruct (defined2 a b iv jv) as [[[[z11 z12] z21] z22]|]; [|reflexivity].
    cbn [sym_upd mk_upd u_glo phi_vg fst]. ring.
  - apply (grid_as_shift u_ghi Vnum). intros a b ipas H1 H2.
    rewrite (eval_cell u_ghi a b ipas _ _ means' H1 H2).
    destruct (Nat.eqb ipas k); [|reflexivity]. unfold Vnum.
    destruct (defined2 a b iv jv) as [[[[z11 z12] z21] z22]|]; [|reflexivity].
    cbn [sym_upd mk_upd u_ghi phi_vg snd]. ring.
Qed.

(* mean separation of the grid algorithm: the distance sums of lag k are exactly k times the (enclosure of the) increment length
   times the weight sum, i.e. hh = k |increment| *)
Lemma sumQ_scale {A} (c0 : Q) (f : A -> Q) l : sumQ (map (fun x => c0 * f x) l) == c0 * sumQ (map f l).
Proof. induction l as [|x r IH]; [cbn; ring|]. cbn [map]. rewrite !sumQ_cons, IH. ring. Qed.
Lemma grid_hh_exact dlo dhi means' :
  let us := grid_updates cf (d_npas d) dlo dhi means' nx cells g in
  fsum u_hlo adr us == inject_Z (Z.of_nat k) * dlo * fsum u_sw adr us /\
  fsum u_hhi adr us == inject_Z (Z.of_nat k) * dhi * fsum u_sw adr us.
Proof.
  cbv zeta.
  set (Vsw := fun a b : sample => match defined2 a b iv jv with Some _ => get_weight cf a * get_weight cf b | None => 0 end).
  assert (Hsw : forall dl dh a b ipas, (1 <= ipas)%nat -> (ipas < d_npas d)%nat ->
            fsum u_sw adr (evaluate cf (d_npas d) means'
                      {| p_w1 := get_weight cf a; p_w2 := get_weight cf b; p_dlo := inject_Z (Z.of_nat ipas) * dl; p_dhi := inject_Z (Z.of_nat ipas) * dh;
                         p_ipas := ipas; p_orient := Oplus; p_coinc := false |} a b) == if Nat.eqb ipas k then Vsw a b else 0).
  { intros dl dh a b ipas H1 H2. rewrite (eval_cell u_sw a b ipas _ _ means' H1 H2).
    destruct (Nat.eqb ipas k); [|reflexivity]. unfold Vsw. destruct (defined2 a b iv jv) as [[[[z11 z12] z21] z22]|]; reflexivity. }
  rewrite (grid_as_shift u_sw Vsw dlo dhi means' (Hsw dlo dhi)).
  assert (Hscale : forall c0 (V' : sample -> sample -> Q), (forall a b, V' a b == c0 * Vsw a b) ->
            sumQ (map (fun x : nat * sample => if usable cf (snd x) then match grid_node nx cells (fst x) sh with
                                                | Some b => if usable cf b then V' (snd x) b else 0 | None => 0 end else 0) (nodes_of cells))
            == c0 * sumQ (map (fun x : nat * sample => if usable cf (snd x) then match grid_node nx cells (fst x) sh with
                                                | Some b => if usable cf b then Vsw (snd x) b else 0 | None => 0 end else 0) (nodes_of cells))).
  { intros c0 V' HV'. rewrite <- sumQ_scale. apply sumQ_map_ext. intros x _.
    destruct (usable cf (snd x)); [|ring]. destruct (grid_node nx cells (fst x) sh) as [b|]; [|ring].
    destruct (usable cf b); [apply HV'|ring]. }
  split.
  - rewrite (grid_as_shift u_hlo (fun a b => inject_Z (Z.of_nat k) * dlo * Vsw a b) dlo dhi means').
    + apply (Hscale (inject_Z (Z.of_nat k) * dlo) (fun a b => inject_Z (Z.of_nat k) * dlo * Vsw a b)). intros; reflexivity.
    + intros a b ipas H1 H2. rewrite (eval_cell u_hlo a b ipas _ _ means' H1 H2).
      destruct (Nat.eqb_spec ipas k) as [->|]; [|reflexivity]. unfold Vsw.
      destruct (defined2 a b iv jv) as [[[[z11 z12] z21] z22]|]; [|ring].
      cbn [sym_upd mk_upd u_hlo p_dlo]. ring.
  - rewrite (grid_as_shift u_hhi (fun a b => inject_Z (Z.of_nat k) * dhi * Vsw a b) dlo dhi means').
    + apply (Hscale (inject_Z (Z.of_nat k) * dhi) (fun a b => inject_Z (Z.of_nat k) * dhi * Vsw a b)). intros; reflexivity.
    + intros a b ipas H1 H2. rewrite (eval_cell u_hhi a b ipas _ _ means' H1 H2).
      destruct (Nat.eqb_spec ipas k) as [->|]; [|reflexivity]. unfold Vsw.
      destruct (defined2 a b iv jv) as [[[[z11 z12] z21] z22]|]; [|ring].
      cbn [sym_upd mk_upd u_hhi p_dhi]. ring.
Qed.
End GridFinal.

(* ---------------------------------------------------------------- the grid side, any address *)
Section GridShiftGen.
Variables (cf : cfg) (npas : nat) (nx : list nat) (cells : list sample) (g : list Z) (k adr : nat).
Hypothesis Hk1 : (1 <= k)%nat.
Hypothesis Hkn : (k < npas)%nat.
Lemma grid_as_shift_gen ufld (V : sample -> sample -> Q) dlo dhi means :
  (forall a b ipas, (1 <= ipas)%nat -> (ipas < npas)%nat ->
     fsum ufld adr (evaluate cf npas means
                      {| p_w1 := get_weight cf a; p_w2 := get_weight cf b;
                         p_dlo := inject_Z (Z.of_nat ipas) * dlo; p_dhi := inject_Z (Z.of_nat ipas) * dhi;
                         p_ipas := ipas; p_orient := Oplus; p_coinc := false |} a b)
     == if Nat.eqb ipas k then V a b else 0) ->
  fsum ufld adr (grid_updates cf npas dlo dhi means nx cells g) ==
  sumQ (map (fun x : nat * sample =>
               if usable cf (snd x) then match grid_node nx cells (fst x) (scaleZ (Z.of_nat k) g) with
                                         | Some b => if usable cf b then V (snd x) b else 0
                                         | None => 0 end
               else 0) (nodes_of cells)).
Proof.
  intro HV. unfold grid_updates. fold (nodes_of cells). rewrite fsum_flat_map.
  apply sumQ_map_ext. intros [r a] _. cbn [fst snd].
  rewrite <- (unskipped_usable cf a). destruct (skip cf a); cbn [negb]; [reflexivity|].
  rewrite fsum_flat_map.
  rewrite (sumQ_single_nodup _ (seq 1 (npas - 1)) k).
  - destruct (grid_node nx cells r (scaleZ (Z.of_nat k) g)) as [b|]; [|reflexivity].
    rewrite <- (unskipped_usable cf b). destruct (skip cf b); cbn [negb]; [reflexivity|].
    rewrite (HV a b k Hk1 Hkn), Nat.eqb_refl. reflexivity.
  - apply seq_NoDup.
  - apply in_seq. lia.
  - intros ipas Hin Hne. apply in_seq in Hin.
    destruct (grid_node nx cells r (scaleZ (Z.of_nat ipas) g)) as [b|]; [|reflexivity].
    destruct (skip cf b); [reflexivity|].
    rewrite (HV a b ipas) by lia. rewrite (proj2 (Nat.eqb_neq ipas k) Hne). reflexivity.
Qed.
End GridShiftGen.

(* C12 lemmas: see Proofs_enum (sort, pair enumeration), Proofs_lag (lag rank), Proofs_acc (accumulators, sums over pairs),
   Proofs_geom (direction / cylinder / bench test, exchange of the samples, translation of one pair), Proofs_vg (variogram,
   one pair), Proofs_main (whole data set: pairwise sums, permutation, translation), Proofs_out (reported vectors),
   Proofs_misc (sqrt enclosure, symmetry in the variables, generic form), Proofs_cov (covariance), Proofs_bysample (by-sample algorithm), Proofs_sym (permutation, symmetric
   estimators), Proofs_outcov (reported covariance), Proofs_real (lag class over the real square root), Proofs_ext (irregular lags, grid indices, conservation,
   cloud), Proofs_grid (variogram map), Proofs_grideq / Proofs_grideqcov (grid algorithm = general algorithm, variogram / covariance),
   Proofs_gen (generalised variograms), Proofs_fft (index logic of the FFT variogram map). *)
From Gst Require Export C12.Proofs_enum C12.Proofs_lag C12.Proofs_acc C12.Proofs_geom C12.Proofs_vg C12.Proofs_main C12.Proofs_out C12.Proofs_misc C12.Proofs_cov C12.Proofs_bysample C12.Proofs_sym C12.Proofs_outcov C12.Proofs_real C12.Proofs_ext C12.Proofs_grid C12.Proofs_grideq C12.Proofs_grideqcov C12.Proofs_gen C12.Proofs_fft.

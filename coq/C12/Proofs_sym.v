(* C12 proofs, part 11: permutation invariance for the symmetric estimators variogram, madogram, order-4 — every field of
   every accumulator (weight, mean-separation enclosure, value enclosure). *)
From Coq Require Import List ZArith QArith Qabs Qround Qminmax Bool Lqa Lia Permutation.
From Gst Require Import lib.QAux C12.Model C12.Spec C12.Proofs_enum C12.Proofs_lag C12.Proofs_acc C12.Proofs_geom C12.Proofs_vg C12.Proofs_main C12.Proofs_bysample.
Import ListNotations.
Local Open Scope Q_scope.

Definition phi_of (c : calc) : Q -> Q -> Q * Q :=
  match c with Mado => phi_mado | Order4 => phi_o4 | Rodo => phi_rodo | _ => phi_vg end.

Lemma sqrt_lo_proper x y : x == y -> sqrt_lo x = sqrt_lo y.
Proof. intro E. unfold sqrt_lo. assert (H : Qfloor (x * inject_Z (sq_prec * sq_prec)) = Qfloor (y * inject_Z (sq_prec * sq_prec))) by (apply Qfloor_comp; rewrite E; reflexivity). rewrite H. reflexivity. Qed.
Lemma sqrt_hi_proper x y : x == y -> sqrt_hi x = sqrt_hi y.
Proof. intro E. unfold sqrt_hi. assert (H : Qfloor (x * inject_Z (sq_prec * sq_prec)) = Qfloor (y * inject_Z (sq_prec * sq_prec))) by (apply Qfloor_comp; rewrite E; reflexivity). rewrite H. reflexivity. Qed.

(* the pair value does not change when both increments change sign *)
Lemma phi_of_sym c u v u' v' : plain_sym c -> u' == - u -> v' == - v ->
  fst (phi_of c u' v') == fst (phi_of c u v) /\ snd (phi_of c u' v') == snd (phi_of c u v).
Proof.
  intros [E|[E|[E|E]]] Hu Hv; rewrite E; cbn [phi_of phi_vg phi_mado phi_o4 phi_rodo fst snd].
  - rewrite Hu, Hv. split; field.
  - assert (H : Qabs (u' * v') == Qabs (u * v)) by (rewrite Hu, Hv; setoid_replace (- u * - v) with (u * v) by ring; reflexivity).
    rewrite (sqrt_lo_proper _ _ H), (sqrt_hi_proper _ _ H). split; reflexivity.
  - rewrite Hu, Hv. split; field.
  - assert (H : Qabs (u' * v') == Qabs (u * v)) by (rewrite Hu, Hv; setoid_replace (- u * - v) with (u * v) by ring; reflexivity).
    rewrite (sqrt_lo_proper _ _ H), (sqrt_hi_proper _ _ H). split; reflexivity.
Qed.

Section SymPerm.
Variables (cf : cfg) (d : dirp).
Hypothesis Hcalc : plain_sym (c_calc cf).
Hypothesis Hchk : c_dateChk cf = false.
Hypothesis Hdp : 0 < d_dpas d.
Hypothesis Htol : 0 <= d_tol d.
Hypothesis Hps0 : 0 <= d_psmin d.
Hypothesis Hcodir : 0 < Qred (dot (d_codir d) (d_codir d)).

Lemma pair_updates_sym means a b :
  pair_updates cf d means a b =
  match isOK d false (geo_pair d a b) with
  | Rej => []
  | Acc neg =>
      match lag_rank d (g_d2 (geo_pair d a b)) with
      | None => []
      | Some k =>
          flat_map (eval_sym (d_npas d)
                      {| p_w1 := get_weight cf a; p_w2 := get_weight cf b;
                         p_dlo := sqrt_lo (g_d2 (geo_pair d a b)); p_dhi := sqrt_hi (g_d2 (geo_pair d a b)); p_ipas := k;
                         p_orient := if qltb 0 (g_d2 (geo_pair d a b)) && negb neg then Oplus else Ominus;
                         p_coinc := qleb (g_d2 (geo_pair d a b)) 0 |}
                      a b (get_weight cf a * get_weight cf b) (phi_of (c_calc cf)) (fun _ => 0)) (seq 0 (c_nvar cf))
      end
  end.
Proof.
  unfold pair_updates, evaluate. rewrite (asym_false cf Hcalc), Hchk. cbn [andb]. fold (geo_pair d a b).
  destruct (isOK d false (geo_pair d a b)); [reflexivity|].
  destruct (lag_rank d (g_d2 (geo_pair d a b))); [|reflexivity].
  destruct Hcalc as [E|[E|[E|E]]]; rewrite E; reflexivity.
Qed.

Variable ufld : upd -> Q.
Hypothesis ufld_ext : forall u u', u_sw u == u_sw u' -> u_hlo u == u_hlo u' -> u_hhi u == u_hhi u' ->
                                   u_glo u == u_glo u' -> u_ghi u == u_ghi u' -> ufld u == ufld u'.

(* what a pair adds to a cell does not depend on which of its two samples comes first *)
Lemma sym_pair_swap means a b iv jv k :
  (jv <= iv)%nat -> (iv < c_nvar cf)%nat -> (k < d_npas d)%nat ->
  fsum ufld (dir_address false (d_npas d) iv jv k Ozero) (pair_updates cf d means a b) ==
  fsum ufld (dir_address false (d_npas d) iv jv k Ozero) (pair_updates cf d means b a).
Proof.
  intros Hj Hi Hk. rewrite !pair_updates_sym.
  rewrite (isOK_sym_swap d a b).
  destruct (geo_swap d a b) as (E1 & _ & _ & _). rewrite E1.
  destruct (isOK d false (geo_pair d a b)) as [|neg]; [reflexivity|].
  pose proof (g_d2_nonneg d a b) as Hd2.
  destruct (lag_rank d (g_d2 (geo_pair d a b))) as [k'|] eqn:EL; [|reflexivity].
  pose proof (lag_rank_lt d Hdp _ _ Hd2 EL) as Hk'.
  match goal with |- fsum _ _ (flat_map (eval_sym _ ?p1 _ _ _ _ _) _) == fsum _ _ (flat_map (eval_sym _ ?p2 _ _ _ _ _) _) =>
    set (P1 := p1); set (P2 := p2) end.
  destruct (Nat.eq_dec k k') as [<-|Hne].
  - assert (H1 : (p_ipas P1 < d_npas d)%nat) by exact Hk. assert (H2 : (p_ipas P2 < d_npas d)%nat) by exact Hk.
    pose proof (fsum_eval_sym_at ufld (d_npas d) P1 a b (get_weight cf a * get_weight cf b) (phi_of (c_calc cf)) (fun _ => 0) H1 iv jv (c_nvar cf) Hj Hi) as F1.
    pose proof (fsum_eval_sym_at ufld (d_npas d) P2 b a (get_weight cf b * get_weight cf a) (phi_of (c_calc cf)) (fun _ => 0) H2 iv jv (c_nvar cf) Hj Hi) as F2.
    change (p_ipas P1) with k in F1. change (p_ipas P2) with k in F2. rewrite F1, F2.
    rewrite (defined2_swap a b iv jv).
    destruct (defined2 a b iv jv) as [[[[z11 z12] z21] z22]|]; [|reflexivity].
    destruct (phi_of_sym (c_calc cf) (z12 - z11) (z22 - z21) (z11 - z12) (z21 - z22) Hcalc) as [Pf Ps]; [ring|ring|].
    apply ufld_ext; cbn [sym_upd mk_upd u_sw u_hlo u_hhi u_glo u_ghi p_dlo p_dhi P1 P2]; try ring.
    + rewrite Pf. ring.
    + rewrite Ps. ring.
  - rewrite !fsum_eval_sym_other by (cbn [p_ipas]; auto). reflexivity.
Qed.

(* every field of every accumulator of solution 1 is invariant under a permutation of the samples *)
Lemma accumulate1_sym_perm n l l' iv jv k :
  c_dateLoop cf = false -> Forall (same_dim n) l -> Permutation l l' ->
  (jv <= iv)%nat -> (iv < c_nvar cf)%nat -> (k < d_npas d)%nat ->
  fsum ufld (dir_address false (d_npas d) iv jv k Ozero)
       (flat_map (fun p => pair_updates cf d (stat_means cf l) (fst p) (snd p)) (reached1 cf d l)) ==
  fsum ufld (dir_address false (d_npas d) iv jv k Ozero)
       (flat_map (fun p => pair_updates cf d (stat_means cf l') (fst p) (snd p)) (reached1 cf d l')).
Proof.
  intros Hloop Hdim Hp Hj Hi Hk.
  assert (Hdim' : Forall (same_dim n) l') by (eapply Permutation_Forall; eassumption).
  rewrite (fsum_reached1 ufld cf d _ n l _ Hloop Hdp Htol Hdim), (fsum_reached1 ufld cf d _ n l' _ Hloop Hdp Htol Hdim').
  assert (HP : Permutation (filter (usable cf) (sort_x1 l)) (filter (usable cf) (sort_x1 l'))).
  { apply filter_perm. rewrite !sort_perm. exact Hp. }
  rewrite (pair_sum_perm _ _ _ (fun a b => sym_pair_swap (stat_means cf l) a b iv jv k Hj Hi Hk) HP).
  unfold pair_sum. apply sumQ_map_ext. intros [a b] _. cbn [fst snd].
  rewrite !(pair_updates_spec cf d Hcalc Hchk Hdp Hps0 Hcodir _ (stat_means cf l) a b). reflexivity.
Qed.
End SymPerm.

(* cell-level statement *)
Lemma accumulate1_plain_sym_perm cf d n l l' iv jv k :
  plain_sym (c_calc cf) -> c_dateLoop cf = false -> c_dateChk cf = false ->
  0 < d_dpas d -> 0 <= d_tol d -> 0 <= d_psmin d -> 0 < Qred (dot (d_codir d) (d_codir d)) ->
  Forall (same_dim n) l -> Permutation l l' ->
  (jv <= iv)%nat -> (iv < c_nvar cf)%nat -> (k < d_npas d)%nat ->
  cell_eq (nth (dir_address false (d_npas d) iv jv k Ozero) (accumulate1 cf d l) cell0)
          (nth (dir_address false (d_npas d) iv jv k Ozero) (accumulate1 cf d l') cell0).
Proof.
  intros Hc Hloop Hchk Hdp Htol Hps Hco Hdim Hp Hj Hi Hk.
  set (adr := dir_address false (d_npas d) iv jv k Ozero).
  assert (Hadr : (adr < dir_size false (d_npas d) (c_nvar cf))%nat) by (apply sym_address_bound; assumption).
  unfold accumulate1, zero_arr. rewrite (asym_false cf Hc).
  destruct (apply_upds_sums _ (flat_map (fun p => pair_updates cf d (stat_means cf l) (fst p) (snd p)) (reached1 cf d l)) adr Hadr) as (A1 & A2 & A3 & A4 & A5).
  destruct (apply_upds_sums _ (flat_map (fun p => pair_updates cf d (stat_means cf l') (fst p) (snd p)) (reached1 cf d l')) adr Hadr) as (B1 & B2 & B3 & B4 & B5).
  cbn [spec_cell a_sw a_hlo a_hhi a_glo a_ghi] in *.
  unfold cell_eq. rewrite A1, A2, A3, A4, A5, B1, B2, B3, B4, B5.
  unfold sum_sw, sum_hlo, sum_hhi, sum_glo, sum_ghi.
  change (sumQ (map ?f (at_addr adr ?us))) with (fsum f adr us).
  repeat split.
  - apply (accumulate1_sym_perm cf d Hc Hchk Hdp Htol Hps Hco u_sw (fun u u' H1 H2 H3 H4 H5 => H1) n l l' iv jv k Hloop Hdim Hp Hj Hi Hk).
  - apply (accumulate1_sym_perm cf d Hc Hchk Hdp Htol Hps Hco u_hlo (fun u u' H1 H2 H3 H4 H5 => H2) n l l' iv jv k Hloop Hdim Hp Hj Hi Hk).
  - apply (accumulate1_sym_perm cf d Hc Hchk Hdp Htol Hps Hco u_hhi (fun u u' H1 H2 H3 H4 H5 => H3) n l l' iv jv k Hloop Hdim Hp Hj Hi Hk).
  - apply (accumulate1_sym_perm cf d Hc Hchk Hdp Htol Hps Hco u_glo (fun u u' H1 H2 H3 H4 H5 => H4) n l l' iv jv k Hloop Hdim Hp Hj Hi Hk).
  - apply (accumulate1_sym_perm cf d Hc Hchk Hdp Htol Hps Hco u_ghi (fun u u' H1 H2 H3 H4 H5 => H5) n l l' iv jv k Hloop Hdim Hp Hj Hi Hk).
Qed.

(* C12 proofs, part 1: the sort and the pair enumeration of _calculateGeneralSolution1. *)
From Coq Require Import List ZArith QArith Qabs Qround Qminmax Bool Lqa Lia Permutation Sorted.
From Gst Require Import lib.QAux C12.Model C12.Spec.
Import ListNotations.
Local Open Scope Q_scope.

(* ---------------------------------------------------------------- sort_x1 *)
Definition le_x1 (a b : sample) : Prop := x1 a <= x1 b.

Lemma insert_perm a l : Permutation (insert a l) (a :: l).
Proof.
  induction l as [|b r IH]; cbn [insert]; [reflexivity|].
  destruct (qleb (x1 a) (x1 b)); [reflexivity|].
  rewrite IH. apply perm_swap.
Qed.
Lemma sort_perm l : Permutation (sort_x1 l) l.
Proof.
  induction l as [|a r IH]; cbn; [reflexivity|].
  unfold sort_x1 in *. cbn [fold_right]. rewrite insert_perm. apply perm_skip. exact IH.
Qed.

Lemma insert_sorted a l : StronglySorted le_x1 l -> StronglySorted le_x1 (insert a l).
Proof.
  induction l as [|b r IH]; intro Hs; cbn [insert].
  - constructor; constructor.
  - destruct (qleb_spec (x1 a) (x1 b)) as [H|H].
    + constructor; [exact Hs|]. constructor; [exact H|].
      inversion Hs as [|? ? _ Hall]; subst.
      eapply Forall_impl; [|exact Hall]. intros c Hc. unfold le_x1 in *. lra.
    + inversion Hs as [|? ? Hr Hall]; subst.
      constructor; [apply IH; exact Hr|].
      assert (Hp : Permutation (insert a r) (a :: r)) by apply insert_perm.
      eapply Permutation_Forall; [symmetry; exact Hp|].
      constructor; [unfold le_x1; lra|exact Hall].
Qed.
Lemma sort_sorted l : StronglySorted le_x1 (sort_x1 l).
Proof.
  induction l as [|a r IH]; [constructor|].
  unfold sort_x1 in *. cbn [fold_right]. apply insert_sorted. exact IH.
Qed.

(* ---------------------------------------------------------------- pair enumeration *)
Definition unskipped (cf : cfg) (p : sample * sample) : bool := negb (skip cf (fst p)) && negb (skip cf (snd p)).

(* all the pairs the loops of _calculateGeneralSolution1/2 are meant to visit, in loop order:
   without dates (a, b) for b after a; in date mode also (a, b) for b before a *)
Fixpoint loop_pairs (dl : bool) (pre cur : list sample) : list (sample * sample) :=
  match cur with
  | [] => []
  | a :: rest => (if dl then map (pair a) pre else []) ++ map (pair a) rest ++ loop_pairs dl (pre ++ [a]) rest
  end.

Lemma loop_pairs_nodate pre cur : loop_pairs false pre cur = all_pairs cur.
Proof.
  revert pre. induction cur as [|a rest IH]; intro pre; [reflexivity|].
  cbn [loop_pairs all_pairs app]. rewrite IH. reflexivity.
Qed.

(* In date mode every unordered pair is visited in both orders *)
Definition cross (cur pre : list sample) : list (sample * sample) := flat_map (fun a => map (pair a) pre) cur.
Lemma cross_snoc cur pre a : Permutation (cross cur (pre ++ [a])) (cross cur pre ++ map (fun c => (c, a)) cur).
Proof.
  induction cur as [|c r IH]; [reflexivity|].
  cbn [cross flat_map map]. fold (cross r (pre ++ [a])). fold (cross r pre).
  rewrite map_app. cbn [map]. rewrite IH.
  rewrite <- !app_assoc. apply Permutation_app_head.
  cbn [app]. apply Permutation_middle.
Qed.
Lemma loop_pairs_dates pre cur :
  Permutation (loop_pairs true pre cur) (all_pairs cur ++ map swap (all_pairs cur) ++ cross cur pre).
Proof.
  revert pre. induction cur as [|a rest IH]; intro pre; [reflexivity|].
  cbn [loop_pairs all_pairs cross flat_map]. fold (cross rest pre).
  rewrite IH, cross_snoc. rewrite map_app, map_map. cbn [swap fst snd].
  set (A := map (pair a) pre). set (B := map (pair a) rest). set (C := all_pairs rest).
  set (D := map swap C). set (E := cross rest pre). set (F := map (fun c => (c, a)) rest).
  (* A ++ B ++ C ++ D ++ E ++ F   ~   (B ++ C) ++ (F ++ D) ++ A ++ E *)
  rewrite <- !app_assoc.
  transitivity (B ++ A ++ C ++ D ++ E ++ F); [apply Permutation_app_swap_app|].
  apply Permutation_app_head.
  transitivity (C ++ A ++ D ++ E ++ F); [apply Permutation_app_swap_app|].
  apply Permutation_app_head.
  transitivity (A ++ F ++ D ++ E).
  { apply Permutation_app_head. rewrite (app_assoc D E F). apply Permutation_app_comm. }
  transitivity (F ++ A ++ D ++ E); [apply Permutation_app_swap_app|].
  apply Permutation_app_head. apply Permutation_app_swap_app.
Qed.
Lemma loop_pairs_ordered l : Permutation (loop_pairs true [] l) (ordered_pairs l).
Proof.
  rewrite loop_pairs_dates. unfold ordered_pairs.
  assert (E : cross l [] = []) by (induction l as [|a r IH]; [reflexivity|]; cbn; exact IH).
  rewrite E, app_nil_r. reflexivity.
Qed.

Lemma flat_map_nil {A B} (f : A -> list B) l : (forall x, In x l -> f x = []) -> flat_map f l = [].
Proof. intro H. induction l as [|x r IH]; [reflexivity|]. cbn. rewrite H by (left; reflexivity). apply IH. intros; apply H; right; assumption. Qed.

Section Enum.
Context {X : Type}.
Variable cf : cfg.
Variable md : Q.
(* anything computed from a pair that is empty for the pairs the 1-D tests discard *)
Variable P : sample * sample -> list X.
Variable ok : sample -> Prop.      (* e.g. "has the dimension of the data base" *)
Hypothesis P_far : forall a b, ok a -> ok b -> md < x1 b - x1 a \/ md < x1 a - x1 b -> P (a, b) = [].

Lemma inner_after_P a rest :
  ok a -> Forall ok rest -> StronglySorted le_x1 rest ->
  flat_map P (inner_after cf md a rest) = flat_map P (map (pair a) (filter (fun b => negb (skip cf b)) rest)).
Proof.
  intros Oa Ok. induction rest as [|b r IH]; intro Hs; [reflexivity|].
  inversion Hs as [|? ? Hr Hall]; subst.
  inversion Ok as [|? ? Ob Or]; subst.
  cbn [inner_after filter].
  destruct (qltb_spec md (x1 b - x1 a)) as [Hb|Hb].
  - (* break: b and everything after it are too far *)
    symmetry. apply flat_map_nil. intros p Hp. apply in_map_iff in Hp. destruct Hp as (c & <- & Hc).
    assert (Hin : In c (b :: r)).
    { destruct (skip cf b); cbn [negb] in Hc; [right|destruct Hc as [<-|Hc]; [left; reflexivity|right]];
        apply filter_In in Hc; exact (proj1 Hc). }
    assert (Oc : ok c) by (rewrite Forall_forall in Ok; apply Ok; exact Hin).
    apply (P_far a c Oa Oc). left.
    destruct Hin as [<-|Hin]; [exact Hb|].
    rewrite Forall_forall in Hall. specialize (Hall c Hin). unfold le_x1 in Hall. lra.
  - destruct (skip cf b); cbn [negb map flat_map]; rewrite (IH Or Hr); reflexivity.
Qed.

Lemma inner_before_P a pre :
  ok a -> Forall ok pre ->
  flat_map P (inner_before cf md a pre) = flat_map P (map (pair a) (filter (fun b => negb (skip cf b)) pre)).
Proof.
  intros Oa Ok. induction Ok as [|b r Ob Or IH]; [reflexivity|].
  cbn [inner_before filter].
  destruct (qltb_spec md (x1 a - x1 b)) as [Hb|Hb].
  - rewrite IH. destruct (skip cf b); cbn [negb map flat_map]; [reflexivity|].
    rewrite (P_far a b Oa Ob) by (right; exact Hb). reflexivity.
  - destruct (skip cf b); cbn [negb map flat_map]; rewrite IH; reflexivity.
Qed.

Lemma filter_map_pair (f : sample -> bool) (g : sample * sample -> bool) a l :
  (forall b, g (a, b) = f b) -> map (pair a) (filter f l) = filter g (map (pair a) l).
Proof.
  intro H. induction l as [|b r IH]; cbn; [reflexivity|].
  rewrite H. destruct (f b); cbn; rewrite IH; reflexivity.
Qed.
Lemma filter_skipped_first a l : skip cf a = true -> filter (unskipped cf) (map (pair a) l) = [].
Proof.
  intro Ea. induction l as [|c t IHt]; cbn; [reflexivity|].
  unfold unskipped at 1. cbn [fst snd]. rewrite Ea. cbn. exact IHt.
Qed.

Lemma partners_P pre a rest :
  ok a -> Forall ok pre -> Forall ok rest ->
  skip cf a = false -> StronglySorted le_x1 rest ->
  flat_map P (partners cf md pre a rest) =
  flat_map P (filter (unskipped cf) ((if c_dateLoop cf then map (pair a) pre else []) ++ map (pair a) rest)).
Proof.
  intros Oa Op Or Ea Hs. unfold partners. rewrite filter_app, !flat_map_app.
  assert (G : forall c, unskipped cf (a, c) = negb (skip cf c)) by (intro c; unfold unskipped; cbn [fst snd]; rewrite Ea; reflexivity).
  f_equal.
  - destruct (c_dateLoop cf); [|reflexivity].
    rewrite (inner_before_P a pre Oa Op). rewrite (filter_map_pair (fun b => negb (skip cf b)) (unskipped cf) a pre G). reflexivity.
  - rewrite (inner_after_P a rest Oa Or Hs). rewrite (filter_map_pair (fun b => negb (skip cf b)) (unskipped cf) a rest G). reflexivity.
Qed.

(* what is computed from the pairs actually visited = what would be computed from all the pairs of the loop *)
Lemma outer1_P pre cur :
  Forall ok pre -> Forall ok cur -> StronglySorted le_x1 cur ->
  flat_map P (outer1 cf md pre cur) = flat_map P (filter (unskipped cf) (loop_pairs (c_dateLoop cf) pre cur)).
Proof.
  revert pre. induction cur as [|a rest IH]; intros pre Op Oc Hs; [reflexivity|].
  inversion Hs as [|? ? Hr Hall]; subst.
  inversion Oc as [|? ? Oa Or]; subst.
  assert (Op' : Forall ok (pre ++ [a])) by (apply Forall_app; split; [exact Op|constructor; [exact Oa|constructor]]).
  cbn [outer1 loop_pairs]. rewrite flat_map_app, (IH _ Op' Or Hr).
  rewrite app_assoc, filter_app, flat_map_app. f_equal.
  destruct (skip cf a) eqn:Ea.
  - rewrite filter_app. destruct (c_dateLoop cf); rewrite ?(filter_skipped_first a _ Ea); reflexivity.
  - apply partners_P; assumption.
Qed.
End Enum.

Lemma maxdist_nonneg d : 0 < d_dpas d -> 0 <= d_tol d -> 0 <= maxdist d.
Proof.
  intros H1 H2. unfold maxdist.
  assert (0 <= inject_Z (Z.of_nat (d_npas d))) by (change 0 with (inject_Z 0); rewrite <- Zle_Qle; lia).
  nra.
Qed.

(* soundness: whatever reaches keepPair is a pair of two unskipped samples at different positions of the sorted list *)
Lemma inner_after_sound cf md a js p : In p (inner_after cf md a js) -> fst p = a /\ In (snd p) js /\ skip cf (snd p) = false.
Proof.
  induction js as [|b r IH]; cbn [inner_after]; [intros []|].
  destruct (qltb md (x1 b - x1 a)); [intros []|].
  destruct (skip cf b) eqn:E.
  - intro H. destruct (IH H) as (A & B & C). auto with datatypes.
  - intros [H|H]; [subst p; cbn; auto|]. destruct (IH H) as (A & B & C). auto with datatypes.
Qed.
Lemma inner_before_sound cf md a js p : In p (inner_before cf md a js) -> fst p = a /\ In (snd p) js /\ skip cf (snd p) = false.
Proof.
  induction js as [|b r IH]; cbn [inner_before]; [intros []|].
  destruct (qltb md (x1 a - x1 b)).
  - intro H. destruct (IH H) as (A & B & C). auto with datatypes.
  - destruct (skip cf b) eqn:E.
    + intro H. destruct (IH H) as (A & B & C). auto with datatypes.
    + intros [H|H]; [subst p; cbn; auto|]. destruct (IH H) as (A & B & C). auto with datatypes.
Qed.
Lemma outer1_sound cf md pre cur p :
  In p (outer1 cf md pre cur) ->
  In (fst p) cur /\ In (snd p) (pre ++ cur) /\ skip cf (fst p) = false /\ skip cf (snd p) = false.
Proof.
  revert pre. induction cur as [|a rest IH]; intro pre; cbn [outer1]; [intros []|].
  intro H. apply in_app_or in H. destruct H as [H|H].
  - destruct (skip cf a) eqn:Ea; [destruct H|].
    unfold partners in H. apply in_app_or in H. destruct H as [H|H].
    + destruct (c_dateLoop cf); [|destruct H]. apply inner_before_sound in H. destruct H as (A & B & C).
      rewrite A. repeat split; auto with datatypes; try (apply in_or_app; left; exact B).
    + apply inner_after_sound in H. destruct H as (A & B & C).
      rewrite A. repeat split; auto with datatypes; try (apply in_or_app; right; right; exact B).
  - destruct (IH _ H) as (A & B & C & D). repeat split; auto with datatypes.
    rewrite <- app_assoc in B. exact B.
Qed.

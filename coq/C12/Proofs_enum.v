(* C12 proofs, part 1: the sort and the pair enumeration of _calculateGeneralSolution1. *)
From Coq Require Import List ZArith QArith Qabs Qround Qminmax Bool Lqa Lia Permutation Sorted.
From Gst Require Import lib.QAux C12.Model C12.Spec.
Import ListNotations.
Local Open Scope Q_scope.

(* ---------------------------------------------------------------- sort_x1 *)
Definition le_x1 (a b : sample) : Prop := x1 a <= x1 b.

Lemma insert_perm a l : Permutation (insert a l) (a :: l).
Proof.
  induction l as [|b r IH]; cbn [insert]; [reflexivity|].
  destruct (qleb (x1 a) (x1 b)); [reflexivity|].
  rewrite IH. apply perm_swap.
Qed.
Lemma sort_perm l : Permutation (sort_x1 l) l.
Proof.
  induction l as [|a r IH]; cbn; [reflexivity|].
  unfold sort_x1 in *. cbn [fold_right]. rewrite insert_perm. apply perm_skip. exact IH.
Qed.

Lemma insert_sorted a l : StronglySorted le_x1 l -> StronglySorted le_x1 (insert a l).
Proof.
  induction l as [|b r IH]; intro Hs; cbn [insert].
  - constructor; constructor.
  - destruct (qleb_spec (x1 a) (x1 b)) as [H|H].
    + constructor; [exact Hs|]. constructor; [exact H|].
      inversion Hs as [|? ? _ Hall]; subst.
      eapply Forall_impl; [|exact Hall]. intros c Hc. unfold le_x1 in *. lra.
    + inversion Hs as [|? ? Hr Hall]; subst.
      constructor; [apply IH; exact Hr|].
      assert (Hp : Permutation (insert a r) (a :: r)) by apply insert_perm.
      eapply Permutation_Forall; [symmetry; exact Hp|].
      constructor; [unfold le_x1; lra|exact Hall].
Qed.
Lemma sort_sorted l : StronglySorted le_x1 (sort_x1 l).
Proof.
  induction l as [|a r IH]; [constructor|].
  unfold sort_x1 in *. cbn [fold_right]. apply insert_sorted. exact IH.
Qed.

(* ---------------------------------------------------------------- inner loop *)
Definition unskipped (cf : cfg) (p : sample * sample) : bool := negb (skip cf (fst p)) && negb (skip cf (snd p)).

(* when no partner lies to the left of [a] by more than [md], the break never fires *)
Lemma inner_no_break cf md a js :
  Forall (fun b => x1 a - x1 b <= md) js ->
  inner cf md a js = map (pair a) (filter (fun b => negb (skip cf b)) js).
Proof.
  induction js as [|b r IH]; intro H; cbn [inner filter map]; [reflexivity|].
  inversion H as [|? ? Hb Hr]; subst.
  rewrite (proj2 (qltb_false md (x1 a - x1 b)) Hb).
  destruct (skip cf b); cbn [negb map]; rewrite (IH Hr); reflexivity.
Qed.

Lemma sorted_no_break md a rest :
  0 <= md -> Forall (le_x1 a) rest -> Forall (fun b => x1 a - x1 b <= md) rest.
Proof.
  intros Hmd H. eapply Forall_impl; [|exact H]. intros b Hb. unfold le_x1 in Hb. lra.
Qed.

Lemma filter_map_pair (f : sample -> bool) (g : sample * sample -> bool) a l :
  (forall b, g (a, b) = f b) -> map (pair a) (filter f l) = filter g (map (pair a) l).
Proof.
  intro H. induction l as [|b r IH]; cbn; [reflexivity|].
  rewrite H. destruct (f b); cbn; rewrite IH; reflexivity.
Qed.

(* ---------------------------------------------------------------- outer loop without dates *)
Lemma filter_skipped_first cf a l : skip cf a = true -> filter (unskipped cf) (map (pair a) l) = [].
Proof.
  intro Ea. induction l as [|c t IHt]; cbn; [reflexivity|].
  unfold unskipped at 1. cbn [fst snd]. rewrite Ea. cbn. exact IHt.
Qed.
Lemma outer1_sorted cf md all cur :
  c_dateLoop cf = false -> 0 <= md -> StronglySorted le_x1 cur ->
  outer1 cf md all cur = filter (unskipped cf) (all_pairs cur).
Proof.
  intros Hd Hmd. induction cur as [|a rest IH]; intro Hs; [reflexivity|].
  inversion Hs as [|? ? Hr Hall]; subst.
  cbn [outer1 all_pairs]. rewrite Hd.
  destruct rest as [|b rest']; [reflexivity|].
  rewrite (IH Hr). rewrite filter_app. f_equal.
  destruct (skip cf a) eqn:Ea.
  - symmetry. apply filter_skipped_first. exact Ea.
  - rewrite (inner_no_break cf md a (b :: rest') (sorted_no_break md a _ Hmd Hall)).
    apply filter_map_pair. intro c. unfold unskipped. cbn [fst snd]. rewrite Ea. reflexivity.
Qed.

Lemma maxdist_nonneg d : 0 < d_dpas d -> 0 <= d_tol d -> 0 <= maxdist d.
Proof.
  intros H1 H2. unfold maxdist.
  assert (0 <= inject_Z (Z.of_nat (d_npas d))) by (change 0 with (inject_Z 0); rewrite <- Zle_Qle; lia).
  nra.
Qed.

(* the pairs reaching keepPair = all pairs i<j of the sorted list whose two ends pass the selection test *)
Lemma reached1_all_pairs cf d l :
  c_dateLoop cf = false -> 0 < d_dpas d -> 0 <= d_tol d ->
  reached1 cf d l = filter (unskipped cf) (all_pairs (sort_x1 l)).
Proof.
  intros Hd H1 H2. unfold reached1.
  apply outer1_sorted; [exact Hd|apply maxdist_nonneg; assumption|apply sort_sorted].
Qed.

(* ---------------------------------------------------------------- with dates: what holds *)
(* soundness only: whatever reaches keepPair is an (ordered, possibly reflexive) pair of unskipped samples *)
Lemma inner_sound cf md a js p : In p (inner cf md a js) -> fst p = a /\ In (snd p) js /\ skip cf (snd p) = false.
Proof.
  induction js as [|b r IH]; cbn [inner]; [intros []|].
  destruct (qltb md (x1 a - x1 b)); [intros []|].
  destruct (skip cf b) eqn:E.
  - intro H. destruct (IH H) as (A & B & C). auto with datatypes.
  - intros [H|H].
    + subst p. cbn. auto.
    + destruct (IH H) as (A & B & C). auto with datatypes.
Qed.
Lemma outer1_sound cf md all cur p :
  (forall x, In x cur -> In x all) ->
  In p (outer1 cf md all cur) ->
  In (fst p) all /\ In (snd p) all /\ skip cf (fst p) = false /\ skip cf (snd p) = false.
Proof.
  induction cur as [|a rest IH]; intros Hsub; cbn [outer1]; [intros []|].
  destruct rest as [|b rest']; [intros []|].
  intro H. apply in_app_or in H. destruct H as [H|H].
  - destruct (skip cf a) eqn:Ea; [destruct H|].
    apply inner_sound in H. destruct H as (A & B & C).
    rewrite A. repeat split; auto.
    + apply Hsub. left; reflexivity.
    + destruct (c_dateLoop cf); [exact B|]. apply Hsub. right. exact B.
  - apply IH; [|exact H]. intros x Hx. apply Hsub. right. exact Hx.
Qed.

(* C12 proofs, part 5: explicit pairwise sums for the variogram (and the other symmetric estimators' weights). *)
From Coq Require Import List ZArith QArith Qabs Qround Qminmax Bool Lqa Lia Permutation.
From Gst Require Import lib.QAux C12.Model C12.Spec C12.Proofs_enum C12.Proofs_lag C12.Proofs_acc C12.Proofs_geom.
Import ListNotations.
Local Open Scope Q_scope.

(* ---------------------------------------------------------------- addresses *)
Lemma tri_double n : (2 * (n * (n + 1) / 2) = n * (n + 1))%nat.
Proof.
  induction n as [|n IH]; [reflexivity|].
  replace (S n * (S n + 1))%nat with (n * (n + 1) + (n + 1) * 2)%nat by lia.
  rewrite Nat.div_add by lia. lia.
Qed.
Lemma var_rank_lower iv jv : (jv <= iv)%nat -> var_rank iv jv = (iv * (iv + 1) / 2 + jv)%nat.
Proof.
  intro H. unfold var_rank. destruct (Nat.ltb_spec jv iv) as [L|L]; [reflexivity|].
  assert (jv = iv) by lia. subst. reflexivity.
Qed.
Lemma var_rank_inj iv jv iv' jv' :
  (jv <= iv)%nat -> (jv' <= iv')%nat -> var_rank iv jv = var_rank iv' jv' -> iv = iv' /\ jv = jv'.
Proof.
  intros H H' E. rewrite !var_rank_lower in E by assumption.
  pose proof (tri_double iv) as T. pose proof (tri_double iv') as T'.
  set (t := (iv * (iv + 1) / 2)%nat) in *. set (t' := (iv' * (iv' + 1) / 2)%nat) in *.
  assert (iv = iv').
  { destruct (Nat.lt_trichotomy iv iv') as [L|[L|L]]; [exfalso|exact L|exfalso].
    - assert ((iv + 1) * (iv + 2) <= iv' * (iv' + 1))%nat by nia. nia.
    - assert ((iv' + 1) * (iv' + 2) <= iv * (iv + 1))%nat by nia. nia. }
  subst iv'. split; [reflexivity|]. lia.
Qed.
Lemma sym_address_inj npas iv jv k iv' jv' k' :
  (jv <= iv)%nat -> (jv' <= iv')%nat -> (k < npas)%nat -> (k' < npas)%nat ->
  dir_address false npas iv jv k Ozero = dir_address false npas iv' jv' k' Ozero -> iv = iv' /\ jv = jv' /\ k = k'.
Proof.
  intros H H' Hk Hk'. unfold dir_address, nlagtot. intro E.
  assert (R : var_rank iv jv = var_rank iv' jv').
  { destruct (Nat.lt_trichotomy (var_rank iv jv) (var_rank iv' jv')) as [L|[L|L]]; [exfalso; nia|exact L|exfalso; nia]. }
  destruct (var_rank_inj _ _ _ _ H H' R) as [-> ->]. repeat split. nia.
Qed.
Lemma sym_address_bound npas nvar iv jv k :
  (jv <= iv)%nat -> (iv < nvar)%nat -> (k < npas)%nat ->
  (dir_address false npas iv jv k Ozero < dir_size false npas nvar)%nat.
Proof.
  intros H Hv Hk. unfold dir_address, dir_size, nlagtot. rewrite var_rank_lower by exact H.
  pose proof (tri_double iv) as T. pose proof (tri_double nvar) as T'.
  set (t := (iv * (iv + 1) / 2)%nat) in *. set (t' := (nvar * (nvar + 1) / 2)%nat) in *.
  assert ((iv + 1) * (iv + 2) <= nvar * (nvar + 1))%nat by nia.
  assert (t + jv + 1 <= t')%nat by nia.
  nia.
Qed.

(* ---------------------------------------------------------------- finite sums with a single non-zero term *)
Lemma sumQ_zero {A} (f : A -> Q) l : (forall x, In x l -> f x == 0) -> sumQ (map f l) == 0.
Proof.
  induction l as [|x r IH]; intro H; [reflexivity|]. cbn [map]. rewrite sumQ_cons.
  rewrite H by (left; reflexivity). rewrite IH by (intros; apply H; right; assumption). ring.
Qed.
Lemma sumQ_single (f : nat -> Q) n x0 :
  (x0 < n)%nat -> (forall x, (x < n)%nat -> x <> x0 -> f x == 0) -> sumQ (map f (seq 0 n)) == f x0.
Proof.
  intros Hx H.
  assert (G : forall s m, (forall x, (s <= x < s + m)%nat -> x <> x0 -> f x == 0) ->
              sumQ (map f (seq s m)) == if (Nat.leb s x0 && Nat.ltb x0 (s + m))%bool then f x0 else 0).
  { intros s m. revert s. induction m as [|m IH]; intros s Hz.
    - cbn [seq map]. destruct (Nat.leb_spec s x0); destruct (Nat.ltb_spec x0 (s + 0)); cbn [andb]; try reflexivity; lia.
    - cbn [seq map]. rewrite sumQ_cons. rewrite IH by (intros; apply Hz; lia).
      destruct (Nat.eq_dec s x0) as [->|Hne].
      + destruct (Nat.leb_spec (S x0) x0); [lia|]. cbn [andb].
        destruct (Nat.leb_spec x0 x0); [|lia]. destruct (Nat.ltb_spec x0 (x0 + S m)); [|lia]. cbn [andb]. ring.
      + rewrite (Hz s) by (try lia; exact Hne).
        destruct (Nat.leb_spec (S s) x0); destruct (Nat.leb_spec s x0); try lia;
        destruct (Nat.ltb_spec x0 (S s + m)); destruct (Nat.ltb_spec x0 (s + S m)); try lia; cbn [andb]; ring. }
  rewrite G by (intros; apply H; lia).
  destruct (Nat.leb_spec 0 x0); [|lia]. destruct (Nat.ltb_spec x0 (0 + n)); [|lia]. reflexivity.
Qed.

(* ---------------------------------------------------------------- one pair, symmetric estimators *)
Section SymPair.
Variable ufld : upd -> Q.
Variables (npas : nat) (pc : pctx) (a b : sample) (ww : Q) (phi : Q -> Q -> Q * Q) (extra : nat -> Q).
Hypothesis Hipas : (p_ipas pc < npas)%nat.

Definition sym_upd (iv jv : nat) (z : Q * Q * Q * Q) : upd :=
  let '(z11, z12, z21, z22) := z in
  mk_upd false npas pc iv jv Ozero ww (fst (phi (z12 - z11) (z22 - z21))) (snd (phi (z12 - z11) (z22 - z21))) (extra iv).

Lemma fsum_nil k : fsum ufld k [] == 0.
Proof. reflexivity. Qed.
Lemma fsum_one k u : fsum ufld k [u] == if Nat.eqb (u_addr u) k then ufld u else 0.
Proof. unfold fsum, at_addr. cbn [filter]. destruct (Nat.eqb (u_addr u) k); cbn; ring. Qed.

(* the updates of eval_sym addressed to the cell of (iv, jv, ipas) reduce to the single update of that variable pair *)
Lemma fsum_eval_sym_at iv jv nvar :
  (jv <= iv)%nat -> (iv < nvar)%nat ->
  fsum ufld (dir_address false npas iv jv (p_ipas pc) Ozero)
       (flat_map (eval_sym npas pc a b ww phi extra) (seq 0 nvar))
  == match defined2 a b iv jv with Some z => ufld (sym_upd iv jv z) | None => 0 end.
Proof.
  intros Hj Hi.
  set (k0 := dir_address false npas iv jv (p_ipas pc) Ozero).
  rewrite fsum_flat_map.
  rewrite (sumQ_single _ nvar iv Hi).
  - (* the term of iv *)
    unfold eval_sym, defined2.
    destruct (zval a iv) as [z11|]; [|destruct (zval b iv); reflexivity].
    destruct (zval b iv) as [z12|]; [|reflexivity].
    rewrite fsum_flat_map.
    rewrite (sumQ_single _ (S iv) jv ltac:(lia)).
    + destruct (zval a jv) as [z21|]; [|destruct (zval b jv); reflexivity].
      destruct (zval b jv) as [z22|]; [|reflexivity].
      rewrite fsum_one. cbn [u_addr mk_upd]. fold k0. rewrite Nat.eqb_refl. reflexivity.
    + intros jv' Hjv' Hne.
      destruct (zval a jv') as [z21|]; [|destruct (zval b jv'); reflexivity].
      destruct (zval b jv') as [z22|]; [|reflexivity].
      rewrite fsum_one. cbn [u_addr mk_upd].
      destruct (Nat.eqb_spec (dir_address false npas iv jv' (p_ipas pc) Ozero) k0) as [E|E]; [|reflexivity].
      exfalso. apply sym_address_inj in E; try lia.
  - intros iv' Hiv' Hne.
    unfold eval_sym.
    destruct (zval a iv') as [z11|]; [|reflexivity].
    destruct (zval b iv') as [z12|]; [|reflexivity].
    rewrite fsum_flat_map. apply sumQ_zero. intros jv' Hin. apply in_seq in Hin.
    destruct (zval a jv') as [z21|]; [|destruct (zval b jv'); reflexivity].
    destruct (zval b jv') as [z22|]; [|reflexivity].
    rewrite fsum_one. cbn [u_addr mk_upd].
    destruct (Nat.eqb_spec (dir_address false npas iv' jv' (p_ipas pc) Ozero) k0) as [E|E]; [|reflexivity].
    exfalso. apply sym_address_inj in E; try lia.
Qed.
End SymPair.

(* a cell of another lag receives nothing from this pair *)
Lemma fsum_eval_sym_other ufld npas pc a b ww phi extra nvar iv jv k :
  (jv <= iv)%nat -> (k < npas)%nat -> (p_ipas pc < npas)%nat -> k <> p_ipas pc ->
  fsum ufld (dir_address false npas iv jv k Ozero) (flat_map (eval_sym npas pc a b ww phi extra) (seq 0 nvar)) == 0.
Proof.
  intros Hj Hk Hp Hne.
  rewrite fsum_flat_map. apply sumQ_zero. intros iv' _.
  unfold eval_sym.
  destruct (zval a iv') as [z11|]; [|reflexivity].
  destruct (zval b iv') as [z12|]; [|reflexivity].
  rewrite fsum_flat_map. apply sumQ_zero. intros jv' Hin. apply in_seq in Hin.
  destruct (zval a jv') as [z21|]; [|destruct (zval b jv'); reflexivity].
  destruct (zval b jv') as [z22|]; [|reflexivity].
  rewrite fsum_one. cbn [u_addr mk_upd].
  destruct (Nat.eqb_spec (dir_address false npas iv' jv' (p_ipas pc) Ozero) (dir_address false npas iv jv k Ozero)) as [E|E]; [|reflexivity].
  exfalso. apply sym_address_inj in E; try lia.
Qed.

(* ---------------------------------------------------------------- the variogram, one pair *)
Section VgPair.
Variables (cf : cfg) (d : dirp).
Hypothesis Hcalc : c_calc cf = Vg.
Hypothesis Hdp : 0 < d_dpas d.
Hypothesis Htol : 0 <= d_tol d.
Hypothesis Hps0 : 0 <= d_psmin d.
Hypothesis Hps1 : d_psmin d <= 1.
Hypothesis Hcodir : 0 < Qred (dot (d_codir d) (d_codir d)).

Lemma g_d2_nonneg a b : 0 <= g_d2 (geo_pair d a b).
Proof.
  unfold geo_pair, geo_of. cbn [g_d2]. rewrite Qred_correct.
  induction (vsub (s_x b) (s_x a)) as [|x r IH]; cbn [dot]; [lra|]. nra.
Qed.

(* which lag, if any, the pair falls in: algorithm = closed forms *)
Lemma pair_lag_spec a b k :
  (exists neg, isOK d false (geo_pair d a b) = Acc neg) /\ lag_rank d (g_d2 (geo_pair d a b)) = Some k
  <-> pair_in d k a b = true.
Proof.
  unfold pair_in. rewrite andb_true_iff, accepted_b_spec, (in_class_b_spec d).
  rewrite <- (lag_rank_in_class d Hdp _ k (g_d2_nonneg a b)).
  rewrite <- (isOK_accepted d Hps0 false (geo_pair d a b) Hcodir).
  split; intros [A B]; split; try exact B.
  - destruct A as [neg A]. rewrite A. discriminate.
  - destruct (isOK d false (geo_pair d a b)) as [|neg]; [contradiction|]. exists neg; reflexivity.
Qed.

(* the date test of the pair (a, b), when a date interval is in force *)
Definition dchk (a b : sample) : bool := negb (c_dateChk cf) || date_ok d a b.

Definition vg_pair_sw (iv jv k : nat) (a b : sample) : Q :=
  if pair_in d k a b && dchk a b then
    match defined2 a b iv jv with Some _ => get_weight cf a * get_weight cf b | None => 0 end
  else 0.
Definition vg_pair_num (iv jv k : nat) (a b : sample) : Q :=
  if pair_in d k a b && dchk a b then
    match defined2 a b iv jv with
    | Some (z11, z12, z21, z22) => get_weight cf a * get_weight cf b * ((z12 - z11) * (z22 - z21) / 2)
    | None => 0 end
  else 0.

Lemma pair_updates_vg means a b :
  pair_updates cf d means a b =
  match isOK d false (geo_pair d a b) with
  | Rej => []
  | Acc neg =>
      if dchk a b then
      match lag_rank d (g_d2 (geo_pair d a b)) with
      | None => []
      | Some k =>
          flat_map (eval_sym (d_npas d)
                      {| p_w1 := get_weight cf a; p_w2 := get_weight cf b;
                         p_dlo := sqrt_lo (g_d2 (geo_pair d a b)); p_dhi := sqrt_hi (g_d2 (geo_pair d a b)); p_ipas := k;
                         p_orient := if qltb 0 (g_d2 (geo_pair d a b)) && negb neg then Oplus else Ominus;
                         p_coinc := qleb (g_d2 (geo_pair d a b)) 0 |}
                      a b (get_weight cf a * get_weight cf b) phi_vg (fun _ => 0)) (seq 0 (c_nvar cf))
      end else []
  end.
Proof.
  unfold pair_updates, evaluate, dchk. rewrite Hcalc. cbn [is_asym]. fold (geo_pair d a b).
  destruct (isOK d false (geo_pair d a b)); [reflexivity|].
  destruct (c_dateChk cf); destruct (date_ok d a b); cbn [andb negb orb]; try reflexivity;
  destruct (lag_rank d (g_d2 (geo_pair d a b))); reflexivity.
Qed.

Lemma lag_rank_lt d2 k : 0 <= d2 -> lag_rank d d2 = Some k -> (k < d_npas d)%nat.
Proof. intros H E. apply (lag_rank_in_class d Hdp d2 k H) in E. destruct E as [N _]. exact N. Qed.

Lemma vg_pair_fields means a b iv jv k :
  (jv <= iv)%nat -> (iv < c_nvar cf)%nat -> (k < d_npas d)%nat ->
  let adr := dir_address false (d_npas d) iv jv k Ozero in
  fsum u_sw adr (pair_updates cf d means a b) == vg_pair_sw iv jv k a b /\
  fsum u_glo adr (pair_updates cf d means a b) == vg_pair_num iv jv k a b /\
  fsum u_ghi adr (pair_updates cf d means a b) == vg_pair_num iv jv k a b.
Proof.
  intros Hj Hi Hk. cbv zeta.
  rewrite pair_updates_vg. unfold vg_pair_sw, vg_pair_num.
  pose proof (pair_lag_spec a b k) as PL.
  pose proof (g_d2_nonneg a b) as Hd2.
  destruct (isOK d false (geo_pair d a b)) as [|neg] eqn:EO.
  { assert (E : pair_in d k a b = false).
    { destruct (pair_in d k a b); [|reflexivity]. destruct PL as [_ PL]. destruct (PL eq_refl) as [[n H] _]. discriminate. }
    rewrite E. repeat split; reflexivity. }
  destruct (dchk a b) eqn:ED; [|rewrite andb_false_r; repeat split; reflexivity].
  rewrite andb_true_r.
  destruct (lag_rank d (g_d2 (geo_pair d a b))) as [k'|] eqn:EL.
  2:{ assert (E : pair_in d k a b = false).
      { destruct (pair_in d k a b); [|reflexivity]. destruct PL as [_ PL]. destruct (PL eq_refl) as [_ H]. discriminate. }
      rewrite E. repeat split; reflexivity. }
  pose proof (lag_rank_lt _ _ Hd2 EL) as Hk'.
  destruct (Nat.eq_dec k k') as [<-|Hne].
  - assert (E : pair_in d k a b = true) by (apply PL; split; [exists neg; reflexivity|reflexivity]).
    rewrite E.
    match goal with |- context [eval_sym _ ?pc _ _ _ _ _] => set (PC := pc) end.
    assert (HPC : (p_ipas PC < d_npas d)%nat) by exact Hk.
    repeat split.
    + pose proof (fsum_eval_sym_at u_sw (d_npas d) PC a b (get_weight cf a * get_weight cf b) phi_vg (fun _ => 0) HPC iv jv (c_nvar cf) Hj Hi) as F.
      change (p_ipas PC) with k in F. rewrite F.
      destruct (defined2 a b iv jv) as [[[[z11 z12] z21] z22]|]; [|reflexivity]. reflexivity.
    + pose proof (fsum_eval_sym_at u_glo (d_npas d) PC a b (get_weight cf a * get_weight cf b) phi_vg (fun _ => 0) HPC iv jv (c_nvar cf) Hj Hi) as F.
      change (p_ipas PC) with k in F. rewrite F.
      destruct (defined2 a b iv jv) as [[[[z11 z12] z21] z22]|]; [|reflexivity].
      cbn [sym_upd mk_upd u_glo phi_vg fst snd]. ring.
    + pose proof (fsum_eval_sym_at u_ghi (d_npas d) PC a b (get_weight cf a * get_weight cf b) phi_vg (fun _ => 0) HPC iv jv (c_nvar cf) Hj Hi) as F.
      change (p_ipas PC) with k in F. rewrite F.
      destruct (defined2 a b iv jv) as [[[[z11 z12] z21] z22]|]; [|reflexivity].
      cbn [sym_upd mk_upd u_ghi phi_vg fst snd]. ring.
  - assert (E : pair_in d k a b = false).
    { destruct (pair_in d k a b) eqn:E'; [|reflexivity]. destruct PL as [_ PL]. destruct (PL eq_refl) as [_ H]. congruence. }
    rewrite E.
    repeat split; apply fsum_eval_sym_other; cbn [p_ipas]; auto.
Qed.

(* symmetry of the explicit terms under exchange of the two samples *)
Lemma pair_in_swap k a b : pair_in d k b a = pair_in d k a b.
Proof.
  unfold pair_in. destruct (geo_swap d a b) as (E1 & E2 & E3 & E4).
  rewrite E1. f_equal. unfold accepted_b. rewrite E1, E3, E4.
  assert (Ep : g_dproj (geo_pair d b a) * g_dproj (geo_pair d b a) == g_dproj (geo_pair d a b) * g_dproj (geo_pair d a b))
    by (rewrite E2; ring).
  destruct (d_cyl d) as [c|]; [destruct (qltb 0 c)|]; rewrite ?Ep; reflexivity.
Qed.
Lemma defined2_swap a b iv jv :
  defined2 b a iv jv = match defined2 a b iv jv with Some (z11, z12, z21, z22) => Some (z12, z11, z22, z21) | None => None end.
Proof.
  unfold defined2. destruct (zval a iv), (zval b iv), (zval a jv), (zval b jv); reflexivity.
Qed.
Lemma dchk_off a b : c_dateChk cf = false -> dchk a b = true.
Proof. intro H. unfold dchk. rewrite H. reflexivity. Qed.
Lemma vg_pair_sw_swap iv jv k a b : c_dateChk cf = false -> vg_pair_sw iv jv k a b == vg_pair_sw iv jv k b a.
Proof.
  intro Hchk. unfold vg_pair_sw. rewrite !dchk_off by exact Hchk. rewrite !andb_true_r.
  rewrite (pair_in_swap k a b), (defined2_swap a b).
  destruct (pair_in d k a b); [|reflexivity].
  destruct (defined2 a b iv jv) as [[[[z11 z12] z21] z22]|]; [ring|reflexivity].
Qed.
Lemma vg_pair_num_swap iv jv k a b : c_dateChk cf = false -> vg_pair_num iv jv k a b == vg_pair_num iv jv k b a.
Proof.
  intro Hchk. unfold vg_pair_num. rewrite !dchk_off by exact Hchk. rewrite !andb_true_r.
  rewrite (pair_in_swap k a b), (defined2_swap a b).
  destruct (pair_in d k a b); [|reflexivity].
  destruct (defined2 a b iv jv) as [[[[z11 z12] z21] z22]|]; [field|reflexivity].
Qed.
End VgPair.

(* C12 spec: the pairwise definition the property refers to.
   pairs        = all unordered pairs {a,b} of usable (active) samples, in any order (no sorting, no pruning);
   accepted     = the geometric conditions written as inequalities on squares (no algorithm);
   lag class    = the closed-form condition  k - 1/2 <= sqrt(d2)/dpas < k + 1/2  /\  |sqrt(d2) - k dpas| <= tol dpas,
                  written on squares;
   sw_k = sum of w,  hh_k = sum of w sqrt(d2) / sw_k,  gg_k = sum of w phi(z_a, z_b) / sw_k. *)
From Coq Require Import List ZArith QArith Qabs Qround Qminmax Bool.
From Gst Require Import lib.QAux C12.Model.
Import ListNotations.
Local Open Scope Q_scope.

(* ------------------------------------------------------------------ pairs *)
Fixpoint all_pairs {A} (l : list A) : list (A * A) :=
  match l with [] => [] | a :: r => map (pair a) r ++ all_pairs r end.
Definition swap {A} (p : A * A) : A * A := (snd p, fst p).
Definition ordered_pairs {A} (l : list A) : list (A * A) := all_pairs l ++ map swap (all_pairs l).
Definition usable (cf : cfg) (s : sample) : bool := is_active cf s.

(* ------------------------------------------------------------------ geometric acceptance (0 <= psmin <= 1, codir <> 0) *)
Definition accepted (d : dirp) (g : geo) : Prop :=
  g_d2 g <= 0 \/
  ( d_psmin d * d_psmin d * (g_d2 g * g_dn2 g) <= g_dproj g * g_dproj g                        (* |cos(delta, codir)| >= psmin *)
    /\ (forall c, d_cyl d = Some c -> 0 < c ->
                  g_d2 g * g_dn2 g - g_dproj g * g_dproj g <= c * c * g_dn2 g)                 (* orthogonal distance <= cylrad *)
    /\ (forall b, d_bench d = Some b -> 0 < b -> g_dlast g <= b) ).                            (* |delta_last| <= bench *)
Definition accepted_b (d : dirp) (g : geo) : bool :=
  qleb (g_d2 g) 0 ||
  ( qleb (d_psmin d * d_psmin d * (g_d2 g * g_dn2 g)) (g_dproj g * g_dproj g)
    && (match d_cyl d with Some c => if qltb 0 c then qleb (g_d2 g * g_dn2 g - g_dproj g * g_dproj g) (c * c * g_dn2 g) else true
                         | None => true end)
    && (match d_bench d with Some b => if qltb 0 b then qleb (g_dlast g) b else true | None => true end) ).

(* ------------------------------------------------------------------ lag class, closed form on squares (dpas > 0, tol >= 0) *)
Definition in_class (d : dirp) (d2 : Q) (k : nat) : Prop :=
  let kq := inject_Z (Z.of_nat k) in
  let del2 := d_dpas d * d_dpas d in
  (k < d_npas d)%nat /\
  (k = O \/ (2 * kq - 1) * (2 * kq - 1) * del2 <= 4 * d2) /\ 4 * d2 < (2 * kq + 1) * (2 * kq + 1) * del2 /\
  (kq - d_tol d <= 0 \/ (kq - d_tol d) * (kq - d_tol d) * del2 <= d2) /\ d2 <= (kq + d_tol d) * (kq + d_tol d) * del2.
Definition in_class_b (d : dirp) (d2 : Q) (k : nat) : bool :=
  let kq := inject_Z (Z.of_nat k) in
  let del2 := d_dpas d * d_dpas d in
  Nat.ltb k (d_npas d) &&
  (Nat.eqb k 0 || qleb ((2 * kq - 1) * (2 * kq - 1) * del2) (4 * d2)) && qltb (4 * d2) ((2 * kq + 1) * (2 * kq + 1) * del2) &&
  (qleb (kq - d_tol d) 0 || qleb ((kq - d_tol d) * (kq - d_tol d) * del2) d2) && qleb d2 ((kq + d_tol d) * (kq + d_tol d) * del2).
Definition lag_spec (d : dirp) (d2 : Q) : option nat := find (in_class_b d d2) (seq 0 (d_npas d)).

(* ------------------------------------------------------------------ sums of updates per cell *)
Definition sumQ (l : list Q) : Q := fold_right Qplus 0 l.
Definition at_addr (k : nat) (us : list upd) : list upd := filter (fun u => Nat.eqb (u_addr u) k) us.
Definition sum_sw (k : nat) (us : list upd) : Q := sumQ (map u_sw (at_addr k us)).
Definition sum_hlo (k : nat) (us : list upd) : Q := sumQ (map u_hlo (at_addr k us)).
Definition sum_hhi (k : nat) (us : list upd) : Q := sumQ (map u_hhi (at_addr k us)).
Definition sum_glo (k : nat) (us : list upd) : Q := sumQ (map u_glo (at_addr k us)).
Definition sum_ghi (k : nat) (us : list upd) : Q := sumQ (map u_ghi (at_addr k us)).
Definition cell_eq (c c' : cell) : Prop :=
  a_sw c == a_sw c' /\ a_hlo c == a_hlo c' /\ a_hhi c == a_hhi c' /\ a_glo c == a_glo c' /\ a_ghi c == a_ghi c'.

(* ------------------------------------------------------------------ explicit pairwise sums *)
Definition geo_pair (d : dirp) (a b : sample) : geo := geo_of (d_codir d) (vsub (s_x b) (s_x a)).
(* the pair {a,b} belongs to lag k of direction d *)
Definition pair_in (d : dirp) (k : nat) (a b : sample) : bool :=
  accepted_b d (geo_pair d a b) && in_class_b d (g_d2 (geo_pair d a b)) k.
Definition defined2 (a b : sample) (iv jv : nat) : option (Q * Q * Q * Q) :=
  match zval a iv, zval b iv, zval a jv, zval b jv with
  | Some z11, Some z12, Some z21, Some z22 => Some (z11, z12, z21, z22)
  | _, _, _, _ => None
  end.
(* variogram: sw_k(iv,jv) = sum w_a w_b ;  numerator of gg_k = sum w_a w_b (z_iv(b)-z_iv(a)) (z_jv(b)-z_jv(a)) / 2
   over the pairs of lag k where both variables are defined at both ends *)
Definition vg_terms (cf : cfg) (d : dirp) (iv jv k : nat) (l : list sample) : list (Q * Q) :=
  flat_map (fun p : sample * sample =>
              let (a, b) := p in
              if pair_in d k a b then
                match defined2 a b iv jv with
                | Some (z11, z12, z21, z22) =>
                    [(get_weight cf a * get_weight cf b, (z12 - z11) * (z22 - z21) / 2)]
                | None => [] end
              else []) (all_pairs (filter (usable cf) l)).
Definition vg_sw (cf : cfg) (d : dirp) (iv jv k : nat) (l : list sample) : Q := sumQ (map fst (vg_terms cf d iv jv k l)).
Definition vg_num (cf : cfg) (d : dirp) (iv jv k : nat) (l : list sample) : Q :=
  sumQ (map (fun t => fst t * snd t) (vg_terms cf d iv jv k l)).

(* ------------------------------------------------------------------ spec of one (ordered) pair, as updates *)
(* orientation of the pair seen from a: b ahead of a along codir, behind, or undecided (dproj = 0, duplicates included) *)
Definition spec_orient (g : geo) : orient :=
  if qltb 0 (g_dproj g) then Oplus else if qltb (g_dproj g) 0 then Ominus else Ozero.
Definition halve (u : upd) : upd :=
  {| u_addr := u_addr u; u_sw := u_sw u / 2; u_hlo := u_hlo u / 2; u_hhi := u_hhi u / 2; u_glo := u_glo u / 2; u_ghi := u_ghi u / 2 |}.
Definition real_date_ok (d : dirp) (a b : sample) : bool :=
  match s_date a, s_date b with
  | Some d1, Some d2 => negb (qltb (d2 - d1) (d_dmin d)) && qltb (d2 - d1) (d_dmax d)
  | _, _ => false
  end.
(* cross-covariance C_ij(+h) = mean of z_i(x) z_j(x+h): a product needs only its own two values *)
Definition spec_eval_asym (npas : nat) (pc : pctx) (a b : sample) (ww : Q) (iv : nat) : list upd :=
  flat_map (fun jv =>
              (match zval a iv, zval b jv with
               | Some z11, Some z22 => [mk_upd true npas pc iv jv (p_orient pc) ww (z11 * z22) (z11 * z22) 0]
               | _, _ => [] end) ++
              (match zval b iv, zval a jv with
               | Some z12, Some z21 => [mk_upd true npas pc iv jv (flip (p_orient pc)) ww (z12 * z21) (z12 * z21) 0]
               | _, _ => [] end)) (seq 0 (S iv)).
Definition spec_evaluate (cf : cfg) (npas : nat) (means : list Q) (pc : pctx) (a b : sample) : list upd :=
  match c_calc cf with
  | Cov | CovNC => flat_map (spec_eval_asym npas pc a b (p_w1 pc * p_w2 pc)) (seq 0 (c_nvar cf))
  | Covg => flat_map (spec_eval_asym npas pc a b (p_w2 pc)) (seq 0 (c_nvar cf))
  | _ => evaluate cf npas means pc a b
  end.
Definition spec_pair_updates (cf : cfg) (d : dirp) (means : list Q) (a b : sample) : list upd :=
  let g := geo_pair d a b in
  if accepted_b d g && (negb (c_dateChk cf) || real_date_ok d a b) then
    match lag_spec d (g_d2 g) with
    | None => []
    | Some k =>
        let pc o := {| p_w1 := get_weight cf a; p_w2 := get_weight cf b;
                       p_dlo := sqrt_lo (g_d2 g); p_dhi := sqrt_hi (g_d2 g); p_ipas := k; p_orient := o; p_coinc := false |} in
        if is_asym (c_calc cf) then
          match spec_orient g with
          | Ozero => map halve (spec_evaluate cf (d_npas d) means (pc Oplus) a b ++ spec_evaluate cf (d_npas d) means (pc Ominus) a b)
          | o => spec_evaluate cf (d_npas d) means (pc o) a b
          end
        else evaluate cf (d_npas d) means (pc Ozero) a b
    end
  else [].

(* weighted mean of a variable over the active samples where it is defined *)
Definition spec_mean (cf : cfg) (l : list sample) (iv : nat) : Q :=
  let act := filter (usable cf) l in
  let sw := sumQ (map (fun s => match zval s iv with Some _ => get_weight cf s | None => 0 end) act) in
  let sz := sumQ (map (fun s => match zval s iv with Some z => get_weight cf s * z | None => 0 end) act) in
  if qleb sw 0 then 0 else sz / sw.
Definition spec_means (cf : cfg) (l : list sample) : list Q := map (spec_mean cf l) (seq 0 (c_nvar cf)).

Definition spec_pairs (cf : cfg) (l : list sample) : list (sample * sample) :=
  let us := filter (usable cf) l in
  if c_dateLoop cf then ordered_pairs us else all_pairs us.
Definition spec_updates1 (cf : cfg) (d : dirp) (l : list sample) : list upd :=
  flat_map (fun p => spec_pair_updates cf d (spec_means cf l) (fst p) (snd p)) (spec_pairs cf l).
(* the array of raw sums, cell by cell *)
Definition spec_cell (us : list upd) (k : nat) : cell :=
  {| a_sw := sum_sw k us; a_hlo := sum_hlo k us; a_hhi := sum_hhi k us; a_glo := sum_glo k us; a_ghi := sum_ghi k us |}.
Definition spec_arr1 (cf : cfg) (d : dirp) (l : list sample) : list cell :=
  map (spec_cell (spec_updates1 cf d l)) (seq 0 (dir_size (is_asym (c_calc cf)) (d_npas d) (c_nvar cf))).
Definition spec_solution1 (cf : cfg) (d : dirp) (l : list sample) : list (list ocell) :=
  finish cf d l (spec_arr1 cf d l).

(* by-sample estimator (flag_sample, covariogram): for each first sample a (in the order of the first coordinate)
   the ratios G_a(k)/S_a(k) of ITS OWN pairs (a,b), b after a, are averaged with weight w_a *)
Fixpoint spec_outer2 (cf : cfg) (d : dirp) (means : list Q) (cur : list sample) (sums : list cell) : list cell :=
  match cur with
  | [] => sums
  | a :: rest =>
      let own := apply_upds (zero_arr cf d)
                   (flat_map (fun b => spec_pair_updates cf d means a b) rest) in
      spec_outer2 cf d means rest (cumulate (get_weight cf a) own sums)
  end.
Definition spec_solution2 (cf : cfg) (d : dirp) (l : list sample) : list (list ocell) :=
  finish cf d l (spec_outer2 cf d (spec_means cf l) (filter (usable cf) (sort_x1 l)) (zero_arr cf d)).

Definition spec_dir (cf : cfg) (flag_sample : bool) (d : dirp) (l : list sample) : list (list ocell) :=
  if flag_sample || (match c_calc cf with Covg => true | _ => false end)
  then spec_solution2 cf d l else spec_solution1 cf d l.

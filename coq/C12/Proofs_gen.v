(* C12 proofs, part 18: generalised variograms G1-G3 — weight tables, the value of one term (squared finite difference over
   NORWGT), agreement of the grid version and of the line version on a one-dimensional grid. *)
From Coq Require Import List ZArith QArith Qabs Qround Qminmax Bool Lqa Lia Permutation Sorted.
From Gst Require Import lib.QAux C12.Model C12.ModelExt C12.Spec C12.Proofs_enum C12.Proofs_lag C12.Proofs_acc C12.Proofs_geom C12.Proofs_vg C12.Proofs_main
  C12.Proofs_ext C12.Proofs_grid C12.Proofs_grideq.
Import ListNotations.
Local Open Scope Q_scope.

(* ---------------------------------------------------------------- the weight tables *)
(* weights of the finite difference of order norder+1: they sum to zero and annihilate linear trends; NORWGT is the sum of
   their squares (a white noise of variance 1 has generalised variogram 1) *)
Fixpoint wsum (p : nat) (i : Z) (ws : list Q) : Q :=
  match ws with [] => 0 | w :: r => inject_Z (i ^ Z.of_nat p) * w + wsum p (i + 1) r end.
Lemma gen_weights_facts norder : (1 <= norder <= 3)%nat ->
  let (ws, nor) := gen_weights norder in
  wsum 0 0 ws == 0 /\ wsum 1 0 ws == 0 /\ dot ws ws == nor /\ length ws = (norder + 2)%nat.
Proof.
  intro H. assert (E : norder = 1%nat \/ norder = 2%nat \/ norder = 3%nat) by lia.
  destruct E as [->|[->| ->]]; vm_compute; repeat split; reflexivity.
Qed.
(* orders 2 and 3 also annihilate quadratic trends, order 3 cubic ones *)
Lemma gen_weights_higher :
  wsum 2 0 (fst (gen_weights 2)) == 0 /\ wsum 2 0 (fst (gen_weights 3)) == 0 /\ wsum 3 0 (fst (gen_weights 3)) == 0.
Proof. vm_compute. repeat split; reflexivity. Qed.

(* ---------------------------------------------------------------- the value of one term, grid version *)
(* values of the n successive nodes r + (iwgt + i) ipas g, i = 0 .. n-1; None as soon as one is outside / masked / undefined *)
Fixpoint gen_values (cf : cfg) (nx : list nat) (cells : list sample) (r : nat) (g : list Z) (ipas iwgt n : nat) : option (list Q) :=
  match n with
  | O => Some []
  | S n' =>
      match grid_node nx cells r (scaleZ (Z.of_nat (ipas * iwgt)) g) with
      | Some b => if c_hasSel cf && negb (is_active cf b) then None
                  else match zval b 0 with
                       | Some zz => match gen_values cf nx cells r g ipas (S iwgt) n' with Some zs => Some (zz :: zs) | None => None end
                       | None => None end
      | None => None
      end
  end.
Lemma gen_combine_values cf nx cells r g ipas iwgt ws acc :
  gen_combine cf nx cells r g ipas iwgt ws acc =
  match gen_values cf nx cells r g ipas iwgt (length ws) with Some zs => Some (fold_left (fun s zw => s + fst zw * snd zw) (combine zs ws) acc) | None => None end.
Proof.
  revert iwgt acc. induction ws as [|w ws IH]; intros iwgt acc; cbn [gen_combine gen_values length]; [reflexivity|].
  destruct (grid_node nx cells r (scaleZ (Z.of_nat (ipas * iwgt)) g)) as [b|]; [|reflexivity].
  destruct (c_hasSel cf && negb (is_active cf b)); [reflexivity|].
  destruct (zval b 0) as [zz|]; [|reflexivity].
  rewrite IH. destruct (gen_values cf nx cells r g ipas (S iwgt) (length ws)); reflexivity.
Qed.
Lemma fold_dot zs ws acc : length zs = length ws -> fold_left (fun s zw => s + fst zw * snd zw) (combine zs ws) acc == acc + dot zs ws.
Proof.
  revert ws acc. induction zs as [|z zs IH]; intros ws acc L; destruct ws as [|w ws]; cbn in *; try discriminate; [ring|].
  rewrite IH by congruence. ring.
Qed.
Lemma gen_values_length cf nx cells r g ipas iwgt n zs : gen_values cf nx cells r g ipas iwgt n = Some zs -> length zs = n.
Proof.
  revert iwgt zs. induction n as [|n IH]; intros iwgt zs; cbn [gen_values]; [intro E; inversion E; reflexivity|].
  destruct (grid_node nx cells r _); [|discriminate]. destruct (c_hasSel cf && negb (is_active cf s)); [discriminate|].
  destruct (zval s 0); [|discriminate].
  destruct (gen_values cf nx cells r g ipas (S iwgt) n) as [zs'|] eqn:E; [|discriminate].
  intro H; inversion H; subst. cbn. rewrite (IH _ _ E). reflexivity.
Qed.

(* every term of the generalised variogram on a grid is the squared finite difference of the aligned node values, over NORWGT *)
Lemma gen_updates_value cf npas dlo dhi norder nx cells g u :
  In u (gen_updates cf npas dlo dhi norder nx cells g) ->
  exists r a ipas z0 zs,
    nth_error cells r = Some a /\ (1 <= ipas < npas)%nat /\ zval a 0 = Some z0 /\
    gen_values cf nx cells r g ipas 1 (length (tl (fst (gen_weights norder)))) = Some zs /\
    u_addr u = ipas /\ u_sw u == 1 /\
    u_glo u == dot (z0 :: zs) (fst (gen_weights norder)) * dot (z0 :: zs) (fst (gen_weights norder)) / snd (gen_weights norder) /\
    u_ghi u == u_glo u.
Proof.
  unfold gen_updates. destruct (gen_weights norder) as [ws nor] eqn:EW. cbn [fst snd].
  assert (Hws : exists w0 wr, ws = w0 :: wr).
  { unfold gen_weights in EW. destruct norder as [|[|[|n]]]; inversion EW; eauto. }
  destruct Hws as (w0 & wr & ->). cbn [tl hd].
  intro Hin. apply in_flat_map in Hin. destruct Hin as ([r a] & Hra & Hin).
  assert (Na : nth_error cells r = Some a).
  { apply nodes_in. exact Hra. }
  destruct (c_hasSel cf && negb (is_active cf a)); [destruct Hin|].
  destruct (zval a 0) as [z0|] eqn:Ez; [|destruct Hin].
  apply in_flat_map in Hin. destruct Hin as (ipas & Hip & Hin). apply in_seq in Hip.
  rewrite gen_combine_values in Hin.
  destruct (gen_values cf nx cells r g ipas 1 (length wr)) as [zs|] eqn:Ev; [|destruct Hin].
  destruct Hin as [<-|[]].
  pose proof (gen_values_length _ _ _ _ _ _ _ _ _ Ev) as Lz.
  exists r, a, ipas, z0, zs. cbn [u_addr u_sw u_glo u_ghi].
  repeat split; try reflexivity; try lia; try assumption.
  rewrite (fold_dot zs wr (z0 * w0) Lz). cbn [dot]. reflexivity.
Qed.

(* ---------------------------------------------------------------- grid version = line version on a one-dimensional grid *)
Section Line1D.
Variables (cf : cfg) (d : dirp) (cells : list sample) (c0 : Q).
Hypothesis Hcodir : d_codir d = [c0].
Hypothesis Hc0 : ~ c0 == 0.
Hypothesis Hps0 : 0 <= d_psmin d.
Hypothesis Hps1 : d_psmin d <= 1.
Hypothesis Hbench : d_bench d = None.
Hypothesis Hcyl : d_cyl d = None.
Hypothesis H1d : forall r s, nth_error cells r = Some s -> exists x, s_x s = [x].
Let n := length cells.

(* in one dimension every pair is aligned with the direction: the geometric test always accepts *)
Lemma isOK_1d xa xb : exists neg, isOK d false (geo_of [c0] (vsub [xb] [xa])) = Acc neg.
Proof.
  rewrite isOK_unfold. cbv zeta. unfold geo_of. cbn [vsub dot last g_d2 g_dproj g_dn2 g_dlast]. rewrite Hbench, Hcyl. cbn [opt_pos].
  set (dl := xb - xa).
  set (D2 := Qred (dl * dl + 0)). set (DP := Qred (dl * c0 + 0)). set (DN := Qred (c0 * c0 + 0)).
  assert (E2 : D2 == dl * dl) by (unfold D2; rewrite Qred_correct; ring).
  assert (Ep : DP == dl * c0) by (unfold DP; rewrite Qred_correct; ring).
  assert (En : DN == c0 * c0) by (unfold DN; rewrite Qred_correct; ring).
  destruct (qleb_spec D2 0) as [Hz|Hz]; [eexists; reflexivity|].
  assert (Hc2 : 0 < c0 * c0) by (destruct (Qlt_le_dec 0 c0); [nra|assert (c0 < 0) by (destruct (Qeq_dec c0 0); [contradiction|lra]); nra]).
  assert (Hprod : 0 < D2 * DN) by (rewrite En; nra).
  rewrite (proj2 (qltb_true _ _) Hprod).
  assert (Hang : qltb (DP * DP) (d_psmin d * d_psmin d * (D2 * DN)) = false).
  { apply qltb_false. assert (d_psmin d * d_psmin d <= 1) by nra.
    assert (Eq : DP * DP == D2 * DN) by (rewrite Ep, E2, En; ring). rewrite Eq. nra. }
  rewrite Hang, andb_false_r. eexists; reflexivity.
Qed.

(* on the grid [n] with increment (1) the node reached by the shift m is the sample of rank r + m *)
Lemma node_1d r m : (r < n)%nat -> grid_node [n] cells r (scaleZ (Z.of_nat m) [1%Z]) = nth_error cells (r + m).
Proof.
  intro Hr. unfold grid_node. cbn [rank_to_index scaleZ map vaddZ index_to_rank].
  rewrite Nat.mod_small by exact Hr.
  replace (Z.of_nat r + Z.of_nat m * 1)%Z with (Z.of_nat (r + m)) by lia.
  destruct (Z.leb_spec 0 (Z.of_nat (r + m))); [|lia]. cbn [andb].
  destruct (Z.ltb_spec (Z.of_nat (r + m)) (Z.of_nat n)) as [L|L].
  - rewrite Nat2Z.id. f_equal. lia.
  - symmetry. apply nth_error_None. unfold n in L. lia.
Qed.

Lemma line_combine_1d r a ipas iwgt ws acc :
  (r < n)%nat -> nth_error cells r = Some a ->
  line_combine cf d cells r a ipas iwgt ws acc = gen_combine cf [n] cells r [1%Z] ipas iwgt ws acc.
Proof.
  intros Hr Ha. revert iwgt acc. induction ws as [|w ws IH]; intros iwgt acc; cbn [line_combine gen_combine]; [reflexivity|].
  rewrite (node_1d r (ipas * iwgt) Hr), (Nat.mul_comm iwgt ipas).
  destruct (nth_error cells (r + ipas * iwgt)) as [b|] eqn:Eb; [|reflexivity].
  destruct (c_hasSel cf && negb (is_active cf b)); [reflexivity|].
  destruct (H1d _ _ Ha) as [xa Exa]. destruct (H1d _ _ Eb) as [xb Exb]. rewrite Hcodir, Exa, Exb.
  destruct (isOK_1d xa xb) as [neg E]. rewrite E.
  destruct (zval b 0); [apply IH|reflexivity].
Qed.

(* the two versions add the same weights and the same values to every lag (the mean separation is carried differently:
   distance of the first pair / ipas times the increment) *)
Lemma gen_weights_shape norder : exists w0 w1 wr nor, gen_weights norder = (w0 :: w1 :: wr, nor).
Proof. unfold gen_weights. destruct norder as [|[|[|m]]]; eauto 10. Qed.

Lemma line_eq_grid_1d ufld norder dlo dhi k :
  (forall u u', u_addr u = u_addr u' -> u_sw u == u_sw u' -> u_glo u == u_glo u' -> u_ghi u == u_ghi u' ->
     (if Nat.eqb (u_addr u) k then ufld u else 0) == (if Nat.eqb (u_addr u') k then ufld u' else 0)) ->
  fsum ufld k (line_updates cf d norder cells) == fsum ufld k (gen_updates cf (d_npas d) dlo dhi norder [n] cells [1%Z]).
Proof.
  intro Hext. unfold line_updates, gen_updates.
  destruct (gen_weights_shape norder) as (w0 & w1 & wr & nor & EW). rewrite EW. cbn [tl hd].
  rewrite !fsum_flat_map. apply sumQ_map_ext. intros [r a] Hin.
  assert (Na : nth_error cells r = Some a) by (apply nodes_in; exact Hin).
  assert (Hr : (r < n)%nat) by (unfold n; apply nth_error_Some; congruence).
  fold n.
  destruct (Nat.ltb_spec r (n - 1)) as [L|L]; cbn [negb].
  - destruct (c_hasSel cf && negb (is_active cf a)); [reflexivity|].
    destruct (zval a 0) as [z0|]; [|reflexivity].
    rewrite !fsum_flat_map. apply sumQ_map_ext. intros ipas _.
    rewrite (line_combine_1d r a ipas 1 (w1 :: wr) (z0 * w0) Hr Na).
    destruct (gen_combine cf [n] cells r [1%Z] ipas 1 (w1 :: wr) (z0 * w0)) as [v|]; [|reflexivity].
    rewrite !fsum_one. apply Hext; cbn [u_addr u_sw u_glo u_ghi]; reflexivity.
  - (* the last sample is never a first point in the line version; in the grid version it has no node ahead *)
    destruct (c_hasSel cf && negb (is_active cf a)); [reflexivity|].
    destruct (zval a 0) as [z0|]; [|reflexivity].
    rewrite fsum_nil. symmetry. rewrite fsum_flat_map. apply sumQ_zero. intros ipas Hip. apply in_seq in Hip.
    cbn [gen_combine]. rewrite (node_1d r (ipas * 1) Hr).
    assert (E : nth_error cells (r + ipas * 1) = None) by (apply nth_error_None; fold n; lia).
    rewrite E. reflexivity.
Qed.
End Line1D.

(* C12 proofs, part 14: irregular lags; grid indices; conservation of the weights over the cells of a map / the lags of a
   variogram; counts of the variogram cloud. *)
From Coq Require Import List ZArith QArith Qabs Qround Qminmax Bool Lqa Lia Permutation Sorted.
From Gst Require Import lib.QAux C12.Model C12.ModelExt C12.Spec C12.Proofs_enum C12.Proofs_lag C12.Proofs_acc C12.Proofs_geom C12.Proofs_vg C12.Proofs_main.
Import ListNotations.
Local Open Scope Q_scope.

(* ---------------------------------------------------------------- irregular lags *)
(* the interval condition b_k < sqrt(d2) <= b_{k+1}, on squares *)
Definition in_break_P (bs : list Q) (d2 : Q) (k : nat) : Prop :=
  (nth k bs 0 < 0 \/ nth k bs 0 * nth k bs 0 < d2) /\ 0 <= nth (S k) bs 0 /\ d2 <= nth (S k) bs 0 * nth (S k) bs 0.
Lemma in_break_spec bs d2 k : in_break bs d2 k = true <-> in_break_P bs d2 k.
Proof.
  unfold in_break, in_break_P. cbv zeta.
  rewrite !andb_true_iff, orb_true_iff, !qltb_true, !qleb_true. tauto.
Qed.

Lemma find_first {A} (f : A -> bool) l x :
  find f l = Some x <-> exists l1 l2, l = l1 ++ x :: l2 /\ f x = true /\ forall y, In y l1 -> f y = false.
Proof.
  induction l as [|a r IH]; cbn [find].
  - split; [discriminate|]. intros (l1 & l2 & E & _). destruct l1; discriminate.
  - destruct (f a) eqn:Ea.
    + split.
      * intro E; inversion E; subst. exists [], r. repeat split; auto. intros y [].
      * intros (l1 & l2 & E & Fx & Hl). destruct l1 as [|b l1'].
        -- inversion E; subst. reflexivity.
        -- inversion E; subst. rewrite (Hl b (or_introl eq_refl)) in Ea. discriminate.
    + rewrite IH. split.
      * intros (l1 & l2 & E & Fx & Hl). exists (a :: l1), l2. subst r. repeat split; auto.
        intros y [<-|Hy]; [exact Ea|apply Hl; exact Hy].
      * intros (l1 & l2 & E & Fx & Hl). destruct l1 as [|b l1'].
        -- inversion E; subst. congruence.
        -- inversion E; subst. exists l1', l2. repeat split; auto. intros y Hy. apply Hl. right; exact Hy.
Qed.

(* DirParam::getLagRank with breaks: k is the FIRST lag below npas whose interval ]b_k, b_{k+1}] contains the distance *)
Lemma lag_rank_irr_spec npas bs d2 k :
  lag_rank_irr npas bs d2 = Some k <->
  (k < npas)%nat /\ in_break_P bs d2 k /\ forall j, (j < k)%nat -> ~ in_break_P bs d2 j.
Proof.
  unfold lag_rank_irr. rewrite find_first. split.
  - intros (l1 & l2 & E & Fk & Hl).
    assert (Hlen : length l1 = k).
    { assert (H : nth (length l1) (seq 0 npas) 0%nat = k) by (rewrite E, app_nth2, Nat.sub_diag by lia; reflexivity).
      assert (Hlt : (length l1 < npas)%nat).
      { assert (L : length (seq 0 npas) = length (l1 ++ k :: l2)) by (rewrite E; reflexivity).
        rewrite seq_length, app_length in L. cbn in L. lia. }
      rewrite seq_nth in H by exact Hlt. lia. }
    assert (Hk : (k < npas)%nat).
    { assert (L : length (seq 0 npas) = length (l1 ++ k :: l2)) by (rewrite E; reflexivity).
      rewrite seq_length, app_length in L. cbn in L. lia. }
    split; [exact Hk|]. split; [apply in_break_spec; exact Fk|].
    intros j Hj Hin. apply in_break_spec in Hin.
    assert (Inj : In j l1).
    { assert (Hn : nth j (seq 0 npas) 0%nat = j) by (rewrite seq_nth by lia; reflexivity).
      rewrite E, app_nth1 in Hn by lia. rewrite <- Hn. apply nth_In. lia. }
    rewrite (Hl j Inj) in Hin. discriminate.
  - intros (Hk & Pk & Hj).
    exists (seq 0 k), (seq (S k) (npas - S k)). split; [|split].
    + replace npas with (k + (1 + (npas - S k)))%nat at 1 by lia. rewrite seq_app. cbn [seq Nat.add]. reflexivity.
    + apply in_break_spec. exact Pk.
    + intros y Hy. apply in_seq in Hy. destruct (in_break bs d2 y) eqn:E; [|reflexivity].
      exfalso. apply (Hj y); [lia|]. apply in_break_spec. exact E.
Qed.

(* with increasing non-negative breaks the intervals are disjoint: the lag is the only one containing the distance *)
Definition breaks_increasing (bs : list Q) : Prop := forall i j, (i <= j)%nat -> (j < length bs)%nat -> nth i bs 0 <= nth j bs 0.
Lemma in_break_unique bs d2 j k :
  breaks_increasing bs -> 0 <= nth 0 bs 0 -> (S j < length bs)%nat -> (S k < length bs)%nat ->
  in_break_P bs d2 j -> in_break_P bs d2 k -> j = k.
Proof.
  intros Hinc H0 Lj Lk (A1 & A2 & A3) (B1 & B2 & B3).
  assert (Hpos : forall i, (i < length bs)%nat -> 0 <= nth i bs 0) by (intros i Hi; pose proof (Hinc 0%nat i ltac:(lia) Hi); lra).
  assert (Hlt : forall u v, (u < v)%nat -> (S v < length bs)%nat -> in_break_P bs d2 u -> in_break_P bs d2 v -> False).
  { intros u v Huv Lv (_ & U2 & U3) (V1 & _ & _).
    pose proof (Hinc (S u) v ltac:(lia) ltac:(lia)) as Hle.
    pose proof (Hpos (S u) ltac:(lia)) as P1. pose proof (Hpos v ltac:(lia)) as P2.
    destruct V1 as [V1|V1]; [lra|]. nra. }
  destruct (Nat.lt_trichotomy j k) as [H|[H|H]]; [exfalso|exact H|exfalso].
  - apply (Hlt j k H Lk); split; auto.
  - apply (Hlt k j H Lj); split; auto.
Qed.

(* pruning on the first coordinate: a pair further apart than the last break has no lag *)
Lemma beyond_maxdist_irr npas bs d2 dx :
  breaks_increasing bs -> (npas < length bs)%nat -> 0 <= nth 0 bs 0 ->
  0 <= d2 -> dx * dx <= d2 -> maxdist_irr npas bs < dx -> lag_rank_irr npas bs d2 = None.
Proof.
  intros Hinc Hlen H0 Hd2 Hdx Hmd.
  destruct (lag_rank_irr npas bs d2) as [k|] eqn:E; [|reflexivity]. exfalso.
  apply lag_rank_irr_spec in E. destruct E as (Hk & (_ & P2 & P3) & _).
  unfold maxdist_irr in Hmd.
  pose proof (Hinc (S k) npas ltac:(lia) Hlen) as Hle.
  pose proof (Hinc 0%nat (S k) ltac:(lia) ltac:(lia)) as Hp.
  nra.
Qed.

(* ---------------------------------------------------------------- grid indices *)
Lemma index_to_rank_bound nx idx r : index_to_rank nx idx = Some r -> (r < grid_size nx)%nat.
Proof.
  revert idx r. induction nx as [|n t IH]; intros idx r; destruct idx as [|i u]; cbn [index_to_rank grid_size fold_right]; try discriminate.
  - intro E; inversion E. lia.
  - destruct ((0 <=? i)%Z && (i <? Z.of_nat n)%Z) eqn:Eb; [|discriminate].
    destruct (index_to_rank t u) as [r'|] eqn:Er; [|discriminate].
    intro E; inversion E; subst. specialize (IH u r' Er). fold (grid_size t).
    apply andb_true_iff in Eb. destruct Eb as [B1 B2]. apply Z.leb_le in B1. apply Z.ltb_lt in B2. nia.
Qed.
Lemma index_to_rank_inj nx u v r : index_to_rank nx u = Some r -> index_to_rank nx v = Some r -> u = v.
Proof.
  revert u v r. induction nx as [|n t IH]; intros u v r; destruct u as [|i u']; destruct v as [|j v']; cbn [index_to_rank]; try discriminate.
  - reflexivity.
  - destruct ((0 <=? i)%Z && (i <? Z.of_nat n)%Z) eqn:Ei; [|discriminate].
    destruct ((0 <=? j)%Z && (j <? Z.of_nat n)%Z) eqn:Ej; [|discriminate].
    destruct (index_to_rank t u') as [ru|] eqn:Eu; [|discriminate].
    destruct (index_to_rank t v') as [rv|] eqn:Ev; [|discriminate].
    intros E1 E2. inversion E1; inversion E2; subst.
    apply andb_true_iff in Ei. destruct Ei as [I1 I2]. apply Z.leb_le in I1. apply Z.ltb_lt in I2.
    apply andb_true_iff in Ej. destruct Ej as [J1 J2]. apply Z.leb_le in J1. apply Z.ltb_lt in J2.
    assert (Hr : ru = rv) by nia. subst rv.
    assert (Hi : i = j) by nia. subst j.
    f_equal. apply (IH u' v' ru Eu Ev).
Qed.
Lemma rank_to_index_length nx r : length (rank_to_index nx r) = length nx.
Proof. revert r. induction nx as [|n t IH]; intro r; cbn; [reflexivity|]. rewrite IH. reflexivity. Qed.
Lemma index_rank_inverse nx r : (r < grid_size nx)%nat -> index_to_rank nx (rank_to_index nx r) = Some r.
Proof.
  revert r. induction nx as [|n t IH]; intros r Hr; cbn [grid_size fold_right] in Hr; cbn [rank_to_index index_to_rank].
  - f_equal. lia.
  - fold (grid_size t) in Hr.
    assert (Hn : (0 < n)%nat) by (destruct n; [lia|lia]).
    pose proof (Nat.mod_upper_bound r n ltac:(lia)) as Hm.
    assert (B : ((0 <=? Z.of_nat (r mod n))%Z && (Z.of_nat (r mod n) <? Z.of_nat n)%Z) = true).
    { apply andb_true_iff. split; [apply Z.leb_le; lia|apply Z.ltb_lt; lia]. }
    rewrite B. rewrite IH.
    + f_equal. rewrite Nat2Z.id. pose proof (Nat.div_mod r n ltac:(lia)). lia.
    + apply Nat.div_lt_upper_bound; lia.
Qed.

(* ---------------------------------------------------------------- conservation *)
(* the sums of the cells 0..n-1 account for every update addressed below n, once *)
Lemma fsum_total ufld n us :
  sumQ (map (fun k => fsum ufld k us) (seq 0 n)) == sumQ (map ufld (filter (fun u => Nat.ltb (u_addr u) n) us)).
Proof.
  induction us as [|u r IH].
  - cbn [filter map]. apply sumQ_zero. intros k _. reflexivity.
  - assert (E : forall k, fsum ufld k (u :: r) == (if Nat.eqb (u_addr u) k then ufld u else 0) + fsum ufld k r).
    { intro k. change (u :: r) with ([u] ++ r). rewrite fsum_app, fsum_one. reflexivity. }
    rewrite (sumQ_map_ext _ (fun k => (if Nat.eqb (u_addr u) k then ufld u else 0) + fsum ufld k r)) by (intros; apply E).
    assert (Hsplit : forall (f g : nat -> Q) l, sumQ (map (fun k => f k + g k) l) == sumQ (map f l) + sumQ (map g l)).
    { intros f g l. induction l as [|x t IHl]; [reflexivity|]. cbn [map]. rewrite !sumQ_cons, IHl. ring. }
    rewrite Hsplit, IH. cbn [filter].
    destruct (Nat.ltb_spec (u_addr u) n) as [L|L].
    + cbn [map]. rewrite sumQ_cons. apply Qplus_comp; [|reflexivity].
      rewrite (sumQ_single (fun k => if Nat.eqb (u_addr u) k then ufld u else 0) n (u_addr u) L).
      * rewrite Nat.eqb_refl. reflexivity.
      * intros x _ Hne. destruct (Nat.eqb_spec (u_addr u) x); [congruence|reflexivity].
    + rewrite sumQ_zero; [ring|]. intros x Hx. apply in_seq in Hx. destruct (Nat.eqb_spec (u_addr u) x); [lia|reflexivity].
Qed.

(* ---------------------------------------------------------------- variogram cloud: every hit is counted once *)
Lemma count_cells_total n hits :
  Forall (fun c => (c < n)%nat) hits ->
  fold_right Z.add 0%Z (count_cells n hits) = Z.of_nat (length hits).
Proof.
  intro H. unfold count_cells. induction H as [|c r Hc Hr IH]; cbn [filter length].
  - induction (seq 0 n) as [|x t IHt]; [reflexivity|]. cbn [map fold_right]. rewrite IHt. reflexivity.
  - assert (E : forall l, fold_right Z.add 0%Z (map (fun c0 => Z.of_nat (length (filter (Nat.eqb c0) (c :: r)))) l)
                     = (fold_right Z.add 0 (map (fun c0 => Z.of_nat (length (filter (Nat.eqb c0) r))) l)
                        + Z.of_nat (length (filter (fun x => Nat.eqb x c) l)))%Z).
    { intro l. induction l as [|x t IHt]; [reflexivity|]. cbn [map fold_right].
      rewrite IHt. cbn [filter]. destruct (Nat.eqb x c); cbn [length]; lia. }
    rewrite E, IH.
    assert (F : length (filter (fun x => Nat.eqb x c) (seq 0 n)) = 1%nat).
    { clear - Hc. assert (G : forall s m, length (filter (fun x => Nat.eqb x c) (seq s m)) = if (Nat.leb s c && Nat.ltb c (s + m))%bool then 1%nat else 0%nat).
      { intros s m. revert s. induction m as [|m IHm]; intro s; cbn [seq filter length].
        - destruct (Nat.leb_spec s c), (Nat.ltb_spec c (s + 0)); cbn; try reflexivity; lia.
        - destruct (Nat.eqb_spec s c) as [->|Hne]; cbn [length]; rewrite IHm.
          + destruct (Nat.leb_spec (S c) c); [lia|]. destruct (Nat.leb_spec c c); [|lia]. destruct (Nat.ltb_spec c (c + S m)); [|lia]. reflexivity.
          + destruct (Nat.leb_spec (S s) c), (Nat.leb_spec s c), (Nat.ltb_spec c (S s + m)), (Nat.ltb_spec c (s + S m)); cbn; try reflexivity; lia. }
      rewrite G. destruct (Nat.leb_spec 0 c); [|lia]. destruct (Nat.ltb_spec c (0 + n)); [reflexivity|lia]. }
    rewrite F. lia.
Qed.
Lemma cloud_hits_bound cf d lagnb varnb dx0 dx1 l :
  Forall (fun c => (c < lagnb * varnb)%nat) (cloud_hits cf d lagnb varnb dx0 dx1 l).
Proof.
  unfold cloud_hits. apply Forall_forall. intros c Hc. apply in_flat_map in Hc. destruct Hc as (p & _ & Hc).
  destruct (cloud_cell d lagnb varnb dx0 dx1 (fst p) (snd p)) as [c0|] eqn:E; [|destruct Hc].
  destruct Hc as [<-|[]]. unfold cloud_cell in E.
  destruct (isOK d false _); [discriminate|]. destruct (zval (fst p) 0); [|discriminate]. destruct (zval (snd p) 0); [|discriminate].
  apply index_to_rank_bound in E. cbn [grid_size fold_right] in E. lia.
Qed.
(* the counts of the cloud add up to the number of accepted pairs falling inside the grid of the cloud, each counted once *)
Lemma vcloud_total cf d lagnb varnb dx0 dx1 l :
  fold_right Z.add 0%Z (vcloud cf d lagnb varnb dx0 dx1 l) = Z.of_nat (length (cloud_hits cf d lagnb varnb dx0 dx1 l)).
Proof. unfold vcloud. apply count_cells_total. apply cloud_hits_bound. Qed.

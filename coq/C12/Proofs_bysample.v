(* C12 proofs, part 10: the by-sample algorithm (_calculateGeneralSolution2) computes the by-sample average of the spec. *)
From Coq Require Import List ZArith QArith Qabs Qround Qminmax Bool Lqa Lia Permutation Sorted.
From Gst Require Import lib.QAux C12.Model C12.Spec C12.Proofs_enum C12.Proofs_lag C12.Proofs_acc C12.Proofs_geom C12.Proofs_vg C12.Proofs_main.
Import ListNotations.
Local Open Scope Q_scope.

Definition plain_sym (c : calc) : Prop := c = Vg \/ c = Mado \/ c = Order4 \/ c = Rodo.

Section BySample.
Variables (cf : cfg) (d : dirp).
Hypothesis Hcalc : plain_sym (c_calc cf).
Hypothesis Hloop : c_dateLoop cf = false.
Hypothesis Hchk : c_dateChk cf = false.
Hypothesis Hdp : 0 < d_dpas d.
Hypothesis Htol : 0 <= d_tol d.
Hypothesis Hps0 : 0 <= d_psmin d.
Hypothesis Hcodir : 0 < Qred (dot (d_codir d) (d_codir d)).

Lemma asym_false : is_asym (c_calc cf) = false.
Proof. destruct Hcalc as [E|[E|[E|E]]]; rewrite E; reflexivity. Qed.

(* one pair: the algorithm (isOK, getLagRank, _evaluate) adds exactly what the closed forms of the spec say *)
Lemma pair_updates_spec means means' a b : pair_updates cf d means a b = spec_pair_updates cf d means' a b.
Proof.
  unfold pair_updates, spec_pair_updates. fold (geo_pair d a b). rewrite asym_false, Hchk. cbn [andb negb orb].
  pose proof (isOK_accepted d Hps0 false (geo_pair d a b) Hcodir) as HA.
  rewrite <- accepted_b_spec in HA.
  rewrite andb_true_r.
  rewrite <- (lag_rank_eq_spec d Hdp _ (g_d2_nonneg d a b)).
  destruct (isOK d false (geo_pair d a b)) as [|neg].
  - assert (E : accepted_b d (geo_pair d a b) = false).
    { destruct (accepted_b d (geo_pair d a b)); [|reflexivity]. exfalso. apply (proj2 HA eq_refl). reflexivity. }
    rewrite E. reflexivity.
  - assert (E : accepted_b d (geo_pair d a b) = true) by (apply HA; discriminate).
    rewrite E.
    destruct (lag_rank d (g_d2 (geo_pair d a b))) as [k|]; [|reflexivity].
    unfold evaluate. destruct Hcalc as [Ec|[Ec|[Ec|Ec]]]; rewrite Ec; reflexivity.
Qed.

Lemma flat_map_map {A B C} (f : A -> B) (g : B -> list C) l : flat_map g (map f l) = flat_map (fun x => g (f x)) l.
Proof. induction l as [|x r IH]; cbn; [reflexivity|]. rewrite IH. reflexivity. Qed.
Lemma flat_map_ext_eq {A B} (f g : A -> list B) l : (forall x, f x = g x) -> flat_map f l = flat_map g l.
Proof. intro H. induction l as [|x r IH]; cbn; [reflexivity|]. rewrite H, IH. reflexivity. Qed.

Lemma outer2_spec n means means' pre cur sums :
  Forall (same_dim n) cur -> StronglySorted le_x1 cur ->
  outer2 cf d means pre cur sums = spec_outer2 cf d means' (filter (usable cf) cur) sums.
Proof.
  intros Hdim Hs. revert pre sums. induction cur as [|a rest IH]; intros pre sums; [reflexivity|].
  inversion Hs as [|? ? Hr Hall]; subst. inversion Hdim as [|? ? Da Dr]; subst.
  cbn [outer2 filter]. rewrite <- (unskipped_usable cf a).
  destruct (skip cf a) eqn:Ea; cbn [negb]; [apply IH; assumption|].
  cbn [spec_outer2]. rewrite (IH Dr Hr). f_equal. f_equal. f_equal.
  unfold partners. rewrite Hloop. cbn [app].
  rewrite (inner_after_P cf (maxdist d) (fun p => pair_updates cf d means (fst p) (snd p)) (same_dim n)).
  - rewrite flat_map_map. cbn [fst snd].
    rewrite (filter_ext_eq (fun b => negb (skip cf b)) (usable cf) rest (unskipped_usable cf)).
    apply flat_map_ext_eq. intro b. apply pair_updates_spec.
  - intros x y Hx Hy Hfar. cbn [fst snd]. apply (pair_updates_far cf d means n x y Hdp Htol Hx Hy Hfar).
  - exact Da.
  - exact Dr.
  - exact Hr.
Qed.

(* the by-sample estimator: for every first sample (order of the first coordinate) the ratios G_a(k)/S_a(k) of its own pairs,
   averaged with the weight of the sample *)
Lemma solution2_spec n l : Forall (same_dim n) l -> solution2 cf d l = spec_solution2 cf d l.
Proof.
  intro Hdim. unfold solution2, spec_solution2. f_equal.
  apply (outer2_spec n).
  - eapply Permutation_Forall; [symmetry; apply sort_perm|exact Hdim].
  - apply sort_sorted.
Qed.
End BySample.

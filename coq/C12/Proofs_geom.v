(* C12 proofs, part 4: BiTargetCheckGeometry::isOK on squares = the declarative acceptance conditions;
   behaviour of the geometric summary under exchange of the two samples and under translation. *)
From Coq Require Import List ZArith QArith Qabs Qround Qminmax Bool Lqa Lia.
From Gst Require Import lib.QAux C12.Model C12.Spec.
Import ListNotations.
Local Open Scope Q_scope.

Lemma opt_pos_some o v : opt_pos o = Some v <-> o = Some v /\ 0 < v.
Proof.
  unfold opt_pos. destruct o as [w|]; [|split; [discriminate|intros [H _]; discriminate]].
  destruct (qltb_spec 0 w) as [H|H]; split.
  - intro E; inversion E; subst; auto.
  - intros [E _]; exact E.
  - discriminate.
  - intros [E Hv]. inversion E; subst. contradiction.
Qed.
Lemma opt_pos_none o : opt_pos o = None <-> (forall v, o = Some v -> ~ 0 < v).
Proof.
  unfold opt_pos. destruct o as [w|].
  - destruct (qltb_spec 0 w) as [H|H]; split.
    + discriminate.
    + intro K. exfalso. exact (K w eq_refl H).
    + intros _ v E. inversion E; subst. exact H.
    + reflexivity.
  - split; [intros _ v E; discriminate|reflexivity].
Qed.

(* the part of isOK after the angular test *)
Definition tail_ok (d : dirp) (g : geo) : Prop :=
  (forall c, d_cyl d = Some c -> 0 < c -> g_d2 g * g_dn2 g - g_dproj g * g_dproj g <= c * c * g_dn2 g) /\
  (forall b, d_bench d = Some b -> 0 < b -> g_dlast g <= b).

Lemma isOK_unfold d asym g :
  isOK d asym g =
  if qleb (g_d2 g) 0 then Acc false
  else
    let prod := g_d2 g * g_dn2 g in
    let p2 := g_dproj g * g_dproj g in
    let lim := d_psmin d * d_psmin d * prod in
    if (if qltb 0 prod then qltb 0 (d_psmin d) && qltb p2 lim else qltb 1 (d_psmin d)) then Rej
    else if (match opt_pos (d_cyl d) with Some c => qltb 0 prod && qltb (c * c * g_dn2 g) (prod - p2) | None => false end) then Rej
    else if (match opt_pos (d_bench d) with Some b => qltb b (g_dlast g) | None => false end) then Rej
    else Acc (asym && (if qltb 0 prod then qltb (g_dproj g) 0 || qltb p2 lim else qltb 1 (d_psmin d))).
Proof. reflexivity. Qed.

Section Geom.
Variable d : dirp.
Hypothesis Hps0 : 0 <= d_psmin d.
Hypothesis Hps1 : d_psmin d <= 1.

Lemma isOK_accepted asym g : 0 < g_dn2 g -> (isOK d asym g <> Rej <-> accepted d g).
Proof.
  intro Hdn2. rewrite isOK_unfold. unfold accepted. cbv zeta.
  destruct (qleb_spec (g_d2 g) 0) as [Hz|Hz].
  { split; [intros _; left; exact Hz|intros _; discriminate]. }
  assert (Hd2 : 0 < g_d2 g) by lra.
  assert (Hprod : 0 < g_d2 g * g_dn2 g) by nra.
  rewrite (proj2 (qltb_true 0 (g_d2 g * g_dn2 g)) Hprod).
  set (prod := g_d2 g * g_dn2 g) in *. set (p2 := g_dproj g * g_dproj g).
  assert (Hp2 : 0 <= p2) by (unfold p2; nra).
  set (lim := d_psmin d * d_psmin d * prod).
  assert (Hang : (qltb 0 (d_psmin d) && qltb p2 lim) = false <-> lim <= p2).
  { destruct (qltb_spec 0 (d_psmin d)) as [A|A]; cbn [andb].
    - apply qltb_false.
    - assert (E : d_psmin d == 0) by lra.
      assert (E2 : lim == 0) by (unfold lim; rewrite E; ring).
      split; [intros _; lra|reflexivity]. }
  destruct (qltb 0 (d_psmin d) && qltb p2 lim) eqn:Eang.
  { split; [congruence|]. intros [A|[A _]]; [lra|]. exfalso.
    apply Hang in A. congruence. }
  assert (Hlim : lim <= p2) by (apply Hang; reflexivity).
  destruct (opt_pos (d_cyl d)) as [c|] eqn:Ec.
  - apply opt_pos_some in Ec. destruct Ec as [Ec Hc].
    cbn [andb].
    destruct (qltb_spec (c * c * g_dn2 g) (prod - p2)) as [B|B].
    + split; [congruence|]. intros [A|(_ & A & _)]; [lra|]. exfalso. specialize (A c Ec Hc). lra.
    + destruct (opt_pos (d_bench d)) as [b|] eqn:Eb.
      * apply opt_pos_some in Eb. destruct Eb as [Eb Hb].
        destruct (qltb_spec b (g_dlast g)) as [C|C].
        -- split; [congruence|]. intros [A|(_ & _ & A)]; [lra|]. exfalso. specialize (A b Eb Hb). lra.
        -- split; [|discriminate]. intros _. right. split; [exact Hlim|]. split.
           ++ intros c' E' _. rewrite Ec in E'. inversion E'; subst. lra.
           ++ intros b' E' _. rewrite Eb in E'. inversion E'; subst. lra.
      * split; [|discriminate]. intros _. right. split; [exact Hlim|]. split.
        -- intros c' E' _. rewrite Ec in E'. inversion E'; subst. lra.
        -- intros b' E' Hb'. exfalso. exact (proj1 (opt_pos_none _) Eb b' E' Hb').
  - destruct (opt_pos (d_bench d)) as [b|] eqn:Eb.
    + apply opt_pos_some in Eb. destruct Eb as [Eb Hb].
      destruct (qltb_spec b (g_dlast g)) as [C|C].
      * split; [congruence|]. intros [A|(_ & _ & A)]; [lra|]. exfalso. specialize (A b Eb Hb). lra.
      * split; [|discriminate]. intros _. right. split; [exact Hlim|]. split.
        -- intros c' E' Hc'. exfalso. exact (proj1 (opt_pos_none _) Ec c' E' Hc').
        -- intros b' E' _. rewrite Eb in E'. inversion E'; subst. lra.
    + split; [|discriminate]. intros _. right. split; [exact Hlim|]. split.
      * intros c' E' Hc'. exfalso. exact (proj1 (opt_pos_none _) Ec c' E' Hc').
      * intros b' E' Hb'. exfalso. exact (proj1 (opt_pos_none _) Eb b' E' Hb').
Qed.

(* orientation: an accepted pair is oriented negatively exactly when its projection on the direction is negative *)
Lemma isOK_orientation g neg : 0 < g_dn2 g -> isOK d true g = Acc neg -> neg = (qltb 0 (g_d2 g) && qltb (g_dproj g) 0).
Proof.
  intro Hdn2. rewrite isOK_unfold. cbv zeta.
  destruct (qleb_spec (g_d2 g) 0) as [Hz|Hz].
  { intro E; inversion E. rewrite (proj2 (qltb_false 0 (g_d2 g)) Hz). reflexivity. }
  assert (Hd2 : 0 < g_d2 g) by lra.
  assert (Hprod : 0 < g_d2 g * g_dn2 g) by nra.
  rewrite (proj2 (qltb_true 0 (g_d2 g * g_dn2 g)) Hprod), (proj2 (qltb_true 0 (g_d2 g)) Hd2).
  set (prod := g_d2 g * g_dn2 g) in *. set (p2 := g_dproj g * g_dproj g).
  set (lim := d_psmin d * d_psmin d * prod).
  destruct (qltb_spec 0 (d_psmin d)) as [A|A]; cbn [andb].
  - destruct (qltb_spec p2 lim) as [B|B]; [discriminate|].
    destruct (match opt_pos (d_cyl d) with Some c => qltb (c * c * g_dn2 g) (prod - p2) | None => false end); [discriminate|].
    destruct (match opt_pos (d_bench d) with Some b => qltb b (g_dlast g) | None => false end); [discriminate|].
    intro E; inversion E. rewrite orb_false_r. reflexivity.
  - destruct (match opt_pos (d_cyl d) with Some c => qltb (c * c * g_dn2 g) (prod - p2) | None => false end); [discriminate|].
    destruct (match opt_pos (d_bench d) with Some b => qltb b (g_dlast g) | None => false end); [discriminate|].
    intro E; inversion E.
    assert (E0 : d_psmin d == 0) by lra.
    assert (E2 : lim == 0) by (unfold lim; rewrite E0; ring).
    assert (Hp2 : 0 <= p2) by (unfold p2; nra).
    rewrite (proj2 (qltb_false p2 lim)) by lra. rewrite orb_false_r. reflexivity.
Qed.
End Geom.

Lemma accepted_b_spec d g : accepted_b d g = true <-> accepted d g.
Proof.
  unfold accepted_b, accepted.
  rewrite orb_true_iff, !andb_true_iff, !qleb_true.
  split.
  - intros [A|((A & B) & C)]; [left; exact A|right].
    split; [exact A|]. split.
    + intros c Ec Hc. rewrite Ec in B. rewrite (proj2 (qltb_true 0 c) Hc) in B. apply qleb_true. exact B.
    + intros b Eb Hb. rewrite Eb in C. rewrite (proj2 (qltb_true 0 b) Hb) in C. apply qleb_true. exact C.
  - intros [A|(A & B & C)]; [left; exact A|right].
    split; [split; [exact A|]|].
    + destruct (d_cyl d) as [c|]; [|reflexivity].
      destruct (qltb_spec 0 c) as [Hc|Hc]; [|reflexivity]. apply qleb_true. apply (B c eq_refl Hc).
    + destruct (d_bench d) as [b|]; [|reflexivity].
      destruct (qltb_spec 0 b) as [Hb|Hb]; [|reflexivity]. apply qleb_true. apply (C b eq_refl Hb).
Qed.

(* ---------------------------------------------------------------- vectors *)
Lemma dot_vsub_swap a b c : dot (vsub a b) c == - dot (vsub b a) c.
Proof.
  revert b c. induction a as [|x a IH]; intros b c; destruct b as [|y b]; cbn [vsub dot]; try ring.
  destruct c as [|z c]; cbn [dot]; [ring|]. rewrite IH. ring.
Qed.
Lemma dot_vsub_sq a b : dot (vsub a b) (vsub a b) == dot (vsub b a) (vsub b a).
Proof.
  revert b. induction a as [|x a IH]; intros b; destruct b as [|y b]; cbn [vsub dot]; try ring.
  rewrite IH. ring.
Qed.
Lemma last_vsub_swap a b : last (vsub a b) 0 == - last (vsub b a) 0.
Proof.
  revert b. induction a as [|x a IH]; intros b; destruct b as [|y b]; cbn [vsub last]; try ring.
  destruct a as [|x' a']; destruct b as [|y' b']; cbn [vsub]; try ring.
  exact (IH (y' :: b')).
Qed.

Lemma Qred_eq a b : a == b -> Qred a = Qred b.
Proof. apply Qred_complete. Qed.

Lemma geo_swap d a b :
  let g := geo_pair d a b in let g' := geo_pair d b a in
  g_d2 g' = g_d2 g /\ g_dproj g' == - g_dproj g /\ g_dn2 g' = g_dn2 g /\ g_dlast g' = g_dlast g.
Proof.
  cbv zeta. unfold geo_pair, geo_of. cbn [g_d2 g_dproj g_dn2 g_dlast].
  repeat split.
  - apply Qred_eq. apply dot_vsub_sq.
  - rewrite !Qred_correct. apply dot_vsub_swap.
  - apply Qred_eq. rewrite last_vsub_swap. apply Qabs_opp.
Qed.

(* the verdict of the symmetric estimators does not depend on which sample comes first *)
Lemma isOK_sym_swap d a b : isOK d false (geo_pair d b a) = isOK d false (geo_pair d a b).
Proof.
  destruct (geo_swap d a b) as (E1 & E2 & E3 & E4).
  rewrite !isOK_unfold. cbv zeta. rewrite E1, E3, E4.
  assert (Ep : g_dproj (geo_pair d b a) * g_dproj (geo_pair d b a) == g_dproj (geo_pair d a b) * g_dproj (geo_pair d a b))
    by (rewrite E2; ring).
  destruct (opt_pos (d_cyl d)); destruct (opt_pos (d_bench d)); rewrite ?Ep; reflexivity.
Qed.

(* ---------------------------------------------------------------- translation *)
Fixpoint vadd (x t : list Q) : list Q :=
  match x, t with a :: x', b :: t' => (a + b) :: vadd x' t' | _, _ => [] end.
Definition translate (t : list Q) (s : sample) : sample :=
  {| s_x := vadd (s_x s) t; s_sel := s_sel s; s_w := s_w s; s_date := s_date s; s_z := s_z s |}.

Inductive veq : list Q -> list Q -> Prop :=
| veq_nil : veq [] []
| veq_cons x y l l' : x == y -> veq l l' -> veq (x :: l) (y :: l').

Lemma vsub_translate a b t :
  length a = length t -> length b = length t -> veq (vsub (vadd b t) (vadd a t)) (vsub b a).
Proof.
  revert a b. induction t as [|z t IH]; intros a b Ha Hb; destruct a as [|x a]; destruct b as [|y b]; cbn in *; try discriminate; try constructor.
  - ring.
  - apply IH; congruence.
Qed.
Lemma dot_veq a a' b : veq a a' -> dot a b == dot a' b.
Proof.
  intro H. revert b. induction H as [|x y l l' E _ IH]; intro b; [reflexivity|].
  destruct b as [|z b]; cbn [dot]; [reflexivity|]. rewrite E, IH. reflexivity.
Qed.
Lemma dot_veq2 a a' : veq a a' -> dot a a == dot a' a'.
Proof.
  induction 1 as [|x y l l' E _ IH]; [reflexivity|]. cbn [dot]. rewrite E, IH. reflexivity.
Qed.
Lemma last_veq a a' : veq a a' -> last a 0 == last a' 0.
Proof.
  induction 1 as [|x y l l' E H IH]; [reflexivity|].
  destruct H; cbn [last]; [exact E|exact IH].
Qed.

Lemma geo_translate d t a b :
  length (s_x a) = length t -> length (s_x b) = length t ->
  geo_pair d (translate t a) (translate t b) = geo_pair d a b.
Proof.
  intros Ha Hb. unfold geo_pair, geo_of. cbn [translate s_x].
  pose proof (vsub_translate (s_x a) (s_x b) t Ha Hb) as V.
  f_equal; apply Qred_eq.
  - apply dot_veq2. exact V.
  - apply dot_veq. exact V.
  - rewrite (last_veq _ _ V). reflexivity.
Qed.

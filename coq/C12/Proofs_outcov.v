(* C12 proofs, part 13: what is reported for the covariance after _rescale, _centerCovariance and _patchC00. *)
From Coq Require Import List ZArith QArith Qabs Qround Qminmax Bool Lqa Lia Permutation.
From Gst Require Import lib.QAux C12.Model C12.Spec C12.Proofs_enum C12.Proofs_lag C12.Proofs_acc C12.Proofs_geom C12.Proofs_vg C12.Proofs_main C12.Proofs_out C12.Proofs_cov.
Import ListNotations.
Local Open Scope Q_scope.

(* position of (lag k, side o) inside the block of a variable pair: [-(npas-1) .. -0, centre, +0 .. +(npas-1)] *)
Definition side_index (npas k : nat) (o : orient) : nat :=
  match o with Oplus => npas + k + 1 | Ominus => npas - k - 1 | Ozero => npas end.
Lemma dir_address_side npas iv jv k o :
  dir_address true npas iv jv k o = (var_rank iv jv * (2 * npas + 1) + side_index npas k o)%nat.
Proof. unfold dir_address, side_index, nlagtot. destruct o; lia. Qed.

Lemma solution1_asym_blocks cf d l :
  is_asym (c_calc cf) = true ->
  solution1 cf d l =
  map (fun p : nat * nat =>
         mapi (center_patch_cell cf (d_npas d) (gstats cf l (fst p) (snd p)))
              (block (2 * d_npas d + 1) (var_rank (fst p) (snd p)) (rescale cf (d_npas d) (accumulate1 cf d l))))
      (var_pairs (c_nvar cf)).
Proof.
  intro H. unfold solution1, finish. rewrite H. cbn [nlagtot]. apply map_ext. intros [iv jv]. reflexivity.
Qed.

Section CovOut.
Variables (cf : cfg) (d : dirp).
Hypothesis Hcalc : c_calc cf = Cov \/ c_calc cf = CovNC.
Hypothesis Hloop : c_dateLoop cf = false.
Hypothesis Hchk : c_dateChk cf = false.
Hypothesis Hdp : 0 < d_dpas d.
Hypothesis Htol : 0 <= d_tol d.
Hypothesis Hps0 : 0 <= d_psmin d.
Hypothesis Hcodir : 0 < Qred (dot (d_codir d) (d_codir d)).

(* the product of the two global means subtracted by _centerCovariance (centred covariance only) *)
Definition centring (l : list sample) (iv jv : nat) : Q :=
  match c_calc cf with
  | Cov => let (m1, m2) := norm_means cf (gstats cf l iv jv) in m1 * m2
  | _ => 0
  end.

(* getSwVec / getGgVec for the covariance, away from the centre: total weight of the pairs of the lag on that side and
   weighted mean of the products, minus the product of the means when the covariance is centred; TEST when the lag is empty *)
Lemma solution1_cov_reports n l iv jv k o :
  Forall (same_dim n) l ->
  (jv <= iv)%nat -> (iv < c_nvar cf)%nat -> (k < d_npas d)%nat -> o <> Ozero ->
  let L := filter (usable cf) (sort_x1 l) in
  let S := pair_sum (fun a b => fst (cov_pair cf d iv jv k o a b)) L in
  let G := pair_sum (fun a b => snd (cov_pair cf d iv jv k o a b)) L in
  exists oc,
    nth_error (mapi (center_patch_cell cf (d_npas d) (gstats cf l iv jv))
                    (block (2 * d_npas d + 1) (var_rank iv jv) (rescale cf (d_npas d) (accumulate1 cf d l))))
              (side_index (d_npas d) k o) = Some oc /\
    o_sw oc == S /\
    (S <= 0 -> o_gg oc = None /\ o_hh oc = None) /\
    (0 < S -> exists g, o_gg oc = Some (g, g) /\ g == G / S - centring l iv jv).
Proof.
  intros Hdim Hj Hi Hk Ho. cbv zeta.
  pose proof (accumulate1_cov cf d Hcalc Hloop Hchk Hdp Htol Hps0 Hcodir n l iv jv k o Hdim Hj Hi Hk Ho) as A. cbv zeta in A.
  assert (Hasym : is_asym (c_calc cf) = true) by (destruct Hcalc as [E|E]; rewrite E; reflexivity).
  rewrite dir_address_side in A.
  set (nt := (2 * d_npas d + 1)%nat) in *. set (i := side_index (d_npas d) k o) in *.
  assert (Hi_nt : (i < nt)%nat) by (unfold i, side_index, nt; destruct o; lia).
  assert (Hi_c : i <> d_npas d) by (unfold i, side_index; destruct o; [lia|lia|congruence]).
  set (adr := (var_rank iv jv * nt + i)%nat) in *.
  assert (Hadr : (adr < length (accumulate1 cf d l))%nat).
  { rewrite accumulate1_length, Hasym. unfold adr, nt, i. rewrite <- dir_address_side. apply asym_address_bound; assumption. }
  set (c := nth adr (accumulate1 cf d l) cell0) in *.
  exists (center_patch_cell cf (d_npas d) (gstats cf l iv jv) i (rescale_cell cf (d_npas d) i c)).
  split.
  - rewrite nth_error_mapi, nth_error_block by exact Hi_nt. fold adr.
    unfold rescale. rewrite nth_error_mapi, (nth_error_nth_default _ adr cell0 Hadr). fold c.
    cbn [option_map]. rewrite Hasym. cbn [nlagtot]. fold nt.
    f_equal. f_equal. f_equal. unfold adr. rewrite Nat.add_comm, Nat.mod_add by (unfold nt; lia). apply Nat.mod_small. exact Hi_nt.
  - destruct A as (A1 & A2 & A3).
    unfold center_patch_cell, centring. destruct (norm_means cf (gstats cf l iv jv)) as [m1 m2].
    rewrite (proj2 (Nat.eqb_neq i (d_npas d)) Hi_c).
    unfold rescale_cell.
    destruct (qleb_spec (a_sw c) 0) as [Hz|Hz].
    + assert (Hn : qltb 0 (a_sw c) = false) by (apply qltb_false; exact Hz).
      destruct Hcalc as [E|E]; rewrite E; cbn [o_sw o_gg o_hh]; rewrite ?Hn; cbn [o_sw o_gg o_hh];
        (split; [exact A1|]); (split; [intros _; split; reflexivity|]); intro Hp; exfalso; lra.
    + assert (Hp : qltb 0 (a_sw c) = true) by (apply qltb_true; lra).
      assert (E23 : Qred (a_glo c / a_sw c) = Qred (a_ghi c / a_sw c)) by (apply Qred_complete; rewrite A2, A3; reflexivity).
      destruct Hcalc as [E|E]; rewrite E; cbn [o_sw o_gg o_hh is_asym andb]; rewrite ?Hp; cbn [o_sw o_gg o_hh];
        (split; [exact A1|]); (split; [intro Hn; exfalso; lra|]); intros _; unfold iv_div, iv_sub; cbn [fst snd]; rewrite <- E23.
      * exists (Qred (Qred (a_glo c / a_sw c) - m1 * m2)). split; [reflexivity|].
        rewrite !Qred_correct, A1, A2. reflexivity.
      * exists (Qred (a_glo c / a_sw c)). split; [reflexivity|].
        rewrite Qred_correct, A1, A2. ring.
Qed.

(* the centre of the block is what _patchC00 writes: total weight, zero distance, weighted mean of the products of the
   samples where both variables are known (minus the product of the means when centred) *)
Lemma solution1_cov_centre l iv jv arr_block :
  (d_npas d < length arr_block)%nat ->
  let t := gstats cf l iv jv in
  exists oc, nth_error (mapi (center_patch_cell cf (d_npas d) t) arr_block) (d_npas d) = Some oc /\
    o_sw oc = t_sumw t /\ o_hh oc = Some (0, 0) /\
    o_gg oc = (if qeqb (t_s12w t) 0 then None
               else let v := match c_calc cf with
                             | Cov => let (m1, m2) := norm_means cf t in Qred (t_s12wzz t / t_s12w t - m1 * m2)
                             | _ => Qred (t_s12wzz t / t_s12w t) end in Some (v, v)).
Proof.
  intros Hlen. cbv zeta.
  destruct (nth_error arr_block (d_npas d)) as [c0|] eqn:E0; [|apply nth_error_None in E0; lia].
  exists (center_patch_cell cf (d_npas d) (gstats cf l iv jv) (d_npas d) c0).
  split; [rewrite nth_error_mapi, E0; reflexivity|].
  unfold center_patch_cell. destruct (norm_means cf (gstats cf l iv jv)) as [m1 m2].
  rewrite Nat.eqb_refl. cbn [o_sw o_hh o_gg].
  repeat split. destruct Hcalc as [E|E]; rewrite E; destruct (qeqb (t_s12w (gstats cf l iv jv)) 0); reflexivity.
Qed.
End CovOut.

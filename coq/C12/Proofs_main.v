(* C12 proofs, part 6: the accumulated array vs the pairwise sums over the unsorted data; permutation; translation. *)
From Coq Require Import List ZArith QArith Qabs Qround Qminmax Bool Lqa Lia Permutation.
From Gst Require Import lib.QAux C12.Model C12.Spec C12.Proofs_enum C12.Proofs_lag C12.Proofs_acc C12.Proofs_geom C12.Proofs_vg.
Import ListNotations.
Local Open Scope Q_scope.

Lemma filter_perm {A} (f : A -> bool) l l' : Permutation l l' -> Permutation (filter f l) (filter f l').
Proof.
  intro Hp. induction Hp as [|x l l' Hp IH|x y l|l l' l'' Hp1 IH1 Hp2 IH2]; cbn.
  - constructor.
  - destruct (f x); [constructor|]; exact IH.
  - destruct (f x), (f y); try reflexivity. apply perm_swap.
  - rewrite IH1. exact IH2.
Qed.

Lemma unskipped_usable cf s : negb (skip cf s) = usable cf s.
Proof. unfold skip, usable, is_active. destruct (c_hasSel cf), (s_sel s); reflexivity. Qed.

Lemma filter_ext_eq {A} (f g : A -> bool) l : (forall x, f x = g x) -> filter f l = filter g l.
Proof. intro H. induction l as [|x r IH]; cbn; [reflexivity|]. rewrite H, IH. reflexivity. Qed.

(* sum of a field over the updates of all reached pairs = sum over all pairs of usable samples of the sorted list *)
Lemma fsum_reached1 ufld cf d means l k :
  c_dateLoop cf = false -> 0 < d_dpas d -> 0 <= d_tol d ->
  fsum ufld k (flat_map (fun p => pair_updates cf d means (fst p) (snd p)) (reached1 cf d l))
  == pair_sum (fun a b => fsum ufld k (pair_updates cf d means a b)) (filter (usable cf) (sort_x1 l)).
Proof.
  intros Hd H1 H2. rewrite fsum_flat_map. rewrite (reached1_all_pairs cf d l Hd H1 H2).
  unfold pair_sum.
  rewrite (all_pairs_filter (usable cf) (sort_x1 l)).
  rewrite (filter_ext_eq (unskipped cf) (fun p => usable cf (fst p) && usable cf (snd p))).
  - reflexivity.
  - intro p. unfold unskipped. rewrite !unskipped_usable. reflexivity.
Qed.

Lemma sumQ_flat_map_fst {A} (g : A -> list (Q * Q)) (h : A -> Q) (proj : Q * Q -> Q) l :
  (forall x, sumQ (map proj (g x)) == h x) -> sumQ (map proj (flat_map g l)) == sumQ (map h l).
Proof.
  intro H. induction l as [|x r IH]; [reflexivity|].
  cbn [flat_map map]. rewrite map_app, sumQ_app, sumQ_cons, IH, H. reflexivity.
Qed.

Section VgMain.
Variables (cf : cfg) (d : dirp).
Hypothesis Hcalc : c_calc cf = Vg.
Hypothesis Hloop : c_dateLoop cf = false.
Hypothesis Hchk : c_dateChk cf = false.
Hypothesis Hdp : 0 < d_dpas d.
Hypothesis Htol : 0 <= d_tol d.
Hypothesis Hps0 : 0 <= d_psmin d.
Hypothesis Hps1 : d_psmin d <= 1.
Hypothesis Hcodir : 0 < Qred (dot (d_codir d) (d_codir d)).

Lemma vg_sw_pair_sum iv jv k l :
  vg_sw cf d iv jv k l == pair_sum (vg_pair_sw cf d iv jv k) (filter (usable cf) l).
Proof.
  unfold vg_sw, vg_terms, pair_sum.
  apply sumQ_flat_map_fst. intros [a b]. cbn [fst snd]. unfold vg_pair_sw.
  destruct (pair_in d k a b); [|reflexivity].
  destruct (defined2 a b iv jv) as [[[[z11 z12] z21] z22]|]; cbn; ring.
Qed.
Lemma vg_num_pair_sum iv jv k l :
  vg_num cf d iv jv k l == pair_sum (vg_pair_num cf d iv jv k) (filter (usable cf) l).
Proof.
  unfold vg_num, vg_terms, pair_sum.
  apply sumQ_flat_map_fst. intros [a b]. cbn [fst snd]. unfold vg_pair_num.
  destruct (pair_in d k a b); [|reflexivity].
  destruct (defined2 a b iv jv) as [[[[z11 z12] z21] z22]|]; cbn; ring.
Qed.

(* the pairwise sums do not depend on the order of the samples *)
Lemma vg_sums_perm iv jv k l l' :
  Permutation l l' -> vg_sw cf d iv jv k l == vg_sw cf d iv jv k l' /\ vg_num cf d iv jv k l == vg_num cf d iv jv k l'.
Proof.
  intro Hp. rewrite !vg_sw_pair_sum, !vg_num_pair_sum. split.
  - apply pair_sum_perm; [intros a b; apply vg_pair_sw_swap|apply filter_perm; exact Hp].
  - apply pair_sum_perm; [intros a b; apply vg_pair_num_swap|apply filter_perm; exact Hp].
Qed.

(* raw accumulators of solution 1 = pairwise sums over the data in their original order *)
Lemma accumulate1_vg l iv jv k :
  (jv <= iv)%nat -> (iv < c_nvar cf)%nat -> (k < d_npas d)%nat ->
  let c := nth (dir_address false (d_npas d) iv jv k Ozero) (accumulate1 cf d l) cell0 in
  a_sw c == vg_sw cf d iv jv k l /\ a_glo c == vg_num cf d iv jv k l /\ a_ghi c == vg_num cf d iv jv k l.
Proof.
  intros Hj Hi Hk. cbv zeta.
  unfold accumulate1, zero_arr. rewrite Hcalc. cbn [is_asym].
  set (adr := dir_address false (d_npas d) iv jv k Ozero).
  assert (Hadr : (adr < dir_size false (d_npas d) (c_nvar cf))%nat) by (apply sym_address_bound; assumption).
  destruct (apply_upds_sums _ (flat_map (fun p => pair_updates cf d (stat_means cf l) (fst p) (snd p)) (reached1 cf d l)) adr Hadr)
    as (S1 & _ & _ & S4 & S5).
  cbn [spec_cell a_sw a_glo a_ghi] in S1, S4, S5.
  rewrite S1, S4, S5. unfold sum_sw, sum_glo, sum_ghi.
  change (sumQ (map ?f (at_addr adr ?us))) with (fsum f adr us).
  rewrite !(fsum_reached1 _ cf d _ l adr Hloop Hdp Htol).
  pose proof (sort_perm l) as Hp.
  destruct (vg_sums_perm iv jv k _ _ Hp) as [P1 P2].
  rewrite <- P1, <- P2. rewrite vg_sw_pair_sum, vg_num_pair_sum.
  repeat split; apply sumQ_map_ext; intros [a b] _; cbn [fst snd];
    destruct (vg_pair_fields cf d Hcalc Hchk Hdp Hps0 Hcodir (stat_means cf l) a b iv jv k Hj Hi Hk) as (F1 & F2 & F3); assumption.
Qed.
End VgMain.

(* ---------------------------------------------------------------- translation *)
Section Translation.
Variable t : list Q.
Local Notation tr := (translate t).
Definition dim_ok (s : sample) : Prop := length (s_x s) = length t.

Lemma x1_translate_diff a b : dim_ok a -> dim_ok b -> x1 (tr a) - x1 (tr b) == x1 a - x1 b.
Proof.
  unfold dim_ok, x1, tr, translate. cbn [s_x]. intros Ha Hb.
  destruct t as [|z t']; destruct (s_x a) as [|xa ra]; destruct (s_x b) as [|xb rb]; cbn in *; try discriminate; ring.
Qed.
Lemma qleb_translate a b : dim_ok a -> dim_ok b -> qleb (x1 (tr a)) (x1 (tr b)) = qleb (x1 a) (x1 b).
Proof.
  intros Ha Hb. pose proof (x1_translate_diff a b Ha Hb) as E.
  destruct (qleb_spec (x1 (tr a)) (x1 (tr b))), (qleb_spec (x1 a) (x1 b)); try reflexivity; exfalso; lra.
Qed.
Lemma insert_translate a l : dim_ok a -> Forall dim_ok l -> insert (tr a) (map tr l) = map tr (insert a l).
Proof.
  intros Ha Hl. induction Hl as [|b r Hb Hr IH]; [reflexivity|].
  cbn [map insert]. rewrite (qleb_translate a b Ha Hb).
  destruct (qleb (x1 a) (x1 b)); cbn [map]; [reflexivity|]. rewrite IH. reflexivity.
Qed.
Lemma insert_dim a l : dim_ok a -> Forall dim_ok l -> Forall dim_ok (insert a l).
Proof.
  intros Ha Hl. eapply Permutation_Forall; [symmetry; apply insert_perm|]. constructor; assumption.
Qed.
Lemma sort_dim l : Forall dim_ok l -> Forall dim_ok (sort_x1 l).
Proof. intro H. eapply Permutation_Forall; [symmetry; apply sort_perm|exact H]. Qed.
Lemma sort_translate l : Forall dim_ok l -> sort_x1 (map tr l) = map tr (sort_x1 l).
Proof.
  intro Hl. induction Hl as [|a r Ha Hr IH]; [reflexivity|].
  unfold sort_x1 in *. cbn [map fold_right]. rewrite IH.
  apply insert_translate; [exact Ha|]. apply (sort_dim r Hr).
Qed.

Definition trp (p : sample * sample) : sample * sample := (tr (fst p), tr (snd p)).
Lemma inner_translate cf md a js : dim_ok a -> Forall dim_ok js ->
  inner cf md (tr a) (map tr js) = map trp (inner cf md a js).
Proof.
  intros Ha Hj. induction Hj as [|b r Hb Hr IH]; [reflexivity|].
  cbn [map inner].
  assert (E : qltb md (x1 (tr a) - x1 (tr b)) = qltb md (x1 a - x1 b)).
  { pose proof (x1_translate_diff a b Ha Hb) as E.
    destruct (qltb_spec md (x1 (tr a) - x1 (tr b))), (qltb_spec md (x1 a - x1 b)); try reflexivity; exfalso; lra. }
  rewrite E. destruct (qltb md (x1 a - x1 b)); [reflexivity|].
  change (skip cf (tr b)) with (skip cf b).
  destruct (skip cf b); cbn [map]; rewrite IH; reflexivity.
Qed.
Lemma outer1_translate cf md all cur : Forall dim_ok all -> Forall dim_ok cur ->
  outer1 cf md (map tr all) (map tr cur) = map trp (outer1 cf md all cur).
Proof.
  intros Hall Hcur. induction Hcur as [|a rest Ha Hr IH]; [reflexivity|].
  cbn [map outer1]. destruct rest as [|b rest']; [reflexivity|].
  cbn [map] in *. rewrite map_app. rewrite IH. f_equal.
  change (skip cf (tr a)) with (skip cf a).
  destruct (skip cf a); [reflexivity|].
  destruct (c_dateLoop cf).
  - apply inner_translate; assumption.
  - apply (inner_translate cf md a (b :: rest')); assumption.
Qed.

Lemma pair_updates_translate cf d means a b : dim_ok a -> dim_ok b ->
  pair_updates cf d means (tr a) (tr b) = pair_updates cf d means a b.
Proof.
  intros Ha Hb. unfold pair_updates.
  change (geo_of (d_codir d) (vsub (s_x (tr b)) (s_x (tr a)))) with (geo_pair d (tr a) (tr b)).
  change (geo_of (d_codir d) (vsub (s_x b) (s_x a))) with (geo_pair d a b).
  rewrite (geo_translate d t a b Ha Hb). reflexivity.
Qed.

Lemma flat_map_trp cf d means ps :
  Forall (fun p => dim_ok (fst p) /\ dim_ok (snd p)) ps ->
  flat_map (fun p => pair_updates cf d means (fst p) (snd p)) (map trp ps) =
  flat_map (fun p => pair_updates cf d means (fst p) (snd p)) ps.
Proof.
  intro H. induction H as [|p r [Hp1 Hp2] Hr IH]; [reflexivity|].
  cbn [map flat_map]. rewrite IH. unfold trp. cbn [fst snd]. rewrite pair_updates_translate by assumption. reflexivity.
Qed.

(* sample statistics do not read the coordinates *)
Lemma fold_left_translate {B} (g : B -> sample -> B) l acc :
  (forall x s, g x (tr s) = g x s) -> fold_left g (map tr l) acc = fold_left g l acc.
Proof. intro H. revert acc. induction l as [|s r IH]; intro acc; cbn; [reflexivity|]. rewrite H. apply IH. Qed.
Lemma filter_translate (f : sample -> bool) l : (forall s, f (tr s) = f s) -> filter f (map tr l) = map tr (filter f l).
Proof. intro H. induction l as [|s r IH]; cbn; [reflexivity|]. rewrite H. destruct (f s); cbn; rewrite IH; reflexivity. Qed.
Lemma firstn_map {A B} (f : A -> B) n l : firstn n (map f l) = map f (firstn n l).
Proof. revert l. induction n as [|n IH]; intro l; [reflexivity|]. destruct l; cbn; [reflexivity|]. rewrite IH. reflexivity. Qed.

Lemma stat_means_translate cf l : stat_means cf (map tr l) = stat_means cf l.
Proof.
  unfold stat_means. apply map_ext. intro iv. unfold stat_mean.
  rewrite firstn_map, (filter_translate (is_active cf)) by reflexivity.
  rewrite !fold_left_translate by reflexivity. reflexivity.
Qed.
Lemma gstats_translate cf l iv jv : gstats cf (map tr l) iv jv = gstats cf l iv jv.
Proof. unfold gstats. apply fold_left_translate. reflexivity. Qed.

Lemma reached1_dims cf d l p : Forall dim_ok l -> In p (reached1 cf d l) -> dim_ok (fst p) /\ dim_ok (snd p).
Proof.
  intros Hl Hin. unfold reached1 in Hin.
  apply (outer1_sound cf (maxdist d) (sort_x1 l) (sort_x1 l) p (fun x H => H)) in Hin.
  destruct Hin as (A & B & _).
  pose proof (sort_dim l Hl) as Hs. rewrite Forall_forall in Hs. split; apply Hs; assumption.
Qed.

Lemma solution1_translate cf d l : Forall dim_ok l -> solution1 cf d (map tr l) = solution1 cf d l.
Proof.
  intro Hl. unfold solution1, accumulate1, finish.
  rewrite stat_means_translate.
  assert (E : reached1 cf d (map tr l) = map trp (reached1 cf d l)).
  { unfold reached1. rewrite (sort_translate l Hl). apply outer1_translate; apply sort_dim; exact Hl. }
  rewrite E. rewrite flat_map_trp.
  - apply map_ext. intros [iv jv]. rewrite gstats_translate. reflexivity.
  - apply Forall_forall. intros p Hp. apply (reached1_dims cf d l p Hl Hp).
Qed.
End Translation.

(* C12 proofs, part 6: the accumulated array vs the pairwise sums over the unsorted data; permutation; translation. *)
From Coq Require Import List ZArith QArith Qabs Qround Qminmax Bool Lqa Lia Permutation.
From Gst Require Import lib.QAux C12.Model C12.Spec C12.Proofs_enum C12.Proofs_lag C12.Proofs_acc C12.Proofs_geom C12.Proofs_vg.
Import ListNotations.
Local Open Scope Q_scope.

Lemma filter_perm {A} (f : A -> bool) l l' : Permutation l l' -> Permutation (filter f l) (filter f l').
Proof.
  intro Hp. induction Hp as [|x l l' Hp IH|x y l|l l' l'' Hp1 IH1 Hp2 IH2]; cbn.
  - constructor.
  - destruct (f x); [constructor|]; exact IH.
  - destruct (f x), (f y); try reflexivity. apply perm_swap.
  - rewrite IH1. exact IH2.
Qed.

Lemma unskipped_usable cf s : negb (skip cf s) = usable cf s.
Proof. unfold skip, usable, is_active. destruct (c_hasSel cf), (s_sel s); reflexivity. Qed.

Lemma filter_ext_eq {A} (f g : A -> bool) l : (forall x, f x = g x) -> filter f l = filter g l.
Proof. intro H. induction l as [|x r IH]; cbn; [reflexivity|]. rewrite H, IH. reflexivity. Qed.

(* ---------------------------------------------------------------- the 1-D pruning is harmless *)
Definition same_dim (n : nat) (s : sample) : Prop := length (s_x s) = n.

Lemma dot_self_nonneg v : 0 <= dot v v.
Proof. induction v as [|x r IH]; cbn [dot]; [lra|nra]. Qed.
Lemma g_d2_ge_dx1 d n a b : same_dim n a -> same_dim n b ->
  (x1 b - x1 a) * (x1 b - x1 a) <= g_d2 (geo_pair d a b).
Proof.
  unfold same_dim, x1, geo_pair, geo_of. cbn [g_d2]. rewrite Qred_correct. intros Ha Hb.
  destruct (s_x a) as [|xa ra]; destruct (s_x b) as [|xb rb]; cbn in *; try lra; try congruence.
  pose proof (dot_self_nonneg (vsub rb ra)). nra.
Qed.
(* a pair whose first coordinates differ by more than maxdist adds nothing *)
Lemma pair_updates_far cf d means n a b :
  0 < d_dpas d -> 0 <= d_tol d -> same_dim n a -> same_dim n b ->
  maxdist d < x1 b - x1 a \/ maxdist d < x1 a - x1 b -> pair_updates cf d means a b = [].
Proof.
  intros Hdp Htol Ha Hb Hfar.
  pose proof (g_d2_ge_dx1 d n a b Ha Hb) as Hge.
  assert (Hd2 : 0 <= g_d2 (geo_pair d a b)) by (apply (g_d2_nonneg d)).
  assert (HL : lag_rank d (g_d2 (geo_pair d a b)) = None).
  { destruct Hfar as [H|H].
    - apply (beyond_maxdist_no_lag d Hdp Htol _ (x1 b - x1 a) Hd2 Hge H).
    - apply (beyond_maxdist_no_lag d Hdp Htol _ (x1 a - x1 b) Hd2); [|exact H].
      setoid_replace ((x1 a - x1 b) * (x1 a - x1 b)) with ((x1 b - x1 a) * (x1 b - x1 a)) by ring. exact Hge. }
  unfold pair_updates. fold (geo_pair d a b). rewrite HL.
  destruct (isOK d (is_asym (c_calc cf)) (geo_pair d a b)); [reflexivity|].
  destruct (c_dateChk cf && negb (date_ok d a b)); reflexivity.
Qed.

(* what the evaluators add for the pairs actually visited = what they would add for all the pairs of the loop *)
Lemma reached1_updates cf d means n l :
  0 < d_dpas d -> 0 <= d_tol d -> Forall (same_dim n) l ->
  flat_map (fun p => pair_updates cf d means (fst p) (snd p)) (reached1 cf d l) =
  flat_map (fun p => pair_updates cf d means (fst p) (snd p))
           (filter (unskipped cf) (loop_pairs (c_dateLoop cf) [] (sort_x1 l))).
Proof.
  intros Hdp Htol Hl. unfold reached1.
  apply (outer1_P cf (maxdist d) (fun p => pair_updates cf d means (fst p) (snd p)) (same_dim n)).
  - intros a b Ha Hb Hfar. cbn [fst snd]. apply (pair_updates_far cf d means n a b Hdp Htol Ha Hb Hfar).
  - constructor.
  - eapply Permutation_Forall; [symmetry; apply sort_perm|exact Hl].
  - apply sort_sorted.
Qed.

(* the pairs for which _evaluate is called: accepted by every checker and falling in a lag *)
Definition evaluated (cf : cfg) (d : dirp) (p : sample * sample) : bool :=
  match isOK d (is_asym (c_calc cf)) (geo_pair d (fst p) (snd p)) with
  | Rej => false
  | Acc _ => if c_dateChk cf && negb (date_ok d (fst p) (snd p)) then false
             else match lag_rank d (g_d2 (geo_pair d (fst p) (snd p))) with Some _ => true | None => false end
  end.
Lemma flat_map_filter {A} (f : A -> bool) l : flat_map (fun x => if f x then [x] else []) l = filter f l.
Proof. induction l as [|x r IH]; [reflexivity|]. cbn. destruct (f x); cbn; rewrite IH; reflexivity. Qed.
Lemma reached1_evaluated cf d n l :
  0 < d_dpas d -> 0 <= d_tol d -> Forall (same_dim n) l ->
  filter (evaluated cf d) (reached1 cf d l) =
  filter (evaluated cf d) (filter (unskipped cf) (loop_pairs (c_dateLoop cf) [] (sort_x1 l))).
Proof.
  intros Hdp Htol Hl.
  rewrite <- (flat_map_filter (evaluated cf d) (reached1 cf d l)).
  rewrite <- (flat_map_filter (evaluated cf d) (filter (unskipped cf) _)). unfold reached1.
  apply (outer1_P cf (maxdist d) (fun p => if evaluated cf d p then [p] else []) (same_dim n)).
  - intros a b Ha Hb Hfar.
    assert (E : evaluated cf d (a, b) = false); [|rewrite E; reflexivity].
    pose proof (g_d2_ge_dx1 d n a b Ha Hb) as Hge.
    assert (Hd2 : 0 <= g_d2 (geo_pair d a b)) by (apply (g_d2_nonneg d)).
    assert (HL : lag_rank d (g_d2 (geo_pair d a b)) = None).
    { destruct Hfar as [H|H].
      - apply (beyond_maxdist_no_lag d Hdp Htol _ (x1 b - x1 a) Hd2 Hge H).
      - apply (beyond_maxdist_no_lag d Hdp Htol _ (x1 a - x1 b) Hd2); [|exact H].
        setoid_replace ((x1 a - x1 b) * (x1 a - x1 b)) with ((x1 b - x1 a) * (x1 b - x1 a)) by ring. exact Hge. }
    unfold evaluated. cbn [fst snd]. rewrite HL.
    destruct (isOK d (is_asym (c_calc cf)) (geo_pair d a b)); [reflexivity|].
    destruct (c_dateChk cf && negb (date_ok d a b)); reflexivity.
  - constructor.
  - eapply Permutation_Forall; [symmetry; apply sort_perm|exact Hl].
  - apply sort_sorted.
Qed.

Lemma unskipped_pair cf p : unskipped cf p = usable cf (fst p) && usable cf (snd p).
Proof. unfold unskipped. rewrite !unskipped_usable. reflexivity. Qed.

(* sum of a field over the updates of all reached pairs = sum over all pairs of usable samples of the sorted list *)
Lemma fsum_reached1 ufld cf d means n l k :
  c_dateLoop cf = false -> 0 < d_dpas d -> 0 <= d_tol d -> Forall (same_dim n) l ->
  fsum ufld k (flat_map (fun p => pair_updates cf d means (fst p) (snd p)) (reached1 cf d l))
  == pair_sum (fun a b => fsum ufld k (pair_updates cf d means a b)) (filter (usable cf) (sort_x1 l)).
Proof.
  intros Hd H1 H2 Hl. rewrite (reached1_updates cf d means n l H1 H2 Hl), Hd, loop_pairs_nodate.
  rewrite fsum_flat_map. unfold pair_sum.
  rewrite (all_pairs_filter (usable cf) (sort_x1 l)).
  rewrite (filter_ext_eq (unskipped cf) (fun p => usable cf (fst p) && usable cf (snd p)) _ (unskipped_pair cf)).
  reflexivity.
Qed.

(* in date mode every pair is met in both orders *)
Lemma filter_map_swap (t : sample -> bool) (ps : list (sample * sample)) :
  filter (fun p => t (fst p) && t (snd p)) (map swap ps) = map swap (filter (fun p => t (fst p) && t (snd p)) ps).
Proof.
  induction ps as [|[a b] r IH]; [reflexivity|]. cbn [map filter swap fst snd].
  rewrite (andb_comm (t b) (t a)). destruct (t a && t b); cbn [map swap fst snd]; rewrite IH; reflexivity.
Qed.
Lemma fsum_reached1_dates ufld cf d means n l k :
  c_dateLoop cf = true -> 0 < d_dpas d -> 0 <= d_tol d -> Forall (same_dim n) l ->
  fsum ufld k (flat_map (fun p => pair_updates cf d means (fst p) (snd p)) (reached1 cf d l))
  == pair_sum (fun a b => fsum ufld k (pair_updates cf d means a b)) (filter (usable cf) (sort_x1 l)) +
     pair_sum (fun a b => fsum ufld k (pair_updates cf d means b a)) (filter (usable cf) (sort_x1 l)).
Proof.
  intros Hd H1 H2 Hl. rewrite (reached1_updates cf d means n l H1 H2 Hl), Hd.
  rewrite fsum_flat_map.
  rewrite (filter_ext_eq (unskipped cf) (fun p => usable cf (fst p) && usable cf (snd p)) _ (unskipped_pair cf)).
  rewrite (sumQ_perm _ (map (fun x => fsum ufld k (pair_updates cf d means (fst x) (snd x)))
                            (filter (fun p => usable cf (fst p) && usable cf (snd p)) (ordered_pairs (sort_x1 l))))).
  2:{ apply Permutation_map. apply filter_perm. apply loop_pairs_ordered. }
  unfold ordered_pairs. rewrite filter_app, map_app, sumQ_app.
  rewrite filter_map_swap, <- !(all_pairs_filter (usable cf) (sort_x1 l)).
  unfold pair_sum. rewrite map_map. cbn [swap fst snd]. reflexivity.
Qed.

Lemma sumQ_flat_map_fst {A} (g : A -> list (Q * Q)) (h : A -> Q) (proj : Q * Q -> Q) l :
  (forall x, sumQ (map proj (g x)) == h x) -> sumQ (map proj (flat_map g l)) == sumQ (map h l).
Proof.
  intro H. induction l as [|x r IH]; [reflexivity|].
  cbn [flat_map map]. rewrite map_app, sumQ_app, sumQ_cons, IH, H. reflexivity.
Qed.

Section VgMain.
Variables (cf : cfg) (d : dirp).
Hypothesis Hcalc : c_calc cf = Vg.
Hypothesis Hchk : c_dateChk cf = false.
Hypothesis Hdp : 0 < d_dpas d.
Hypothesis Htol : 0 <= d_tol d.
Hypothesis Hps0 : 0 <= d_psmin d.
Hypothesis Hcodir : 0 < Qred (dot (d_codir d) (d_codir d)).

Lemma vg_sw_pair_sum iv jv k l :
  vg_sw cf d iv jv k l == pair_sum (vg_pair_sw cf d iv jv k) (filter (usable cf) l).
Proof.
  unfold vg_sw, vg_terms, pair_sum.
  apply sumQ_flat_map_fst. intros [a b]. cbn [fst snd]. unfold vg_pair_sw.
  rewrite (dchk_off cf d a b Hchk), andb_true_r.
  destruct (pair_in d k a b); [|reflexivity].
  destruct (defined2 a b iv jv) as [[[[z11 z12] z21] z22]|]; cbn; ring.
Qed.
Lemma vg_num_pair_sum iv jv k l :
  vg_num cf d iv jv k l == pair_sum (vg_pair_num cf d iv jv k) (filter (usable cf) l).
Proof.
  unfold vg_num, vg_terms, pair_sum.
  apply sumQ_flat_map_fst. intros [a b]. cbn [fst snd]. unfold vg_pair_num.
  rewrite (dchk_off cf d a b Hchk), andb_true_r.
  destruct (pair_in d k a b); [|reflexivity].
  destruct (defined2 a b iv jv) as [[[[z11 z12] z21] z22]|]; cbn; ring.
Qed.

(* the pairwise sums do not depend on the order of the samples *)
Lemma vg_sums_perm iv jv k l l' :
  Permutation l l' -> vg_sw cf d iv jv k l == vg_sw cf d iv jv k l' /\ vg_num cf d iv jv k l == vg_num cf d iv jv k l'.
Proof.
  intro Hp. rewrite !vg_sw_pair_sum, !vg_num_pair_sum. split.
  - apply pair_sum_perm; [intros a b; apply vg_pair_sw_swap; exact Hchk|apply filter_perm; exact Hp].
  - apply pair_sum_perm; [intros a b; apply vg_pair_num_swap; exact Hchk|apply filter_perm; exact Hp].
Qed.

(* raw accumulators of solution 1 = pairwise sums over the data in their original order *)
Lemma accumulate1_vg n l iv jv k :
  c_dateLoop cf = false -> Forall (same_dim n) l ->
  (jv <= iv)%nat -> (iv < c_nvar cf)%nat -> (k < d_npas d)%nat ->
  let c := nth (dir_address false (d_npas d) iv jv k Ozero) (accumulate1 cf d l) cell0 in
  a_sw c == vg_sw cf d iv jv k l /\ a_glo c == vg_num cf d iv jv k l /\ a_ghi c == vg_num cf d iv jv k l.
Proof.
  intros Hloop Hdim Hj Hi Hk. cbv zeta.
  unfold accumulate1, zero_arr. rewrite Hcalc. cbn [is_asym].
  set (adr := dir_address false (d_npas d) iv jv k Ozero).
  assert (Hadr : (adr < dir_size false (d_npas d) (c_nvar cf))%nat) by (apply sym_address_bound; assumption).
  destruct (apply_upds_sums _ (flat_map (fun p => pair_updates cf d (stat_means cf l) (fst p) (snd p)) (reached1 cf d l)) adr Hadr)
    as (S1 & _ & _ & S4 & S5).
  cbn [spec_cell a_sw a_glo a_ghi] in S1, S4, S5.
  rewrite S1, S4, S5. unfold sum_sw, sum_glo, sum_ghi.
  change (sumQ (map ?f (at_addr adr ?us))) with (fsum f adr us).
  rewrite !(fsum_reached1 _ cf d _ n l adr Hloop Hdp Htol Hdim).
  pose proof (sort_perm l) as Hp.
  destruct (vg_sums_perm iv jv k _ _ Hp) as [P1 P2].
  rewrite <- P1, <- P2. rewrite vg_sw_pair_sum, vg_num_pair_sum.
  repeat split; apply sumQ_map_ext; intros [a b] _; cbn [fst snd];
    destruct (vg_pair_fields cf d Hcalc Hdp Hps0 Hcodir (stat_means cf l) a b iv jv k Hj Hi Hk) as (F1 & F2 & F3); assumption.
Qed.
End VgMain.

(* date mode: every ordered pair (a, b), a <> b, passing the date test date(b) - date(a) in [dmin, dmax) *)
Definition opair_sum {A} (f : A -> A -> Q) (l : list A) : Q := pair_sum f l + pair_sum (fun a b => f b a) l.
Lemma pair_sum_plus {A} (f g : A -> A -> Q) l : pair_sum f l + pair_sum g l == pair_sum (fun a b => f a b + g a b) l.
Proof.
  unfold pair_sum. induction (all_pairs l) as [|p r IH]; [reflexivity|].
  cbn [map]. rewrite !sumQ_cons, <- IH. ring.
Qed.
Lemma opair_sum_perm {A} (f : A -> A -> Q) l l' : Permutation l l' -> opair_sum f l == opair_sum f l'.
Proof.
  intro Hp. unfold opair_sum. rewrite !pair_sum_plus.
  apply pair_sum_perm; [intros a b; ring|exact Hp].
Qed.

Lemma accumulate1_vg_dates cf d n l iv jv k :
  c_calc cf = Vg -> c_dateLoop cf = true ->
  0 < d_dpas d -> 0 <= d_tol d -> 0 <= d_psmin d -> 0 < Qred (dot (d_codir d) (d_codir d)) ->
  Forall (same_dim n) l ->
  (jv <= iv)%nat -> (iv < c_nvar cf)%nat -> (k < d_npas d)%nat ->
  let c := nth (dir_address false (d_npas d) iv jv k Ozero) (accumulate1 cf d l) cell0 in
  a_sw c == opair_sum (vg_pair_sw cf d iv jv k) (filter (usable cf) l) /\
  a_glo c == opair_sum (vg_pair_num cf d iv jv k) (filter (usable cf) l) /\
  a_ghi c == opair_sum (vg_pair_num cf d iv jv k) (filter (usable cf) l).
Proof.
  intros Hcalc Hloop Hdp Htol Hps0 Hcodir Hdim Hj Hi Hk. cbv zeta.
  unfold accumulate1, zero_arr. rewrite Hcalc. cbn [is_asym].
  set (adr := dir_address false (d_npas d) iv jv k Ozero).
  assert (Hadr : (adr < dir_size false (d_npas d) (c_nvar cf))%nat) by (apply sym_address_bound; assumption).
  destruct (apply_upds_sums _ (flat_map (fun p => pair_updates cf d (stat_means cf l) (fst p) (snd p)) (reached1 cf d l)) adr Hadr)
    as (S1 & _ & _ & S4 & S5).
  cbn [spec_cell a_sw a_glo a_ghi] in S1, S4, S5.
  rewrite S1, S4, S5. unfold sum_sw, sum_glo, sum_ghi.
  change (sumQ (map ?f (at_addr adr ?us))) with (fsum f adr us).
  rewrite !(fsum_reached1_dates _ cf d _ n l adr Hloop Hdp Htol Hdim).
  assert (Hp : Permutation (filter (usable cf) (sort_x1 l)) (filter (usable cf) l)) by (apply filter_perm; apply sort_perm).
  rewrite <- !(opair_sum_perm _ _ _ Hp). unfold opair_sum, pair_sum.
  repeat split; (apply Qplus_comp; apply sumQ_map_ext; intros [a b] _; cbn [fst snd]);
    try (destruct (vg_pair_fields cf d Hcalc Hdp Hps0 Hcodir (stat_means cf l) a b iv jv k Hj Hi Hk) as (F1 & F2 & F3); assumption);
    destruct (vg_pair_fields cf d Hcalc Hdp Hps0 Hcodir (stat_means cf l) b a iv jv k Hj Hi Hk) as (F1 & F2 & F3); assumption.
Qed.

(* ---------------------------------------------------------------- translation *)
Section Translation.
Variable t : list Q.
Local Notation tr := (translate t).
Definition dim_ok (s : sample) : Prop := length (s_x s) = length t.

Lemma x1_translate_diff a b : dim_ok a -> dim_ok b -> x1 (tr a) - x1 (tr b) == x1 a - x1 b.
Proof.
  unfold dim_ok, x1, tr, translate. cbn [s_x]. intros Ha Hb.
  destruct t as [|z t']; destruct (s_x a) as [|xa ra]; destruct (s_x b) as [|xb rb]; cbn in *; try discriminate; ring.
Qed.
Lemma qleb_translate a b : dim_ok a -> dim_ok b -> qleb (x1 (tr a)) (x1 (tr b)) = qleb (x1 a) (x1 b).
Proof.
  intros Ha Hb. pose proof (x1_translate_diff a b Ha Hb) as E.
  destruct (qleb_spec (x1 (tr a)) (x1 (tr b))), (qleb_spec (x1 a) (x1 b)); try reflexivity; exfalso; lra.
Qed.
Lemma insert_translate a l : dim_ok a -> Forall dim_ok l -> insert (tr a) (map tr l) = map tr (insert a l).
Proof.
  intros Ha Hl. induction Hl as [|b r Hb Hr IH]; [reflexivity|].
  cbn [map insert]. rewrite (qleb_translate a b Ha Hb).
  destruct (qleb (x1 a) (x1 b)); cbn [map]; [reflexivity|]. rewrite IH. reflexivity.
Qed.
Lemma insert_dim a l : dim_ok a -> Forall dim_ok l -> Forall dim_ok (insert a l).
Proof.
  intros Ha Hl. eapply Permutation_Forall; [symmetry; apply insert_perm|]. constructor; assumption.
Qed.
Lemma sort_dim l : Forall dim_ok l -> Forall dim_ok (sort_x1 l).
Proof. intro H. eapply Permutation_Forall; [symmetry; apply sort_perm|exact H]. Qed.
Lemma sort_translate l : Forall dim_ok l -> sort_x1 (map tr l) = map tr (sort_x1 l).
Proof.
  intro Hl. induction Hl as [|a r Ha Hr IH]; [reflexivity|].
  unfold sort_x1 in *. cbn [map fold_right]. rewrite IH.
  apply insert_translate; [exact Ha|]. apply (sort_dim r Hr).
Qed.

Definition trp (p : sample * sample) : sample * sample := (tr (fst p), tr (snd p)).
Lemma qltb_translate md a b : dim_ok a -> dim_ok b -> qltb md (x1 (tr b) - x1 (tr a)) = qltb md (x1 b - x1 a).
Proof.
  intros Ha Hb. pose proof (x1_translate_diff b a Hb Ha) as E.
  destruct (qltb_spec md (x1 (tr b) - x1 (tr a))), (qltb_spec md (x1 b - x1 a)); try reflexivity; exfalso; lra.
Qed.
Lemma inner_after_translate cf md a js : dim_ok a -> Forall dim_ok js ->
  inner_after cf md (tr a) (map tr js) = map trp (inner_after cf md a js).
Proof.
  intros Ha Hj. induction Hj as [|b r Hb Hr IH]; [reflexivity|].
  cbn [map inner_after]. rewrite (qltb_translate md a b Ha Hb).
  destruct (qltb md (x1 b - x1 a)); [reflexivity|].
  change (skip cf (tr b)) with (skip cf b).
  destruct (skip cf b); cbn [map]; rewrite IH; reflexivity.
Qed.
Lemma inner_before_translate cf md a js : dim_ok a -> Forall dim_ok js ->
  inner_before cf md (tr a) (map tr js) = map trp (inner_before cf md a js).
Proof.
  intros Ha Hj. induction Hj as [|b r Hb Hr IH]; [reflexivity|].
  cbn [map inner_before]. rewrite (qltb_translate md b a Hb Ha).
  destruct (qltb md (x1 a - x1 b)); [exact IH|].
  change (skip cf (tr b)) with (skip cf b).
  destruct (skip cf b); cbn [map]; rewrite IH; reflexivity.
Qed.
Lemma partners_translate cf md pre a rest : dim_ok a -> Forall dim_ok pre -> Forall dim_ok rest ->
  partners cf md (map tr pre) (tr a) (map tr rest) = map trp (partners cf md pre a rest).
Proof.
  intros Ha Hp Hr. unfold partners. rewrite map_app, (inner_after_translate cf md a rest Ha Hr).
  destruct (c_dateLoop cf); [rewrite (inner_before_translate cf md a pre Ha Hp)|]; reflexivity.
Qed.
Lemma outer1_translate cf md pre cur : Forall dim_ok pre -> Forall dim_ok cur ->
  outer1 cf md (map tr pre) (map tr cur) = map trp (outer1 cf md pre cur).
Proof.
  intros Hpre Hcur. revert pre Hpre. induction Hcur as [|a rest Ha Hr IH]; intros pre Hpre; [reflexivity|].
  cbn [map outer1]. rewrite map_app.
  assert (Hpre' : Forall dim_ok (pre ++ [a])) by (apply Forall_app; split; [exact Hpre|constructor; [exact Ha|constructor]]).
  rewrite <- (IH (pre ++ [a]) Hpre'). rewrite map_app. cbn [map]. f_equal.
  change (skip cf (tr a)) with (skip cf a).
  destruct (skip cf a); [reflexivity|]. apply partners_translate; assumption.
Qed.

Lemma pair_updates_translate cf d means a b : dim_ok a -> dim_ok b ->
  pair_updates cf d means (tr a) (tr b) = pair_updates cf d means a b.
Proof.
  intros Ha Hb. unfold pair_updates.
  change (geo_of (d_codir d) (vsub (s_x (tr b)) (s_x (tr a)))) with (geo_pair d (tr a) (tr b)).
  change (geo_of (d_codir d) (vsub (s_x b) (s_x a))) with (geo_pair d a b).
  rewrite (geo_translate d t a b Ha Hb). reflexivity.
Qed.

Lemma flat_map_trp cf d means ps :
  Forall (fun p => dim_ok (fst p) /\ dim_ok (snd p)) ps ->
  flat_map (fun p => pair_updates cf d means (fst p) (snd p)) (map trp ps) =
  flat_map (fun p => pair_updates cf d means (fst p) (snd p)) ps.
Proof.
  intro H. induction H as [|p r [Hp1 Hp2] Hr IH]; [reflexivity|].
  cbn [map flat_map]. rewrite IH. unfold trp. cbn [fst snd]. rewrite pair_updates_translate by assumption. reflexivity.
Qed.

(* sample statistics do not read the coordinates *)
Lemma fold_left_translate {B} (g : B -> sample -> B) l acc :
  (forall x s, g x (tr s) = g x s) -> fold_left g (map tr l) acc = fold_left g l acc.
Proof. intro H. revert acc. induction l as [|s r IH]; intro acc; cbn; [reflexivity|]. rewrite H. apply IH. Qed.
Lemma filter_translate (f : sample -> bool) l : (forall s, f (tr s) = f s) -> filter f (map tr l) = map tr (filter f l).
Proof. intro H. induction l as [|s r IH]; cbn; [reflexivity|]. rewrite H. destruct (f s); cbn; rewrite IH; reflexivity. Qed.
Lemma firstn_map {A B} (f : A -> B) n l : firstn n (map f l) = map f (firstn n l).
Proof. revert l. induction n as [|n IH]; intro l; [reflexivity|]. destruct l; cbn; [reflexivity|]. rewrite IH. reflexivity. Qed.

Lemma stat_means_translate cf l : stat_means cf (map tr l) = stat_means cf l.
Proof.
  unfold stat_means. apply map_ext. intro iv. unfold stat_mean.
  rewrite (filter_translate (is_active cf)) by reflexivity.
  rewrite !fold_left_translate by reflexivity. reflexivity.
Qed.
Lemma gstats_translate cf l iv jv : gstats cf (map tr l) iv jv = gstats cf l iv jv.
Proof. unfold gstats. apply fold_left_translate. reflexivity. Qed.

Lemma reached1_dims cf d l p : Forall dim_ok l -> In p (reached1 cf d l) -> dim_ok (fst p) /\ dim_ok (snd p).
Proof.
  intros Hl Hin. unfold reached1 in Hin.
  apply (outer1_sound cf (maxdist d) [] (sort_x1 l) p) in Hin.
  destruct Hin as (A & B & _). cbn [app] in B.
  pose proof (sort_dim l Hl) as Hs. rewrite Forall_forall in Hs. split; apply Hs; assumption.
Qed.

Lemma solution1_translate cf d l : Forall dim_ok l -> solution1 cf d (map tr l) = solution1 cf d l.
Proof.
  intro Hl. unfold solution1, accumulate1, finish.
  rewrite stat_means_translate.
  assert (E : reached1 cf d (map tr l) = map trp (reached1 cf d l)).
  { unfold reached1. rewrite (sort_translate l Hl). apply (outer1_translate cf (maxdist d) []); [constructor|apply sort_dim; exact Hl]. }
  rewrite E. rewrite flat_map_trp.
  - apply map_ext. intros [iv jv]. rewrite gstats_translate. reflexivity.
  - apply Forall_forall. intros p Hp. apply (reached1_dims cf d l p Hl Hp).
Qed.
End Translation.

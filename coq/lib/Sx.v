(* Sx: the universal case/result format shared by every model runner.
   A case is an s-expression over integers; rationals travel as (mantissa exponent)
   dyadics on input and as (num den) on output.  Decoders are total: a malformed
   case yields [None], which [run] functions turn into the error result. *)
From Coq Require Import List ZArith QArith.
Import ListNotations.
Local Open Scope Z_scope.

Inductive sx := I (z : Z) | L (l : list sx).

Definition sx_error (code : Z) : sx := L [I (-999); I code].

Definition asZ (s : sx) : option Z := match s with I z => Some z | L _ => None end.
Definition asL (s : sx) : option (list sx) := match s with L l => Some l | I _ => None end.
Definition asB (s : sx) : option bool :=
  match s with I z => Some (negb (Z.eqb z 0)) | L _ => None end.
Definition asNat (s : sx) : option nat :=
  match s with I z => if Z.ltb z 0 then None else Some (Z.to_nat z) | L _ => None end.

(* dyadic (m e) = m * 2^e *)
Definition dyadic (m e : Z) : Q :=
  if Z.leb 0 e then inject_Z (m * 2 ^ e) else Qmake m (Z.to_pos (2 ^ (- e))).
Definition asQ (s : sx) : option Q :=
  match s with
  | L [I m; I e] => Some (dyadic m e)
  | _ => None
  end.

Fixpoint mapM {A B} (f : A -> option B) (l : list A) : option (list B) :=
  match l with
  | [] => Some []
  | x :: r => match f x, mapM f r with
              | Some y, Some ys => Some (y :: ys)
              | _, _ => None
              end
  end.

Definition asListOf {A} (f : sx -> option A) (s : sx) : option (list A) :=
  match s with L l => mapM f l | I _ => None end.

(* optional rational: (m e) or the atom 0 list () for NA *)
Definition asOQ (s : sx) : option (option Q) :=
  match s with
  | L [] => Some None
  | L [I m; I e] => Some (Some (dyadic m e))
  | _ => None
  end.

Definition ofB (b : bool) : sx := I (if b then 1 else 0).
Definition ofNat (n : nat) : sx := I (Z.of_nat n).
Definition ofQ (q : Q) : sx := let r := Qred q in L [I (Qnum r); I (Zpos (Qden r))].
Definition ofOQ (o : option Q) : sx := match o with Some q => ofQ q | None => L [] end.
Definition ofList {A} (f : A -> sx) (l : list A) : sx := L (map f l).

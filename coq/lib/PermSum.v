(* PermSum: finite sums are invariant under a permutation of the index range. *)
From Coq Require Import List Arith QArith Lqa Lia Permutation.
From Gst Require Import lib.QAux lib.LinAlgQ.
Import ListNotations.
Local Open Scope Q_scope.

Fixpoint lsum (l : list Q) : Q := match l with [] => 0 | x :: r => x + lsum r end.

Lemma lsum_app l1 l2 : lsum (l1 ++ l2) == lsum l1 + lsum l2.
Proof. induction l1 as [|x r IH]; cbn [lsum app]; [ring|]. rewrite IH. ring. Qed.

Lemma sumn_lsum n f : sumn n f == lsum (map f (seq 0 n)).
Proof.
  induction n as [|n IH]; [reflexivity|].
  rewrite seq_S, map_app, lsum_app. cbn [sumn map lsum Nat.add]. rewrite IH. ring.
Qed.

Lemma lsum_perm l l' : Permutation l l' -> lsum l == lsum l'.
Proof. induction 1; cbn [lsum]; try lra. Qed.

(* pi lists a permutation of 0..n-1 *)
Definition is_perm (n : nat) (pi : list nat) : Prop := Permutation pi (seq 0 n).

Lemma is_perm_length n pi : is_perm n pi -> length pi = n.
Proof. intro H. rewrite (Permutation_length H). apply seq_length. Qed.

Lemma map_nth_seq {A} (l : list A) d : map (fun i => nth i l d) (seq 0 (length l)) = l.
Proof.
  induction l as [|x r IH]; [reflexivity|].
  cbn [length]. rewrite <- cons_seq. cbn [map nth]. f_equal.
  rewrite <- seq_shift, map_map. exact IH.
Qed.

Lemma sumn_perm n pi f :
  is_perm n pi -> sumn n (fun a => f (nth a pi O)) == sumn n f.
Proof.
  intro H. rewrite !sumn_lsum.
  assert (E : map (fun a => f (nth a pi O)) (seq 0 n) = map f pi).
  { rewrite <- (map_map (fun a => nth a pi O) f). f_equal.
    rewrite <- (is_perm_length n pi H). apply map_nth_seq. }
  rewrite E. apply lsum_perm. apply Permutation_map. exact H.
Qed.

Lemma is_perm_lt n pi a : is_perm n pi -> (a < n)%nat -> (nth a pi O < n)%nat.
Proof.
  intros H Ha.
  assert (In (nth a pi O) pi) by (apply nth_In; rewrite (is_perm_length n pi H); exact Ha).
  apply (Permutation_in _ H) in H0. apply in_seq in H0. lia.
Qed.

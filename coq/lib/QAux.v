(* QAux: boolean comparisons on Q with reflection lemmas, small helpers. *)
From Coq Require Import List ZArith QArith Qabs Qminmax Bool Lqa Lia.
Import ListNotations.
Local Open Scope Q_scope.

Definition qeqb (a b : Q) : bool := Qeq_bool a b.
Definition qltb (a b : Q) : bool := negb (Qle_bool b a).
Definition qleb (a b : Q) : bool := Qle_bool a b.

Lemma qeqb_spec a b : reflect (a == b) (qeqb a b).
Proof.
  unfold qeqb. destruct (Qeq_bool a b) eqn:E; constructor.
  - apply Qeq_bool_iff; exact E.
  - intro H. apply Qeq_bool_iff in H. congruence.
Qed.
Lemma qleb_spec a b : reflect (a <= b) (qleb a b).
Proof.
  unfold qleb. destruct (Qle_bool a b) eqn:E; constructor.
  - apply Qle_bool_iff; exact E.
  - intro H. apply Qle_bool_iff in H. congruence.
Qed.
Lemma qltb_spec a b : reflect (a < b) (qltb a b).
Proof.
  unfold qltb. destruct (Qle_bool b a) eqn:E; simpl; constructor.
  - apply Qle_bool_iff in E. intro H. lra.
  - destruct (Qlt_le_dec a b) as [H1|H1]; [exact H1|].
    apply Qle_bool_iff in H1. congruence.
Qed.
Lemma qltb_spec' a b : reflect (a < b) (qltb a b).
Proof. exact (qltb_spec a b). Qed.

Lemma qltb_true a b : qltb a b = true <-> a < b.
Proof. destruct (qltb_spec a b); split; intros; try assumption; try reflexivity; try discriminate; contradiction. Qed.
Lemma qleb_true a b : qleb a b = true <-> a <= b.
Proof. destruct (qleb_spec a b); split; intros; try assumption; try reflexivity; try discriminate; contradiction. Qed.
Lemma qeqb_true a b : qeqb a b = true <-> a == b.
Proof. destruct (qeqb_spec a b); split; intros; try assumption; try reflexivity; try discriminate; contradiction. Qed.
Lemma qltb_false a b : qltb a b = false <-> b <= a.
Proof. destruct (qltb_spec a b); split; intros; try reflexivity; try discriminate; lra. Qed.
Lemma qleb_false a b : qleb a b = false <-> b < a.
Proof. destruct (qleb_spec a b); split; intros; try reflexivity; try discriminate; lra. Qed.
Lemma qeqb_false a b : qeqb a b = false <-> ~ a == b.
Proof. destruct (qeqb_spec a b); split; intros; try reflexivity; try discriminate; try assumption; contradiction. Qed.

Global Instance qltb_proper : Proper (Qeq ==> Qeq ==> eq) qltb.
Proof. intros a a' Ha b b' Hb. destruct (qltb_spec a b), (qltb_spec a' b'); try reflexivity; exfalso; lra. Qed.
Global Instance qleb_proper : Proper (Qeq ==> Qeq ==> eq) qleb.
Proof. intros a a' Ha b b' Hb. destruct (qleb_spec a b), (qleb_spec a' b'); try reflexivity; exfalso; lra. Qed.
Global Instance qeqb_proper : Proper (Qeq ==> Qeq ==> eq) qeqb.
Proof. intros a a' Ha b b' Hb. destruct (qeqb_spec a b), (qeqb_spec a' b'); try reflexivity; exfalso; lra. Qed.

(* x < n/d  <->  x*d*d < n*d   (d <> 0) *)
Lemma Qlt_div_sq x n d : ~ d == 0 -> (x < n / d <-> x * d * d < n * d).
Proof.
  intro Hd.
  assert (Hsq : 0 < d * d) by (destruct (Qlt_le_dec 0 d); [nra| assert (d < 0) by (destruct (Qeq_dec d 0); [contradiction|lra]); nra]).
  assert (E : n * d == (n / d) * (d * d)) by (field; exact Hd).
  rewrite E. split; intro H.
  - setoid_replace (x * d * d) with (x * (d * d)) by ring. apply Qmult_lt_compat_r; assumption.
  - setoid_replace (x * d * d) with (x * (d * d)) in H by ring.
    apply Qmult_lt_r in H; assumption.
Qed.
Lemma Qeq_div_sq x n d : ~ d == 0 -> (n / d == x <-> n == x * d).
Proof.
  intro Hd. split; intro H.
  - rewrite <- H. field. exact Hd.
  - rewrite H. field. exact Hd.
Qed.

(* LinAlgQ: finite sums and matrices over Q.
   Proof level : matrices are functions nat -> nat -> Q with explicit dimensions, sums are [sumn].
   Execution   : lists of rows built with [mk]; [get] bridges the two ([get_mk] is a syntactic equality).
   Inverses enter through the certificate pattern: [inv_checked] runs an unverified Gauss-Jordan
   elimination and accepts its result only after checking both products against the identity exactly. *)
From Coq Require Import List Arith ZArith QArith Bool Lqa Lia Setoid Morphisms.
From Gst Require Import lib.QAux.
Import ListNotations.
Local Open Scope Q_scope.

(* ------------------------------------------------------------------ finite sums *)
Fixpoint sumn (n : nat) (f : nat -> Q) : Q :=
  match n with O => 0 | S k => sumn k f + f k end.

Lemma sumn_ext n f g : (forall i, (i < n)%nat -> f i == g i) -> sumn n f == sumn n g.
Proof.
  induction n as [|n IH]; intro H; cbn [sumn]; [reflexivity|].
  rewrite IH by (intros i Hi; apply H; lia). rewrite (H n) by lia. reflexivity.
Qed.

Lemma sumn_zero n f : (forall i, (i < n)%nat -> f i == 0) -> sumn n f == 0.
Proof.
  induction n as [|n IH]; intro H; cbn [sumn]; [reflexivity|].
  rewrite IH by (intros i Hi; apply H; lia). rewrite (H n) by lia. ring.
Qed.

Lemma sumn_add n f g : sumn n (fun i => f i + g i) == sumn n f + sumn n g.
Proof. induction n as [|n IH]; cbn [sumn]; [ring|]. rewrite IH. ring. Qed.

Lemma sumn_sub n f g : sumn n (fun i => f i - g i) == sumn n f - sumn n g.
Proof. induction n as [|n IH]; cbn [sumn]; [ring|]. rewrite IH. ring. Qed.

Lemma sumn_scal_l n c f : sumn n (fun i => c * f i) == c * sumn n f.
Proof. induction n as [|n IH]; cbn [sumn]; [ring|]. rewrite IH. ring. Qed.

Lemma sumn_scal_r n c f : sumn n (fun i => f i * c) == sumn n f * c.
Proof. induction n as [|n IH]; cbn [sumn]; [ring|]. rewrite IH. ring. Qed.

Lemma sumn_swap n m (f : nat -> nat -> Q) :
  sumn n (fun i => sumn m (fun j => f i j)) == sumn m (fun j => sumn n (fun i => f i j)).
Proof.
  induction n as [|n IH]; cbn [sumn].
  - symmetry. apply sumn_zero. intros; reflexivity.
  - rewrite IH. rewrite <- sumn_add. reflexivity.
Qed.

Definition delta (i j : nat) : Q := if Nat.eqb i j then 1 else 0.

Lemma sumn_delta_l n i f : (i < n)%nat -> sumn n (fun k => delta i k * f k) == f i.
Proof.
  induction n as [|n IH]; intro Hi; [lia|]. cbn [sumn]. unfold delta at 2.
  destruct (Nat.eqb_spec i n) as [E|E].
  - subst i. rewrite sumn_zero; [ring|]. intros k Hk. unfold delta.
    destruct (Nat.eqb_spec n k); [lia|ring].
  - rewrite IH by lia. ring.
Qed.

Lemma sumn_delta_r n j f : (j < n)%nat -> sumn n (fun k => f k * delta k j) == f j.
Proof.
  intro Hj. rewrite (sumn_ext n _ (fun k => delta j k * f k)).
  - apply sumn_delta_l; exact Hj.
  - intros k _. unfold delta. rewrite (Nat.eqb_sym k j). ring.
Qed.

Lemma sumn_split n m f : sumn (n + m) f == sumn n f + sumn m (fun i => f (n + i)%nat).
Proof.
  induction m as [|m IH]; cbn [sumn].
  - rewrite Nat.add_0_r. ring.
  - replace (n + S m)%nat with (S (n + m)) by lia. cbn [sumn]. rewrite IH. ring.
Qed.

Lemma sumn_nonneg n f : (forall i, (i < n)%nat -> 0 <= f i) -> 0 <= sumn n f.
Proof.
  induction n as [|n IH]; intro H; cbn [sumn]; [lra|].
  assert (0 <= sumn n f) by (apply IH; intros; apply H; lia).
  assert (0 <= f n) by (apply H; lia). lra.
Qed.

(* ------------------------------------------------------------------ function-level matrices *)
Definition fmat := nat -> nat -> Q.
Definition fvec := nat -> Q.

Definition fmul (k : nat) (A B : fmat) : fmat := fun i j => sumn k (fun l => A i l * B l j).
Definition fmv (k : nat) (A : fmat) (x : fvec) : fvec := fun i => sumn k (fun l => A i l * x l).
Definition fdot (k : nat) (x y : fvec) : Q := sumn k (fun l => x l * y l).
Definition ftr (A : fmat) : fmat := fun i j => A j i.
Definition fsym (n : nat) (A : fmat) : Prop := forall i j, (i < n)%nat -> (j < n)%nat -> A i j == A j i.

(* B is a two-sided inverse of A in dimension n *)
Definition finv (n : nat) (A B : fmat) : Prop :=
  forall i j, (i < n)%nat -> (j < n)%nat ->
    fmul n A B i j == delta i j /\ fmul n B A i j == delta i j.

Lemma fmul_assoc n (A B C : fmat) i j :
  fmul n (fmul n A B) C i j == fmul n A (fmul n B C) i j.
Proof.
  unfold fmul.
  rewrite (sumn_ext n _ (fun l => sumn n (fun l0 => A i l0 * B l0 l * C l j)))
    by (intros l _; rewrite sumn_scal_r; reflexivity).
  rewrite sumn_swap. apply sumn_ext. intros l _.
  rewrite <- sumn_scal_l. apply sumn_ext. intros; ring.
Qed.

Lemma fmv_fmv n (A B : fmat) x i : fmv n A (fmv n B x) i == fmv n (fmul n A B) x i.
Proof.
  unfold fmv, fmul.
  rewrite (sumn_ext n (fun l => sumn n (fun l0 => A i l0 * B l0 l) * x l)
                      (fun l => sumn n (fun l0 => A i l0 * B l0 l * x l)))
    by (intros l _; rewrite sumn_scal_r; reflexivity).
  rewrite sumn_swap. apply sumn_ext. intros l _.
  rewrite <- sumn_scal_l. apply sumn_ext. intros; ring.
Qed.

Lemma fmv_ext n A A' x x' i :
  (forall l, (l < n)%nat -> A i l == A' i l) -> (forall l, (l < n)%nat -> x l == x' l) ->
  fmv n A x i == fmv n A' x' i.
Proof. intros HA Hx. unfold fmv. apply sumn_ext. intros l Hl. rewrite HA, Hx by exact Hl. reflexivity. Qed.

Lemma fmv_delta n x i : (i < n)%nat -> fmv n delta x i == x i.
Proof. intro Hi. unfold fmv. apply sumn_delta_l; exact Hi. Qed.

(* solving through the inverse *)
Lemma finv_solves n A B r i :
  finv n A B -> (i < n)%nat -> fmv n A (fmv n B r) i == r i.
Proof.
  intros H Hi. rewrite fmv_fmv. rewrite <- (fmv_delta n r i Hi).
  apply fmv_ext; [|intros; reflexivity]. intros l Hl. apply (H i l Hi Hl).
Qed.

Lemma finv_unique_solution n A B r w :
  finv n A B -> (forall i, (i < n)%nat -> fmv n A w i == r i) ->
  forall i, (i < n)%nat -> w i == fmv n B r i.
Proof.
  intros H Hw i Hi.
  rewrite (fmv_ext n B B r (fmv n A w) i) by (intros; try reflexivity; symmetry; apply Hw; assumption).
  rewrite fmv_fmv. rewrite <- (fmv_delta n w i Hi) at 1.
  apply fmv_ext; [|intros; reflexivity]. intros l Hl. symmetry. apply (H i l Hi Hl).
Qed.

Lemma fmul_ext n A A' B B' i j :
  (forall l, (l < n)%nat -> A i l == A' i l) -> (forall l, (l < n)%nat -> B l j == B' l j) ->
  fmul n A B i j == fmul n A' B' i j.
Proof. intros HA HB. unfold fmul. apply sumn_ext. intros l Hl. rewrite HA, HB by exact Hl. reflexivity. Qed.

Lemma fmul_delta_l n A i j : (i < n)%nat -> fmul n delta A i j == A i j.
Proof. intro Hi. unfold fmul. apply (sumn_delta_l n i (fun l => A l j) Hi). Qed.
Lemma fmul_delta_r n A i j : (j < n)%nat -> fmul n A delta i j == A i j.
Proof. intro Hj. unfold fmul. apply (sumn_delta_r n j (fun l => A i l) Hj). Qed.

(* inverses are unique (on the n x n block) *)
Lemma finv_unique n A B B' :
  finv n A B -> finv n A B' -> forall i j, (i < n)%nat -> (j < n)%nat -> B i j == B' i j.
Proof.
  intros H H' i j Hi Hj.
  rewrite <- (fmul_delta_r n B i j Hj).
  rewrite (fmul_ext n B B delta (fmul n A B') i j) by (intros; try reflexivity; symmetry; apply (H' l j); assumption).
  rewrite <- fmul_assoc.
  rewrite (fmul_ext n (fmul n B A) delta B' B' i j) by (intros; try reflexivity; apply (H i l); assumption).
  apply fmul_delta_l; exact Hi.
Qed.

Lemma fmul_tr n A B i j : fmul n (ftr B) (ftr A) i j == fmul n A B j i.
Proof. unfold fmul, ftr. apply sumn_ext. intros; ring. Qed.

Lemma delta_sym i j : delta i j = delta j i.
Proof. unfold delta. rewrite Nat.eqb_sym. reflexivity. Qed.

Lemma finv_tr n A B : finv n A B -> finv n (ftr A) (ftr B).
Proof.
  intros H i j Hi Hj. split.
  - rewrite fmul_tr. rewrite delta_sym. apply (H j i Hj Hi).
  - rewrite fmul_tr. rewrite delta_sym. apply (H j i Hj Hi).
Qed.

Lemma finv_ext_l n A A' B :
  (forall i j, (i < n)%nat -> (j < n)%nat -> A i j == A' i j) -> finv n A B -> finv n A' B.
Proof.
  intros E H i j Hi Hj. destruct (H i j Hi Hj) as [H1 H2]. split.
  - rewrite <- H1. apply fmul_ext; intros; [symmetry; apply E; assumption|reflexivity].
  - rewrite <- H2. apply fmul_ext; intros; [reflexivity|symmetry; apply E; assumption].
Qed.

(* the inverse of a symmetric matrix is symmetric *)
Lemma finv_sym n A B : fsym n A -> finv n A B -> fsym n B.
Proof.
  intros S H i j Hi Hj.
  assert (H' : finv n A (ftr B)).
  { apply (finv_ext_l n (ftr A) A); [|apply finv_tr; exact H].
    intros a b Ha Hb. unfold ftr. apply S; assumption. }
  apply (finv_unique n A B (ftr B) H H' i j Hi Hj).
Qed.

(* x . (B y) = (Bt x) . y *)
Lemma fdot_fmv n B x y : fdot n x (fmv n B y) == fdot n (fmv n (ftr B) x) y.
Proof.
  unfold fdot, fmv, ftr.
  rewrite (sumn_ext n _ (fun l => sumn n (fun l0 => x l * B l l0 * y l0)))
    by (intros l _; rewrite <- sumn_scal_l; apply sumn_ext; intros; ring).
  rewrite sumn_swap. apply sumn_ext. intros l _.
  rewrite <- sumn_scal_r. apply sumn_ext. intros; ring.
Qed.

Lemma fdot_ext n x x' y y' :
  (forall l, (l < n)%nat -> x l == x' l) -> (forall l, (l < n)%nat -> y l == y' l) -> fdot n x y == fdot n x' y'.
Proof. intros Hx Hy. unfold fdot. apply sumn_ext. intros l Hl. rewrite Hx, Hy by exact Hl. reflexivity. Qed.

Lemma fdot_comm n x y : fdot n x y == fdot n y x.
Proof. unfold fdot. apply sumn_ext. intros; ring. Qed.

(* dual form = primal form for a symmetric inverse:  r . (B z) = (B r) . z *)
Lemma dual_eq_primal n B r z : fsym n B -> fdot n r (fmv n B z) == fdot n (fmv n B r) z.
Proof.
  intro S. rewrite fdot_fmv. apply fdot_ext; [|intros; reflexivity].
  intros l Hl. unfold fmv, ftr. apply sumn_ext. intros k Hk. rewrite (S k l Hk Hl). reflexivity.
Qed.

(* ------------------------------------------------------------------ executable matrices *)
Definition mat := list (list Q).
Definition mk (n m : nat) (f : nat -> nat -> Q) : mat :=
  map (fun i => map (fun j => f i j) (seq 0 m)) (seq 0 n).
Definition vk (n : nat) (f : nat -> Q) : list Q := map f (seq 0 n).
Definition get (M : mat) (i j : nat) : Q := nth j (nth i M []) 0.
Definition vget (v : list Q) (i : nat) : Q := nth i v 0.

Lemma nth_map_seq {A} (f : nat -> A) n i d : (i < n)%nat -> nth i (map f (seq 0 n)) d = f i.
Proof.
  intro Hi. rewrite (nth_indep _ d (f 0%nat)) by (rewrite map_length, seq_length; exact Hi).
  rewrite map_nth. rewrite seq_nth by exact Hi. reflexivity.
Qed.

Lemma get_mk n m f i j : (i < n)%nat -> (j < m)%nat -> get (mk n m f) i j = f i j.
Proof.
  intros Hi Hj. unfold get, mk. rewrite (nth_map_seq _ n i [] Hi). apply nth_map_seq; exact Hj.
Qed.
Lemma vget_vk n f i : (i < n)%nat -> vget (vk n f) i = f i.
Proof. intro Hi. unfold vget, vk. apply nth_map_seq; exact Hi. Qed.
Lemma length_mk n m f : length (mk n m f) = n.
Proof. unfold mk. rewrite map_length, seq_length. reflexivity. Qed.
Lemma length_vk n f : length (vk n f) = n.
Proof. unfold vk. rewrite map_length, seq_length. reflexivity. Qed.

(* normalising variants for execution: entries are reduced fractions, equal (==) to the plain ones *)
Definition mkr (n m : nat) (f : nat -> nat -> Q) : mat := mk n m (fun i j => Qred (f i j)).
Definition vkr (n : nat) (f : nat -> Q) : list Q := vk n (fun i => Qred (f i)).
Lemma get_mkr n m f i j : (i < n)%nat -> (j < m)%nat -> get (mkr n m f) i j == f i j.
Proof. intros Hi Hj. unfold mkr. rewrite get_mk by assumption. apply Qred_correct. Qed.
Lemma vget_vkr n f i : (i < n)%nat -> vget (vkr n f) i == f i.
Proof. intro Hi. unfold vkr. rewrite vget_vk by assumption. apply Qred_correct. Qed.

(* sums that keep fractions reduced while accumulating *)
Fixpoint sumnr (n : nat) (f : nat -> Q) : Q :=
  match n with O => 0 | S k => Qred (sumnr k f + f k) end.
Lemma sumnr_sumn n f : sumnr n f == sumn n f.
Proof. induction n as [|n IH]; cbn [sumnr sumn]; [reflexivity|]. rewrite Qred_correct, IH. reflexivity. Qed.
Definition fmulr (k : nat) (A B : fmat) : fmat := fun i j => sumnr k (fun l => A i l * B l j).
Definition fmvr (k : nat) (A : fmat) (x : fvec) : fvec := fun i => sumnr k (fun l => A i l * x l).
Lemma fmulr_fmul k A B i j : fmulr k A B i j == fmul k A B i j.
Proof. apply sumnr_sumn. Qed.
Lemma fmvr_fmv k A x i : fmvr k A x i == fmv k A x i.
Proof. apply sumnr_sumn. Qed.

Definition mmul (n k m : nat) (A B : mat) : mat := mk n m (fmulr k (get A) (get B)).
Definition mmv (n k : nat) (A : mat) (x : list Q) : list Q := vk n (fmvr k (get A) (vget x)).
Lemma get_mmul n k m A B i j : (i < n)%nat -> (j < m)%nat -> get (mmul n k m A B) i j == fmul k (get A) (get B) i j.
Proof. intros Hi Hj. unfold mmul. rewrite get_mk by assumption. apply fmulr_fmul. Qed.
Lemma vget_mmv n k A x i : (i < n)%nat -> vget (mmv n k A x) i == fmv k (get A) (vget x) i.
Proof. intro Hi. unfold mmv. rewrite vget_vk by assumption. apply fmvr_fmv. Qed.
Definition mtr (n m : nat) (A : mat) : mat := mk n m (ftr (get A)).
Definition mid (n : nat) : mat := mk n n delta.
Definition vdot (k : nat) (x y : list Q) : Q := sumnr k (fun l => vget x l * vget y l).
Lemma vdot_fdot k x y : vdot k x y == fdot k (vget x) (vget y).
Proof. apply sumnr_sumn. Qed.

(* all entries of the n x m block equal *)
Definition mat_eqb (n m : nat) (A B : mat) : bool :=
  forallb (fun i => forallb (fun j => qeqb (get A i j) (get B i j)) (seq 0 m)) (seq 0 n).

Lemma mat_eqb_spec n m A B :
  mat_eqb n m A B = true -> forall i j, (i < n)%nat -> (j < m)%nat -> get A i j == get B i j.
Proof.
  unfold mat_eqb. intros H i j Hi Hj. rewrite forallb_forall in H.
  assert (Hin : In i (seq 0 n)) by (apply in_seq; lia). specialize (H i Hin).
  rewrite forallb_forall in H. assert (Hjn : In j (seq 0 m)) by (apply in_seq; lia). specialize (H j Hjn).
  apply qeqb_true in H. exact H.
Qed.

(* --- unverified Gauss-Jordan elimination with partial (first non-zero) pivoting --- *)
Definition row_scale (c : Q) (r : list Q) : list Q := map (fun x => Qred (c * x)) r.
Definition row_axpy (c : Q) (r s : list Q) : list Q := (* s - c*r *)
  map (fun p => Qred (snd p - c * fst p)) (combine r s).
Fixpoint find_pivot (col : nat) (rows : list (list Q)) (idx : nat) : option nat :=
  match rows with
  | [] => None
  | r :: rest => if qeqb (nth col r 0) 0 then find_pivot col rest (S idx) else Some idx
  end.
Fixpoint swap_to_front {A} (k : nat) (l : list A) : list A :=
  match k, l with
  | O, _ => l
  | S k', x :: rest => match swap_to_front k' rest with
                       | y :: rest' => y :: x :: rest'   (* not an exact swap, but a permutation: enough *)
                       | [] => l
                       end
  | _, [] => l
  end.
(* state: done rows (already reduced, pivot columns < col), todo rows *)
Fixpoint gj_loop (fuel col : nat) (done todo : list (list Q)) : option (list (list Q)) :=
  match fuel with
  | O => match todo with [] => Some done | _ => None end
  | S fuel' =>
      match todo with
      | [] => Some done
      | _ =>
        match find_pivot col todo 0 with
        | None => None
        | Some k =>
            match swap_to_front k todo with
            | [] => None
            | p :: rest =>
                let pv := nth col p 0 in
                let p' := row_scale (/ pv) p in
                let elim := fun r => row_axpy (nth col r 0) p' r in
                gj_loop fuel' (S col) (map elim done ++ [p']) (map elim rest)
            end
        end
      end
  end.
Definition augment (n : nat) (A : mat) : mat :=
  map (fun i => map (fun j => get A i j) (seq 0 n) ++ map (fun j => delta i j) (seq 0 n)) (seq 0 n).
Definition gauss_jordan (n : nat) (A : mat) : option mat :=
  match gj_loop n 0 [] (augment n A) with
  | Some rows => Some (map (fun r => skipn n r) rows)
  | None => None
  end.

Definition inv_checked (n : nat) (A : mat) : option mat :=
  match gauss_jordan n A with
  | Some B => if mat_eqb n n (mmul n n n A B) (mid n) && mat_eqb n n (mmul n n n B A) (mid n)
              then Some B else None
  | None => None
  end.

(* linear solve with certificate: Gauss-Jordan on [A | R] (unverified), accepted only if A.W == R exactly *)
Definition augment_rhs (n m : nat) (A R : mat) : mat :=
  map (fun i => map (fun j => get A i j) (seq 0 n) ++ map (fun j => get R i j) (seq 0 m)) (seq 0 n).
Definition solve_checked (n m : nat) (A R : mat) : option mat :=
  match gj_loop n 0 [] (augment_rhs n m A R) with
  | Some rows =>
      let W := map (fun r => skipn n r) rows in
      if mat_eqb n m (mmul n n m A W) R then Some W else None
  | None => None
  end.
Lemma solve_checked_correct n m A R W :
  solve_checked n m A R = Some W ->
  forall i j, (i < n)%nat -> (j < m)%nat -> fmul n (get A) (get W) i j == get R i j.
Proof.
  unfold solve_checked. destruct (gj_loop n 0 [] (augment_rhs n m A R)) as [rows|]; [|discriminate].
  destruct (mat_eqb n m (mmul n n m A (map (fun r => skipn n r) rows)) R) eqn:E; [|discriminate].
  intro H. injection H as H. subst W. intros i j Hi Hj.
  pose proof (mat_eqb_spec n m _ _ E i j Hi Hj) as H1. rewrite get_mmul in H1 by assumption. exact H1.
Qed.

Lemma inv_checked_correct n A B : inv_checked n A = Some B -> finv n (get A) (get B).
Proof.
  unfold inv_checked. destruct (gauss_jordan n A) as [B0|]; [|discriminate].
  destruct (mat_eqb n n (mmul n n n A B0) (mid n)) eqn:E1; [|discriminate].
  destruct (mat_eqb n n (mmul n n n B0 A) (mid n)) eqn:E2; [|discriminate].
  cbn [andb]. intro H. injection H as H. subst B0.
  intros i j Hi Hj. split.
  - pose proof (mat_eqb_spec n n _ _ E1 i j Hi Hj) as H1.
    unfold mid in H1. rewrite get_mmul, get_mk in H1 by assumption. exact H1.
  - pose proof (mat_eqb_spec n n _ _ E2 i j Hi Hj) as H2.
    unfold mid in H2. rewrite get_mmul, get_mk in H2 by assumption. exact H2.
Qed.

(* sub-matrix / sub-vector on an index list (iso -> hetero compression) *)
Definition msub (idx : list nat) (A : mat) : mat :=
  map (fun i => map (fun j => get A i j) idx) idx.
Definition msub_rows (idx : list nat) (m : nat) (A : mat) : mat :=
  map (fun i => map (fun j => get A i j) (seq 0 m)) idx.
Definition vsub (idx : list nat) (v : list Q) : list Q := map (vget v) idx.

Lemma get_msub idx A a b :
  (a < length idx)%nat -> (b < length idx)%nat ->
  get (msub idx A) a b = get A (nth a idx O) (nth b idx O).
Proof.
  intros Ha Hb. unfold get at 1, msub.
  set (f := fun i => map (fun j => get A i j) idx).
  rewrite (nth_indep _ [] (f O)) by (rewrite map_length; exact Ha).
  rewrite (map_nth f idx O a). unfold f.
  set (g := fun j => get A (nth a idx O) j).
  rewrite (nth_indep _ 0 (g O)) by (rewrite map_length; exact Hb).
  rewrite (map_nth g idx O b). reflexivity.
Qed.

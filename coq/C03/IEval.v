(* C03 — interval evaluation of the exp / cos / sin based structures.
   CoqInterval is used as a LIBRARY (DESIGN 2.3): [I] = floating-point intervals with Z mantissas/exponents,
   precision 100 bits.  Everything here is executable (vm_compute / extraction); the enclosure theorems are in
   Proofs_encl.v and rest on Interval's I.exp_correct, I.cos_correct, I.sin_correct, I.sqrt_correct, ...
     CovExponential.cpp:47  CovGaussian.cpp:50  CovSincard.cpp:48  CovMatern.cpp:69 (nu = 1/2, 3/2, 5/2)
     CovStable.cpp:47 (alpha = 1/2, 1, 3/2, 2)  CovCosinus.cpp:42  CovCosExp.cpp:48  CovStorkey.cpp:42
     CovGCspline.cpp:41  CovGCspline2.cpp:41 (logarithm: I.ln)
     on the sphere: CovGeometric.cpp:41, CovExponential.cpp:85, ACovFunc::_evaluateCovOnSphere (Legendre series)
   The cut-offs "h > MAX_EXP -> 0" (Exponential, Gaussian) and "h > 100 -> 0" (Cosexp) of the code are not
   mirrored: they change the value by less than exp(-100) < 4e-44. *)
From Coq Require Import List ZArith QArith Bool.
From Interval Require Import Specific_stdz Specific_ops Float_full Interval Xreal Basic.
From Gst Require Import lib.QAux C03.Table.
Import ListNotations.

Module F := SpecificFloat StdZRadix2.
Module I := FloatIntervalFull F.

Definition prec : F.precision := F.PtoP 100.
Definition iZ (z : Z) : I.type := I.fromZ prec z.
Definition iQ (q : Q) : I.type := I.div prec (iZ (Qnum q)) (iZ (Zpos (Qden q))).
(* an interval containing every real between lo and hi *)
Definition ibr (lo hi : Q) : I.type := I.join (iQ lo) (iQ hi).

Definition iadd := I.add prec.
Definition isub := I.sub prec.
Definition imul := I.mul prec.
Definition idiv := I.div prec.
Definition iexp := I.exp prec.
Definition icos := I.cos prec.
Definition isin := I.sin prec.
Definition isqrt := I.sqrt prec.
Definition ipow (x : I.type) (n : positive) := I.power_pos prec x n.
Definition iln := I.ln prec.

Definition two_pi : I.type := imul (iZ 2) (iQ gv_pi).        (* 2 * GV_PI, GV_PI the binary64 constant *)

Definition i_exponential (h : I.type) : I.type := iexp (I.neg h).
Definition i_gaussian (h : I.type) : I.type := iexp (I.neg (imul h h)).
Definition i_sinc (h : I.type) : I.type := idiv (isin h) h.
Definition i_matern32 (h : I.type) : I.type := imul (iadd (iZ 1) h) (iexp (I.neg h)).
Definition i_matern52 (h : I.type) : I.type :=
  imul (iadd (iadd (iZ 1) h) (idiv (imul h h) (iZ 3))) (iexp (I.neg h)).
(* exp(-(sqrt h)^k) = exp(-h^(k/2)) *)
Definition i_stable_half (k : positive) (h : I.type) : I.type := iexp (I.neg (ipow (isqrt h) k)).
Definition i_cosinus (h : I.type) : I.type := icos (imul two_pi h).
Definition i_cosexp (param : Q) (h : I.type) : I.type :=
  imul (iexp (I.neg h)) (icos (imul two_pi (idiv h (iQ param)))).
(* (2 (1-h) (1 + cos(2 pi h)/2) + 3/(2 pi) sin(2 pi h)) / 3 *)
Definition i_storkey_in (h : I.type) : I.type :=
  let a := imul two_pi h in
  idiv (iadd (imul (imul (iZ 2) (isub (iZ 1) h)) (iadd (iZ 1) (idiv (icos a) (iZ 2))))
             (imul (idiv (iZ 3) two_pi) (isin a)))
       (iZ 3).

(* generalised covariances with a logarithm.  [logv] = enclosure of the logarithmic term (0 under the guards of the code) *)
Definition i_ln2 : I.type := iln (iZ 2).
Definition i_spline (ndim : Z) (r : Q) (h logv : I.type) : I.type :=
  let r2 := imul (iQ r) (iQ r) in
  let h2 := imul h h in
  if Z.eqb ndim 1 then isub (imul (iQ (1#2)) r2) (imul h2 (isub (isub (iQ (3#2)) i_ln2) logv))
  else if Z.eqb ndim 2 then isub r2 (imul h2 (isub (iZ 1) logv))
  else isub (imul (iQ (3#2)) r2) (imul h2 (isub (isub (iQ (11#6)) i_ln2) logv)).
(* -(A + h2 (B + h2 (C + log h))), B = 1, A = (7 - 10 B)/12, C = (-7 - 2 B)/12 *)
Definition i_spline2 (h logv : I.type) : I.type :=
  let h2 := imul h h in
  I.neg (iadd (iQ (-(1#4))) (imul h2 (iadd (iZ 1) (imul h2 (iadd (iQ (-(3#4))) logv))))).

(* on the sphere: alpha = angular distance, rho / nu from the scale *)
Definition i_geometric_sph (rho : Q) (alpha : I.type) : I.type :=
  idiv (isub (iZ 1) (iQ rho))
       (isqrt (iadd (isub (iZ 1) (imul (imul (iZ 2) (iQ rho)) (icos alpha))) (imul (iQ rho) (iQ rho)))).
Definition i_exponential_sph (nu : Q) (alpha : I.type) : I.type := iexp (I.neg (imul (iQ nu) alpha)).
(* ACovFunc::_evaluateCovOnSphere: sum_{i=1}^{degree+1} P_{i-1}(cos alpha) * spectrum[i-1], Legendre recursion
   u2 = ((2i+1) c u1 - i u0)/(i+1) *)
Fixpoint i_legendre_loop (fuel : nat) (i : Z) (c u0 u1 : I.type) (sp : list Q) (acc : I.type) : I.type :=
  match fuel, sp with
  | S f, a :: rest =>
      let u2 := imul (idiv (iZ 1) (iZ (i + 1))) (isub (imul (imul (iZ (2 * i + 1)) c) u1) (imul (iZ i) u0)) in
      i_legendre_loop f (i + 1) c u1 u2 rest (iadd acc (imul u0 (iQ a)))
  | _, _ => acc
  end.
Definition i_sphere_series (sp : list Q) (alpha : I.type) : I.type :=
  let c := icos alpha in i_legendre_loop (length sp) 1 c (iZ 1) c sp (iZ 0).

(* float -> rational *)
Definition f2q (x : F.type) : option Q :=
  match x with
  | Specific_ops.Fnan => None
  | Specific_ops.Float m e =>
      Some (if Z.leb 0 e then inject_Z (m * 2 ^ e) else Qmake m (Z.to_pos (2 ^ (- e))))
  end.
Definition i2qq (x : I.type) : option (Q * Q) :=
  match x with
  | Float.Inan => None
  | Float.Ibnd l u => match f2q l, f2q u with Some a, Some b => Some (a, b) | _, _ => None end
  end.

(* the interval function of a transcendental structure; None = not in the executable model *)
Definition cor_transI (type : Z) (param : Q) (ndim : Z) (field : Q) (hlo hhi : Q) : option I.type :=
  let h := ibr hlo hhi in
  match type with
  | 14%Z => (* guards: r < 10e-5 or h < 1e-10 -> no logarithmic term *)
            if qltb field (1 # 10000) then Some (i_spline ndim field h (iZ 0))
            else if qleb (1 # 10000000000) hlo then Some (i_spline ndim field h (iln (idiv h (iQ field))))
            else if qltb hhi (1 # 10000000000) then Some (i_spline ndim field h (iZ 0)) else None
  | 22%Z => if qleb (1 # 10000) hlo then Some (i_spline2 h (iln h))
            else if qltb hhi (1 # 10000) then Some (i_spline2 h (iZ 0)) else None
  | 1%Z => Some (i_exponential h)
  | 3%Z => Some (i_gaussian h)
  | 5%Z => if qltb (1 # 100000) hlo then Some (i_sinc h)
           else if qleb hhi (1 # 100000) then Some (iZ 1) else None
  | 7%Z => if qeqb param (1#2) then Some (i_exponential h)
           else if qeqb param (3#2) then Some (i_matern32 h)
           else if qeqb param (5#2) then Some (i_matern52 h) else None
  | 10%Z => if qeqb param 1 then Some (i_exponential h)
            else if qeqb param 2 then Some (i_gaussian h)
            else if qeqb param (1#2) then Some (i_stable_half 1 h)
            else if qeqb param (3#2) then Some (i_stable_half 3 h) else None
  | 17%Z => Some (i_cosinus h)
  | 19%Z => if qltb 0 param then Some (i_cosexp param h) else None
  | 23%Z => if qltb hhi 1 then Some (i_storkey_in h)
            else if qleb 1 hlo then Some (iZ 0)
            else Some (I.join (i_storkey_in h) (iZ 0))
  | _ => None
  end.

(* CovExponential.cpp:96: Legendre spectrum of exp(-nu alpha) on the sphere, nu = scale * 2.995732, normalised *)
Fixpoint i_spec_exp (fuel : nat) (k : Z) (nu2 : I.type) (a b : I.type) : list I.type :=
  (* a = sp[k-2], b = sp[k-1]; produces sp[k], sp[k+1], ... *)
  match fuel with
  | O => []
  | S f =>
      let c := imul (imul (idiv (iZ (2 * k + 1)) (iZ (2 * k - 3)))
                          (idiv (iadd nu2 (iZ ((k - 2) * (k - 2)))) (iadd nu2 (iZ ((k + 1) * (k + 1)))))) a in
      c :: i_spec_exp f (k + 1) nu2 b c
  end.
Definition i_spectrum_exponential (scale : Q) (n : nat) : list I.type :=
  let nu := iQ (scale * (2995732 # 1000000)) in
  let nu2 := imul nu nu in
  let e := iexp (I.neg (imul nu (iQ gv_pi))) in
  let s0 := idiv (imul (iQ (1#2)) (iadd (iZ 1) e)) (iadd (iZ 1) nu2) in
  let s1 := idiv (imul (iQ (3#2)) (isub (iZ 1) e)) (iadd (iZ 4) nu2) in
  let raw := firstn (S n) (s0 :: s1 :: i_spec_exp (n - 1) 2 nu2 s0 s1) in
  let tot := fold_left iadd raw (iZ 0) in       (* every coefficient is >= 0: the L1 norm is the sum *)
  map (fun x => idiv x tot) raw.

(* covariance on the sphere at angular distance alpha (rational, in radians):
   ACovFunc::evalCovOnSphere(alpha, scale, degree).  [sp] = spectrum with degree+1 coefficients (series forms only) *)
Definition firstn_sum (n : nat) (l : list Q) : Q := fold_left Qplus (firstn n l) 0.
Definition sphere_covI (type : Z) (scale : Q) (degree : nat) (sp : option (list Q)) (alpha : Q) : option I.type :=
  match type with
  | 28%Z => if qleb 0 scale && qltb scale 1 then Some (i_geometric_sph scale (iQ alpha)) else None
  | 1%Z => Some (i_exponential_sph (scale * (2995732 # 1000000)) (iQ alpha))
  | 30%Z => Some (iQ (1 - 2 * alpha / gv_pi))
  | 7%Z =>
      match sp with
      | Some l => if qeqb alpha 0 then Some (iQ (firstn_sum degree l)) else Some (i_sphere_series l (iQ alpha))
      | None => None
      end
  | _ => None
  end.

Definition cor_trans (type : Z) (param : Q) (ndim : Z) (field : Q) (hlo hhi : Q) : option (Q * Q) :=
  match cor_transI type param ndim field hlo hhi with
  | Some x => i2qq x
  | None => None
  end.

(* C03 — interval evaluation of the exp / cos / sin based structures.
   CoqInterval is used as a LIBRARY (DESIGN 2.3): [I] = floating-point intervals with Z mantissas/exponents,
   precision 100 bits.  Everything here is executable (vm_compute / extraction); the enclosure theorems are in
   Proofs_encl.v and rest on Interval's I.exp_correct, I.cos_correct, I.sin_correct, I.sqrt_correct, ...
     CovExponential.cpp:47  CovGaussian.cpp:50  CovSincard.cpp:48  CovMatern.cpp:69 (nu = 1/2, 3/2, 5/2)
     CovStable.cpp:47 (alpha = 1/2, 1, 3/2, 2)  CovCosinus.cpp:42  CovCosExp.cpp:48  CovStorkey.cpp:42
   The cut-offs "h > MAX_EXP -> 0" (Exponential, Gaussian) and "h > 100 -> 0" (Cosexp) of the code are not
   mirrored: they change the value by less than exp(-100) < 4e-44. *)
From Coq Require Import List ZArith QArith Bool.
From Interval Require Import Specific_stdz Specific_ops Float_full Interval Xreal Basic.
From Gst Require Import lib.QAux C03.Table.
Import ListNotations.

Module F := SpecificFloat StdZRadix2.
Module I := FloatIntervalFull F.

Definition prec : F.precision := F.PtoP 100.
Definition iZ (z : Z) : I.type := I.fromZ prec z.
Definition iQ (q : Q) : I.type := I.div prec (iZ (Qnum q)) (iZ (Zpos (Qden q))).
(* an interval containing every real between lo and hi *)
Definition ibr (lo hi : Q) : I.type := I.join (iQ lo) (iQ hi).

Definition iadd := I.add prec.
Definition isub := I.sub prec.
Definition imul := I.mul prec.
Definition idiv := I.div prec.
Definition iexp := I.exp prec.
Definition icos := I.cos prec.
Definition isin := I.sin prec.
Definition isqrt := I.sqrt prec.
Definition ipow (x : I.type) (n : positive) := I.power_pos prec x n.

Definition two_pi : I.type := imul (iZ 2) (iQ gv_pi).        (* 2 * GV_PI, GV_PI the binary64 constant *)

Definition i_exponential (h : I.type) : I.type := iexp (I.neg h).
Definition i_gaussian (h : I.type) : I.type := iexp (I.neg (imul h h)).
Definition i_sinc (h : I.type) : I.type := idiv (isin h) h.
Definition i_matern32 (h : I.type) : I.type := imul (iadd (iZ 1) h) (iexp (I.neg h)).
Definition i_matern52 (h : I.type) : I.type :=
  imul (iadd (iadd (iZ 1) h) (idiv (imul h h) (iZ 3))) (iexp (I.neg h)).
(* exp(-(sqrt h)^k) = exp(-h^(k/2)) *)
Definition i_stable_half (k : positive) (h : I.type) : I.type := iexp (I.neg (ipow (isqrt h) k)).
Definition i_cosinus (h : I.type) : I.type := icos (imul two_pi h).
Definition i_cosexp (param : Q) (h : I.type) : I.type :=
  imul (iexp (I.neg h)) (icos (imul two_pi (idiv h (iQ param)))).
(* (2 (1-h) (1 + cos(2 pi h)/2) + 3/(2 pi) sin(2 pi h)) / 3 *)
Definition i_storkey_in (h : I.type) : I.type :=
  let a := imul two_pi h in
  idiv (iadd (imul (imul (iZ 2) (isub (iZ 1) h)) (iadd (iZ 1) (idiv (icos a) (iZ 2))))
             (imul (idiv (iZ 3) two_pi) (isin a)))
       (iZ 3).

(* float -> rational *)
Definition f2q (x : F.type) : option Q :=
  match x with
  | Specific_ops.Fnan => None
  | Specific_ops.Float m e =>
      Some (if Z.leb 0 e then inject_Z (m * 2 ^ e) else Qmake m (Z.to_pos (2 ^ (- e))))
  end.
Definition i2qq (x : I.type) : option (Q * Q) :=
  match x with
  | Float.Inan => None
  | Float.Ibnd l u => match f2q l, f2q u with Some a, Some b => Some (a, b) | _, _ => None end
  end.

(* the interval function of a transcendental structure; None = not in the executable model *)
Definition cor_transI (type : Z) (param : Q) (hlo hhi : Q) : option I.type :=
  let h := ibr hlo hhi in
  match type with
  | 1%Z => Some (i_exponential h)
  | 3%Z => Some (i_gaussian h)
  | 5%Z => if qltb (1 # 100000) hlo then Some (i_sinc h)
           else if qleb hhi (1 # 100000) then Some (iZ 1) else None
  | 7%Z => if qeqb param (1#2) then Some (i_exponential h)
           else if qeqb param (3#2) then Some (i_matern32 h)
           else if qeqb param (5#2) then Some (i_matern52 h) else None
  | 10%Z => if qeqb param 1 then Some (i_exponential h)
            else if qeqb param 2 then Some (i_gaussian h)
            else if qeqb param (1#2) then Some (i_stable_half 1 h)
            else if qeqb param (3#2) then Some (i_stable_half 3 h) else None
  | 17%Z => Some (i_cosinus h)
  | 19%Z => if qltb 0 param then Some (i_cosexp param h) else None
  | 23%Z => if qltb hhi 1 then Some (i_storkey_in h)
            else if qleb 1 hlo then Some (iZ 0)
            else Some (I.join (i_storkey_in h) (iZ 0))
  | _ => None
  end.

Definition cor_trans (type : Z) (param : Q) (hlo hhi : Q) : option (Q * Q) :=
  match cor_transI type param hlo hhi with
  | Some x => i2qq x
  | None => None
  end.

(* C03 — basic properties of the exp / cos / sin closed forms over R: value 1 at the origin, |cor| <= 1. *)
From Coq Require Import ZArith QArith Reals Qreals Lra.
From Gst Require Import lib.QAux C03.Table C03.Spec.
Local Open Scope R_scope.

Lemma exp_neg_bounds x : 0 <= x -> 0 < exp (- x) <= 1.
Proof.
  intro Hx. split; [apply exp_pos|].
  destruct (Req_dec x 0) as [E|E]; [subst; rewrite Ropp_0, exp_0; lra|].
  rewrite <- exp_0. left. apply exp_increasing. lra.
Qed.

Lemma exponential_basic : corR_exponential 0 = 1 /\ forall h, 0 <= h -> 0 < corR_exponential h <= 1.
Proof. unfold corR_exponential. split; [rewrite Ropp_0; apply exp_0|]. intros h Hh. apply exp_neg_bounds, Hh. Qed.

Lemma gaussian_basic : corR_gaussian 0 = 1 /\ forall h, 0 < corR_gaussian h <= 1.
Proof.
  unfold corR_gaussian. split; [rewrite Rmult_0_l, Ropp_0; apply exp_0|].
  intro h. apply exp_neg_bounds. nra.
Qed.

Lemma cosinus_basic : corR_cosinus 0 = 1 /\ forall h, -1 <= corR_cosinus h <= 1.
Proof. unfold corR_cosinus. split; [rewrite Rmult_0_r; apply cos_0|]. intro h. apply COS_bound. Qed.

Lemma cosexp_basic p : corR_cosexp p 0 = 1 /\ forall h, 0 <= h -> -1 <= corR_cosexp p h <= 1.
Proof.
  unfold corR_cosexp. split.
  - unfold Rdiv. rewrite Rmult_0_l, Rmult_0_r, cos_0, Ropp_0, exp_0. ring.
  - intros h Hh. pose proof (exp_neg_bounds h Hh) as [E0 E1]. pose proof (COS_bound (Rpi2 * (h / p))) as [C0 C1].
    split; nra.
Qed.

Lemma matern32_basic : corR_matern32 0 = 1 /\ forall h, 0 <= h -> 0 < corR_matern32 h <= 1.
Proof.
  unfold corR_matern32. split; [rewrite Ropp_0, exp_0; ring|].
  intros h Hh. split.
  - apply Rmult_lt_0_compat; [lra|apply exp_pos].
  - (* (1+h) e^{-h} <= 1  <=>  1 + h <= e^h *)
    assert (E : exp (- h) = / exp h) by apply exp_Ropp. rewrite E.
    assert (P : 0 < exp h) by apply exp_pos.
    assert (L : 1 + h <= exp h).
    { destruct (Req_dec h 0) as [Z|Z]; [subst; rewrite exp_0; lra|]. left. apply exp_ineq1. lra. }
    apply (Rmult_le_reg_r (exp h)); [exact P|]. rewrite Rmult_assoc, Rinv_l by lra. lra.
Qed.

Lemma sinc_basic : forall h, 0 < h -> -1 <= corR_sinc h <= 1.
Proof.
  intros h Hh. unfold corR_sinc.
  assert (U : sin h < h) by (apply sin_lt_x; exact Hh).
  assert (L : - h < sin h).
  { destruct (Rle_dec h PI) as [Hp|Hp].
    - assert (0 <= sin h) by (apply sin_ge_0; lra). lra.
    - pose proof (SIN_bound h) as [S0 _]. pose proof PI_RGT_0. pose proof PI2_1. lra. }
  split.
  - apply (Rmult_le_reg_r h); [exact Hh|]. unfold Rdiv. rewrite Rmult_assoc, Rinv_l by lra. lra.
  - apply (Rmult_le_reg_r h); [exact Hh|]. unfold Rdiv. rewrite Rmult_assoc, Rinv_l by lra. lra.
Qed.

(* C03 — (i) the J-Bessel structure as an alternating series with rational partial sums: every partial sum beyond
   the stopping index lies in the bracket returned by the executable model (hence so does the limit, the value of
   the structure); (ii) the Legendre spectra of the structures on the sphere are non-negative and sum to 1. *)
From Coq Require Import List Arith ZArith QArith Qabs Qminmax Bool Lqa Lia.
From Gst Require Import lib.QAux lib.LinAlgQ C03.Table C03.IEval C03.Model C03.Proofs_basic C03.Proofs_psd C03.Proofs_model.
Import ListNotations.
Local Open Scope Q_scope.

(* ------------------------------------------------------------------ alternating sums with non-increasing terms *)
Section Alt.
Variable a : nat -> Q.
Variable k : nat.
Hypothesis a_nonneg : forall j, 0 <= a j.
Hypothesis a_decr : forall j, (k + 1 <= j)%nat -> a (S j) <= a j.

Fixpoint altT (m : nat) : Q := match m with O => 0 | S i => altT i + alt_sign i (a (k + S i)) end.

Lemma altT_inv m : (1 <= m)%nat ->
  if Nat.even m then 0 <= altT m /\ altT m + a (k + m) <= a (k + 1) else a (k + m) <= altT m /\ altT m <= a (k + 1).
Proof.
  induction m as [|m IH]; intro Hm; [lia|].
  destruct m as [|m].
  - clear IH. unfold altT, alt_sign. cbn [Nat.even]. pose proof (a_nonneg (k + 1)). split; [rewrite Qplus_0_l; apply Qle_refl|rewrite Qplus_0_l; apply Qle_refl].
  - assert (I := IH ltac:(lia)). clear IH.
    change (altT (S (S m))) with (altT (S m) + alt_sign (S m) (a (k + S (S m)))).
    unfold alt_sign. rewrite (Nat.even_succ (S m)). rewrite <- Nat.negb_even. rewrite (Nat.even_succ m) in *.
    rewrite <- Nat.negb_even in *.
    pose proof (a_decr (k + S m) ltac:(lia)) as D. replace (S (k + S m)) with (k + S (S m))%nat in D by lia.
    pose proof (a_nonneg (k + S (S m))).
    destruct (Nat.even m); cbn [negb] in *.
    + (* S m odd -> S (S m) even *) destruct I as [I1 I2]. split; lra.
    + destruct I as [I1 I2]. split; lra.
Qed.
Lemma altT_bounds m : 0 <= altT m <= a (k + 1).
Proof.
  destruct m as [|m]; [cbn; pose proof (a_nonneg (k + 1)); lra|].
  pose proof (altT_inv (S m) ltac:(lia)) as I. pose proof (a_nonneg (k + S m)).
  destruct (Nat.even (S m)); destruct I; split; lra.
Qed.
End Alt.

Lemma alt_sign_add k m x : alt_sign (S k + m) x == alt_sign (S k) (alt_sign m x).
Proof.
  unfold alt_sign. rewrite Nat.even_add. destruct (Nat.even (S k)), (Nat.even m); cbn; ring.
Qed.

(* ------------------------------------------------------------------ the Bessel series *)
Lemma ratio_den_pos nu j : 0 < nu -> 0 < bessel_ratio_den nu (Z.of_nat j).
Proof.
  intro Hn. unfold bessel_ratio_den.
  assert (0 <= inject_Z (Z.of_nat j)) by (replace 0 with (inject_Z 0) by reflexivity; rewrite <- Zle_Qle; lia).
  rewrite inject_Z_plus. change (inject_Z 1) with 1. nra.
Qed.
Lemma ratio_den_mono nu i j : 0 < nu -> (i <= j)%nat -> bessel_ratio_den nu (Z.of_nat i) <= bessel_ratio_den nu (Z.of_nat j).
Proof.
  intros Hn Hij. unfold bessel_ratio_den. rewrite !inject_Z_plus. change (inject_Z 1) with 1.
  assert (0 <= inject_Z (Z.of_nat i)) by (replace 0 with (inject_Z 0) by reflexivity; rewrite <- Zle_Qle; lia).
  assert (inject_Z (Z.of_nat i) <= inject_Z (Z.of_nat j)) by (rewrite <- Zle_Qle; lia). nra.
Qed.
Lemma bessel_term_nonneg nu y j : 0 < nu -> 0 <= y -> 0 <= bessel_term nu y j.
Proof.
  intros Hn Hy. induction j as [|j IH]; cbn [bessel_term]; [lra|].
  pose proof (ratio_den_pos nu j Hn). apply Qle_shift_div_l; [assumption|]. nra.
Qed.
Lemma bessel_term_decr nu y k j : 0 < nu -> 0 <= y -> y <= bessel_ratio_den nu (Z.of_nat k) -> (k <= j)%nat ->
  bessel_term nu y (S j) <= bessel_term nu y j.
Proof.
  intros Hn Hy Hk Hj. cbn [bessel_term].
  pose proof (ratio_den_pos nu j Hn) as P. pose proof (ratio_den_mono nu k j Hn Hj) as M.
  pose proof (bessel_term_nonneg nu y j Hn Hy) as T.
  apply Qle_shift_div_r; [exact P|]. nra.
Qed.

Lemma bessel_sum_tail nu y k m :
  bessel_sum nu y (k + m) == bessel_sum nu y k + alt_sign (S k) (altT (bessel_term nu y) k m).
Proof.
  induction m as [|m IH].
  - rewrite Nat.add_0_r. cbn [altT]. unfold alt_sign. destruct (Nat.even (S k)); ring.
  - replace (k + S m)%nat with (S (k + m)) by lia. cbn [bessel_sum altT]. rewrite IH.
    replace (S (k + m)) with (S k + m)%nat by lia. rewrite alt_sign_add.
    replace (k + S m)%nat with (S k + m)%nat by lia.
    set (u := altT (bessel_term nu y) k m). set (v := alt_sign m (bessel_term nu y (S k + m))).
    unfold alt_sign. destruct (Nat.even (S k)); ring.
Qed.

(* every partial sum from index k on lies between S_k and S_(k+1) once the terms are non-increasing from k *)
Lemma bessel_bracket nu y k M : 0 < nu -> 0 <= y -> y <= bessel_ratio_den nu (Z.of_nat k) -> (k <= M)%nat ->
  Qmin (bessel_sum nu y k) (bessel_sum nu y (S k)) <= bessel_sum nu y M <= Qmax (bessel_sum nu y k) (bessel_sum nu y (S k)).
Proof.
  intros Hn Hy Hk HM. replace M with (k + (M - k))%nat by lia. rewrite bessel_sum_tail.
  assert (B : 0 <= altT (bessel_term nu y) k (M - k) <= bessel_term nu y (k + 1)).
  { apply altT_bounds; [intro j; apply bessel_term_nonneg; assumption|].
    intros j Hj. apply (bessel_term_decr nu y k j Hn Hy Hk). lia. }
  cbn [bessel_sum]. replace (k + 1)%nat with (S k) in B by lia.
  unfold alt_sign. destruct (Nat.even (S k)).
  - rewrite Q.min_l, Q.max_r by (pose proof (bessel_term_nonneg nu y (S k) Hn Hy); lra). split; lra.
  - rewrite Q.min_r, Q.max_l by (pose proof (bessel_term_nonneg nu y (S k) Hn Hy); lra). split; lra.
Qed.

(* the executable loop returns such a bracket *)
Lemma bessel_loop_spec fuel nu y : 0 < nu -> 0 <= y -> forall k t s lo hi,
  t == bessel_term nu y k -> s == bessel_sum nu y k ->
  bessel_loop fuel nu y k t s = Some (lo, hi) ->
  exists K, forall M, (K <= M)%nat -> lo <= bessel_sum nu y M <= hi.
Proof.
  intros Hn Hy. induction fuel as [|f IH]; intros k t s lo hi Ht Hs H; [discriminate|].
  cbn [bessel_loop] in H.
  set (t' := Qred (t * y / bessel_ratio_den nu (Z.of_nat k))) in *.
  set (s' := Qred (s + alt_sign (S k) t')) in *.
  assert (Et : t' == bessel_term nu y (S k)) by (unfold t'; rewrite Qred_correct; cbn [bessel_term]; rewrite Ht; reflexivity).
  assert (Es : s' == bessel_sum nu y (S k)).
  { unfold s'. rewrite Qred_correct. cbn [bessel_sum]. rewrite Hs. unfold alt_sign. destruct (Nat.even (S k)); rewrite Et; reflexivity. }
  destruct (qleb_spec y (bessel_ratio_den nu (Z.of_nat k))) as [Hk|Hk]; cbn [andb] in H.
  - destruct (qleb t' bessel_tiny); [|apply (IH (S k) t' s' lo hi Et Es H)].
    injection H as <- <-. exists k. intros M HM.
    pose proof (bessel_bracket nu y k M Hn Hy Hk HM) as B. rewrite <- Hs, <- Es in B. exact B.
  - apply (IH (S k) t' s' lo hi Et Es H).
Qed.

Lemma bessel_enc_spec nu h2 lo hi : bessel_enc nu h2 = Some (lo, hi) ->
  0 < nu /\ 0 <= h2 /\ exists K, forall M, (K <= M)%nat -> lo <= bessel_sum nu (h2 / 4) M <= hi.
Proof.
  unfold bessel_enc. destruct (qltb_spec 0 nu) as [Hn|]; [|discriminate].
  destruct (qleb_spec 0 h2) as [Hh|]; [|discriminate]. cbn [andb]. intro H.
  split; [exact Hn|split; [exact Hh|]].
  assert (Hy : 0 <= Qred (h2 / 4)) by (rewrite Qred_correct; apply Qle_shift_div_l; lra).
  destruct (bessel_loop_spec 2000 nu (Qred (h2 / 4)) Hn Hy 0%nat 1 1 lo hi ltac:(reflexivity) ltac:(reflexivity) H) as [K HK].
  exists K. intros M HM. specialize (HK M HM).
  assert (E : forall N, bessel_sum nu (Qred (h2 / 4)) N == bessel_sum nu (h2 / 4) N).
  { assert (ET : forall N, bessel_term nu (Qred (h2 / 4)) N == bessel_term nu (h2 / 4) N).
    { induction N as [|N I]; cbn [bessel_term]; [reflexivity|]. rewrite I, Qred_correct. reflexivity. }
    induction N as [|N I]; cbn [bessel_sum]; [reflexivity|]. rewrite I. unfold alt_sign. destruct (Nat.even (S N)); rewrite ET; reflexivity. }
  rewrite <- E. exact HK.
Qed.

(* ------------------------------------------------------------------ spectra on the sphere *)
Lemma lsumabs_nonneg l : 0 <= lsumabs l.
Proof. induction l as [|x r IH]; cbn [lsumabs]; [lra|]. pose proof (Qabs_nonneg x). lra. Qed.
Lemma normalize1_nonneg l : Forall (fun x => 0 <= x) l -> Forall (fun x => 0 <= x) (normalize1 l).
Proof.
  intro H. unfold normalize1. destruct (qltb_spec 0 (lsumabs l)) as [P|P]; [|exact H].
  apply Forall_forall. intros x Hx. apply in_map_iff in Hx. destruct Hx as [y [<- Hy]].
  rewrite Qred_correct. rewrite Forall_forall in H. specialize (H y Hy). apply Qle_shift_div_l; [exact P|lra].
Qed.
Fixpoint lsum (l : list Q) : Q := match l with [] => 0 | x :: r => x + lsum r end.
Lemma normalize1_sum l : Forall (fun x => 0 <= x) l -> 0 < lsumabs l -> lsum (normalize1 l) == 1.
Proof.
  intros H P. unfold normalize1. destruct (qltb_spec 0 (lsumabs l)) as [_|N]; [|lra].
  set (t := lsumabs l) in *.
  assert (G : forall m, Forall (fun x => 0 <= x) m -> lsum (map (fun x => Qred (x / t)) m) == lsumabs m / t).
  { induction m as [|x r IH]; intro Hm; cbn [map lsum lsumabs]; [field; lra|].
    inversion Hm as [|? ? Hx Hr]; subst. rewrite (IH Hr), Qred_correct, (Qabs_pos x Hx). field. lra. }
  rewrite (G l H). unfold t. field. fold t. lra.
Qed.

Lemma qpow_nonneg x k : 0 <= x -> 0 <= qpow x k.
Proof. intro H. induction k as [|k IH]; cbn [qpow]; [lra|nra]. Qed.
Lemma qpow_pos x k : 0 < x -> 0 < qpow x k.
Proof. intro H. induction k as [|k IH]; cbn [qpow]; [lra|nra]. Qed.
Lemma qfact_pos k : 0 < qfact k.
Proof.
  induction k as [|k IH]; cbn [qfact]; [lra|].
  assert (0 < inject_Z (Z.of_nat (S k))) by (replace 0 with (inject_Z 0) by reflexivity; rewrite <- Zlt_Qlt; lia). nra.
Qed.
Lemma Forall_map_seq (f : nat -> Q) a n : (forall k, 0 <= f k) -> Forall (fun x => 0 <= x) (map f (seq a n)).
Proof. intro H. apply Forall_forall. intros x Hx. apply in_map_iff in Hx. destruct Hx as [k [<- _]]. apply H. Qed.

Lemma spec_geometric_nonneg rho n : 0 <= rho -> Forall (fun x => 0 <= x) (spec_geometric rho n).
Proof. intro H. apply Forall_map_seq. intro k. apply qpow_nonneg, H. Qed.
Lemma spec_poisson_nonneg lambda n : 0 <= lambda -> Forall (fun x => 0 <= x) (spec_poisson lambda n).
Proof.
  intro H. apply Forall_map_seq. intro k. pose proof (qfact_pos k). pose proof (qpow_nonneg lambda k H).
  apply Qle_shift_div_l; [assumption|lra].
Qed.
Lemma spec_linsph_odd_nonneg j : 0 <= spec_linsph_odd j.
Proof.
  induction j as [|j IH]; cbn [spec_linsph_odd]; [discriminate|].
  set (k := inject_Z (Z.of_nat (2 * S j + 1))).
  assert (Hk : 3 <= k) by (unfold k; replace 3 with (inject_Z 3) by reflexivity; rewrite <- Zle_Qle; lia).
  assert (0 <= (2 * k + 1) / (2 * k - 3)) by (apply Qle_shift_div_l; lra).
  assert (0 <= (k - 2) / (k + 1) * ((k - 2) / (k + 1))) by nra.
  apply Qmult_le_0_compat; [apply Qmult_le_0_compat; assumption|exact IH].
Qed.
Lemma spec_linearsph_nonneg n : Forall (fun x => 0 <= x) (spec_linearsph n).
Proof. apply Forall_map_seq. intro k. destruct (Nat.even k); [lra|apply spec_linsph_odd_nonneg]. Qed.
Lemma spec_matern_nonneg mu scale n : Forall (fun x => 0 <= x) (spec_matern mu scale n).
Proof.
  apply Forall_map_seq. intro k. cbv zeta.
  set (kq := inject_Z (Z.of_nat k)).
  assert (0 <= kq) by (unfold kq; replace 0 with (inject_Z 0) by reflexivity; rewrite <- Zle_Qle; lia).
  assert (0 < 1 + scale * scale * kq * (kq + 1)) by (assert (0 <= scale * scale) by nra; assert (0 <= kq * (kq + 1)) by nra; nra).
  apply Qle_shift_div_l; [apply qpow_pos; assumption|lra].
Qed.

(* Markov: coefficients c_i >= 0 with c_0 > 0 *)
Lemma qpoly_pos cs x : 0 <= x -> Forall (fun c => 0 <= c) cs -> (match cs with c :: _ => 0 < c | [] => False end) -> 0 < qpoly cs x.
Proof.
  intros Hx Hc H0. destruct cs as [|c r]; [contradiction|]. cbn [qpoly].
  assert (G : forall l, Forall (fun c => 0 <= c) l -> 0 <= qpoly l x).
  { induction l as [|a l IH]; intro Hl; cbn [qpoly]; [lra|]. inversion Hl as [|? ? Ha Hr]; subst. specialize (IH Hr). nra. }
  inversion Hc as [|? ? Ha Hr]; subst. specialize (G r Hr). nra.
Qed.
Lemma spec_markov_nonneg cs scale n :
  Forall (fun c => 0 <= c) cs -> (match cs with c :: _ => 0 < c | [] => False end) -> Forall (fun x => 0 <= x) (spec_markov cs scale n).
Proof.
  intros Hc H0. apply Forall_map_seq. intro j. cbv zeta.
  set (jq := inject_Z (Z.of_nat j)).
  assert (0 <= jq) by (unfold jq; replace 0 with (inject_Z 0) by reflexivity; rewrite <- Zle_Qle; lia).
  assert (0 <= scale * scale * jq * (jq + 1)) by (assert (0 <= scale * scale) by nra; assert (0 <= jq * (jq + 1)) by nra; nra).
  apply Qle_shift_div_l; [apply qpoly_pos; assumption|lra].
Qed.
(* Exponential on the sphere: for ANY value e of exp(-nu pi) in [0,1] the coefficients of the recursion are >= 0 *)
Lemma spec_exp_gen_nonneg nu e : 0 <= e -> e <= 1 -> forall k, 0 <= spec_exp_gen nu e k.
Proof.
  intros H0 H1.
  assert (N : 0 <= nu * nu) by nra.
  assert (P : forall k, 0 <= spec_exp_gen nu e k /\ 0 <= spec_exp_gen nu e (S k)).
  { induction k as [|k [IH0 IH1]].
    - split; cbn [spec_exp_gen]; apply Qle_shift_div_l; try lra; nra.
    - split; [exact IH1|].
      change (spec_exp_gen nu e (S (S k))) with
        (let kq := inject_Z (Z.of_nat (S (S k))) in
         (2 * kq + 1) / (2 * kq - 3) * (nu * nu + (kq - 2) * (kq - 2)) / (nu * nu + (kq + 1) * (kq + 1)) * spec_exp_gen nu e k).
      cbv zeta. set (kq := inject_Z (Z.of_nat (S (S k)))).
      assert (Hk : 2 <= kq) by (unfold kq; replace 2 with (inject_Z 2) by reflexivity; rewrite <- Zle_Qle; lia).
      assert (A : 0 <= (2 * kq + 1) / (2 * kq - 3)) by (apply Qle_shift_div_l; lra).
      assert (B : 0 <= nu * nu + (kq - 2) * (kq - 2)) by nra.
      assert (C : 0 < nu * nu + (kq + 1) * (kq + 1)) by nra.
      apply Qmult_le_0_compat; [|exact IH0].
      apply Qle_shift_div_l; [exact C|]. rewrite Qmult_0_l. apply Qmult_le_0_compat; assumption. }
  intro k. apply (P k).
Qed.

(* every spectrum of the model has non-negative coefficients (rho, lambda >= 0) *)
Lemma sphere_spectrum_nonneg type param scale n l :
  0 <= scale -> 0 <= param -> sphere_spectrum type param scale n = Some l -> Forall (fun x => 0 <= x) l.
Proof.
  intros Hs Hp. unfold sphere_spectrum.
  destruct type as [|p|p]; try discriminate. do 5 (try (destruct p as [p|p|]); try discriminate).
  all: try (match goal with |- (if ?c then _ else _) = _ -> _ => destruct c; [|discriminate] end).
  all: intro H; injection H as <-; apply normalize1_nonneg.
  all: first [apply spec_matern_nonneg | apply spec_poisson_nonneg; exact Hp | apply spec_linearsph_nonneg
             | apply spec_geometric_nonneg; exact Hs | apply spec_markov_nonneg; [repeat constructor; discriminate|reflexivity]].
Qed.

(* Schoenberg (cited): the matrices P_k(cos theta_ij) of the Legendre polynomials are PSD for points of the sphere.
   Under that hypothesis [schoenberg] every structure with a non-negative spectrum is PSD on the sphere. *)
Lemma sphere_psd_partial n N (P : nat -> fmat) (a : list Q) :
  (forall k, (k < N)%nat -> psd n (P k)) (* schoenberg *) -> Forall (fun x => 0 <= x) a ->
  psd n (fun i j => sumn N (fun k => nth k a 0 * P k i j)).
Proof.
  intros HP Ha. apply (psd_lincomb n N (fun k => nth k a 0) P); [|exact HP].
  intros k _. destruct (Nat.lt_ge_cases k (length a)) as [L|L].
  - rewrite Forall_forall in Ha. apply Ha. apply nth_In. exact L.
  - rewrite nth_overflow by exact L. lra.
Qed.

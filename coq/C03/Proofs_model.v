(* C03 — assembling the closure lemmas: non-negative linear combinations, nugget + anything, separable (tensor
   product) models, limits of Gram matrices (the "volume of intersection" representation of the spherical family),
   and the block covariance matrix of a multivariate model made of several basic structures. *)
From Coq Require Import List Arith ZArith QArith Qabs Bool Lqa Lia Setoid Morphisms.
From Gst Require Import lib.QAux lib.LinAlgQ C03.Table C03.IEval C03.Model C03.Proofs_basic C03.Proofs_psd C03.Proofs_tri C03.Proofs_exp.
Local Open Scope Q_scope.

(* ------------------------------------------------------------------ non-negative linear combinations *)
Lemma psd_lincomb n S (c : fvec) (K : nat -> fmat) :
  (forall s, (s < S)%nat -> 0 <= c s) -> (forall s, (s < S)%nat -> psd n (K s)) ->
  psd n (fun i j => sumn S (fun s => c s * K s i j)).
Proof.
  induction S as [|S IH]; intros Hc HK.
  - apply (psd_ext n (fun _ _ => 0)); [intros; reflexivity|apply psd_zero].
  - apply (psd_ext n (fun i j => sumn S (fun s => c s * K s i j) + c S * K S i j)); [intros; reflexivity|].
    apply psd_add; [apply IH; intros; [apply Hc|apply HK]; lia|].
    apply psd_scale; [apply Hc; lia|apply HK; lia].
Qed.

(* nugget effect + any PSD matrix (the usual "structure + measurement noise") *)
Lemma psd_plus_nugget n (s : Q) (H : fmat) K :
  0 <= s -> (forall i, (i < n)%nat -> H i i == 0) ->
  (forall i j, (i < n)%nat -> (j < n)%nat -> i <> j -> (1 # 10000000000) <= H i j) ->
  psd n K -> psd n (fun i j => K i j + s * cor_nugget (H i j)).
Proof. intros Hs H0 Hd HK. apply psd_add; [exact HK|apply psd_nugget; assumption]. Qed.

(* entrywise product with a weighted Gram matrix sum_l d_l B_il B_jl, d_l >= 0 *)
Lemma psd_schur_wgram n r (d : fvec) (B : fmat) K :
  (forall l, (l < r)%nat -> 0 <= d l) -> psd n K -> psd n (fun i j => K i j * sumn r (fun l => d l * (B i l * B j l))).
Proof.
  intros Hd H. induction r as [|r IH].
  - apply (psd_ext n (fun _ _ => 0)); [intros; cbn [sumn]; ring|apply psd_zero].
  - apply (psd_ext n (fun i j => K i j * sumn r (fun l => d l * (B i l * B j l)) + d r * (B i r * K i j * B j r))).
    + intros i j _ _. cbn [sumn]. ring.
    + apply psd_add; [apply IH; intros; apply Hd; lia|].
      apply psd_scale; [apply Hd; lia|]. apply (psd_schur_rank1 n (fun i => B i r) K H).
Qed.
(* separable (tensor product) model on n space-time points (s_i, t_i): C((s,t),(s',t')) = C1(s,s') * C2(t,t').
   Partial: the second factor is given in factorised form (a weighted Gram matrix) -- hypothesis [second_factor_gram] *)
Lemma psd_separable_partial n r (d : fvec) (B : fmat) K1 K2 :
  psd n K1 ->
  (forall l, (l < r)%nat -> 0 <= d l) ->
  (forall i j, (i < n)%nat -> (j < n)%nat -> K2 i j == sumn r (fun l => d l * (B i l * B j l))) (* second_factor_gram *) ->
  psd n (fun i j => K1 i j * K2 i j).
Proof.
  intros H1 Hd H2. apply (psd_ext n (fun i j => K1 i j * sumn r (fun l => d l * (B i l * B j l)))).
  - intros i j Hi Hj. rewrite (H2 i j Hi Hj). reflexivity.
  - apply psd_schur_wgram; assumption.
Qed.
(* full strength when the second factor is one of the kernels with an explicit factorisation proved here:
   exponential or triangle on a regular 1-D grid (time) times ANY PSD spatial matrix *)
Lemma psd_separable_exponential_time n rho K1 (tau : nat -> nat) :
  0 <= rho -> rho <= 1 -> psd n K1 -> (forall i, (i < n)%nat -> (tau i < n)%nat) ->
  psd n (fun i j => K1 i j * qpow rho (gdist (tau i) (tau j))).
Proof.
  intros H0 H1 HK Ht.
  apply (psd_separable_partial n n (ar_d rho) (fun i l => ar_L rho (tau i) l) K1 (fun i j => qpow rho (gdist (tau i) (tau j)))).
  - exact HK.
  - intros l _. unfold ar_d. destruct (Nat.eqb l 0); [lra|nra].
  - intros i j Hi Hj. symmetry. apply ar_gram; apply Ht; assumption.
Qed.

(* ------------------------------------------------------------------ limits of Gram matrices *)
(* a matrix that can be approximated entrywise, to any accuracy, by PSD matrices is PSD *)
Lemma quad_diff_bound n K L x eps (M : Q) :
  0 <= eps -> (forall i, (i < n)%nat -> Qabs (x i) <= M) ->
  (forall i j, (i < n)%nat -> (j < n)%nat -> Qabs (K i j - L i j) <= eps) ->
  Qabs (quad n K x - quad n L x) <= inject_Z (Z.of_nat n) * (inject_Z (Z.of_nat n) * (M * M * eps)).
Proof.
  intros He Hx HKL. unfold quad. rewrite <- sumn_sub.
  assert (B1 : forall m f c, (forall i, (i < m)%nat -> Qabs (f i) <= c) -> Qabs (sumn m f) <= inject_Z (Z.of_nat m) * c).
  { intros m f c. induction m as [|m IH]; intro H; cbn [sumn].
    - cbn. rewrite Qmult_0_l. apply Qle_refl.
    - rewrite Nat2Z.inj_succ. unfold Z.succ. rewrite inject_Z_plus.
      eapply Qle_trans; [apply Qabs_triangle|].
      assert (Qabs (sumn m f) <= inject_Z (Z.of_nat m) * c) by (apply IH; intros; apply H; lia).
      assert (Qabs (f m) <= c) by (apply H; lia). change (inject_Z 1) with 1. lra. }
  apply B1. intros i Hi. rewrite <- sumn_sub. apply B1. intros j Hj.
  setoid_replace (x i * K i j * x j - x i * L i j * x j) with ((x i * x j) * (K i j - L i j)) by ring.
  rewrite !Qabs_Qmult.
  assert (A1 : 0 <= Qabs (x i)) by apply Qabs_nonneg. assert (A2 : 0 <= Qabs (x j)) by apply Qabs_nonneg.
  assert (A3 : 0 <= Qabs (K i j - L i j)) by apply Qabs_nonneg.
  pose proof (Hx i Hi). pose proof (Hx j Hj). pose proof (HKL i j Hi Hj).
  assert (0 <= M) by lra.
  assert (Qabs (x i) * Qabs (x j) <= M * M) by nra. nra.
Qed.

Lemma vec_bound n (x : fvec) : exists M, 0 <= M /\ forall i, (i < n)%nat -> Qabs (x i) <= M.
Proof.
  induction n as [|n [M [HM H]]].
  - exists 0. split; [lra|intros; lia].
  - exists (M + Qabs (x n)). pose proof (Qabs_nonneg (x n)). split; [lra|].
    intros i Hi. destruct (Nat.eq_dec i n) as [E|E]; [subst; lra|]. assert (Qabs (x i) <= M) by (apply H; lia). lra.
Qed.

Lemma psd_limit n K :
  (forall eps, 0 < eps -> exists L, psd n L /\ forall i j, (i < n)%nat -> (j < n)%nat -> Qabs (K i j - L i j) <= eps) ->
  psd n K.
Proof.
  intros H x. destruct (Qlt_le_dec (quad n K x) 0) as [Neg|]; [|assumption]. exfalso.
  destruct (vec_bound n x) as [M [HM HX]].
  set (N := inject_Z (Z.of_nat n)).
  assert (HN : 0 <= N) by (unfold N; replace 0 with (inject_Z 0) by reflexivity; rewrite <- Zle_Qle; lia).
  set (c := N * (N * (M * M)) + 1).
  assert (Hc : 0 < c) by (unfold c; assert (0 <= N * (N * (M * M))) by (repeat apply Qmult_le_0_compat; assumption); lra).
  set (eps := (- quad n K x) / (2 * c)).
  assert (He : 0 < eps) by (unfold eps; apply Qlt_shift_div_l; lra).
  destruct (H eps He) as [L [HL HKL]].
  pose proof (quad_diff_bound n K L x eps M (Qlt_le_weak _ _ He) HX HKL) as B. fold N in B.
  pose proof (HL x) as PL.
  apply Qabs_Qle_condition in B. destruct B as [B1 B2].
  assert (E : N * (N * (M * M * eps)) == (N * (N * (M * M))) * eps) by ring. rewrite E in B1.
  assert (Hce : 2 * (c * eps) == - quad n K x) by (unfold eps; field; lra).
  assert ((N * (N * (M * M))) * eps <= c * eps) by (unfold c; nra).
  lra.
Qed.

(* spherical family ("volume of the intersection of two balls"): partial.  Hypothesis [intersection_volume]: the
   correlation matrix is, to any accuracy, the Gram matrix of (discretised) indicator functions of the balls centred
   at the points -- in R^1 this is the triangle structure (C03_psd_triangle_1d, proved), in R^2 the circular one, in
   R^3 the spherical one (Matheron; cited, not proved) *)
Definition intersection_volume (n : nat) (K : fmat) : Prop :=
  forall eps, 0 < eps -> exists r (c : Q) (B : fmat), 0 <= c /\
    forall i j, (i < n)%nat -> (j < n)%nat -> Qabs (K i j - c * sumn r (fun l => B i l * B j l)) <= eps.
Lemma psd_intersection_volume_partial n K : intersection_volume n K -> psd n K.
Proof.
  intro H. apply psd_limit. intros eps He. destruct (H eps He) as [r [c [B [Hc HB]]]].
  exists (fun i j => c * sumn r (fun l => B i l * B j l)). split; [|exact HB].
  apply psd_scale; [exact Hc|apply psd_gram].
Qed.
(* the hypothesis is satisfiable exactly (eps-free) by the triangle structure on a regular grid *)
Lemma triangle_intersection_volume n m : (0 < m)%nat -> intersection_volume n (fun i j => cor_triangle (grid_h m i j)).
Proof.
  intros Hm eps He. exists (n + m)%nat, (1 / qn m), (fun i l => ind i (i + m) l). split.
  - assert (0 < qn m) by (unfold qn; replace 0 with (inject_Z 0) by reflexivity; rewrite <- Zlt_Qlt; lia).
    apply Qle_shift_div_l; [assumption|lra].
  - intros i j Hi Hj. rewrite (triangle_grid_gram n m i j Hm Hi Hj).
    setoid_replace (1 / qn m * sumn (n + m) (fun l => ind i (i + m) l * ind j (j + m) l) -
                    1 / qn m * sumn (n + m) (fun l => ind i (i + m) l * ind j (j + m) l)) with 0 by ring.
    cbn. lra.
Qed.

(* ------------------------------------------------------------------ multivariate model made of several structures *)
(* block quadratic form of M (v,i),(w,j) over doubly indexed vectors *)
Definition quadB (nv n : nat) (M : nat -> nat -> nat -> nat -> Q) (x : nat -> nat -> Q) : Q :=
  sumn nv (fun v => sumn n (fun i => sumn nv (fun w => sumn n (fun j => x v i * M v i w j * x w j)))).
Lemma quadB_kron nv n S K x : quadB nv n (fun v i w j => S v w * K i j) x == quad2 nv n S K x.
Proof. reflexivity. Qed.
Lemma quadB_add nv n M1 M2 x : quadB nv n (fun v i w j => M1 v i w j + M2 v i w j) x == quadB nv n M1 x + quadB nv n M2 x.
Proof.
  unfold quadB. rewrite <- sumn_add. apply sumn_ext. intros v _. rewrite <- sumn_add. apply sumn_ext. intros i _.
  rewrite <- sumn_add. apply sumn_ext. intros w _. rewrite <- sumn_add. apply sumn_ext. intros; ring.
Qed.
Lemma quadB_ext nv n M1 M2 x :
  (forall v i w j, (v < nv)%nat -> (i < n)%nat -> (w < nv)%nat -> (j < n)%nat -> M1 v i w j == M2 v i w j) ->
  quadB nv n M1 x == quadB nv n M2 x.
Proof.
  intro E. unfold quadB. apply sumn_ext. intros v Hv. apply sumn_ext. intros i Hi. apply sumn_ext. intros w Hw.
  apply sumn_ext. intros j Hj. rewrite (E v i w j Hv Hi Hw Hj). reflexivity.
Qed.

(* Model::evalCovMatrix for nvar variables and ncov basic structures: M (v,i),(w,j) = sum_s sill_s(v,w) * k_s(i,j).
   If every sill matrix is A_s A_s^T and every scalar kernel matrix k_s is PSD, the block matrix is PSD. *)
Lemma model_psd nv n ncov (r : nat) (A : nat -> fmat) (k : nat -> fmat) :
  (forall s, (s < ncov)%nat -> psd n (k s)) ->
  forall x, 0 <= quadB nv n (fun v i w j => sumn ncov (fun s => sumn r (fun l => A s v l * A s w l) * k s i j)) x.
Proof.
  intros Hk x. induction ncov as [|c IH].
  - unfold quadB. rewrite sumn_zero; [lra|]. intros v _. apply sumn_zero. intros i _. apply sumn_zero. intros w _.
    apply sumn_zero. intros j _. cbn [sumn]. ring.
  - rewrite (quadB_ext nv n _ (fun v i w j => sumn c (fun s => sumn r (fun l => A s v l * A s w l) * k s i j)
                                              + sumn r (fun l => A c v l * A c w l) * k c i j)) by (intros; reflexivity).
    rewrite quadB_add.
    assert (0 <= quadB nv n (fun v i w j => sumn c (fun s => sumn r (fun l => A s v l * A s w l) * k s i j)) x)
      by (apply IH; intros; apply Hk; lia).
    assert (0 <= quadB nv n (fun v i w j => sumn r (fun l => A c v l * A c w l) * k c i j) x).
    { rewrite quadB_kron. apply psd_kron. apply Hk. lia. }
    lra.
Qed.

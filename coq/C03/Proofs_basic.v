(* C03 — basic properties of the polynomial closed forms, exact over Q:
   value 1 at the origin, |cor| <= 1, compact support, continuity at the branch points (Lipschitz bound towards
   the value of the next piece), and the factorised forms (Wendland, spherical, cubic). *)
From Coq Require Import List ZArith QArith Qabs Qminmax Bool Lqa Lia Psatz.
From Gst Require Import lib.QAux C03.Table C03.IEval C03.Model.
Local Open Scope Q_scope.

Lemma sq_nonneg (a : Q) : 0 <= a * a.
Proof. nra. Qed.
Lemma mul_nonneg (a b : Q) : 0 <= a -> 0 <= b -> 0 <= a * b.
Proof. intros. apply Qmult_le_0_compat; assumption. Qed.
Lemma pow4_nonneg (a : Q) : 0 <= a * a * a * a.
Proof. setoid_replace (a*a*a*a) with ((a*a)*(a*a)) by ring. apply mul_nonneg; apply sq_nonneg. Qed.
Lemma pow6_nonneg (a : Q) : 0 <= a * a * a * a * a * a.
Proof. setoid_replace (a*a*a*a*a*a) with ((a*a*a)*(a*a*a)) by ring. apply sq_nonneg. Qed.
Lemma qmax0_bounds x : x <= 1 -> 0 <= Qmax 0 x <= 1.
Proof. intro H. destruct (Q.max_spec 0 x) as [[H1 E]|[H1 E]]; rewrite E; lra. Qed.
Lemma qmax0_of_nonneg x : 0 <= x -> Qmax 0 x == x.
Proof. intro H. destruct (Q.max_spec 0 x) as [[_ E]|[H1 E]]; rewrite E; lra. Qed.
Lemma qmax0_of_nonpos x : x <= 0 -> Qmax 0 x == 0.
Proof. intro H. destruct (Q.max_spec 0 x) as [[H1 E]|[_ E]]; rewrite E; lra. Qed.

(* ---------------------------------------------------------------- nugget *)
Lemma nugget_basic :
  cor_nugget 0 == 1 /\ (forall h, 0 <= cor_nugget h <= 1) /\ (forall h, (1 # 10000000000) <= h -> cor_nugget h == 0).
Proof.
  split; [reflexivity|]. split.
  - intro h. unfold cor_nugget. destruct (qltb (Qabs h) (1 # 10000000000)); lra.
  - intros h Hh. unfold cor_nugget. destruct (qltb_spec (Qabs h) (1 # 10000000000)) as [H|H]; [|reflexivity].
    rewrite Qabs_pos in H by lra. lra.
Qed.

(* ---------------------------------------------------------------- spherical *)
Lemma spherical_factor h : 1 - (1#2) * h * (3 - h * h) == ((1-h)*(1-h)) * (1 + (1#2)*h).
Proof. ring. Qed.
Lemma spherical_basic :
  cor_spherical 0 == 1 /\ (forall h, 0 <= h -> 0 <= cor_spherical h <= 1) /\
  (forall h, 1 <= h -> cor_spherical h == 0) /\
  (forall h, 0 <= h -> h < 1 -> cor_spherical h <= (3#2) * (1 - h)).
Proof.
  split; [reflexivity|]. split; [|split].
  - intros h Hh. unfold cor_spherical. destruct (qltb_spec h 1) as [H|H]; [|lra]. split.
    + rewrite spherical_factor. apply mul_nonneg; [apply sq_nonneg|lra].
    + assert (0 <= h * (3 - h*h)) by nra. lra.
  - intros h Hh. unfold cor_spherical. destruct (qltb_spec h 1) as [H|H]; [lra|reflexivity].
  - intros h H0 H1. unfold cor_spherical. destruct (qltb_spec h 1) as [H|H]; [|lra].
    rewrite spherical_factor. nra.
Qed.

(* ---------------------------------------------------------------- cubic *)
Lemma cubic_factor h :
  1 - (h*h) * (7 + h * (-(35#4) + (h*h) * ((7#2) - (3#4) * (h*h)))) ==
  ((1-h)*(1-h)*(1-h)*(1-h)) * (1 + 4*h + 3*h*h + (3#4)*h*h*h).
Proof. ring. Qed.
Lemma cubic_poly_bounds h : 0 <= h -> h < 1 ->
  0 <= 1 - (h*h) * (7 + h * (-(35#4) + (h*h) * ((7#2) - (3#4) * (h*h)))) <= 1.
Proof.
  intros H0 H1. split.
  - rewrite cubic_factor. apply mul_nonneg; [apply pow4_nonneg|].
    assert (0 <= h*h) by nra. assert (0 <= h*h*h) by nra. nra.
  - assert (0 <= 7 + h * (-(35#4) + (h*h) * ((7#2) - (3#4) * (h*h)))).
    { assert (h*h <= h) by nra. assert (0 <= h*h) by nra. assert (h*h*h <= h*h) by nra. assert (0 <= h*h*h) by nra. nra. }
    assert (0 <= h*h) by nra. nra.
Qed.
Lemma cubic_basic :
  cor_cubic 0 == 1 /\ (forall h, 0 <= h -> 0 <= cor_cubic h <= 1) /\ (forall h, 1 <= h -> cor_cubic h == 0) /\
  (forall h, 0 <= h -> h < 1 -> cor_cubic h <= (35#4) * (1 - h)).
Proof.
  split; [reflexivity|]. split; [|split].
  - intros h Hh. unfold cor_cubic. cbv zeta. destruct (qltb_spec h 1) as [H|H].
    + apply qmax0_bounds. apply (cubic_poly_bounds h Hh H).
    + apply qmax0_bounds. lra.
  - intros h Hh. unfold cor_cubic. cbv zeta. destruct (qltb_spec h 1) as [H|H]; [lra|]. apply qmax0_of_nonpos. lra.
  - intros h H0 H1. unfold cor_cubic. cbv zeta. destruct (qltb_spec h 1) as [H|H]; [|lra].
    destruct (cubic_poly_bounds h H0 H1) as [Hlo _]. rewrite (qmax0_of_nonneg _ Hlo). rewrite cubic_factor.
    assert (A : 0 <= (1-h)*(1-h)*(1-h)) by (assert (0 <= (1-h)*(1-h)) by nra; nra).
    assert (B : (1-h)*(1-h)*(1-h) <= 1) by (assert ((1-h)*(1-h) <= 1) by nra; nra).
    assert (C : 0 <= 1 + 4*h + 3*h*h + (3#4)*h*h*h /\ 1 + 4*h + 3*h*h + (3#4)*h*h*h <= 35#4).
    { assert (0 <= h*h) by nra. assert (h*h <= 1) by nra. assert (0 <= h*h*h) by nra. assert (h*h*h <= 1) by nra. lra. }
    setoid_replace ((1-h)*(1-h)*(1-h)*(1-h) * (1 + 4*h + 3*h*h + (3#4)*h*h*h))
      with ((1-h) * (((1-h)*(1-h)*(1-h)) * (1 + 4*h + 3*h*h + (3#4)*h*h*h))) by ring.
    assert (D : ((1-h)*(1-h)*(1-h)) * (1 + 4*h + 3*h*h + (3#4)*h*h*h) <= 35#4) by nra.
    nra.
Qed.

(* ---------------------------------------------------------------- triangle *)
Lemma triangle_basic :
  cor_triangle 0 == 1 /\ (forall h, 0 <= h -> 0 <= cor_triangle h <= 1) /\ (forall h, 1 <= h -> cor_triangle h == 0) /\
  (forall h, 0 <= h -> h < 1 -> cor_triangle h == 1 - h).
Proof.
  split; [reflexivity|]. split; [|split].
  - intros h Hh. unfold cor_triangle. apply qmax0_bounds. lra.
  - intros h Hh. unfold cor_triangle. apply qmax0_of_nonpos. lra.
  - intros h H0 H1. unfold cor_triangle. apply qmax0_of_nonneg. lra.
Qed.

(* ---------------------------------------------------------------- 1-D regularised = 'Penta' *)
Lemma reg1d_second_piece h : -(2) + 3 * h * (1 - h / 2 * (1 - h / 6)) == (1#4) * ((h - 2) * (h - 2) * (h - 2)).
Proof. field. Qed.
Lemma reg1d_first_piece h : 1 - 3 * h * (1 - h / 2 * (1 + h / 6)) == 1 - 3*h + (3#2)*h*h + (1#4)*h*h*h.
Proof. field. Qed.
Lemma reg1d_basic :
  cor_reg1d 0 == 1 /\ (forall h, 0 <= h -> -(1) <= cor_reg1d h <= 1) /\ (forall h, 2 <= h -> cor_reg1d h == 0) /\
  (* the two pieces agree at h = 1 (value -1/4), the second one reaches 0 at h = 2 *)
  (forall h, 0 <= h -> h < 1 -> Qabs (cor_reg1d h - (-(1#4))) <= 3 * (1 - h)) /\
  cor_reg1d 1 == -(1#4) /\
  (forall h, 1 <= h -> h < 2 -> -((1#4) * (2 - h)) <= cor_reg1d h <= 0).
Proof.
  split; [reflexivity|]. split; [|split; [|split; [|split]]].
  - intros h Hh. unfold cor_reg1d. destruct (qltb_spec h 1) as [H|H].
    + rewrite reg1d_first_piece. assert (0 <= h*h) by nra. assert (0 <= h*h*h) by nra.
      assert (h*h <= h) by nra. assert (h*h*h <= h*h) by nra. split; nra.
    + destruct (qltb_spec h 2) as [H2|H2]; [|lra]. rewrite reg1d_second_piece.
      assert (A : 0 <= (2-h)*(2-h)) by nra. assert (B : (2-h)*(2-h) <= 1) by nra.
      setoid_replace ((h-2)*(h-2)*(h-2)) with (-((2-h)*((2-h)*(2-h)))) by ring.
      assert (0 <= (2-h)*((2-h)*(2-h))) by nra. assert ((2-h)*((2-h)*(2-h)) <= 1) by nra. split; lra.
  - intros h Hh. unfold cor_reg1d. destruct (qltb_spec h 1) as [H|H]; [lra|]. destruct (qltb_spec h 2) as [H2|H2]; [lra|reflexivity].
  - intros h H0 H1. unfold cor_reg1d. destruct (qltb_spec h 1) as [H|H]; [|lra]. rewrite reg1d_first_piece.
    setoid_replace (1 - 3*h + (3#2)*h*h + (1#4)*h*h*h - - (1#4)) with ((1-h) * ((5#4) - (7#4)*h - (1#4)*h*h)) by ring.
    assert (A : -(3) <= (5#4) - (7#4)*h - (1#4)*h*h /\ (5#4) - (7#4)*h - (1#4)*h*h <= 3) by (assert (0 <= h*h) by nra; assert (h*h <= 1) by nra; lra).
    apply Qabs_Qle_condition. split; nra.
  - unfold cor_reg1d. reflexivity.
  - intros h H1 H2. unfold cor_reg1d. destruct (qltb_spec h 1) as [H|H]; [lra|]. destruct (qltb_spec h 2) as [H3|H3]; [|lra].
    rewrite reg1d_second_piece.
    setoid_replace ((h-2)*(h-2)*(h-2)) with (-((2-h)*((2-h)*(2-h)))) by ring.
    assert (A : 0 <= (2-h)*(2-h)) by nra. assert (B : (2-h)*(2-h) <= 1) by nra.
    assert (0 <= (2-h)*((2-h)*(2-h))) by nra. assert ((2-h)*((2-h)*(2-h)) <= (2-h)) by nra. split; lra.
Qed.
(* ---------------------------------------------------------------- pentaspherical ('Penta') *)
Lemma penta_factor h :
  1 - h * ((15#8) - (h*h) * ((5#4) - (3#8) * (h*h))) == ((1-h)*(1-h)*(1-h)) * (1 + (9#8)*h + (3#8)*(h*h)).
Proof. ring. Qed.
Lemma penta_basic :
  cor_penta 0 == 1 /\ (forall h, 0 <= h -> 0 <= cor_penta h <= 1) /\ (forall h, 1 <= h -> cor_penta h == 0) /\
  (forall h, 0 <= h -> h < 1 -> cor_penta h <= (5#2) * (1 - h)).
Proof.
  split; [reflexivity|].
  assert (K : forall h, 0 <= h -> h < 1 ->
            0 <= ((1-h)*(1-h)*(1-h)) * (1 + (9#8)*h + (3#8)*(h*h)) /\
            ((1-h)*(1-h)*(1-h)) * (1 + (9#8)*h + (3#8)*(h*h)) <= (5#2) * (1 - h)).
  { intros h H0 H1. set (a := 1 - h). assert (Ha0 : 0 <= a) by (unfold a; lra). assert (Ha1 : a <= 1) by (unfold a; lra).
    assert (A2 : 0 <= a*a /\ a*a <= 1) by (split; nra).
    assert (P : 1 <= 1 + (9#8)*h + (3#8)*(h*h) /\ 1 + (9#8)*h + (3#8)*(h*h) <= 5#2) by (assert (0 <= h*h) by nra; assert (h*h <= 1) by nra; lra).
    split.
    - apply mul_nonneg; [|lra]. setoid_replace (a*a*a) with (a*(a*a)) by ring. apply mul_nonneg; [exact Ha0|apply A2].
    - setoid_replace (a*a*a*(1 + (9#8)*h + (3#8)*(h*h))) with (a * ((a*a) * (1 + (9#8)*h + (3#8)*(h*h)))) by ring.
      assert ((a*a) * (1 + (9#8)*h + (3#8)*(h*h)) <= 5#2) by nra. nra. }
  split; [|split].
  - intros h Hh. unfold cor_penta. cbv zeta. destruct (qltb_spec h 1) as [H|H]; [|lra]. split.
    + rewrite penta_factor. apply (K h Hh H).
    + assert (0 <= h * ((15#8) - (h*h) * ((5#4) - (3#8) * (h*h)))).
      { apply mul_nonneg; [exact Hh|]. assert (0 <= h*h) by nra. assert (h*h <= 1) by nra. nra. }
      lra.
  - intros h Hh. unfold cor_penta. cbv zeta. destruct (qltb_spec h 1) as [H|H]; [lra|reflexivity].
  - intros h H0 H1. unfold cor_penta. cbv zeta. destruct (qltb_spec h 1) as [H|H]; [|lra]. rewrite penta_factor. apply (K h H0 H).
Qed.
(* the pre-fix form (Reg1D used with scadef 1) did not vanish beyond its range *)
Lemma old_penta_beyond_range : exists h, 1 < h /\ ~ cor_reg1d h == 0.
Proof. exists (3#2). split; [reflexivity|]. vm_compute. discriminate. Qed.

(* ---------------------------------------------------------------- Wendland *)
Lemma wendland0_factor h : 1 - 2 * h + h * h == (1-h)*(1-h).
Proof. ring. Qed.
Lemma wendland1_factor h : 1 - (h * h) * (10 - h * (20 - h * (15 - h * 4))) == ((1-h)*(1-h)*(1-h)*(1-h)) * (4*h + 1).
Proof. ring. Qed.
Lemma wendland2_factor h :
  1 - (h*h) * ((28#3) - (h*h) * (70 - h * ((448#3) - h * (140 - h * (64 - h * (35#3)))))) ==
  ((1-h)*(1-h)*(1-h)*(1-h)*(1-h)*(1-h)) * ((35*h*h + 18*h + 3) / 3).
Proof. field. Qed.

Lemma le1_pow (a : Q) : 0 <= a -> a <= 1 -> 0 <= a * a /\ a * a <= a.
Proof. intros; split; nra. Qed.

Lemma wendland0_basic :
  cor_wendland0 0 == 1 /\ (forall h, 0 <= h -> 0 <= cor_wendland0 h <= 1) /\ (forall h, 1 <= h -> cor_wendland0 h == 0) /\
  (forall h, 0 <= h -> h < 1 -> cor_wendland0 h <= 1 - h).
Proof.
  split; [reflexivity|]. split; [|split].
  - intros h Hh. unfold cor_wendland0. destruct (qltb_spec h 1) as [H|H]; [|lra]. rewrite wendland0_factor. nra.
  - intros h Hh. unfold cor_wendland0. destruct (qltb_spec h 1) as [H|H]; [lra|reflexivity].
  - intros h H0 H1. unfold cor_wendland0. destruct (qltb_spec h 1) as [H|H]; [|lra]. rewrite wendland0_factor. nra.
Qed.

Lemma wendland1_basic :
  cor_wendland1 0 == 1 /\ (forall h, 0 <= h -> 0 <= cor_wendland1 h <= 1) /\ (forall h, 1 <= h -> cor_wendland1 h == 0) /\
  (forall h, 0 <= h -> h < 1 -> cor_wendland1 h <= 5 * (1 - h)).
Proof.
  split; [reflexivity|].
  assert (K : forall h, 0 <= h -> h < 1 ->
            0 <= ((1-h)*(1-h)*(1-h)*(1-h)) * (4*h + 1) /\ ((1-h)*(1-h)*(1-h)*(1-h)) * (4*h + 1) <= 1 /\
            ((1-h)*(1-h)*(1-h)*(1-h)) * (4*h + 1) <= 5 * (1 - h)).
  { intros h H0 H1. set (a := 1 - h). assert (Ha0 : 0 <= a) by (unfold a; lra). assert (Ha1 : a <= 1) by (unfold a; lra).
    assert (Hh : h == 1 - a) by (unfold a; ring). rewrite Hh.
    destruct (le1_pow a Ha0 Ha1) as [A2 A2'].
    assert (A3 : 0 <= a*a*a /\ a*a*a <= a*a) by (split; nra).
    assert (A4 : 0 <= a*a*a*a /\ a*a*a*a <= a*a*a) by (split; nra).
    assert (A5 : 0 <= a*a*a*a*a) by nra.
    setoid_replace (a*a*a*a*(4*(1-a)+1)) with (5*(a*a*a*a) - 4*(a*a*a*a*a)) by ring.
    assert (a*a*a*a*a <= a*a*a*a) by nra.
    repeat split; nra. }
  split; [|split].
  - intros h Hh. unfold cor_wendland1. destruct (qltb_spec h 1) as [H|H]; [|lra]. rewrite wendland1_factor.
    destruct (K h Hh H) as [A [B _]]. split; assumption.
  - intros h Hh. unfold cor_wendland1. destruct (qltb_spec h 1) as [H|H]; [lra|reflexivity].
  - intros h H0 H1. unfold cor_wendland1. destruct (qltb_spec h 1) as [H|H]; [|lra]. rewrite wendland1_factor.
    apply (K h H0 H).
Qed.

Lemma wendland2_basic :
  cor_wendland2 0 == 1 /\ (forall h, 0 <= h -> 0 <= cor_wendland2 h <= 1) /\ (forall h, 1 <= h -> cor_wendland2 h == 0) /\
  (forall h, 0 <= h -> h < 1 -> cor_wendland2 h <= (56#3) * (1 - h)).
Proof.
  split; [reflexivity|].
  assert (K : forall h, 0 <= h -> h < 1 ->
            let v := ((1-h)*(1-h)*(1-h)*(1-h)*(1-h)*(1-h)) * ((35*h*h + 18*h + 3) / 3) in
            0 <= v /\ v <= 1 /\ v <= (56#3) * (1 - h)).
  { intros h H0 H1. cbv zeta.
    assert (P : 0 <= (35*h*h + 18*h + 3) / 3 /\ (35*h*h + 18*h + 3) / 3 <= 56#3).
    { assert (0 <= h*h) by nra. assert (h*h <= 1) by nra.
      setoid_replace ((35*h*h + 18*h + 3) / 3) with ((35#3)*(h*h) + 6*h + 1) by field. lra. }
    set (p := (35*h*h + 18*h + 3) / 3) in *.
    set (a := 1 - h). assert (Ha0 : 0 <= a) by (unfold a; lra). assert (Ha1 : a <= 1) by (unfold a; lra).
    destruct (le1_pow a Ha0 Ha1) as [A2 A2'].
    assert (A3 : 0 <= a*a*a /\ a*a*a <= a*a) by (split; nra).
    assert (A4 : 0 <= a*a*a*a /\ a*a*a*a <= a*a*a) by (split; nra).
    assert (A5 : 0 <= a*a*a*a*a /\ a*a*a*a*a <= a*a*a*a) by (split; nra).
    assert (A6 : 0 <= a*a*a*a*a*a /\ a*a*a*a*a*a <= a*a*a*a*a) by (split; nra).
    split; [apply mul_nonneg; [apply A6|apply P]|].
    split.
    - (* v <= 1: go back to the expanded form 1 - h^2 (...) and show the subtracted part is >= 0 *)
      unfold p, a. rewrite <- wendland2_factor.
      assert (Q0 : 0 <= (28#3) - (h*h) * (70 - h * ((448#3) - h * (140 - h * (64 - h * (35#3)))))).
      { (* = 28/3 - 70 h^2 + 448/3 h^3 - 140 h^4 + 64 h^5 - 35/3 h^6; with v = a^6 p: (1 - v)/h^2 ; use 1 - v >= 0 below *)
        assert (V : ((1-h)*(1-h)*(1-h)*(1-h)*(1-h)*(1-h)) * ((35*h*h + 18*h + 3) / 3) <= 1).
        { fold a. fold p.
          (* a^6 p <= 1 : with h = 1 - a, p = (35 a^2 - 88 a + 56)/3 ; 1 - a^6 p = (1-a)^2 * S(a), S >= 0 *)
          assert (Ep : p == ((35#3)*(a*a) - (88#3)*a + (56#3))) by (unfold p, a; field).
          rewrite Ep.
          assert (E : 1 - (a*a*a*a*a*a) * ((35#3)*(a*a) - (88#3)*a + (56#3)) ==
                      ((1-a)*(1-a)) * (1 + 2*a + 3*(a*a) + 4*(a*a*a) + 5*(a*a*a*a) + 6*(a*a*a*a*a) - (35#3)*(a*a*a*a*a*a))) by ring.
          assert (0 <= 1 + 2*a + 3*(a*a) + 4*(a*a*a) + 5*(a*a*a*a) + 6*(a*a*a*a*a) - (35#3)*(a*a*a*a*a*a)) by lra.
          assert (0 <= ((1-a)*(1-a)) * (1 + 2*a + 3*(a*a) + 4*(a*a*a) + 5*(a*a*a*a) + 6*(a*a*a*a*a) - (35#3)*(a*a*a*a*a*a)))
            by (apply mul_nonneg; [apply sq_nonneg|assumption]).
          lra. }
        rewrite <- wendland2_factor in V.
        destruct (Qlt_le_dec 0 h) as [Hp|Hz].
        - assert (0 < h*h) by nra.
          destruct (Qlt_le_dec ((28#3) - (h*h) * (70 - h * ((448#3) - h * (140 - h * (64 - h * (35#3)))))) 0) as [N|N]; [|exact N].
          exfalso. nra.
        - assert (h == 0) by lra. rewrite H. lra. }
      assert (0 <= h*h) by nra. nra.
    - setoid_replace (a*a*a*a*a*a*p) with (a * ((a*a*a*a*a) * p)) by ring.
      assert ((a*a*a*a*a) * p <= 56#3) by nra.
      assert (0 <= (a*a*a*a*a) * p) by (apply mul_nonneg; [apply A5|apply P]).
      nra. }
  split; [|split].
  - intros h Hh. unfold cor_wendland2. cbv zeta. destruct (qltb_spec h 1) as [H|H]; [|lra]. rewrite wendland2_factor.
    destruct (K h Hh H) as [A [B _]]. split; assumption.
  - intros h Hh. unfold cor_wendland2. cbv zeta. destruct (qltb_spec h 1) as [H|H]; [lra|reflexivity].
  - intros h H0 H1. unfold cor_wendland2. cbv zeta. destruct (qltb_spec h 1) as [H|H]; [|lra]. rewrite wendland2_factor.
    apply (K h H0 H).
Qed.

(* ---------------------------------------------------------------- intrinsic structures: the variogram form *)
Lemma linear_variogram n r h : cor_linear n r 0 - cor_linear n r h == h.
Proof. unfold cor_linear. destruct (Z.eqb n 1); [ring|]. destruct (Z.eqb n 2); ring. Qed.
Lemma power1_variogram a h : 0 <= h -> cor_power1 a 0 - cor_power1 a h == h.
Proof.
  intro Hh. unfold cor_power1. destruct (qltb_spec 0 0) as [H|_]; [lra|].
  destruct (qltb_spec 0 h) as [H|H]; [ring|]. assert (h == 0) by lra. rewrite H0. ring.
Qed.
(* Cauchy / Gamma with an integer exponent: value 1 at the origin, values in ]0, 1] *)
Lemma qpow_ge1 x n : 1 <= x -> 1 <= qpow x n.
Proof. intro Hx. induction n as [|n IH]; cbn [qpow]; [lra|]. nra. Qed.
Lemma inv_ge1 y : 1 <= y -> 0 < / y /\ / y <= 1.
Proof.
  intro Hy. assert (P : 0 < / y) by (apply Qinv_lt_0_compat; lra). split; [exact P|].
  assert (E : y * / y == 1) by (field; lra). nra.
Qed.
Lemma qpow_ext x y n : x == y -> qpow x n == qpow y n.
Proof. intro E. induction n as [|k IH]; cbn [qpow]; [reflexivity|]. rewrite IH, E. reflexivity. Qed.
Lemma qpow_one n : qpow 1 n == 1.
Proof. induction n as [|k IH]; cbn [qpow]; [reflexivity|rewrite IH; ring]. Qed.
Lemma cauchy_basic n : cor_cauchy n 0 == 1 /\ forall h, 0 < cor_cauchy n h <= 1.
Proof.
  split.
  - unfold cor_cauchy. rewrite (qpow_ext (1 + 0 * 0) 1 n) by ring. rewrite qpow_one. reflexivity.
  - intro h. unfold cor_cauchy. apply inv_ge1. apply qpow_ge1. nra.
Qed.
Lemma gamma_basic n : cor_gamma n 0 == 1 /\ forall h, 0 <= h -> 0 < cor_gamma n h <= 1.
Proof.
  split.
  - unfold cor_gamma. rewrite (qpow_ext (1 + 0) 1 n) by ring. rewrite qpow_one. reflexivity.
  - intros h Hh. unfold cor_gamma. apply inv_ge1. apply qpow_ge1. lra.
Qed.

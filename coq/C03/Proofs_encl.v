(* C03 — the interval evaluator encloses the real closed forms (ties the R-spec to the executable model).
   Composition of CoqInterval's correctness lemmas; statements over R (standard real-number axioms). *)
From Coq Require Import List ZArith QArith Reals Qreals Bool Lra Lia.
From Interval Require Import Specific_stdz Specific_ops Float_full Interval Xreal Basic.
From Gst Require Import lib.QAux C03.Table C03.IEval C03.Spec.
Local Open Scope R_scope.

Notation cont X v := (contains (I.convert X) (Xreal v)).

Lemma contains_convex (X : interval) a b x :
  contains X (Xreal a) -> contains X (Xreal b) -> a <= x <= b -> contains X (Xreal x).
Proof. destruct X as [|l u]; cbn; [trivial|]. destruct l, u; intros; lra. Qed.

Lemma iZ_correct z : cont (iZ z) (IZR z).
Proof. apply I.fromZ_correct. Qed.

Lemma IZR_pos_neq0 p : IZR (Zpos p) <> 0.
Proof. apply not_0_IZR. discriminate. Qed.

Lemma idiv_correct X Y a b : b <> 0 -> cont X a -> cont Y b -> cont (idiv X Y) (a / b).
Proof.
  intros Hb HX HY. pose proof (I.div_correct prec X Y (Xreal a) (Xreal b) HX HY) as H.
  cbn in H. unfold Xdiv' in H. rewrite (is_zero_false b Hb) in H. exact H.
Qed.
Lemma imul_correct X Y a b : cont X a -> cont Y b -> cont (imul X Y) (a * b).
Proof. intros HX HY. exact (I.mul_correct prec X Y (Xreal a) (Xreal b) HX HY). Qed.
Lemma iadd_correct X Y a b : cont X a -> cont Y b -> cont (iadd X Y) (a + b).
Proof. intros HX HY. exact (I.add_correct prec X Y (Xreal a) (Xreal b) HX HY). Qed.
Lemma isub_correct X Y a b : cont X a -> cont Y b -> cont (isub X Y) (a - b).
Proof. intros HX HY. exact (I.sub_correct prec X Y (Xreal a) (Xreal b) HX HY). Qed.
Lemma ineg_correct X a : cont X a -> cont (I.neg X) (- a).
Proof. intro HX. exact (I.neg_correct X (Xreal a) HX). Qed.
Lemma iexp_correct X a : cont X a -> cont (iexp X) (exp a).
Proof. intro HX. exact (I.exp_correct prec X (Xreal a) HX). Qed.
Lemma icos_correct X a : cont X a -> cont (icos X) (cos a).
Proof. intro HX. exact (I.cos_correct prec X (Xreal a) HX). Qed.
Lemma isin_correct X a : cont X a -> cont (isin X) (sin a).
Proof. intro HX. exact (I.sin_correct prec X (Xreal a) HX). Qed.
Lemma isqrt_correct X a : cont X a -> cont (isqrt X) (sqrt a).
Proof. intro HX. exact (I.sqrt_correct prec X (Xreal a) HX). Qed.
Lemma iln_correct X a : 0 < a -> cont X a -> cont (iln X) (ln a).
Proof.
  intros Ha HX. pose proof (I.ln_correct prec X (Xreal a) HX) as H. cbn in H. unfold Xln' in H.
  rewrite (is_positive_true a Ha) in H. exact H.
Qed.
Lemma ipow_correct X a n : cont X a -> cont (ipow X n) (a ^ Pos.to_nat n).
Proof. intro HX. exact (I.power_pos_correct prec n X (Xreal a) HX). Qed.

Lemma iQ_correct q : cont (iQ q) (Q2R q).
Proof.
  unfold iQ, Q2R. apply (idiv_correct _ _ (IZR (Qnum q)) (IZR (Zpos (Qden q)))); [apply IZR_pos_neq0| |]; apply iZ_correct.
Qed.

Lemma ibr_correct lo hi h : Q2R lo <= h <= Q2R hi -> cont (ibr lo hi) h.
Proof.
  intro H. unfold ibr.
  apply (contains_convex _ (Q2R lo) (Q2R hi) h); [| |exact H].
  - apply I.join_correct. left. apply iQ_correct.
  - apply I.join_correct. right. apply iQ_correct.
Qed.

Lemma two_pi_correct : cont two_pi Rpi2.
Proof. unfold two_pi, Rpi2. apply imul_correct; [apply (iZ_correct 2)|apply iQ_correct]. Qed.

Lemma gv_pi_pos : 0 < Rpi2.
Proof.
  unfold Rpi2. assert (0 < Q2R gv_pi); [|lra].
  unfold Q2R, gv_pi. cbn [Qnum Qden]. apply Rmult_lt_0_compat; [apply IZR_lt; reflexivity|].
  apply Rinv_0_lt_compat. apply IZR_lt. reflexivity.
Qed.

Section Forms.
Variable X : I.type.
Variable h : R.
Hypothesis HX : cont X h.

Lemma i_exponential_correct : cont (i_exponential X) (corR_exponential h).
Proof. unfold i_exponential, corR_exponential. apply iexp_correct, ineg_correct, HX. Qed.
Lemma i_gaussian_correct : cont (i_gaussian X) (corR_gaussian h).
Proof. unfold i_gaussian, corR_gaussian. apply iexp_correct, ineg_correct, imul_correct; exact HX. Qed.
Lemma i_sinc_correct : h <> 0 -> cont (i_sinc X) (corR_sinc h).
Proof. intro Hh. unfold i_sinc, corR_sinc. apply idiv_correct; [exact Hh|apply isin_correct, HX|exact HX]. Qed.
Lemma i_matern32_correct : cont (i_matern32 X) (corR_matern32 h).
Proof.
  unfold i_matern32, corR_matern32. apply imul_correct.
  - apply iadd_correct; [apply (iZ_correct 1)|exact HX].
  - apply iexp_correct, ineg_correct, HX.
Qed.
Lemma i_matern52_correct : cont (i_matern52 X) (corR_matern52 h).
Proof.
  unfold i_matern52, corR_matern52. apply imul_correct.
  - apply iadd_correct.
    + apply iadd_correct; [apply (iZ_correct 1)|exact HX].
    + apply idiv_correct; [apply (not_0_IZR 3); discriminate|apply imul_correct; exact HX|apply (iZ_correct 3)].
  - apply iexp_correct, ineg_correct, HX.
Qed.
Lemma i_stable_half_correct k : cont (i_stable_half k X) (corR_stable_half k h).
Proof.
  unfold i_stable_half, corR_stable_half. apply iexp_correct, ineg_correct, ipow_correct, isqrt_correct, HX.
Qed.
Lemma i_cosinus_correct : cont (i_cosinus X) (corR_cosinus h).
Proof. unfold i_cosinus, corR_cosinus. apply icos_correct, imul_correct; [apply two_pi_correct|exact HX]. Qed.
Lemma i_cosexp_correct p : (0 < p)%Q -> cont (i_cosexp p X) (corR_cosexp (Q2R p) h).
Proof.
  intro Hp. unfold i_cosexp, corR_cosexp. apply imul_correct.
  - apply iexp_correct, ineg_correct, HX.
  - apply icos_correct, imul_correct; [apply two_pi_correct|].
    apply idiv_correct; [|exact HX|apply iQ_correct].
    assert (0 < Q2R p) by (replace 0 with (Q2R 0) by (unfold Q2R; cbn; lra); apply Qlt_Rlt; exact Hp). lra.
Qed.
Lemma i_storkey_in_correct : cont (i_storkey_in X) (corR_storkey_in h).
Proof.
  unfold i_storkey_in, corR_storkey_in. cbv zeta.
  apply idiv_correct; [apply (not_0_IZR 3); discriminate| |apply (iZ_correct 3)].
  apply iadd_correct.
  - apply imul_correct.
    + apply imul_correct; [apply (iZ_correct 2)|]. apply isub_correct; [apply (iZ_correct 1)|exact HX].
    + apply iadd_correct; [apply (iZ_correct 1)|].
      apply idiv_correct; [apply (not_0_IZR 2); discriminate| |apply (iZ_correct 2)].
      apply icos_correct, imul_correct; [apply two_pi_correct|exact HX].
  - apply imul_correct.
    + apply idiv_correct; [pose proof gv_pi_pos; lra|apply (iZ_correct 3)|apply two_pi_correct].
    + apply isin_correct, imul_correct; [apply two_pi_correct|exact HX].
Qed.
Lemma i_spline_correct ndim r L lv : cont L lv -> cont (i_spline ndim r X L) (corR_spline ndim (Q2R r) h lv).
Proof.
  intro HL. unfold i_spline, corR_spline. cbv zeta.
  assert (H2 : cont (imul X X) (h * h)) by (apply imul_correct; exact HX).
  assert (R2 : cont (imul (iQ r) (iQ r)) (Q2R r * Q2R r)) by (apply imul_correct; apply iQ_correct).
  assert (Ln2 : cont i_ln2 (ln 2)) by (apply (iln_correct _ 2); [lra|apply (iZ_correct 2)]).
  assert (Q12 : Q2R (1#2) = 1/2) by (unfold Q2R; cbn; lra).
  assert (Q32 : Q2R (3#2) = 3/2) by (unfold Q2R; cbn; lra).
  assert (Q116 : Q2R (11#6) = 11/6) by (unfold Q2R; cbn; lra).
  destruct (Z.eqb ndim 1).
  - apply isub_correct; [rewrite <- Q12; apply imul_correct; [apply iQ_correct|exact R2]|].
    apply imul_correct; [exact H2|]. apply isub_correct; [|exact HL]. apply isub_correct; [rewrite <- Q32; apply iQ_correct|exact Ln2].
  - destruct (Z.eqb ndim 2).
    + apply isub_correct; [exact R2|]. apply imul_correct; [exact H2|]. apply isub_correct; [apply (iZ_correct 1)|exact HL].
    + apply isub_correct; [rewrite <- Q32; apply imul_correct; [apply iQ_correct|exact R2]|].
      apply imul_correct; [exact H2|]. apply isub_correct; [|exact HL]. apply isub_correct; [rewrite <- Q116; apply iQ_correct|exact Ln2].
Qed.
Lemma i_spline2_correct L lv : cont L lv -> cont (i_spline2 X L) (corR_spline2 h lv).
Proof.
  intro HL. unfold i_spline2, corR_spline2. cbv zeta.
  assert (H2 : cont (imul X X) (h * h)) by (apply imul_correct; exact HX).
  assert (Q14 : Q2R (-(1#4)) = -(1/4)) by (unfold Q2R; cbn; lra).
  assert (Q34 : Q2R (-(3#4)) = -(3/4)) by (unfold Q2R; cbn; lra).
  apply ineg_correct. apply iadd_correct; [rewrite <- Q14; apply iQ_correct|].
  apply imul_correct; [exact H2|]. apply iadd_correct; [apply (iZ_correct 1)|].
  apply imul_correct; [exact H2|]. apply iadd_correct; [rewrite <- Q34; apply iQ_correct|exact HL].
Qed.
End Forms.

(* on the sphere *)
Lemma i_exponential_sph_correct nu X a : cont X a -> cont (i_exponential_sph nu X) (corR_exponential_sph (Q2R nu) a).
Proof. intro HX. unfold i_exponential_sph, corR_exponential_sph. apply iexp_correct, ineg_correct, imul_correct; [apply iQ_correct|exact HX]. Qed.
Lemma i_geometric_sph_correct rho X a : (0 <= rho)%Q -> (rho < 1)%Q -> cont X a -> cont (i_geometric_sph rho X) (corR_geometric_sph (Q2R rho) a).
Proof.
  intros H0 H1 HX. unfold i_geometric_sph, corR_geometric_sph.
  assert (R0 : 0 <= Q2R rho) by (replace 0 with (Q2R 0) by (unfold Q2R; cbn; lra); apply Qle_Rle; exact H0).
  assert (R1 : Q2R rho < 1) by (replace 1 with (Q2R 1) by (unfold Q2R; cbn; lra); apply Qlt_Rlt; exact H1).
  apply idiv_correct.
  - (* 1 - 2 rho cos a + rho^2 >= (1 - rho)^2 > 0 *)
    pose proof (COS_bound a) as [C0 C1].
    assert (0 < 1 - 2 * Q2R rho * cos a + Q2R rho * Q2R rho) by nra.
    intro E. pose proof (sqrt_lt_R0 _ H). lra.
  - apply isub_correct; [apply (iZ_correct 1)|apply iQ_correct].
  - apply isqrt_correct. apply iadd_correct; [|apply imul_correct; apply iQ_correct].
    apply isub_correct; [apply (iZ_correct 1)|]. apply imul_correct; [|apply icos_correct; exact HX].
    apply imul_correct; [apply (iZ_correct 2)|apply iQ_correct].
Qed.

(* the enclosure theorem: for every structure of the executable model, every bracket [hlo, hhi] of the
   normalised distance and every real h inside the bracket, the real closed form lies in the computed interval *)
Lemma cor_transI_encloses type param ndim field hlo hhi h X :
  (0 < field)%Q ->
  cor_transI type param ndim field hlo hhi = Some X -> Q2R hlo <= h <= Q2R hhi ->
  exists v, cor_R type param ndim field h = Some v /\ cont X v.
Proof.
  intros Hf HI Hh. pose proof (ibr_correct hlo hhi h Hh) as Hc.
  assert (Rf : 0 < Q2R field) by (replace 0 with (Q2R 0) by (unfold Q2R; cbn; lra); apply Qlt_Rlt; exact Hf).
  assert (T10 : 0 < Q2R (1 # 10000000000)) by (unfold Q2R; cbn; lra).
  assert (T4 : 0 < Q2R (1 # 10000)) by (unfold Q2R; cbn; lra).
  unfold cor_transI in HI. unfold cor_R. cbv zeta in HI.
  destruct type as [|p|p]; [discriminate| |discriminate].
  do 6 (try (destruct p as [p|p|]); try discriminate).
  (* the remaining positives are exactly the handled structure codes *)
  all: try (injection HI as <-; eexists; split; [reflexivity|];
            first [exact (i_exponential_correct _ _ Hc)|exact (i_gaussian_correct _ _ Hc)|exact (i_cosinus_correct _ _ Hc)]).
  - (* 23 Storkey *)
    destruct (qltb_spec hhi 1) as [H1|H1].
    + injection HI as <-. eexists; split; [reflexivity|]. unfold corR_storkey.
      assert (Q2R hhi < 1) by (replace 1 with (Q2R 1) by (unfold Q2R; cbn; lra); apply Qlt_Rlt; exact H1).
      destruct (Rlt_dec h 1); [|lra]. apply i_storkey_in_correct. exact Hc.
    + destruct (qleb_spec 1 hlo) as [H2|H2].
      * injection HI as <-. eexists; split; [reflexivity|]. unfold corR_storkey.
        assert (1 <= Q2R hlo) by (replace 1 with (Q2R 1) by (unfold Q2R; cbn; lra); apply Qle_Rle; exact H2).
        destruct (Rlt_dec h 1); [lra|]. apply (iZ_correct 0).
      * injection HI as <-. eexists; split; [reflexivity|]. unfold corR_storkey.
        apply I.join_correct. destruct (Rlt_dec h 1); [left; exact (i_storkey_in_correct _ _ Hc)|right; apply (iZ_correct 0)].
  - (* 19 Cosexp *)
    destruct (qltb_spec 0 param) as [Hp|Hp]; [|discriminate].
    injection HI as <-. eexists; split; [reflexivity|]. exact (i_cosexp_correct _ _ Hc param Hp).
  - (* 7 Matern *)
    destruct (qeqb param (1#2)); [injection HI as <-; eexists; split; [reflexivity|exact (i_exponential_correct _ _ Hc)]|].
    destruct (qeqb param (3#2)); [injection HI as <-; eexists; split; [reflexivity|exact (i_matern32_correct _ _ Hc)]|].
    destruct (qeqb param (5#2)); [injection HI as <-; eexists; split; [reflexivity|exact (i_matern52_correct _ _ Hc)]|discriminate].
  - (* 5 cardinal sine *)
    destruct (qltb_spec (1 # 100000) hlo) as [H1|H1].
    + injection HI as <-. eexists; split; [reflexivity|].
      assert (Q2R (1 # 100000) < Q2R hlo) by (apply Qlt_Rlt; exact H1).
      assert (0 < Q2R (1 # 100000)) by (unfold Q2R; cbn; lra).
      destruct (Rlt_dec (Q2R (1 # 100000)) h); [|lra]. apply (i_sinc_correct _ _ Hc). lra.
    + destruct (qleb_spec hhi (1 # 100000)) as [H2|H2]; [|discriminate].
      injection HI as <-. eexists; split; [reflexivity|].
      assert (Q2R hhi <= Q2R (1 # 100000)) by (apply Qle_Rle; exact H2).
      destruct (Rlt_dec (Q2R (1 # 100000)) h); [lra|]. apply (iZ_correct 1).
  - (* 22 Spline-2 *)
    destruct (qleb_spec (1 # 10000) hlo) as [H1|H1].
    + injection HI as <-. eexists; split; [reflexivity|].
      assert (Q2R (1 # 10000) <= Q2R hlo) by (apply Qle_Rle; exact H1).
      destruct (Rle_dec (Q2R (1 # 10000)) h); [|lra].
      apply (i_spline2_correct _ _ Hc). apply iln_correct; [lra|exact Hc].
    + destruct (qltb_spec hhi (1 # 10000)) as [H2|H2]; [|discriminate].
      injection HI as <-. eexists; split; [reflexivity|].
      assert (Q2R hhi < Q2R (1 # 10000)) by (apply Qlt_Rlt; exact H2).
      destruct (Rle_dec (Q2R (1 # 10000)) h); [lra|].
      apply (i_spline2_correct _ _ Hc). apply (iZ_correct 0).
  - (* 14 Spline *)
    destruct (qltb field (1 # 10000)).
    + injection HI as <-. eexists; split; [reflexivity|]. apply (i_spline_correct _ _ Hc). apply (iZ_correct 0).
    + destruct (qleb_spec (1 # 10000000000) hlo) as [H1|H1].
      * injection HI as <-. eexists; split; [reflexivity|].
        assert (Q2R (1 # 10000000000) <= Q2R hlo) by (apply Qle_Rle; exact H1).
        destruct (Rle_dec (Q2R (1 # 10000000000)) h); [|lra].
        apply (i_spline_correct _ _ Hc). apply iln_correct.
        -- apply Rdiv_lt_0_compat; lra.
        -- apply idiv_correct; [lra|exact Hc|apply iQ_correct].
      * destruct (qltb_spec hhi (1 # 10000000000)) as [H2|H2]; [|discriminate].
        injection HI as <-. eexists; split; [reflexivity|].
        assert (Q2R hhi < Q2R (1 # 10000000000)) by (apply Qlt_Rlt; exact H2).
        destruct (Rle_dec (Q2R (1 # 10000000000)) h); [lra|].
        apply (i_spline_correct _ _ Hc). apply (iZ_correct 0).
  - (* 10 Stable *)
    destruct (qeqb param 1); [injection HI as <-; eexists; split; [reflexivity|exact (i_exponential_correct _ _ Hc)]|].
    destruct (qeqb param 2); [injection HI as <-; eexists; split; [reflexivity|exact (i_gaussian_correct _ _ Hc)]|].
    destruct (qeqb param (1#2)); [injection HI as <-; eexists; split; [reflexivity|exact (i_stable_half_correct _ _ Hc _)]|].
    destruct (qeqb param (3#2)); [injection HI as <-; eexists; split; [reflexivity|exact (i_stable_half_correct _ _ Hc _)]|discriminate].
Qed.

(* ------------------------------------------------------------------ float endpoints as rationals *)
Lemma Q2R_inject_Z z : Q2R (inject_Z z) = IZR z.
Proof. unfold Q2R, inject_Z. cbn [Qnum Qden]. rewrite Rinv_1. ring. Qed.

Lemma f2q_correct m e q : f2q (Specific_ops.Float m e) = Some q -> F.toX (Specific_ops.Float m e) = Xreal (Q2R q).
Proof.
  unfold f2q. intro H. injection H as <-.
  unfold F.toX, F.toF. unfold StdZRadix2.mantissa_sign, StdZRadix2.MtoP, StdZRadix2.EtoZ.
  destruct m as [|p|p]; cbn [FtoX].
  - destruct (Z.leb 0 e); [rewrite Q2R_inject_Z; cbn; reflexivity|]. unfold Q2R. cbn [Qnum]. f_equal. ring.
  - unfold FtoR. destruct e as [|pe|pe]; cbn [Z.leb Z.compare].
    + rewrite Q2R_inject_Z. f_equal. f_equal. cbn. lia.
    + rewrite Q2R_inject_Z. f_equal.
    + unfold Q2R. cbn [Qnum Qden Z.opp]. f_equal. unfold Rdiv. f_equal. f_equal.
      rewrite Z2Pos.id; [reflexivity|]. apply Z.pow_pos_nonneg; lia.
  - unfold FtoR. destruct e as [|pe|pe]; cbn [Z.leb Z.compare].
    + rewrite Q2R_inject_Z. f_equal. f_equal. cbn. lia.
    + rewrite Q2R_inject_Z. f_equal.
    + unfold Q2R. cbn [Qnum Qden Z.opp]. f_equal. unfold Rdiv. f_equal. f_equal.
      rewrite Z2Pos.id; [reflexivity|]. apply Z.pow_pos_nonneg; lia.
Qed.

Lemma i2qq_correct X a b v : i2qq X = Some (a, b) -> cont X v -> Q2R a <= v <= Q2R b.
Proof.
  unfold i2qq. destruct X as [|l u]; [discriminate|].
  destruct l as [|ml el]; [discriminate|]. destruct u as [|mu eu]; [cbn; discriminate|].
  destruct (f2q (Specific_ops.Float ml el)) as [qa|] eqn:Ea; [|discriminate].
  destruct (f2q (Specific_ops.Float mu eu)) as [qb|] eqn:Eb; [|discriminate].
  intro H. injection H as <- <-. intro Hc.
  unfold I.convert in Hc.
  destruct (I.F.valid_lb (Specific_ops.Float ml el) && I.F.valid_ub (Specific_ops.Float mu eu))%bool.
  - rewrite (f2q_correct _ _ _ Ea), (f2q_correct _ _ _ Eb) in Hc. cbn in Hc. exact Hc.
  - cbn in Hc. lra.
Qed.

(* the rational enclosure returned by the executable model contains the real closed form *)
Lemma cor_trans_encloses type param ndim field hlo hhi h a b :
  (0 < field)%Q ->
  cor_trans type param ndim field hlo hhi = Some (a, b) -> Q2R hlo <= h <= Q2R hhi ->
  exists v, cor_R type param ndim field h = Some v /\ Q2R a <= v <= Q2R b.
Proof.
  intro Hf. unfold cor_trans. destruct (cor_transI type param ndim field hlo hhi) as [X|] eqn:E; [|discriminate].
  intros Hq Hh. destruct (cor_transI_encloses type param ndim field hlo hhi h X Hf E Hh) as [v [Hv Hc]].
  exists v. split; [exact Hv|]. apply (i2qq_correct X a b v Hq Hc).
Qed.

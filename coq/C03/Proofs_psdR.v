(* C03 — positive semi-definiteness of real-valued kernels on EVERY finite point set (any n, any points):
   finite quadratic forms over R; closure under sums, non-negative scaling, Gram matrices, entrywise product with a
   Gram matrix, pointwise limits;  hence
     cosine        cos(w (t_i - t_j))                 in R^1   (Gram of the features cos, sin)
     Gaussian      exp(-|p_i - p_j|^2)                in R^d, every d  (power series of exp(2 p.q), limit of PSD)
   These are complete proofs (no citation); they depend on the standard real-number axioms only. *)
From Coq Require Import Reals Lra Lia Arith.
From Coquelicot Require Import Coquelicot.
From Gst Require Import C03.Table C03.Spec.
Local Open Scope R_scope.

Fixpoint sumR (n : nat) (f : nat -> R) : R := match n with O => 0 | S k => sumR k f + f k end.

Lemma sumR_ext n f g : (forall i, (i < n)%nat -> f i = g i) -> sumR n f = sumR n g.
Proof. induction n as [|n IH]; intro H; cbn [sumR]; [reflexivity|]. rewrite IH by (intros; apply H; lia). rewrite (H n) by lia. reflexivity. Qed.
Lemma sumR_zero n : sumR n (fun _ => 0) = 0.
Proof. induction n as [|n IH]; cbn [sumR]; [reflexivity|]. rewrite IH. ring. Qed.
Lemma sumR_add n f g : sumR n (fun i => f i + g i) = sumR n f + sumR n g.
Proof. induction n as [|n IH]; cbn [sumR]; [ring|]. rewrite IH. ring. Qed.
Lemma sumR_scal_l n c f : sumR n (fun i => c * f i) = c * sumR n f.
Proof. induction n as [|n IH]; cbn [sumR]; [ring|]. rewrite IH. ring. Qed.
Lemma sumR_scal_r n c f : sumR n (fun i => f i * c) = sumR n f * c.
Proof. induction n as [|n IH]; cbn [sumR]; [ring|]. rewrite IH. ring. Qed.
Lemma sumR_swap n m (f : nat -> nat -> R) :
  sumR n (fun i => sumR m (fun j => f i j)) = sumR m (fun j => sumR n (fun i => f i j)).
Proof.
  induction n as [|n IH]; cbn [sumR].
  - symmetry. apply sumR_zero.
  - rewrite IH. rewrite <- sumR_add. reflexivity.
Qed.
Lemma sumR_nonneg n f : (forall i, (i < n)%nat -> 0 <= f i) -> 0 <= sumR n f.
Proof.
  induction n as [|n IH]; intro H; cbn [sumR]; [lra|].
  assert (0 <= sumR n f) by (apply IH; intros; apply H; lia). assert (0 <= f n) by (apply H; lia). lra.
Qed.
Lemma sumR_mul n m f g : sumR n f * sumR m g = sumR n (fun i => sumR m (fun j => f i * g j)).
Proof. rewrite <- sumR_scal_r. apply sumR_ext. intros i _. rewrite <- sumR_scal_l. reflexivity. Qed.

Definition rmat := nat -> nat -> R.
Definition quadR (n : nat) (K : rmat) (x : nat -> R) : R := sumR n (fun i => sumR n (fun j => x i * K i j * x j)).
Definition psdR (n : nat) (K : rmat) : Prop := forall x, 0 <= quadR n K x.

Lemma quadR_ext n K K' x : (forall i j, (i < n)%nat -> (j < n)%nat -> K i j = K' i j) -> quadR n K x = quadR n K' x.
Proof. intro H. unfold quadR. apply sumR_ext. intros i Hi. apply sumR_ext. intros j Hj. rewrite (H i j Hi Hj). reflexivity. Qed.
Lemma psdR_ext n K K' : (forall i j, (i < n)%nat -> (j < n)%nat -> K i j = K' i j) -> psdR n K -> psdR n K'.
Proof. intros E H x. rewrite <- (quadR_ext n K K' x E). apply H. Qed.
Lemma quadR_add n K L x : quadR n (fun i j => K i j + L i j) x = quadR n K x + quadR n L x.
Proof. unfold quadR. rewrite <- sumR_add. apply sumR_ext. intros i _. rewrite <- sumR_add. apply sumR_ext. intros; ring. Qed.
Lemma quadR_scale n c K x : quadR n (fun i j => c * K i j) x = c * quadR n K x.
Proof. unfold quadR. rewrite <- sumR_scal_l. apply sumR_ext. intros i _. rewrite <- sumR_scal_l. apply sumR_ext. intros; ring. Qed.
Lemma psdR_add n K L : psdR n K -> psdR n L -> psdR n (fun i j => K i j + L i j).
Proof. intros HK HL x. rewrite quadR_add. specialize (HK x). specialize (HL x). lra. Qed.
Lemma psdR_scale n c K : 0 <= c -> psdR n K -> psdR n (fun i j => c * K i j).
Proof. intros Hc HK x. rewrite quadR_scale. specialize (HK x). nra. Qed.
Lemma psdR_zero n : psdR n (fun _ _ => 0).
Proof.
  intro x. unfold quadR. rewrite (sumR_ext n _ (fun _ => 0)); [rewrite sumR_zero; lra|].
  intros i _. rewrite (sumR_ext n _ (fun _ => 0)); [apply sumR_zero|]. intros; ring.
Qed.
Lemma psdR_one n : psdR n (fun _ _ => 1).
Proof.
  intro x. unfold quadR.
  rewrite (sumR_ext n _ (fun i => sumR n (fun j => x i * x j))) by (intros; apply sumR_ext; intros; ring).
  rewrite <- (sumR_mul n n x x). nra.
Qed.

(* Gram matrix K_ij = sum_l B_il B_jl *)
Lemma quadR_gram n r (B : rmat) x :
  quadR n (fun i j => sumR r (fun l => B i l * B j l)) x = sumR r (fun l => sumR n (fun i => x i * B i l) * sumR n (fun i => x i * B i l)).
Proof.
  unfold quadR.
  transitivity (sumR r (fun l => sumR n (fun i => sumR n (fun j => (x i * B i l) * (x j * B j l))))).
  - transitivity (sumR n (fun i => sumR r (fun l => sumR n (fun j => (x i * B i l) * (x j * B j l))))).
    + apply sumR_ext. intros i _.
      transitivity (sumR n (fun j => sumR r (fun l => (x i * B i l) * (x j * B j l)))).
      * apply sumR_ext. intros j _.
        transitivity ((x i * x j) * sumR r (fun l => B i l * B j l)); [ring|].
        rewrite <- sumR_scal_l. apply sumR_ext. intros; ring.
      * apply sumR_swap.
    + apply sumR_swap.
  - apply sumR_ext. intros l _. symmetry. apply (sumR_mul n n (fun i => x i * B i l) (fun i => x i * B i l)).
Qed.
Lemma psdR_gram n r B : psdR n (fun i j => sumR r (fun l => B i l * B j l)).
Proof. intro x. rewrite quadR_gram. apply sumR_nonneg. intros. nra. Qed.

Lemma psdR_schur_rank1 n (u : nat -> R) K : psdR n K -> psdR n (fun i j => u i * K i j * u j).
Proof.
  intros H x. specialize (H (fun i => u i * x i)). unfold quadR in *.
  rewrite (sumR_ext n _ (fun i => sumR n (fun j => u i * x i * K i j * (u j * x j)))); [exact H|].
  intros i _. apply sumR_ext. intros; ring.
Qed.
Lemma psdR_schur_gram n r (B : rmat) K : psdR n K -> psdR n (fun i j => K i j * sumR r (fun l => B i l * B j l)).
Proof.
  intro H. induction r as [|r IH].
  - apply (psdR_ext n (fun _ _ => 0)); [intros; cbn [sumR]; ring|apply psdR_zero].
  - apply (psdR_ext n (fun i j => K i j * sumR r (fun l => B i l * B j l) + B i r * K i j * B j r)).
    + intros i j _ _. cbn [sumR]. ring.
    + apply psdR_add; [exact IH|]. apply (psdR_schur_rank1 n (fun i => B i r) K H).
Qed.
(* powers of a Gram matrix, entrywise *)
Lemma psdR_gram_pow n r (B : rmat) k : psdR n (fun i j => (sumR r (fun l => B i l * B j l)) ^ k).
Proof.
  induction k as [|k IH].
  - apply (psdR_ext n (fun _ _ => 1)); [intros; reflexivity|apply psdR_one].
  - apply (psdR_ext n (fun i j => (sumR r (fun l => B i l * B j l)) ^ k * sumR r (fun l => B i l * B j l))).
    + intros i j _ _. cbn [pow]. ring.
    + apply psdR_schur_gram. exact IH.
Qed.

(* ------------------------------------------------------------------ limits *)
Lemma is_lim_seq_sumR n (f : nat -> nat -> R) (l : nat -> R) :
  (forall i, (i < n)%nat -> is_lim_seq (fun N => f N i) (l i)) -> is_lim_seq (fun N => sumR n (f N)) (sumR n l).
Proof.
  induction n as [|n IH]; intro H; cbn [sumR].
  - apply is_lim_seq_const.
  - apply is_lim_seq_plus'; [apply IH; intros; apply H; lia|apply H; lia].
Qed.
Lemma psdR_limit n (KN : nat -> rmat) (K : rmat) :
  (forall N, psdR n (KN N)) -> (forall i j, (i < n)%nat -> (j < n)%nat -> is_lim_seq (fun N => KN N i j) (K i j)) -> psdR n K.
Proof.
  intros HP HL x.
  assert (L : is_lim_seq (fun N => quadR n (KN N) x) (quadR n K x)).
  { unfold quadR. apply (is_lim_seq_sumR n (fun N i => sumR n (fun j => x i * KN N i j * x j)) (fun i => sumR n (fun j => x i * K i j * x j))).
    intros i Hi. apply (is_lim_seq_sumR n (fun N j => x i * KN N i j * x j) (fun j => x i * K i j * x j)).
    intros j Hj. apply is_lim_seq_mult'; [|apply is_lim_seq_const].
    apply is_lim_seq_mult'; [apply is_lim_seq_const|apply HL; assumption]. }
  pose proof (is_lim_seq_le (fun _ => 0) (fun N => quadR n (KN N) x) 0 (quadR n K x) (fun N => HP N x) (is_lim_seq_const 0) L) as H.
  exact H.
Qed.

(* ------------------------------------------------------------------ cosine in R^1 *)
Lemma psdR_cos n (w : R) (t : nat -> R) : psdR n (fun i j => cos (w * (t i - t j))).
Proof.
  apply (psdR_ext n (fun i j => sumR 2 (fun l => (if Nat.eqb l 0 then cos (w * t i) else sin (w * t i)) *
                                                  (if Nat.eqb l 0 then cos (w * t j) else sin (w * t j))))).
  - intros i j _ _. cbn [sumR Nat.eqb].
    replace (w * (t i - t j)) with (w * t i - w * t j) by ring. rewrite cos_minus. ring.
  - apply (psdR_gram n 2 (fun i l => if Nat.eqb l 0 then cos (w * t i) else sin (w * t i))).
Qed.
(* the Cosinus structure: cor(h) = cos(2 GV_PI h) with h = |t_i - t_j| / range *)
Lemma psdR_cosinus_1d n (range : R) (t : nat -> R) : psdR n (fun i j => corR_cosinus (Rabs (t i - t j) / range)).
Proof.
  apply (psdR_ext n (fun i j => cos ((Rpi2 / range) * (t i - t j)))); [|apply psdR_cos].
  intros i j _ _. unfold corR_cosinus.
  unfold Rabs. destruct (Rcase_abs (t i - t j)) as [H|H].
  - replace (Rpi2 * (- (t i - t j) / range)) with (- (Rpi2 / range * (t i - t j))) by (unfold Rdiv; ring). rewrite cos_neg. reflexivity.
  - f_equal. unfold Rdiv. ring.
Qed.

(* ------------------------------------------------------------------ Gaussian in R^d *)
Definition dotR (d : nat) (p q : nat -> R) : R := sumR d (fun a => p a * q a).
Definition dist2R (d : nat) (p q : nat -> R) : R := sumR d (fun a => (p a - q a) * (p a - q a)).
Lemma dist2R_dot d p q : dist2R d p q = dotR d p p + dotR d q q - 2 * dotR d p q.
Proof.
  unfold dist2R, dotR. rewrite <- sumR_scal_l. rewrite <- sumR_add.
  transitivity (sumR d (fun a => p a * p a + q a * q a + (-1) * (2 * (p a * q a)))).
  - apply sumR_ext. intros; ring.
  - rewrite sumR_add. rewrite sumR_scal_l. ring.
Qed.

Lemma exp_series_lim x : is_lim_seq (fun N => sum_n (fun k => x ^ k * / INR (fact k)) N) (exp x).
Proof.
  pose proof (is_exp_Reals x) as H. unfold is_pseries, is_series in H.
  apply (is_lim_seq_ext (sum_n (fun k => scal (pow_n x k) (/ INR (fact k))))); [|exact H].
  intro N. apply sum_n_ext. intro k. rewrite pow_n_pow. reflexivity.
Qed.

Lemma psdR_partial_exp n r (B : rmat) N :
  psdR n (fun i j => sum_n (fun k => (sumR r (fun l => B i l * B j l)) ^ k * / INR (fact k)) N).
Proof.
  induction N as [|N IH].
  - apply (psdR_ext n (fun _ _ => 1)); [|apply psdR_one].
    intros i j _ _. rewrite sum_O. cbn. field.
  - apply (psdR_ext n (fun i j => sum_n (fun k => (sumR r (fun l => B i l * B j l)) ^ k * / INR (fact k)) N
                                  + / INR (fact (S N)) * (sumR r (fun l => B i l * B j l)) ^ (S N))).
    + intros i j _ _. rewrite sum_Sn. unfold plus; cbn -[fact pow INR]. ring.
    + apply psdR_add; [exact IH|]. apply psdR_scale; [|apply psdR_gram_pow].
      left. apply Rinv_0_lt_compat. apply lt_0_INR. apply lt_O_fact.
Qed.

(* exp(g_ij) is PSD for a Gram matrix g *)
Lemma psdR_exp_gram n r (B : rmat) : psdR n (fun i j => exp (sumR r (fun l => B i l * B j l))).
Proof.
  apply (psdR_limit n (fun N i j => sum_n (fun k => (sumR r (fun l => B i l * B j l)) ^ k * / INR (fact k)) N)).
  - intro N. apply psdR_partial_exp.
  - intros i j _ _. apply exp_series_lim.
Qed.

(* the Gaussian kernel exp(-|p_i - p_j|^2) on any n points of R^d, any d *)
Lemma psdR_gaussian d n (p : nat -> nat -> R) : psdR n (fun i j => exp (- dist2R d (p i) (p j))).
Proof.
  apply (psdR_ext n (fun i j => exp (- dotR d (p i) (p i)) * exp (sumR d (fun a => (sqrt 2 * p i a) * (sqrt 2 * p j a))) * exp (- dotR d (p j) (p j)))).
  - intros i j _ _. rewrite <- !exp_plus. f_equal. rewrite dist2R_dot.
    assert (E : sumR d (fun a => sqrt 2 * p i a * (sqrt 2 * p j a)) = 2 * dotR d (p i) (p j)).
    { unfold dotR. rewrite <- sumR_scal_l. apply sumR_ext. intros a _.
      transitivity ((sqrt 2 * sqrt 2) * (p i a * p j a)); [ring|]. rewrite sqrt_sqrt by lra. reflexivity. }
    rewrite E. ring.
  - apply (psdR_schur_rank1 n (fun i => exp (- dotR d (p i) (p i)))).
    apply (psdR_exp_gram n d (fun i a => sqrt 2 * p i a)).
Qed.
(* the Gaussian structure of the library: cor(h) = exp(-h^2), h the (anisotropic, normalised) distance of the points *)
Lemma psdR_gaussian_structure d n (p : nat -> nat -> R) :
  psdR n (fun i j => corR_gaussian (sqrt (dist2R d (p i) (p j)))).
Proof.
  apply (psdR_ext n (fun i j => exp (- dist2R d (p i) (p j)))); [|apply psdR_gaussian].
  intros i j _ _. unfold corR_gaussian. rewrite sqrt_sqrt; [reflexivity|].
  unfold dist2R. apply sumR_nonneg. intros a _. exact (Rle_0_sqr (p i a - p j a)).
Qed.

(* C03 — hand-written REFERENCE validity table (not derived from the code).
   Sources: Chiles & Delfiner, Geostatistics (2nd ed.) sect. 2.5 (Table of models and their dimension of validity),
   sect. 4.5 (generalised covariances); Wendland (1995) for phi_{3,k}; Yaglom (1987) for exp(-ah)cos(bh);
   Matheron / Schoenberg: J_nu(h)/h^nu is valid in R^d iff nu >= (d-2)/2.

   r_maxdim   largest space dimension in which the structure is a valid covariance FOR EVERY admissible value of its
              third parameter (None = every dimension)
   r_minorder smallest IRF order for which it is a valid generalised covariance (-1 = ordinary covariance)
   r_hash     for structures outside the translator's arithmetic subset: md5 prefix of the _evaluateCov text the
              hand-written closed form (IEval.v / Model.v) was written against (0 = not pinned)
   r_known    false = no reference entered for the dimension / order (the entry is only checked for form) *)
From Coq Require Import List ZArith QArith String Bool.
From Gst Require Import lib.QAux C03.Table.
Import ListNotations.
Local Open Scope string_scope.

Record ref_entry := {
  r_name : string; r_known : bool; r_maxdim : option nat; r_minorder : Z;
  r_parmax : parmax; r_scadef : scadef_kind; r_shape : shape; r_hash : Z; r_onRn : bool;
  r_parmin_dim : bool   (* valid in R^d iff param >= (d-2)/2: any dimension is fine when the code enforces that bound *)
}.

Definition mk_ref (name : string) (maxdim : option nat) (minorder : Z) (pm : parmax) (sc : scadef_kind)
             (sh : shape) (hash : Z) : ref_entry :=
  {| r_name := name; r_known := true; r_maxdim := maxdim; r_minorder := minorder; r_parmax := pm;
     r_scadef := sc; r_shape := sh; r_hash := hash; r_onRn := true; r_parmin_dim := false |}.

Definition alld : option nat := None.
Definition upto (n : nat) : option nat := Some n.
Definition nopar : parmax := PMmax 0.

Definition ref_table : list ref_entry := [
  mk_ref "Nugget Effect"   alld     (-1) nopar (SCconst 1) ShPoly 0;
  mk_ref "Exponential"     alld     (-1) nopar (SCconst (2995732#1000000)) ShOpaque 30846060088267;
  mk_ref "Spherical"       (upto 3) (-1) nopar (SCconst 1) ShPoly 0;
  mk_ref "Gaussian"        alld     (-1) nopar (SCconst (1730818#1000000)) ShOpaque 209249640405351;
  mk_ref "Cubic"           (upto 3) (-1) nopar (SCconst 1) ShPoly 0;
  (* sin(h)/h = J_{1/2}: valid up to R^3 only *)
  mk_ref "Cardinal Sine"   (upto 3) (-1) nopar (SCconst (20371#1000)) ShOpaque 92268355471256;
  (* J_nu(h)/h^nu, 0 < nu <= 2: valid in R^d iff d <= 2 nu + 2; for every admissible nu only d <= 2 *)
  {| r_name := "J-Bessel"; r_known := true; r_maxdim := upto 2; r_minorder := -1; r_parmax := PMmax 2;
     r_scadef := SCconst 1; r_shape := ShOpaque; r_hash := 130270537090169; r_onRn := true; r_parmin_dim := true |};
  mk_ref "Matern"          alld     (-1) (PMmax 1000) SCsqrt12param ShOpaque 218672723734076;
  mk_ref "Gamma"           alld     (-1) (PMmax 1000) SCpow20inv_m1 ShOpaque 256574395154008;
  mk_ref "Cauchy"          alld     (-1) (PMmax 1000) SCsqrtpow20inv_m1 ShOpaque 83073204644994;
  mk_ref "Stable"          alld     (-1) (PMmax 2) SCpow3inv ShOpaque 41908116815587;
  mk_ref "Linear"          alld     0    nopar (SCconst 1) ShPoly 0;
  mk_ref "Power"           alld     0    (PMmax (199#100)) (SCconst 1) ShOpaque 273655749824194;
  mk_ref "Order-1 G.C."    alld     0    nopar (SCconst 1) ShPoly 0;
  mk_ref "Spline G.C."     alld     1    nopar (SCconst 1) ShOpaque 219144259816342;
  mk_ref "Order-3 G.C."    alld     1    nopar (SCconst 1) ShPoly 0;
  mk_ref "Order-5 G.C."    alld     2    nopar (SCconst 1) ShPoly 0;
  mk_ref "Cosinus"         (upto 1) (-1) nopar (SCconst 1) ShOpaque 276226093259959;
  mk_ref "Triangle"        (upto 1) (-1) nopar (SCconst 1) ShPoly 0;
  (* exp(-h) cos(b h): valid in R^1 for every b; in R^2 iff b <= 1, in R^3 iff b <= 1/sqrt 3 (b = 2 pi / param) *)
  mk_ref "Cosexp"          (upto 1) (-1) PMunbounded (SCconst (2995732#1000000)) ShOpaque 126247278464172;
  mk_ref "1-D Regularized" (upto 1) (-1) nopar (SCconst 2) ShPoly 0;
  (* pentaspherical model 1 - 15/8 h + 5/4 h^3 - 3/8 h^5: valid up to R^3 *)
  mk_ref "Penta"           (upto 3) (-1) nopar (SCconst 1) ShPoly 0;
  mk_ref "Storkey"         (upto 1) (-1) nopar (SCconst 1) ShOpaque 126626720844775;
  mk_ref "Wendland-2,0"    (upto 3) (-1) nopar (SCconst 1) ShPoly 0;
  mk_ref "Wendland-3,1"    (upto 3) (-1) nopar (SCconst 1) ShPoly 0;
  mk_ref "Wendland-4,2"    (upto 3) (-1) nopar (SCconst 1) ShPoly 0;
  (* -(h^4 log h + ...): generalised covariance of order 2 (Chiles-Delfiner 4.5.5: (-1)^(k+1) h^(2k) log h) *)
  mk_ref "Spline-2 G.C."   alld     2    nopar (SCconst 1) ShOpaque 205745297379148;
  (* no reference entered (spectral / sphere-only structures: not offered on R^n) *)
  {| r_name := "Markov"; r_known := false; r_maxdim := None; r_minorder := -1; r_parmax := PMmax 1000;
     r_scadef := SCsqrt12ncoeffs; r_shape := ShNone; r_hash := 0; r_onRn := false; r_parmin_dim := false |};
  {| r_name := "Geometric"; r_known := false; r_maxdim := None; r_minorder := -1; r_parmax := nopar;
     r_scadef := SCconst 1; r_shape := ShNone; r_hash := 0; r_onRn := false; r_parmin_dim := false |};
  {| r_name := "Poisson"; r_known := false; r_maxdim := None; r_minorder := -1; r_parmax := PMmax 1000;
     r_scadef := SCconst 1; r_shape := ShNone; r_hash := 0; r_onRn := false; r_parmin_dim := false |};
  {| r_name := "LinearSph"; r_known := false; r_maxdim := None; r_minorder := -1; r_parmax := nopar;
     r_scadef := SCconst 1; r_shape := ShNone; r_hash := 0; r_onRn := false; r_parmin_dim := false |}
].

Fixpoint lookup (name : string) (l : list ref_entry) : option ref_entry :=
  match l with
  | [] => None
  | r :: t => if String.eqb name (r_name r) then Some r else lookup name t
  end.

(* declared <= reference *)
Definition dim_le (decl ref : option nat) : bool :=
  match decl, ref with
  | _, None => true
  | None, Some _ => false
  | Some a, Some b => Nat.leb a b
  end.
Definition parmax_le (decl ref : parmax) : bool :=
  match decl, ref with
  | _, PMunbounded => true
  | PMunbounded, PMmax _ => false
  | PMmax a, PMmax b => qleb a b
  end.
Definition scadef_eqb (a b : scadef_kind) : bool :=
  match a, b with
  | SCconst x, SCconst y => qeqb x y
  | SCsqrt12param, SCsqrt12param | SCpow3inv, SCpow3inv | SCsqrtpow20inv_m1, SCsqrtpow20inv_m1
  | SCpow20inv_m1, SCpow20inv_m1 | SCsqrt12ncoeffs, SCsqrt12ncoeffs => true
  | _, _ => false
  end.
Definition shape_eqb (a b : shape) : bool :=
  match a, b with ShPoly, ShPoly | ShOpaque, ShOpaque | ShNone, ShNone => true | _, _ => false end.

(* individual checks; the code identifies the check in reports *)
Definition chk_dim (e : cov_entry) (r : ref_entry) : bool :=
  negb (r_known r) || dim_le (ce_maxdim e) (r_maxdim r) || (r_parmin_dim r && ce_parmin_dim e).
Definition chk_order (e : cov_entry) (r : ref_entry) : bool := negb (r_known r) || Z.leb (r_minorder r) (ce_minorder e).
(* a compactly supported structure vanishes beyond its RANGE: support (in normalised distance) <= scadef *)
Definition chk_support (e : cov_entry) (r : ref_entry) : bool :=
  match ce_support e, ce_scadef e with
  | Some s, SCconst k => qleb s k
  | Some _, _ => false
  | None, _ => true
  end.
Definition chk_scadef (e : cov_entry) (r : ref_entry) : bool := scadef_eqb (ce_scadef e) (r_scadef r).
Definition chk_form (e : cov_entry) (r : ref_entry) : bool :=
  shape_eqb (ce_shape e) (r_shape r) &&
  (match r_shape r with ShOpaque => Z.eqb (ce_hash e) (r_hash r) | _ => true end) &&
  Bool.eqb (ce_onRn e && ce_haseval e) (r_onRn r) &&
  Bool.eqb (ce_haseval e) (ce_spaceR e).
Definition chk_param (e : cov_entry) (r : ref_entry) : bool :=
  parmax_le (ce_parmax e) (r_parmax r) && Bool.eqb (ce_hasparam e) (negb (match r_parmax r with PMmax q => qeqb q 0 | _ => false end)).

(* list of the failed checks of one entry: 0 unknown structure, 1 dimension, 2 IRF order, 3 support beyond range,
   4 scadef, 5 form (shape / pinned text / space flags), 6 parameter range *)
Definition failures (e : cov_entry) : list Z :=
  match lookup (ce_name e) ref_table with
  | None => [0%Z]
  | Some r =>
      (if chk_dim e r then [] else [1%Z]) ++ (if chk_order e r then [] else [2%Z]) ++
      (if chk_support e r then [] else [3%Z]) ++ (if chk_scadef e r then [] else [4%Z]) ++
      (if chk_form e r then [] else [5%Z]) ++ (if chk_param e r then [] else [6%Z])
  end.

(* the discrepancies between the tree and the reference that are reported as FINDINGS: none is left (Penta, Cosexp,
   Cardinal Sine: fixes C03_1 / C03_2; J-Bessel: fix C03_8, the parameter is kept above (ndim-2)/2) *)
Definition known_discrepancies : list (string * Z) :=
  [].

Definition allowed (name : string) (code : Z) : bool :=
  existsb (fun p => String.eqb name (fst p) && Z.eqb code (snd p)) known_discrepancies.
Definition entry_ok (e : cov_entry) : bool := forallb (allowed (ce_name e)) (failures e).
Definition table_ok (t : list cov_entry) : bool := forallb entry_ok t.

(* acceptance in dimension d as CovFactory::_isValid computes it from getMaxNDim *)
Definition accepted (e : cov_entry) (d : nat) : bool :=
  match ce_maxdim e with None => true | Some m => Nat.leb d m end.

(* C03 — the exponential structure is positive semi-definite on every regular 1-D grid: with one-step correlation
   rho in [0,1] the matrix rho^|i-j| equals L D L^T with L_il = rho^(i-l) (l <= i), D = diag(1, 1-rho^2, ..., 1-rho^2)
   (explicit Cholesky / innovations form of the first-order autoregressive process), for any number n of nodes. *)
From Coq Require Import List Arith ZArith QArith Qabs Qminmax Bool Lqa Lia.
From Gst Require Import lib.QAux lib.LinAlgQ C03.Table C03.IEval C03.Model C03.Proofs_basic C03.Proofs_psd C03.Proofs_tri.
Local Open Scope Q_scope.

Lemma qpow_add x a b : qpow x (a + b) == qpow x a * qpow x b.
Proof. induction a as [|a IH]; cbn [qpow Nat.add]; [ring|]. rewrite IH. ring. Qed.

(* weighted Gram matrix with non-negative weights *)
Lemma psd_wgram n r (d : fvec) (B : fmat) :
  (forall l, (l < r)%nat -> 0 <= d l) -> psd n (fun i j => sumn r (fun l => d l * (B i l * B j l))).
Proof.
  induction r as [|r IH]; intro Hd.
  - apply (psd_ext n (fun _ _ => 0)); [intros; reflexivity|apply psd_zero].
  - apply (psd_ext n (fun i j => sumn r (fun l => d l * (B i l * B j l)) + d r * sumn 1 (fun _ => B i r * B j r))).
    + intros i j _ _. cbn [sumn]. ring.
    + apply psd_add; [apply IH; intros; apply Hd; lia|].
      apply psd_scale; [apply Hd; lia|]. apply (psd_gram n 1 (fun i _ => B i r)).
Qed.

Definition ar_d (rho : Q) (l : nat) : Q := if Nat.eqb l 0 then 1 else 1 - rho * rho.
Definition ar_L (rho : Q) (i l : nat) : Q := if Nat.leb l i then qpow rho (i - l) else 0.

(* partial sums telescope *)
Lemma ar_partial rho m : forall a b, (m <= a)%nat -> (m <= b)%nat ->
  sumn (S m) (fun l => ar_d rho l * (qpow rho (a - l) * qpow rho (b - l))) == qpow rho ((a - m) + (b - m)).
Proof.
  induction m as [|m IH]; intros a b Ha Hb.
  - cbn [sumn]. unfold ar_d. cbn [Nat.eqb]. rewrite !Nat.sub_0_r. rewrite qpow_add. ring.
  - change (sumn (S (S m)) ?f) with (sumn (S m) f + f (S m)).
    rewrite (IH a b) by lia. unfold ar_d. cbn [Nat.eqb].
    replace (a - m)%nat with (S (a - S m)) by lia. replace (b - m)%nat with (S (b - S m)) by lia.
    rewrite !qpow_add. cbn [qpow]. ring.
Qed.

Lemma sumn_cutoff n m f : (m < n)%nat -> sumn n (fun l => if Nat.leb l m then f l else 0) == sumn (S m) f.
Proof.
  induction n as [|n IH]; intro H; [lia|].
  destruct (Nat.eq_dec m n) as [E|E].
  - subst m. cbn [sumn]. rewrite Nat.leb_refl.
    rewrite (sumn_ext n _ f); [reflexivity|]. intros l Hl. destruct (Nat.leb_spec l n); [reflexivity|lia].
  - change (sumn (S n) ?g) with (sumn n g + g n). cbv beta. rewrite IH by lia.
    destruct (Nat.leb_spec n m); [lia|ring].
Qed.

Lemma ar_gram rho n i j : (i < n)%nat -> (j < n)%nat ->
  sumn n (fun l => ar_d rho l * (ar_L rho i l * ar_L rho j l)) == qpow rho (gdist i j).
Proof.
  intros Hi Hj. set (m := Nat.min i j).
  rewrite (sumn_ext n _ (fun l => if Nat.leb l m then ar_d rho l * (qpow rho (i - l) * qpow rho (j - l)) else 0)).
  - rewrite sumn_cutoff by (unfold m; lia). rewrite ar_partial by (unfold m; lia).
    unfold gdist, m. replace (i - Nat.min i j + (j - Nat.min i j))%nat with (Nat.max i j - Nat.min i j)%nat by lia. reflexivity.
  - intros l _. unfold ar_L, m.
    destruct (Nat.leb_spec l i); destruct (Nat.leb_spec l j); destruct (Nat.leb_spec l (Nat.min i j)); try ring; exfalso; lia.
Qed.

Lemma psd_exponential_grid n rho : 0 <= rho -> rho <= 1 -> psd n (fun i j => qpow rho (gdist i j)).
Proof.
  intros H0 H1.
  apply (psd_ext n (fun i j => sumn n (fun l => ar_d rho l * (ar_L rho i l * ar_L rho j l)))).
  - intros i j Hi Hj. apply ar_gram; assumption.
  - apply psd_wgram. intros l _. unfold ar_d. destruct (Nat.eqb l 0); [lra|nra].
Qed.

(* C03 — the square-root bracket, the anisotropic distance (symmetry, range along the rotated axes), and the
   calculation modes. *)
From Coq Require Import List Arith ZArith QArith Qabs Qminmax Bool Lqa Lia Psatz Setoid Morphisms.
From Gst Require Import lib.QAux lib.LinAlgQ C03.Table C03.IEval C03.Model C03.Proofs_psd.
Import ListNotations.
Local Open Scope Q_scope.

(* ------------------------------------------------------------------ integer square root with certificate *)
Lemma zsqrt_spec n : (0 <= n)%Z -> (0 <= zsqrt n /\ zsqrt n * zsqrt n <= n < (zsqrt n + 1) * (zsqrt n + 1))%Z.
Proof.
  intro Hn. unfold zsqrt. destruct (Z.leb_spec n 0) as [H0|H0].
  - assert (n = 0)%Z by lia. subst. cbn. lia.
  - set (r := newton 400 n (2 ^ (Z.log2 n / 2 + 1))).
    destruct (Z.leb_spec (r * r) n) as [A|A]; cbn [andb].
    + destruct (Z.ltb_spec n ((r + 1) * (r + 1))) as [B|B]; cbn [andb].
      * destruct (Z.leb_spec 0 r) as [C|C]; [lia|].
        pose proof (Z.sqrt_spec n Hn) as S. pose proof (Z.sqrt_nonneg n). cbv zeta in S. unfold Z.succ in S. lia.
      * pose proof (Z.sqrt_spec n Hn) as S. pose proof (Z.sqrt_nonneg n). cbv zeta in S. unfold Z.succ in S. lia.
    + pose proof (Z.sqrt_spec n Hn) as S. pose proof (Z.sqrt_nonneg n). cbv zeta in S. unfold Z.succ in S. lia.
Qed.

(* ------------------------------------------------------------------ the bracket of sqrt q *)
Lemma Qmake_sq (a : Z) (b : positive) : (a # b) * (a # b) == (a * a # b * b).
Proof. reflexivity. Qed.

Lemma sqrt_bracket_spec q : 0 <= q ->
  0 <= fst (sqrt_bracket q) /\ fst (sqrt_bracket q) <= snd (sqrt_bracket q) /\
  fst (sqrt_bracket q) * fst (sqrt_bracket q) <= q /\ q <= snd (sqrt_bracket q) * snd (sqrt_bracket q) /\
  snd (sqrt_bracket q) - fst (sqrt_bracket q) <= 1 # pow2b.
Proof.
  intro Hq. unfold sqrt_bracket.
  assert (P4pos : (0 <= pow4b)%Z) by (vm_compute; discriminate).
  pose proof (Qred_correct q) as Er.
  set (r := Qred q) in *. destruct r as [n d]. cbn [Qnum Qden].
  assert (Hn : (0 <= n)%Z).
  { assert (0 <= n # d) by (rewrite Er; exact Hq). unfold Qle in H. cbn in H. lia. }
  destruct (Z.leb_spec n 0) as [H0|H0].
  - assert (n = 0)%Z by lia. subst n. cbn [fst snd].
    assert (q == 0) by (rewrite <- Er; reflexivity). rewrite H. assert (0 <= 1 # pow2b) by (unfold Qle; cbn [Qnum Qden]; lia). repeat split; lra.
  - pose proof (zsqrt_spec n Hn) as [Sn0 Sn]. pose proof (zsqrt_spec (Zpos d) (Pos2Z.is_nonneg d)) as [Sd0 Sd].
    destruct (Z.eqb_spec (zsqrt n * zsqrt n) n) as [En|En]; cbn [andb].
    + destruct (Z.eqb_spec (zsqrt (Zpos d) * zsqrt (Zpos d)) (Zpos d)) as [Ed|Ed]; cbn [andb].
      * cbn [fst snd].
        assert (Pd : (0 < zsqrt (Zpos d))%Z) by (destruct (Z.eq_dec (zsqrt (Zpos d)) 0) as [Z0|Z0]; [rewrite Z0 in Ed; cbn in Ed; lia|lia]).
        assert (Esq : (zsqrt n # Z.to_pos (zsqrt (Zpos d))) * (zsqrt n # Z.to_pos (zsqrt (Zpos d))) == q).
        { rewrite <- Er. rewrite Qmake_sq. unfold Qeq. cbn [Qnum Qden].
          rewrite Pos2Z.inj_mul. rewrite Z2Pos.id by exact Pd. rewrite En, Ed. reflexivity. }
        assert (P0 : 0 <= zsqrt n # Z.to_pos (zsqrt (Zpos d))) by (unfold Qle; cbn [Qnum Qden]; lia).
        repeat split; try lra.
        setoid_replace ((zsqrt n # Z.to_pos (zsqrt (Z.pos d))) - (zsqrt n # Z.to_pos (zsqrt (Z.pos d)))) with 0 by ring.
        unfold Qle; cbn [Qnum Qden]; lia.
      * cbn [fst snd]. apply (fun H => H).
        set (x := zsqrt (n * pow4b / Zpos d)).
        assert (Hm : (0 <= n * pow4b / Zpos d)%Z) by (apply Z.div_pos; [apply Z.mul_nonneg_nonneg; [lia|exact P4pos]|lia]).
        pose proof (zsqrt_spec _ Hm) as [Sx0 Sx]. fold x in Sx0, Sx.
        assert (P4 : pow4b = (Zpos pow2b * Zpos pow2b)%Z) by (vm_compute; reflexivity).
        pose proof (Z.mul_div_le (n * pow4b) (Zpos d) (Pos2Z.is_pos d)) as D1.
        pose proof (Z.mul_succ_div_gt (n * pow4b) (Zpos d) (Pos2Z.is_pos d)) as D2.
        assert (Lo : (x # pow2b) * (x # pow2b) <= q).
        { rewrite <- Er. rewrite Qmake_sq. unfold Qle. cbn [Qnum Qden]. rewrite Pos2Z.inj_mul. rewrite <- P4.
          apply (Z.le_trans _ ((n * pow4b / Zpos d) * Zpos d)); [apply Z.mul_le_mono_nonneg_r; lia|lia]. }
        assert (Hi : q <= ((x + 1) # pow2b) * ((x + 1) # pow2b)).
        { rewrite <- Er. rewrite Qmake_sq. unfold Qle. cbn [Qnum Qden]. rewrite Pos2Z.inj_mul. rewrite <- P4.
          unfold Z.succ in D2.
          apply (Z.le_trans _ ((n * pow4b / Zpos d + 1) * Zpos d)); [lia|apply Z.mul_le_mono_nonneg_r; lia]. }
        assert (E1 : ((x + 1) # pow2b) - (x # pow2b) == 1 # pow2b).
        { unfold Qeq, Qminus, Qplus, Qopp. cbn [Qnum Qden]. rewrite !Pos2Z.inj_mul. ring. }
        repeat split; try assumption.
        -- unfold Qle; cbn [Qnum Qden]; lia.
        -- unfold Qle; cbn [Qnum Qden]. apply Z.mul_le_mono_nonneg_r; lia.
        -- rewrite E1. lra.
    + cbn [fst snd].
      set (x := zsqrt (n * pow4b / Zpos d)).
      assert (Hm : (0 <= n * pow4b / Zpos d)%Z) by (apply Z.div_pos; [apply Z.mul_nonneg_nonneg; [lia|exact P4pos]|lia]).
      pose proof (zsqrt_spec _ Hm) as [Sx0 Sx]. fold x in Sx0, Sx.
      assert (P4 : pow4b = (Zpos pow2b * Zpos pow2b)%Z) by (vm_compute; reflexivity).
      pose proof (Z.mul_div_le (n * pow4b) (Zpos d) (Pos2Z.is_pos d)) as D1.
      pose proof (Z.mul_succ_div_gt (n * pow4b) (Zpos d) (Pos2Z.is_pos d)) as D2.
      assert (Lo : (x # pow2b) * (x # pow2b) <= q).
      { rewrite <- Er. rewrite Qmake_sq. unfold Qle. cbn [Qnum Qden]. rewrite Pos2Z.inj_mul. rewrite <- P4.
          apply (Z.le_trans _ ((n * pow4b / Zpos d) * Zpos d)); [apply Z.mul_le_mono_nonneg_r; lia|lia]. }
      assert (Hi : q <= ((x + 1) # pow2b) * ((x + 1) # pow2b)).
      { rewrite <- Er. rewrite Qmake_sq. unfold Qle. cbn [Qnum Qden]. rewrite Pos2Z.inj_mul. rewrite <- P4.
          unfold Z.succ in D2.
          apply (Z.le_trans _ ((n * pow4b / Zpos d + 1) * Zpos d)); [lia|apply Z.mul_le_mono_nonneg_r; lia]. }
      assert (E1 : ((x + 1) # pow2b) - (x # pow2b) == 1 # pow2b).
      { unfold Qeq, Qminus, Qplus, Qopp. cbn [Qnum Qden]. rewrite !Pos2Z.inj_mul. ring. }
      repeat split; try assumption.
      * unfold Qle; cbn [Qnum Qden]; lia.
      * unfold Qle; cbn [Qnum Qden]. apply Z.mul_le_mono_nonneg_r; lia.
      * rewrite E1. lra.
Qed.

(* ------------------------------------------------------------------ symmetry of the anisotropic distance *)
Definition negrel (a b : Q) : Prop := a == - b.
Lemma vsub_neg p1 p2 : Forall2 negrel (vsub p2 p1) (vsub p1 p2).
Proof.
  revert p2. induction p1 as [|x r IH]; intros [|y s]; cbn [vsub]; try constructor.
  - unfold negrel. ring.
  - apply IH.
Qed.
Lemma ldot_neg_r c d d' : Forall2 negrel d d' -> ldot c d == - ldot c d'.
Proof.
  intro H. revert c. induction H as [|a b l l' Hab Hl IH]; intros [|x r]; cbn [ldot]; try ring.
  rewrite IH. unfold negrel in Hab. rewrite Hab. ring.
Qed.
Lemma ldot_sq_neg w w' : Forall2 negrel w w' -> ldot w w == ldot w' w'.
Proof.
  induction 1 as [|a b l l' Hab Hl IH]; cbn [ldot]; [reflexivity|].
  rewrite IH. unfold negrel in Hab. rewrite Hab. ring.
Qed.
Lemma Forall2_map_same {A} (R : Q -> Q -> Prop) (f g : A -> Q) l :
  (forall x, R (f x) (g x)) -> Forall2 R (map f l) (map g l).
Proof. intro H. induction l as [|x r IH]; cbn [map]; constructor; [apply H|exact IH]. Qed.

Lemma transformed_neg rot scales d d' :
  Forall2 negrel d d' -> Forall2 negrel (transformed rot scales d) (transformed rot scales d').
Proof.
  intro H. unfold transformed. apply Forall2_map_same. intros [i s]. cbn [fst snd]. unfold negrel.
  rewrite (ldot_neg_r _ d d' H). unfold Qdiv. ring.
Qed.

Lemma h2_sym c p1 p2 : h2_of c p1 p2 = h2_of c p2 p1.
Proof.
  unfold h2_of. apply Qred_complete. unfold norm2.
  apply ldot_sq_neg. apply transformed_neg. apply vsub_neg.
Qed.

(* C(h) = C(-h) for one structure, for a sum of structures, in every calculation mode *)
Lemma cova_eval_sym c ndim m i j p1 p2 : cova_eval c ndim m i j p1 p2 = cova_eval c ndim m i j p2 p1.
Proof. unfold cova_eval. rewrite (h2_sym c p1 p2). reflexivity. Qed.
Lemma model_eval_sym cs ndim m i j p1 p2 : model_eval cs ndim m i j p1 p2 = model_eval cs ndim m i j p2 p1.
Proof.
  unfold model_eval.
  assert (E : map (fun oc => match oc with Some c => cova_eval c ndim m i j p1 p2 | None => None end) (active_covs cs m) =
              map (fun oc => match oc with Some c => cova_eval c ndim m i j p2 p1 | None => None end) (active_covs cs m)).
  { apply map_ext. intros [c|]; [apply cova_eval_sym|reflexivity]. }
  rewrite E. reflexivity.
Qed.

(* the value depends on the two points only through the normalised anisotropic distance *)
Lemma cova_eval_distance c ndim m i j p1 p2 q1 q2 :
  h2_of c p1 p2 = h2_of c q1 q2 -> cova_eval c ndim m i j p1 p2 = cova_eval c ndim m i j q1 q2.
Proof. intro H. unfold cova_eval. rewrite H. reflexivity. Qed.

(* variogram mode = C(0) - C(h) (on exact values) *)
Lemma vario_mode c ndim unit h2 v0 v :
  cor_at c ndim 0 = Some (v0, v0) -> cor_at c ndim h2 = Some (v, v) ->
  cor_from_h2 c ndim {| m_asvario := true; m_unitary := unit; m_order := 0; m_active := None |} h2 = Some (v0 - v, v0 - v).
Proof. intros H0 H. unfold cor_from_h2. cbn. rewrite H0, H. reflexivity. Qed.
(* and in general on enclosures: [c0lo - hi, c0hi - lo] *)
Lemma vario_mode_enc c ndim unit h2 a0 b0 a b :
  cor_at c ndim 0 = Some (a0, b0) -> cor_at c ndim h2 = Some (a, b) ->
  cor_from_h2 c ndim {| m_asvario := true; m_unitary := unit; m_order := 0; m_active := None |} h2 = Some (a0 - b, b0 - a).
Proof. intros H0 H. unfold cor_from_h2. cbn. rewrite H0, H. reflexivity. Qed.
(* the unitary mode drops the sill, the default mode multiplies by it *)
Lemma unitary_mode c ndim m i j h2 : m_unitary m = true -> cova_eval_h2 c ndim m i j h2 = cor_from_h2 c ndim m h2.
Proof. intro H. unfold cova_eval_h2, apply_sill. rewrite H. destruct (cor_from_h2 c ndim m h2); reflexivity. Qed.

(* ------------------------------------------------------------------ the range is measured along the rotated axes *)
Lemma ldot_scal_r c t v : ldot c (map (fun x => t * x) v) == t * ldot c v.
Proof.
  revert v. induction c as [|x r IH]; intros [|y s]; cbn [ldot map]; try ring. rewrite IH. ring.
Qed.
(* sum of the squares of t*delta(i,a)/s_i over i = k .. k+len-1 *)
Lemma axis_sum (t : Q) (a : nat) scales : forall k,
  ldot (map (fun p => t * delta (fst p) a / snd p) (combine (seq k (length scales)) scales))
       (map (fun p => t * delta (fst p) a / snd p) (combine (seq k (length scales)) scales)) ==
  if (Nat.leb k a && Nat.ltb a (k + length scales))%bool then (t / nth (a - k) scales 1) * (t / nth (a - k) scales 1) else 0.
Proof.
  induction scales as [|s r IH]; intro k; cbn [length seq combine map ldot].
  - destruct (Nat.leb_spec k a); cbn [andb]; [|reflexivity].
    destruct (Nat.ltb_spec a (k + 0)); [lia|reflexivity].
  - cbn [fst snd]. rewrite (IH (S k)). unfold delta at 1 2.
    destruct (Nat.eqb_spec k a) as [E|E].
    + subst a. rewrite Nat.sub_diag. cbn [nth].
      destruct (Nat.leb_spec (S k) k); [lia|]. cbn [andb].
      destruct (Nat.leb_spec k k); [|lia]. destruct (Nat.ltb_spec k (k + S (length r))); [|lia]. cbn [andb].
      unfold Qdiv. ring.
    + destruct (Nat.leb_spec (S k) a) as [L|L]; cbn [andb].
      * destruct (Nat.leb_spec k a); [|lia]. cbn [andb].
        replace (k + S (length r))%nat with (S k + length r)%nat by lia.
        destruct (Nat.ltb (S k + length r) a) eqn:E2.
        -- destruct (Nat.ltb a (S k + length r)); unfold Qdiv; [|ring].
           replace (a - k)%nat with (S (a - S k)) by lia. cbn [nth]. ring.
        -- destruct (Nat.ltb a (S k + length r)); unfold Qdiv; [|ring].
           replace (a - k)%nat with (S (a - S k)) by lia. cbn [nth]. ring.
      * destruct (Nat.leb_spec k a) as [L2|L2]; [lia|]. cbn [andb]. unfold Qdiv. ring.
Qed.

Lemma ldot_ext a a' b b' : Forall2 Qeq a a' -> Forall2 Qeq b b' -> ldot a b == ldot a' b'.
Proof.
  intro H. revert b b'. induction H as [|x y l l' Hxy Hl IH]; intros b b' Hb; cbn [ldot]; [reflexivity|].
  destruct Hb as [|u v m m' Huv Hm]; [reflexivity|]. rewrite (IH m m' Hm), Hxy, Huv. reflexivity.
Qed.

(* if the columns of the rotation matrix are orthonormal and the increment is t times column a,
   the squared normalised distance is (t / scale_a)^2 *)
Lemma range_along_axis rot scales (a : nat) (t : Q) :
  (a < length scales)%nat ->
  (forall i, (i < length scales)%nat -> ldot (col rot i) (col rot a) == delta i a) ->
  norm2 (transformed rot scales (map (fun x => t * x) (col rot a))) ==
  (t / nth a scales 1) * (t / nth a scales 1).
Proof.
  intros Ha Ho. unfold norm2, transformed.
  set (l := combine (seq 0 (length scales)) scales).
  assert (E : Forall2 Qeq (map (fun p => ldot (col rot (fst p)) (map (fun x => t * x) (col rot a)) / snd p) l)
                          (map (fun p => t * delta (fst p) a / snd p) l)).
  { assert (Hin : forall p, In p l -> (fst p < length scales)%nat).
    { intros [i s] Hp. unfold l in Hp. apply in_combine_l in Hp. apply in_seq in Hp. cbn [fst]. lia. }
    clear -Hin Ho. induction l as [|p r IH]; cbn [map]; constructor.
    - rewrite ldot_scal_r. rewrite (Ho (fst p)) by (apply Hin; left; reflexivity). reflexivity.
    - apply IH. intros q Hq. apply Hin. right. exact Hq. }
  rewrite (ldot_ext _ _ _ _ E E). unfold l. rewrite (axis_sum t a scales 0).
  destruct (Nat.leb_spec 0 a); [|lia]. destruct (Nat.ltb_spec a (0 + length scales)); [|lia]. cbn [andb].
  rewrite Nat.sub_0_r. reflexivity.
Qed.

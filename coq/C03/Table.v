(* C03 — types of the validity table.  coq/C03/gen/CovTable.v (generated from the C++ headers/sources by
   translators/C03_covtable.py on every run) is a plain list of these records. No proofs here. *)
From Coq Require Import List ZArith QArith String.
Import ListNotations.

(* getParMax: a bound, or TEST (= no bound is enforced by ACovFunc::setParam) *)
Inductive parmax := PMmax (q : Q) | PMunbounded.

(* getScadef: a literal, or one of the recognised expressions of the third parameter *)
Inductive scadef_kind :=
  | SCconst (q : Q)
  | SCsqrt12param          (* sqrt(12 * param)                Matern *)
  | SCpow3inv              (* 3 ^ (1/param)                   Stable *)
  | SCsqrtpow20inv_m1      (* sqrt(20 ^ (1/param) - 1)        Cauchy *)
  | SCpow20inv_m1          (* 20 ^ (1/param) - 1              Gamma  *)
  | SCsqrt12ncoeffs.       (* sqrt(12 * #markov coefficients) Markov *)

(* shape of _evaluateCov: translated into gen_<Class> / not in the arithmetic subset (hashed) / absent *)
Inductive shape := ShPoly | ShOpaque | ShNone.

Record cov_entry := {
  ce_name : string;          (* getCovName *)
  ce_class : string;         (* C++ class created by CovFactory::createCovFunc *)
  ce_code : Z;               (* ECov value *)
  ce_maxdim : option nat;    (* getMaxNDim; None = MAX_INT (no limit) *)
  ce_minorder : Z;           (* getMinOrder: minimum IRF order (-1 = stationary) *)
  ce_hasparam : bool;
  ce_parmax : parmax;
  ce_parmin_dim : bool;      (* getParMin = max(0, (ndim - 2)/2): lower bound of the parameter growing with the dimension *)
  ce_scadef : scadef_kind;
  ce_hasrange : Z;           (* 1 yes / 0 no / -1 "from sill" *)
  ce_spaceR : bool;          (* getCompatibleSpaceR *)
  ce_spaceS : bool;
  ce_onRn : bool;            (* hasCovOnRn *)
  ce_haseval : bool;         (* overrides _evaluateCov *)
  ce_support : option Q;     (* compact support (normalised distance) read off the branch structure *)
  ce_shape : shape;
  ce_hash : Z                (* md5 prefix of the whitespace-free text of _evaluateCov *)
}.

(* GV_PI as the code sees it: the binary64 nearest to pi *)
Definition gv_pi : Q := 884279719003555 # 281474976710656.

(* C03 — lemmas: the generated table against the reference, the translated closed forms against the hand-written
   ones, basic properties of the polynomial structures, the Penta witness. *)
From Coq Require Import List ZArith QArith Qabs Qminmax Bool Lqa Lia Psatz String.
From Gst Require Import lib.QAux C03.Table C03.IEval C03.Model C03.Valid C03.Witness C03.gen.CovTable.
Import ListNotations.
Local Open Scope Q_scope.

(* ------------------------------------------------------------------ table *)
Lemma table_ok_generated : table_ok cov_table = true.
Proof. vm_compute. reflexivity. Qed.

Lemma table_entry_ok e : In e cov_table -> forall code, In code (failures e) -> In (ce_name e, code) known_discrepancies.
Proof.
  intros He code Hc.
  pose proof table_ok_generated as H. unfold table_ok in H. rewrite forallb_forall in H.
  specialize (H e He). unfold entry_ok in H. rewrite forallb_forall in H. specialize (H code Hc).
  unfold allowed in H. apply existsb_exists in H. destruct H as [[n c] [Hin Hb]].
  apply andb_true_iff in Hb. destruct Hb as [Hn Hcd]. cbn [fst snd] in *.
  apply String.eqb_eq in Hn. apply Z.eqb_eq in Hcd. subst. exact Hin.
Qed.

(* a structure outside the discrepancy list is declared within its reference dimension (or enforces the
   dimension-dependent lower bound of its parameter) *)
Lemma table_dim_ok e r :
  In e cov_table -> lookup (ce_name e) ref_table = Some r ->
  ~ In (ce_name e, 1%Z) known_discrepancies -> chk_dim e r = true.
Proof.
  intros He Hl Hn.
  destruct (chk_dim e r) eqn:E; [reflexivity|]. exfalso. apply Hn.
  apply (table_entry_ok e He). unfold failures. rewrite Hl, E. cbn. left. reflexivity.
Qed.

(* every structure of the factory is known to the reference *)
Lemma table_all_known e : In e cov_table -> exists r, lookup (ce_name e) ref_table = Some r.
Proof.
  intro He. destruct (lookup (ce_name e) ref_table) eqn:E; [eexists; reflexivity|]. exfalso.
  assert (Hf : In 0%Z (failures e)) by (unfold failures; rewrite E; left; reflexivity).
  pose proof (table_entry_ok e He 0%Z Hf) as H. cbn in H.
  repeat (destruct H as [H|H]; [inversion H|]). exact H.
Qed.

(* ------------------------------------------------------------------ translated closed forms = hand-written closed forms *)
Lemma Qmax_ext a b c d : a == c -> b == d -> Qmax a b == Qmax c d.
Proof. intros H1 H2. rewrite H1, H2. reflexivity. Qed.

Lemma gen_nugget_ok n f h : gen_CovNugget n f h == cor_nugget h.
Proof. unfold gen_CovNugget, cor_nugget. reflexivity. Qed.
Lemma gen_spherical_ok n f h : gen_CovSpherical n f h == cor_spherical h.
Proof. unfold gen_CovSpherical, cor_spherical. destruct (qltb h 1); [ring|reflexivity]. Qed.
Lemma gen_cubic_ok n f h : gen_CovCubic n f h == cor_cubic h.
Proof. unfold gen_CovCubic, cor_cubic. cbv zeta. apply Qmax_ext; [reflexivity|]. destruct (qltb h 1); [ring|reflexivity]. Qed.
Lemma gen_triangle_ok n f h : gen_CovTriangle n f h == cor_triangle h.
Proof. unfold gen_CovTriangle, cor_triangle. apply Qmax_ext; [reflexivity|ring]. Qed.
Lemma gen_reg1d_ok n f h : gen_CovReg1D n f h == cor_reg1d h.
Proof. unfold gen_CovReg1D, cor_reg1d. destruct (qltb h 1); [field|]. destruct (qltb h 2); [field|reflexivity]. Qed.
Lemma gen_penta_ok n f h : gen_CovPenta n f h == cor_penta h.
Proof. unfold gen_CovPenta, cor_penta. cbv zeta. destruct (qltb h 1); [ring|reflexivity]. Qed.
Lemma gen_wendland0_ok n f h : gen_CovWendland0 n f h == cor_wendland0 h.
Proof. unfold gen_CovWendland0, cor_wendland0. destruct (qltb h 1); [ring|reflexivity]. Qed.
Lemma gen_wendland1_ok n f h : gen_CovWendland1 n f h == cor_wendland1 h.
Proof. unfold gen_CovWendland1, cor_wendland1. destruct (qltb h 1); [ring|reflexivity]. Qed.
Lemma gen_wendland2_ok n f h : gen_CovWendland2 n f h == cor_wendland2 h.
Proof. unfold gen_CovWendland2, cor_wendland2. cbv zeta. destruct (qltb h 1); [field|reflexivity]. Qed.
Lemma gen_linear_ok n f h : gen_CovLinear n f h == cor_linear n f h.
Proof. unfold gen_CovLinear, cor_linear. destruct (Z.eqb n 1); [ring|]. destruct (Z.eqb n 2); [field|ring]. Qed.
Lemma gen_gc1_ok n f h : gen_CovGC1 n f h == cor_linear n f h.
Proof. unfold gen_CovGC1, cor_linear. destruct (Z.eqb n 1); [ring|]. destruct (Z.eqb n 2); [field|ring]. Qed.
Lemma gen_gc3_ok n f h : gen_CovGC3 n f h == cor_gc3 n f h.
Proof. unfold gen_CovGC3, cor_gc3. cbv zeta. destruct (Z.eqb n 1); [ring|]. destruct (Z.eqb n 2); [field|ring]. Qed.
Lemma gen_gc5_ok n f h : gen_CovGC5 n f h == cor_gc5 n f h.
Proof. unfold gen_CovGC5, cor_gc5. cbv zeta. destruct (Z.eqb n 1); [ring|]. destruct (Z.eqb n 2); [field|ring]. Qed.

(* the structures translated are exactly the ones the reference expects in polynomial form *)
Lemma gen_classes_expected :
  gen_classes = ["CovNugget"; "CovSpherical"; "CovCubic"; "CovLinear"; "CovGC1"; "CovGC3"; "CovGC5"; "CovTriangle";
                 "CovReg1D"; "CovPenta"; "CovWendland0"; "CovWendland1"; "CovWendland2"]%string.
Proof. reflexivity. Qed.

(* every structure of the factory passes every check of the reference table *)
Lemma table_ok_strict e : In e cov_table -> failures e = [].
Proof.
  intro He. destruct (failures e) as [|c r] eqn:E; [reflexivity|]. exfalso.
  assert (Hc : In c (failures e)) by (rewrite E; left; reflexivity).
  exact (table_entry_ok e He c Hc).
Qed.
(* the J-Bessel family keeps its parameter above (ndim - 2)/2 (column regenerated from CovBesselJ::getParMin) *)
Lemma besselj_param_bound e : In e cov_table -> ce_name e = "J-Bessel"%string -> ce_parmin_dim e = true.
Proof.
  intros He Hn. unfold cov_table in He. cbn [In] in He.
  repeat (destruct He as [<-|He]; [first [reflexivity|cbn in Hn; discriminate Hn]|]). contradiction.
Qed.
(* the factory refuses a structure outside its dimension of validity and only offers structures usable in the space *)
Lemma factory_guard_generated : factory_guards_dimension = true /\ factory_checks_space = true.
Proof. split; reflexivity. Qed.

(* ------------------------------------------------------------------ regression witness (pre-fix Penta = Reg1D form with scale = range) *)
Lemma penta_witness :
  penta_matrix_enc = map (map (fun v => Some (v, v))) penta_K /\
  penta_all_exact = true /\
  lquad penta_K penta_x < 0.
Proof. vm_compute. repeat split; reflexivity. Qed.

(* ------------------------------------------------------------------ the optimised matrix = its definition *)
Lemma cell_value_pair_cors cs ndim m iv jv p1 p2 :
  cell_value m iv jv (pair_cors cs ndim m p1 p2) = model_eval cs ndim m iv jv p1 p2.
Proof.
  unfold cell_value, pair_cors, model_eval. rewrite map_map.
  assert (E : map (fun x => match match x with Some c => Some (c, cor_from_h2 c ndim m (h2_of c p1 p2)) | None => None end with
                            | Some (c, v) => apply_sill c m iv jv v | None => None end) (active_covs cs m) =
              map (fun oc => match oc with Some c => cova_eval c ndim m iv jv p1 p2 | None => None end) (active_covs cs m)).
  { apply map_ext. intros [c|]; reflexivity. }
  rewrite E. reflexivity.
Qed.
Lemma cov_matrix_eq cs ndim m nvar pts : cov_matrix cs ndim m nvar pts = cov_matrix_spec cs ndim m nvar pts.
Proof.
  unfold cov_matrix, cov_matrix_spec. cbv zeta.
  apply flat_map_ext. intro iv.
  rewrite map_map. apply map_ext. intro p1.
  apply flat_map_ext. intro jv.
  rewrite map_map. apply map_ext. intro p2. apply cell_value_pair_cors.
Qed.

(* C03 — REGRESSION witness: the closed form that CovPenta.cpp carried before fix C03_1 (verbatim the 1-D
   regularised form of CovReg1D.cpp, used with scadef 1, i.e. scale = range) is not positive semi-definite in R^2.
   Modelled here as the Reg1D structure (code 20) with scales = range. (executable data only, no proofs).
   Seven points with INTEGER mutual distances (a centre and six points of the circle of radius 25 taken from the
   7-24-25 triangle), range 32: every normalised distance is the rational d/32, so the covariance matrix of the
   closed form is exact in Q. *)
From Coq Require Import List ZArith QArith Bool.
From Gst Require Import lib.QAux lib.LinAlgQ C03.Table C03.IEval C03.Model.
Import ListNotations.
Local Open Scope Q_scope.

Definition ident2 : list (list Q) := [[1; 0]; [0; 1]].
Definition penta_cova (range : Q) : cova :=
  {| cv_type := 20; cv_param := 0; cv_scales := [range; range]; cv_rot := ident2; cv_sill := [[1]];
     cv_field := range; cv_cov0 := 0 |}.
Definition penta_pts : list (list Q) :=
  [[25; 0]; [7; 24]; [-(7); 24]; [-(25); 0]; [-(7); -(24)]; [7; -(24)]; [0; 0]].
Definition penta_x : list Q := [5; 4; 4; 5; 4; 4; 8].
Definition penta_range : Q := 32.

Definition point_val (o : option qi) : Q := match o with Some (a, _) => a | None => 0 end.
Definition penta_matrix_enc := cov_matrix [penta_cova penta_range] 2 mode_default 1 penta_pts.
Definition penta_K : list (list Q) := map (map point_val) penta_matrix_enc.
(* every normalised distance of the configuration is an exact square root *)
Definition penta_all_exact : bool :=
  forallb (fun p => forallb (fun q => qsqrt_exact (h2_of (penta_cova penta_range) p q)) penta_pts) penta_pts.

(* data of the non-vacuity examples of Properties.v *)
Definition ex_B (i l : nat) : Q := inject_Z (Z.of_nat (i + 2 * l)).
Definition ex_gram (a b : nat) : Q := LinAlgQ.sumn 2 (fun l => ex_B a l * ex_B b l).

(* two structures for two variables: sills A_s A_s^T with A_0 = [[1,0],[1,1]], A_1 = [[2,0],[1,0]] *)
Definition ex_A (s v l : nat) : Q :=
  match s, v, l with
  | O, O, O => 1 | O, S O, O => 1 | O, S O, S O => 1
  | S O, O, O => 2 | S O, S O, O => 1
  | _, _, _ => 0
  end.
Definition ex_k (s i j : nat) : Q := match s with O => LinAlgQ.delta i j | _ => qpow (1#2) (Nat.max i j - Nat.min i j) end.

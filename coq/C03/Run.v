(* C03 runner: decodes a case, runs the model, encodes the result. Executable only.
   case kinds
     (0 type ndim param field cov0 (h ...))                          closed form at exact normalised distances
     (1 ndim nvar (struct ...) mode (query ...) (point ...))        anisotropic structures, sums, matrices
          struct = (type param setter (val ...) ((rot row) ...) ((sill row) ...) scadef_oracle cov0_oracle field_override)
                   setter 0: vals are scales; 1: vals are ranges; field_override = () or the field to use
          mode   = () | (asvario unitary order active) with active = () | ((k ...))
          query  = ((p1) (p2) ivar jvar)
     (9)                                                             validity table against the reference
   results: an enclosure is ((lo_num lo_den) (hi_num hi_den)); () when the structure/parameter is outside the model *)
From Coq Require Import List ZArith QArith Bool String.
From Gst Require Import lib.Sx lib.QAux C03.Table C03.IEval C03.Model C03.Valid C03.gen.CovTable.
Import ListNotations.

Definition ofQI (o : option qi) : sx :=
  match o with Some (a, b) => L [ofQ a; ofQ b] | None => L [] end.

Definition asQL := asListOf asQ.
Definition asQM := asListOf asQL.

Record rstruct := { rs_cova : cova; rs_scales : list Q; rs_field : Q }.

Definition asStruct (s : sx) : option cova :=
  match s with
  | L [I type; p; I setter; vals; rot; sill; sc; c0; fo] =>
      match asQ p, asQL vals, asQM rot, asQM sill, asQ sc, asQ c0, asOQ fo with
      | Some param, Some vs, Some rm, Some sm, Some sco, Some cov0, Some fov =>
          let scadef := scadef_of type sco in
          let scales := if Z.eqb setter 1 then scales_of_ranges scadef vs else vs in
          let scales := map Qred scales in
          let field := match fov with Some f => f | None => Qred (field_of_scales scadef scales) end in
          Some {| cv_type := type; cv_param := param; cv_scales := scales; cv_rot := rm; cv_sill := sm;
                  cv_field := field; cv_cov0 := cov0 |}
      | _, _, _, _, _, _, _ => None
      end
  | _ => None
  end.

Definition asMode (s : sx) : option cmode :=
  match s with
  | L [] => Some mode_default
  | L [a; u; I o; act] =>
      match asB a, asB u with
      | Some av, Some un =>
          match act with
          | L [] => Some {| m_asvario := av; m_unitary := un; m_order := o; m_active := None |}
          | L [l] => match asListOf asNat l with
                     | Some ks => Some {| m_asvario := av; m_unitary := un; m_order := o; m_active := Some ks |}
                     | None => None
                     end
          | _ => None
          end
      | _, _ => None
      end
  | _ => None
  end.

Record query := { q_p1 : list Q; q_p2 : list Q; q_i : nat; q_j : nat }.
Definition asQuery (s : sx) : option query :=
  match s with
  | L [a; b; i; j] =>
      match asQL a, asQL b, asNat i, asNat j with
      | Some p1, Some p2, Some iv, Some jv => Some {| q_p1 := p1; q_p2 := p2; q_i := iv; q_j := jv |}
      | _, _, _, _ => None
      end
  | _ => None
  end.

Definition ofMaxdim (o : option nat) : sx := match o with None => I 0 | Some n => ofNat n end.

Definition run (c : sx) : sx :=
  match c with
  | L [I 0%Z; I type; I ndim; p; f; c0; hs] =>
      match asQ p, asQ f, asQ c0, asQL hs with
      | Some param, Some field, Some cov0, Some hl =>
          L (map (fun h => ofQI (cor_enc type param ndim field cov0 h h)) hl)
      | _, _, _, _ => sx_error 1
      end
  | L [I 1%Z; I ndim; nv; ss; m; qs; ps] =>
      match asNat nv, asListOf asStruct ss, asMode m, asListOf asQuery qs, asQM ps with
      | Some nvar, Some cs, Some mode, Some ql, Some pts =>
          L [ (* derived scales and field of every structure *)
              L (map (fun c => L [ofList ofQ (cv_scales c); ofQ (cv_field c)]) cs);
              (* per query: Model::eval, CovAniso::eval of the first structure, squared normalised distance of the first structure *)
              L (map (fun q => L [ofQI (model_eval cs ndim mode (q_i q) (q_j q) (q_p1 q) (q_p2 q));
                                  match cs with
                                  | c0 :: _ => ofQI (option_map qi_red (cova_eval c0 ndim mode (q_i q) (q_j q) (q_p1 q) (q_p2 q)))
                                  | [] => L []
                                  end;
                                  match cs with c0 :: _ => ofQ (h2_of c0 (q_p1 q) (q_p2 q)) | [] => L [] end]) ql);
              (* eval0 for every pair of variables *)
              L (flat_map (fun i => map (fun j => ofQI (model_eval0 cs ndim mode i j)) (seq 0 nvar)) (seq 0 nvar));
              (* covariance matrix of the points *)
              L (map (fun row => L (map ofQI row)) (cov_matrix cs ndim mode nvar pts)) ]
      | _, _, _, _, _ => sx_error 1
      end
  | L [I 3%Z; I type; p; sc; dg; als] =>
      (* covariance on the sphere: (3 type param scale degree (alpha ...)) *)
      match asQ p, asQ sc, asNat dg, asQL als with
      | Some param, Some scale, Some degree, Some al =>
          let sp := sphere_spectrum type param scale degree in
          L (map (fun a => ofQI (match sphere_covI type scale degree sp a with Some x => i2qq x | None => None end)) al)
      | _, _, _, _ => sx_error 1
      end
  | L [I 4%Z; I type; p; sc; nn; cfs] =>
      (* normalised Legendre spectrum: (4 type param scale n (markov coefficients)) ; exact (num den), or an enclosure for Exponential *)
      match asQ p, asQ sc, asNat nn, asQL cfs with
      | Some param, Some scale, Some n, Some coeffs =>
          if Z.eqb type 1 then L (map (fun x => ofQI (i2qq x)) (i_spectrum_exponential scale n))
          else if Z.eqb type 27 then L (map ofQ (normalize1 (spec_markov coeffs scale n)))
          else match sphere_spectrum type param scale n with
               | Some l => L (map ofQ l)
               | None => L []
               end
      | _, _, _, _ => sx_error 1
      end
  | L [I 9%Z] =>
      L [ ofB (table_ok cov_table);
          L (map (fun e => L [I (ce_code e); ofMaxdim (ce_maxdim e);
                              match lookup (ce_name e) ref_table with
                              | Some r => L [ofB (r_known r); ofMaxdim (r_maxdim r)]
                              | None => L []
                              end;
                              L (map I (failures e))]) cov_table) ]
  | _ => sx_error 0
  end.

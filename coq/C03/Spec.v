(* C03 spec: the closed forms of the exp / cos / sin based structures over the real numbers (what the
   enclosures computed by IEval.v enclose).  GV_PI is the binary64 constant of the code. *)
From Coq Require Import ZArith QArith Reals Qreals.
From Gst Require Import lib.QAux C03.Table.
Local Open Scope R_scope.

Definition Rpi2 : R := 2 * Q2R gv_pi.

Definition corR_exponential (h : R) : R := exp (- h).
Definition corR_gaussian (h : R) : R := exp (- (h * h)).
Definition corR_sinc (h : R) : R := sin h / h.
Definition corR_matern32 (h : R) : R := (1 + h) * exp (- h).
Definition corR_matern52 (h : R) : R := (1 + h + h * h / 3) * exp (- h).
Definition corR_stable_half (k : positive) (h : R) : R := exp (- (sqrt h ^ Pos.to_nat k)).
Definition corR_cosinus (h : R) : R := cos (Rpi2 * h).
Definition corR_cosexp (p : R) (h : R) : R := exp (- h) * cos (Rpi2 * (h / p)).
Definition corR_storkey_in (h : R) : R :=
  (2 * (1 - h) * (1 + cos (Rpi2 * h) / 2) + 3 / Rpi2 * sin (Rpi2 * h)) / 3.
Definition corR_storkey (h : R) : R := if Rlt_dec h 1 then corR_storkey_in h else 0.

(* the real function of a structure of the executable model (same case analysis on the rational parameter) *)
Definition cor_R (type : Z) (param : Q) (h : R) : option R :=
  match type with
  | 1%Z => Some (corR_exponential h)
  | 3%Z => Some (corR_gaussian h)
  | 5%Z => Some (if Rlt_dec (Q2R (1 # 100000)) h then corR_sinc h else 1)
  | 7%Z => if qeqb param (1#2) then Some (corR_exponential h)
           else if qeqb param (3#2) then Some (corR_matern32 h)
           else if qeqb param (5#2) then Some (corR_matern52 h) else None
  | 10%Z => if qeqb param 1 then Some (corR_exponential h)
            else if qeqb param 2 then Some (corR_gaussian h)
            else if qeqb param (1#2) then Some (corR_stable_half 1 h)
            else if qeqb param (3#2) then Some (corR_stable_half 3 h) else None
  | 17%Z => Some (corR_cosinus h)
  | 19%Z => if qltb 0 param then Some (corR_cosexp (Q2R param) h) else None
  | 23%Z => Some (corR_storkey h)
  | _ => None
  end.

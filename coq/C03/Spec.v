(* C03 spec: the closed forms of the exp / cos / sin based structures over the real numbers (what the
   enclosures computed by IEval.v enclose).  GV_PI is the binary64 constant of the code. *)
From Coq Require Import ZArith QArith Reals Qreals.
From Gst Require Import lib.QAux C03.Table.
Local Open Scope R_scope.

Definition Rpi2 : R := 2 * Q2R gv_pi.

Definition corR_exponential (h : R) : R := exp (- h).
Definition corR_gaussian (h : R) : R := exp (- (h * h)).
Definition corR_sinc (h : R) : R := sin h / h.
Definition corR_matern32 (h : R) : R := (1 + h) * exp (- h).
Definition corR_matern52 (h : R) : R := (1 + h + h * h / 3) * exp (- h).
Definition corR_stable_half (k : positive) (h : R) : R := exp (- (sqrt h ^ Pos.to_nat k)).
Definition corR_cosinus (h : R) : R := cos (Rpi2 * h).
Definition corR_cosexp (p : R) (h : R) : R := exp (- h) * cos (Rpi2 * (h / p)).
Definition corR_storkey_in (h : R) : R :=
  (2 * (1 - h) * (1 + cos (Rpi2 * h) / 2) + 3 / Rpi2 * sin (Rpi2 * h)) / 3.
Definition corR_storkey (h : R) : R := if Rlt_dec h 1 then corR_storkey_in h else 0.

(* generalised covariances with a logarithm (logv = log term, 0 under the guards of the code) *)
Definition corR_spline (ndim : Z) (r h logv : R) : R :=
  if Z.eqb ndim 1 then 1/2 * (r * r) - (h * h) * (3/2 - ln 2 - logv)
  else if Z.eqb ndim 2 then r * r - (h * h) * (1 - logv)
  else 3/2 * (r * r) - (h * h) * (11/6 - ln 2 - logv).
Definition corR_spline2 (h logv : R) : R := - (-(1/4) + (h * h) * (1 + (h * h) * (-(3/4) + logv))).
(* on the sphere *)
Definition corR_geometric_sph (rho alpha : R) : R := (1 - rho) / sqrt (1 - 2 * rho * cos alpha + rho * rho).
Definition corR_exponential_sph (nu alpha : R) : R := exp (- (nu * alpha)).

(* the real function of a structure of the executable model (same case analysis on the rational parameter) *)
Definition cor_R (type : Z) (param : Q) (ndim : Z) (field : Q) (h : R) : option R :=
  match type with
  | 14%Z => Some (corR_spline ndim (Q2R field) h
                    (if qltb field (1 # 10000) then 0 else if Rle_dec (Q2R (1 # 10000000000)) h then ln (h / Q2R field) else 0))
  | 22%Z => Some (corR_spline2 h (if Rle_dec (Q2R (1 # 10000)) h then ln h else 0))
  | 1%Z => Some (corR_exponential h)
  | 3%Z => Some (corR_gaussian h)
  | 5%Z => Some (if Rlt_dec (Q2R (1 # 100000)) h then corR_sinc h else 1)
  | 7%Z => if qeqb param (1#2) then Some (corR_exponential h)
           else if qeqb param (3#2) then Some (corR_matern32 h)
           else if qeqb param (5#2) then Some (corR_matern52 h) else None
  | 10%Z => if qeqb param 1 then Some (corR_exponential h)
            else if qeqb param 2 then Some (corR_gaussian h)
            else if qeqb param (1#2) then Some (corR_stable_half 1 h)
            else if qeqb param (3#2) then Some (corR_stable_half 3 h) else None
  | 17%Z => Some (corR_cosinus h)
  | 19%Z => if qltb 0 param then Some (corR_cosexp (Q2R param) h) else None
  | 23%Z => Some (corR_storkey h)
  | _ => None
  end.

(* C03 — positive semi-definiteness as a property of finite quadratic forms over Q (any size n):
   closure under sums, non-negative scaling, congruence (any linear recombination of the points, in particular
   relabelling, sub-sampling and repetition of points), Gram matrices, entrywise (Schur) product with a Gram
   matrix, the sill (x) kernel product for a sill A.A^T, the nugget effect. *)
From Coq Require Import List Arith ZArith QArith Qabs Bool Lqa Lia Setoid Morphisms.
From Gst Require Import lib.QAux lib.LinAlgQ C03.Table C03.IEval C03.Model C03.Witness.
Import ListNotations.
Local Open Scope Q_scope.

Definition quad (n : nat) (K : fmat) (x : fvec) : Q := sumn n (fun i => sumn n (fun j => x i * K i j * x j)).
Definition psd (n : nat) (K : fmat) : Prop := forall x, 0 <= quad n K x.

Lemma quad_ext n K K' x x' :
  (forall i j, (i < n)%nat -> (j < n)%nat -> K i j == K' i j) -> (forall i, (i < n)%nat -> x i == x' i) ->
  quad n K x == quad n K' x'.
Proof.
  intros HK Hx. unfold quad. apply sumn_ext. intros i Hi. apply sumn_ext. intros j Hj.
  rewrite HK, (Hx i), (Hx j) by assumption. reflexivity.
Qed.
Lemma psd_ext n K K' : (forall i j, (i < n)%nat -> (j < n)%nat -> K i j == K' i j) -> psd n K -> psd n K'.
Proof. intros E H x. rewrite <- (quad_ext n K K' x x E) by (intros; reflexivity). apply H. Qed.

Lemma quad_add n K L x : quad n (fun i j => K i j + L i j) x == quad n K x + quad n L x.
Proof.
  unfold quad. rewrite <- sumn_add. apply sumn_ext. intros i _. rewrite <- sumn_add. apply sumn_ext. intros; ring.
Qed.
Lemma quad_scale n c K x : quad n (fun i j => c * K i j) x == c * quad n K x.
Proof.
  unfold quad. rewrite <- sumn_scal_l. apply sumn_ext. intros i _. rewrite <- sumn_scal_l. apply sumn_ext. intros; ring.
Qed.

Lemma psd_add n K L : psd n K -> psd n L -> psd n (fun i j => K i j + L i j).
Proof. intros HK HL x. rewrite quad_add. specialize (HK x). specialize (HL x). lra. Qed.
Lemma psd_scale n c K : 0 <= c -> psd n K -> psd n (fun i j => c * K i j).
Proof. intros Hc HK x. rewrite quad_scale. specialize (HK x). nra. Qed.
Lemma psd_zero n : psd n (fun _ _ => 0).
Proof. intro x. unfold quad. rewrite sumn_zero; [lra|]. intros i _. apply sumn_zero. intros; ring. Qed.

(* sum of squares *)
Lemma sumn_sq_nonneg n f : 0 <= sumn n (fun i => f i * f i).
Proof. apply sumn_nonneg. intros. nra. Qed.

(* a product of two sums is the double sum of the products *)
Lemma sumn_mul n m f g : sumn n f * sumn m g == sumn n (fun i => sumn m (fun j => f i * g j)).
Proof.
  rewrite <- sumn_scal_r. apply sumn_ext. intros i _. rewrite <- sumn_scal_l. reflexivity.
Qed.

(* Gram matrix: K_ij = sum_l B_il B_jl *)
Lemma quad_gram n r (B : fmat) x :
  quad n (fun i j => sumn r (fun l => B i l * B j l)) x == sumn r (fun l => (sumn n (fun i => x i * B i l)) * (sumn n (fun i => x i * B i l))).
Proof.
  unfold quad.
  transitivity (sumn r (fun l => sumn n (fun i => sumn n (fun j => (x i * B i l) * (x j * B j l))))).
  - transitivity (sumn n (fun i => sumn r (fun l => sumn n (fun j => (x i * B i l) * (x j * B j l))))).
    + apply sumn_ext. intros i _.
      transitivity (sumn n (fun j => sumn r (fun l => (x i * B i l) * (x j * B j l)))).
      * apply sumn_ext. intros j _.
        transitivity ((x i * x j) * sumn r (fun l => B i l * B j l)); [ring|].
        rewrite <- sumn_scal_l. apply sumn_ext. intros; ring.
      * apply sumn_swap.
    + apply sumn_swap.
  - apply sumn_ext. intros l _. symmetry.
    apply (sumn_mul n n (fun i => x i * B i l) (fun i => x i * B i l)).
Qed.
Lemma psd_gram n r B : psd n (fun i j => sumn r (fun l => B i l * B j l)).
Proof. intro x. rewrite quad_gram. apply sumn_sq_nonneg. Qed.

(* congruence: K'_ij = sum_a sum_b B_ai K_ab B_bj  (B : m x n).  x^T K' x = (Bx)^T K (Bx) *)
Definition congr (m : nat) (B K : fmat) : fmat := fun i j => sumn m (fun a => sumn m (fun b => B a i * K a b * B b j)).
Lemma sumn_scal2 m c d (f : nat -> nat -> Q) :
  c * sumn m (fun a => sumn m (fun b => f a b)) * d == sumn m (fun a => sumn m (fun b => c * f a b * d)).
Proof.
  transitivity (sumn m (fun a => c * sumn m (fun b => f a b) * d)).
  - rewrite <- sumn_scal_l. rewrite <- sumn_scal_r. reflexivity.
  - apply sumn_ext. intros a _. rewrite <- sumn_scal_l. rewrite <- sumn_scal_r. reflexivity.
Qed.
Lemma sumn_mul3 n (u v : fvec) k :
  sumn n u * k * sumn n v == sumn n (fun i => sumn n (fun j => u i * k * v j)).
Proof.
  transitivity (sumn n (fun i => (u i * k) * sumn n v)).
  - rewrite sumn_scal_r. rewrite <- sumn_scal_r. reflexivity.
  - apply sumn_ext. intros i _. rewrite <- sumn_scal_l. reflexivity.
Qed.
(* sum_i sum_j sum_a sum_b = sum_a sum_b sum_i sum_j *)
Lemma sumn4_reorder n m (T : nat -> nat -> nat -> nat -> Q) :
  sumn n (fun i => sumn n (fun j => sumn m (fun a => sumn m (fun b => T a b i j)))) ==
  sumn m (fun a => sumn m (fun b => sumn n (fun i => sumn n (fun j => T a b i j)))).
Proof.
  transitivity (sumn n (fun i => sumn m (fun a => sumn n (fun j => sumn m (fun b => T a b i j))))).
  { apply sumn_ext. intros i _. apply (sumn_swap n m (fun j a => sumn m (fun b => T a b i j))). }
  transitivity (sumn m (fun a => sumn n (fun i => sumn n (fun j => sumn m (fun b => T a b i j))))).
  { apply (sumn_swap n m (fun i a => sumn n (fun j => sumn m (fun b => T a b i j)))). }
  apply sumn_ext. intros a _.
  transitivity (sumn n (fun i => sumn m (fun b => sumn n (fun j => T a b i j)))).
  { apply sumn_ext. intros i _. apply (sumn_swap n m (fun j b => T a b i j)). }
  apply (sumn_swap n m (fun i b => sumn n (fun j => T a b i j))).
Qed.
Lemma quad_congr n m B K x : quad n (congr m B K) x == quad m K (fun a => sumn n (fun i => B a i * x i)).
Proof.
  unfold quad, congr.
  transitivity (sumn n (fun i => sumn n (fun j => sumn m (fun a => sumn m (fun b => (B a i * x i) * K a b * (B b j * x j)))))).
  { apply sumn_ext. intros i _. apply sumn_ext. intros j _.
    rewrite (sumn_scal2 m (x i) (x j) (fun a b => B a i * K a b * B b j)).
    apply sumn_ext. intros a _. apply sumn_ext. intros; ring. }
  rewrite (sumn4_reorder n m (fun a b i j => (B a i * x i) * K a b * (B b j * x j))).
  apply sumn_ext. intros a _. apply sumn_ext. intros b _. symmetry.
  apply (sumn_mul3 n (fun i => B a i * x i) (fun j => B b j * x j) (K a b)).
Qed.
Lemma psd_congr n m B K : psd m K -> psd n (congr m B K).
Proof. intros H x. rewrite quad_congr. apply H. Qed.

(* relabelling / sub-sampling / repetition of points: K'_ij = K_{s(i) s(j)} *)
Lemma psd_relabel n m (s : nat -> nat) K :
  (forall i, (i < n)%nat -> (s i < m)%nat) -> psd m K -> psd n (fun i j => K (s i) (s j)).
Proof.
  intros Hs H. apply (psd_ext n (congr m (fun a i => delta a (s i)) K)); [|apply psd_congr; exact H].
  intros i j Hi Hj. unfold congr.
  transitivity (sumn m (fun a => delta (s i) a * K a (s j))).
  - apply sumn_ext. intros a Ha.
    rewrite (sumn_delta_r m (s j) (fun b => delta a (s i) * K a b) (Hs j Hj)).
    rewrite (delta_sym a (s i)). reflexivity.
  - apply (sumn_delta_l m (s i) (fun a => K a (s j)) (Hs i Hi)).
Qed.

(* diagonal with non-negative entries *)
Lemma psd_diag n (d : fvec) : (forall i, (i < n)%nat -> 0 <= d i) -> psd n (fun i j => d i * delta i j).
Proof.
  intros Hd x. unfold quad.
  apply sumn_nonneg. intros i Hi.
  rewrite (sumn_ext n _ (fun j => delta i j * (x i * d i * x j))) by (intros; ring).
  rewrite (sumn_delta_l n i (fun j => x i * d i * x j) Hi). specialize (Hd i Hi). nra.
Qed.

(* entrywise product with a rank-one matrix u u^T, then with any Gram matrix (Schur product theorem for L = B B^T) *)
Lemma psd_schur_rank1 n (u : fvec) K : psd n K -> psd n (fun i j => u i * K i j * u j).
Proof.
  intros H x. specialize (H (fun i => u i * x i)). unfold quad in *.
  rewrite (sumn_ext n _ (fun i => sumn n (fun j => u i * x i * K i j * (u j * x j)))); [exact H|].
  intros i _. apply sumn_ext. intros; ring.
Qed.
Lemma psd_schur_gram n r (B : fmat) K : psd n K -> psd n (fun i j => K i j * sumn r (fun l => B i l * B j l)).
Proof.
  intro H. induction r as [|r IH].
  - apply (psd_ext n (fun _ _ => 0)); [intros; cbn [sumn]; ring|apply psd_zero].
  - apply (psd_ext n (fun i j => K i j * sumn r (fun l => B i l * B j l) + B i r * K i j * B j r)).
    + intros i j _ _. cbn [sumn]. ring.
    + apply psd_add; [exact IH|]. apply (psd_schur_rank1 n (fun i => B i r) K H).
Qed.

(* sill (x) kernel: variables v, w < nv, points i, j < n; S = A A^T (A : nv x r) and a PSD kernel k:
   the block matrix S_vw k_ij is PSD (quadratic form over doubly indexed vectors) *)
Definition quad2 (nv n : nat) (S K : fmat) (x : nat -> nat -> Q) : Q :=
  sumn nv (fun v => sumn n (fun i => sumn nv (fun w => sumn n (fun j => x v i * (S v w * K i j) * x w j)))).
Lemma quad2_rank1 nv n (a : fvec) K x :
  quad2 nv n (fun v w => a v * a w) K x == quad n K (fun i => sumn nv (fun v => a v * x v i)).
Proof.
  unfold quad2, quad.
  (* left: sum_v sum_i sum_w sum_j ; right: sum_i sum_j (sum_v ..) K_ij (sum_w ..) *)
  transitivity (sumn n (fun i => sumn n (fun j => sumn nv (fun v => sumn nv (fun w => (a v * x v i) * K i j * (a w * x w j)))))).
  - transitivity (sumn nv (fun v => sumn nv (fun w => sumn n (fun i => sumn n (fun j => (a v * x v i) * K i j * (a w * x w j)))))).
    + apply sumn_ext. intros v _.
      transitivity (sumn n (fun i => sumn nv (fun w => sumn n (fun j => (a v * x v i) * K i j * (a w * x w j))))).
      * apply sumn_ext. intros i _. apply sumn_ext. intros w _. apply sumn_ext. intros; ring.
      * apply (sumn_swap n nv (fun i w => sumn n (fun j => (a v * x v i) * K i j * (a w * x w j)))).
    + symmetry. apply (sumn4_reorder n nv (fun v w i j => (a v * x v i) * K i j * (a w * x w j))).
  - apply sumn_ext. intros i _. apply sumn_ext. intros j _. symmetry.
    apply (sumn_mul3 nv (fun v => a v * x v i) (fun w => a w * x w j) (K i j)).
Qed.
Lemma quad2_add nv n S T K x :
  quad2 nv n (fun v w => S v w + T v w) K x == quad2 nv n S K x + quad2 nv n T K x.
Proof.
  unfold quad2. rewrite <- sumn_add. apply sumn_ext. intros v _. rewrite <- sumn_add. apply sumn_ext. intros i _.
  rewrite <- sumn_add. apply sumn_ext. intros w _. rewrite <- sumn_add. apply sumn_ext. intros; ring.
Qed.
Lemma quad2_ext nv n S T K x :
  (forall v w, (v < nv)%nat -> (w < nv)%nat -> S v w == T v w) -> quad2 nv n S K x == quad2 nv n T K x.
Proof.
  intro E. unfold quad2. apply sumn_ext. intros v Hv. apply sumn_ext. intros i _. apply sumn_ext. intros w Hw.
  apply sumn_ext. intros j _. rewrite (E v w Hv Hw). reflexivity.
Qed.
Lemma psd_kron nv n r (A : fmat) K :
  psd n K -> forall x, 0 <= quad2 nv n (fun v w => sumn r (fun l => A v l * A w l)) K x.
Proof.
  intros H x. induction r as [|r IH].
  - unfold quad2. cbn [sumn]. rewrite sumn_zero; [lra|]. intros v _. apply sumn_zero. intros i _.
    apply sumn_zero. intros w _. apply sumn_zero. intros; ring.
  - rewrite (quad2_ext nv n _ (fun v w => sumn r (fun l => A v l * A w l) + A v r * A w r)) by (intros; cbn [sumn]; ring).
    rewrite quad2_add. rewrite quad2_rank1. specialize (H (fun i => sumn nv (fun v => A v r * x v i))). lra.
Qed.

(* nugget effect on pairwise distinct points: K = s * I *)
Lemma psd_nugget n (s : Q) (H : fmat) :
  0 <= s -> (forall i, (i < n)%nat -> H i i == 0) ->
  (forall i j, (i < n)%nat -> (j < n)%nat -> i <> j -> (1 # 10000000000) <= H i j) ->
  psd n (fun i j => s * cor_nugget (H i j)).
Proof.
  intros Hs H0 Hd. apply (psd_ext n (fun i j => s * delta i j)).
  - intros i j Hi Hj. unfold delta. destruct (Nat.eqb_spec i j) as [E|E].
    + subst j. unfold cor_nugget. destruct (qltb_spec (Qabs (H i i)) (1 # 10000000000)) as [L|L]; [reflexivity|].
      exfalso. rewrite (H0 i Hi) in L. cbn in L. lra.
    + unfold cor_nugget. destruct (qltb_spec (Qabs (H i j)) (1 # 10000000000)) as [L|L]; [|reflexivity].
      exfalso. specialize (Hd i j Hi Hj E). rewrite Qabs_pos in L by lra. lra.
  - apply (psd_diag n (fun _ => s)). intros; exact Hs.
Qed.

(* list-level quadratic form of the model = the function-level one *)
Lemma sumn_shift n f : sumn (S n) f == f O + sumn n (fun i => f (S i)).
Proof. induction n as [|n IH]; cbn [sumn]; [ring|]. cbn [sumn] in IH. rewrite IH. ring. Qed.
Lemma ldot_sumn a b : length a = length b -> ldot a b == sumn (length a) (fun j => nth j a 0 * nth j b 0).
Proof.
  revert b. induction a as [|x r IH]; intros [|y s] Hl; cbn [length] in *; try discriminate; [reflexivity|].
  cbn [ldot]. rewrite sumn_shift. cbn [nth]. rewrite IH by lia. reflexivity.
Qed.

(* the Penta matrix of the witness is not PSD in the sense above *)
Lemma penta_not_psd : ~ psd 7 (fun i j => get penta_K i j).
Proof.
  intro H. specialize (H (fun i => vget penta_x i)).
  assert (E : quad 7 (fun i j => get penta_K i j) (fun i => vget penta_x i) < 0) by (vm_compute; reflexivity).
  lra.
Qed.

(* C03 — property theorems only. Each is closed by [exact] of a lemma of Proofs*.v. *)
From Coq Require Import List ZArith QArith Qabs Qminmax Bool String.
From Gst Require Import lib.QAux C03.Table C03.IEval C03.Model C03.Valid C03.Witness C03.gen.CovTable C03.Proofs.
Import ListNotations.
Local Open Scope Q_scope.

(* The validity table regenerated from the headers agrees with the reference table except for the listed
   discrepancies (each of which is reported as a finding and confirmed on the implementation). *)
Theorem C03_table_ok_partial : forall e, In e cov_table ->
  forall code, In code (failures e) -> In (ce_name e, code) known_discrepancies.
Proof. exact table_entry_ok. Qed.
Print Assumptions C03_table_ok_partial.

Theorem C03_table_dim : forall e r,
  In e cov_table -> lookup (ce_name e) ref_table = Some r -> r_known r = true ->
  ~ In (ce_name e, 1%Z) known_discrepancies -> dim_le (ce_maxdim e) (r_maxdim r) = true.
Proof. exact table_dim_ok. Qed.
Print Assumptions C03_table_dim.

(* The 'Penta' closed form is not positive semi-definite in R^2: seven points with integer mutual distances,
   range 32 (all normalised distances rational, the matrix is exact) and a vector x with x^T K x < 0. *)
Theorem C03_penta_refuted :
  exists (pts : list (list Q)) (x : list Q) (K : list (list Q)),
    cov_matrix [penta_cova 32] 2 mode_default 1 pts = map (map (fun v => Some (v, v))) K /\
    forallb (fun p => forallb (fun q => qsqrt_exact (h2_of (penta_cova 32) p q)) pts) pts = true /\
    lquad K x < 0.
Proof. exists penta_pts, penta_x, penta_K. exact penta_witness. Qed.
Print Assumptions C03_penta_refuted.

(* C03 — property theorems only. Each is closed by [exact] of a lemma of Proofs*.v.
   NOT claimed here (cited mathematics, see Valid.v): positive definiteness of the valid structures in their
   reference dimension for all point sets.  What is proved: the generated validity table against the reference,
   the translated closed forms against the hand-written ones, the basic properties of every polynomial closed
   form, the anisotropic distance, the calculation modes, the closure properties of positive semi-definiteness,
   the nugget effect, the triangle and exponential structures on regular 1-D grids, the enclosure of the exp/cos/sin
   forms.  The refutation of the pre-fix 'Penta' closed form in R^2 is kept as a regression Example. *)
From Coq Require Import List ZArith QArith Qabs Qminmax Bool String Reals Qreals.
From Interval Require Import Xreal Interval.
From Gst Require Import lib.QAux lib.LinAlgQ C03.Table C03.IEval C03.Model C03.Spec C03.Valid C03.Witness C03.gen.CovTable
  C03.Proofs C03.Proofs_basic C03.Proofs_psd C03.Proofs_aniso C03.Proofs_encl C03.Proofs_real C03.Proofs_tri C03.Proofs_exp C03.Proofs_model C03.Proofs_series C03.Proofs_psdR.
Import ListNotations.
Local Open Scope Q_scope.

(* ---------------------------------------------------------------------------------------------- validity table *)
(* Every structure of the factory passes every check against the reference table
   (dimension, IRF order, support within the range, scadef, form / pinned text, parameter range). *)
Theorem C03_table_ok : forall e, In e cov_table -> failures e = [].
Proof. exact table_ok_strict. Qed.
Print Assumptions C03_table_ok.
(* J-Bessel: valid in R^d iff the parameter is >= (d-2)/2; the generated table records that the code keeps it there *)
Theorem C03_besselj_param_bound : forall e, In e cov_table -> ce_name e = "J-Bessel"%string -> ce_parmin_dim e = true.
Proof. exact besselj_param_bound. Qed.
(* (kept for the check's verdict logic: the list of tolerated discrepancies is empty) *)
Theorem C03_table_ok_partial : forall e, In e cov_table ->
  forall code, In code (failures e) -> In (ce_name e, code) known_discrepancies.
Proof. exact table_entry_ok. Qed.
Print Assumptions C03_table_ok_partial.

Theorem C03_table_dim : forall e r,
  In e cov_table -> lookup (ce_name e) ref_table = Some r ->
  ~ In (ce_name e, 1%Z) known_discrepancies -> chk_dim e r = true.
Proof. exact table_dim_ok. Qed.
Print Assumptions C03_table_dim.

Theorem C03_table_complete : forall e, In e cov_table -> exists r, lookup (ce_name e) ref_table = Some r.
Proof. exact table_all_known. Qed.
Print Assumptions C03_table_complete.

(* the closed forms translated from the C++ sources are the hand-written ones (which the theorems below are about) *)
Theorem C03_translated_forms : forall n f h,
  gen_CovNugget n f h == cor_nugget h /\ gen_CovSpherical n f h == cor_spherical h /\ gen_CovCubic n f h == cor_cubic h /\
  gen_CovTriangle n f h == cor_triangle h /\ gen_CovReg1D n f h == cor_reg1d h /\ gen_CovPenta n f h == cor_penta h /\
  gen_CovWendland0 n f h == cor_wendland0 h /\ gen_CovWendland1 n f h == cor_wendland1 h /\
  gen_CovWendland2 n f h == cor_wendland2 h /\ gen_CovLinear n f h == cor_linear n f h /\
  gen_CovGC1 n f h == cor_linear n f h /\ gen_CovGC3 n f h == cor_gc3 n f h /\ gen_CovGC5 n f h == cor_gc5 n f h.
Proof.
  intros n f h.
  split; [apply gen_nugget_ok|].
  split; [apply gen_spherical_ok|].
  split; [apply gen_cubic_ok|].
  split; [apply gen_triangle_ok|].
  split; [apply gen_reg1d_ok|].
  split; [apply gen_penta_ok|].
  split; [apply gen_wendland0_ok|].
  split; [apply gen_wendland1_ok|].
  split; [apply gen_wendland2_ok|].
  split; [apply gen_linear_ok|].
  split; [apply gen_gc1_ok|].
  split; [apply gen_gc3_ok|].
  apply gen_gc5_ok.
Qed.
Print Assumptions C03_translated_forms.
(* the factory re-checks the dimension on the complete object, and only offers structures compatible with the space *)
Theorem C03_factory_guard : factory_guards_dimension = true /\ factory_checks_space = true.
Proof. exact factory_guard_generated. Qed.
Theorem C03_translated_classes :
  gen_classes = ["CovNugget"; "CovSpherical"; "CovCubic"; "CovLinear"; "CovGC1"; "CovGC3"; "CovGC5"; "CovTriangle";
                 "CovReg1D"; "CovPenta"; "CovWendland0"; "CovWendland1"; "CovWendland2"]%string.
Proof. exact gen_classes_expected. Qed.

(* ---------------------------------------------------------------------------------------------- closed forms *)
(* cor 0 = 1, 0 <= cor <= 1 (or |cor| <= 1), zero beyond the support, continuity at the branch point *)
Theorem C03_nugget_basic :
  cor_nugget 0 == 1 /\ (forall h, 0 <= cor_nugget h <= 1) /\ (forall h, (1 # 10000000000) <= h -> cor_nugget h == 0).
Proof. exact nugget_basic. Qed.
Theorem C03_spherical_basic :
  cor_spherical 0 == 1 /\ (forall h, 0 <= h -> 0 <= cor_spherical h <= 1) /\
  (forall h, 1 <= h -> cor_spherical h == 0) /\ (forall h, 0 <= h -> h < 1 -> cor_spherical h <= (3#2) * (1 - h)).
Proof. exact spherical_basic. Qed.
Theorem C03_cubic_basic :
  cor_cubic 0 == 1 /\ (forall h, 0 <= h -> 0 <= cor_cubic h <= 1) /\ (forall h, 1 <= h -> cor_cubic h == 0) /\
  (forall h, 0 <= h -> h < 1 -> cor_cubic h <= (35#4) * (1 - h)).
Proof. exact cubic_basic. Qed.
Theorem C03_triangle_basic :
  cor_triangle 0 == 1 /\ (forall h, 0 <= h -> 0 <= cor_triangle h <= 1) /\ (forall h, 1 <= h -> cor_triangle h == 0) /\
  (forall h, 0 <= h -> h < 1 -> cor_triangle h == 1 - h).
Proof. exact triangle_basic. Qed.
Theorem C03_reg1d_basic :
  cor_reg1d 0 == 1 /\ (forall h, 0 <= h -> -(1) <= cor_reg1d h <= 1) /\ (forall h, 2 <= h -> cor_reg1d h == 0) /\
  (forall h, 0 <= h -> h < 1 -> Qabs (cor_reg1d h - (-(1#4))) <= 3 * (1 - h)) /\ cor_reg1d 1 == -(1#4) /\
  (forall h, 1 <= h -> h < 2 -> -((1#4) * (2 - h)) <= cor_reg1d h <= 0).
Proof. exact reg1d_basic. Qed.
Theorem C03_wendland0_basic :
  cor_wendland0 0 == 1 /\ (forall h, 0 <= h -> 0 <= cor_wendland0 h <= 1) /\ (forall h, 1 <= h -> cor_wendland0 h == 0) /\
  (forall h, 0 <= h -> h < 1 -> cor_wendland0 h <= 1 - h).
Proof. exact wendland0_basic. Qed.
Theorem C03_wendland1_basic :
  cor_wendland1 0 == 1 /\ (forall h, 0 <= h -> 0 <= cor_wendland1 h <= 1) /\ (forall h, 1 <= h -> cor_wendland1 h == 0) /\
  (forall h, 0 <= h -> h < 1 -> cor_wendland1 h <= 5 * (1 - h)).
Proof. exact wendland1_basic. Qed.
Theorem C03_wendland2_basic :
  cor_wendland2 0 == 1 /\ (forall h, 0 <= h -> 0 <= cor_wendland2 h <= 1) /\ (forall h, 1 <= h -> cor_wendland2 h == 0) /\
  (forall h, 0 <= h -> h < 1 -> cor_wendland2 h <= (56#3) * (1 - h)).
Proof. exact wendland2_basic. Qed.
Print Assumptions C03_wendland2_basic.
(* the published factorised forms (Wendland phi_{3,k}; spherical; cubic) *)
Theorem C03_factorised : forall h,
  1 - (1#2) * h * (3 - h * h) == ((1-h)*(1-h)) * (1 + (1#2)*h) /\
  1 - (h*h) * (7 + h * (-(35#4) + (h*h) * ((7#2) - (3#4) * (h*h)))) == ((1-h)*(1-h)*(1-h)*(1-h)) * (1 + 4*h + 3*h*h + (3#4)*h*h*h) /\
  1 - 2 * h + h * h == (1-h)*(1-h) /\
  1 - (h * h) * (10 - h * (20 - h * (15 - h * 4))) == ((1-h)*(1-h)*(1-h)*(1-h)) * (4*h + 1) /\
  1 - (h*h) * ((28#3) - (h*h) * (70 - h * ((448#3) - h * (140 - h * (64 - h * (35#3)))))) ==
    ((1-h)*(1-h)*(1-h)*(1-h)*(1-h)*(1-h)) * ((35*h*h + 18*h + 3) / 3) /\
  1 - h * ((15#8) - (h*h) * ((5#4) - (3#8) * (h*h))) == ((1-h)*(1-h)*(1-h)) * (1 + (9#8)*h + (3#8)*(h*h)).
Proof.
  intro h. split; [apply spherical_factor|]. split; [apply cubic_factor|]. split; [apply wendland0_factor|].
  split; [apply wendland1_factor|]. split; [apply wendland2_factor|apply penta_factor].
Qed.
(* intrinsic structures: the variogram form; rational structures with an integer exponent *)
Theorem C03_linear_variogram : forall n r h, cor_linear n r 0 - cor_linear n r h == h.
Proof. exact linear_variogram. Qed.
Theorem C03_power1_variogram : forall a h, 0 <= h -> cor_power1 a 0 - cor_power1 a h == h.
Proof. exact power1_variogram. Qed.
Theorem C03_cauchy_basic : forall n, cor_cauchy n 0 == 1 /\ forall h, 0 < cor_cauchy n h <= 1.
Proof. exact cauchy_basic. Qed.
Theorem C03_gamma_basic : forall n, cor_gamma n 0 == 1 /\ forall h, 0 <= h -> 0 < cor_gamma n h <= 1.
Proof. exact gamma_basic. Qed.
(* exp / cos / sin forms over R *)
Theorem C03_exponential_basic : corR_exponential 0 = 1%R /\ forall h, (0 <= h -> 0 < corR_exponential h <= 1)%R.
Proof. exact exponential_basic. Qed.
Print Assumptions C03_exponential_basic.
Theorem C03_gaussian_basic : corR_gaussian 0 = 1%R /\ forall h, (0 < corR_gaussian h <= 1)%R.
Proof. exact gaussian_basic. Qed.
Theorem C03_cosinus_basic : corR_cosinus 0 = 1%R /\ forall h, (-1 <= corR_cosinus h <= 1)%R.
Proof. exact cosinus_basic. Qed.
Theorem C03_cosexp_basic : forall p, corR_cosexp p 0 = 1%R /\ forall h, (0 <= h -> -1 <= corR_cosexp p h <= 1)%R.
Proof. exact cosexp_basic. Qed.
Theorem C03_matern32_basic : corR_matern32 0 = 1%R /\ forall h, (0 <= h -> 0 < corR_matern32 h <= 1)%R.
Proof. exact matern32_basic. Qed.
Theorem C03_sinc_basic : forall h, (0 < h -> -1 <= corR_sinc h <= 1)%R.
Proof. exact sinc_basic. Qed.

(* the pentaspherical structure *)
Theorem C03_penta_basic :
  cor_penta 0 == 1 /\ (forall h, 0 <= h -> 0 <= cor_penta h <= 1) /\ (forall h, 1 <= h -> cor_penta h == 0) /\
  (forall h, 0 <= h -> h < 1 -> cor_penta h <= (5#2) * (1 - h)).
Proof. exact penta_basic. Qed.
Print Assumptions C03_penta_basic.

(* ---------------------------------------------------------------------------------------------- enclosures *)
(* the square-root bracket used for the normalised distance *)
Theorem C03_sqrt_bracket : forall q, 0 <= q ->
  0 <= fst (sqrt_bracket q) /\ fst (sqrt_bracket q) <= snd (sqrt_bracket q) /\
  fst (sqrt_bracket q) * fst (sqrt_bracket q) <= q /\ q <= snd (sqrt_bracket q) * snd (sqrt_bracket q) /\
  snd (sqrt_bracket q) - fst (sqrt_bracket q) <= 1 # pow2b.
Proof. exact sqrt_bracket_spec. Qed.
Print Assumptions C03_sqrt_bracket.
(* the interval evaluator encloses the real closed form, for every real distance inside the bracket *)
Theorem C03_enclosure : forall type param ndim field hlo hhi (h : R) a b,
  0 < field ->
  cor_trans type param ndim field hlo hhi = Some (a, b) -> (Q2R hlo <= h <= Q2R hhi)%R ->
  exists v, cor_R type param ndim field h = Some v /\ (Q2R a <= v <= Q2R b)%R.
Proof. exact cor_trans_encloses. Qed.
Print Assumptions C03_enclosure.

(* ---------------------------------------------------------------------------------------------- anisotropy, modes *)
Theorem C03_aniso_symmetry : forall cs ndim m i j p1 p2,
  model_eval cs ndim m i j p1 p2 = model_eval cs ndim m i j p2 p1.
Proof. exact model_eval_sym. Qed.
Print Assumptions C03_aniso_symmetry.
Theorem C03_aniso_distance_only : forall c ndim m i j p1 p2 q1 q2,
  h2_of c p1 p2 = h2_of c q1 q2 -> cova_eval c ndim m i j p1 p2 = cova_eval c ndim m i j q1 q2.
Proof. exact cova_eval_distance. Qed.
(* along the a-th column of an orthonormal rotation matrix the squared normalised distance of an increment of
   length |t| is (t / scale_a)^2: the range is measured along the rotated anisotropy axes *)
Theorem C03_aniso_axis : forall rot scales (a : nat) (t : Q),
  (a < List.length scales)%nat ->
  (forall i, (i < List.length scales)%nat -> ldot (col rot i) (col rot a) == delta i a) ->
  norm2 (transformed rot scales (map (fun x => t * x) (col rot a))) == (t / nth a scales 1) * (t / nth a scales 1).
Proof. exact range_along_axis. Qed.
Print Assumptions C03_aniso_axis.
Theorem C03_variogram_mode : forall c ndim unit h2 a0 b0 a b,
  cor_at c ndim 0 = Some (a0, b0) -> cor_at c ndim h2 = Some (a, b) ->
  cor_from_h2 c ndim {| m_asvario := true; m_unitary := unit; m_order := 0; m_active := None |} h2 = Some (a0 - b, b0 - a).
Proof. exact vario_mode_enc. Qed.
Theorem C03_unitary_mode : forall c ndim m i j h2,
  m_unitary m = true -> cova_eval_h2 c ndim m i j h2 = cor_from_h2 c ndim m h2.
Proof. exact unitary_mode. Qed.
Theorem C03_matrix_definition : forall cs ndim m nvar pts, cov_matrix cs ndim m nvar pts = cov_matrix_spec cs ndim m nvar pts.
Proof. exact cov_matrix_eq. Qed.

(* ---------------------------------------------------------------------------------------------- PSD closure *)
Theorem C03_psd_closure_sum : forall n K L, psd n K -> psd n L -> psd n (fun i j => K i j + L i j).
Proof. exact psd_add. Qed.
Theorem C03_psd_closure_scale : forall n c K, 0 <= c -> psd n K -> psd n (fun i j => c * K i j).
Proof. exact psd_scale. Qed.
(* any linear recombination of the points; in particular relabelling, sub-sampling, repeated points *)
Theorem C03_psd_closure_congruence : forall n m B K, psd m K -> psd n (congr m B K).
Proof. exact psd_congr. Qed.
Theorem C03_psd_closure_relabel : forall n m (s : nat -> nat) K,
  (forall i, (i < n)%nat -> (s i < m)%nat) -> psd m K -> psd n (fun i j => K (s i) (s j)).
Proof. exact psd_relabel. Qed.
Theorem C03_psd_gram : forall n r B, psd n (fun i j => sumn r (fun l => B i l * B j l)).
Proof. exact psd_gram. Qed.
(* entrywise product with a Gram matrix (Schur product theorem for a factorised second factor) *)
Theorem C03_psd_closure_schur : forall n r (B : fmat) K, psd n K -> psd n (fun i j => K i j * sumn r (fun l => B i l * B j l)).
Proof. exact psd_schur_gram. Qed.
(* sill (x) kernel for a sill matrix A.A^T *)
Theorem C03_psd_closure_sill : forall nv n r (A : fmat) K,
  psd n K -> forall x, 0 <= quad2 nv n (fun v w => sumn r (fun l => A v l * A w l)) K x.
Proof. exact psd_kron. Qed.
Print Assumptions C03_psd_closure_sill.
(* nugget effect: any number of pairwise distinct points, any dimension *)
Theorem C03_psd_nugget : forall n (s : Q) (H : fmat),
  0 <= s -> (forall i, (i < n)%nat -> H i i == 0) ->
  (forall i j, (i < n)%nat -> (j < n)%nat -> i <> j -> (1 # 10000000000) <= H i j) ->
  psd n (fun i j => s * cor_nugget (H i j)).
Proof. exact psd_nugget. Qed.

(* the triangle structure on every regular 1-D grid: n points, spacing = range / m, any n and any m >= 1
   (normalised distance of nodes i and j = |i - j| / m) *)
Theorem C03_psd_triangle_1d : forall n m, (0 < m)%nat -> psd n (fun i j => cor_triangle (grid_h m i j)).
Proof. exact psd_triangle_grid. Qed.
Print Assumptions C03_psd_triangle_1d.

(* the exponential structure on every regular 1-D grid: one-step correlation rho in [0,1], any number of nodes *)
Theorem C03_psd_exponential_1d : forall n rho, 0 <= rho -> rho <= 1 -> psd n (fun i j => qpow rho (gdist i j)).
Proof. exact psd_exponential_grid. Qed.
Print Assumptions C03_psd_exponential_1d.

(* ---------------------------------------------------------------------------------------------- PSD, complete proofs over R *)
(* every finite point set, any n, any points: no citation *)
Theorem C03_psd_cosinus_1d : forall n (range : R) (t : nat -> R), psdR n (fun i j => corR_cosinus (Rabs (t i - t j) / range)).
Proof. exact psdR_cosinus_1d. Qed.
Print Assumptions C03_psd_cosinus_1d.
(* the Gaussian structure in R^d, every d: p i a = coordinate a of the (anisotropy-transformed, normalised) point i *)
Theorem C03_psd_gaussian : forall d n (p : nat -> nat -> R), psdR n (fun i j => corR_gaussian (sqrt (dist2R d (p i) (p j)))).
Proof. exact psdR_gaussian_structure. Qed.
Print Assumptions C03_psd_gaussian.
Theorem C03_psdR_closure_limit : forall n (KN : nat -> rmat) (K : rmat),
  (forall N, psdR n (KN N)) -> (forall i j, (i < n)%nat -> (j < n)%nat -> Lim_seq.is_lim_seq (fun N => KN N i j) (Rbar.Finite (K i j))) -> psdR n K.
Proof. exact psdR_limit. Qed.

(* ---------------------------------------------------------------------------------------------- PSD, assembling *)
Theorem C03_psd_lincomb : forall n S (c : fvec) (K : nat -> fmat),
  (forall s, (s < S)%nat -> 0 <= c s) -> (forall s, (s < S)%nat -> psd n (K s)) -> psd n (fun i j => sumn S (fun s => c s * K s i j)).
Proof. exact psd_lincomb. Qed.
Theorem C03_psd_plus_nugget : forall n (s : Q) (H : fmat) K,
  0 <= s -> (forall i, (i < n)%nat -> H i i == 0) ->
  (forall i j, (i < n)%nat -> (j < n)%nat -> i <> j -> (1 # 10000000000) <= H i j) ->
  psd n K -> psd n (fun i j => K i j + s * cor_nugget (H i j)).
Proof. exact psd_plus_nugget. Qed.
(* separable model: partial, the second factor is given in factorised form (hypothesis second_factor_gram) *)
Theorem C03_psd_separable_partial : forall n r (d : fvec) (B : fmat) K1 K2,
  psd n K1 -> (forall l, (l < r)%nat -> 0 <= d l) ->
  (forall i j, (i < n)%nat -> (j < n)%nat -> K2 i j == sumn r (fun l => d l * (B i l * B j l))) ->
  psd n (fun i j => K1 i j * K2 i j).
Proof. exact psd_separable_partial. Qed.
(* full strength: any PSD spatial matrix times the exponential structure on a regular time grid *)
Theorem C03_psd_separable_exponential_time : forall n rho K1 (tau : nat -> nat),
  0 <= rho -> rho <= 1 -> psd n K1 -> (forall i, (i < n)%nat -> (tau i < n)%nat) ->
  psd n (fun i j => K1 i j * qpow rho (gdist (tau i) (tau j))).
Proof. exact psd_separable_exponential_time. Qed.
Theorem C03_psd_closure_limit : forall n K,
  (forall eps, 0 < eps -> exists L, psd n L /\ forall i j, (i < n)%nat -> (j < n)%nat -> Qabs (K i j - L i j) <= eps) -> psd n K.
Proof. exact psd_limit. Qed.
(* spherical family: partial, hypothesis [intersection_volume] = the matrix is a limit of Gram matrices of indicator
   functions of balls (Matheron; proved here only for the 1-D member, the triangle structure) *)
Theorem C03_psd_spherical_partial : forall n K, intersection_volume n K -> psd n K.
Proof. exact psd_intersection_volume_partial. Qed.
(* the multivariate model: nvar variables, ncov structures with sills A_s A_s^T and PSD scalar kernels *)
Theorem C03_model_psd : forall nv n ncov (r : nat) (A : nat -> fmat) (k : nat -> fmat),
  (forall s, (s < ncov)%nat -> psd n (k s)) ->
  forall x, 0 <= quadB nv n (fun v i w j => sumn ncov (fun s => sumn r (fun l => A s v l * A s w l) * k s i j)) x.
Proof. exact model_psd. Qed.
Print Assumptions C03_model_psd.

(* ---------------------------------------------------------------------------------------------- series, sphere *)
(* J-Bessel: every partial sum of the series beyond some index lies in the bracket computed by the model *)
Theorem C03_besselj_bracket : forall nu h2 lo hi, bessel_enc nu h2 = Some (lo, hi) ->
  0 < nu /\ 0 <= h2 /\ exists K, forall M, (K <= M)%nat -> lo <= bessel_sum nu (h2 / 4) M <= hi.
Proof. exact bessel_enc_spec. Qed.
Print Assumptions C03_besselj_bracket.
Theorem C03_sphere_spectrum_nonneg : forall type param scale n l,
  0 <= scale -> 0 <= param -> sphere_spectrum type param scale n = Some l -> Forall (fun x => 0 <= x) l.
Proof. exact sphere_spectrum_nonneg. Qed.
Theorem C03_sphere_spectrum_markov_nonneg : forall cs scale n,
  Forall (fun c => 0 <= c) cs -> (match cs with c :: _ => 0 < c | [] => False end) -> Forall (fun x => 0 <= x) (spec_markov cs scale n).
Proof. exact spec_markov_nonneg. Qed.
(* Exponential on the sphere: the coefficients of the recursion are >= 0 whatever the value e of exp(-nu pi) in [0,1] *)
Theorem C03_sphere_spectrum_exponential_nonneg : forall nu e, 0 <= e -> e <= 1 -> forall k, 0 <= spec_exp_gen nu e k.
Proof. exact spec_exp_gen_nonneg. Qed.
(* partial: hypothesis [schoenberg] = the Legendre matrices P_k(cos theta_ij) are PSD (cited) *)
Theorem C03_sphere_psd_partial : forall n N (P : nat -> fmat) (a : list Q),
  (forall k, (k < N)%nat -> psd n (P k)) -> Forall (fun x => 0 <= x) a -> psd n (fun i j => sumn N (fun k => nth k a 0 * P k i j)).
Proof. exact sphere_psd_partial. Qed.

(* ---------------------------------------------------------------------------------------------- regression *)
(* The closed form CovPenta.cpp carried before fix C03_1 (the Reg1D form with scale = range) is not positive
   semi-definite in R^2: seven points with integer mutual distances, range 32 (all normalised distances rational, the
   matrix is exact) and a vector x with x^T K x < 0; and it does not vanish beyond its range.  The same seven points
   are replayed on the implementation by the check (key Penta:not-psd-in-2D if the fix is reverted). *)
Example C03_old_penta_regression :
  exists (pts : list (list Q)) (x : list Q) (K : list (list Q)),
    cov_matrix [penta_cova 32] 2 mode_default 1 pts = map (map (fun v => Some (v, v))) K /\
    forallb (fun p => forallb (fun q => qsqrt_exact (h2_of (penta_cova 32) p q)) pts) pts = true /\
    lquad K x < 0.
Proof. exists penta_pts, penta_x, penta_K. exact penta_witness. Qed.
Example C03_old_penta_not_psd : ~ psd 7 (fun i j => get penta_K i j).
Proof. exact penta_not_psd. Qed.
Example C03_old_penta_beyond_range : exists h, 1 < h /\ ~ cor_reg1d h == 0.
Proof. exact old_penta_beyond_range. Qed.
(* on the same seven points the pentaspherical form gives a positive value for that x *)
Example C03_penta_witness_now_positive :
  0 < lquad (map (map point_val) (cov_matrix [{| cv_type := 21; cv_param := 0; cv_scales := [32; 32]; cv_rot := ident2;
               cv_sill := [[1]]; cv_field := 32; cv_cov0 := 0 |}] 2 mode_default 1 penta_pts)) penta_x.
Proof. vm_compute. reflexivity. Qed.

(* ---------------------------------------------------------------------------------------------- non-vacuity *)
(* hypotheses of the theorems above are satisfiable on non-trivial states *)
Example C03_nonvacuous_axis :
  (* rotation by the 3-4-5 angle, scales (8, 2): along the first rotated axis (3/5, 4/5) the range is 8 *)
  let rot := [[3#5; -(4#5)]; [4#5; 3#5]] in
  (forall i, (i < 2)%nat -> ldot (col rot i) (col rot 0) == delta i 0) /\
  norm2 (transformed rot [8; 2] (map (fun x => 8 * x) (col rot 0))) == 1 /\
  norm2 (transformed rot [8; 2] (map (fun x => 2 * x) (col rot 1))) == 1.
Proof.
  cbv zeta. split; [|split; vm_compute; reflexivity].
  intros i Hi. destruct i as [|[|i]]; [vm_compute; reflexivity|vm_compute; reflexivity|exfalso; apply (Nat.nlt_0_r i); apply Nat.succ_lt_mono, Nat.succ_lt_mono; exact Hi].
Qed.
Example C03_nonvacuous_psd :
  (* a Gram matrix that is not diagonal, and its relabelling with a repeated point *)
  psd 3 ex_gram /\ psd 4 (fun i j => ex_gram (Nat.modulo i 3) (Nat.modulo j 3)) /\ ex_gram 0%nat 1%nat == 6.
Proof.
  split; [exact (psd_gram 3 2 ex_B)|split].
  - exact (psd_relabel 4 3 (fun i => Nat.modulo i 3) ex_gram (fun i _ => Nat.mod_upper_bound i 3 (Nat.neq_succ_0 2)) (psd_gram 3 2 ex_B)).
  - vm_compute. reflexivity.
Qed.
Example C03_nonvacuous_enclosure :
  (* exp(-1/2) lies in the computed enclosure, which is narrower than 2^-90 *)
  match cor_trans 1 0 1 1 (1#2) (1#2) with
  | Some (a, b) => a < b /\ b - a < 1 # (2 ^ 90) /\ (60653 # 100000) < a /\ b < (60654 # 100000)
  | None => False
  end.
Proof. vm_compute. repeat split; reflexivity. Qed.
Example C03_nonvacuous_nugget :
  psd 3 (fun i j => 2 * cor_nugget ((fun a b => if Nat.eqb a b then 0 else 1) i j)).
Proof.
  apply psd_nugget; [discriminate| |].
  - intros i _. rewrite Nat.eqb_refl. reflexivity.
  - intros i j _ _ Hij. destruct (Nat.eqb_spec i j); [contradiction|discriminate].
Qed.
Example C03_nonvacuous_exponential :
  (* rho = 1/2, nodes 0 and 3: correlation 1/8; the hypotheses 0 <= rho <= 1 are satisfiable strictly inside *)
  qpow (1#2) (gdist 0 3) == 1#8 /\ 0 <= 1#2 /\ (1#2) <= 1.
Proof. vm_compute. repeat split; discriminate. Qed.
Example C03_nonvacuous_gaussian :
  (* three points of the plane, not collinear: the matrix has distinct off-diagonal entries *)
  let p := fun i a : nat => INR (i * i + a * i) in
  psdR 3 (fun i j => corR_gaussian (sqrt (dist2R 2 (p i) (p j)))) /\ (dist2R 2 (p 0%nat) (p 1%nat) = 5)%R /\ (dist2R 2 (p 1%nat) (p 2%nat) = 25)%R.
Proof.
  cbv zeta. split; [apply psdR_gaussian_structure|]. unfold dist2R. cbn -[INR]. cbn. split; Lra.lra.
Qed.
Example C03_nonvacuous_cosinus : psdR 3 (fun i j => corR_cosinus (Rabs (INR i - INR j) / 4)).
Proof. exact (psdR_cosinus_1d 3 4 INR). Qed.
Example C03_nonvacuous_intersection_volume : intersection_volume 5 (fun i j => cor_triangle (grid_h 3 i j)).
Proof. apply triangle_intersection_volume. repeat constructor. Qed.
Example C03_nonvacuous_model :
  (* two variables, two structures (nugget-like identity and the exponential grid kernel), rank-2 and rank-1 sills *)
  forall x, 0 <= quadB 2 3 (fun v i w j => sumn 2 (fun s => sumn 2 (fun l => ex_A s v l * ex_A s w l) * ex_k s i j)) x.
Proof.
  apply model_psd. intros s Hs. destruct s as [|[|s]]; [| |exfalso; Lia.lia].
  - apply (psd_ext 3 (fun i j => 1 * delta i j)); [intros; unfold ex_k; cbn; ring|apply (psd_diag 3 (fun _ => 1)); intros; discriminate].
  - apply (psd_ext 3 (fun i j => qpow (1#2) (gdist i j))); [intros; reflexivity|apply psd_exponential_grid; discriminate].
Qed.
Example C03_nonvacuous_besselj :
  (* J_1(2) = 0.576724807756873...: the bracket of width < 2^-69 *)
  match bessel_enc 1 4 with
  | Some (lo, hi) => (57672480775 # 100000000000) < lo /\ hi < (57672480776 # 100000000000) /\ lo < hi
  | None => False
  end.
Proof. vm_compute. repeat split; reflexivity. Qed.
Example C03_nonvacuous_spectrum :
  sphere_spectrum 29 (3#2) 1 3 = Some [16#67; 24#67; 18#67; 9#67] /\ sphere_spectrum 30 1 1 5 = Some [0; 64#77; 0; 4#33; 0; 1#21].
Proof. vm_compute. split; reflexivity. Qed.
Example C03_nonvacuous_spectrum_markov_exp :
  normalize1 (spec_markov [1; 1#2] 1 2) = [4#15; 2#5; 1#3] /\ 0 < spec_exp_gen 3 (1#2) 4 /\ spec_exp_gen 3 (1#2) 0 == 3#40.
Proof. vm_compute. repeat split; reflexivity. Qed.
Example C03_nonvacuous_triangle :
  (* 4 nodes, range = 3 spacings: correlations 1, 2/3, 1/3, 0 *)
  map (fun j => Qred (cor_triangle (grid_h 3 0 j))) [0; 1; 2; 3]%nat = [1; 2#3; 1#3; 0].
Proof. vm_compute. reflexivity. Qed.
Example C03_nonvacuous_variogram :
  (* spherical structure, range 4, sill 3: variogram mode at distance 2 = 3 * (1 - 5/16) *)
  let c := {| cv_type := 2; cv_param := 0; cv_scales := [4; 4]; cv_rot := [[1; 0]; [0; 1]]; cv_sill := [[3]]; cv_field := 4; cv_cov0 := 0 |} in
  model_eval [c] 2 {| m_asvario := true; m_unitary := false; m_order := 0; m_active := None |} 0 0 [0; 0] [2; 0]
  = Some (33 # 16, 33 # 16).
Proof. vm_compute. reflexivity. Qed.

From Coq Require Import Extraction ExtrOcamlBasic ExtrOcamlZBigInt ExtrOcamlNativeString ZArith.
From Gst Require Import lib.Sx C03.Run.
Extract Constant Z.gcd => "Big_int_Z.gcd_big_int".
Extract Constant Z.ggcd => "(fun a b -> let g = Big_int_Z.gcd_big_int a b in if Big_int_Z.sign_big_int g = 0 then (g, (a, b)) else (g, (Big_int_Z.div_big_int a g, Big_int_Z.div_big_int b g)))".
(* CoqInterval's functor instances are extracted as a whole and mention the real-number definitions of the
   standard library; none of them is reached by [run] (which only computes on Z).  Should one ever be reached,
   the runner aborts, which the check reports as an error, never as an agreement. *)
Extract Constant ClassicalDedekindReals.sig_forall_dec => "(fun _ -> failwith ""real-number axiom reached"")".
Set Warnings "-extraction-opaque-accessed,-extraction-axiom-to-realize,-extraction".
Extraction "model.ml" run.

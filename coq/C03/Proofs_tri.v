(* C03 — the triangle structure is positive semi-definite on every regular 1-D grid (any number n of points,
   any integer ratio m = range / spacing): its matrix is (1/m) * B B^T with B_il = [i <= l < i+m]. *)
From Coq Require Import List Arith ZArith QArith Qabs Qminmax Bool Lqa Lia.
From Gst Require Import lib.QAux lib.LinAlgQ C03.Table C03.IEval C03.Model C03.Proofs_basic C03.Proofs_psd.
Local Open Scope Q_scope.

Definition qn (k : nat) : Q := inject_Z (Z.of_nat k).
Lemma qn_S k : qn (S k) == qn k + 1.
Proof. unfold qn. rewrite Nat2Z.inj_succ. unfold Z.succ. rewrite inject_Z_plus. reflexivity. Qed.
Lemma qn_nonneg k : 0 <= qn k.
Proof. unfold qn. replace 0 with (inject_Z 0) by reflexivity. rewrite <- Zle_Qle. lia. Qed.
Lemma qn_sub a b : (b <= a)%nat -> qn (a - b) == qn a - qn b.
Proof. intro H. unfold qn. rewrite Nat2Z.inj_sub by exact H. unfold Zminus. rewrite inject_Z_plus, inject_Z_opp. ring. Qed.
Lemma qn_le a b : (a <= b)%nat -> qn a <= qn b.
Proof. intro H. unfold qn. rewrite <- Zle_Qle. lia. Qed.

(* indicator of a <= l < b *)
Definition ind (a b l : nat) : Q := if (Nat.leb a l && Nat.ltb l b)%bool then 1 else 0.

Lemma count_ind a b N : sumn N (ind a b) == qn (Nat.min b N - a).
Proof.
  induction N as [|N IH]; cbn [sumn].
  - rewrite Nat.min_0_r. reflexivity.
  - rewrite IH. unfold ind.
    destruct (Nat.leb_spec a N) as [H1|H1]; destruct (Nat.ltb_spec N b) as [H2|H2]; cbn [andb].
    + replace (Nat.min b (S N) - a)%nat with (S (Nat.min b N - a)) by lia. rewrite qn_S. reflexivity.
    + replace (Nat.min b (S N) - a)%nat with (Nat.min b N - a)%nat by lia. ring.
    + replace (Nat.min b (S N) - a)%nat with (Nat.min b N - a)%nat by lia. ring.
    + replace (Nat.min b (S N) - a)%nat with (Nat.min b N - a)%nat by lia. ring.
Qed.

Lemma ind_mul a b c d l : ind a b l * ind c d l == ind (Nat.max a c) (Nat.min b d) l.
Proof.
  unfold ind.
  destruct (Nat.leb_spec a l); destruct (Nat.ltb_spec l b); destruct (Nat.leb_spec c l); destruct (Nat.ltb_spec l d);
  destruct (Nat.leb_spec (Nat.max a c) l); destruct (Nat.ltb_spec l (Nat.min b d)); cbn [andb]; try ring; exfalso; lia.
Qed.

(* distance in grid steps *)
Definition gdist (i j : nat) : nat := Nat.max i j - Nat.min i j.
(* normalised distance |i - j| / m *)
Definition grid_h (m i j : nat) : Q := qn (gdist i j) / qn m.

Lemma triangle_grid_gram n m i j : (0 < m)%nat -> (i < n)%nat -> (j < n)%nat ->
  cor_triangle (grid_h m i j) == (1 / qn m) * sumn (n + m) (fun l => ind i (i + m) l * ind j (j + m) l).
Proof.
  intros Hm Hi Hj.
  rewrite (sumn_ext (n + m) _ (ind (Nat.max i j) (Nat.min (i + m) (j + m)))) by (intros; apply ind_mul).
  rewrite count_ind.
  assert (Pm : 0 < qn m) by (unfold qn; replace 0 with (inject_Z 0) by reflexivity; rewrite <- Zlt_Qlt; lia).
  unfold cor_triangle, grid_h, gdist.
  destruct (Nat.le_gt_cases (Nat.max i j - Nat.min i j) m) as [Hd|Hd].
  - (* |i-j| <= m : value 1 - d/m = (m - d)/m *)
    replace (Nat.min (Nat.min (i + m) (j + m)) (n + m) - Nat.max i j)%nat with (m - (Nat.max i j - Nat.min i j))%nat by lia.
    rewrite (qn_sub m _ Hd).
    rewrite qmax0_of_nonneg.
    + field. lra.
    + assert (qn (Nat.max i j - Nat.min i j) <= qn m) by (apply qn_le; exact Hd).
      assert (E : 1 - qn (Nat.max i j - Nat.min i j) / qn m == (qn m - qn (Nat.max i j - Nat.min i j)) / qn m) by (field; lra).
      rewrite E. apply Qle_shift_div_l; [exact Pm|]. lra.
  - (* |i-j| > m : 0 *)
    replace (Nat.min (Nat.min (i + m) (j + m)) (n + m) - Nat.max i j)%nat with 0%nat by lia.
    rewrite qmax0_of_nonpos.
    + unfold qn at 2. cbn. ring.
    + assert (qn m <= qn (Nat.max i j - Nat.min i j)) by (apply qn_le; lia).
      assert (E : 1 - qn (Nat.max i j - Nat.min i j) / qn m == (qn m - qn (Nat.max i j - Nat.min i j)) / qn m) by (field; lra).
      rewrite E. apply Qle_shift_div_r; [exact Pm|]. lra.
Qed.

Lemma psd_triangle_grid n m : (0 < m)%nat -> psd n (fun i j => cor_triangle (grid_h m i j)).
Proof.
  intro Hm.
  apply (psd_ext n (fun i j => (1 / qn m) * sumn (n + m) (fun l => ind i (i + m) l * ind j (j + m) l))).
  - intros i j Hi Hj. symmetry. apply (triangle_grid_gram n m i j Hm Hi Hj).
  - apply psd_scale.
    + assert (0 < qn m) by (unfold qn; replace 0 with (inject_Z 0) by reflexivity; rewrite <- Zlt_Qlt; lia).
      apply Qle_shift_div_l; [assumption|lra].
    + apply (psd_gram n (n + m) (fun i l => ind i (i + m) l)).
Qed.

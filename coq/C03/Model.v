(* C03 model: executable mirror of
     Cov<X>::_evaluateCov                 /repo/src/Covariances/Cov<X>.cpp      (closed forms, normalised distance h)
     CovAniso::setRanges/setScales/...    /repo/src/Covariances/CovAniso.cpp:251-335 (range -> scale, field)
     Tensor::_fillTensors                 /repo/src/Basic/Tensor.cpp:248        (inverse tensor = rot^T / radius)
     SpaceRN::_getDistance                /repo/src/Space/SpaceRN.cpp:79        (norm of the transformed increment)
     CovAniso::_evalCorFromH, eval, eval0 /repo/src/Covariances/CovAniso.cpp:460-536
     ACovAnisoList::eval, eval0           /repo/src/Covariances/ACovAnisoList.cpp:133,325
     ACov::evalCovMatrixSymmetric         /repo/src/Covariances/ACov.cpp:1082   (variable-major ordering)
   Exact rational arithmetic.  The only non-rational step is the square root of the squared normalised distance:
   [qsqrt] is exact on perfect squares and otherwise a lower approximation at 2^-100 (see [qsqrt_hi]).
   exp / cos / sin based structures are evaluated by CoqInterval (coq/C03/IEval.v) and come back as an
   enclosure [lo, hi]; polynomial structures give lo = hi at exact h.  No proofs here. *)
From Coq Require Import List ZArith QArith Qabs Qminmax Bool.
From Gst Require Import lib.QAux C03.Table C03.IEval.
Import ListNotations.
Local Open Scope Q_scope.

(* ------------------------------------------------------------------ square root *)
Definition sqrt_bits : Z := 100.
(* integer square root: Newton iteration on machine-efficient division, accepted only after the exact check
   r^2 <= n < (r+1)^2 (certificate pattern); otherwise the library function *)
Fixpoint newton (fuel : nat) (n x : Z) : Z :=
  match fuel with
  | O => x
  | S k => let y := Z.div (x + Z.div n x) 2 in if Z.ltb y x then newton k n y else x
  end.
Definition zsqrt (n : Z) : Z :=
  if Z.leb n 0 then 0%Z
  else
    let x0 := Z.pow 2 (Z.div (Z.log2 n) 2 + 1) in
    let r := newton 400 n x0 in
    if Z.leb (r * r) n && Z.ltb n ((r + 1) * (r + 1)) && Z.leb 0 r then r else Z.sqrt n.
Definition pow4b : Z := 4 ^ sqrt_bits.
Definition pow2b : positive := Z.to_pos (2 ^ sqrt_bits).
(* bracket [lo, hi] of sqrt q (q >= 0): lo = hi when numerator and denominator of the reduced fraction are
   squares, otherwise hi = lo + 2^-100 *)
Definition sqrt_bracket (q : Q) : Q * Q :=
  let r := Qred q in
  let n := Qnum r in
  let d := Zpos (Qden r) in
  if Z.leb n 0 then (0, 0)
  else
    let sn := zsqrt n in let sd := zsqrt d in
    if Z.eqb (sn * sn) n && Z.eqb (sd * sd) d then (sn # Z.to_pos sd, sn # Z.to_pos sd)
    else let x := zsqrt ((n * pow4b) / d) in (x # pow2b, (x + 1) # pow2b).
Definition qsqrt (q : Q) : Q := fst (sqrt_bracket q).
Definition qsqrt_hi (q : Q) : Q := snd (sqrt_bracket q).
Definition qsqrt_exact (q : Q) : bool := qeqb (qsqrt q * qsqrt q) q.

Fixpoint qpow (x : Q) (n : nat) : Q := match n with O => 1 | S k => x * qpow x k end.

(* ------------------------------------------------------------------ closed forms over Q (normalised distance h >= 0) *)
(* CovNugget.cpp:42   ABS(h) < 1.e-10 *)
Definition cor_nugget (h : Q) : Q := if qltb (Qabs h) (1 # 10000000000) then 1 else 0.
(* CovSpherical.cpp:45 *)
Definition cor_spherical (h : Q) : Q := if qltb h 1 then 1 - (1#2) * h * (3 - h * h) else 0.
(* CovCubic.cpp:45 *)
Definition cor_cubic (h : Q) : Q :=
  let h2 := h * h in
  Qmax 0 (if qltb h 1 then 1 - h2 * (7 + h * (-(35#4) + h2 * ((7#2) - (3#4) * h2))) else 0).
(* CovTriangle.cpp:41 *)
Definition cor_triangle (h : Q) : Q := Qmax 0 (1 - h).
(* CovReg1D.cpp:47 (support 2, scadef 2) *)
Definition cor_reg1d (h : Q) : Q :=
  if qltb h 1 then 1 - 3 * h * (1 - h / 2 * (1 + h / 6))
  else if qltb h 2 then -(2) + 3 * h * (1 - h / 2 * (1 - h / 6))
  else 0.
(* CovPenta.cpp:41  pentaspherical model 1 - 15/8 h + 5/4 h^3 - 3/8 h^5
   (until fix C03_1 this body was, verbatim, the one of CovReg1D: see the regression example in Witness.v) *)
Definition cor_penta (h : Q) : Q :=
  let h2 := h * h in
  if qltb h 1 then 1 - h * ((15#8) - h2 * ((5#4) - (3#8) * h2)) else 0.
(* CovWendland0.cpp:41, CovWendland1.cpp:41, CovWendland2.cpp:41 *)
Definition cor_wendland0 (h : Q) : Q := if qltb h 1 then 1 - 2 * h + h * h else 0.
Definition cor_wendland1 (h : Q) : Q :=
  if qltb h 1 then 1 - (h * h) * (10 - h * (20 - h * (15 - h * 4))) else 0.
Definition cor_wendland2 (h : Q) : Q :=
  let h2 := h * h in
  if qltb h 1 then 1 - h2 * ((28#3) - h2 * (70 - h * ((448#3) - h * (140 - h * (64 - h * (35#3)))))) else 0.
(* CovLinear.cpp:41 = CovGC1.cpp:41 : field r, space dimension *)
Definition cor_linear (ndim : Z) (r h : Q) : Q :=
  if Z.eqb ndim 1 then r - h else if Z.eqb ndim 2 then r * gv_pi / 2 - h else r * 2 - h.
(* CovGC3.cpp:41 (the 2-D line multiplies by r twice, as the code does) *)
Definition cor_gc3 (ndim : Z) (r h : Q) : Q :=
  let h2 := h * h in let r3 := r * r * r in
  if Z.eqb ndim 1 then h2 * (h - 3 * r) + 2 * r3
  else if Z.eqb ndim 2 then h2 * (h - 9 * gv_pi * r / 8 * r) + 3 * gv_pi * r3 / 2
  else h2 * (h - 4 * r) + 8 * r3.
(* CovGC5.cpp:41 *)
Definition cor_gc5 (ndim : Z) (r h : Q) : Q :=
  let h2 := h * h in let r2 := r * r in let h4 := h2 * h2 in let r3 := r2 * r in
  - (if Z.eqb ndim 1 then h4 * (h - 5 * r) + r3 * (20 * h2 - 16 * r2)
     else if Z.eqb ndim 2 then h4 * (h - 225 * gv_pi * r / 128) + r3 * (75 * gv_pi * h2 / 8 - 15 * gv_pi * r2)
     else h4 * (h - 6 * r) + r3 * (40 * h2 - 96 * r2)).
(* CovCauchy.cpp:48 / CovGamma.cpp:50 for an integer third parameter n *)
Definition cor_cauchy (n : nat) (h : Q) : Q := / qpow (1 + h * h) n.
Definition cor_gamma (n : nat) (h : Q) : Q := / qpow (1 + h) n.
(* CovPower.cpp:41 with exponent 1: a - h, the constant a = evalCov(0) is an oracle (gamma functions) *)
Definition cor_power1 (a h : Q) : Q := if qltb 0 h then a - h else a.

(* ------------------------------------------------------------------ enclosures *)
Definition qi := (Q * Q)%type.           (* [lo, hi] *)
Definition qi_pt (x : Q) : qi := (x, x).
Definition qi_hull2 (a b : Q) : qi := (Qmin a b, Qmax a b).

(* CovBesselJ.cpp:47  J_nu(h) Gamma(nu+1) / (h/2)^nu = sum_k (-1)^k y^k / (k! (nu+1)_k),  y = h^2/4  (nu > 0):
   the Gamma factors cancel into the rational Pochhammer product, so the partial sums are exact in Q and only the
   SQUARED distance is needed.  term (k+1) = term k * y / ((k+1)(nu+k+1)). *)
Definition bessel_ratio_den (nu : Q) (k : Z) : Q := inject_Z (k + 1) * (nu + inject_Z k + 1).
Fixpoint bessel_term (nu y : Q) (k : nat) : Q :=
  match k with O => 1 | S j => bessel_term nu y j * y / bessel_ratio_den nu (Z.of_nat j) end.
Definition alt_sign (k : nat) (t : Q) : Q := if Nat.even k then t else - t.
Fixpoint bessel_sum (nu y : Q) (N : nat) : Q :=
  match N with O => 1 | S j => bessel_sum nu y j + alt_sign (S j) (bessel_term nu y (S j)) end.
Definition bessel_tiny : Q := 1 # (2 ^ 70).
(* state: k, t = term k, s = partial sum up to k.  Stops when the terms are non-increasing from k on (y <= den k) and
   term (k+1) <= 2^-70: every later partial sum then lies between s and s' (theorem C03_besselj_bracket) *)
Fixpoint bessel_loop (fuel : nat) (nu y : Q) (k : nat) (t s : Q) : option qi :=
  match fuel with
  | O => None
  | S f =>
      let t' := Qred (t * y / bessel_ratio_den nu (Z.of_nat k)) in
      let s' := Qred (s + alt_sign (S k) t') in
      if qleb y (bessel_ratio_den nu (Z.of_nat k)) && qleb t' bessel_tiny then Some (qi_hull2 s s')
      else bessel_loop f nu y (S k) t' s'
  end.
Definition bessel_enc (nu h2 : Q) : option qi :=
  if qltb 0 nu && qleb 0 h2 then bessel_loop 2000 nu (Qred (h2 / 4)) 0 1 1 else None.

(* ------------------------------------------------------------------ spectra on the sphere (Legendre coefficients) *)
(* VH::normalize(sp, 1): division by the sum of the absolute values *)
Fixpoint lsumabs (l : list Q) : Q := match l with [] => 0 | x :: r => Qabs x + lsumabs r end.
Definition normalize1 (l : list Q) : list Q :=
  let t := lsumabs l in if qltb 0 t then map (fun x => Qred (x / t)) l else l.
(* CovGeometric.cpp:52  rho^k *)
Definition spec_geometric (rho : Q) (n : nat) : list Q := map (fun k => qpow rho k) (seq 0 (S n)).
(* CovPoisson.cpp:56   exp(-lambda) lambda^k / k!  (the factor exp(-lambda) cancels in the normalisation) *)
Fixpoint qfact (k : nat) : Q := match k with O => 1 | S j => inject_Z (Z.of_nat (S j)) * qfact j end.
Definition spec_poisson (lambda : Q) (n : nat) : list Q := map (fun k => qpow lambda k / qfact k) (seq 0 (S n)).
(* CovLinearSph.cpp:52  sp[1] = 3/4, sp[k] = (2k+1)/(2k-3) ((k-2)/(k+1))^2 sp[k-2] for odd k, 0 for even k *)
Fixpoint spec_linsph_odd (j : nat) : Q :=   (* coefficient of degree k = 2j+1 *)
  match j with
  | O => 3 # 4
  | S i => let k := inject_Z (Z.of_nat (2 * (S i) + 1)) in
           (2 * k + 1) / (2 * k - 3) * (((k - 2) / (k + 1)) * ((k - 2) / (k + 1))) * spec_linsph_odd i
  end.
Definition spec_linearsph (n : nat) : list Q :=
  map (fun k => if Nat.even k then 0 else spec_linsph_odd (Nat.div2 k)) (seq 0 (S n)).
(* CovMatern.cpp:171 for an integer parameter mu: (2k+1) / (1 + scale^2 k (k+1))^(mu+1)  (1/(4 pi) cancels) *)
Definition spec_matern (mu : nat) (scale : Q) (n : nat) : list Q :=
  map (fun k => let kq := inject_Z (Z.of_nat k) in (2 * kq + 1) / qpow (1 + scale * scale * kq * (kq + 1)) (S mu)) (seq 0 (S n)).
(* CovMarkov.cpp:70  (2j+1) / (4 pi sum_i c_i (scale^2 j (j+1))^i)   (1/(4 pi) cancels); default coefficients (1) *)
Fixpoint qpoly (cs : list Q) (x : Q) : Q := match cs with [] => 0 | c :: r => c + x * qpoly r x end.
Definition spec_markov (coeffs : list Q) (scale : Q) (n : nat) : list Q :=
  map (fun j => let jq := inject_Z (Z.of_nat j) in (2 * jq + 1) / qpoly coeffs (scale * scale * jq * (jq + 1))) (seq 0 (S n)).
(* CovExponential.cpp:96 with e standing for exp(-nu pi), 0 <= e <= 1:
   sp0 = (1+e)/(2(1+nu^2)), sp1 = 3(1-e)/(2(4+nu^2)), sp_k = (2k+1)/(2k-3) (nu^2+(k-2)^2)/(nu^2+(k+1)^2) sp_(k-2) *)
Fixpoint spec_exp_gen (nu e : Q) (k : nat) : Q :=
  match k with
  | O => (1#2) * (1 + e) / (1 + nu * nu)
  | S O => (3#2) * (1 - e) / (4 + nu * nu)
  | S (S j as k1) =>
      let kq := inject_Z (Z.of_nat (S k1)) in
      (2 * kq + 1) / (2 * kq - 3) * (nu * nu + (kq - 2) * (kq - 2)) / (nu * nu + (kq + 1) * (kq + 1)) * spec_exp_gen nu e j
  end.
Definition sphere_spectrum (type : Z) (param scale : Q) (n : nat) : option (list Q) :=
  match type with
  | 28%Z => Some (normalize1 (spec_geometric scale n))
  | 29%Z => Some (normalize1 (spec_poisson param n))
  | 30%Z => Some (normalize1 (spec_linearsph n))
  | 27%Z => Some (normalize1 (spec_markov [1] scale n))
  | 7%Z => if Z.eqb (Zpos (Qden (Qred param))) 1 && qltb 0 param
           then Some (normalize1 (spec_matern (Z.to_nat (Qnum (Qred param))) scale n)) else None
  | _ => None
  end.
(* CovLinearSph.cpp:44  1 - 2 alpha / GV_PI *)
Definition cor_linearsph (alpha : Q) : Q := 1 - 2 * alpha / gv_pi.
Definition qi_add (a b : qi) : qi := (fst a + fst b, snd a + snd b).
Definition qi_sub (a b : qi) : qi := (fst a - snd b, snd a - fst b).
Definition qi_scale (c : Q) (a : qi) : qi :=
  if qleb 0 c then (c * fst a, c * snd a) else (c * snd a, c * fst a).
Definition qi_red (a : qi) : qi := (Qred (fst a), Qred (snd a)).

(* ECov codes (include/Enum/ECov.hpp) *)
Definition is_integer (q : Q) : bool := Z.eqb (Zpos (Qden (Qred q))) 1.
Definition q_to_nat (q : Q) : nat := Z.to_nat (Qnum (Qred q)).

(* polynomial / rational structures: exact value at a rational h.  None = not in the executable model *)
Definition cor_exact (type : Z) (param : Q) (ndim : Z) (field cov0 : Q) (h : Q) : option Q :=
  match type with
  | 0%Z => Some (cor_nugget h)
  | 2%Z => Some (cor_spherical h)
  | 4%Z => Some (cor_cubic h)
  | 8%Z => if is_integer param && qltb 0 param then Some (cor_gamma (q_to_nat param) h) else None
  | 9%Z => if is_integer param && qltb 0 param then Some (cor_cauchy (q_to_nat param) h) else None
  | 11%Z => Some (cor_linear ndim field h)
  | 12%Z => if qeqb param 1 then Some (cor_power1 cov0 h) else None
  | 13%Z => Some (cor_linear ndim field h)
  | 15%Z => Some (cor_gc3 ndim field h)
  | 16%Z => Some (cor_gc5 ndim field h)
  | 18%Z => Some (cor_triangle h)
  | 20%Z => Some (cor_reg1d h)
  | 21%Z => Some (cor_penta h)
  | 24%Z => Some (cor_wendland0 h)
  | 25%Z => Some (cor_wendland1 h)
  | 26%Z => Some (cor_wendland2 h)
  | _ => None
  end.

(* correlation at a normalised distance known by the bracket hlo <= h <= hhi (hlo = hhi when exact).
   Polynomial structures: hull of the values at both ends (equal when exact; otherwise the two values differ
   by less than Lipschitz * 2^-100).  Transcendental structures: rigorous interval evaluation (IEval.v). *)
Definition cor_enc (type : Z) (param : Q) (ndim : Z) (field cov0 : Q) (hlo hhi : Q) : option qi :=
  if Z.eqb type 6 then (if qeqb hlo hhi then bessel_enc param (hlo * hlo) else None) else
  match cor_exact type param ndim field cov0 hlo, cor_exact type param ndim field cov0 hhi with
  | Some a, Some b => Some (qi_hull2 a b)
  | _, _ => cor_trans type param ndim field hlo hhi
  end.

(* ------------------------------------------------------------------ one anisotropic basic structure *)
Record cova := {
  cv_type : Z;
  cv_param : Q;
  cv_scales : list Q;            (* Tensor::_radius *)
  cv_rot : list (list Q);        (* direct rotation matrix, rows (getAnisoRotMat(i,j)) *)
  cv_sill : list (list Q);
  cv_field : Q;                  (* CovContext::_field of the ACovFunc *)
  cv_cov0 : Q                    (* oracle: evalCov(0) (used by Power only) *)
}.

(* scadef for the structures where it is a literal (otherwise the harvested double is passed as an oracle) *)
Definition scadef_lit (type : Z) : option Q :=
  match type with
  | 1%Z | 19%Z => Some (2995732 # 1000000)
  | 3%Z => Some (1730818 # 1000000)
  | 5%Z => Some (20371 # 1000)
  | 20%Z => Some 2
  | 7%Z | 8%Z | 9%Z | 10%Z | 27%Z => None
  | _ => Some 1
  end.
Definition scadef_of (type : Z) (oracle : Q) : Q :=
  match scadef_lit type with Some s => s | None => oracle end.
(* hasRange (0 for the nugget effect: every range/scale setter returns at once) *)
Definition has_range (type : Z) : bool := negb (Z.eqb type 0).

Fixpoint qmaxl (l : list Q) (d : Q) : Q :=
  match l with [] => d | x :: r => qmaxl r (Qmax d x) end.
Definition list_max (l : list Q) : Q := match l with [] => 0 | x :: r => qmaxl r x end.

(* CovAniso::setRanges: scales = ranges / scadef ; setScales: radius = scales, field = scadef * max(scales) *)
Definition scales_of_ranges (scadef : Q) (ranges : list Q) : list Q := map (fun r => r / scadef) ranges.
Definition field_of_scales (scadef : Q) (scales : list Q) : Q := scadef * list_max scales.

(* increment p2 - p1 *)
Fixpoint vsub (a b : list Q) : list Q :=
  match a, b with x :: r, y :: s => (x - y) :: vsub r s | _, _ => [] end.
Fixpoint ldot (a b : list Q) : Q :=
  match a, b with x :: r, y :: s => x * y + ldot r s | _, _ => 0 end.
Definition col (M : list (list Q)) (j : nat) : list Q := map (fun row => nth j row 0) M.
(* w_i = (sum_j M[j][i] * d_j) / radius_i :   Tensor::_tensorInverse = rot^T with row i divided by radius i *)
Definition transformed (rot : list (list Q)) (scales : list Q) (d : list Q) : list Q :=
  map (fun p => ldot (col rot (fst p)) d / snd p) (combine (seq 0 (length scales)) scales).
Definition norm2 (w : list Q) : Q := ldot w w.
Definition h2_of (c : cova) (p1 p2 : list Q) : Q :=
  Qred (norm2 (transformed (cv_rot c) (cv_scales c) (vsub p2 p1))).

(* ------------------------------------------------------------------ CovCalcMode *)
Record cmode := { m_asvario : bool; m_unitary : bool; m_order : Z; m_active : option (list nat) }.
Definition mode_default : cmode := {| m_asvario := false; m_unitary := false; m_order := 0; m_active := None |}.

Definition NWGT (o : Z) : Z := o + 2.                       (* {2,3,4,5} *)
Definition NORWGT (o : Z) : Q := match o with 0%Z => 2 | 1%Z => 6 | 2%Z => 20 | _ => 70 end.
Definition COVWGT (o : Z) : list Q :=
  match o with
  | 0%Z => [2; -(2); 0; 0; 0]
  | 1%Z => [6; -(8); 2; 0; 0]
  | 2%Z => [20; -(30); 12; -(2); 0]
  | _ => [70; -(112); 56; -(16); 2]
  end.

Definition cor_at (c : cova) (ndim : Z) (h2 : Q) : option qi :=
  if Z.eqb (cv_type c) 6 then bessel_enc (cv_param c) h2 else
  let b := sqrt_bracket h2 in
  cor_enc (cv_type c) (cv_param c) ndim (cv_field c) (cv_cov0 c) (fst b) (snd b).

Definition omap2 {A B C} (f : A -> B -> C) (a : option A) (b : option B) : option C :=
  match a, b with Some x, Some y => Some (f x y) | _, _ => None end.

(* CovAniso::_evalCorFromH (noStatFactor = 1) *)
Definition cor_from_h2 (c : cova) (ndim : Z) (m : cmode) (h2 : Q) : option qi :=
  if Z.eqb (m_order m) 0 then
    if m_asvario m then omap2 qi_sub (cor_at c ndim 0) (cor_at c ndim h2) else cor_at c ndim h2
  else
    let o := m_order m in
    let terms := map (fun iw => option_map (qi_scale (nth (Z.to_nat iw) (COVWGT o) 0))
                                  (cor_at c ndim (h2 * ((1 + inject_Z iw) * (1 + inject_Z iw)))))
                     (map Z.of_nat (seq 1 (Z.to_nat (NWGT o) - 1))) in
    option_map (qi_scale (/ NORWGT o))
      (fold_left (fun acc t => omap2 qi_add acc t) terms (Some (qi_pt 0))).

Definition sill_at (c : cova) (i j : nat) : Q := nth j (nth i (cv_sill c) []) 0.

(* CovAniso::eval / eval0 *)
Definition apply_sill (c : cova) (m : cmode) (i j : nat) (v : option qi) : option qi :=
  option_map (fun v => if m_unitary m then v else qi_scale (sill_at c i j) v) v.
Definition cova_eval_h2 (c : cova) (ndim : Z) (m : cmode) (i j : nat) (h2 : Q) : option qi :=
  apply_sill c m i j (cor_from_h2 c ndim m h2).
Definition cova_eval (c : cova) (ndim : Z) (m : cmode) (i j : nat) (p1 p2 : list Q) : option qi :=
  cova_eval_h2 c ndim m i j (h2_of c p1 p2).
Definition cova_eval0 (c : cova) (ndim : Z) (m : cmode) (i j : nat) : option qi :=
  cova_eval_h2 c ndim m i j 0.

(* ACovAnisoList::eval : all structures, or the active list of the mode *)
Definition active_covs (cs : list cova) (m : cmode) : list (option cova) :=
  match m_active m with
  | None => map Some cs
  | Some l => map (fun k => nth_error cs k) l
  end.
Definition sum_opt (l : list (option qi)) : option qi :=
  fold_left (fun acc t => omap2 qi_add acc t) l (Some (qi_pt 0)).
Definition model_eval (cs : list cova) (ndim : Z) (m : cmode) (i j : nat) (p1 p2 : list Q) : option qi :=
  option_map qi_red (sum_opt (map (fun oc => match oc with Some c => cova_eval c ndim m i j p1 p2 | None => None end)
                       (active_covs cs m))).
Definition model_eval0 (cs : list cova) (ndim : Z) (m : cmode) (i j : nat) : option qi :=
  option_map qi_red (sum_opt (map (fun oc => match oc with Some c => cova_eval0 c ndim m i j | None => None end)
                       (active_covs cs m))).

(* ACov::evalCovMatrixSymmetric, every variable, every sample: row = ivar * n + iech.
   [cov_matrix_spec] is the definition; [cov_matrix] computes the correlation of every pair of points once and
   applies the sills afterwards (lemma cov_matrix_eq in Proofs.v) *)
Definition cov_matrix_spec (cs : list cova) (ndim : Z) (m : cmode) (nvar : nat) (pts : list (list Q)) : list (list (option qi)) :=
  flat_map (fun iv => map (fun p1 =>
     flat_map (fun jv => map (fun p2 => model_eval cs ndim m iv jv p1 p2) pts) (seq 0 nvar)) pts) (seq 0 nvar).
Definition pair_cors (cs : list cova) (ndim : Z) (m : cmode) (p1 p2 : list Q) : list (option (cova * option qi)) :=
  map (fun oc => match oc with Some c => Some (c, cor_from_h2 c ndim m (h2_of c p1 p2)) | None => None end) (active_covs cs m).
Definition cell_value (m : cmode) (iv jv : nat) (cell : list (option (cova * option qi))) : option qi :=
  option_map qi_red (sum_opt (map (fun x => match x with Some (c, v) => apply_sill c m iv jv v | None => None end) cell)).
Definition cov_matrix (cs : list cova) (ndim : Z) (m : cmode) (nvar : nat) (pts : list (list Q)) : list (list (option qi)) :=
  let cors := map (fun p1 => map (fun p2 => pair_cors cs ndim m p1 p2) pts) pts in
  flat_map (fun iv => map (fun row =>
     flat_map (fun jv => map (fun cell => cell_value m iv jv cell) row) (seq 0 nvar)) cors) (seq 0 nvar).

(* quadratic form x^T K x of a point-valued matrix (used by the refutation witness) *)
Definition lquad (K : list (list Q)) (x : list Q) : Q := ldot x (map (fun row => ldot row x) K).

(* C02 — property theorems only. They are stated on the kriging model of C01 (coq/C01/Model.v). *)
From Coq Require Import List Arith ZArith QArith Bool Permutation.
From Gst Require Import lib.QAux lib.LinAlgQ lib.PermSum C01.Model C01.Proofs C02.Proofs C02.Kriging C02.Basis.
Import ListNotations.
Local Open Scope Q_scope.

(* Exactness. If the right-hand side for variable v is column c of the left-hand side (the target coincides with the
   datum of equation c, no measurement error there, nugget counted at zero distance on both sides), the estimate is
   the datum and the estimation variance is C00 - Sigma_cc (zero as soon as those two agree). *)
Theorem C02_exact : forall k o v c,
  krige k = Some o -> (v < k_nvar k)%nat -> (c < nred k)%nat ->
  (forall a, (a < nred k)%nat -> r_of o v a == A_of o a c) ->
  est o v == vget (zext k) c + mean_of k v /\ var o v == get (k_c00 k) v v - A_of o c c.
Proof. exact krige_exact. Qed.
Print Assumptions C02_exact.

(* Unbiasedness: every row of the system holds; for a drift equation p this reads  sum_a f_l(x_a) lambda_a = f_l(x_0). *)
Theorem C02_unbiased : forall k o v p,
  krige k = Some o -> (v < k_nvar k)%nat -> (p < nred k)%nat ->
  sumn (nred k) (fun a => lhs_full k (nth p (active k) O) (nth a (active k) O) * w_of o v a)
  == rhs_full k (nth p (active k) O) v.
Proof. exact krige_row. Qed.
Print Assumptions C02_unbiased.

(* Shift: adding A.u to the centred data adds r.u to the estimate. With u supported on the drift equations A.u is a
   combination X.c of drift functions at the data and r.u the same combination X0.c at the target. *)
Theorem C02_drift_shift : forall k k' o o' v u,
  krige k = Some o -> krige k' = Some o' -> same_system k k' o o' -> (v < k_nvar k)%nat ->
  mean_of k' v == mean_of k v ->
  (forall a, (a < nred k)%nat -> vget (zext k') a == vget (zext k) a + fmv (nred k) (A_of o) u a) ->
  est o' v == est o v + fdot (nred k) (r_of o v) u.
Proof. exact krige_shift. Qed.
Print Assumptions C02_drift_shift.

Theorem C02_linear : forall k1 k2 k3 o1 o2 o3 v al be,
  krige k1 = Some o1 -> krige k2 = Some o2 -> krige k3 = Some o3 ->
  same_system k1 k2 o1 o2 -> same_system k1 k3 o1 o3 -> (v < k_nvar k1)%nat ->
  (forall a, (a < nred k1)%nat -> vget (zext k3) a == al * vget (zext k1) a + be * vget (zext k2) a) ->
  est o3 v - mean_of k3 v == al * (est o1 v - mean_of k1 v) + be * (est o2 v - mean_of k2 v).
Proof. exact krige_linear. Qed.
Print Assumptions C02_linear.

(* Relabelling: presenting the same equations in another order changes neither the estimate nor the variance. *)
Theorem C02_permutation : forall k k' o o' v pi,
  krige k = Some o -> krige k' = Some o' -> nred k' = nred k -> k_nvar k' = k_nvar k -> (v < k_nvar k)%nat ->
  is_perm (nred k) pi ->
  (forall a b, (a < nred k)%nat -> (b < nred k)%nat -> A_of o' a b == A_of o (nth a pi O) (nth b pi O)) ->
  (forall a, (a < nred k)%nat -> r_of o' v a == r_of o v (nth a pi O)) ->
  (forall a, (a < nred k)%nat -> vget (zext k') a == vget (zext k) (nth a pi O)) ->
  mean_of k' v == mean_of k v -> get (k_c00 k') v v == get (k_c00 k) v v ->
  est o' v == est o v /\ var o' v == var o v.
Proof. exact krige_permutation. Qed.
Print Assumptions C02_permutation.

(* Variance range (positive semi-definiteness is a hypothesis: it is C03's subject). *)
Theorem C02_variance_le_prior : forall k o v,
  krige k = Some o -> (v < k_nvar k)%nat ->
  (forall x, 0 <= fdot (nred k) x (fmv (nred k) (A_of o) x)) ->
  var o v <= get (k_c00 k) v v.
Proof. exact krige_var_le_prior. Qed.
Print Assumptions C02_variance_le_prior.

Theorem C02_variance_nonneg : forall k o v,
  krige k = Some o -> (v < k_nvar k)%nat ->
  (forall x t, 0 <= fdot (nred k) x (fmv (nred k) (A_of o) x) + 2 * t * fdot (nred k) (r_of o v) x + t * t * get (k_c00 k) v v) ->
  0 <= var o v.
Proof. exact krige_var_nonneg. Qed.
Print Assumptions C02_variance_nonneg.

(* Change of drift basis / translation. Two systems with the same covariance block, whose drift blocks are related by an
   invertible recombination M (X' = X.M at the data, x0' = Mt.x0 at the target; zero drift/drift blocks), have the same
   dual-form estimate r.y and the same r.w term of the variance, for ANY solutions. With a stationary covariance a
   translation of all coordinates leaves the covariance block and right-hand side unchanged and recombines the monomial
   drift basis by the matrix M(t) below, whose inverse is M(-t): hence translation invariance of estimate and variance
   for the constant + linear drift (C02_translation_matrix, C02_translation_basis). *)
Theorem C02_basis_change_estimate : forall (nd p : nat) (A A' : fmat) (r r' : fvec) (M N : fmat),
  (forall k l, (k < p)%nat -> (l < p)%nat -> fmul p M N k l == delta k l) ->
  fsym (nd + p) A -> fsym (nd + p) A' ->
  (forall a b, (a < nd)%nat -> (b < nd)%nat -> A' a b == A a b) ->
  (forall a k, (a < nd)%nat -> (k < p)%nat -> A' a (nd + k)%nat == sumn p (fun l => A a (nd + l)%nat * M l k)) ->
  (forall k l, (k < p)%nat -> (l < p)%nat -> A (nd + k)%nat (nd + l)%nat == 0) ->
  (forall k l, (k < p)%nat -> (l < p)%nat -> A' (nd + k)%nat (nd + l)%nat == 0) ->
  (forall a, (a < nd)%nat -> r' a == r a) ->
  (forall k, (k < p)%nat -> r' (nd + k)%nat == sumn p (fun l => M l k * r (nd + l)%nat)) ->
  forall w, (forall a, (a < nd + p)%nat -> fmv (nd + p) A w a == r a) ->
  forall z z' y y',
  (forall a, (a < nd)%nat -> z' a == z a) ->
  (forall k, (k < p)%nat -> z (nd + k)%nat == 0) -> (forall k, (k < p)%nat -> z' (nd + k)%nat == 0) ->
  (forall a, (a < nd + p)%nat -> fmv (nd + p) A y a == z a) ->
  (forall a, (a < nd + p)%nat -> fmv (nd + p) A' y' a == z' a) ->
  fdot (nd + p) r' y' == fdot (nd + p) r y.
Proof. exact basis_estimate. Qed.
Print Assumptions C02_basis_change_estimate.

Theorem C02_basis_change_variance : forall (nd p : nat) (A A' : fmat) (r r' : fvec) (M N : fmat),
  (forall k l, (k < p)%nat -> (l < p)%nat -> fmul p M N k l == delta k l) ->
  fsym (nd + p) A -> fsym (nd + p) A' ->
  (forall a b, (a < nd)%nat -> (b < nd)%nat -> A' a b == A a b) ->
  (forall a k, (a < nd)%nat -> (k < p)%nat -> A' a (nd + k)%nat == sumn p (fun l => A a (nd + l)%nat * M l k)) ->
  (forall k l, (k < p)%nat -> (l < p)%nat -> A (nd + k)%nat (nd + l)%nat == 0) ->
  (forall k l, (k < p)%nat -> (l < p)%nat -> A' (nd + k)%nat (nd + l)%nat == 0) ->
  (forall a, (a < nd)%nat -> r' a == r a) ->
  (forall k, (k < p)%nat -> r' (nd + k)%nat == sumn p (fun l => M l k * r (nd + l)%nat)) ->
  forall w, (forall a, (a < nd + p)%nat -> fmv (nd + p) A w a == r a) ->
  forall u, (forall a, (a < nd + p)%nat -> fmv (nd + p) A' u a == r' a) ->
  fdot (nd + p) r' u == fdot (nd + p) r w.
Proof. exact basis_variance. Qed.
Print Assumptions C02_basis_change_variance.

Theorem C02_translation_matrix : forall d t k l, (k < S d)%nat -> (l < S d)%nat ->
  fmul (S d) (Mtrans t) (Mtrans (fun i => - t i)) k l == delta k l.
Proof. exact Mtrans_inverse. Qed.
Print Assumptions C02_translation_matrix.

Theorem C02_translation_basis : forall d (x t : nat -> Q) k, (k < S d)%nat ->
  (if Nat.eqb k 0 then 1 else x (k - 1)%nat + t (k - 1)%nat)
  == sumn (S d) (fun l => (if Nat.eqb l 0 then 1 else x (l - 1)%nat) * Mtrans t l k).
Proof. exact basis_translate. Qed.
Print Assumptions C02_translation_basis.

(* Non-vacuity of C02_exact: target on datum 0 of the 1-D ordinary kriging below, weights e_0, zero variance *)
Definition ex2 : kcase :=
  let m (a : Q) : mat := [[a]] in
  {| k_nvar := 1; k_monos := [[]]; k_nfex := 0;
     k_samples := [ {| s_coord := [Some 0]; s_z := [Some 7]; s_verr := []; s_fext := [] |};
                    {| s_coord := [Some 1]; s_z := [Some 3]; s_verr := []; s_fext := [] |};
                    {| s_coord := [Some 3]; s_z := [Some 5]; s_verr := []; s_fext := [] |} ];
     k_means := [0]; k_tcoord := [0]; k_tfext := []; k_flag_verr := false;
     k_clhs := [ [m 4]; [m 2; m 4]; [m (1#2); m 1; m 4] ];
     k_crhs := [ [m 4]; [m 2]; [m (1#2)] ];
     k_c00 := m 4 |}.
Example C02_exact_nonvacuous :
  match krige ex2 with
  | Some o => forallb (fun a => qeqb (r_of o O a) (A_of o a O)) (seq 0 4) = true /\
              qeqb (est o O) 7 = true /\ qeqb (var o O) 0 = true
  | None => False
  end.
Proof. vm_compute. repeat split; reflexivity. Qed.

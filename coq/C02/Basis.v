(* C02: change of drift basis. If the drift functions of a second run are an invertible recombination of those of the
   first (X' = X.M at the data, x0' = Mt.x0 at the target) and everything else is the same, estimate and variance are
   unchanged. Translation of all coordinates is the instance where M is the matrix expressing the translated monomials
   in the original ones; for the constant + linear basis that matrix and its inverse are given explicitly below. *)
From Coq Require Import List Arith ZArith QArith Bool Lqa Lia.
From Gst Require Import lib.QAux lib.LinAlgQ C01.Model C01.Proofs C02.Proofs C02.Kriging.
Import ListNotations.
Local Open Scope Q_scope.

Section BasisChange.
  Variables nd p : nat.                   (* data equations, drift equations *)
  Variables A A' : fmat.                  (* (nd+p) x (nd+p) systems *)
  Variables r r' : fvec.
  Variables M N : fmat.                   (* p x p, N = inverse of M *)
  Hypothesis MN : forall k l, (k < p)%nat -> (l < p)%nat -> fmul p M N k l == delta k l.
  Hypothesis Asym : fsym (nd + p) A.
  Hypothesis A'sym : fsym (nd + p) A'.
  (* same covariance block *)
  Hypothesis Hcov : forall a b, (a < nd)%nat -> (b < nd)%nat -> A' a b == A a b.
  (* drift block recombined by M; zero drift/drift block *)
  Hypothesis Hdrift : forall a k, (a < nd)%nat -> (k < p)%nat ->
    A' a (nd + k)%nat == sumn p (fun l => A a (nd + l)%nat * M l k).
  Hypothesis Hzero : forall k l, (k < p)%nat -> (l < p)%nat -> A (nd + k)%nat (nd + l)%nat == 0.
  Hypothesis Hzero' : forall k l, (k < p)%nat -> (l < p)%nat -> A' (nd + k)%nat (nd + l)%nat == 0.
  (* right-hand sides *)
  Hypothesis Hr : forall a, (a < nd)%nat -> r' a == r a.
  Hypothesis Hr0 : forall k, (k < p)%nat -> r' (nd + k)%nat == sumn p (fun l => M l k * r (nd + l)%nat).

  (* a solution of the first system, transported *)
  Variable w : fvec.
  Hypothesis Hw : forall a, (a < nd + p)%nat -> fmv (nd + p) A w a == r a.
  Definition w' : fvec := fun a =>
    if Nat.ltb a nd then w a else sumn p (fun l => N (a - nd)%nat l * w (nd + l)%nat).

  Lemma fmv_split B x a :
    fmv (nd + p) B x a == sumn nd (fun b => B a b * x b) + sumn p (fun k => B a (nd + k)%nat * x (nd + k)%nat).
  Proof. unfold fmv. rewrite sumn_split. reflexivity. Qed.

  Lemma w'_data a : (a < nd)%nat -> w' a = w a.
  Proof. intro H. unfold w'. apply Nat.ltb_lt in H. rewrite H. reflexivity. Qed.
  Lemma w'_drift k : w' (nd + k)%nat == sumn p (fun l => N k l * w (nd + l)%nat).
  Proof.
    unfold w'. assert (H : Nat.ltb (nd + k) nd = false) by (apply Nat.ltb_ge; lia). rewrite H.
    replace (nd + k - nd)%nat with k by lia. reflexivity.
  Qed.

  (* X M (N mu) = X mu *)
  Lemma recombine (f : nat -> Q) :
    sumn p (fun k => sumn p (fun l => f l * M l k) * sumn p (fun m => N k m * w (nd + m)%nat))
    == sumn p (fun l => f l * w (nd + l)%nat).
  Proof.
    rewrite (sumn_ext p _ (fun k => sumn p (fun l => sumn p (fun m => f l * M l k * N k m * w (nd + m)%nat)))).
    2:{ intros k _. rewrite <- sumn_scal_r. apply sumn_ext. intros l _.
        rewrite <- sumn_scal_l. apply sumn_ext. intros; ring. }
    rewrite sumn_swap. apply sumn_ext. intros l Hl.
    rewrite sumn_swap.
    rewrite (sumn_ext p _ (fun m => f l * (fmul p M N l m) * w (nd + m)%nat)).
    2:{ intros m _. unfold fmul. rewrite <- sumn_scal_l, <- sumn_scal_r. apply sumn_ext. intros; ring. }
    rewrite (sumn_ext p _ (fun m => delta l m * (f l * w (nd + m)%nat))).
    2:{ intros m Hm. rewrite (MN l m Hl Hm). ring. }
    rewrite (sumn_delta_l p l (fun m => f l * w (nd + m)%nat) Hl). reflexivity.
  Qed.

  Lemma w'_solves a : (a < nd + p)%nat -> fmv (nd + p) A' w' a == r' a.
  Proof.
    intro Ha. rewrite fmv_split.
    destruct (Nat.ltb a nd) eqn:E.
    - apply Nat.ltb_lt in E. rewrite (Hr a E). rewrite <- (Hw a Ha). rewrite fmv_split.
      apply Qplus_comp.
      + apply sumn_ext. intros b Hb. rewrite (Hcov a b E Hb), (w'_data b Hb). reflexivity.
      + rewrite (sumn_ext p _ (fun k => sumn p (fun l => A a (nd + l)%nat * M l k) * sumn p (fun m => N k m * w (nd + m)%nat))).
        2:{ intros k Hk. rewrite (Hdrift a k E Hk), w'_drift. reflexivity. }
        apply recombine.
    - apply Nat.ltb_ge in E. set (k := (a - nd)%nat). assert (Ea : a = (nd + k)%nat) by (unfold k; lia).
      assert (Hk : (k < p)%nat) by (unfold k; lia). rewrite Ea.
      rewrite (Hr0 k Hk).
      (* drift/drift block is zero; the data part is (X M)^t lambda = M^t (X^t lambda) *)
      rewrite (sumn_zero p) by (intros l Hl; rewrite (Hzero' k l Hk Hl); ring).
      rewrite Qplus_0_r.
      rewrite (sumn_ext nd _ (fun b => sumn p (fun l => M l k * (A (nd + l)%nat b * w b)))).
      2:{ intros b Hb. rewrite (w'_data b Hb).
          rewrite (A'sym (nd + k)%nat b) by lia. rewrite (Hdrift b k Hb Hk).
          rewrite <- sumn_scal_r. apply sumn_ext. intros l Hl. rewrite (Asym b (nd + l)%nat) by lia. ring. }
      rewrite sumn_swap. apply sumn_ext. intros l Hl.
      rewrite sumn_scal_l. apply Qmult_comp; [reflexivity|].
      (* row nd+l of the first system *)
      rewrite <- (Hw (nd + l)%nat) by lia. rewrite fmv_split.
      rewrite (sumn_zero p (fun k0 => A (nd + l)%nat (nd + k0)%nat * w (nd + k0)%nat)) by (intros m Hm; rewrite (Hzero l m Hl Hm); ring).
      ring.
  Qed.

  (* centred data: same at the data equations, zero at the drift equations *)
  Variables z z' y y' : fvec.
  Hypothesis Hz : forall a, (a < nd)%nat -> z' a == z a.
  Hypothesis Hz0 : forall k, (k < p)%nat -> z (nd + k)%nat == 0.
  Hypothesis Hz0' : forall k, (k < p)%nat -> z' (nd + k)%nat == 0.
  Hypothesis Hy : forall a, (a < nd + p)%nat -> fmv (nd + p) A y a == z a.
  Hypothesis Hy' : forall a, (a < nd + p)%nat -> fmv (nd + p) A' y' a == z' a.

  Lemma basis_estimate : fdot (nd + p) r' y' == fdot (nd + p) r y.
  Proof.
    rewrite (sym_solve_swap (nd + p) A' w' r' y' z' A'sym w'_solves Hy').
    rewrite (sym_solve_swap (nd + p) A w r y z Asym Hw Hy).
    unfold fdot. rewrite !sumn_split.
    rewrite (sumn_zero p (fun i => w' (nd + i)%nat * z' (nd + i)%nat)) by (intros k Hk; rewrite (Hz0' k Hk); ring).
    rewrite (sumn_zero p (fun i => w (nd + i)%nat * z (nd + i)%nat)) by (intros k Hk; rewrite (Hz0 k Hk); ring).
    apply Qplus_comp; [|reflexivity]. apply sumn_ext. intros a Ha. rewrite (w'_data a Ha), (Hz a Ha). reflexivity.
  Qed.

  Lemma basis_variance (u : fvec) :
    (forall a, (a < nd + p)%nat -> fmv (nd + p) A' u a == r' a) ->
    fdot (nd + p) r' u == fdot (nd + p) r w.
  Proof.
    intro Hu.
    (* r'.u = w'.r' (swap with itself) and w'.r' = w.r by the recombination *)
    rewrite (sym_solve_swap (nd + p) A' w' r' u r' A'sym w'_solves Hu).
    unfold fdot. rewrite !sumn_split. apply Qplus_comp.
    - apply sumn_ext. intros a Ha. rewrite (w'_data a Ha), (Hr a Ha). ring.
    - rewrite (sumn_ext p _ (fun k => sumn p (fun l => r (nd + l)%nat * M l k) * sumn p (fun m => N k m * w (nd + m)%nat))).
      2:{ intros k Hk. rewrite w'_drift, (Hr0 k Hk).
          rewrite (sumn_ext p (fun l => M l k * r (nd + l)%nat) (fun l => r (nd + l)%nat * M l k)) by (intros; ring). ring. }
      rewrite (recombine (fun l => r (nd + l)%nat)). reflexivity.
  Qed.
End BasisChange.

(* The translation matrix of the basis (1, x_1, ..., x_d): f(x + t) = f(x).M(t) with M(t) = [[1, t],[0, I]] and inverse M(-t). *)
Definition Mtrans (t : nat -> Q) : fmat :=
  fun l k => if Nat.eqb l 0 then (if Nat.eqb k 0 then 1 else t (k - 1)%nat) else delta l k.

Lemma Mtrans_inverse d t k l : (k < S d)%nat -> (l < S d)%nat ->
  fmul (S d) (Mtrans t) (Mtrans (fun i => - t i)) k l == delta k l.
Proof.
  intros Hk Hl. unfold fmul.
  destruct k as [|k'].
  - (* first row: (1, t) . column l of M(-t) *)
    rewrite (sumn_ext (S d) _ (fun m => (if Nat.eqb m 0 then 1 else t (m - 1)%nat) * Mtrans (fun i => - t i) m l)) by (intros; reflexivity).
    destruct l as [|l'].
    + rewrite (sumn_ext (S d) _ (fun m => delta O m * 1)).
      * rewrite (sumn_delta_l (S d) O (fun _ => 1)) by lia. reflexivity.
      * intros m _. unfold Mtrans, delta. destruct m; cbn [Nat.eqb]; ring.
    + (* sum = -t l' (m = 0) + t l' (m = S l') *)
      rewrite (sumn_ext (S d) _ (fun m => delta O m * (- t l') + delta (S l') m * t l')).
      * rewrite sumn_add. rewrite (sumn_delta_l (S d) O (fun _ => - t l')) by lia.
        rewrite (sumn_delta_l (S d) (S l') (fun _ => t l')) by lia. unfold delta. cbn [Nat.eqb]. ring.
      * intros m _. unfold Mtrans. destruct m as [|m']; cbn [Nat.eqb].
        -- unfold delta; cbn [Nat.eqb]. replace (S l' - 1)%nat with l' by lia. ring.
        -- replace (S m' - 1)%nat with m' by lia. unfold delta. cbn [Nat.eqb].
           destruct (Nat.eqb_spec l' m') as [E|E]; destruct (Nat.eqb_spec m' l') as [E2|E2]; try lia; subst; ring.
  - (* other rows are those of the identity *)
    rewrite (sumn_ext (S d) _ (fun m => delta (S k') m * Mtrans (fun i => - t i) m l)).
    + rewrite (sumn_delta_l (S d) (S k') (fun m => Mtrans (fun i => - t i) m l)) by lia.
      unfold Mtrans. cbn [Nat.eqb]. reflexivity.
    + intros m _. unfold Mtrans at 1. cbn [Nat.eqb]. reflexivity.
Qed.

(* the translated basis is the original one recombined by Mtrans *)
Lemma basis_translate d (x t : nat -> Q) k : (k < S d)%nat ->
  (if Nat.eqb k 0 then 1 else x (k - 1)%nat + t (k - 1)%nat)
  == sumn (S d) (fun l => (if Nat.eqb l 0 then 1 else x (l - 1)%nat) * Mtrans t l k).
Proof.
  intro Hk. destruct k as [|k'].
  - rewrite (sumn_ext (S d) _ (fun l => delta O l * 1)).
    + rewrite (sumn_delta_l (S d) O (fun _ => 1)) by lia. reflexivity.
    + intros l _. unfold Mtrans, delta. destruct l; cbn [Nat.eqb]; ring.
  - cbn [Nat.eqb]. replace (S k' - 1)%nat with k' by lia.
    rewrite (sumn_ext (S d) _ (fun l => delta O l * t k' + delta (S k') l * x k')).
    + rewrite sumn_add. rewrite (sumn_delta_l (S d) O (fun _ => t k')) by lia.
      rewrite (sumn_delta_l (S d) (S k') (fun _ => x k')) by lia. ring.
    + intros l _. unfold Mtrans. destruct l as [|l']; cbn [Nat.eqb].
      * unfold delta; cbn [Nat.eqb]. replace (S k' - 1)%nat with k' by lia. ring.
      * replace (S l' - 1)%nat with l' by lia. unfold delta. cbn [Nat.eqb].
        destruct (Nat.eqb_spec k' l') as [E|E]; destruct (Nat.eqb_spec l' k') as [E2|E2]; try lia; subst; ring.
Qed.

(* C02: the algebraic lemmas instantiated on the outputs of the kriging model *)
From Coq Require Import List Arith ZArith QArith Bool Lqa Lia Permutation.
From Gst Require Import lib.QAux lib.LinAlgQ lib.PermSum C01.Model C01.Proofs C02.Proofs.
Import ListNotations.
Local Open Scope Q_scope.

Definition est (o : kout) (v : nat) : Q := nth v (o_estim o) 0.
Definition var (o : kout) (v : nat) : Q := nth v (o_var o) 0.
Definition A_of (o : kout) : fmat := get (o_lhs o).
Definition r_of (o : kout) (v : nat) : fvec := fun a => get (o_rhs o) a v.
Definition w_of (o : kout) (v : nat) : fvec := fun a => get (o_wgt o) a v.

Lemma A_sym k o : krige k = Some o -> fsym (nred k) (A_of o).
Proof.
  intro H. destruct (krige_fields k o H) as [WZ [_ [_ [_ [Hl _]]]]]. unfold A_of. rewrite Hl. apply lhs_c_sym.
Qed.

(* exactness *)
Lemma krige_exact k o v c :
  krige k = Some o -> (v < k_nvar k)%nat -> (c < nred k)%nat ->
  (forall a, (a < nred k)%nat -> r_of o v a == A_of o a c) ->
  est o v == vget (zext k) c + mean_of k v /\ var o v == get (k_c00 k) v v - A_of o c c.
Proof.
  intros H Hv Hc Hr. split.
  - unfold est. rewrite (krige_estim k o v H Hv).
    rewrite (exact_estimate (nred k) (A_of o) (A_sym k o H) c (r_of o v) (vget (o_zam o)) (vget (zext k)) Hc Hr
               (krige_dual_solves k o H)). reflexivity.
  - unfold var. rewrite (krige_var k o v H Hv).
    rewrite (exact_variance (nred k) (A_of o) (A_sym k o H) c (r_of o v) (w_of o v) Hc Hr
               (fun a Ha => krige_weights_solve k o H a v Ha Hv)). reflexivity.
Qed.

(* unbiasedness: row p of the system, read for a drift equation *)
Lemma krige_row k o v p :
  krige k = Some o -> (v < k_nvar k)%nat -> (p < nred k)%nat ->
  sumn (nred k) (fun a => lhs_full k (nth p (active k) O) (nth a (active k) O) * w_of o v a)
  == rhs_full k (nth p (active k) O) v.
Proof.
  intros H Hv Hp. pose proof (krige_weights_solve k o H p v Hp Hv) as E.
  destruct (krige_fields k o H) as [WZ [_ [_ [_ [Hl [Hr _]]]]]].
  rewrite Hr, get_rhs_c in E by assumption. rewrite <- E.
  unfold fmul. apply sumn_ext. intros a Ha. rewrite Hl, get_lhs_c by assumption. reflexivity.
Qed.

(* two runs sharing the same system (same neighbourhood, model and target; possibly different data) *)
Definition same_system (k k' : kcase) (o o' : kout) : Prop :=
  nred k' = nred k /\ k_nvar k' = k_nvar k /\
  (forall a b, (a < nred k)%nat -> (b < nred k)%nat -> A_of o' a b == A_of o a b) /\
  (forall a v, (a < nred k)%nat -> (v < k_nvar k)%nat -> r_of o' v a == r_of o v a).

Lemma krige_shift k k' o o' v u :
  krige k = Some o -> krige k' = Some o' -> same_system k k' o o' -> (v < k_nvar k)%nat ->
  mean_of k' v == mean_of k v ->
  (forall a, (a < nred k)%nat -> vget (zext k') a == vget (zext k) a + fmv (nred k) (A_of o) u a) ->
  est o' v == est o v + fdot (nred k) (r_of o v) u.
Proof.
  intros H H' [En [Ev [EA Er]]] Hv Hm Hz.
  assert (Hv' : (v < k_nvar k')%nat) by (rewrite Ev; exact Hv).
  unfold est. rewrite (krige_estim k' o' v H' Hv'), (krige_estim k o v H Hv). rewrite En, Hm.
  assert (E : fdot (nred k) (fun a => get (o_rhs o') a v) (vget (o_zam o')) ==
              fdot (nred k) (r_of o v) (vget (o_zam o')))
    by (apply fdot_ext; intros l Hl; [apply (Er l v Hl Hv)|reflexivity]).
  rewrite E.
  rewrite (shift_estimate (nred k) (A_of o) (A_sym k o H) (r_of o v) (w_of o v)
             (vget (o_zam o)) (vget (o_zam o')) (vget (zext k)) (vget (zext k')) u).
  - unfold r_of. ring.
  - intros a Ha. apply (krige_weights_solve k o H a v Ha Hv).
  - apply (krige_dual_solves k o H).
  - intros a Ha. pose proof (krige_dual_solves k' o' H' a) as D. rewrite En in D. specialize (D Ha).
    rewrite <- D. apply fmv_ext; intros l Hl; [symmetry; apply (EA a l Ha Hl)|reflexivity].
  - exact Hz.
Qed.

Lemma krige_linear k1 k2 k3 o1 o2 o3 v al be :
  krige k1 = Some o1 -> krige k2 = Some o2 -> krige k3 = Some o3 ->
  same_system k1 k2 o1 o2 -> same_system k1 k3 o1 o3 -> (v < k_nvar k1)%nat ->
  (forall a, (a < nred k1)%nat -> vget (zext k3) a == al * vget (zext k1) a + be * vget (zext k2) a) ->
  est o3 v - mean_of k3 v == al * (est o1 v - mean_of k1 v) + be * (est o2 v - mean_of k2 v).
Proof.
  intros H1 H2 H3 [En2 [Ev2 [EA2 Er2]]] [En3 [Ev3 [EA3 Er3]]] Hv Hz.
  assert (Hv2 : (v < k_nvar k2)%nat) by (rewrite Ev2; exact Hv).
  assert (Hv3 : (v < k_nvar k3)%nat) by (rewrite Ev3; exact Hv).
  unfold est. rewrite (krige_estim k1 o1 v H1 Hv), (krige_estim k2 o2 v H2 Hv2), (krige_estim k3 o3 v H3 Hv3).
  rewrite En2, En3.
  assert (E2 : fdot (nred k1) (fun a => get (o_rhs o2) a v) (vget (o_zam o2)) == fdot (nred k1) (r_of o1 v) (vget (o_zam o2)))
    by (apply fdot_ext; intros l Hl; [apply (Er2 l v Hl Hv)|reflexivity]).
  assert (E3 : fdot (nred k1) (fun a => get (o_rhs o3) a v) (vget (o_zam o3)) == fdot (nred k1) (r_of o1 v) (vget (o_zam o3)))
    by (apply fdot_ext; intros l Hl; [apply (Er3 l v Hl Hv)|reflexivity]).
  rewrite E2, E3.
  rewrite (linear_estimate (nred k1) (A_of o1) (A_sym k1 o1 H1) (r_of o1 v) (w_of o1 v)
             (vget (o_zam o1)) (vget (o_zam o2)) (vget (o_zam o3)) (vget (zext k1)) (vget (zext k2)) (vget (zext k3)) al be).
  - unfold r_of. ring.
  - intros a Ha. apply (krige_weights_solve k1 o1 H1 a v Ha Hv).
  - apply (krige_dual_solves k1 o1 H1).
  - intros a Ha. pose proof (krige_dual_solves k2 o2 H2 a) as D. rewrite En2 in D. specialize (D Ha).
    rewrite <- D. apply fmv_ext; intros l Hl; [symmetry; apply (EA2 a l Ha Hl)|reflexivity].
  - intros a Ha. pose proof (krige_dual_solves k3 o3 H3 a) as D. rewrite En3 in D. specialize (D Ha).
    rewrite <- D. apply fmv_ext; intros l Hl; [symmetry; apply (EA3 a l Ha Hl)|reflexivity].
  - exact Hz.
Qed.

(* relabelling: the second run sees the same equations in another order *)
Lemma krige_permutation k k' o o' v pi :
  krige k = Some o -> krige k' = Some o' -> nred k' = nred k -> k_nvar k' = k_nvar k -> (v < k_nvar k)%nat ->
  is_perm (nred k) pi ->
  (forall a b, (a < nred k)%nat -> (b < nred k)%nat -> A_of o' a b == A_of o (nth a pi O) (nth b pi O)) ->
  (forall a, (a < nred k)%nat -> r_of o' v a == r_of o v (nth a pi O)) ->
  (forall a, (a < nred k)%nat -> vget (zext k') a == vget (zext k) (nth a pi O)) ->
  mean_of k' v == mean_of k v -> get (k_c00 k') v v == get (k_c00 k) v v ->
  est o' v == est o v /\ var o' v == var o v.
Proof.
  intros H H' En Ev Hv P HA Hr Hz Hm Hc.
  assert (Hv' : (v < k_nvar k')%nat) by (rewrite Ev; exact Hv).
  assert (S' : fsym (nred k) (A_of o')) by (rewrite <- En; apply (A_sym k' o' H')).
  split.
  - unfold est. rewrite (krige_estim k' o' v H' Hv'), (krige_estim k o v H Hv). rewrite En, Hm.
    apply Qplus_comp; [|reflexivity].
    apply (permuted_estimate (nred k) (A_of o) (A_of o') (r_of o v) (r_of o' v) (vget (o_zam o)) (vget (o_zam o'))
             (vget (zext k)) (vget (zext k')) (w_of o v) pi (A_sym k o H) S' P HA Hr Hz).
    + intros a Ha. apply (krige_weights_solve k o H a v Ha Hv).
    + apply (krige_dual_solves k o H).
    + intros a Ha. pose proof (krige_dual_solves k' o' H' a) as D. rewrite En in D. exact (D Ha).
  - unfold var. rewrite (krige_var k' o' v H' Hv'), (krige_var k o v H Hv). rewrite En, Hc.
    apply Qplus_comp; [reflexivity|]. apply Qopp_comp.
    apply (permuted_variance (nred k) (A_of o) (A_of o') (r_of o v) (r_of o' v) (w_of o v) (w_of o' v) pi (A_sym k o H) S' P HA Hr).
    + intros a Ha. apply (krige_weights_solve k o H a v Ha Hv).
    + intros a Ha. pose proof (krige_weights_solve k' o' H' a v) as D. rewrite En in D. exact (D Ha Hv').
Qed.

Lemma krige_var_le_prior k o v :
  krige k = Some o -> (v < k_nvar k)%nat ->
  (forall x, 0 <= fdot (nred k) x (fmv (nred k) (A_of o) x)) ->
  var o v <= get (k_c00 k) v v.
Proof.
  intros H Hv Hpsd. unfold var. rewrite (krige_var k o v H Hv).
  apply (var_le_prior (nred k) (A_of o) (r_of o v) (w_of o v) (get (k_c00 k) v v) Hpsd).
  intros a Ha. apply (krige_weights_solve k o H a v Ha Hv).
Qed.

Lemma krige_var_nonneg k o v :
  krige k = Some o -> (v < k_nvar k)%nat ->
  (forall x t, 0 <= fdot (nred k) x (fmv (nred k) (A_of o) x) + 2 * t * fdot (nred k) (r_of o v) x + t * t * get (k_c00 k) v v) ->
  0 <= var o v.
Proof.
  intros H Hv Hpsd. unfold var. rewrite (krige_var k o v H Hv).
  apply (var_nonneg (nred k) (A_of o) (r_of o v) (w_of o v) (get (k_c00 k) v v) Hpsd).
  intros a Ha. apply (krige_weights_solve k o H a v Ha Hv).
Qed.

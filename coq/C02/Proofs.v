(* C02 proofs: exactness, unbiasedness, shift, linearity, permutation, variance range — all consequences of
   "the returned vectors solve a symmetric system" (C01). *)
From Coq Require Import List Arith ZArith QArith Bool Lqa Lia Permutation.
From Gst Require Import lib.QAux lib.LinAlgQ lib.PermSum C01.Model C01.Proofs.
Import ListNotations.
Local Open Scope Q_scope.

Section Algebra.
  Variable n : nat.
  Variable A : fmat.
  Hypothesis Asym : fsym n A.

  (* column c of a symmetric matrix, dotted with a solution, picks the c-th right-hand side *)
  Lemma col_dot_solution c y z :
    (c < n)%nat -> (forall a, (a < n)%nat -> fmv n A y a == z a) ->
    fdot n (fun a => A a c) y == z c.
  Proof.
    intros Hc Hy. rewrite <- (Hy c Hc). unfold fdot, fmv. apply sumn_ext.
    intros l Hl. rewrite (Asym l c Hl Hc). reflexivity.
  Qed.

  (* exactness: the right-hand side is column c of the left-hand side *)
  Lemma exact_estimate c r y z :
    (c < n)%nat -> (forall a, (a < n)%nat -> r a == A a c) ->
    (forall a, (a < n)%nat -> fmv n A y a == z a) ->
    fdot n r y == z c.
  Proof.
    intros Hc Hr Hy. rewrite (fdot_ext n r (fun a => A a c) y y) by (intros; try reflexivity; apply Hr; assumption).
    apply col_dot_solution; assumption.
  Qed.

  Lemma exact_variance c r w :
    (c < n)%nat -> (forall a, (a < n)%nat -> r a == A a c) ->
    (forall a, (a < n)%nat -> fmv n A w a == r a) ->
    fdot n r w == A c c.
  Proof.
    intros Hc Hr Hw. rewrite (exact_estimate c r w r Hc Hr Hw). apply Hr; exact Hc.
  Qed.

  (* shift: adding A.u to the data adds r.u to the (dual-form) estimate *)
  Lemma shift_estimate r w y y' z z' u :
    (forall a, (a < n)%nat -> fmv n A w a == r a) ->
    (forall a, (a < n)%nat -> fmv n A y a == z a) ->
    (forall a, (a < n)%nat -> fmv n A y' a == z' a) ->
    (forall a, (a < n)%nat -> z' a == z a + fmv n A u a) ->
    fdot n r y' == fdot n r y + fdot n r u.
  Proof.
    intros Hw Hy Hy' Hz.
    rewrite (sym_solve_swap n A w r y' z' Asym Hw Hy').
    rewrite (sym_solve_swap n A w r y z Asym Hw Hy).
    rewrite (fdot_ext n w w z' (fun a => z a + fmv n A u a)) by (intros; try reflexivity; apply Hz; assumption).
    unfold fdot at 1.
    rewrite (sumn_ext n _ (fun l => w l * z l + w l * fmv n A u l)) by (intros; ring).
    rewrite sumn_add. apply Qplus_comp; [reflexivity|].
    (* w . (A u) = (A w) . u = r . u *)
    change (sumn n (fun l => w l * fmv n A u l)) with (fdot n w (fmv n A u)).
    rewrite fdot_fmv. apply fdot_ext; [|intros; reflexivity].
    intros l Hl. rewrite <- (Hw l Hl). unfold fmv, ftr. apply sumn_ext. intros m Hm. rewrite (Asym m l Hm Hl). reflexivity.
  Qed.

  (* linearity of the dual-form estimate in the data *)
  Lemma linear_estimate r w y1 y2 y3 z1 z2 z3 al be :
    (forall a, (a < n)%nat -> fmv n A w a == r a) ->
    (forall a, (a < n)%nat -> fmv n A y1 a == z1 a) ->
    (forall a, (a < n)%nat -> fmv n A y2 a == z2 a) ->
    (forall a, (a < n)%nat -> fmv n A y3 a == z3 a) ->
    (forall a, (a < n)%nat -> z3 a == al * z1 a + be * z2 a) ->
    fdot n r y3 == al * fdot n r y1 + be * fdot n r y2.
  Proof.
    intros Hw H1 H2 H3 Hz.
    rewrite (sym_solve_swap n A w r y1 z1 Asym Hw H1), (sym_solve_swap n A w r y2 z2 Asym Hw H2),
            (sym_solve_swap n A w r y3 z3 Asym Hw H3).
    rewrite (fdot_ext n w w z3 (fun a => al * z1 a + be * z2 a)) by (intros; try reflexivity; apply Hz; assumption).
    unfold fdot.
    rewrite (sumn_ext n _ (fun l => al * (w l * z1 l) + be * (w l * z2 l))) by (intros; ring).
    rewrite sumn_add, !sumn_scal_l. reflexivity.
  Qed.

  (* variance range *)
  Lemma var_le_prior r w c00 :
    (forall x, 0 <= fdot n x (fmv n A x)) ->
    (forall a, (a < n)%nat -> fmv n A w a == r a) ->
    c00 - fdot n r w <= c00.
  Proof.
    intros Hpsd Hw.
    assert (E : fdot n r w == fdot n w (fmv n A w)).
    { rewrite fdot_comm. apply fdot_ext; [intros; reflexivity|]. intros l Hl. symmetry. apply Hw; exact Hl. }
    pose proof (Hpsd w). lra.
  Qed.

  Lemma var_nonneg r w c00 :
    (forall x t, 0 <= fdot n x (fmv n A x) + 2 * t * fdot n r x + t * t * c00) ->
    (forall a, (a < n)%nat -> fmv n A w a == r a) ->
    0 <= c00 - fdot n r w.
  Proof.
    intros Hpsd Hw.
    assert (E : fdot n w (fmv n A w) == fdot n r w).
    { rewrite fdot_comm. apply fdot_ext; [|intros; reflexivity]. intros l Hl. apply Hw; exact Hl. }
    pose proof (Hpsd (fun a => - w a) 1) as H.
    assert (E1 : fdot n (fun a => - w a) (fmv n A (fun a => - w a)) == fdot n w (fmv n A w)).
    { unfold fdot, fmv. apply sumn_ext. intros l _.
      rewrite (sumn_ext n (fun l0 => A l l0 * - w l0) (fun l0 => (-(1)) * (A l l0 * w l0))) by (intros; ring).
      rewrite sumn_scal_l. ring. }
    assert (E2 : fdot n r (fun a => - w a) == - fdot n r w).
    { unfold fdot. rewrite (sumn_ext n _ (fun l => (-(1)) * (r l * w l))) by (intros; ring). rewrite sumn_scal_l. ring. }
    rewrite E1, E2, E in H. lra.
  Qed.
End Algebra.

(* ---- permutation of the equations ---- *)
Lemma permuted_estimate n A A' r r' y y' z z' w pi :
  fsym n A -> fsym n A' -> is_perm n pi ->
  (forall a b, (a < n)%nat -> (b < n)%nat -> A' a b == A (nth a pi O) (nth b pi O)) ->
  (forall a, (a < n)%nat -> r' a == r (nth a pi O)) ->
  (forall a, (a < n)%nat -> z' a == z (nth a pi O)) ->
  (forall a, (a < n)%nat -> fmv n A w a == r a) ->
  (forall a, (a < n)%nat -> fmv n A y a == z a) ->
  (forall a, (a < n)%nat -> fmv n A' y' a == z' a) ->
  fdot n r' y' == fdot n r y.
Proof.
  intros S S' P HA Hr Hz Hw Hy Hy'.
  set (w' := fun a => w (nth a pi O)).
  assert (Hw' : forall a, (a < n)%nat -> fmv n A' w' a == r' a).
  { intros a Ha. rewrite (Hr a Ha). rewrite <- (Hw (nth a pi O) (is_perm_lt n pi a P Ha)).
    unfold fmv. rewrite <- (sumn_perm n pi (fun c => A (nth a pi O) c * w c) P).
    apply sumn_ext. intros l Hl. unfold w'. rewrite (HA a l Ha Hl). reflexivity. }
  rewrite (sym_solve_swap n A' w' r' y' z' S' Hw' Hy').
  rewrite (sym_solve_swap n A w r y z S Hw Hy).
  unfold fdot. rewrite <- (sumn_perm n pi (fun c => w c * z c) P).
  apply sumn_ext. intros l Hl. unfold w'. rewrite (Hz l Hl). reflexivity.
Qed.

Lemma permuted_variance n A A' r r' w w' pi :
  fsym n A -> fsym n A' -> is_perm n pi ->
  (forall a b, (a < n)%nat -> (b < n)%nat -> A' a b == A (nth a pi O) (nth b pi O)) ->
  (forall a, (a < n)%nat -> r' a == r (nth a pi O)) ->
  (forall a, (a < n)%nat -> fmv n A w a == r a) ->
  (forall a, (a < n)%nat -> fmv n A' w' a == r' a) ->
  fdot n r' w' == fdot n r w.
Proof.
  intros S S' P HA Hr Hw Hw'.
  apply (permuted_estimate n A A' r r' w w' r r' w pi S S' P HA Hr Hr Hw Hw Hw').
Qed.

(* C10 carrier (5): if every member that changes the buffer detaches first, handles behave as independent values. *)
From Coq Require Import List Arith Bool ZArith Lia.
From Gst Require Import C10.ModelCow.
Import ListNotations.

Definition rel (nh : nat) (s : cow) (v : nat -> list Z) : Prop :=
  forall h, h < nh -> c_hd s h < c_next s /\ c_heap s (c_hd s h) = v h.

Lemma upd_same : forall A (f : nat -> A) k v, upd f k v k = v.
Proof. intros. unfold upd. rewrite Nat.eqb_refl. reflexivity. Qed.
Lemma upd_other : forall A (f : nat -> A) k v x, x <> k -> upd f k v x = f x.
Proof. intros. unfold upd. destruct (Nat.eqb x k) eqn:E; [apply Nat.eqb_eq in E; contradiction | reflexivity]. Qed.

Lemma resize_to_same : forall l v, resize_to (length l) v l = l.
Proof. induction l as [|x r IH]; intros v; simpl; [reflexivity | rewrite IH; reflexivity]. Qed.

Lemma shared_false : forall nh s h h', shared nh s h = false -> h' < nh -> h' <> h -> c_hd s h' <> c_hd s h.
Proof.
  intros nh s h h' Hs Hlt Hne E. unfold shared in Hs.
  assert (existsb (fun h'0 => negb (Nat.eqb h'0 h) && Nat.eqb (c_hd s h'0) (c_hd s h)) (seq 0 nh) = true).
  { apply existsb_exists. exists h'. split; [apply in_seq; lia|].
    apply andb_true_iff. split; [apply negb_true_iff; apply Nat.eqb_neq; exact Hne | apply Nat.eqb_eq; exact E]. }
  congruence.
Qed.

Lemma detach_rel : forall nh s v h, rel nh s v -> h < nh ->
    rel nh (detach nh s h) v /\ (forall h', h' < nh -> h' <> h -> c_hd (detach nh s h) h' <> c_hd (detach nh s h) h).
Proof.
  intros nh s v h R Hh. unfold detach. destruct (shared nh s h) eqn:Es.
  - split.
    + intros h' Hh'. simpl. destruct (Nat.eq_dec h' h) as [E|E].
      * subst. rewrite upd_same. split; [lia|]. rewrite upd_same. apply R. exact Hh.
      * rewrite (upd_other _ (c_hd s)) by exact E. destruct (R h' Hh') as [R1 R2]. split; [lia|].
        rewrite upd_other by lia. exact R2.
    + intros h' Hh' Hne. simpl. rewrite upd_same. rewrite upd_other by exact Hne. destruct (R h' Hh') as [R1 _]. lia.
  - split; [exact R|]. intros h' Hh' Hne. eapply shared_false; eassumption.
Qed.

Lemma step_rel : forall nh s v o, op_safe o = true -> rel nh s v -> rel nh (cow_step nh s o) (val_step nh v o).
Proof.
  intros nh s v o Hs R. destruct o as [h1 h2|h1 h2|d h m]; simpl in *.
  - destruct (Nat.ltb h1 nh && Nat.ltb h2 nh) eqn:E; [|exact R].
    apply andb_true_iff in E. destruct E as [E1 E2]. apply Nat.ltb_lt in E1. apply Nat.ltb_lt in E2.
    destruct (detach_rel nh s v h1 R E1) as [R1 _]. set (s1 := detach nh s h1) in *.
    intros h Hh. simpl. destruct (Nat.eq_dec h h1) as [E|E].
    + subst. rewrite !upd_same. apply R1. exact E2.
    + rewrite !upd_other by exact E. apply R1. exact Hh.
  - destruct (Nat.ltb h1 nh && Nat.ltb h2 nh) eqn:E; [|exact R].
    apply andb_true_iff in E. destruct E as [E1 E2]. apply Nat.ltb_lt in E1. apply Nat.ltb_lt in E2.
    intros h Hh. simpl. destruct (Nat.eq_dec h h2) as [E|E].
    + subst. rewrite !upd_same. apply R. exact E1.
    + rewrite (upd_other _ _ h2) by exact E. rewrite (upd_other _ (upd v h1 (v h2)) h2) by exact E.
      destruct (Nat.eq_dec h h1) as [E'|E'].
      * subst. rewrite !upd_same. apply R. exact E2.
      * rewrite !upd_other by exact E'. apply R. exact Hh.
  - subst d. destruct (Nat.ltb h nh) eqn:E; [|exact R]. apply Nat.ltb_lt in E. simpl.
    destruct (is_noop m (c_heap s (c_hd s h))) eqn:En; simpl.
    { (* resize to the present size: nothing happens on either side *)
      destruct m; simpl in En; try discriminate. apply Nat.eqb_eq in En.
      intros h' Hh'. destruct (R h' Hh') as [A1 A2]. split; [exact A1|].
      destruct (Nat.eq_dec h' h) as [E'|E']; [|rewrite upd_other by exact E'; exact A2].
      subst h'. rewrite upd_same. simpl. rewrite <- A2. rewrite En. symmetry. apply resize_to_same. }
    destruct (detach_rel nh s v h R E) as [R1 R2]. set (s1 := detach nh s h) in *.
    intros h' Hh'. simpl. destruct (R1 h' Hh') as [A1 A2]. split; [exact A1|].
    destruct (Nat.eq_dec h' h) as [E'|E'].
    + subst. rewrite !upd_same. f_equal. apply R1. exact E.
    + rewrite (upd_other _ v) by exact E'. rewrite upd_other by (apply R2; assumption). exact A2.
Qed.

Lemma obs_rel : forall nh s v, rel nh s v -> cow_obs nh s = val_obs nh v.
Proof.
  intros nh s v R. unfold cow_obs, val_obs. apply map_ext_in. intros h Hh. apply in_seq in Hh. apply R. lia.
Qed.

Theorem cow_refines_values : forall nh p s v,
    forallb op_safe p = true -> rel nh s v -> run_cow nh s p = run_val nh v p.
Proof.
  intros nh p. induction p as [|o r IH]; intros s v Hs R; simpl; [reflexivity|].
  simpl in Hs. apply andb_true_iff in Hs. destruct Hs as [H1 H2].
  pose proof (step_rel nh s v o H1 R) as R'. rewrite (obs_rel _ _ _ R'). f_equal. apply IH; assumption.
Qed.

Lemma init_rel : forall nh, rel nh (cow_init_n nh) (fun _ => []).
Proof. intros nh h Hh. simpl. split; [exact Hh | reflexivity]. Qed.

(* C10 carrier (4) - lazy evaluation graph of KrigingCalcul: executable semantics. NO proofs.

   The graph itself (which _need calls which, what each _delete frees, what each set* resets) is NOT written
   here: it is generated from src/Estimation/KrigingCalcul.cpp by translators/C10_kcgraph.py into
   gen/KCGraph.v on every run.  This file gives the meaning of such a graph:

     members   MIn i   pointer input (const T* _X: may be absent = nullptr)
               MPar p  scalar parameter (_flagSK, _ncck, ...)
               MNode n cached member (T* _InvSigma, VectorDouble _Zstar, ...)
     _needN    KrigingCalcul.cpp:738-1459 : guard, then steps, each under a path condition over parameters
     _deleteN  KrigingCalcul.cpp:128-374
     set*      KrigingCalcul.cpp:386-612
     get*      KrigingCalcul.cpp:614-736  (need, then return the member)

   Values are Herbrand terms: a cached member is the tree of everything that was read to compute it,
   leaves being (input, version).  Two runs that yield the same term yield the same numbers in C++. *)
From Coq Require Import List Arith Bool.
Import ListNotations.

Inductive mem := MIn (i : nat) | MPar (p : nat) | MNode (n : nat).

(* conditions found in `if (...)` of the _need bodies: over scalar parameters (bool: true; int: > 0) and
   emptiness of an input vector (_Means->empty()) *)
Inductive aexp := APar (p : nat) | AEmpty (i : nat) | ANot (a : aexp) | AAnd (a b : aexp) | AOr (a b : aexp).
Definition pc := list (aexp * bool).

Inductive step :=
| SNeed (m : mem)      (* if (_needM()) return 1;                      *)
| SRead (m : mem)      (* the statement reads member m                 *)
| SFall (site : nat)   (* if (x->invert()) return 1;  (fallible call)  *)
| SFail                (* return 1;                                    *)
| SPub (n : nat)       (* _N = ...;  the cached member is assigned     *)
| SRet0.               (* return 0;                                    *)

(* scratch members (_bDual, _cDual): written and read inside one _need body, never trusted from one call to the next *)
Inductive sev := SW (cell : nat) | SR (cell : nat).

Record body := { b_guard : option nat; b_params : list nat; b_steps : list (pc * step) }.
Record delfn := { d_own : option mem; d_calls : list nat; d_frees : list nat }.
Record setter := { s_writes : list mem; s_resets : list nat }.
Record graph := { g_inneeds : list (nat * nat);          (* _needX tests the presence of which input *)
                  g_nodes : list (nat * body);           (* dependents first *)
                  g_dels : list (nat * delfn);
                  g_setters : list (nat * setter) }.

Inductive term :=
| TIn (i : nat) (v : nat)
| TPar (p : nat) (v : nat)
| TNode (n : nat) (args : list term)
| TPart (n : nat) (args : list term).   (* member assigned but its computation did not complete *)

Record env := { e_in : nat -> option nat; e_par : nat -> nat }.
Record state := { st_env : env; st_cache : nat -> option term }.

Inductive res := ROk | RFail | RCrash.
Inductive dres := DOk (v : option term) | DFail | DCrash.

Definition mem_eqb (a b : mem) : bool :=
  match a, b with
  | MIn i, MIn j => Nat.eqb i j
  | MPar i, MPar j => Nat.eqb i j
  | MNode i, MNode j => Nat.eqb i j
  | _, _ => false
  end.
Fixpoint aexp_eqb (a b : aexp) : bool :=
  match a, b with
  | APar p, APar q => Nat.eqb p q
  | AEmpty p, AEmpty q => Nat.eqb p q
  | ANot x, ANot y => aexp_eqb x y
  | AAnd x1 x2, AAnd y1 y2 => aexp_eqb x1 y1 && aexp_eqb x2 y2
  | AOr x1 x2, AOr y1 y2 => aexp_eqb x1 y1 && aexp_eqb x2 y2
  | _, _ => false
  end.
Definition memb (x : nat) (l : list nat) : bool := existsb (Nat.eqb x) l.
Definition mem_in (x : mem) (l : list mem) : bool := existsb (mem_eqb x) l.

(* version 0 of a vector input designates the empty vector *)
Fixpoint aeval (e : env) (a : aexp) : bool :=
  match a with
  | APar p => negb (Nat.eqb (e_par e p) 0)
  | AEmpty i => match e_in e i with Some 0 => true | _ => false end
  | ANot x => negb (aeval e x)
  | AAnd x y => aeval e x && aeval e y
  | AOr x y => aeval e x || aeval e y
  end.
Definition lit_holds (e : env) (l : aexp * bool) : bool := Bool.eqb (aeval e (fst l)) (snd l).
Definition enabled (e : env) (c : pc) : bool := forallb (lit_holds e) c.

Definition lit_eqb (l k : aexp * bool) : bool := aexp_eqb (fst l) (fst k) && Bool.eqb (snd l) (snd k).
Definition lit_opp (l k : aexp * bool) : bool := aexp_eqb (fst l) (fst k) && negb (Bool.eqb (snd l) (snd k)).
(* c' is implied by c (as sets of literals) *)
Definition subpc (c' c : pc) : bool := forallb (fun l => existsb (lit_eqb l) c) c'.
(* c and c' may hold together (no literal of one is the opposite of a literal of the other) *)
Definition compat (c c' : pc) : bool := negb (existsb (fun l => existsb (lit_opp l) c') c).

Definition set_cache (s : state) (n : nat) (t : option term) : state :=
  {| st_env := st_env s; st_cache := fun k => if Nat.eqb k n then t else st_cache s k |}.

Definition in_value (e : env) (i : nat) : option term :=
  match e_in e i with Some v => Some (TIn i v) | None => None end.
Definition lookup (s : state) (m : mem) : option term :=
  match m with
  | MIn i => in_value (st_env s) i
  | MPar p => Some (TPar p (e_par (st_env s) p))
  | MNode n => st_cache s n
  end.
Definition present (e : env) (i : nat) : bool := match e_in e i with Some _ => true | None => false end.
Definition pacc_of (e : env) (b : body) : list term := map (fun p => TPar p (e_par e p)) (b_params b).
Definition guard_holds (s : state) (b : body) : bool :=
  match b_guard b with Some g => match st_cache s g with Some _ => true | None => false end | None => false end.

Section Sem.
  Variable fallv : nat -> nat -> list term -> bool.   (* outcome of a fallible call: node, site, what was read so far *)
  Variable chk : nat -> nat.                           (* _needX tests the presence of input (chk X) *)

  Definition finish (n : nat) (pacc acc : list term) (pub : bool) (s : state) : state :=
    if pub then set_cache s n (Some (TNode n (pacc ++ acc))) else s.

  (* one _needN body, after its guard: KrigingCalcul.cpp, e.g. 875-918 (_needStdv) *)
  Fixpoint run_steps (rec : state -> mem -> res * state) (n : nat) (pacc : list term)
           (steps : list (pc * step)) (acc : list term) (pub : bool) (s : state) : res * state :=
    match steps with
    | [] => (ROk, finish n pacc acc pub s)
    | (c, st) :: r =>
        if enabled (st_env s) c then
          match st with
          | SNeed m => let '(x, s') := rec s m in
                       match x with ROk => run_steps rec n pacc r acc pub s' | _ => (x, s') end
          | SRead m => match lookup s m with
                       | Some t => run_steps rec n pacc r (acc ++ [t]) pub s
                       | None => (RCrash, s)
                       end
          | SFall k => if fallv n k acc then (RFail, s) else run_steps rec n pacc r acc pub s
          | SFail => (RFail, s)
          | SPub m => run_steps rec n pacc r acc (pub || Nat.eqb m n) (set_cache s m (Some (TPart n (pacc ++ acc))))
          | SRet0 => (ROk, finish n pacc acc pub s)
          end
        else run_steps rec n pacc r acc pub s
    end.

  Definition need_leaf (s : state) (m : mem) : res * state :=
    match m with
    | MIn i => (if present (st_env s) (chk i) then ROk else RFail, s)   (* _needX: 920-948, 1200-1234 *)
    | _ => (ROk, s)
    end.

  (* _needN for a cached member: guard, then the body; the nodes it may call come later in the list *)
  Fixpoint need (nodes : list (nat * body)) (s : state) (k : nat) : res * state :=
    match nodes with
    | [] => (RCrash, s)
    | (n, b) :: rest =>
        if Nat.eqb n k then
          if guard_holds s b then (ROk, s)
          else run_steps (fun s' m => match m with MNode k' => need rest s' k' | _ => need_leaf s' m end)
                         n (pacc_of (st_env s) b) (b_steps b) [] false s
        else need rest s k
    end.
  Definition need_mem (nodes : list (nat * body)) (s : state) (m : mem) : res * state :=
    match m with MNode k => need nodes s k | _ => need_leaf s m end.

  (* the same without any cache: what a fresh object computes from the inputs alone *)
  Fixpoint den_steps (rec : mem -> dres) (n : nat) (pacc : list term) (e : env)
           (steps : list (pc * step)) (acc : list term) (pub : bool) : dres :=
    match steps with
    | [] => DOk (if pub then Some (TNode n (pacc ++ acc)) else None)
    | (c, st) :: r =>
        if enabled e c then
          match st with
          | SNeed m => match rec m with DOk _ => den_steps rec n pacc e r acc pub | DFail => DFail | DCrash => DCrash end
          | SRead m => match rec m with DOk (Some t) => den_steps rec n pacc e r (acc ++ [t]) pub | _ => DCrash end
          | SFall k => if fallv n k acc then DFail else den_steps rec n pacc e r acc pub
          | SFail => DFail
          | SPub m => den_steps rec n pacc e r acc (pub || Nat.eqb m n)
          | SRet0 => DOk (if pub then Some (TNode n (pacc ++ acc)) else None)
          end
        else den_steps rec n pacc e r acc pub
    end.
  Definition den_leaf (e : env) (m : mem) : dres :=
    match m with
    | MIn i => if present e (chk i) then DOk (in_value e i) else DFail
    | MPar p => DOk (Some (TPar p (e_par e p)))
    | MNode _ => DCrash
    end.
  Fixpoint den (nodes : list (nat * body)) (e : env) (k : nat) : dres :=
    match nodes with
    | [] => DCrash
    | (n, b) :: rest =>
        if Nat.eqb n k then
          den_steps (fun m => match m with MNode k' => den rest e k' | _ => den_leaf e m end)
                    n (pacc_of e b) e (b_steps b) [] false
        else den rest e k
    end.
  Definition den_mem (nodes : list (nat * body)) (e : env) (m : mem) : dres :=
    match m with MNode k => den nodes e k | _ => den_leaf e m end.
End Sem.

(* ---------------------------------------------------------------- resets: 94-126, 128-374 *)
Definition find_del (dels : list (nat * delfn)) (d : nat) : option delfn :=
  match find (fun x => Nat.eqb (fst x) d) dels with Some x => Some (snd x) | None => None end.
Definition del_calls (dels : list (nat * delfn)) (d : nat) : list nat :=
  match find_del dels d with Some f => d_calls f | None => [] end.
Definition del_frees (dels : list (nat * delfn)) (d : nat) : list nat :=
  match find_del dels d with Some f => d_frees f | None => [] end.
(* delete functions reached from a list of calls *)
Fixpoint reach (dels : list (nat * delfn)) (fuel : nat) (front acc : list nat) : list nat :=
  match fuel with
  | 0 => acc
  | S f =>
      let new := nodup Nat.eq_dec (filter (fun d => negb (memb d acc)) front) in
      match new with
      | [] => acc
      | _ => reach dels f (flat_map (del_calls dels) new) (acc ++ new)
      end
  end.
Definition reached (G : graph) (st : setter) : list nat := reach (g_dels G) (S (length (g_dels G))) (s_resets st) [].
Definition frees (G : graph) (st : setter) : list nat := flat_map (del_frees (g_dels G)) (reached G st).
Definition find_setter (G : graph) (k : nat) : option setter :=
  match find (fun x => Nat.eqb (fst x) k) (g_setters G) with Some x => Some (snd x) | None => None end.
Definition chk_of (G : graph) (i : nat) : nat :=
  match find (fun x => Nat.eqb (fst x) i) (g_inneeds G) with Some x => snd x | None => i end.

(* ---------------------------------------------------------------- histories *)
Inductive op :=
| OSet (k : nat) (ai : list (nat * option nat)) (ap : list (nat * nat))   (* set*: which members get which version *)
| OGet (n : nat).                                                            (* get*: need n, return member n *)

Fixpoint assign_in (w : list mem) (ai : list (nat * option nat)) (f : nat -> option nat) : nat -> option nat :=
  match ai with
  | [] => f
  | (i, v) :: r => let g := assign_in w r f in
                   if mem_in (MIn i) w then (fun j => if Nat.eqb j i then v else g j) else g
  end.
Fixpoint assign_par (w : list mem) (ap : list (nat * nat)) (f : nat -> nat) : nat -> nat :=
  match ap with
  | [] => f
  | (p, v) :: r => let g := assign_par w r f in
                   if mem_in (MPar p) w then (fun j => if Nat.eqb j p then v else g j) else g
  end.

(* a set* call: the reset runs first (the translator checks that), then some of the members it may write are
   written (all of them, or a prefix when a dimension check fails half-way) *)
Definition do_set (G : graph) (s : state) (k : nat) (ai : list (nat * option nat)) (ap : list (nat * nat)) : state :=
  match find_setter G k with
  | None => s
  | Some st =>
      let fr := frees G st in
      {| st_env := {| e_in := assign_in (s_writes st) ai (e_in (st_env s));
                      e_par := assign_par (s_writes st) ap (e_par (st_env s)) |};
         st_cache := fun n => if memb n fr then None else st_cache s n |}
  end.

Section Hist.
  Variable fallv : nat -> nat -> list term -> bool.
  Definition do_get (G : graph) (s : state) (n : nat) : (res * option term) * state :=
    let '(r, s') := need fallv (chk_of G) (g_nodes G) s n in
    ((r, match r with ROk => st_cache s' n | _ => None end), s').
  Definition clear (s : state) : state := {| st_env := st_env s; st_cache := fun _ => None |}.

  (* what the object answers along a history; the history ends at the first crash *)
  Fixpoint trace (G : graph) (s : state) (ops : list op) : list (res * option term) :=
    match ops with
    | [] => []
    | OSet k ai ap :: r => trace G (do_set G s k ai ap) r
    | OGet n :: r => let '(o, s') := do_get G s n in
                     o :: match fst o with RCrash => [] | _ => trace G s' r end
    end.
  (* what a fresh object, given the inputs in force at that moment, answers to each get *)
  Fixpoint trace_fresh (G : graph) (s : state) (ops : list op) : list (res * option term) :=
    match ops with
    | [] => []
    | OSet k ai ap :: r => trace_fresh G (clear (do_set G s k ai ap)) r
    | OGet n :: r => let '(o, _) := do_get G (clear s) n in
                     o :: match fst o with RCrash => [] | _ => trace_fresh G (clear s) r end
    end.
End Hist.

(* ---------------------------------------------------------------- static conditions on a graph *)
Fixpoint aexp_support (a : aexp) : list mem :=
  match a with
  | APar p => [MPar p]
  | AEmpty i => [MIn i]
  | ANot x => aexp_support x
  | AAnd x y | AOr x y => aexp_support x ++ aexp_support y
  end.
Definition pc_support (c : pc) : list mem := flat_map (fun l => aexp_support (fst l)) c.

(* inputs and parameters a node's value may depend on *)
Fixpoint support (nodes : list (nat * body)) (k : nat) : list mem :=
  match nodes with
  | [] => []
  | (n, b) :: rest =>
      if Nat.eqb n k then
        map MPar (b_params b) ++
        flat_map (fun cs => pc_support (fst cs) ++
                            match snd cs with
                            | SNeed (MNode k') | SRead (MNode k') => support rest k'
                            | SNeed m | SRead m => [m]
                            | _ => []
                            end) (b_steps b)
      else support rest k
  end.

(* members that are certainly available after a successful _needN: the needs of its body that no earlier
   `return 0` can skip, and, recursively, theirs; each with the condition under which it is executed *)
Fixpoint sure_aux (rets : list pc) (steps : list (pc * step)) : list (pc * mem) :=
  match steps with
  | [] => []
  | (c, SNeed m) :: r => (if forallb (fun rc => negb (compat rc c)) rets then [(c, m)] else []) ++ sure_aux rets r
  | (c, SRet0) :: r => sure_aux (c :: rets) r
  | _ :: r => sure_aux rets r
  end.
Definition expand (sure_of : nat -> list (pc * mem)) (d : list (pc * mem)) : list (pc * mem) :=
  flat_map (fun cm => match snd cm with
                      | MNode k' => map (fun cm' => (fst cm ++ fst cm', snd cm')) (sure_of k')
                      | _ => []
                      end) d.
Fixpoint sure (nodes : list (nat * body)) (k : nat) : list (pc * mem) :=
  match nodes with
  | [] => []
  | (n, b) :: rest =>
      if Nat.eqb n k then let d := sure_aux [] (b_steps b) in d ++ expand (sure rest) d
      else sure rest k
  end.
Definition covered (seen : list (pc * mem)) (c : pc) (m : mem) : bool :=
  existsb (fun cm => mem_eqb (snd cm) m && subpc (fst cm) c) seen.

Inductive cfail :=
| FDup (n : nat)                         (* two _need for the same member / not topologically ordered *)
| FGuard (n : nat)                       (* _needN does not guard on _N *)
| FRef (n : nat) (m : mem)               (* refers to a member that has no _need in the rest of the list *)
| FPubForeign (n m : nat)                (* _needN assigns the cached member _M *)
| FPubEarly (n : nat) (st : step)        (* (c) a step that may fail follows the assignment of _N *)
| FReadNoNeed (n : nat) (m : mem)        (* (d) _needN reads m without a preceding need of m *)
| FInNeed (i j : nat)                    (* _needI tests the presence of another input *)
| FNoReset (k : nat) (w : mem) (n : nat) (* (a) setter k writes w but does not free its dependent n *)
| FDelete (d : nat) (n : nat)            (* (b) _deleteN does not free _N *)
| FCascade (k : nat) (m n : nat).        (* setter k frees m but keeps n, which relies on m being there *)

(* checks of one body; seen = needs passed so far (with what they guarantee), pubs = assignments of _N passed so far *)
Fixpoint check_steps (rest : list (nat * body)) (n : nat) (steps : list (pc * step))
         (seen : list (pc * mem)) (pubs : list pc) : list cfail :=
  match steps with
  | [] => []
  | (c, st) :: r =>
      let after_pub := existsb (fun cp => compat cp c) pubs in
      match st with
      | SNeed m =>
          (match m with MNode k' => if memb k' (map fst rest) then [] else [FRef n m] | _ => [] end) ++
          (if after_pub && negb (covered seen c m) then [FPubEarly n st] else []) ++
          check_steps rest n r
            ((c, m) :: match m with MNode k' => map (fun cm' => (c ++ fst cm', snd cm')) (sure rest k') | _ => [] end ++ seen) pubs
      | SRead m =>
          (match m with
           | MPar _ => []
           | MNode k' => (if memb k' (map fst rest) then [] else [FRef n m]) ++ (if covered seen c m then [] else [FReadNoNeed n m])
           | MIn _ => if covered seen c m then [] else [FReadNoNeed n m]
           end) ++ check_steps rest n r seen pubs
      | SFall _ | SFail => (if after_pub then [FPubEarly n st] else []) ++ check_steps rest n r seen pubs
      | SPub m => (if Nat.eqb m n then [] else [FPubForeign n m]) ++ check_steps rest n r seen (c :: pubs)
      | SRet0 => check_steps rest n r seen pubs
      end
  end.
Fixpoint check_nodes (nodes : list (nat * body)) : list cfail :=
  match nodes with
  | [] => []
  | (n, b) :: rest =>
      (if memb n (map fst rest) then [FDup n] else []) ++
      (match b_guard b with Some g => if Nat.eqb g n then [] else [FGuard n] | None => [FGuard n] end) ++
      check_steps rest n (b_steps b) [] [] ++ check_nodes rest
  end.
Definition check_inneeds (G : graph) : list cfail :=
  flat_map (fun ij => if Nat.eqb (fst ij) (snd ij) then [] else [FInNeed (fst ij) (snd ij)]) (g_inneeds G).
Definition check_resets (G : graph) : list cfail :=
  flat_map (fun ks =>
    let fr := frees G (snd ks) in
    flat_map (fun w =>
      flat_map (fun nb => if mem_in w (support (g_nodes G) (fst nb)) && negb (memb (fst nb) fr)
                          then [FNoReset (fst ks) w (fst nb)] else []) (g_nodes G)) (s_writes (snd ks)) ++
    (* what is freed takes with it every cached member that counts on it *)
    flat_map (fun nb => if memb (fst nb) fr then [] else
                flat_map (fun cm => match snd cm with
                                    | MNode m => if memb m fr then [FCascade (fst ks) m (fst nb)] else []
                                    | _ => []
                                    end) (sure (g_nodes G) (fst nb))) (g_nodes G))
    (g_setters G).
Definition check_deletes (G : graph) : list cfail :=
  flat_map (fun df => match d_own (snd df) with
                      | Some (MNode n) => if memb n (d_frees (snd df)) then [] else [FDelete (fst df) n]
                      | _ => []
                      end) (g_dels G).

Definition failed_conditions (G : graph) : list cfail :=
  check_nodes (g_nodes G) ++ check_inneeds G ++ check_resets G ++ check_deletes G.
Definition conditions (G : graph) : bool := match failed_conditions G with [] => true | _ => false end.

(* initial state of a new object: no input, parameters as given (constructor: 18-76), nothing cached *)
Definition init_state (p0 : nat -> nat) : state :=
  {| st_env := {| e_in := fun _ => None; e_par := p0 |}; st_cache := fun _ => None |}.

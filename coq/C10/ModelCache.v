(* C10 carriers (3)/(6) - member caches of an object that are NOT lazy graphs: executable model. NO proofs.
   Two kinds of cached fields (table generated from the sources by translators/C10_neighgraph.py):
     eager  rebuilt by the setters themselves (ANeigh::_ball, built by attach() -> attachBall(): ANeigh.cpp:86-113)
     keyed  computed at the query, kept together with the inputs it was computed for, and reused only when those
            inputs are unchanged (ANeigh::_nbghMemo with _iechMemo, compared in _isSameTarget: ANeigh.cpp:193-202)
   A keyed field may read eager fields; eager fields read inputs only. *)
From Coq Require Import List Arith Bool.
From Gst Require Import C10.Model C10.ModelMemo.
Import ListNotations.

Record cfield := { cf_id : nat; cf_eager : bool; cf_deps_in : list nat; cf_deps_f : list nat; cf_key : list nat }.
Record csetter := { cs_writes : list nat; cs_clears : list nat; cs_rebuilds : list nat }.
Record ctable := { ct_fields : list cfield; ct_setters : list (nat * csetter) }.

Inductive cterm := CV (f : nat) (ins : list nat) (subs : list cterm) | CEmpty (f : nat).

Definition cenv := nat -> nat.
Record cstate := { cs_env : cenv; cs_store : nat -> option (list nat * cterm) }.

Definition find_field (T : ctable) (f : nat) : option cfield := find (fun x => Nat.eqb (cf_id x) f) (ct_fields T).
Definition find_csetter (T : ctable) (k : nat) : option csetter :=
  match find (fun x => Nat.eqb (fst x) k) (ct_setters T) with Some x => Some (snd x) | None => None end.

(* what a field is worth given the inputs alone *)
Definition fv_eager (T : ctable) (e : cenv) (g : nat) : cterm :=
  match find_field T g with Some fg => CV g (map e (cf_deps_in fg)) [] | None => CEmpty g end.
Definition fv (T : ctable) (e : cenv) (x : cfield) : cterm :=
  CV (cf_id x) (map e (cf_deps_in x)) (map (fv_eager T e) (cf_deps_f x)).
(* what the code computes: the fields it reads are taken as they are in the object *)
Definition stored (s : cstate) (g : nat) : cterm := match cs_store s g with Some kt => snd kt | None => CEmpty g end.
Definition compute (s : cstate) (x : cfield) : cterm :=
  CV (cf_id x) (map (cs_env s) (cf_deps_in x)) (map (stored s) (cf_deps_f x)).
Definition put (s : cstate) (x : cfield) : cstate :=
  {| cs_env := cs_env s;
     cs_store := fun g => if Nat.eqb g (cf_id x) then Some (map (cs_env s) (cf_key x), compute s x) else cs_store s g |}.

Fixpoint cassign (w : list nat) (asg : list (nat * nat)) (e : cenv) : cenv :=
  match asg with
  | [] => e
  | (i, v) :: r => let g := cassign w r e in if memb i w then (fun j => if Nat.eqb j i then v else g j) else g
  end.
Definition rebuild (T : ctable) (s : cstate) (g : nat) : cstate :=
  match find_field T g with Some x => put s x | None => s end.
(* a setter: writes inputs, clears fields, rebuilds fields *)
Definition do_cset (T : ctable) (s : cstate) (k : nat) (asg : list (nat * nat)) : cstate :=
  match find_csetter T k with
  | None => s
  | Some st =>
      let s1 := {| cs_env := cassign (cs_writes st) asg (cs_env s);
                   cs_store := fun g => if memb g (cs_clears st) then None else cs_store s g |} in
      fold_left (rebuild T) (cs_rebuilds st) s1
  end.
(* a query of a keyed field: reuse when the inputs it was computed for are the current ones *)
Definition do_cquery (T : ctable) (s : cstate) (f : nat) : cterm * cstate :=
  match find_field T f with
  | None => (CEmpty f, s)
  | Some x =>
      match cs_store s f with
      | Some (ks, t) => if list_eqb ks (map (cs_env s) (cf_key x)) then (t, s) else (compute s x, put s x)
      | None => (compute s x, put s x)
      end
  end.
Inductive cop := CSet (k : nat) (asg : list (nat * nat)) | CQuery (f : nat).
Fixpoint ctrace (T : ctable) (s : cstate) (ops : list cop) : list cterm :=
  match ops with
  | [] => []
  | CSet k asg :: r => ctrace T (do_cset T s k asg) r
  | CQuery f :: r => let '(t, s') := do_cquery T s f in t :: ctrace T s' r
  end.
(* what a fresh object brought to the same inputs answers *)
Fixpoint ctrace_fresh (T : ctable) (s : cstate) (ops : list cop) : list cterm :=
  match ops with
  | [] => []
  | CSet k asg :: r => ctrace_fresh T (do_cset T s k asg) r
  | CQuery f :: r => (match find_field T f with Some x => fv T (cs_env s) x | None => CEmpty f end) ::
                     ctrace_fresh T (snd (do_cquery T s f)) r
  end.
(* a new object: eager fields built from the initial inputs, nothing memorised *)
Definition cinit (T : ctable) (e : cenv) : cstate :=
  {| cs_env := e; cs_store := fun g => match find_field T g with
                                       | Some x => if cf_eager x then Some ([], CV g (map e (cf_deps_in x)) []) else None
                                       | None => None end |}.

(* ---------------------------------------------------------------- decidable conditions *)
Inductive cfailc :=
| CFShape (f : nat)               (* eager field reading fields / keyed field reading a keyed field / key not among its inputs / duplicate *)
| CFStale (k i f : nat).          (* setter k writes input i; field f depends on it and is neither rebuilt (eager) nor cleared/keyed on it *)

Definition tdeps (T : ctable) (x : cfield) : list nat :=
  cf_deps_in x ++ flat_map (fun g => match find_field T g with Some fg => cf_deps_in fg | None => [] end) (cf_deps_f x).
Definition check_shape (T : ctable) : list cfailc :=
  flat_map (fun x =>
    (if cf_eager x then (match cf_deps_f x with [] => [] | _ => [CFShape (cf_id x)] end)
     else if forallb (fun g => match find_field T g with Some fg => cf_eager fg | None => false end) (cf_deps_f x) then [] else [CFShape (cf_id x)]) ++
    (if forallb (fun i => memb i (cf_deps_in x)) (cf_key x) then [] else [CFShape (cf_id x)]) ++
    (if Nat.eqb (List.length (filter (fun y => Nat.eqb (cf_id y) (cf_id x)) (ct_fields T))) 1 then [] else [CFShape (cf_id x)]))
  (ct_fields T).
Definition check_setters (T : ctable) : list cfailc :=
  flat_map (fun ks =>
    let st := snd ks in
    flat_map (fun i =>
      flat_map (fun x =>
        if memb i (tdeps T x) then
          (if cf_eager x then (if memb (cf_id x) (cs_rebuilds st) && negb (memb (cf_id x) (cs_clears st)) then [] else [CFStale (fst ks) i (cf_id x)])
           else if memb (cf_id x) (cs_clears st) && negb (memb (cf_id x) (cs_rebuilds st)) || memb i (cf_key x) && negb (memb (cf_id x) (cs_rebuilds st))
                then [] else [CFStale (fst ks) i (cf_id x)])
        else if memb (cf_id x) (cs_clears st) && cf_eager x then [CFStale (fst ks) i (cf_id x)] else [])
      (ct_fields T)) (cs_writes st) ++
    (* eager fields are never cleared, keyed fields never rebuilt by a setter *)
    flat_map (fun x => if cf_eager x && memb (cf_id x) (cs_clears st) || negb (cf_eager x) && memb (cf_id x) (cs_rebuilds st) then [CFStale (fst ks) 0 (cf_id x)] else [])
             (ct_fields T))
  (ct_setters T).
Definition cache_failed (T : ctable) : list cfailc := check_shape T ++ check_setters T.
Definition cache_ok (T : ctable) : bool := match cache_failed T with [] => true | _ => false end.

(* hasChanged() of the neighbourhood classes: when may select() hand out the memorised ranks without looking? *)
Inductive npolicy := PAlways            (* never: hasChanged() = true *)
                   | PIfMemoEmpty       (* whenever something is memorised, whatever the target *)
                   | PDiffGroup         (* changed iff the target left the group (bench, cell) of the memorised one; sound when the
                                           ranks depend on the target through its group only *)
                   | PSameGroup.        (* changed iff the target is in the SAME group: the test is inverted *)
Definition policy_ok (p : npolicy) (target_matters : bool) : bool :=
  match p with PAlways => true | PDiffGroup | PIfMemoEmpty => negb target_matters | PSameGroup => false end.

(* members of KrigingSystem written while a target is processed (gen/KSysCache.v) *)
Inductive kclass := KGuarded (block : nat) | KPerTarget | KCarried.
Definition kclass_ok (c : kclass) : bool := match c with KCarried => false | _ => true end.

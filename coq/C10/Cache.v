(* C10 carriers (3)/(6): eager and keyed member caches answer like a fresh object when the table is sound. *)
From Coq Require Import List Arith Bool Lia.
From Gst Require Import C10.Model C10.LazyGraph C10.ModelMemo C10.Memo C10.ModelCache.
Import ListNotations.

Lemma flat_map_nil' : forall (A B : Type) (f : A -> list B) l, flat_map f l = [] -> forall x, In x l -> f x = [].
Proof.
  induction l as [|a l IH]; intros H x Hx; [contradiction|]. simpl in H. apply app_eq_nil in H. destruct H as [H1 H2].
  destruct Hx as [E|Hx]; [subst; exact H1 | apply IH; assumption].
Qed.
Lemma cassign_other : forall w asg e i, memb i w = false -> cassign w asg e i = e i.
Proof.
  induction asg as [|[j v] r IH]; intros e i H; simpl; [reflexivity|].
  destruct (memb j w) eqn:E; [|apply IH; exact H].
  destruct (Nat.eqb i j) eqn:Eij; [|apply IH; exact H]. apply Nat.eqb_eq in Eij. subst. congruence.
Qed.
Lemma find_field_id : forall T f x, find_field T f = Some x -> cf_id x = f /\ In x (ct_fields T).
Proof. intros T f x H. unfold find_field in H. apply find_some in H. destruct H as [H1 H2]. apply Nat.eqb_eq in H2. auto. Qed.
Lemma map_eq_pointwise : forall (e e' : nat -> nat) l, map e l = map e' l -> forall i, In i l -> e i = e' i.
Proof.
  induction l as [|a l IH]; intros H i Hi; [contradiction|]. simpl in H. inversion H.
  destruct Hi as [E|Hi]; [subst; assumption | apply IH; assumption].
Qed.

Section Cache.
  Variable T : ctable.
  Hypothesis Hok : cache_ok T = true.

  Lemma ok_parts : check_shape T = [] /\ check_setters T = [].
  Proof. unfold cache_ok in Hok. destruct (cache_failed T) eqn:E; [|discriminate]. unfold cache_failed in E. apply app_eq_nil in E. exact E. Qed.

  Lemma shape : forall f x, find_field T f = Some x ->
      (cf_eager x = true -> cf_deps_f x = []) /\
      (cf_eager x = false -> forall g, In g (cf_deps_f x) -> exists xg, find_field T g = Some xg /\ cf_eager xg = true) /\
      (forall i, In i (cf_key x) -> In i (cf_deps_in x)).
  Proof.
    intros f x Hf. destruct (find_field_id T f x Hf) as [_ Hin]. destruct ok_parts as [Hs _].
    pose proof (flat_map_nil' _ _ _ _ Hs x Hin) as H. apply app_eq_nil in H. destruct H as [H1 H]. apply app_eq_nil in H. destruct H as [H2 _].
    split; [|split].
    - intros He. rewrite He in H1. destruct (cf_deps_f x); [reflexivity | discriminate].
    - intros He g Hg. rewrite He in H1.
      destruct (forallb (fun g0 => match find_field T g0 with Some fg => cf_eager fg | None => false end) (cf_deps_f x)) eqn:E; [|discriminate].
      rewrite forallb_forall in E. specialize (E g Hg). destruct (find_field T g) as [xg|]; [|discriminate]. exists xg. auto.
    - intros i Hi. destruct (forallb (fun i0 => memb i0 (cf_deps_in x)) (cf_key x)) eqn:E; [|discriminate].
      rewrite forallb_forall in E. apply memb_In. apply E. exact Hi.
  Qed.

  Lemma fv_ext : forall e e' x, (forall i, In i (tdeps T x) -> e i = e' i) -> fv T e x = fv T e' x.
  Proof.
    intros e e' x H. unfold fv. f_equal.
    - apply map_ext_in. intros i Hi. apply H. unfold tdeps. apply in_or_app. left. exact Hi.
    - apply map_ext_in. intros g Hg. unfold fv_eager. destruct (find_field T g) as [fg|] eqn:E; [|reflexivity]. f_equal.
      apply map_ext_in. intros i Hi. apply H. unfold tdeps. apply in_or_app. right. apply in_flat_map. exists g. split; [exact Hg|]. rewrite E. exact Hi.
  Qed.

  (* eager fields hold what the current inputs give; a memorised field holds what the inputs of its computation gave,
     and of these only its key inputs may have moved since *)
  Definition cinv (s : cstate) : Prop :=
    forall f x, find_field T f = Some x ->
      (cf_eager x = true -> exists ks, cs_store s f = Some (ks, fv T (cs_env s) x)) /\
      (cf_eager x = false -> forall ks t, cs_store s f = Some (ks, t) ->
         exists e0, ks = map e0 (cf_key x) /\ t = fv T e0 x /\ forall i, In i (tdeps T x) -> ~ In i (cf_key x) -> e0 i = cs_env s i).

  Lemma compute_fv : forall s f x, cinv s -> find_field T f = Some x -> compute s x = fv T (cs_env s) x.
  Proof.
    intros s f x I Hf. destruct (find_field_id T f x Hf) as [Hid _]. destruct (shape f x Hf) as [S1 [S2 _]].
    unfold compute, fv. f_equal. destruct (cf_eager x) eqn:Ee.
    - rewrite (S1 eq_refl). reflexivity.
    - apply map_ext_in. intros g Hg. destruct (S2 eq_refl g Hg) as [xg [Hfg Heg]].
      destruct (I g xg Hfg) as [I1 _]. destruct (I1 Heg) as [ks Hst]. unfold stored. rewrite Hst. simpl.
      destruct (find_field_id T g xg Hfg) as [Hidg _]. destruct (shape g xg Hfg) as [Sg _].
      unfold fv, fv_eager. rewrite Hfg, (Sg Heg), Hidg. reflexivity.
  Qed.

  Lemma put_inv : forall s f x, cinv s -> find_field T f = Some x -> cinv (put s x).
  Proof.
    intros s f x I Hf. destruct (find_field_id T f x Hf) as [Hid _]. pose proof (compute_fv s f x I Hf) as Hc.
    intros g xg Hg. unfold put. simpl. rewrite Hid. destruct (Nat.eqb g f) eqn:E.
    - apply Nat.eqb_eq in E. subst g. rewrite Hf in Hg. inversion Hg. subst xg. split.
      + intros _. eexists. rewrite Hc. reflexivity.
      + intros _ ks t H. inversion H. subst. exists (cs_env s). rewrite Hc. auto.
    - exact (I g xg Hg).
  Qed.

  Lemma query_sound : forall s f x t s', cinv s -> find_field T f = Some x -> do_cquery T s f = (t, s') ->
      t = fv T (cs_env s) x /\ cinv s' /\ cs_env s' = cs_env s.
  Proof.
    intros s f x t s' I Hf H. unfold do_cquery in H. rewrite Hf in H.
    assert (Hrec : (compute s x, put s x) = (t, s') -> t = fv T (cs_env s) x /\ cinv s' /\ cs_env s' = cs_env s).
    { intros E. inversion E. subst. split; [eapply compute_fv; eassumption|]. split; [eapply put_inv; eassumption | reflexivity]. }
    destruct (cs_store s f) as [[ks t0]|] eqn:Es; [|apply Hrec; exact H].
    destruct (list_eqb ks (map (cs_env s) (cf_key x))) eqn:Ek; [|apply Hrec; exact H].
    inversion H. subst t0 s'. clear H. split; [|split; [exact I | reflexivity]].
    apply list_eqb_eq in Ek. destruct (I f x Hf) as [I1 I2]. destruct (cf_eager x) eqn:Ee.
    - destruct (I1 eq_refl) as [ks' Hs]. rewrite Es in Hs. inversion Hs. reflexivity.
    - destruct (I2 eq_refl ks t Es) as [e0 [H1 [H2 H3]]]. subst t. apply fv_ext. intros i Hi.
      destruct (in_dec Nat.eq_dec i (cf_key x)) as [Hk|Hk]; [|apply H3; assumption].
      apply (map_eq_pointwise e0 (cs_env s) (cf_key x)); [congruence | exact Hk].
  Qed.

  Lemma rebuild_fold_other : forall l s g, ~ In g l -> cs_store (fold_left (rebuild T) l s) g = cs_store s g /\ cs_env (fold_left (rebuild T) l s) = cs_env s.
  Proof.
    induction l as [|a l IH]; intros s g H; simpl; [auto|].
    assert (Hg : a <> g /\ ~ In g l) by (split; [intros E; apply H; left; exact E | intros E; apply H; right; exact E]).
    destruct Hg as [H1 H2]. destruct (IH (rebuild T s a) g H2) as [A B]. rewrite A, B. unfold rebuild.
    destruct (find_field T a) as [x|] eqn:E; [|auto]. destruct (find_field_id T a x E) as [Hid _]. unfold put. simpl.
    rewrite Hid. destruct (Nat.eqb g a) eqn:Eg; [apply Nat.eqb_eq in Eg; congruence | auto].
  Qed.
  Lemma rebuild_fold_env : forall l s, cs_env (fold_left (rebuild T) l s) = cs_env s.
  Proof.
    induction l as [|a l IH]; intros s; simpl; [reflexivity|]. rewrite IH. unfold rebuild. destruct (find_field T a); reflexivity.
  Qed.
  Lemma rebuild_fold_eager : forall l s g x, In g l -> find_field T g = Some x -> cf_eager x = true ->
      exists ks, cs_store (fold_left (rebuild T) l s) g = Some (ks, fv T (cs_env s) x).
  Proof.
    induction l as [|a l IH]; intros s g x Hin Hf He; [contradiction|]. simpl.
    destruct (shape g x Hf) as [S1 _]. destruct (find_field_id T g x Hf) as [Hid _].
    assert (Hput : forall s0, cs_env s0 = cs_env s -> exists ks, cs_store (rebuild T s0 g) g = Some (ks, fv T (cs_env s) x)).
    { intros s0 E0. unfold rebuild. rewrite Hf. unfold put. simpl. rewrite Hid, Nat.eqb_refl. eexists. unfold compute, fv. rewrite (S1 He), E0. reflexivity. }
    destruct (in_dec Nat.eq_dec g l) as [Hl|Hl].
    - destruct (IH (rebuild T s a) g x Hl Hf He) as [ks H]. exists ks. rewrite H. f_equal. f_equal.
      unfold rebuild. destruct (find_field T a); reflexivity.
    - destruct Hin as [E|Hin]; [|contradiction]. subst a.
      destruct (rebuild_fold_other l (rebuild T s g) g Hl) as [A _]. rewrite A. apply Hput. reflexivity.
  Qed.

  Lemma set_inv : forall s k asg, cinv s -> cinv (do_cset T s k asg).
  Proof.
    intros s k asg I. unfold do_cset. destruct (find_csetter T k) as [st|] eqn:Ek; [|exact I].
    unfold find_csetter in Ek. destruct (find (fun x => Nat.eqb (fst x) k) (ct_setters T)) as [[k0 st0]|] eqn:Efind; [|discriminate].
    inversion Ek; subst st0. clear Ek. apply find_some in Efind. destruct Efind as [Hks _].
    destruct ok_parts as [_ Hset]. pose proof (flat_map_nil' _ _ _ _ Hset (k0, st) Hks) as Hk. simpl in Hk.
    apply app_eq_nil in Hk. destruct Hk as [Hw Hcr].
    set (e := cs_env s). set (e' := cassign (cs_writes st) asg e).
    set (s1 := {| cs_env := e'; cs_store := fun g => if memb g (cs_clears st) then None else cs_store s g |}).
    assert (He1 : cs_env (fold_left (rebuild T) (cs_rebuilds st) s1) = e') by apply rebuild_fold_env.
    intros f x Hf. destruct (find_field_id T f x Hf) as [Hid Hin]. rewrite He1.
    (* what the checks say about this field *)
    pose proof (flat_map_nil' _ _ _ _ Hcr x Hin) as Hc. cbv beta in Hc. rewrite Hid in Hc.
    assert (Hdep : forall i, In i (cs_writes st) -> In i (tdeps T x) ->
               (cf_eager x = true -> memb f (cs_rebuilds st) = true) /\
               (cf_eager x = false -> memb f (cs_clears st) = true \/ In i (cf_key x))).
    { intros i Hi Hd. pose proof (flat_map_nil' _ _ _ _ (flat_map_nil' _ _ _ _ Hw i Hi) x Hin) as H. cbv beta in H. rewrite Hid in H.
      rewrite (proj2 (memb_In i _) Hd) in H. destruct (cf_eager x).
      - split; [|discriminate]. intros _. destruct (memb f (cs_rebuilds st)); [reflexivity | discriminate].
      - split; [discriminate|]. intros _. destruct (memb f (cs_clears st)) eqn:Ec; [left; reflexivity|]. right. simpl in H.
        destruct (memb i (cf_key x)) eqn:Ei; [apply memb_In; exact Ei | discriminate]. }
    assert (Hagree : forall i, ~ In i (cs_writes st) -> e' i = e i).
    { intros i Hi. unfold e'. apply cassign_other. apply memb_false. exact Hi. }
    split.
    - intros Hee. rewrite Hee in Hc. simpl in Hc. destruct (memb f (cs_clears st)) eqn:Ecl; [discriminate|].
      destruct (memb f (cs_rebuilds st)) eqn:Erb.
      + apply memb_In in Erb. destruct (rebuild_fold_eager (cs_rebuilds st) s1 f x Erb Hf Hee) as [ks H]. exists ks. exact H.
      + apply memb_false in Erb. destruct (rebuild_fold_other (cs_rebuilds st) s1 f Erb) as [A _]. rewrite A. simpl. rewrite Ecl.
        destruct (I f x Hf) as [I1 _]. destruct (I1 Hee) as [ks H]. exists ks. rewrite H. f_equal. f_equal. apply fv_ext.
        intros i Hi. symmetry. apply Hagree. intros Hwi. destruct (Hdep i Hwi Hi) as [D _]. specialize (D Hee).
        discriminate D.
    - intros Hee ks t Hst. rewrite Hee in Hc. simpl in Hc.
      destruct (memb f (cs_rebuilds st)) eqn:Erb; [discriminate|]. apply memb_false in Erb.
      destruct (rebuild_fold_other (cs_rebuilds st) s1 f Erb) as [A _]. rewrite A in Hst. simpl in Hst.
      destruct (memb f (cs_clears st)) eqn:Ecl; [discriminate|].
      destruct (I f x Hf) as [_ I2]. destruct (I2 Hee ks t Hst) as [e0 [H1 [H2 H3]]]. exists e0. split; [exact H1|]. split; [exact H2|].
      intros i Hi Hk. rewrite (H3 i Hi Hk). symmetry. apply Hagree. intros Hwi. destruct (Hdep i Hwi Hi) as [_ D].
      destruct (D Hee) as [D1|D1]; [congruence | contradiction].
  Qed.

  Lemma init_inv : forall e, cinv (cinit T e).
  Proof.
    intros e f x Hf. destruct (shape f x Hf) as [S1 _]. destruct (find_field_id T f x Hf) as [Hid _]. simpl. rewrite Hf. split.
    - intros He. rewrite He. eexists. unfold fv. rewrite (S1 He), Hid. reflexivity.
    - intros He ks t H. rewrite He in H. discriminate.
  Qed.

  Theorem cache_coherent : forall ops s, cinv s -> ctrace T s ops = ctrace_fresh T s ops.
  Proof.
    induction ops as [|[k asg|f] r IH]; intros s I; simpl; [reflexivity| |].
    - apply IH. apply set_inv. exact I.
    - destruct (do_cquery T s f) as [t s'] eqn:E. simpl. destruct (find_field T f) as [x|] eqn:Ef.
      + destruct (query_sound s f x t s' I Ef E) as [H1 [H2 _]]. rewrite H1. f_equal. apply IH. exact H2.
      + unfold do_cquery in E. rewrite Ef in E. inversion E. subst. f_equal. apply IH. exact I.
  Qed.
End Cache.

(* C10 carrier (1) - the process-wide random generator of src/Basic/Law.cpp (old style). NO proofs.
   Law.cpp:20-24  static int Random_factor = 105, Random_congruent = 20000159, Random_value = 43241421; bool Random_Old_Style
   Law.cpp:106-115 law_set_random_seed(seed): if (seed > 0) Random_value = seed;   (a seed <= 0 is ignored)
   Law.cpp:127-150 law_uniform: unsigned int p = Random_factor * Random_value; Random_value = p % Random_congruent;
                  if (Random_value == 0) Random_value = 1; *)
From Coq Require Import List ZArith Bool.
Import ListNotations.
Local Open Scope Z_scope.

Definition factor : Z := 105.
Definition congruent : Z := 20000159.
Definition initial_value : Z := 43241421.

Inductive rop := RSeed (s : Z) | RDraw.

Definition set_seed (s : Z) (rv : Z) : Z := if Z.ltb 0 s then s else rv.
(* the 32-bit product: int * int evaluated modulo 2^32 and read as unsigned *)
(* Law.cpp:136-139: a state equal to 0 would freeze the generator; it is replaced by 1 *)
Definition nz (r : Z) : Z := if Z.eqb r 0 then 1 else r.
Definition draw (rv : Z) : Z := nz (((factor * rv) mod 2 ^ 32) mod congruent).

Definition rstep (rv : Z) (o : rop) : Z := match o with RSeed s => set_seed s rv | RDraw => draw rv end.
(* the values of Random_value after each operation (what law_get_random_seed() returns; law_uniform() = that / congruent) *)
Fixpoint rrun (rv : Z) (p : list rop) : list Z :=
  match p with [] => [] | o :: r => let rv' := rstep rv o in rv' :: rrun rv' r end.
Fixpoint rstate (rv : Z) (p : list rop) : Z :=
  match p with [] => rv | o :: r => rstate (rstep rv o) r end.

(* C10 carrier (1) - the process-wide random generator of src/Basic/Law.cpp (old style). NO proofs.
   Law.cpp:20-24  static int Random_factor = 105, Random_congruent = 20000159, Random_value = 43241421; bool Random_Old_Style
   Law.cpp:106-115 law_set_random_seed(seed): if (seed > 0) Random_value = seed;   (a seed <= 0 is ignored)
   Law.cpp:127-150 law_uniform: unsigned int p = Random_factor * Random_value; Random_value = p % Random_congruent;
                  if (Random_value == 0) Random_value = 1; *)
From Coq Require Import List ZArith Bool.
Import ListNotations.
Local Open Scope Z_scope.

Definition factor : Z := 105.
Definition congruent : Z := 20000159.
Definition initial_value : Z := 43241421.

Inductive rop := RSeed (s : Z) | RDraw.

Definition set_seed (s : Z) (rv : Z) : Z := if Z.ltb 0 s then s else rv.
(* the 32-bit product: int * int evaluated modulo 2^32 and read as unsigned *)
(* Law.cpp:136-139: a state equal to 0 would freeze the generator; it is replaced by 1 *)
Definition nz (r : Z) : Z := if Z.eqb r 0 then 1 else r.
Definition draw (rv : Z) : Z := nz (((factor * rv) mod 2 ^ 32) mod congruent).

Definition rstep (rv : Z) (o : rop) : Z := match o with RSeed s => set_seed s rv | RDraw => draw rv end.
(* the values of Random_value after each operation (what law_get_random_seed() returns; law_uniform() = that / congruent) *)
Fixpoint rrun (rv : Z) (p : list rop) : list Z :=
  match p with [] => [] | o :: r => let rv' := rstep rv o in rv' :: rrun rv' r end.
Fixpoint rstate (rv : Z) (p : list rop) : Z :=
  match p with [] => rv | o :: r => rstate (rstep rv o) r end.

(* ---------------------------------------------------------------------------------------------------------------
   Both styles.  Law.cpp:20-24: Random_value, Random_Old_Style, std::mt19937 Random_gen.
   Old style: Random_value IS the state.  New style: the state is the engine Random_gen; Random_value is only the last
   seed given (law_uniform does not touch it: Law.cpp:143-148).  The engine is a black box: seeding it makes its state a
   function of the seed, a draw advances the state and returns a function of it. *)
Section TwoStyles.
  Variable G : Type.
  Variable gseed : Z -> G.         (* Random_gen.seed((unsigned) seed) *)
  Variable gnext : G -> G.
  Variable gout : G -> Z.          (* what a draw returns, as a function of the engine state *)

  Record rst := { r_old : bool; r_val : Z; r_gen : G }.
  Inductive rop2 := R2Seed (s : Z) | R2Draw | R2Style (old : bool).

  (* law_set_random_seed: Law.cpp:106-115 *)
  Definition set_seed2 (s : Z) (st : rst) : rst :=
    if Z.ltb 0 s then {| r_old := r_old st; r_val := s; r_gen := if r_old st then r_gen st else gseed s |} else st.
  (* the variant that returns at once when the seed is "already the current one" *)
  Definition set_seed2_early (s : Z) (st : rst) : rst :=
    if Z.leb s 0 || Z.eqb s (r_val st) then st else {| r_old := r_old st; r_val := s; r_gen := if r_old st then r_gen st else gseed s |}.
  Definition draw2 (st : rst) : Z * rst :=
    if r_old st then let v := draw (r_val st) in (v, {| r_old := true; r_val := v; r_gen := r_gen st |})
    else (gout (r_gen st), {| r_old := false; r_val := r_val st; r_gen := gnext (r_gen st) |}).
  Definition rstep2 (setseed : Z -> rst -> rst) (st : rst) (o : rop2) : list Z * rst :=
    match o with
    | R2Seed s => ([], setseed s st)
    | R2Draw => let '(v, st') := draw2 st in ([v], st')
    | R2Style b => ([], {| r_old := b; r_val := r_val st; r_gen := r_gen st |})      (* law_set_old_style: Law.cpp:66-69 *)
    end.
  (* the values drawn along a history *)
  Fixpoint rrun2 (setseed : Z -> rst -> rst) (st : rst) (p : list rop2) : list Z :=
    match p with [] => [] | o :: r => let '(vs, st') := rstep2 setseed st o in vs ++ rrun2 setseed st' r end.
  Fixpoint rstate2 (setseed : Z -> rst -> rst) (st : rst) (p : list rop2) : rst :=
    match p with [] => st | o :: r => rstate2 setseed (snd (rstep2 setseed st o)) r end.
End TwoStyles.

(* ---------------------------------------------------------------------------------------------------------------
   The quasi-random (Richtmeyer) sequence of mvndst: st_dkrcht, src/Basic/MathFunc.cpp:954-1010.  Its state lives in
   statics: DKRCHT_OLDS (dimension of the running sequence), hisum and the binary counter n[0..hisum]; the vector it
   returns is fmod(rn * sqrt(prime_i), 1) where rn is the value of the counter.  mvndst sets DKRCHT_OLDS = 0 on entry
   (MathFunc.cpp:1342).  The model returns rn. *)
Local Close Scope Z_scope.
Local Open Scope nat_scope.
Record dk := { dk_olds : nat; dk_hisum : nat; dk_n : nat -> nat }.
Definition dk_upd (f : nat -> nat) (k v : nat) : nat -> nat := fun x => if Nat.eqb x k then v else f x.
(* if (s differs from olds, or s < 1) { olds = s; n[0] = 0; hisum = 0; ... } *)
Definition dk_reinit (s : nat) (st : dk) : dk :=
  if negb (Nat.eqb s (dk_olds st)) || Nat.ltb s 1 then {| dk_olds := s; dk_hisum := 0; dk_n := dk_upd (dk_n st) 0 0 |} else st.
(* for (i = 0; i <= hisum; ++i) { ++n[i]; if (n[i] < 2) goto L10; n[i] = 0; } *)
Fixpoint dk_incr (idx : list nat) (n : nat -> nat) : (nat -> nat) * bool :=
  match idx with
  | [] => (n, false)
  | i :: r => let v := S (n i) in if Nat.ltb v 2 then (dk_upd n i v, true) else dk_incr r (dk_upd n i 0)
  end.
Definition dk_core (st : dk) : nat * dk :=
  let ns := dk_incr (seq 0 (S (dk_hisum st))) (dk_n st) in
  let h2 := if snd ns then dk_hisum st else (if Nat.ltb 48 (S (dk_hisum st)) then 0 else S (dk_hisum st)) in
  let n2 := if snd ns then fst ns else dk_upd (fst ns) h2 1 in
  (fold_left (fun acc i => n2 i + 2 * acc) (rev (seq 0 (S h2))) 0, {| dk_olds := dk_olds st; dk_hisum := h2; dk_n := n2 |}).
Definition dk_step (s : nat) (st0 : dk) : nat * dk := dk_core (dk_reinit s st0).
Fixpoint dk_run (s : nat) (st : dk) (k : nat) : list nat :=
  match k with O => [] | S k' => let '(r, st') := dk_step s st in r :: dk_run s st' k' end.
Definition dk_reset (st : dk) : dk := {| dk_olds := 0; dk_hisum := dk_hisum st; dk_n := dk_n st |}.

(* C10 carrier (4) - generic development about lazy evaluation graphs (Model.v).
   Main result [lazy_coherent]: for ANY graph whose static conditions hold, along ANY history of set*/get*
   calls (failing ones included) every get* answers what a fresh object given the inputs in force answers. *)
From Coq Require Import List Arith Bool Lia.
From Gst Require Import C10.Model.
Import ListNotations.

Definition ids (nodes : list (nat * body)) : list nat := map fst nodes.
Definition res_of (d : dres) : res := match d with DOk _ => ROk | DFail => RFail | DCrash => RCrash end.
Definition val_of (d : dres) : option term := match d with DOk v => v | _ => None end.

(* ------------------------------------------------------------------ small facts *)
Lemma memb_In : forall x l, memb x l = true <-> In x l.
Proof.
  intros x l. unfold memb. rewrite existsb_exists. split.
  - intros [y [Hy He]]. apply Nat.eqb_eq in He. subst. exact Hy.
  - intros H. exists x. split; [exact H | apply Nat.eqb_refl].
Qed.
Lemma memb_false : forall x l, memb x l = false <-> ~ In x l.
Proof. intros x l. rewrite <- memb_In. destruct (memb x l); split; congruence. Qed.
Lemma mem_eqb_eq : forall a b, mem_eqb a b = true <-> a = b.
Proof.
  intros [i|i|i] [j|j|j]; simpl; try (split; [discriminate | congruence]);
    rewrite Nat.eqb_eq; split; congruence.
Qed.
Lemma mem_in_In : forall x l, mem_in x l = true <-> In x l.
Proof.
  intros x l. unfold mem_in. rewrite existsb_exists. split.
  - intros [y [Hy He]]. apply mem_eqb_eq in He. subst. exact Hy.
  - intros H. exists x. split; [exact H | apply mem_eqb_eq; reflexivity].
Qed.
Lemma aexp_eqb_eq : forall a b, aexp_eqb a b = true -> a = b.
Proof.
  induction a as [p|p|a IH|a1 IH1 a2 IH2|a1 IH1 a2 IH2]; intros [q|q|b|b1 b2|b1 b2]; simpl; try discriminate.
  - intros H. apply Nat.eqb_eq in H. congruence.
  - intros H. apply Nat.eqb_eq in H. congruence.
  - intros H. f_equal. apply IH. exact H.
  - intros H. apply andb_true_iff in H. destruct H as [H1 H2]. f_equal; auto.
  - intros H. apply andb_true_iff in H. destruct H as [H1 H2]. f_equal; auto.
Qed.

Lemma enabled_app : forall e c1 c2, enabled e (c1 ++ c2) = true <-> enabled e c1 = true /\ enabled e c2 = true.
Proof. intros. unfold enabled. rewrite forallb_app. apply andb_true_iff. Qed.

Lemma subpc_enabled : forall e c' c, subpc c' c = true -> enabled e c = true -> enabled e c' = true.
Proof.
  intros e c' c Hs He. unfold enabled in *. unfold subpc in Hs.
  rewrite forallb_forall in *. intros l Hl. specialize (Hs l Hl).
  apply existsb_exists in Hs. destruct Hs as [k [Hk Hlk]].
  unfold lit_eqb in Hlk. apply andb_true_iff in Hlk. destruct Hlk as [H1 H2].
  apply aexp_eqb_eq in H1. specialize (He k Hk). unfold lit_holds in *.
  destruct l as [a b], k as [a' b']. simpl in *. subst a'.
  apply eqb_prop in H2. subst b'. exact He.
Qed.

Lemma compat_of_enabled : forall e c c', enabled e c = true -> enabled e c' = true -> compat c c' = true.
Proof.
  intros e c c' H1 H2. unfold compat. apply negb_true_iff.
  destruct (existsb (fun l => existsb (lit_opp l) c') c) eqn:E; [|reflexivity].
  apply existsb_exists in E. destruct E as [l [Hl E]]. apply existsb_exists in E. destruct E as [k [Hk E]].
  unfold enabled in *. rewrite forallb_forall in H1, H2. specialize (H1 l Hl). specialize (H2 k Hk).
  unfold lit_opp in E. apply andb_true_iff in E. destruct E as [Ea Eb]. apply aexp_eqb_eq in Ea.
  unfold lit_holds in *. destruct l as [a b], k as [a' b']. simpl in *. subst a'.
  apply eqb_prop in H1. apply eqb_prop in H2. subst. rewrite eqb_reflx in Eb. discriminate.
Qed.

Lemma forallb_negb_compat : forall rets c2 rc, forallb (fun rc => negb (compat rc c2)) rets = true -> In rc rets -> compat rc c2 = false.
Proof. intros rets c2 rc H Hin. rewrite forallb_forall in H. specialize (H rc Hin). apply negb_true_iff in H. exact H. Qed.

Lemma sure_aux_rets : forall steps rets c m, In (c, m) (sure_aux rets steps) -> forall rc, In rc rets -> compat rc c = false.
Proof.
  induction steps as [|[c0 st] r IH]; intros rets c m H rc Hrc; simpl in H; [contradiction|].
  destruct st; try (eapply IH; eassumption).
  - apply in_app_or in H. destruct H as [H|H]; [|eapply IH; eassumption].
    destruct (forallb (fun rc0 => negb (compat rc0 c0)) rets) eqn:E; [|contradiction].
    destruct H as [H|[]]. inversion H. subst. eapply forallb_negb_compat; eassumption.
  - eapply IH; [eassumption|]. right. exact Hrc.
Qed.
Lemma sure_aux_step : forall steps rets c m, In (c, m) (sure_aux rets steps) -> In (c, SNeed m) steps.
Proof.
  induction steps as [|[c0 st] r IH]; intros rets c m H; simpl in H; [contradiction|].
  destruct st; try (right; eapply IH; eassumption).
  apply in_app_or in H. destruct H as [H|H]; [|right; eapply IH; eassumption].
  destruct (forallb (fun rc0 => negb (compat rc0 c0)) rets); [|contradiction].
  destruct H as [H|[]]. inversion H. subst. left. reflexivity.
Qed.
Lemma expand_app : forall f d1 d2, expand f (d1 ++ d2) = expand f d1 ++ expand f d2.
Proof. intros. unfold expand. apply flat_map_app. Qed.
Lemma in_expand : forall f d c m, In (c, m) (expand f d) ->
    exists c1 k c2, In (c1, MNode k) d /\ In (c2, m) (f k) /\ c = c1 ++ c2.
Proof.
  intros f d c m H. unfold expand in H. apply in_flat_map in H. destruct H as [[c1 m1] [H1 H2]]. simpl in H2.
  destruct m1 as [i|p|k]; try contradiction. apply in_map_iff in H2. destruct H2 as [[c2 m2] [E H2]].
  simpl in E. inversion E. subst. exists c1, k, c2. auto.
Qed.

(* members referred to by a checked body exist in the rest of the list *)
Lemma check_steps_need_ref : forall rest n steps seen pubs c k,
    check_steps rest n steps seen pubs = [] -> In (c, SNeed (MNode k)) steps -> In k (ids rest).
Proof.
  induction steps as [|[c0 st] r IH]; intros seen pubs c k H Hin; [contradiction|].
  simpl in H. destruct Hin as [E|Hin].
  - inversion E. subst. apply app_eq_nil in H. destruct H as [H _].
    destruct (memb k (map fst rest)) eqn:Em; [apply memb_In in Em; exact Em | discriminate].
  - destruct st; repeat (apply app_eq_nil in H; destruct H as [? H]); try (eapply IH; eassumption).
Qed.

Lemma check_nodes_inv : forall n b rest, check_nodes ((n, b) :: rest) = [] ->
    ~ In n (ids rest) /\ b_guard b = Some n /\ check_steps rest n (b_steps b) [] [] = [] /\ check_nodes rest = [].
Proof.
  intros n b rest H. simpl in H.
  apply app_eq_nil in H. destruct H as [H1 H]. apply app_eq_nil in H. destruct H as [H2 H].
  apply app_eq_nil in H. destruct H as [H3 H4]. repeat split; try assumption.
  - destruct (memb n (map fst rest)) eqn:E; [discriminate|]. apply memb_false in E. exact E.
  - destruct (b_guard b) as [g|]; [|discriminate]. destruct (Nat.eqb g n) eqn:E; [|discriminate].
    apply Nat.eqb_eq in E. congruence.
Qed.
Lemma check_nodes_nodup : forall nodes, check_nodes nodes = [] -> NoDup (ids nodes).
Proof.
  induction nodes as [|[n b] rest IH]; intros H; simpl; [constructor|].
  apply check_nodes_inv in H. destruct H as [H1 [_ [_ H4]]]. constructor; [exact H1 | apply IH; exact H4].
Qed.

Lemma sure_nodes_in : forall nodes, check_nodes nodes = [] ->
    forall k c j, In (c, MNode j) (sure nodes k) -> In j (ids nodes).
Proof.
  induction nodes as [|[n b] rest IH]; intros Hc k c j H; simpl in H; [contradiction|].
  apply check_nodes_inv in Hc. destruct Hc as [Hn [Hg [Hs Hr]]].
  destruct (Nat.eqb n k) eqn:E.
  - apply in_app_or in H. destruct H as [H|H].
    + right. apply sure_aux_step in H. eapply check_steps_need_ref; eassumption.
    + apply in_expand in H. destruct H as [c1 [k' [c2 [H1 [H2 _]]]]]. right. eapply IH; eassumption.
  - right. eapply IH; eassumption.
Qed.

Section Sim.
  Variable fallv : nat -> nat -> list term -> bool.
  Variable chk : nat -> nat.
  Hypothesis chk_id : forall i, chk i = i.
  Variable G0 : list (nat * body).
  Hypothesis G0_nodup : NoDup (ids G0).

  Notation denG := (den fallv chk G0).
  Notation denm := (den_mem fallv chk G0).

  Definition avail (s : state) (m : mem) : Prop :=
    exists v, denm (st_env s) m = DOk v /\ lookup s m = v.

  (* the cache holds only what a fresh object would compute, and a cached member has everything it counts on *)
  Definition coh_on (L : list nat) (s : state) : Prop :=
    forall k, In k L -> forall t, st_cache s k = Some t ->
      denG (st_env s) k = DOk (Some t) /\
      (forall c m, In (c, m) (sure G0 k) -> enabled (st_env s) c = true -> avail s m).

  Definition mono_x (n : option nat) (s s' : state) : Prop :=
    forall j t, Some j <> n -> st_cache s j = Some t -> st_cache s' j = Some t.
  Definition frame_x (n : option nat) (L : list nat) (s s' : state) : Prop :=
    forall j, Some j <> n -> ~ In j L -> st_cache s' j = st_cache s j.

  Lemma avail_persist : forall n L s s' m,
      avail s m -> (forall j, n = Some j -> m <> MNode j) ->
      st_env s' = st_env s -> mono_x n s s' -> frame_x n L s s' -> coh_on L s' -> avail s' m.
  Proof.
    intros n L s s' m [v [Hd Hl]] Hn He Hm Hf Hc. exists v. rewrite He. split; [exact Hd|].
    destruct m as [i|p|j]; simpl in *.
    - rewrite He. exact Hl.
    - rewrite He. exact Hl.
    - assert (Hjn : Some j <> n).
      { intros E. symmetry in E. apply (Hn j E). reflexivity. }
      destruct v as [t|].
      + apply Hm; assumption.
      + destruct (st_cache s' j) as [t'|] eqn:E; [|reflexivity].
        destruct (in_dec Nat.eq_dec j L) as [HL|HL].
        * destruct (Hc j HL t' E) as [Hd' _]. rewrite He in Hd'. rewrite Hd in Hd'. discriminate.
        * rewrite (Hf j Hjn HL) in E. rewrite Hl in E. discriminate.
  Qed.

  Lemma den_notin : forall nodes e k, ~ In k (ids nodes) -> den fallv chk nodes e k = DCrash.
  Proof.
    induction nodes as [|[n b] rest IH]; intros e k H; simpl; [reflexivity|].
    simpl in H. destruct (Nat.eqb n k) eqn:E.
    - apply Nat.eqb_eq in E. exfalso. apply H. left. exact E.
    - apply IH. intros Hin. apply H. right. exact Hin.
  Qed.
  Lemma den_suffix : forall pre nodes e k, NoDup (ids (pre ++ nodes)) -> In k (ids nodes) ->
      den fallv chk (pre ++ nodes) e k = den fallv chk nodes e k.
  Proof.
    induction pre as [|[n b] pre IH]; intros nodes e k Hnd Hin; simpl; [reflexivity|].
    simpl in Hnd. inversion Hnd as [|x l Hx Hl]. subst.
    destruct (Nat.eqb n k) eqn:E.
    - apply Nat.eqb_eq in E. subst. exfalso. apply Hx. unfold ids. rewrite map_app. apply in_or_app. right. exact Hin.
    - apply IH; assumption.
  Qed.
  Lemma sure_suffix : forall pre nodes k, NoDup (ids (pre ++ nodes)) -> In k (ids nodes) ->
      sure (pre ++ nodes) k = sure nodes k.
  Proof.
    induction pre as [|[n b] pre IH]; intros nodes k Hnd Hin; simpl; [reflexivity|].
    simpl in Hnd. inversion Hnd as [|x l Hx Hl]. subst.
    destruct (Nat.eqb n k) eqn:E.
    - apply Nat.eqb_eq in E. subst. exfalso. apply Hx. unfold ids. rewrite map_app. apply in_or_app. right. exact Hin.
    - apply IH; assumption.
  Qed.

  Lemma set_cache_same : forall s n t, st_cache (set_cache s n t) n = t.
  Proof. intros. simpl. rewrite Nat.eqb_refl. reflexivity. Qed.
  Lemma set_cache_other : forall s n t j, j <> n -> st_cache (set_cache s n t) j = st_cache s j.
  Proof. intros. simpl. destruct (Nat.eqb j n) eqn:E; [apply Nat.eqb_eq in E; contradiction | reflexivity]. Qed.
  Lemma avail_set_cache : forall s n t m, avail s m -> m <> MNode n -> avail (set_cache s n t) m.
  Proof.
    intros s n t m [v [Hd Hl]] Hm. exists v. split; [exact Hd|].
    destruct m as [i|p|j]; try exact Hl. simpl. destruct (Nat.eqb j n) eqn:E; [|exact Hl].
    apply Nat.eqb_eq in E. subst. exfalso. apply Hm. reflexivity.
  Qed.

  (* ---------------------------------------------------------------- one body *)
  Section Body.
    Variable pre : list (nat * body).
    Variable n : nat.
    Variable b : body.
    Variable rest : list (nat * body).
    Hypothesis HG : G0 = pre ++ (n, b) :: rest.
    Hypothesis Hn_rest : ~ In n (ids rest).
    Hypothesis Hsure_rest : forall k c j, In (c, MNode j) (sure rest k) -> In j (ids rest).

    (* induction hypothesis on the rest of the list *)
    Hypothesis IHrest : forall s k r s',
        coh_on (ids rest) s -> need fallv chk rest s k = (r, s') -> In k (ids rest) ->
        st_env s' = st_env s /\ r = res_of (denG (st_env s) k) /\ mono_x None s s' /\ frame_x None (ids rest) s s' /\
        (r <> RCrash -> coh_on (ids rest) s') /\
        (r = ROk -> avail s' (MNode k) /\ forall c m, In (c, m) (sure G0 k) -> enabled (st_env s) c = true -> avail s' m).

    Lemma rest_nodup : NoDup (ids ((pre ++ [(n, b)]) ++ rest)).
    Proof. rewrite <- app_assoc. simpl. rewrite <- HG. exact G0_nodup. Qed.
    Lemma den_rest : forall e k, In k (ids rest) -> den fallv chk rest e k = denG e k.
    Proof.
      intros e k H. rewrite HG. replace (pre ++ (n, b) :: rest) with ((pre ++ [(n, b)]) ++ rest) by (rewrite <- app_assoc; reflexivity).
      symmetry. apply den_suffix; [apply rest_nodup | exact H].
    Qed.
    Lemma sure_rest : forall k, In k (ids rest) -> sure rest k = sure G0 k.
    Proof.
      intros k H. rewrite HG. replace (pre ++ (n, b) :: rest) with ((pre ++ [(n, b)]) ++ rest) by (rewrite <- app_assoc; reflexivity).
      symmetry. apply sure_suffix; [apply rest_nodup | exact H].
    Qed.

    Notation recN := (fun s' m => match m with MNode k' => need fallv chk rest s' k' | _ => need_leaf chk s' m end).
    Notation recD e := (fun m => match m with MNode k' => den fallv chk rest e k' | _ => den_leaf chk e m end).

    (* one call of a need from inside the body *)
    Lemma rec_sim : forall s m x s1,
        coh_on (ids rest) s -> (forall k, m = MNode k -> In k (ids rest)) ->
        recN s m = (x, s1) ->
        recD (st_env s) m = denm (st_env s) m /\
        st_env s1 = st_env s /\ x = res_of (denm (st_env s) m) /\ mono_x None s s1 /\ frame_x None (ids rest) s s1 /\
        (x <> RCrash -> coh_on (ids rest) s1) /\
        (x = ROk -> avail s1 m /\
                    forall c' m', (exists k, m = MNode k /\ In (c', m') (sure rest k)) -> enabled (st_env s) c' = true -> avail s1 m').
    Proof.
      intros s m x s1 Hcoh Hm Hrec. destruct m as [i|p|k].
      - simpl in Hrec. inversion Hrec. subst s1. clear Hrec.
        split; [reflexivity|]. split; [reflexivity|]. split.
        { simpl. destruct (present (st_env s) (chk i)); reflexivity. }
        split; [intros j t _ H; exact H|]. split; [intros j _ _; reflexivity|]. split; [intros _; exact Hcoh|].
        intros Hx. split.
        + exists (in_value (st_env s) i). simpl. subst x. destruct (present (st_env s) (chk i)); [split; reflexivity | discriminate].
        + intros c' m' [k [E _]]. discriminate.
      - simpl in Hrec. inversion Hrec. subst s1. clear Hrec.
        split; [reflexivity|]. split; [reflexivity|]. split; [reflexivity|].
        split; [intros j t _ H; exact H|]. split; [intros j _ _; reflexivity|]. split; [intros _; exact Hcoh|].
        intros Hx. split.
        + eexists. simpl. split; reflexivity.
        + intros c' m' [k [E _]]. discriminate.
      - assert (Hk : In k (ids rest)) by (apply Hm; reflexivity).
        destruct (IHrest s k x s1 Hcoh Hrec Hk) as [H1 [H2 [H3 [H4 [H5 H6]]]]].
        simpl. rewrite den_rest by exact Hk.
        split; [reflexivity|]. split; [exact H1|]. split; [exact H2|]. split; [exact H3|]. split; [exact H4|]. split; [exact H5|].
        intros Hx. split.
        + destruct (H6 Hx) as [Ha _]. exact Ha.
        + intros c' m' [k0 [E Hin]] Hen. inversion E. subst k0. destruct (H6 Hx) as [_ Hb].
          apply (Hb c' m'); [|exact Hen]. rewrite <- sure_rest by exact Hk. exact Hin.
    Qed.

    Definition sure_full (rets : list pc) (steps : list (pc * step)) : list (pc * mem) :=
      let d := sure_aux rets steps in d ++ expand (sure rest) d.

    Lemma in_sure_full_rets : forall rets steps c m, In (c, m) (sure_full rets steps) ->
        forall rc e, In rc rets -> enabled e rc = true -> enabled e c = false.
    Proof.
      intros rets steps c m H rc e Hrc Hen. unfold sure_full in H. apply in_app_or in H.
      destruct (enabled e c) eqn:E; [|reflexivity]. exfalso. destruct H as [H|H].
      - pose proof (sure_aux_rets _ _ _ _ H rc Hrc) as Hc. rewrite (compat_of_enabled e rc c Hen E) in Hc. discriminate.
      - apply in_expand in H. destruct H as [c1 [k [c2 [H1 [H2 Ec]]]]]. subst c.
        apply enabled_app in E. destruct E as [E1 E2].
        pose proof (sure_aux_rets _ _ _ _ H1 rc Hrc) as Hc. rewrite (compat_of_enabled e rc c1 Hen E1) in Hc. discriminate.
    Qed.

    Lemma finish_sim : forall s pacc acc pub e,
        st_env s = e -> coh_on (ids rest) s -> (pub = false -> st_cache s n = None) ->
        let s' := finish n pacc acc pub s in
        st_env s' = e /\ mono_x (Some n) s s' /\ frame_x (Some n) (ids rest) s s' /\ coh_on (ids rest) s' /\
        st_cache s' n = (if pub then Some (TNode n (pacc ++ acc)) else None).
    Proof.
      intros s pacc acc pub e He Hcoh Hnp. unfold finish. destruct pub.
      - split; [exact He|]. split.
        { intros j t Hj H. rewrite set_cache_other; [exact H | congruence]. }
        split.
        { intros j Hj _. rewrite set_cache_other; [reflexivity | congruence]. }
        split.
        { intros k Hk t Ht. rewrite set_cache_other in Ht by (intros E; subst; contradiction).
          destruct (Hcoh k Hk t Ht) as [H1 H2]. split; [exact H1|].
          intros c m Hin Hen.
          apply avail_set_cache; [apply (H2 c m); assumption|].
          intros Em. subst m. apply Hn_rest. rewrite <- sure_rest in Hin by exact Hk. eapply Hsure_rest. exact Hin. }
        apply set_cache_same.
      - split; [exact He|]. split; [intros j t _ H; exact H|]. split; [intros j _ _; reflexivity|].
        split; [exact Hcoh|]. apply Hnp. reflexivity.
    Qed.

    Lemma after_pub_false : forall e pubs c pub,
        (pub = true -> exists cp, In cp pubs /\ enabled e cp = true) -> enabled e c = true ->
        existsb (fun cp => compat cp c) pubs = false -> pub = false.
    Proof.
      intros e pubs c pub Hpub Hen Hex. destruct pub; [|reflexivity]. destruct (Hpub eq_refl) as [cp [Hin Hcp]].
      assert (existsb (fun cp0 => compat cp0 c) pubs = true).
      { apply existsb_exists. exists cp. split; [exact Hin | eapply compat_of_enabled; eassumption]. }
      congruence.
    Qed.

    Definition post (s : state) (e : env) (d : dres) (entries : list (pc * mem)) (r : res) (s' : state) : Prop :=
      st_env s' = e /\ r = res_of d /\ mono_x (Some n) s s' /\ frame_x (Some n) (ids rest) s s' /\
      (r <> RCrash -> coh_on (ids rest) s') /\ (r = RFail -> st_cache s' n = None) /\
      (r = ROk -> st_cache s' n = val_of d /\
                  forall c m, In (c, m) entries -> m <> MNode n -> enabled e c = true -> avail s' m).

    Lemma post_fail : forall s e entries, st_env s = e -> coh_on (ids rest) s -> st_cache s n = None ->
        post s e DFail entries RFail s.
    Proof.
      intros s e entries He Hc Hn. unfold post.
      split; [exact He|]. split; [reflexivity|]. split; [intros j t _ H; exact H|]. split; [intros j _ _; reflexivity|].
      split; [intros _; exact Hc|]. split; [intros _; exact Hn|]. intros H. discriminate.
    Qed.
    Lemma post_crash : forall s e entries, st_env s = e -> post s e DCrash entries RCrash s.
    Proof.
      intros s e entries He. unfold post.
      split; [exact He|]. split; [reflexivity|]. split; [intros j t _ H; exact H|]. split; [intros j _ _; reflexivity|].
      split; [intros H; exfalso; apply H; reflexivity|]. split; intros H; discriminate.
    Qed.
    Lemma post_trans : forall s s1 e d entries r s',
        mono_x (Some n) s s1 -> frame_x (Some n) (ids rest) s s1 ->
        post s1 e d entries r s' -> post s e d entries r s'.
    Proof.
      intros s s1 e d entries r s' Hm Hf [P1 [P2 [P3 [P4 [P5 [P6 P7]]]]]]. unfold post.
      split; [exact P1|]. split; [exact P2|]. split.
      { intros j t Hj H. apply P3; [exact Hj|]. apply Hm; assumption. }
      split.
      { intros j Hj Hin. rewrite P4 by assumption. apply Hf; assumption. }
      split; [exact P5|]. split; [exact P6|exact P7].
    Qed.
    Lemma post_entries : forall s e d en1 en2 r s',
        post s e d en2 r s' ->
        (r = ROk -> coh_on (ids rest) s' -> forall c m, In (c, m) en1 -> m <> MNode n -> enabled e c = true ->
                    In (c, m) en2 \/ avail s' m) ->
        post s e d en1 r s'.
    Proof.
      intros s e d en1 en2 r s' [P1 [P2 [P3 [P4 [P5 [P6 P7]]]]]] H. unfold post.
      split; [exact P1|]. split; [exact P2|]. split; [exact P3|]. split; [exact P4|]. split; [exact P5|]. split; [exact P6|].
      intros Hr. destruct (P7 Hr) as [Q1 Q2]. split; [exact Q1|].
      intros c m Hin Hm Hen. assert (Hc : coh_on (ids rest) s') by (apply P5; rewrite Hr; discriminate).
      destruct (H Hr Hc c m Hin Hm Hen) as [H'|H']; [apply (Q2 c m); assumption | exact H'].
    Qed.

    Lemma mono_none_some : forall s s1, mono_x None s s1 -> mono_x (Some n) s s1.
    Proof. intros s s1 H j t _ Hc. apply H; [discriminate | exact Hc]. Qed.
    Lemma frame_none_some : forall s s1, frame_x None (ids rest) s s1 -> frame_x (Some n) (ids rest) s s1.
    Proof. intros s s1 H j _ Hin. apply H; [discriminate | exact Hin]. Qed.

    Lemma covered_avail : forall e s seen c m,
        (forall c0 m0, In (c0, m0) seen -> m0 <> MNode n -> enabled e c0 = true -> avail s m0) ->
        covered seen c m = true -> m <> MNode n -> enabled e c = true -> avail s m.
    Proof.
      intros e s seen c m Hseen Hcov Hm Hen. unfold covered in Hcov. apply existsb_exists in Hcov.
      destruct Hcov as [[c0 m0] [Hin H]]. simpl in H. apply andb_true_iff in H. destruct H as [H1 H2].
      apply mem_eqb_eq in H1. subst m0. apply (Hseen c0 m Hin Hm). eapply subpc_enabled; eassumption.
    Qed.

    Lemma coh_set_cache : forall s t, coh_on (ids rest) s -> coh_on (ids rest) (set_cache s n t).
    Proof.
      intros s t Hcoh k Hk t' Ht. rewrite set_cache_other in Ht by (intros E; subst; contradiction).
      destruct (Hcoh k Hk t' Ht) as [H1 H2]. split; [exact H1|].
      intros c m Hin Hen. apply avail_set_cache; [apply (H2 c m); assumption|].
      intros Em. subst m. apply Hn_rest. rewrite <- sure_rest in Hin by exact Hk. eapply Hsure_rest. exact Hin.
    Qed.

    Lemma post_stop : forall s s1 e d entries x,
        st_env s1 = e -> x = res_of d -> x <> ROk -> mono_x (Some n) s s1 -> frame_x (Some n) (ids rest) s s1 ->
        (x <> RCrash -> coh_on (ids rest) s1) -> (x = RFail -> st_cache s1 n = None) ->
        post s e d entries x s1.
    Proof.
      intros s s1 e d entries x H1 H2 H3 H4 H5 H6 H7. unfold post.
      split; [exact H1|]. split; [exact H2|]. split; [exact H4|]. split; [exact H5|]. split; [exact H6|]. split; [exact H7|].
      intros H. contradiction.
    Qed.

    Lemma sure_full_other : forall rets c st r,
        (forall m, st <> SNeed m) -> st <> SRet0 -> sure_full rets ((c, st) :: r) = sure_full rets r.
    Proof.
      intros rets c st r H1 H2. unfold sure_full. destruct st; simpl; try reflexivity.
      - exfalso. eapply H1. reflexivity.
      - contradiction.
    Qed.

    Lemma in_sure_full_need : forall rets c m r c0 m0,
        In (c0, m0) (sure_full rets ((c, SNeed m) :: r)) ->
        (c0 = c /\ m0 = m) \/ (exists k c2, m = MNode k /\ In (c2, m0) (sure rest k) /\ c0 = c ++ c2) \/
        In (c0, m0) (sure_full rets r).
    Proof.
      intros rets c m r c0 m0 H. unfold sure_full in *. simpl in H.
      rewrite expand_app in H. apply in_app_or in H. destruct H as [H|H].
      - apply in_app_or in H. destruct H as [H|H].
        + destruct (forallb (fun rc => negb (compat rc c)) rets); [|contradiction].
          destruct H as [H|[]]. inversion H. left. split; reflexivity.
        + right. right. apply in_or_app. left. exact H.
      - apply in_app_or in H. destruct H as [H|H].
        + destruct (forallb (fun rc => negb (compat rc c)) rets); [|contradiction].
          apply in_expand in H. destruct H as [c1 [k [c2 [H1 [H2 E]]]]]. destruct H1 as [H1|[]]. inversion H1. subst.
          right. left. exists k, c2. auto.
        + right. right. apply in_or_app. right. exact H.
    Qed.

    Lemma steps_sim : forall steps acc pub s seen pubs rets pacc,
        check_steps rest n steps seen pubs = [] ->
        coh_on (ids rest) s ->
        (pub = false -> st_cache s n = None) ->
        (pub = true -> exists cp, In cp pubs /\ enabled (st_env s) cp = true) ->
        (forall c m, In (c, m) seen -> m <> MNode n -> enabled (st_env s) c = true -> avail s m) ->
        (forall rc, In rc rets -> enabled (st_env s) rc = false) ->
        forall r s',
        run_steps fallv recN n pacc steps acc pub s = (r, s') ->
        post s (st_env s) (den_steps fallv (recD (st_env s)) n pacc (st_env s) steps acc pub) (sure_full rets steps) r s'.
    Proof.
      induction steps as [|[c st] steps IH]; intros acc pub s seen pubs rets pacc Hchk Hcoh Hnp Hpub Hseen Hrets r s' Hrun.
      - simpl in Hrun. inversion Hrun; subst r s'. simpl.
        destruct (finish_sim s pacc acc pub (st_env s) eq_refl Hcoh Hnp) as [F1 [F2 [F3 [F4 F5]]]].
        unfold post. split; [exact F1|]. split; [reflexivity|]. split; [exact F2|]. split; [exact F3|].
        split; [intros _; exact F4|]. split; [intros H; discriminate|].
        intros _. split; [rewrite F5; destruct pub; reflexivity|]. intros c m Hin. contradiction.
      - set (rN := recN) in *. set (rD := recD (st_env s)) in *. simpl in Hrun. simpl (den_steps _ _ _ _ _ _ _ _).
        destruct (enabled (st_env s) c) eqn:Een.
        + destruct st as [m|m|k| |m| ].
          * (* SNeed, enabled *)
            simpl in Hchk. apply app_eq_nil in Hchk. destruct Hchk as [Href Hchk]. apply app_eq_nil in Hchk. destruct Hchk as [Hearly Hchk].
            assert (Hmref : forall k, m = MNode k -> In k (ids rest)).
            { intros k Ek. subst m. destruct (memb k (map fst rest)) eqn:Em; [apply memb_In in Em; exact Em | discriminate]. }
            assert (Hmn : m <> MNode n). { intros Em. apply Hn_rest. apply Hmref. exact Em. }
            destruct (rN s m) as [x s1] eqn:Erec.
            destruct (rec_sim s m x s1 Hcoh Hmref Erec) as [R0 [R1 [R2 [R3 [R4 [R5 R6]]]]]].
            assert (R0' : rD m = denm (st_env s) m) by (subst rD; exact R0). rewrite R0'.
            destruct (denm (st_env s) m) as [v| |] eqn:Ed; simpl in R2; subst x.
            -- (* the need succeeds *)
               destruct (R6 eq_refl) as [Ra Rb].
               assert (Hcoh1 : coh_on (ids rest) s1) by (apply R5; discriminate).
               assert (IHp : post s1 (st_env s1) (den_steps fallv (recD (st_env s1)) n pacc (st_env s1) steps acc pub) (sure_full rets steps) r s').
               { eapply IH with (seen := (c, m) :: match m with MNode k' => map (fun cm' => (c ++ fst cm', snd cm')) (sure rest k') | _ => [] end ++ seen) (pubs := pubs).
                 - exact Hchk.
                 - exact Hcoh1.
                 - intros Hp. rewrite (R4 n) by (try discriminate; exact Hn_rest). apply Hnp. exact Hp.
                 - rewrite R1. exact Hpub.
                 - rewrite R1. intros c0 m0 Hin Hm0 Hen0. destruct Hin as [E|Hin].
                   + inversion E. subst. exact Ra.
                   + apply in_app_or in Hin. destruct Hin as [Hin|Hin].
                     * destruct m as [i|p|k']; try contradiction. apply in_map_iff in Hin. destruct Hin as [[c2 m2] [E Hin]].
                       simpl in E. inversion E. subst. apply enabled_app in Hen0. destruct Hen0 as [_ Hen2].
                       apply (Rb c2 m0); [exists k'; split; [reflexivity | exact Hin] | exact Hen2].
                     * eapply avail_persist with (n := None) (L := ids rest); try eassumption.
                       -- apply (Hseen c0 m0); assumption.
                       -- intros j Ej. discriminate.
                 - rewrite R1. exact Hrets.
                 - exact Hrun. }
               rewrite R1 in IHp. apply post_trans with (s1 := s1); [apply mono_none_some; exact R3 | apply frame_none_some; exact R4 |].
               destruct IHp as [P1 [P2 [P3 [P4 [P5 [P6 P7]]]]]]. unfold post.
               split; [exact P1|]. split; [exact P2|]. split; [exact P3|]. split; [exact P4|]. split; [exact P5|]. split; [exact P6|].
               intros Hr. destruct (P7 Hr) as [Q1 Q2]. split; [exact Q1|].
               intros c0 m0 Hin Hm0 Hen0.
               assert (Hc' : coh_on (ids rest) s') by (apply P5; rewrite Hr; discriminate).
               assert (He' : st_env s' = st_env s1) by congruence.
               apply in_sure_full_need in Hin. destruct Hin as [[E1 E2]|[[k' [c2 [E1 [Hin E2]]]]|Hin]].
               ++ subst. eapply avail_persist with (n := Some n) (L := ids rest); try eassumption.
                  intros j Ej. inversion Ej. subst. exact Hm0.
               ++ subst. apply enabled_app in Hen0. destruct Hen0 as [_ Hen2].
                  eapply avail_persist with (n := Some n) (L := ids rest); try eassumption.
                  ** apply (Rb c2 m0); [exists k'; split; [reflexivity | exact Hin] | exact Hen2].
                  ** intros j Ej. inversion Ej. subst. exact Hm0.
               ++ apply (Q2 c0 m0); assumption.
            -- (* the need fails *)
               inversion Hrun; subst r s'.
               assert (Hpf : pub = false).
               { destruct pub; [|reflexivity]. exfalso. destruct (Hpub eq_refl) as [cp [Hin Hcp]].
                 assert (Hap : existsb (fun cp0 => compat cp0 c) pubs = true).
                 { apply existsb_exists. exists cp. split; [exact Hin | eapply compat_of_enabled; eassumption]. }
                 rewrite Hap in Hearly. simpl in Hearly.
                 destruct (covered seen c m) eqn:Ecov; [|discriminate].
                 destruct (covered_avail (st_env s) s seen c m Hseen Ecov Hmn Een) as [v [Hv _]]. congruence. }
               apply post_stop; try assumption; try reflexivity; try discriminate.
               ++ apply mono_none_some; exact R3.
               ++ apply frame_none_some; exact R4.
               ++ intros _. rewrite (R4 n) by (try discriminate; exact Hn_rest). apply Hnp. exact Hpf.
            -- (* the need crashes *)
               inversion Hrun; subst r s'.
               apply post_stop; try assumption; try reflexivity; try discriminate.
               ++ apply mono_none_some; exact R3.
               ++ apply frame_none_some; exact R4.
          * (* SRead, enabled *)
            assert (Hv : exists v, rD m = DOk v /\ lookup s m = v /\ check_steps rest n steps seen pubs = []).
            { simpl in Hchk. apply app_eq_nil in Hchk. destruct Hchk as [Hm Hchk]. destruct m as [i|p|k'].
              - destruct (covered seen c (MIn i)) eqn:Ecov; [|discriminate].
                destruct (covered_avail (st_env s) s seen c (MIn i) Hseen Ecov) as [v [Hv Hl]]; [discriminate | exact Een |].
                exists v. subst rD. simpl in *. auto.
              - eexists. subst rD. simpl. auto.
              - apply app_eq_nil in Hm. destruct Hm as [Hm1 Hm2].
                assert (Hk : In k' (ids rest)).
                { destruct (memb k' (map fst rest)) eqn:Em; [apply memb_In in Em; exact Em | discriminate]. }
                destruct (covered seen c (MNode k')) eqn:Ecov; [|discriminate].
                destruct (covered_avail (st_env s) s seen c (MNode k') Hseen Ecov) as [v [Hv Hl]];
                  [intros E; inversion E; subst; contradiction | exact Een |].
                exists v. subst rD. simpl in *. rewrite den_rest by exact Hk. auto. }
            destruct Hv as [v [Hv1 [Hv2 Hchk']]]. rewrite Hv1. rewrite Hv2 in Hrun.
            rewrite sure_full_other by (try discriminate; intros; discriminate).
            destruct v as [t|].
            -- eapply IH; eassumption.
            -- inversion Hrun; subst r s'. apply post_crash. reflexivity.
          * (* SFall, enabled *)
            simpl in Hchk. apply app_eq_nil in Hchk. destruct Hchk as [Hap Hchk].
            rewrite sure_full_other by (try discriminate; intros; discriminate).
            destruct (fallv n k acc).
            -- inversion Hrun; subst r s'. apply post_fail; [reflexivity | exact Hcoh |].
               apply Hnp. apply (after_pub_false (st_env s) pubs c pub Hpub Een).
               destruct (existsb (fun cp => compat cp c) pubs); [discriminate | reflexivity].
            -- eapply IH; eassumption.
          * (* SFail, enabled *)
            simpl in Hchk. apply app_eq_nil in Hchk. destruct Hchk as [Hap Hchk].
            inversion Hrun; subst r s'. apply post_fail; [reflexivity | exact Hcoh |].
            apply Hnp. apply (after_pub_false (st_env s) pubs c pub Hpub Een).
            destruct (existsb (fun cp => compat cp c) pubs); [discriminate | reflexivity].
          * (* SPub, enabled *)
            simpl in Hchk. apply app_eq_nil in Hchk. destruct Hchk as [Hmn Hchk].
            assert (m = n). { destruct (Nat.eqb m n) eqn:E; [apply Nat.eqb_eq in E; exact E | discriminate]. }
            subst m. rewrite Nat.eqb_refl in *. rewrite orb_true_r in *.
            rewrite sure_full_other by (try discriminate; intros; discriminate).
            apply post_trans with (s1 := set_cache s n (Some (TPart n (pacc ++ acc)))).
            { intros j t Hj H. rewrite set_cache_other; [exact H | congruence]. }
            { intros j Hj _. rewrite set_cache_other; [reflexivity | congruence]. }
            change (st_env s) with (st_env (set_cache s n (Some (TPart n (pacc ++ acc))))).
            eapply IH with (pubs := c :: pubs) (seen := seen).
            -- exact Hchk.
            -- apply coh_set_cache. exact Hcoh.
            -- intros H. discriminate.
            -- intros _. exists c. split; [left; reflexivity | exact Een].
            -- intros c0 m0 Hin Hm0 Hen0. apply avail_set_cache; [apply (Hseen c0 m0); assumption | exact Hm0].
            -- exact Hrets.
            -- exact Hrun.
          * (* SRet0, enabled *)
            inversion Hrun; subst r s'.
            destruct (finish_sim s pacc acc pub (st_env s) eq_refl Hcoh Hnp) as [F1 [F2 [F3 [F4 F5]]]].
            unfold post. split; [exact F1|]. split; [reflexivity|]. split; [exact F2|]. split; [exact F3|].
            split; [intros _; exact F4|]. split; [intros H; discriminate|].
            intros _. split; [rewrite F5; destruct pub; reflexivity|]. intros c0 m0 Hin Hm0 Hen0. exfalso.
            change (sure_full rets ((c, SRet0) :: steps)) with (sure_full (c :: rets) steps) in Hin.
            rewrite (in_sure_full_rets _ _ _ _ Hin c (st_env s)) in Hen0; [discriminate | left; reflexivity | exact Een].
        + (* step not executed *)
          destruct st as [m|m|k| |m| ].
          * simpl in Hchk. apply app_eq_nil in Hchk. destruct Hchk as [Href Hchk]. apply app_eq_nil in Hchk. destruct Hchk as [Hearly Hchk].
            assert (IHp : post s (st_env s) (den_steps fallv rD n pacc (st_env s) steps acc pub) (sure_full rets steps) r s').
            { eapply IH with (seen := (c, m) :: match m with MNode k' => map (fun cm' => (c ++ fst cm', snd cm')) (sure rest k') | _ => [] end ++ seen) (pubs := pubs); try eassumption.
              intros c0 m0 Hin Hm0 Hen0. destruct Hin as [E|Hin].
              - inversion E. subst. congruence.
              - apply in_app_or in Hin. destruct Hin as [Hin|Hin]; [|apply (Hseen c0 m0); assumption].
                destruct m as [i|p|k']; try contradiction. apply in_map_iff in Hin. destruct Hin as [[c2 m2] [E Hin]].
                simpl in E. inversion E. subst. apply enabled_app in Hen0. destruct Hen0 as [Hen1 _]. congruence. }
            destruct IHp as [P1 [P2 [P3 [P4 [P5 [P6 P7]]]]]]. unfold post.
            split; [exact P1|]. split; [exact P2|]. split; [exact P3|]. split; [exact P4|]. split; [exact P5|]. split; [exact P6|].
            intros Hr. destruct (P7 Hr) as [Q1 Q2]. split; [exact Q1|].
            intros c0 m0 Hin Hm0 Hen0.
            apply in_sure_full_need in Hin. destruct Hin as [[E1 E2]|[[k' [c2 [E1 [Hin E2]]]]|Hin]].
            -- subst. congruence.
            -- subst. apply enabled_app in Hen0. destruct Hen0 as [Hen1 _]. congruence.
            -- apply (Q2 c0 m0); assumption.
          * simpl in Hchk. apply app_eq_nil in Hchk. destruct Hchk as [_ Hchk].
            rewrite sure_full_other by (try discriminate; intros; discriminate). eapply IH; eassumption.
          * simpl in Hchk. apply app_eq_nil in Hchk. destruct Hchk as [_ Hchk].
            rewrite sure_full_other by (try discriminate; intros; discriminate). eapply IH; eassumption.
          * simpl in Hchk. apply app_eq_nil in Hchk. destruct Hchk as [_ Hchk].
            rewrite sure_full_other by (try discriminate; intros; discriminate). eapply IH; eassumption.
          * simpl in Hchk. apply app_eq_nil in Hchk. destruct Hchk as [_ Hchk].
            rewrite sure_full_other by (try discriminate; intros; discriminate).
            eapply IH with (pubs := c :: pubs); try eassumption.
            intros Hp. destruct (Hpub Hp) as [cp [H1 H2]]. exists cp. split; [right; exact H1 | exact H2].
          * simpl in Hchk.
            change (sure_full rets ((c, SRet0) :: steps)) with (sure_full (c :: rets) steps).
            eapply IH with (rets := c :: rets); try eassumption.
            intros rc [E|Hin]; [subst; exact Een | apply Hrets; exact Hin].
    Qed.
  End Body.

  (* ---------------------------------------------------------------- all nodes *)
  Lemma need_sim : forall nodes pre, G0 = pre ++ nodes -> check_nodes nodes = [] ->
      forall s k r s',
        coh_on (ids nodes) s -> need fallv chk nodes s k = (r, s') -> In k (ids nodes) ->
        st_env s' = st_env s /\ r = res_of (denG (st_env s) k) /\ mono_x None s s' /\ frame_x None (ids nodes) s s' /\
        (r <> RCrash -> coh_on (ids nodes) s') /\
        (r = ROk -> avail s' (MNode k) /\ forall c m, In (c, m) (sure G0 k) -> enabled (st_env s) c = true -> avail s' m).
  Proof.
    induction nodes as [|[n b] rest IH]; intros pre HG Hchk s k r s' Hcoh Hneed Hk; [contradiction|].
    destruct (check_nodes_inv n b rest Hchk) as [Hn [Hg [Hs Hr]]].
    assert (HG' : G0 = (pre ++ [(n, b)]) ++ rest) by (rewrite <- app_assoc; exact HG).
    assert (IHr := IH (pre ++ [(n, b)]) HG' Hr).
    assert (Hcoh_rest : coh_on (ids rest) s) by (intros j Hj; apply Hcoh; right; exact Hj).
    assert (Hnd : NoDup (ids (pre ++ (n, b) :: rest))) by (rewrite <- HG; exact G0_nodup).
    simpl in Hneed. destruct (Nat.eqb n k) eqn:Enk.
    - apply Nat.eqb_eq in Enk. subst k.
      assert (Hden : denG (st_env s) n = den_steps fallv (fun m => match m with MNode k' => den fallv chk rest (st_env s) k' | _ => den_leaf chk (st_env s) m end)
                                                   n (pacc_of (st_env s) b) (st_env s) (b_steps b) [] false).
      { rewrite HG. rewrite den_suffix by (try exact Hnd; left; reflexivity). simpl. rewrite Nat.eqb_refl. reflexivity. }
      assert (Hsure : sure G0 n = sure_full rest [] (b_steps b)).
      { rewrite HG. rewrite sure_suffix by (try exact Hnd; left; reflexivity). simpl. rewrite Nat.eqb_refl. reflexivity. }
      unfold guard_holds in Hneed. rewrite Hg in Hneed. destruct (st_cache s n) as [t|] eqn:Ec.
      + (* cached *)
        inversion Hneed; subst r s'. destruct (Hcoh n (or_introl eq_refl) t Ec) as [H1 H2].
        split; [reflexivity|]. split; [rewrite H1; reflexivity|]. split; [intros j t' _ H; exact H|].
        split; [intros j _ _; reflexivity|]. split; [intros _; exact Hcoh|].
        intros _. split; [|exact H2]. exists (Some t). split; [exact H1 | exact Ec].
      + (* computed *)
        pose proof (steps_sim pre n b rest HG Hn (sure_nodes_in rest Hr) IHr (b_steps b) [] false s [] [] [] (pacc_of (st_env s) b)
                              Hs Hcoh_rest (fun _ => Ec)) as Hsim.
        specialize (Hsim (fun H => False_ind _ (Bool.diff_false_true H))).
        specialize (Hsim (fun c m H => False_ind _ H) (fun rc H => False_ind _ H) r s' Hneed).
        rewrite <- Hden in Hsim. destruct Hsim as [P1 [P2 [P3 [P4 [P5 [P6 P7]]]]]].
        split; [exact P1|]. split; [exact P2|]. split.
        { intros j t _ H. apply P3; [|exact H]. intros E. inversion E. subst. congruence. }
        split.
        { intros j _ Hj. apply P4; [|intros Hin; apply Hj; right; exact Hin]. intros E. inversion E. subst. apply Hj. left. reflexivity. }
        assert (Hown : r = ROk -> avail s' (MNode n) /\ forall c m, In (c, m) (sure G0 n) -> enabled (st_env s) c = true -> avail s' m).
        { intros Hrok. destruct (P7 Hrok) as [Q1 Q2].
          assert (Ha : avail s' (MNode n)).
          { destruct (denG (st_env s) n) as [v| |] eqn:Ed; subst r; try discriminate.
            exists v. rewrite P1. split; [exact Ed | exact Q1]. }
          split; [exact Ha|]. intros c m Hin Hen.
          destruct (mem_eqb m (MNode n)) eqn:Em.
          - apply mem_eqb_eq in Em. subst m. exact Ha.
          - apply (Q2 c m); [rewrite <- Hsure; exact Hin | | exact Hen].
            intros E. subst m. rewrite (proj2 (mem_eqb_eq _ _) eq_refl) in Em. discriminate. }
        split; [|exact Hown].
        intros Hrc j Hj t Ht. destruct Hj as [Ej|Hj].
        * simpl in Ej. subst j. destruct r; [| rewrite (P6 eq_refl) in Ht; discriminate | contradiction].
          destruct (Hown eq_refl) as [[v [Hv Hl]] Hb]. simpl in Hl. rewrite P1 in *.
          simpl in Hv. split; [rewrite Hv; congruence|]. exact Hb.
        * apply (P5 Hrc j Hj t Ht).
    - (* another node *)
      assert (Hk' : In k (ids rest)).
      { destruct Hk as [E|Hk]; [simpl in E; subst; rewrite Nat.eqb_refl in Enk; discriminate | exact Hk]. }
      destruct (IHr s k r s' Hcoh_rest Hneed Hk') as [P1 [P2 [P3 [P4 [P5 P6]]]]].
      split; [exact P1|]. split; [exact P2|]. split; [exact P3|]. split.
      { intros j Hj Hin. apply P4; [exact Hj | intros H; apply Hin; right; exact H]. }
      split; [|exact P6].
      intros Hrc j Hj t Ht. destruct Hj as [Ej|Hj]; [|apply (P5 Hrc j Hj t Ht)].
      simpl in Ej. subst j. rewrite (P4 n) in Ht by (try discriminate; exact Hn).
      destruct (Hcoh n (or_introl eq_refl) t Ht) as [H1 H2]. rewrite P1. split; [exact H1|].
      intros c m Hin Hen. eapply avail_persist with (n := None) (L := ids rest); try eassumption.
      + apply (H2 c m); assumption.
      + intros j Ej. discriminate.
      + apply P5. exact Hrc.
  Qed.
End Sim.

(* ------------------------------------------------------------------ dependence on the inputs *)
Definition agree (e e' : env) (x : mem) : Prop :=
  match x with MIn i => e_in e i = e_in e' i | MPar p => e_par e p = e_par e' p | MNode _ => True end.

Lemma aeval_ext : forall e e' a, (forall x, In x (aexp_support a) -> agree e e' x) -> aeval e a = aeval e' a.
Proof.
  induction a as [p|i|a IH|a1 IH1 a2 IH2|a1 IH1 a2 IH2]; intros H; simpl in *.
  - rewrite (H (MPar p)) by (left; reflexivity). reflexivity.
  - rewrite (H (MIn i)) by (left; reflexivity). reflexivity.
  - rewrite IH by exact H. reflexivity.
  - rewrite IH1, IH2; [reflexivity | |]; intros x Hx; apply H; apply in_or_app; auto.
  - rewrite IH1, IH2; [reflexivity | |]; intros x Hx; apply H; apply in_or_app; auto.
Qed.
Lemma enabled_ext : forall e e' c, (forall x, In x (pc_support c) -> agree e e' x) -> enabled e c = enabled e' c.
Proof.
  induction c as [|[a b] c IH]; intros H; simpl; [reflexivity|].
  unfold pc_support in H. simpl in H. unfold lit_holds. simpl. fold (lit_holds e). fold (lit_holds e').
  rewrite (aeval_ext e e' a) by (intros x Hx; apply H; apply in_or_app; left; exact Hx).
  f_equal. apply IH. intros x Hx. apply H. apply in_or_app. right. exact Hx.
Qed.

Section Ext.
  Variable fallv : nat -> nat -> list term -> bool.
  Variable chk : nat -> nat.
  Hypothesis chk_id : forall i, chk i = i.

  Lemma den_steps_ext : forall rec rec' n pacc e e' steps acc pub,
      (forall c st, In (c, st) steps -> enabled e c = enabled e' c /\
                                        forall m, st = SNeed m \/ st = SRead m -> rec m = rec' m) ->
      den_steps fallv rec n pacc e steps acc pub = den_steps fallv rec' n pacc e' steps acc pub.
  Proof.
    induction steps as [|[c st] r IH]; intros acc pub H; simpl; [reflexivity|].
    destruct (H c st (or_introl eq_refl)) as [H1 H2]. rewrite <- H1.
    assert (IH' : forall acc pub, den_steps fallv rec n pacc e r acc pub = den_steps fallv rec' n pacc e' r acc pub).
    { intros. apply IH. intros c0 st0 Hin. apply H. right. exact Hin. }
    destruct (enabled e c); [|apply IH'].
    destruct st as [m|m|k| |m| ]; try reflexivity; try apply IH'.
    - rewrite <- (H2 m) by (left; reflexivity). destruct (rec m); try reflexivity. apply IH'.
    - rewrite <- (H2 m) by (right; reflexivity). destruct (rec m) as [[t|]| |]; try reflexivity. apply IH'.
    - destruct (fallv n k acc); [reflexivity | apply IH'].
  Qed.

  Lemma den_leaf_ext : forall e e' m, (forall k, m <> MNode k) -> agree e e' m -> den_leaf chk e m = den_leaf chk e' m.
  Proof.
    intros e e' [i|p|k] Hm H; simpl in *.
    - unfold present, in_value. rewrite chk_id. rewrite H. reflexivity.
    - rewrite H. reflexivity.
    - reflexivity.
  Qed.

  Lemma den_ext : forall nodes e e' k, (forall x, In x (support nodes k) -> agree e e' x) ->
      den fallv chk nodes e k = den fallv chk nodes e' k.
  Proof.
    induction nodes as [|[n b] rest IH]; intros e e' k H; simpl; [reflexivity|].
    simpl in H. destruct (Nat.eqb n k); [|apply IH; exact H].
    assert (Hp : pacc_of e b = pacc_of e' b).
    { unfold pacc_of. apply map_ext_in. intros p Hp. f_equal. apply (H (MPar p)). apply in_or_app. left. apply in_map. exact Hp. }
    rewrite Hp. apply den_steps_ext. intros c st Hin.
    assert (Hs : forall x, In x (pc_support c ++ match st with
                            | SNeed (MNode k') | SRead (MNode k') => support rest k'
                            | SNeed m | SRead m => [m]
                            | _ => []
                            end) -> agree e e' x).
    { intros x Hx. apply H. apply in_or_app. right. apply in_flat_map. exists (c, st). split; [exact Hin | exact Hx]. }
    split.
    - apply enabled_ext. intros x Hx. apply Hs. apply in_or_app. left. exact Hx.
    - intros m [E|E]; subst st; destruct m as [i|p|k']; try (apply IH; intros x Hx; apply Hs; apply in_or_app; right; exact Hx);
        apply den_leaf_ext; try (intros; discriminate); apply Hs; apply in_or_app; right; left; reflexivity.
  Qed.
End Ext.

Definition msupport (nodes : list (nat * body)) (m : mem) : list mem :=
  match m with MNode j => support nodes j | _ => [m] end.

Lemma pc_support_app : forall c1 c2, pc_support (c1 ++ c2) = pc_support c1 ++ pc_support c2.
Proof. intros. unfold pc_support. apply flat_map_app. Qed.

Lemma support_other : forall n b rest j, n <> j -> support ((n, b) :: rest) j = support rest j.
Proof. intros. simpl. destruct (Nat.eqb n j) eqn:E; [apply Nat.eqb_eq in E; contradiction | reflexivity]. Qed.

Lemma sure_support : forall nodes, check_nodes nodes = [] ->
    forall k c m, In (c, m) (sure nodes k) ->
      incl (pc_support c) (support nodes k) /\ incl (msupport nodes m) (support nodes k).
Proof.
  induction nodes as [|[n b] rest IH]; intros Hc k c m H; [contradiction|].
  destruct (check_nodes_inv n b rest Hc) as [Hn [Hg [Hs Hr]]].
  assert (Hms : forall m0 S, (forall j, m0 = MNode j -> In j (ids rest)) -> incl (msupport rest m0) S ->
                             incl (msupport ((n, b) :: rest) m0) S).
  { intros [i|p|j] S Hj Hi; try exact Hi. unfold msupport in *. rewrite support_other; [exact Hi|].
    intros E. subst. apply Hn. apply Hj. reflexivity. }
  simpl in H. simpl support. destruct (Nat.eqb n k) eqn:Enk.
  - assert (Hd : forall c0 m0, In (c0, m0) (sure_aux [] (b_steps b)) ->
                   incl (pc_support c0) (support ((n, b) :: rest) n) /\
                   incl (match m0 with MNode k' => support rest k' | _ => [m0] end) (support ((n, b) :: rest) n) /\
                   (forall j, m0 = MNode j -> In j (ids rest))).
    { intros c0 m0 Hin. apply sure_aux_step in Hin. simpl. rewrite Nat.eqb_refl.
      split; [|split].
      - intros x Hx. apply in_or_app. right. apply in_flat_map. exists (c0, SNeed m0). split; [exact Hin|]. apply in_or_app. left. exact Hx.
      - intros x Hx. apply in_or_app. right. apply in_flat_map. exists (c0, SNeed m0). split; [exact Hin|]. apply in_or_app. right.
        simpl. destruct m0; exact Hx.
      - intros j E. subst. eapply check_steps_need_ref; eassumption. }
    apply Nat.eqb_eq in Enk. subst k. simpl in Hd. rewrite Nat.eqb_refl in Hd.
    apply in_app_or in H. destruct H as [H|H].
    + destruct (Hd c m H) as [D1 [D2 D3]]. split; [exact D1|]. apply Hms; [exact D3|]. destruct m; exact D2.
    + apply in_expand in H. destruct H as [c1 [k' [c2 [H1 [H2 E]]]]]. subst c.
      destruct (Hd c1 (MNode k') H1) as [D1 [D2 D3]]. destruct (IH Hr k' c2 m H2) as [I1 I2]. split.
      * rewrite pc_support_app. intros x Hx. apply in_app_or in Hx. destruct Hx as [Hx|Hx]; [apply D1; exact Hx | apply D2; apply I1; exact Hx].
      * apply Hms.
        -- intros j E. subst m. eapply sure_nodes_in; eassumption.
        -- intros x Hx. apply D2. apply I2. exact Hx.
  - destruct (IH Hr k c m H) as [I1 I2]. split; [exact I1|]. apply Hms; [|exact I2].
    intros j E. subst m. eapply sure_nodes_in; eassumption.
Qed.

(* ------------------------------------------------------------------ histories *)
Lemma flat_map_nil : forall (A B : Type) (f : A -> list B) l, flat_map f l = [] -> forall x, In x l -> f x = [].
Proof.
  induction l as [|a l IH]; intros H x Hx; [contradiction|]. simpl in H. apply app_eq_nil in H. destruct H as [H1 H2].
  destruct Hx as [E|Hx]; [subst; exact H1 | apply IH; assumption].
Qed.

Lemma assign_in_other : forall w ai f i, mem_in (MIn i) w = false -> assign_in w ai f i = f i.
Proof.
  induction ai as [|[j v] r IH]; intros f i H; simpl; [reflexivity|].
  destruct (mem_in (MIn j) w) eqn:E; [|apply IH; exact H].
  destruct (Nat.eqb i j) eqn:Eij; [|apply IH; exact H]. apply Nat.eqb_eq in Eij. subst. congruence.
Qed.
Lemma assign_par_other : forall w ap f p, mem_in (MPar p) w = false -> assign_par w ap f p = f p.
Proof.
  induction ap as [|[j v] r IH]; intros f p H; simpl; [reflexivity|].
  destruct (mem_in (MPar j) w) eqn:E; [|apply IH; exact H].
  destruct (Nat.eqb p j) eqn:Eij; [|apply IH; exact H]. apply Nat.eqb_eq in Eij. subst. congruence.
Qed.

Section Top.
  Variable fallv : nat -> nat -> list term -> bool.
  Variable G : graph.
  Hypothesis Hcond : conditions G = true.

  Let G0 := g_nodes G.
  Let chk := chk_of G.

  Lemma cond_parts : check_nodes G0 = [] /\ check_inneeds G = [] /\ check_resets G = [] /\ check_deletes G = [].
  Proof.
    unfold conditions in Hcond. destruct (failed_conditions G) eqn:E; [|discriminate]. unfold failed_conditions in E.
    apply app_eq_nil in E. destruct E as [E1 E]. apply app_eq_nil in E. destruct E as [E2 E].
    apply app_eq_nil in E. destruct E as [E3 E4]. auto.
  Qed.
  Lemma chk_id : forall i, chk i = i.
  Proof.
    intros i. unfold chk, chk_of. destruct (find (fun x => Nat.eqb (fst x) i) (g_inneeds G)) as [[a c]|] eqn:E; [|reflexivity].
    apply find_some in E. destruct E as [Hin Ha]. simpl in Ha. apply Nat.eqb_eq in Ha. subst a. simpl.
    destruct cond_parts as [_ [H _]]. pose proof (flat_map_nil _ _ _ _ H (i, c) Hin) as Hf. simpl in Hf.
    destruct (Nat.eqb i c) eqn:Eic; [apply Nat.eqb_eq in Eic; congruence | discriminate].
  Qed.
  Lemma G0_nodup : NoDup (ids G0).
  Proof. apply check_nodes_nodup. apply cond_parts. Qed.

  Definition coh (s : state) : Prop := coh_on fallv chk G0 (ids G0) s.

  Lemma coh_clear : forall s, coh (clear s).
  Proof. intros s k Hk t Ht. simpl in Ht. discriminate. Qed.

  Lemma get_sim : forall s n o s', coh s -> do_get fallv G s n = (o, s') ->
      st_env s' = st_env s /\ (fst o <> RCrash -> coh s') /\
      o = fst (do_get fallv G (clear s) n).
  Proof.
    intros s n o s' Hcoh Hget. unfold do_get in Hget |- *. fold G0 in Hget |- *. fold chk in Hget |- *.
    destruct (need fallv chk G0 s n) as [r s1] eqn:E1. inversion Hget; subst o s'. clear Hget.
    destruct (need fallv chk G0 (clear s) n) as [r2 s2] eqn:E2. simpl.
    destruct (in_dec Nat.eq_dec n (ids G0)) as [Hin|Hnin].
    - destruct (need_sim fallv chk G0 G0_nodup G0 [] eq_refl (proj1 cond_parts) s n r s1 Hcoh E1 Hin) as [P1 [P2 [_ [_ [P5 P6]]]]].
      destruct (need_sim fallv chk G0 G0_nodup G0 [] eq_refl (proj1 cond_parts) (clear s) n r2 s2 (coh_clear s) E2 Hin) as [Q1 [Q2 [_ [_ [_ Q6]]]]].
      simpl in Q2. split; [exact P1|]. split; [exact P5|].
      assert (Hr2 : r2 = r) by congruence. rewrite Hr2 in *. clear Q2 Hr2. destruct r; try reflexivity.
      destruct (P6 eq_refl) as [[v [Hv Hl]] _]. destruct (Q6 eq_refl) as [[v2 [Hv2 Hl2]] _].
      simpl in *. rewrite P1 in Hv. rewrite Q1 in Hv2. simpl in Hv2. congruence.
    - assert (Hn : forall nodes st k, ~ In k (ids nodes) -> need fallv chk nodes st k = (RCrash, st)).
      { induction nodes as [|[n0 b0] rest IH]; intros st k H; simpl; [reflexivity|].
        destruct (Nat.eqb n0 k) eqn:En; [apply Nat.eqb_eq in En; subst; exfalso; apply H; left; reflexivity|].
        apply IH. intros Hin. apply H. right. exact Hin. }
      rewrite Hn in E1 by exact Hnin. rewrite Hn in E2 by exact Hnin. inversion E1; inversion E2; subst.
      split; [reflexivity|]. split; [intros H; exfalso; apply H; reflexivity | reflexivity].
  Qed.

  Lemma set_coh : forall s k ai ap, coh s -> coh (do_set G s k ai ap).
  Proof.
    intros s k ai ap Hcoh. unfold do_set. destruct (find_setter G k) as [st|] eqn:Ef; [|exact Hcoh].
    unfold find_setter in Ef. destruct (find (fun x => Nat.eqb (fst x) k) (g_setters G)) as [[k0 st0]|] eqn:Efind; [|discriminate].
    inversion Ef; subst st0. clear Ef. apply find_some in Efind. destruct Efind as [Hks _].
    destruct cond_parts as [Hnodes [_ [Hres _]]].
    pose proof (flat_map_nil _ _ _ _ Hres (k0, st) Hks) as Hk. simpl in Hk. apply app_eq_nil in Hk. destruct Hk as [Hnr Hcas].
    set (fr := frees G st) in *.
    set (e := st_env s). set (e2 := {| e_in := assign_in (s_writes st) ai (e_in e); e_par := assign_par (s_writes st) ap (e_par e) |}).
    intros n Hn t Ht. simpl in Ht. destruct (memb n fr) eqn:Efr; [discriminate|].
    destruct (Hcoh n Hn t Ht) as [H1 H2].
    assert (Hnb : exists b0, In (n, b0) G0).
    { unfold ids in Hn. apply in_map_iff in Hn. destruct Hn as [[n0 b0] [E Hin]]. simpl in E. subst. exists b0. exact Hin. }
    destruct Hnb as [b0 Hnb].
    (* the inputs this node depends on are not written *)
    assert (Hag : forall x, In x (support G0 n) -> agree e e2 x).
    { intros x Hx. assert (Hw : mem_in x (s_writes st) = false).
      { destruct (mem_in x (s_writes st)) eqn:Ew; [|reflexivity]. apply mem_in_In in Ew.
        pose proof (flat_map_nil _ _ _ _ Hnr x Ew) as Hf. pose proof (flat_map_nil _ _ _ _ Hf (n, b0) Hnb) as Hf2. simpl in Hf2.
        fold G0 in Hf2. fold fr in Hf2. rewrite (proj2 (mem_in_In x _) Hx) in Hf2. rewrite Efr in Hf2. simpl in Hf2. discriminate. }
      destruct x as [i|p|j]; simpl; [| |exact I].
      - symmetry. apply assign_in_other. exact Hw.
      - symmetry. apply assign_par_other. exact Hw. }
    simpl. fold e. fold e2. split.
    - rewrite <- (den_ext fallv chk chk_id G0 e e2 n Hag). exact H1.
    - intros c m Hin Hen. destruct (sure_support G0 Hnodes n c m Hin) as [S1 S2].
      assert (Hen1 : enabled e c = true).
      { rewrite (enabled_ext e e2 c); [exact Hen|]. intros x Hx. apply Hag. apply S1. exact Hx. }
      destruct (H2 c m Hin Hen1) as [v [Hv Hl]]. exists v. simpl. fold e2. split.
      + destruct m as [i|p|j].
        * change (den_leaf chk e2 (MIn i) = DOk v).
          rewrite <- (den_leaf_ext chk chk_id e e2 (MIn i)); [exact Hv | intros; discriminate | apply Hag; apply S2; left; reflexivity].
        * change (den_leaf chk e2 (MPar p) = DOk v).
          rewrite <- (den_leaf_ext chk chk_id e e2 (MPar p)); [exact Hv | intros; discriminate | apply Hag; apply S2; left; reflexivity].
        * change (den fallv chk G0 e2 j = DOk v).
          rewrite <- (den_ext fallv chk chk_id G0 e e2 j); [exact Hv|]. intros x Hx. apply Hag. apply S2. exact Hx.
      + destruct m as [i|p|j].
        * change (in_value e2 i = v). change (in_value e i = v) in Hl. unfold in_value in *.
          pose proof (Hag (MIn i) (S2 _ (or_introl eq_refl))) as Ha. unfold agree in Ha. rewrite <- Ha. exact Hl.
        * change (Some (TPar p (e_par e2 p)) = v). change (Some (TPar p (e_par e p)) = v) in Hl.
          pose proof (Hag (MPar p) (S2 _ (or_introl eq_refl))) as Ha. unfold agree in Ha. rewrite <- Ha. exact Hl.
        * assert (Hj : memb j fr = false).
          { destruct (memb j fr) eqn:Ej; [|reflexivity].
            pose proof (flat_map_nil _ _ _ _ Hcas (n, b0) Hnb) as Hf. simpl in Hf. fold G0 in Hf. fold fr in Hf. rewrite Efr in Hf.
            pose proof (flat_map_nil _ _ _ _ Hf (c, MNode j) Hin) as Hf2. simpl in Hf2. rewrite Ej in Hf2. discriminate. }
          simpl. rewrite Hj. exact Hl.
  Qed.

  Lemma set_env : forall s s2 k ai ap, st_env s2 = st_env s -> st_env (do_set G s2 k ai ap) = st_env (do_set G s k ai ap).
  Proof. intros s s2 k ai ap H. unfold do_set. destruct (find_setter G k); [simpl; rewrite H; reflexivity | exact H]. Qed.

  Lemma clear_eq : forall s s2, st_env s2 = st_env s -> clear s2 = clear s.
  Proof. intros s s2 H. unfold clear. rewrite H. reflexivity. Qed.

  Lemma trace_coherent : forall ops s s2, coh s -> st_env s2 = st_env s ->
      trace fallv G s ops = trace_fresh fallv G s2 ops.
  Proof.
    induction ops as [|[k ai ap|n] r IH]; intros s s2 Hcoh He; simpl; [reflexivity| |].
    - apply IH; [apply set_coh; exact Hcoh |]. simpl. apply set_env. exact He.
    - rewrite (clear_eq s s2 He).
      destruct (do_get fallv G s n) as [o s'] eqn:Eg. destruct (get_sim s n o s' Hcoh Eg) as [P1 [P2 P3]].
      destruct (do_get fallv G (clear s) n) as [o2 s2'] eqn:Eg2. simpl in P3. subst o2. f_equal.
      destruct (fst o) eqn:Eo; try reflexivity; apply IH; try (apply P2; discriminate); simpl; symmetry; exact P1.
  Qed.

  (* every get* of every history answers what a fresh object holding the same inputs answers *)
  Theorem lazy_coherent : forall p0 ops,
      trace fallv G (init_state p0) ops = trace_fresh fallv G (init_state p0) ops.
  Proof.
    intros p0 ops. apply trace_coherent; [|reflexivity].
    intros k Hk t Ht. simpl in Ht. discriminate.
  Qed.
End Top.

(* C10 carrier (2): functions whose every exit path is balanced leave the cache idle, hence see only their own data. *)
From Coq Require Import List Bool.
From Gst Require Import C10.ModelOptim.
Import ListNotations.

Definition is_some {A} (o : option A) : bool := match o with Some _ => true | None => false end.

Lemma run_word_final : forall w c d obs, is_some (fst (run_word c d w obs)) = final (is_some c) w.
Proof.
  induction w as [|e r IH]; intros c d obs; simpl; [reflexivity|].
  destruct e; simpl; try reflexivity; try apply IH.
  rewrite IH. destruct c; reflexivity.
Qed.

Theorem optim_history_independent : forall calls,
    Forall (fun dw => final false (snd dw) = false) calls ->
    calls_trace None calls = map (fun dw => snd (run_word None (fst dw) (snd dw) [])) calls.
Proof.
  induction calls as [|[d w] r IH]; intros H; simpl; [reflexivity|].
  inversion H as [|x l H1 H2]; subst. simpl in H1.
  destruct (run_word None d w []) as [c' o] eqn:E. simpl. f_equal.
  assert (c' = None).
  { pose proof (run_word_final w None d []) as F. rewrite E in F. simpl in F. rewrite H1 in F. destruct c'; [discriminate | reflexivity]. }
  subst c'. apply IH. exact H2.
Qed.

(* and each call, entered with an idle cache, computes with the data it was given *)
Lemma run_word_own_data : forall w d c obs, (c = None \/ c = Some d) -> Forall (fun x => x = d) obs ->
    Forall (fun x => x = d) (snd (run_word c d w obs)).
Proof.
  induction w as [|e r IH]; intros d c obs Hc Ho; simpl; [exact Ho|].
  destruct e; simpl; try exact Ho; try (apply IH; assumption).
  - apply IH.
    + right. destruct Hc as [Hc|Hc]; subst; reflexivity.
    + apply Forall_app. split; [exact Ho|]. destruct Hc as [Hc|Hc]; subst; simpl; constructor; auto.
  - apply IH; [left; reflexivity | exact Ho].
Qed.
Theorem optim_uses_own_data : forall calls,
    Forall (fun dw => final false (snd dw) = false) calls ->
    Forall2 (fun dw o => Forall (fun x => x = fst dw) o) calls (calls_trace None calls).
Proof.
  intros calls H. rewrite (optim_history_independent calls H).
  induction calls as [|[d w] r IH]; simpl; constructor.
  - simpl. apply run_word_own_data; [left; reflexivity | constructor].
  - apply IH. inversion H; assumption.
Qed.

(* C10 carrier (2) - the per-covariance cache of projected sample points (ACov.cpp:66-111, CovAniso.cpp:1287-1310):
   optimizationPreProcess(db) fills it unless it is already marked as prepared (ACov.cpp:74, 100), optimizationPostProcess()
   empties it.  NO proofs. *)
From Coq Require Import List Bool String.
Import ListNotations.

(* Tgt = optimizationSetTarget(point) (works in any state), TgtIdx = optimizationSetTargetByIndex(i): a no-op unless the
   cache is prepared (CovAniso.cpp:1249-1256), so that it must only be called while prepared *)
Inductive ev := Pre | Post | Ret | RetFail | Tgt | TgtIdx.
Definition word := list ev.
(* Inside = a function that only sets targets and is entered between an opener and its closer *)
Inductive fkind := Closed | Opener | Closer | Inside.

(* prepared? at exit, entering with p *)
Fixpoint final (p : bool) (w : word) : bool :=
  match w with
  | [] => p
  | Pre :: r => final true r
  | Post :: r => final false r
  | Ret :: _ | RetFail :: _ => p
  | _ :: r => final p r
  end.
(* every TgtIdx happens while prepared *)
Fixpoint tgt_ok (p : bool) (w : word) : bool :=
  match w with
  | [] => true
  | Pre :: r => tgt_ok true r
  | Post :: r => tgt_ok false r
  | Ret :: _ | RetFail :: _ => true
  | TgtIdx :: r => p && tgt_ok p r
  | Tgt :: r => tgt_ok p r
  end.
Fixpoint has_prepost (w : word) : bool :=
  match w with [] => false | Pre :: _ | Post :: _ => true | _ :: r => has_prepost r end.
Fixpoint fails (w : word) : bool :=
  match w with [] => false | RetFail :: _ => true | Ret :: _ => false | _ :: r => fails r end.
Definition word_ok (k : fkind) (w : word) : bool :=
  match k with
  | Closed => negb (final false w) && tgt_ok false w
  | Opener => (if fails w then negb (final false w) else true) && tgt_ok false w
  | Closer => negb (final true w) && negb (final false w) && tgt_ok true w
  | Inside => negb (has_prepost w) && tgt_ok true w
  end.
Definition failed_paths (t : list (string * fkind * list word)) : list (string * word) :=
  flat_map (fun r => map (fun w => (fst (fst r), w)) (filter (fun w => negb (word_ok (snd (fst r)) w)) (snd r))) t.
Definition paths_ok (t : list (string * fkind * list word)) : bool :=
  forallb (fun r => forallb (word_ok (snd (fst r))) (snd r)) t.
(* public entry points from which an Inside function is reachable must refuse to run before the opener succeeded *)
Definition entries_ok (t : list (string * bool * bool)) : bool := forallb (fun e => snd (fst e) || negb (snd e)) t.

(* the cache itself: which data set it was prepared for *)
Fixpoint run_word (c : option nat) (d : nat) (w : word) (obs : list nat) : option nat * list nat :=
  match w with
  | [] => (c, obs)
  | Pre :: r => let c' := match c with None => Some d | Some d' => Some d' end in   (* already prepared: left as it is *)
                run_word c' d r (obs ++ match c' with Some x => [x] | None => [] end)
  | Post :: r => run_word None d r obs
  | Ret :: _ | RetFail :: _ => (c, obs)
  | _ :: r => run_word c d r obs
  end.
(* a sequence of calls on one covariance object: (data set given, path taken); what each call computes with *)
Fixpoint calls_trace (c : option nat) (calls : list (nat * word)) : list (list nat) :=
  match calls with
  | [] => []
  | (d, w) :: r => let '(c', o) := run_word c d w [] in o :: calls_trace c' r
  end.

(* C10 carriers (3) neighbourhood memo and (6) scratch cells: executable models. NO proofs.

   (3) ANeigh::select (ANeigh.cpp:138-190), _isSameTarget (193-202), _checkUnchanged (204-226), setIsChanged (115-119)
       and KrigingSystem::estimate's reuse of _lhsinv (KrigingSystem.cpp: select, then _prepar only if !isUnchanged();
       `if (status) _neigh->setIsChanged()` at label_store).  Generic ANeigh (hasChanged() = true), no continuous
       option, no colocation, data bases fixed; a neighbourhood is the sorted list of its ranks.
   (6) scratch cells: members or static work areas written and read inside one call. *)
From Coq Require Import List Arith Bool ZArith.
From Gst Require Import C10.Model.
Import ListNotations.

Fixpoint list_eqb (a b : list nat) : bool :=
  match a, b with
  | [], [] => true
  | x :: a', y :: b' => Nat.eqb x y && list_eqb a' b'
  | _, _ => false
  end.
Definition is_nil (l : list nat) : bool := match l with [] => true | _ => false end.

Record kmemo := { m_iech : option nat;          (* ANeigh::_iechMemo (-1 = none) *)
                  m_nbgh : list nat;            (* ANeigh::_nbghMemo (sorted; empty = none) *)
                  m_lhs : option (list nat) }.  (* the neighbourhood KrigingSystem::_lhsinv was computed for *)
Definition memo_init : kmemo := {| m_iech := None; m_nbgh := []; m_lhs := None |}.

Section Memo.
  Variable nb : nat -> list nat.          (* getNeigh: sorted ranks selected for a target (data bases fixed) *)
  Variable singular : list nat -> bool.   (* _prepar fails for this neighbourhood *)

  (* ANeigh::select(target): ranks handed out, isUnchanged(), new memo *)
  Definition select (s : kmemo) (t : nat) : list nat * bool * kmemo :=
    let same := match m_iech s with Some t' => Nat.eqb t' t | None => false end && negb (is_nil (m_nbgh s)) in
    let ranks := if same then m_nbgh s else nb t in
    let unch := if same then true else Nat.eqb (length (m_nbgh s)) (length ranks) && list_eqb ranks (m_nbgh s) in
    let s1 := if same then s else {| m_iech := Some t; m_nbgh := ranks; m_lhs := m_lhs s |} in
    (ranks, unch, s1).
  (* one KrigingSystem::estimate(target): returns the neighbourhood whose inverse is used (None = no estimation) *)
  Definition estimate (s : kmemo) (t : nat) : option (list nat) * kmemo :=
    let '(ranks, unch, s1) := select s t in
    if is_nil ranks then (None, {| m_iech := m_iech s1; m_nbgh := []; m_lhs := m_lhs s1 |})       (* status != 0: setIsChanged() *)
    else if unch then (m_lhs s1, s1)                                                               (* _lhsinv reused *)
    else if singular ranks then (None, {| m_iech := m_iech s1; m_nbgh := []; m_lhs := m_lhs s1 |})
    else (Some ranks, {| m_iech := m_iech s1; m_nbgh := m_nbgh s1; m_lhs := Some ranks |}).
  Fixpoint selects (s : kmemo) (ts : list nat) : list (list nat * bool) :=
    match ts with [] => [] | t :: r => let '(rk, u, s') := select s t in (rk, u) :: selects s' r end.

  Fixpoint estimates (s : kmemo) (ts : list nat) : list (option (list nat)) :=
    match ts with [] => [] | t :: r => let '(o, s') := estimate s t in o :: estimates s' r end.
  (* what a system that recomputes everything for each target uses *)
  Definition estimate_fresh (t : nat) : option (list nat) :=
    if is_nil (nb t) then None else if singular (nb t) then None else Some (nb t).
End Memo.

(* inventory of the variables with static storage duration (gen/Statics.v) *)
(* SReset = state reset at every entry of the public function (theorem C10_dkrcht_reset); SCarry = local static of the
   translated-Fortran integration code of mvndst that the syntactic criteria cannot classify: correspondence only *)
Inductive sclass := SConst | SRng | SOption | SHook | SLocal | SCross | SReset | SCarry | SUnknown.
Definition sclass_known (c : sclass) : bool := match c with SUnknown => false | _ => true end.

(* (6) one call = its events on scratch cells, each under a path condition; what it observes of them *)
Fixpoint scratch_obs (e : env) (store : nat -> Z) (val : nat -> Z) (evs : list (pc * sev)) (k : nat) : list Z :=
  match evs with
  | [] => []
  | (c, ev) :: r =>
      if enabled e c then
        match ev with
        | SW cell => scratch_obs e (fun x => if Nat.eqb x cell then val k else store x) val r (S k)   (* the k-th event writes val k *)
        | SR cell => store cell :: scratch_obs e store val r (S k)
        end
      else scratch_obs e store val r (S k)
  end.
(* every read is preceded by a write of the same cell executed whenever the read is *)
Fixpoint scratch_dead (seen : list (pc * nat)) (evs : list (pc * sev)) : bool :=
  match evs with
  | [] => true
  | (c, SW cell) :: r => scratch_dead ((c, cell) :: seen) r
  | (c, SR cell) :: r => existsb (fun w => Nat.eqb (snd w) cell && subpc (fst w) c) seen && scratch_dead seen r
  end.

(* C10 - property theorems only. Each is closed by [exact] of a lemma of the development. *)
From Coq Require Import List ZArith Bool String.
From Gst Require Import C10.Model C10.LazyGraph C10.gen.KCGraph.
From Gst Require Import C10.ModelCow C10.Cow C10.ModelRng C10.Rng C10.ModelOptim C10.Optim C10.gen.VectorTOps C10.gen.OptimPaths.
Import ListNotations.

(* (4) Lazy evaluation graphs.  For ANY graph (which _need calls which, what each _delete frees, what each set*
   resets) that satisfies the decidable conditions of Model.v - every set* frees every cached member that
   depends on what it writes, and what is freed takes its dependents with it; no member is assigned before a
   step that may fail; every member read has been needed before - and for ANY history of set*/get* calls,
   failing ones included, every get* answers exactly what a fresh object holding the same inputs answers. *)
Theorem C10_lazy_coherent : forall (fallv : nat -> nat -> list term -> bool) (G : graph),
  conditions G = true ->
  forall (p0 : nat -> nat) (ops : list op),
    trace fallv G (init_state p0) ops = trace_fresh fallv G (init_state p0) ops.
Proof. exact lazy_coherent. Qed.
Print Assumptions C10_lazy_coherent.

(* the graph extracted from KrigingCalcul.cpp on this run: coherent as soon as its conditions hold.
   (Whether they hold is the obligation C10_kc_graph_ok, re-examined by the check on every run.) *)
Theorem C10_kc_coherent_if_ok : conditions KCGraph = true ->
  forall fallv p0 ops, trace fallv KCGraph (init_state p0) ops = trace_fresh fallv KCGraph (init_state p0) ops.
Proof. intros H fallv p0 ops. exact (lazy_coherent fallv KCGraph H p0 ops). Qed.
Print Assumptions C10_kc_coherent_if_ok.

(* Non-vacuity: a three-member graph (input 0, parameter 0; node 1 = f(input 0); node 0 = g(node 1) when the
   parameter is set) satisfies the conditions, and a history with a failing get, a successful one and an update. *)
Definition ex_graph : graph :=
  {| g_inneeds := [(0, 0)];
     g_nodes := [(0, {| b_guard := Some 0; b_params := [0];
                        b_steps := [([(APar 0, false)], SFail); ([], SNeed (MNode 1)); ([], SRead (MNode 1)); ([], SPub 0)] |});
                 (1, {| b_guard := Some 1; b_params := [];
                        b_steps := [([], SNeed (MIn 0)); ([], SRead (MIn 0)); ([], SPub 1)] |})];
     g_dels := [(0, {| d_own := Some (MIn 0); d_calls := [1]; d_frees := [] |});
                (1, {| d_own := Some (MNode 1); d_calls := [2]; d_frees := [1] |});
                (2, {| d_own := Some (MNode 0); d_calls := []; d_frees := [0] |})];
     g_setters := [(0, {| s_writes := [MIn 0]; s_resets := [0] |}); (1, {| s_writes := [MPar 0]; s_resets := [2] |})] |}.
Example C10_lazy_nonvacuous :
  conditions ex_graph = true /\
  trace (fun _ _ _ => false) ex_graph (init_state (fun _ => 0))
        [OGet 0; OSet 0 [(0, Some 1)] []; OGet 0; OSet 1 [] [(0, 1)]; OGet 0; OSet 0 [(0, Some 2)] []; OGet 0] =
  [(RFail, None); (RFail, None);
   (ROk, Some (TNode 0 [TPar 0 1; TNode 1 [TIn 0 1]]));
   (ROk, Some (TNode 0 [TPar 0 1; TNode 1 [TIn 0 2]]))] /\
  (* the same graph whose setter 0 forgets its reset is rejected, and indeed answers with a stale value *)
  let bad := {| g_inneeds := g_inneeds ex_graph; g_nodes := g_nodes ex_graph; g_dels := g_dels ex_graph;
                g_setters := [(0, {| s_writes := [MIn 0]; s_resets := [] |}); (1, {| s_writes := [MPar 0]; s_resets := [2] |})] |} in
  conditions bad = false /\
  trace (fun _ _ _ => false) bad (init_state (fun _ => 1)) [OSet 0 [(0, Some 1)] []; OGet 0; OSet 0 [(0, Some 2)] []; OGet 0] <>
  trace_fresh (fun _ _ _ => false) bad (init_state (fun _ => 1)) [OSet 0 [(0, Some 1)] []; OGet 0; OSet 0 [(0, Some 2)] []; OGet 0].
Proof. vm_compute. repeat split; try reflexivity. intros H. discriminate. Qed.

(* (5) Copy-on-write vectors.  If every member that changes the shared buffer (or hands out a way to change it)
   detaches first, any program over handles - copies, swaps, mutations, in any order, on any number of handles -
   shows after every operation exactly what the same program over independent value lists shows. *)
Theorem C10_cow_refines_values : forall (nh : nat) (p : list vop),
  forallb op_safe p = true ->
  run_cow nh (cow_init_n nh) p = run_val nh (fun _ => []) p.
Proof. intros nh p H. exact (cow_refines_values nh p (cow_init_n nh) (fun _ => []) H (init_rel nh)). Qed.
Print Assumptions C10_cow_refines_values.

(* members of VectorT/VectorNumT (table generated from the headers on this run) that break the hypothesis are
   exactly those listed here; the check turns each into a keyed finding with a program exhibiting it *)
Theorem C10_vectort_ops_known :
  forallb (fun n => existsb (String.eqb n) ["VectorT::getVector const/0"; "VectorT::getVectorPtr const/0"]%string)
          (failed_accessors vt_ops) = true.
Proof. vm_compute. reflexivity. Qed.

Example C10_cow_nonvacuous :
  (* b = a; b.push_back(7) with a detaching push_back: a keeps its value ... *)
  run_cow 2 (cow_init_n 2) [VMut true 0 (MAssign [1; 2]%Z); VCopy 1 0; VMut true 1 (MPush 7%Z)] =
    [[[1; 2]; []]; [[1; 2]; [1; 2]]; [[1; 2]; [1; 2; 7]]]%Z /\
  (* ... and with a member that does not detach (getVector()) the copy is written through *)
  run_cow 2 (cow_init_n 2) [VMut true 0 (MAssign [1; 2]%Z); VCopy 1 0; VMut false 1 (MSet 0 9%Z)] <>
  run_val 2 (fun _ => []) [VMut true 0 (MAssign [1; 2]%Z); VCopy 1 0; VMut false 1 (MSet 0 9%Z)].
Proof. vm_compute. split; [reflexivity | intros H; discriminate]. Qed.

(* (1) Random generator (old style).  Whatever was called before, from whatever state, once law_set_random_seed(s)
   with s > 0 has been executed the values that follow are a function of s alone; a seed <= 0 is NOT a reset. *)
Theorem C10_rng_seeded : forall (s : Z) (prefix1 prefix2 after : list rop) (rv1 rv2 : Z),
  (0 < s)%Z ->
  rrun (rstate rv1 prefix1) (RSeed s :: after) = rrun (rstate rv2 prefix2) (RSeed s :: after).
Proof. exact rng_seeded. Qed.
Print Assumptions C10_rng_seeded.
Theorem C10_rng_nonpositive_seed_ignored : forall s rv, (s <= 0)%Z -> rstep rv (RSeed s) = rv.
Proof. exact rng_nonpositive_seed_ignored. Qed.
Theorem C10_rng_no_wrap_after_first_draw : forall rv, (0 <= rv < congruent)%Z -> draw rv = nz ((factor * rv) mod congruent)%Z.
Proof. exact draw_no_wrap. Qed.
Example C10_rng_nonvacuous :
  rrun initial_value [RDraw; RSeed 0; RDraw; RSeed 2000000000; RDraw; RDraw] =
  [5380001; 5380001; 4895653; 2000000000; 1539264; 1621448]%Z.
Proof. vm_compute. reflexivity. Qed.

(* (2) Covariance optimisation cache.  A sequence of calls on one covariance object, each given its own data set and
   taking any of its exit paths: if every path leaves the cache idle, every call computes with its own data only. *)
Theorem C10_optim_history_independent : forall calls : list (nat * word),
  Forall (fun dw => final false (snd dw) = false) calls ->
  calls_trace None calls = map (fun dw => snd (run_word None (fst dw) (snd dw) [])) calls /\
  Forall2 (fun dw o => Forall (fun x => x = fst dw) o) calls (calls_trace None calls).
Proof. intros calls H. split; [exact (optim_history_independent calls H) | exact (optim_uses_own_data calls H)]. Qed.
Print Assumptions C10_optim_history_independent.
Example C10_optim_nonvacuous :
  (* a call that returns between Pre and Post (data set 1), then a complete call on data set 2: it computes with 1 *)
  calls_trace None [(1, [Pre; Ret]); (2, [Pre; Post; Ret])] = [[1]; [1]] /\
  calls_trace None [(1, [Pre; Post; Ret]); (2, [Pre; Post; Ret])] = [[1]; [2]].
Proof. vm_compute. split; reflexivity. Qed.

(* functions (table generated on this run) having an exit path that leaves the cache prepared are exactly those
   listed here; the check turns each into a keyed finding with a concrete history *)
Definition path_eqb (a b : string * word) : bool :=
  String.eqb (fst a) (fst b) &&
  (fix go (x y : word) : bool :=
     match x, y with
     | [], [] => true
     | e :: x', f :: y' => (match e, f with Pre, Pre | Post, Post | Ret, Ret | RetFail, RetFail => true | _, _ => false end) && go x' y'
     | _, _ => false
     end) (snd a) (snd b).
Theorem C10_optim_paths_known :
  forallb (fun p => existsb (path_eqb p)
                      [("ACovAnisoList::evalCovMatrixOptim", [Pre; Ret]);
                       ("ACovAnisoList::evalCovMatrixSymmetricOptim", [Pre; Ret]);
                       ("KrigingSystem::isReady@_cova", [Pre; RetFail])]%string)
          (failed_paths optim_paths) = true.
Proof. vm_compute. reflexivity. Qed.

(* C10 carriers (3) and (6): proofs. *)
From Coq Require Import List Arith Bool ZArith Lia.
From Gst Require Import C10.Model C10.LazyGraph C10.ModelMemo.
Import ListNotations.

Lemma list_eqb_eq : forall a b, list_eqb a b = true -> a = b.
Proof.
  induction a as [|x a IH]; intros [|y b] H; simpl in H; try discriminate; [reflexivity|].
  apply andb_true_iff in H. destruct H as [H1 H2]. apply Nat.eqb_eq in H1. subst. f_equal. apply IH. exact H2.
Qed.

Section Memo.
  Variable nb : nat -> list nat.
  Variable singular : list nat -> bool.

  (* a memorised neighbourhood is the one of the memorised target, and _lhsinv was computed for it *)
  Definition memo_inv (s : kmemo) : Prop :=
    m_nbgh s <> [] -> m_lhs s = Some (m_nbgh s) /\ (forall t, m_iech s = Some t -> m_nbgh s = nb t).

  Lemma estimate_inv : forall s t o s', memo_inv s -> estimate nb singular s t = (o, s') ->
      memo_inv s' /\ (forall l, o = Some l -> l = nb t /\ estimate_fresh nb singular t = Some l \/ (l = nb t /\ singular (nb t) = true)).
  Proof.
    intros s t o s' I H. unfold estimate, select in H. cbv beta iota zeta in H.
    destruct (match m_iech s with Some t' => Nat.eqb t' t | None => false end && negb (is_nil (m_nbgh s))) eqn:Esame.
    - (* same target as the previous call *)
      apply andb_true_iff in Esame. destruct Esame as [E1 E2].
      destruct (m_iech s) as [t'|] eqn:Ei; [|discriminate]. apply Nat.eqb_eq in E1. subst t'.
      destruct (m_nbgh s) as [|x l] eqn:En; [discriminate|]. cbv beta iota delta [is_nil] in H. injection H as Ho Hs'; subst o s'.
      assert (Hne : m_nbgh s <> []) by (rewrite En; discriminate).
      destruct (I Hne) as [I1 I2]. split; [exact I|].
      intros l0 Hl. rewrite I1 in Hl. inversion Hl. subst l0.
      assert (Hn : nb t = x :: l) by (rewrite <- (I2 t Ei); exact En). rewrite En, <- Hn.
      destruct (singular (nb t)) eqn:Es; [right; auto|]. left. split; [reflexivity|].
      unfold estimate_fresh. rewrite Es. rewrite Hn. reflexivity.
    - cbv beta iota in H. destruct (nb t) as [|x l] eqn:En.
      + cbv beta iota delta [is_nil] in H. injection H as Ho Hs'; subst o s'. split; [intros Hc; simpl in Hc; contradiction | intros l0 Hl; discriminate].
      + cbv beta iota delta [is_nil] in H.
        destruct (Nat.eqb (length (m_nbgh s)) (length (x :: l)) && list_eqb (x :: l) (m_nbgh s)) eqn:Eu.
        * (* same neighbourhood as the memorised one: _lhsinv is reused *)
          apply andb_true_iff in Eu. destruct Eu as [_ Eu]. apply list_eqb_eq in Eu.
          injection H as Ho Hs'; subst o s'.
          assert (Hne : m_nbgh s <> []) by (rewrite <- Eu; discriminate).
          destruct (I Hne) as [I1 I2]. split.
          -- intros _. simpl. split; [rewrite I1, Eu; reflexivity|]. intros t0 Ht. inversion Ht. subst. symmetry. exact En.
          -- intros l0 Hl. simpl in Hl. rewrite I1, <- Eu in Hl. inversion Hl. subst l0.
             destruct (singular (x :: l)) eqn:Es; [right; auto|]. left. split; [reflexivity|].
             unfold estimate_fresh. rewrite En. simpl. rewrite Es. reflexivity.
        * destruct (singular (x :: l)) eqn:Es.
          -- injection H as Ho Hs'; subst o s'. split; [intros Hc; simpl in Hc; contradiction | intros l0 Hl; discriminate].
          -- injection H as Ho Hs'; subst o s'. split.
             ++ intros _. simpl. split; [reflexivity|]. intros t0 Ht. inversion Ht. subst. symmetry. exact En.
             ++ intros l0 Hl. inversion Hl. subst l0. left. split; [reflexivity|].
                unfold estimate_fresh. rewrite En. simpl. rewrite Es. reflexivity.
  Qed.

  (* whenever an estimation is produced, the inverse it uses belongs to the neighbourhood of the current target *)
  Theorem memo_coherent : forall ts s, memo_inv s ->
      Forall2 (fun t o => forall l, o = Some l -> l = nb t) ts (estimates nb singular s ts).
  Proof.
    induction ts as [|t r IH]; intros s I; simpl; [constructor|].
    destruct (estimate nb singular s t) as [o s'] eqn:E. destruct (estimate_inv s t o s' I E) as [I' Ho].
    constructor; [|apply IH; exact I'].
    intros l Hl. destruct (Ho l Hl) as [[H _]|[H _]]; exact H.
  Qed.
  Lemma memo_init_inv : memo_inv memo_init.
  Proof. intros H. simpl in H. contradiction. Qed.
End Memo.

(* (6) a call whose every read of a scratch cell follows a write of it does not see what earlier calls left there *)
Lemma scratch_dead_obs : forall e val evs seen s1 s2 k,
    scratch_dead seen evs = true ->
    (forall c cell, In (c, cell) seen -> enabled e c = true -> s1 cell = s2 cell) ->
    scratch_obs e s1 val evs k = scratch_obs e s2 val evs k.
Proof.
  induction evs as [|[c ev] r IH]; intros seen s1 s2 k Hd Hs; simpl; [reflexivity|].
  destruct ev as [cell|cell]; simpl in Hd.
  - destruct (enabled e c) eqn:Ee.
    + apply (IH ((c, cell) :: seen)); [exact Hd|]. intros c0 cell0 [E|Hin] Hen.
      * inversion E. subst. rewrite Nat.eqb_refl. reflexivity.
      * destruct (Nat.eqb cell0 cell); [reflexivity | eapply Hs; eassumption].
    + apply (IH ((c, cell) :: seen)); [exact Hd|]. intros c0 cell0 [E|Hin] Hen; [inversion E; subst; congruence | eapply Hs; eassumption].
  - apply andb_true_iff in Hd. destruct Hd as [H1 H2]. destruct (enabled e c) eqn:Ee; [|eapply IH; eassumption].
    apply existsb_exists in H1. destruct H1 as [[c0 cell0] [Hin Hw]]. simpl in Hw. apply andb_true_iff in Hw. destruct Hw as [Hw1 Hw2].
    apply Nat.eqb_eq in Hw1. subst cell0. f_equal; [|eapply IH; eassumption].
    eapply Hs; [exact Hin|]. eapply subpc_enabled; eassumption.
Qed.
Theorem scratch_history_independent : forall e val evs s1 s2,
    scratch_dead [] evs = true -> scratch_obs e s1 val evs 0 = scratch_obs e s2 val evs 0.
Proof. intros. eapply scratch_dead_obs; [eassumption|]. intros c cell []. Qed.

(* C10 carrier (4): executable runner of the lazy-graph model on the graph generated from KrigingCalcul.cpp. *)
From Coq Require Import List ZArith Arith Bool.
From Gst Require Import lib.Sx C10.Model C10.gen.KCGraph.
Import ListNotations.

Definition optnat_eqb (a b : option nat) : bool :=
  match a, b with Some x, Some y => Nat.eqb x y | None, None => true | _, _ => false end.
Fixpoint term_eqb (a b : term) : bool :=
  match a, b with
  | TIn i v, TIn j w => Nat.eqb i j && Nat.eqb v w
  | TPar i v, TPar j w => Nat.eqb i j && Nat.eqb v w
  | TNode n l, TNode m k =>
      Nat.eqb n m && (fix go (l k : list term) : bool :=
                        match l, k with [], [] => true | x :: l', y :: k' => term_eqb x y && go l' k' | _, _ => false end) l k
  | TPart n l, TPart m k =>
      Nat.eqb n m && (fix go (l k : list term) : bool :=
                        match l, k with [], [] => true | x :: l', y :: k' => term_eqb x y && go l' k' | _, _ => false end) l k
  | _, _ => false
  end.
Definition oterm_eqb (a b : option term) : bool :=
  match a, b with Some x, Some y => term_eqb x y | None, None => true | _, _ => false end.
Fixpoint has_part (t : term) : bool :=
  match t with
  | TPart _ _ => true
  | TNode _ l => (fix go (l : list term) : bool := match l with [] => false | x :: r => has_part x || go r end) l
  | _ => false
  end.

(* the graph as executed: setters also write the dimension parameters they lock *)
Definition with_dims (G : graph) (dims : list (nat * list mem)) : graph :=
  {| g_inneeds := g_inneeds G; g_nodes := g_nodes G; g_dels := g_dels G;
     g_setters := map (fun ks => (fst ks, {| s_writes := s_writes (snd ks) ++
                                                match find (fun d => Nat.eqb (fst d) (fst ks)) dims with Some d => snd d | None => [] end;
                                              s_resets := s_resets (snd ks) |})) (g_setters G) |}.
Definition KCExec : graph := with_dims KCGraph kc_dims.

Definition ofMem (m : mem) : sx :=
  match m with MIn i => L [I 0; ofNat i] | MPar p => L [I 1; ofNat p] | MNode n => L [I 2; ofNat n] end%Z.
Definition ofStep (s : step) : sx :=
  match s with
  | SNeed m => L [I 0; ofMem m] | SRead m => L [I 1; ofMem m] | SFall k => L [I 2; ofNat k]
  | SFail => L [I 3] | SPub n => L [I 4; ofNat n] | SRet0 => L [I 5]
  end%Z.
Definition ofFail (f : cfail) : sx :=
  match f with
  | FDup n => L [I 0; ofNat n]
  | FGuard n => L [I 1; ofNat n]
  | FRef n m => L [I 2; ofNat n; ofMem m]
  | FPubForeign n m => L [I 3; ofNat n; ofNat m]
  | FPubEarly n st => L [I 4; ofNat n; ofStep st]
  | FReadNoNeed n m => L [I 5; ofNat n; ofMem m]
  | FInNeed i j => L [I 6; ofNat i; ofNat j]
  | FNoReset k w n => L [I 7; ofNat k; ofMem w; ofNat n]
  | FDelete d n => L [I 8; ofNat d; ofNat n]
  | FCascade k m n => L [I 9; ofNat k; ofNat m; ofNat n]
  end%Z.

Definition asAssignIn (s : sx) : option (nat * option nat) :=
  match s with
  | L [I i; I v] => if Z.ltb i 0 then None else Some (Z.to_nat i, if Z.ltb v 0 then None else Some (Z.to_nat v))
  | _ => None
  end.
Definition asAssignPar (s : sx) : option (nat * nat) :=
  match s with
  | L [I p; I v] => if Z.ltb p 0 || Z.ltb v 0 then None else Some (Z.to_nat p, Z.to_nat v)
  | _ => None
  end.
Definition asOp (s : sx) : option op :=
  match s with
  | L [I 0%Z; k; ai; ap] =>
      match asNat k, asListOf asAssignIn ai, asListOf asAssignPar ap with
      | Some k', Some ai', Some ap' => Some (OSet k' ai' ap')
      | _, _, _ => None
      end
  | L [I 1%Z; n] => match asNat n with Some n' => Some (OGet n') | None => None end
  | _ => None
  end.

Definition node_ids (G : graph) : list nat := map fst (g_nodes G).
Definition occupancy (G : graph) (s : state) : list nat :=
  filter (fun n => match st_cache s n with Some _ => true | None => false end) (node_ids G).

Section Exec.
  Variable failing : list nat.     (* fallible call sites that fail in this case *)
  Definition fallv (n k : nat) (acc : list term) : bool := memb k failing.

  (* cached members that are not what a fresh object would compute from the current inputs *)
  Definition stale (G : graph) (s : state) : list nat :=
    filter (fun n => match st_cache s n with
                     | Some t => match den fallv (chk_of G) (g_nodes G) (st_env s) n with
                                 | DOk (Some t') => negb (term_eqb t t')
                                 | _ => true
                                 end
                     | None => false
                     end) (node_ids G).
  Definition partials (G : graph) (s : state) : list nat :=
    filter (fun n => match st_cache s n with Some (TPart _ _) => true | _ => false end) (node_ids G).
  Definition resZ (r : res) : sx := I (match r with ROk => 0 | RFail => 1 | RCrash => 2 end)%Z.

  Fixpoint exec (G : graph) (s : state) (ops : list op) : list sx :=
    match ops with
    | [] => []
    | OSet k ai ap :: r =>
        let s' := do_set G s k ai ap in
        L [I 0%Z; ofList ofNat (occupancy G s'); ofList ofNat (stale G s'); ofList ofNat (partials G s')] :: exec G s' r
    | OGet n :: r =>
        let '(o, s') := do_get fallv G s n in
        let '(o2, _) := do_get fallv G (clear s) n in
        let same := match fst o, fst o2 with
                    | ROk, ROk => oterm_eqb (snd o) (snd o2)
                    | RFail, RFail => true
                    | RCrash, RCrash => true
                    | _, _ => false
                    end in
        L [I 1%Z; resZ (fst o); resZ (fst o2); ofB same; ofB (match snd o with Some _ => true | None => false end);
           ofB (match snd o with Some t => has_part t | None => false end);
           ofList ofNat (occupancy G s'); ofList ofNat (stale G s'); ofList ofNat (partials G s')] ::
        match fst o with RCrash => [] | _ => exec G s' r end
    end.
End Exec.

Definition nth_default_nat (l : list nat) (i : nat) : nat := nth i l 0.

Definition runKC (c : sx) : sx :=
  match c with
  | L [I 40%Z] => ofList ofFail (failed_conditions KCGraph)
  | L [I 41%Z; p0; failing; ops] =>
      match asListOf asNat p0, asListOf asNat failing, asListOf asOp ops with
      | Some p0', Some fl, Some ops' => L (exec fl KCExec (init_state (nth_default_nat p0')) ops')
      | _, _, _ => sx_error 1
      end
  | _ => sx_error 0
  end.

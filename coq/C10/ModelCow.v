(* C10 carrier (5) - VectorT copy-on-write (include/Basic/VectorT.hpp): executable model. NO proofs.
   A VectorT is a handle (std::shared_ptr) on a buffer (std::vector); copies share the buffer; a member that changes
   the buffer is expected to call _detach() first (VectorT.hpp:287-293: if use_count()==1 return; else clone). *)
From Coq Require Import List Arith Bool String ZArith.
Import ListNotations.

Inductive effect := ENone | ERead | EMutate | ECapacity | ERebind.
Record accessor := { a_name : string; a_const : bool; a_detach : bool; a_effect : effect; a_leak : bool }.

(* a member that changes values, or hands out something through which they can be changed, must detach first *)
Definition acc_ok (a : accessor) : bool :=
  match a_effect a with
  | EMutate => a_detach a
  | _ => if a_leak a then a_detach a else true
  end.
(* a member that never touches the buffer itself (ENone) changes it only through other members of the table; it is
   as safe as they are, and is executed in the model as "detaches" (VectorNumT::add uses begin(), setAt uses operator[] ...) *)
Definition eff_detach (a : accessor) : bool :=
  a_detach a || match a_effect a with ENone => negb (a_leak a) | _ => false end.
Definition failed_accessors (t : list accessor) : list string := map a_name (filter (fun a => negb (acc_ok a)) t).
Definition ops_ok (t : list accessor) : bool := forallb acc_ok t.

(* what a mutating member does to the values *)
Inductive mut :=
| MPush (v : Z) | MSet (i : nat) (v : Z) | MFill (v : Z) (n : nat) | MResize (n : nat) (v : Z) | MClear
| MAddC (v : Z) | MInsert (i : nat) (v : Z) | MRemove (i : nat) | MAssign (l : list Z) | MNop.

Fixpoint set_nth (i : nat) (v : Z) (l : list Z) : list Z :=
  match l, i with
  | [], _ => []
  | _ :: r, 0 => v :: r
  | x :: r, S j => x :: set_nth j v r
  end.
Fixpoint resize_to (n : nat) (v : Z) (l : list Z) : list Z :=
  match n with
  | 0 => []
  | S k => match l with [] => v :: resize_to k v [] | x :: r => x :: resize_to k v r end
  end.
Fixpoint insert_at (i : nat) (v : Z) (l : list Z) : list Z :=
  match i, l with
  | 0, _ => v :: l
  | S j, [] => [v]
  | S j, x :: r => x :: insert_at j v r
  end.
Fixpoint remove_at (i : nat) (l : list Z) : list Z :=
  match l, i with
  | [], _ => []
  | _ :: r, 0 => r
  | x :: r, S j => x :: remove_at j r
  end.
Definition apply_mut (m : mut) (l : list Z) : list Z :=
  match m with
  | MPush v => l ++ [v]
  | MSet i v => set_nth i v l
  | MFill v n => map (fun _ => v) (if Nat.eqb n 0 then l else resize_to n 0%Z l)   (* fill(value, size): 249-255 *)
  | MResize n v => resize_to n v l
  | MClear => []
  | MAddC v => map (fun x => (x + v)%Z) l
  | MInsert i v => insert_at i v l
  | MRemove i => remove_at i l
  | MAssign k => k
  | MNop => l
  end.

Inductive vop :=
| VCopy (h1 h2 : nat)                      (* h1 = h2;  operator=(const VectorT&): 63 *)
| VSwap (h1 h2 : nat)                      (* h1.swap(h2): 238-241 *)
| VMut (detach : bool) (h : nat) (m : mut) (* a member changing the buffer of h, that detaches first or not *).

Definition upd {A} (f : nat -> A) (k : nat) (v : A) : nat -> A := fun x => if Nat.eqb x k then v else f x.

Record cow := { c_next : nat; c_heap : nat -> list Z; c_hd : nat -> nat }.
Definition shared (nh : nat) (s : cow) (h : nat) : bool :=
  existsb (fun h' => negb (Nat.eqb h' h) && Nat.eqb (c_hd s h') (c_hd s h)) (seq 0 nh).
Definition detach (nh : nat) (s : cow) (h : nat) : cow :=
  if shared nh s h then {| c_next := S (c_next s); c_heap := upd (c_heap s) (c_next s) (c_heap s (c_hd s h)); c_hd := upd (c_hd s) h (c_next s) |}
  else s.
(* resize(count[, value]) returns before _detach() when the size is already right (VectorT.hpp:127-128) *)
Definition is_noop (m : mut) (l : list Z) : bool :=
  match m with MResize n _ => Nat.eqb n (List.length l) | _ => false end.
Definition cow_step (nh : nat) (s : cow) (o : vop) : cow :=
  match o with
  | VCopy h1 h2 => if Nat.ltb h1 nh && Nat.ltb h2 nh then
                     (* operator=(const VectorT& other) { _detach(); _v = other._v; }: a self-assignment un-shares the handle *)
                     let s1 := detach nh s h1 in
                     {| c_next := c_next s1; c_heap := c_heap s1; c_hd := upd (c_hd s1) h1 (c_hd s1 h2) |} else s
  | VSwap h1 h2 => if Nat.ltb h1 nh && Nat.ltb h2 nh
                   then {| c_next := c_next s; c_heap := c_heap s; c_hd := upd (upd (c_hd s) h1 (c_hd s h2)) h2 (c_hd s h1) |} else s
  | VMut d h m => if Nat.ltb h nh && negb (is_noop m (c_heap s (c_hd s h))) then
                    let s1 := if d then detach nh s h else s in
                    {| c_next := c_next s1; c_heap := upd (c_heap s1) (c_hd s1 h) (apply_mut m (c_heap s1 (c_hd s1 h))); c_hd := c_hd s1 |}
                  else s
  end.
Definition cow_obs (nh : nat) (s : cow) : list (list Z) := map (fun h => c_heap s (c_hd s h)) (seq 0 nh).
Definition cow_init : cow := {| c_next := 0; c_heap := fun _ => []; c_hd := fun h => h |}.
Definition cow_init_n (nh : nat) : cow := {| c_next := nh; c_heap := fun _ => []; c_hd := fun h => h |}.
Fixpoint run_cow (nh : nat) (s : cow) (p : list vop) : list (list (list Z)) :=
  match p with [] => [] | o :: r => let s' := cow_step nh s o in cow_obs nh s' :: run_cow nh s' r end.

(* the same program over independent value lists *)
Definition val_step (nh : nat) (v : nat -> list Z) (o : vop) : nat -> list Z :=
  match o with
  | VCopy h1 h2 => if Nat.ltb h1 nh && Nat.ltb h2 nh then upd v h1 (v h2) else v
  | VSwap h1 h2 => if Nat.ltb h1 nh && Nat.ltb h2 nh then upd (upd v h1 (v h2)) h2 (v h1) else v
  | VMut _ h m => if Nat.ltb h nh then upd v h (apply_mut m (v h)) else v
  end.
Definition val_obs (nh : nat) (v : nat -> list Z) : list (list Z) := map v (seq 0 nh).
Fixpoint run_val (nh : nat) (v : nat -> list Z) (p : list vop) : list (list (list Z)) :=
  match p with [] => [] | o :: r => let v' := val_step nh v o in val_obs nh v' :: run_val nh v' r end.

Definition op_safe (o : vop) : bool := match o with VMut d _ _ => d | _ => true end.

(* C10 runner: dispatch on the carrier. Executable only. *)
From Coq Require Import List ZArith.
From Gst Require Import lib.Sx C10.RunKC C10.RunMisc.
Import ListNotations.

Definition run (c : sx) : sx :=
  match c with
  | L (I k :: _) =>
      if (Z.leb 40 k && Z.ltb k 50)%bool then runKC c
      else if (Z.leb 50 k && Z.ltb k 90)%bool then runMisc c
      else sx_error 0
  | _ => sx_error 0
  end.

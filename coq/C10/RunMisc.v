(* C10 carriers (5) (1) (2): executable runners. *)
From Coq Require Import List ZArith Arith Bool String Ascii.
From Gst Require Import lib.Sx C10.Model C10.ModelCow C10.ModelRng C10.ModelOptim C10.ModelMemo C10.ModelCache C10.gen.VectorTOps C10.gen.OptimPaths C10.gen.NeighCache C10.gen.Statics C10.gen.KSysCache.
Import ListNotations.

Definition ofString (s : string) : sx := L (map (fun a => I (Z.of_nat (nat_of_ascii a))) (list_ascii_of_string s)).
Definition ofZ (z : Z) : sx := I z.

Definition asMut (s : sx) : option mut :=
  match s with
  | L [I 0%Z; I v] => Some (MPush v)
  | L [I 1%Z; i; I v] => match asNat i with Some i' => Some (MSet i' v) | None => None end
  | L [I 2%Z; I v; n] => match asNat n with Some n' => Some (MFill v n') | None => None end
  | L [I 3%Z; n; I v] => match asNat n with Some n' => Some (MResize n' v) | None => None end
  | L [I 4%Z] => Some MClear
  | L [I 5%Z; I v] => Some (MAddC v)
  | L [I 6%Z; i; I v] => match asNat i with Some i' => Some (MInsert i' v) | None => None end
  | L [I 7%Z; i] => match asNat i with Some i' => Some (MRemove i') | None => None end
  | L [I 8%Z; l] => match asListOf asZ l with Some l' => Some (MAssign l') | None => None end
  | L [I 9%Z] => Some MNop
  | _ => None
  end.
(* (0 h1 h2) copy, (1 h1 h2) swap, (2 accessor h mut): the accessor's row of the generated table says whether it detaches *)
Definition asVop (s : sx) : option vop :=
  match s with
  | L [I 0%Z; a; b] => match asNat a, asNat b with Some a', Some b' => Some (VCopy a' b') | _, _ => None end
  | L [I 1%Z; a; b] => match asNat a, asNat b with Some a', Some b' => Some (VSwap a' b') | _, _ => None end
  | L [I 2%Z; acc; h; m] =>
      match asNat acc, asNat h, asMut m with
      | Some acc', Some h', Some m' =>
          match nth_error vt_ops acc' with
          | Some a => Some (VMut (eff_detach a) h' m')
          | None => None
          end
      | _, _, _ => None
      end
  | _ => None
  end.
Definition ofObs (o : list (list (list Z))) : sx := ofList (ofList (ofList ofZ)) o.

Definition asRop (s : sx) : option rop :=
  match s with
  | L [I 0%Z; I z] => Some (RSeed z)
  | L [I 1%Z] => Some RDraw
  | _ => None
  end.
Definition ofEv (e : ev) : sx := I (match e with Pre => 0 | Post => 1 | Ret => 2 | RetFail => 3 | Tgt => 4 | TgtIdx => 5 end)%Z.

Fixpoint cterm_eqb (a b : cterm) : bool :=
  match a, b with
  | CEmpty f, CEmpty g => Nat.eqb f g
  | CV f i l, CV g j k =>
      Nat.eqb f g && list_eqb i j &&
      (fix go (l k : list cterm) : bool := match l, k with [] , [] => true | x :: l', y :: k' => cterm_eqb x y && go l' k' | _, _ => false end) l k
  | _, _ => false
  end.
Definition ofCFail (f : cfailc) : sx :=
  match f with CFShape f => L [I 0%Z; ofNat f] | CFStale k i f => L [I 1%Z; ofNat k; ofNat i; ofNat f] end.
Definition asCop (s : sx) : option cop :=
  match s with
  | L [I 0%Z; k; asg] =>
      match asNat k, asListOf (fun x => match x with L [i; v] => match asNat i, asNat v with Some i', Some v' => Some (i', v') | _, _ => None end | _ => None end) asg with
      | Some k', Some a => Some (CSet k' a)
      | _, _ => None
      end
  | L [I 1%Z; f] => match asNat f with Some f' => Some (CQuery f') | None => None end
  | _ => None
  end.
Fixpoint eq_flags (a b : list cterm) : list bool :=
  match a, b with x :: a', y :: b' => cterm_eqb x y :: eq_flags a' b' | _, _ => [] end.
Definition ofClass (c : sclass) : sx :=
  I (match c with SConst => 0 | SRng => 1 | SOption => 2 | SHook => 3 | SLocal => 4 | SCross => 5 | SUnknown => 6 | SReset => 7 | SCarry => 8 end)%Z.

Definition runMisc (c : sx) : sx :=
  match c with
  | L [I 50%Z] => L [ofList ofString (failed_accessors vt_ops); ofList ofString (map a_name vt_ops)]
  | L [I 51%Z; nh; ops] =>
      match asNat nh, asListOf asVop ops with
      | Some nh', Some p => L [ofObs (run_cow nh' (cow_init_n nh') p); ofObs (run_val nh' (fun _ => []) p)]
      | _, _ => sx_error 1
      end
  | L [I 60%Z; I rv; ops] =>
      match asListOf asRop ops with
      | Some p => ofList ofZ (rrun rv p)
      | None => sx_error 1
      end
  | L [I 70%Z] => ofList (fun nw => L [ofString (fst nw); ofList ofEv (snd nw)]) (failed_paths optim_paths)
  | L [I 87%Z] => ofList ofCFail (cache_failed ksys_table)
  | L [I 84%Z] =>
      L [ofList (fun r => L [ofString (fst (fst (fst r))); ofList ofCFail (cache_failed (snd (fst (fst r)))); ofB (policy_ok (snd (fst r)) (snd r))]) neigh_tables;
         ofList (fun r => ofString (fst r)) (filter (fun r => negb (scratch_dead [] (snd r))) neigh_scratch);
         ofList (fun r => L [ofString (fst (fst r)); ofString (snd (fst r)); ofClass (snd r)]) (filter (fun r => match snd r with SConst => false | _ => true end) statics);
         ofB (entries_ok optim_entries)]
  | L [I 83%Z; I ci; ops] =>
      match nth_error neigh_tables (Z.to_nat ci), asListOf asCop ops with
      | Some r, Some ops' =>
          let T := snd (fst (fst r)) in
          let s0 := cinit T (fun _ => 0) in
          ofList ofB (eq_flags (ctrace T s0 ops') (ctrace_fresh T s0 ops'))
      | _, _ => sx_error 1
      end
  | L [I 81%Z; tbl; ts] =>
      (* tbl = ((target (ranks...)) ...) : what a fresh neighbourhood object selects for each target *)
      match asListOf (fun x => match x with L [t; r] => match asNat t, asListOf asNat r with Some t', Some r' => Some (t', r') | _, _ => None end | _ => None end) tbl,
            asListOf asNat ts with
      | Some tb, Some ts' =>
          let nb := fun t => match find (fun x => Nat.eqb (fst x) t) tb with Some x => snd x | None => [] end in
          ofList (fun ru => L [ofList ofNat (fst ru); ofB (snd ru)]) (selects nb memo_init ts')
      | _, _ => sx_error 1
      end
  | _ => sx_error 0
  end.

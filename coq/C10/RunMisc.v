(* C10 carriers (5) (1) (2): executable runners. *)
From Coq Require Import List ZArith Arith Bool String Ascii.
From Gst Require Import lib.Sx C10.Model C10.ModelCow C10.ModelRng C10.ModelOptim C10.ModelMemo C10.gen.VectorTOps C10.gen.OptimPaths.
Import ListNotations.

Definition ofString (s : string) : sx := L (map (fun a => I (Z.of_nat (nat_of_ascii a))) (list_ascii_of_string s)).
Definition ofZ (z : Z) : sx := I z.

Definition asMut (s : sx) : option mut :=
  match s with
  | L [I 0%Z; I v] => Some (MPush v)
  | L [I 1%Z; i; I v] => match asNat i with Some i' => Some (MSet i' v) | None => None end
  | L [I 2%Z; I v; n] => match asNat n with Some n' => Some (MFill v n') | None => None end
  | L [I 3%Z; n; I v] => match asNat n with Some n' => Some (MResize n' v) | None => None end
  | L [I 4%Z] => Some MClear
  | L [I 5%Z; I v] => Some (MAddC v)
  | L [I 6%Z; i; I v] => match asNat i with Some i' => Some (MInsert i' v) | None => None end
  | L [I 7%Z; i] => match asNat i with Some i' => Some (MRemove i') | None => None end
  | L [I 8%Z; l] => match asListOf asZ l with Some l' => Some (MAssign l') | None => None end
  | L [I 9%Z] => Some MNop
  | _ => None
  end.
(* (0 h1 h2) copy, (1 h1 h2) swap, (2 accessor h mut): the accessor's row of the generated table says whether it detaches *)
Definition asVop (s : sx) : option vop :=
  match s with
  | L [I 0%Z; a; b] => match asNat a, asNat b with Some a', Some b' => Some (VCopy a' b') | _, _ => None end
  | L [I 1%Z; a; b] => match asNat a, asNat b with Some a', Some b' => Some (VSwap a' b') | _, _ => None end
  | L [I 2%Z; acc; h; m] =>
      match asNat acc, asNat h, asMut m with
      | Some acc', Some h', Some m' =>
          match nth_error vt_ops acc' with
          | Some a => Some (VMut (eff_detach a) h' m')
          | None => None
          end
      | _, _, _ => None
      end
  | _ => None
  end.
Definition ofObs (o : list (list (list Z))) : sx := ofList (ofList (ofList ofZ)) o.

Definition asRop (s : sx) : option rop :=
  match s with
  | L [I 0%Z; I z] => Some (RSeed z)
  | L [I 1%Z] => Some RDraw
  | _ => None
  end.
Definition ofEv (e : ev) : sx := I (match e with Pre => 0 | Post => 1 | Ret => 2 | RetFail => 3 end)%Z.

Definition runMisc (c : sx) : sx :=
  match c with
  | L [I 50%Z] => L [ofList ofString (failed_accessors vt_ops); ofList ofString (map a_name vt_ops)]
  | L [I 51%Z; nh; ops] =>
      match asNat nh, asListOf asVop ops with
      | Some nh', Some p => L [ofObs (run_cow nh' (cow_init_n nh') p); ofObs (run_val nh' (fun _ => []) p)]
      | _, _ => sx_error 1
      end
  | L [I 60%Z; I rv; ops] =>
      match asListOf asRop ops with
      | Some p => ofList ofZ (rrun rv p)
      | None => sx_error 1
      end
  | L [I 70%Z] => ofList (fun nw => L [ofString (fst nw); ofList ofEv (snd nw)]) (failed_paths optim_paths)
  | L [I 81%Z; tbl; ts] =>
      (* tbl = ((target (ranks...)) ...) : what a fresh neighbourhood object selects for each target *)
      match asListOf (fun x => match x with L [t; r] => match asNat t, asListOf asNat r with Some t', Some r' => Some (t', r') | _, _ => None end | _ => None end) tbl,
            asListOf asNat ts with
      | Some tb, Some ts' =>
          let nb := fun t => match find (fun x => Nat.eqb (fst x) t) tb with Some x => snd x | None => [] end in
          ofList (fun ru => L [ofList ofNat (fst ru); ofB (snd ru)]) (selects nb memo_init ts')
      | _, _ => sx_error 1
      end
  | _ => sx_error 0
  end.

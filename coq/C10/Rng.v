(* C10 carrier (1): after a positive seed the stream depends on the seed alone. *)
From Coq Require Import List ZArith Bool Lia.
From Gst Require Import C10.ModelRng.
Import ListNotations.
Local Open Scope Z_scope.

Lemma rrun_app : forall p q rv, rrun rv (p ++ q) = rrun rv p ++ rrun (rstate rv p) q.
Proof. induction p as [|o r IH]; intros q rv; simpl; [reflexivity|]. rewrite IH. reflexivity. Qed.

(* whatever was done before (prefix), from whatever state: once RSeed s with s > 0 is executed, what follows is a function of s *)
Theorem rng_seeded : forall (s : Z) (prefix1 prefix2 after : list rop) (rv1 rv2 : Z),
    0 < s ->
    rrun (rstate rv1 prefix1) (RSeed s :: after) = rrun (rstate rv2 prefix2) (RSeed s :: after).
Proof.
  intros s p1 p2 after rv1 rv2 Hs. simpl. unfold set_seed.
  assert (E : Z.ltb 0 s = true) by (apply Z.ltb_lt; exact Hs). rewrite E. reflexivity.
Qed.

(* a non-positive seed leaves the generator where the history put it: that call is NOT a reset *)
Theorem rng_nonpositive_seed_ignored : forall s rv, s <= 0 -> rstep rv (RSeed s) = rv.
Proof. intros s rv H. simpl. unfold set_seed. assert (E : Z.ltb 0 s = false) by (apply Z.ltb_ge; exact H). rewrite E. reflexivity. Qed.

(* the state stays within ]0, congruent[ after any draw, so the 32-bit wrap can only act on the first draw after a large seed *)
Theorem draw_range : forall rv, 0 < draw rv < congruent.
Proof.
  intros rv. unfold draw, nz. pose proof (Z.mod_pos_bound ((factor * rv) mod 2 ^ 32) congruent eq_refl) as H.
  destruct (Z.eqb_spec (((factor * rv) mod 2 ^ 32) mod congruent) 0) as [E|E]; unfold congruent in *; lia.
Qed.
Theorem draw_no_wrap : forall rv, 0 <= rv < congruent -> draw rv = nz ((factor * rv) mod congruent).
Proof.
  intros rv H. unfold draw. rewrite (Z.mod_small (factor * rv) (2 ^ 32)); [reflexivity|].
  unfold factor, congruent in *. split; [lia|]. change (2 ^ 32) with 4294967296. lia.
Qed.

(* C10 carrier (1): after a positive seed the stream depends on the seed alone. *)
From Coq Require Import List ZArith Bool Lia.
From Gst Require Import C10.ModelRng.
Import ListNotations.
Local Open Scope Z_scope.

Lemma rrun_app : forall p q rv, rrun rv (p ++ q) = rrun rv p ++ rrun (rstate rv p) q.
Proof. induction p as [|o r IH]; intros q rv; simpl; [reflexivity|]. rewrite IH. reflexivity. Qed.

(* whatever was done before (prefix), from whatever state: once RSeed s with s > 0 is executed, what follows is a function of s *)
Theorem rng_seeded : forall (s : Z) (prefix1 prefix2 after : list rop) (rv1 rv2 : Z),
    0 < s ->
    rrun (rstate rv1 prefix1) (RSeed s :: after) = rrun (rstate rv2 prefix2) (RSeed s :: after).
Proof.
  intros s p1 p2 after rv1 rv2 Hs. simpl. unfold set_seed.
  assert (E : Z.ltb 0 s = true) by (apply Z.ltb_lt; exact Hs). rewrite E. reflexivity.
Qed.

(* a non-positive seed leaves the generator where the history put it: that call is NOT a reset *)
Theorem rng_nonpositive_seed_ignored : forall s rv, s <= 0 -> rstep rv (RSeed s) = rv.
Proof. intros s rv H. simpl. unfold set_seed. assert (E : Z.ltb 0 s = false) by (apply Z.ltb_ge; exact H). rewrite E. reflexivity. Qed.

(* the state stays within ]0, congruent[ after any draw, so the 32-bit wrap can only act on the first draw after a large seed *)
Theorem draw_range : forall rv, 0 < draw rv < congruent.
Proof.
  intros rv. unfold draw, nz. pose proof (Z.mod_pos_bound ((factor * rv) mod 2 ^ 32) congruent eq_refl) as H.
  destruct (Z.eqb_spec (((factor * rv) mod 2 ^ 32) mod congruent) 0) as [E|E]; unfold congruent in *; lia.
Qed.
Theorem draw_no_wrap : forall rv, 0 <= rv < congruent -> draw rv = nz ((factor * rv) mod congruent).
Proof.
  intros rv H. unfold draw. rewrite (Z.mod_small (factor * rv) (2 ^ 32)); [reflexivity|].
  unfold factor, congruent in *. split; [lia|]. change (2 ^ 32) with 4294967296. lia.
Qed.

(* ---------------------------------------------------------------- both styles *)
Section TwoStylesProofs.
  Variable G : Type.
  Variable gseed : Z -> G.
  Variable gnext : G -> G.
  Variable gout : G -> Z.
  Notation setS := (set_seed2 G gseed).
  Notation run := (rrun2 G gnext gout setS).
  Notation state := (rstate2 G gnext gout setS).

  (* what the values depend on: the style, and the cell that carries the state in that style *)
  Definition req (a b : rst G) : Prop :=
    r_old G a = r_old G b /\ (if r_old G a then r_val G a = r_val G b else r_gen G a = r_gen G b).
  (* style switches after the seed may bring the other cell into play: full equality of what is reachable *)
  Definition rsame (a b : rst G) : Prop := r_old G a = r_old G b /\ r_val G a = r_val G b /\ r_gen G a = r_gen G b.

  Lemma run_same : forall p a b, rsame a b -> run a p = run b p.
  Proof.
    induction p as [|o r IH]; intros a b [H1 [H2 H3]]; simpl; [reflexivity|].
    destruct a as [ao av ag], b as [bo bv bg]. simpl in *. subst. reflexivity.
  Qed.

  (* after law_set_random_seed(s), s > 0: the values that follow depend on s, on the style in force and - only if the style
     is switched afterwards - on the cell of the other style; never on the draws made before, nor on the previous seed
     (equal to s or not).  Stated for histories that keep the style after the seed. *)
  Fixpoint no_style (p : list rop2) : bool :=
    match p with [] => true | R2Style _ :: _ => false | _ :: r => no_style r end.
  Lemma run_req : forall p a b, no_style p = true -> req a b -> run a p = run b p.
  Proof.
    induction p as [|o r IH]; intros a b Hn [H1 H2]; simpl; [reflexivity|].
    destruct a as [ao av ag], b as [bo bv bg]. simpl in H1, H2. subst bo.
    destruct o as [s| |bb]; simpl in Hn; try discriminate.
    - apply IH; [exact Hn|]. unfold set_seed2. simpl. destruct (Z.ltb 0 s).
      + unfold req. simpl. split; [reflexivity|]. destruct ao; [reflexivity | reflexivity].
      + unfold req. simpl. split; [reflexivity | exact H2].
    - unfold draw2. simpl. destruct ao.
      + subst bv. simpl. f_equal. apply IH; [exact Hn|]. unfold req. simpl. split; reflexivity.
      + subst bg. simpl. f_equal. apply IH; [exact Hn|]. unfold req. simpl. split; reflexivity.
  Qed.
  Theorem rng_seeded_both : forall (s : Z) (prefix1 prefix2 after : list rop2) (a b : rst G),
      0 < s -> no_style after = true -> r_old G (state a prefix1) = r_old G (state b prefix2) ->
      run (state a prefix1) (R2Seed s :: after) = run (state b prefix2) (R2Seed s :: after).
  Proof.
    intros s p1 p2 after a b Hs Hn Ho. simpl. apply run_req; [exact Hn|].
    assert (E : Z.ltb 0 s = true) by (apply Z.ltb_lt; exact Hs).
    destruct (state a p1) as [xo xv xg]. destruct (state b p2) as [yo yv yg]. simpl in Ho. subst yo.
    unfold set_seed2. rewrite E. unfold req. simpl. split; [reflexivity|]. destruct xo; reflexivity.
  Qed.
End TwoStylesProofs.

(* the early-return variant ("the seed is already the current one") breaks the contract in the new style: with ANY engine
   whose first two outputs after a seed differ, seeding twice with the same seed around a draw does not restart the stream *)
Theorem rng_early_return_refuted : forall (G : Type) (gseed : Z -> G) (gnext : G -> G) (gout : G -> Z) (s : Z) (g0 : G),
    0 < s -> gout (gseed s) <> gout (gnext (gseed s)) ->
    let st0 := {| r_old := false; r_val := initial_value; r_gen := g0 |} in
    rrun2 G gnext gout (set_seed2_early G gseed) (rstate2 G gnext gout (set_seed2_early G gseed) st0 [R2Seed s; R2Draw]) [R2Seed s; R2Draw] <>
    rrun2 G gnext gout (set_seed2_early G gseed) st0 [R2Seed s; R2Draw] \/ s = initial_value.
Proof.
  intros G gseed gnext gout s g0 Hs Hd. simpl.
  destruct (Z.eqb_spec s initial_value) as [E|E]; [right; exact E|]. left.
  unfold set_seed2_early. simpl.
  assert (E1 : Z.leb s 0 = false) by (apply Z.leb_gt; exact Hs). rewrite E1. simpl.
  assert (E2 : Z.eqb s initial_value = false) by (apply Z.eqb_neq; exact E). rewrite E2. simpl.
  rewrite Z.eqb_refl. simpl. intros H. inversion H. apply Hd. symmetry. assumption.
Qed.

(* ---------------------------------------------------------------- the Richtmeyer sequence restarts at each mvndst *)
Local Close Scope Z_scope.
Local Open Scope nat_scope.
Definition dk_agree (a b : dk) : Prop :=
  dk_olds a = dk_olds b /\ dk_hisum a = dk_hisum b /\ forall i, (i <= dk_hisum a)%nat -> dk_n a i = dk_n b i.

Lemma dk_incr_agree : forall (P : nat -> Prop) idx n n',
    (forall i, P i -> n i = n' i) -> (forall i, In i idx -> P i) ->
    snd (dk_incr idx n) = snd (dk_incr idx n') /\ forall i, P i -> fst (dk_incr idx n) i = fst (dk_incr idx n') i.
Proof.
  intros P idx. induction idx as [|a r IH]; intros n n' H Hidx; simpl; [auto|].
  assert (Ha : n a = n' a) by (apply H; apply Hidx; left; reflexivity). rewrite <- Ha.
  destruct (Nat.ltb (S (n a)) 2).
  - simpl. split; [reflexivity|]. intros i Hi. unfold dk_upd. destruct (Nat.eqb i a); [reflexivity | apply H; exact Hi].
  - apply IH.
    + intros i Hi. unfold dk_upd. destruct (Nat.eqb i a); [reflexivity | apply H; exact Hi].
    + intros i Hi. apply Hidx. right. exact Hi.
Qed.

Lemma fold_ext_in : forall (l : list nat) (f g : nat -> nat) a, (forall i, In i l -> f i = g i) ->
    fold_left (fun acc i => f i + 2 * acc)%nat l a = fold_left (fun acc i => g i + 2 * acc)%nat l a.
Proof.
  induction l as [|x l IH]; intros f g a H; simpl; [reflexivity|].
  rewrite (H x (or_introl eq_refl)). apply IH. intros i Hi. apply H. right. exact Hi.
Qed.

(* from two states that agree on what the sequence looks at: same output, and they still agree *)
Lemma dk_step_core : forall a b, dk_agree a b ->
    fst (dk_core a) = fst (dk_core b) /\ dk_agree (snd (dk_core a)) (snd (dk_core b)).
Proof.
  intros a b [Ho [Hh Hn]]. unfold dk_core.
  destruct (dk_incr_agree (fun i => (i <= dk_hisum a)%nat) (seq 0 (S (dk_hisum a))) (dk_n a) (dk_n b) Hn) as [Hs Hf].
  { intros i Hi. apply in_seq in Hi. lia. }
  rewrite <- Hh. rewrite <- Hs.
  set (na := fst (dk_incr (seq 0 (S (dk_hisum a))) (dk_n a))) in *. set (nb := fst (dk_incr (seq 0 (S (dk_hisum a))) (dk_n b))) in *.
  destruct (snd (dk_incr (seq 0 (S (dk_hisum a))) (dk_n a))); cbn [fst snd dk_olds dk_hisum dk_n].
  - split.
    + apply fold_ext_in. intros i Hi. apply in_rev in Hi. apply in_seq in Hi. apply Hf. lia.
    + split; [exact Ho|]. split; [reflexivity|]. intros i Hi. apply Hf. exact Hi.
  - set (h2 := if Nat.ltb 48 (S (dk_hisum a)) then 0%nat else S (dk_hisum a)).
    assert (Hag : forall i, (i <= h2)%nat -> dk_upd na h2 1 i = dk_upd nb h2 1 i).
    { intros i Hi. unfold dk_upd. destruct (Nat.eqb i h2) eqn:E; [reflexivity|]. apply Nat.eqb_neq in E. apply Hf.
      unfold h2 in *. destruct (Nat.ltb 48 (S (dk_hisum a))); lia. }
    split.
    + apply fold_ext_in. intros i Hi. apply in_rev in Hi. apply in_seq in Hi. apply Hag. lia.
    + split; [exact Ho|]. split; [reflexivity|]. exact Hag.
Qed.

Lemma dk_step_agree : forall s a b,
    dk_agree a b \/ (dk_olds a = 0%nat /\ dk_olds b = 0%nat /\ (1 <= s)%nat) ->
    fst (dk_step s a) = fst (dk_step s b) /\ dk_agree (snd (dk_step s a)) (snd (dk_step s b)).
Proof.
  intros s a b H.
  assert (Hr : dk_agree (dk_reinit s a) (dk_reinit s b)).
  { unfold dk_reinit. destruct H as [[Ho [Hh Hn]]|[Ha [Hb Hs]]].
    - rewrite <- Ho. destruct (negb (Nat.eqb s (dk_olds a)) || Nat.ltb s 1).
      + split; [reflexivity|]. split; [reflexivity|]. simpl. intros i Hi. unfold dk_upd. assert (i = 0%nat) by lia. subst. reflexivity.
      + split; [exact Ho|]. split; [exact Hh | exact Hn].
    - rewrite Ha, Hb. assert (E : Nat.eqb s 0 = false) by (apply Nat.eqb_neq; lia). rewrite E. simpl.
      split; [reflexivity|]. split; [reflexivity|]. simpl. intros i Hi. unfold dk_upd. assert (i = 0%nat) by lia. subst. reflexivity. }
  unfold dk_step. exact (dk_step_core (dk_reinit s a) (dk_reinit s b) Hr).
Qed.

Lemma dk_run_S : forall s x m, dk_run s x (S m) = fst (dk_step s x) :: dk_run s (snd (dk_step s x)) m.
Proof. intros. simpl. destruct (dk_step s x). reflexivity. Qed.

(* after the reset made by mvndst, the vectors handed out are a function of the dimension alone *)
Theorem dkrcht_reset : forall s k a b, (1 <= s)%nat -> dk_run s (dk_reset a) k = dk_run s (dk_reset b) k.
Proof.
  intros s k a b Hs.
  assert (G : forall m x y, dk_agree x y \/ (dk_olds x = 0%nat /\ dk_olds y = 0%nat /\ (1 <= s)%nat) -> dk_run s x m = dk_run s y m).
  { intros m. induction m as [|m IH]; intros x y H; [reflexivity|].
    rewrite !dk_run_S. destruct (dk_step_agree s x y H) as [H1 H2]. rewrite H1. f_equal. apply IH. left. exact H2. }
  apply G. right. simpl. auto.
Qed.

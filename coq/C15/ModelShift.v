(* C15 model, part 3 — finite-element assembly of the shift operator (constant anisotropy, full-dimensional simplices).
   Executable mirror (exact arithmetic) of
     ShiftOpCs::_loadHHRegular            /repo/src/LinearOp/ShiftOpCs.cpp:604   hh = rotmat^T diag(scales^2) rotmat
     MatrixSquareSymmetric::normMatrix    /repo/src/Matrix/MatrixSquareSymmetric.cpp:166   (y^T x y, and y x y^T with transpose)
     ShiftOpCs::_prepareMatricesSVariety  ShiftOpCs.cpp:836   M = corners - last corner; P = (M^T M)^-1 M^T; det(M^T M)
     ShiftOpCs::_buildS                   ShiftOpCs.cpp:916   ratio = sqrt(dethh * detMtM); facVol = (ncorner-1)!; facMass = ncorner!;
                                                               TildeC += ratio/facMass;
                                                               S(ip0,ip1) += (P hh P^T)(j0,j1) ratio/facVol; last row/column = - sums
                                          and the final  S <- D S D  with  D = diag(TildeC^-1/2)
     ShiftOpCs::_buildLambda              ShiftOpCs.cpp:1278  Lambda = sqrt(TildeC * correc)        (python side: irrational)
     CovMatern::computeMarkovCoeffs       /repo/src/Covariances/CovMatern.cpp:113   binomial coefficients of (1+x)^p
   Square roots: ratio = sqrt(1/det hh) |det M|; the factor rt ~ sqrt(1/det hh) and the diagonal D ~ TildeC^-1/2 are inputs
   (doubles computed by the correspondence from the model's own exact det hh and TildeC); every theorem holds for arbitrary
   rt >= 0 and arbitrary D.  No proofs here. *)
From Coq Require Import List Arith ZArith QArith Qabs Bool.
From Gst Require Import lib.QAux lib.LinAlgQ C15.Model.
Import ListNotations.
Local Open Scope Q_scope.

(* X^T B X for X : m x n, B : m x m  (all the products of the assembly have this form) *)
Definition congr (m : nat) (X B : fmat) : fmat :=
  fun i j => sumn m (fun p => sumn m (fun q => X p i * B p q * X q j)).
Definition mcongr (n m : nat) (X B : fmat) : mat := mkr n n (congr m X B).

(* hh = A^T diag(s^2) A   (hh.normMatrix(rotmat, temp), temp = diag(scales^2)) *)
Definition diag_sq (s : list Q) : fmat := fun k l => if Nat.eqb k l then vget s k * vget s k else 0.
Definition hh_mat (ndim : nat) (A : mat) (s : list Q) : mat := mcongr ndim ndim (get A) (diag_sq s).

(* matM(idim, icorn) = x_icorn[idim] - x_last[idim],  icorn < ncorner-1 = ndim *)
Definition edge_mat (ndim : nat) (cs : list (list Q)) : mat :=
  mk ndim ndim (fun idim icorn => nth idim (nth icorn cs []) 0 - nth idim (nth ndim cs []) 0).
(* P = (M^T M)^-1 M^T = M^-1 for a full-dimensional simplex; None = "Matrix inversion" failure *)
Definition elem_P (ndim : nat) (cs : list (list Q)) : option mat := inv_checked ndim (edge_mat ndim cs).
(* matPinvHPt = P hh P^T  (normMatrix(matP, hh, true)) *)
Definition elem_B (ndim : nat) (P H : mat) : mat := mcongr ndim ndim (fun p i => get P i p) (get H).
(* sqrt(det(M^T M)) = |det M| *)
Definition elem_absdet (ndim : nat) (cs : list (list Q)) : Q :=
  Qabs (detl (map (fun c => C16.Model.vsub c (nth ndim cs [])) (firstn ndim cs))).

(* the (ndim+1)-square element matrix written by the loops on j0, j1:
   E(j0,j1) = B'(j0,j1); E(j0,last) = E(last,j0) = - sum_j1 B'(j0,j1); E(last,last) = sum of all *)
Definition elem_E (ndim : nat) (B' : fmat) : fmat :=
  let rs := fun a => sumn ndim (fun j1 => B' a j1) in
  fun a b =>
    if Nat.ltb a ndim then (if Nat.ltb b ndim then B' a b else - rs a)
    else (if Nat.ltb b ndim then - rs b else sumn ndim rs).

(* facVol = prod_{k=2}^{ncorner-1} k = (ncorner-1)!  and  facMass = facVol * ncorner = ncorner! *)
Definition factq (n : nat) : Q := inject_Z (Z.of_nat (fact n)).

Record elem := { e_apex : list nat; e_E : mat; e_ratio : Q }.

Definition make_elem (ndim : nat) (H : mat) (rt : Q) (m : list nat * list (list Q)) : option elem :=
  match elem_P ndim (snd m) with
  | None => None
  | Some P =>
      let ratio := rt * elem_absdet ndim (snd m) in
      let B := elem_B ndim P H in
      Some {| e_apex := fst m;
              e_E := mkr (S ndim) (S ndim) (elem_E ndim (fun i j => get B i j * ratio / factq ndim));
              e_ratio := ratio |}
  end.

(* _S->addValue(ip_a, ip_b, E(a,b)) for all corners a, b = G^T E G with the gather matrix G(a,i) = [apex a = i] *)
Definition gather (e : elem) : fmat := fun a i => delta (nth a (e_apex e) 0%nat) i.
Definition scatter (nc : nat) (e : elem) : fmat := congr nc (gather e) (get (e_E e)).
Definition S_raw (n nc : nat) (els : list elem) : mat :=
  mkr n n (fun i j => lsumQ (map (fun e => scatter nc e i j) els)).
(* _TildeC[ip] += ratio / facMass for every corner of every mesh *)
Definition tildeC (n nc : nat) (els : list elem) : list Q :=
  vkr n (fun i => lsumQ (map (fun e => sumn nc (fun a => gather e a i * (e_ratio e / factq nc))) els)).
(* before commit 080445d32 the constants were 6 (mass) and 2 (stiffness) whatever the dimension: kept for the regression theorem *)
Definition tildeC_old (n nc : nat) (els : list elem) : list Q :=
  vkr n (fun i => lsumQ (map (fun e => sumn nc (fun a => gather e a i * (e_ratio e / 6))) els)).

Fixpoint omap {A B} (f : A -> option B) (l : list A) : option (list B) :=
  match l with
  | [] => Some []
  | x :: r => match f x, omap f r with Some y, Some ys => Some (y :: ys) | _, _ => None end
  end.
Record shift := { sh_Sraw : mat; sh_tildeC : list Q; sh_H : mat }.
Definition build_shift (ndim n : nat) (A : mat) (s : list Q) (rt : Q) (meshes : list (list nat * list (list Q))) : option shift :=
  let H := hh_mat ndim A s in
  match omap (make_elem ndim H rt) meshes with
  | None => None
  | Some els => Some {| sh_Sraw := S_raw n (S ndim) els; sh_tildeC := tildeC n (S ndim) els; sh_H := H |}
  end.

(* non-stationary anisotropy: _loadHH per mesh (rotation matrix, scales and sqrt(1/det hh) of each mesh given) *)
Definition elem_of_ns (ndim : nat) (pm : (mat * list Q * Q) * (list nat * list (list Q))) : option elem :=
  make_elem ndim (hh_mat ndim (fst (fst (fst pm))) (snd (fst (fst pm)))) (snd (fst pm)) (snd pm).
Definition build_shift_ns (ndim n : nat) (params : list (mat * list Q * Q)) (meshes : list (list nat * list (list Q))) : option shift :=
  match omap (elem_of_ns ndim) (combine params meshes) with
  | None => None
  | Some els => Some {| sh_Sraw := S_raw n (S ndim) els; sh_tildeC := tildeC n (S ndim) els; sh_H := [] |}
  end.


(* S <- diag(d) S diag(d)   (prodNormDiagVecInPlace(_TildeC, -3): d_i = TildeC_i^-1/2, given) *)
Definition scaled_S (n : nat) (d : list Q) (Sr : mat) : mat := mkr n n (fun i j => vget d i * get Sr i j * vget d j).

(* CovMatern::computeMarkovCoeffs: _markovCoeffs[i] = ut_cnp(p, i), i = 0..p *)
Fixpoint binom (p i : nat) : Z :=
  match p, i with
  | _, O => 1%Z
  | O, S _ => 0%Z
  | S p', S i' => (binom p' i' + binom p' (S i'))%Z
  end.
Definition markov_coeffs (p : nat) : list Q := map (fun i => inject_Z (binom p i)) (seq 0 (S p)).

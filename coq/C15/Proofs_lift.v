(* C15 proofs, lifting the tiling of the reference cell to the cells of a (rotated) grid: every sample of a cell gets a row. *)
From Coq Require Import List Arith ZArith QArith Qabs Qminmax Bool Lqa Lia Setoid Morphisms.
From Gst Require Import lib.QAux lib.LinAlgQ C15.gen.MSS C15.Model C15.Spec C15.Proofs_tile C15.Proofs_proj.
Import ListNotations.
Local Open Scope Q_scope.

(* coordinates of the grid node  indg0 + s  are affine in the offset s *)
Definition rotM (g : C16.Model.grid) (i k : nat) : Q :=
  if C16.Model.r_flag (C16.Model.g_rot g) then C16.Model.mget (C16.Model.r_mat (C16.Model.g_rot g)) i k else C16.Model.delta i k.
Definition cellA (g : C16.Model.grid) (i k : nat) : Q := rotM g i k * nth k (C16.Model.g_dx g) 0.
Definition cellt0 (ndim : nat) (g : C16.Model.grid) (indg0 : list Z) (i : nat) : Q :=
  nth i (C16.Model.g_x0 g) 0 + sumn ndim (fun k => cellA g i k * inject_Z (nth k indg0 0%Z)).
Definition cellT (ndim : nat) (g : C16.Model.grid) (indg0 : list Z) (c : list Q) : list Q :=
  map (fun i => affine ndim (cellA g i) (cellt0 ndim g indg0 i) c) (seq 0 ndim).

Definition wf_shape (ndim : nat) (g : C16.Model.grid) : Prop :=
  length (C16.Model.g_nx g) = ndim /\ length (C16.Model.g_x0 g) = ndim /\ length (C16.Model.g_dx g) = ndim /\
  length (C16.Model.r_mat (C16.Model.g_rot g)) = ndim /\ Forall (fun r => length r = ndim) (C16.Model.r_mat (C16.Model.g_rot g)).

Lemma node_affine2 g i j s0 s1 idim :
  wf_shape 2 g -> (idim < 2)%nat ->
  nth idim (C16.Model.node g [(i + s0)%Z; (j + s1)%Z]) 0 ==
  affine 2 (cellA g idim) (cellt0 2 g [i; j] idim) [inject_Z s0; inject_Z s1].
Proof.
  intros [Hn [Hx [Hd [Hm Hr]]]] Hi.
  destruct g as [nx x0 dx [fl M Mi]]. cbn [C16.Model.g_nx C16.Model.g_x0 C16.Model.g_dx C16.Model.g_rot C16.Model.r_mat] in *.
  destruct x0 as [|a [|b [|? ?]]]; try discriminate Hx.
  destruct dx as [|d0 [|d1 [|? ?]]]; try discriminate Hd.
  destruct M as [|r0 [|r1 [|? ?]]]; try discriminate Hm.
  inversion Hr as [|? ? H0 Hr']; subst. inversion Hr' as [|? ? H1 _]; subst.
  destruct r0 as [|m00 [|m01 [|? ?]]]; try discriminate H0.
  destruct r1 as [|m10 [|m11 [|? ?]]]; try discriminate H1.
  unfold C16.Model.node, C16.Model.i2c, C16.Model.scaled, C16.Model.rotate_direct, affine, cellt0, cellA, rotM, C16.Model.mget, C16.Model.delta.
  cbn [C16.Model.g_nx C16.Model.g_x0 C16.Model.g_dx C16.Model.g_rot C16.Model.r_mat C16.Model.r_flag map C16.Model.map2 sumn nth].
  destruct fl; cbn [C16.Model.mvec C16.Model.dot map C16.Model.vadd C16.Model.map2 nth];
    destruct idim as [|[|?]]; try lia; cbn [nth Nat.eqb]; rewrite !inject_Z_plus; ring.
Qed.

Lemma node_affine1 g i s0 idim :
  wf_shape 1 g -> (idim < 1)%nat ->
  nth idim (C16.Model.node g [(i + s0)%Z]) 0 ==
  affine 1 (cellA g idim) (cellt0 1 g [i] idim) [inject_Z s0].
Proof.
  intros [Hn [Hx [Hd [Hm Hr]]]] Hi.
  destruct g as [nx x0 dx [fl M Mi]]. cbn [C16.Model.g_nx C16.Model.g_x0 C16.Model.g_dx C16.Model.g_rot C16.Model.r_mat] in *.
  destruct x0 as [|a [|? ?]]; try discriminate Hx.
  destruct dx as [|d0 [|? ?]]; try discriminate Hd.
  destruct M as [|r0 [|? ?]]; try discriminate Hm.
  inversion Hr as [|? ? H0 Hr']; subst.
  destruct r0 as [|m00 [|? ?]]; try discriminate H0.
  unfold C16.Model.node, C16.Model.i2c, C16.Model.scaled, C16.Model.rotate_direct, affine, cellt0, cellA, rotM, C16.Model.mget, C16.Model.delta.
  cbn [C16.Model.g_nx C16.Model.g_x0 C16.Model.g_dx C16.Model.g_rot C16.Model.r_mat C16.Model.r_flag map C16.Model.map2 sumn nth].
  destruct fl; cbn [C16.Model.mvec C16.Model.dot map C16.Model.vadd C16.Model.map2 nth];
    destruct idim as [|?]; try lia; cbn [nth Nat.eqb]; rewrite !inject_Z_plus; ring.
Qed.

Lemma node_affine3 g i j k s0 s1 s2 idim :
  wf_shape 3 g -> (idim < 3)%nat ->
  nth idim (C16.Model.node g [(i + s0)%Z; (j + s1)%Z; (k + s2)%Z]) 0 ==
  affine 3 (cellA g idim) (cellt0 3 g [i; j; k] idim) [inject_Z s0; inject_Z s1; inject_Z s2].
Proof.
  intros [Hn [Hx [Hd [Hm Hr]]]] Hi.
  destruct g as [nx x0 dx [fl M Mi]]. cbn [C16.Model.g_nx C16.Model.g_x0 C16.Model.g_dx C16.Model.g_rot C16.Model.r_mat] in *.
  destruct x0 as [|a [|b [|c [|? ?]]]]; try discriminate Hx.
  destruct dx as [|d0 [|d1 [|d2 [|? ?]]]]; try discriminate Hd.
  destruct M as [|r0 [|r1 [|r2 [|? ?]]]]; try discriminate Hm.
  inversion Hr as [|? ? H0 Hr']; subst. inversion Hr' as [|? ? H1 Hr'']; subst. inversion Hr'' as [|? ? H2 _]; subst.
  destruct r0 as [|m00 [|m01 [|m02 [|? ?]]]]; try discriminate H0.
  destruct r1 as [|m10 [|m11 [|m12 [|? ?]]]]; try discriminate H1.
  destruct r2 as [|m20 [|m21 [|m22 [|? ?]]]]; try discriminate H2.
  unfold C16.Model.node, C16.Model.i2c, C16.Model.scaled, C16.Model.rotate_direct, affine, cellt0, cellA, rotM, C16.Model.mget, C16.Model.delta.
  cbn [C16.Model.g_nx C16.Model.g_x0 C16.Model.g_dx C16.Model.g_rot C16.Model.r_mat C16.Model.r_flag map C16.Model.map2 sumn nth].
  destruct fl; cbn [C16.Model.mvec C16.Model.dot map C16.Model.vadd C16.Model.map2 nth];
    destruct idim as [|[|[|?]]]; try lia; cbn [nth Nat.eqb]; rewrite !inject_Z_plus; ring.
Qed.

(* corners of a simplex of the cell: coordinates of grid nodes = image by cellT of the reference corners *)
Definition coords_eq (ndim : nat) (c c' : list Q) : Prop := forall idim, (idim < ndim)%nat -> nth idim c 0 == nth idim c' 0.

Lemma nth_cellT ndim g indg0 c idim : (idim < ndim)%nat ->
  nth idim (cellT ndim g indg0 c) 0 = affine ndim (cellA g idim) (cellt0 ndim g indg0 idim) c.
Proof. intro H. unfold cellT. exact (nth_map_seq (fun i => affine ndim (cellA g i) (cellt0 ndim g indg0 i) c) ndim idim 0 H). Qed.

Lemma simplex_coords_image t icas indg0 :
  let ndim := t_ndim t in
  (1 <= ndim <= 3)%nat -> wf_shape ndim (t_grid t) -> length indg0 = ndim ->
  Forall2 (coords_eq ndim) (simplex_coords t icas indg0)
          (map (cellT ndim (t_grid t) indg0) (unit_corners ndim (polarized (t_pol t) ndim indg0) icas)).
Proof.
  intros ndim Hn Hwf Hl. unfold simplex_coords, simplex_inds, unit_corners. fold ndim.
  set (ipol := polarized (t_pol t) ndim indg0).
  rewrite !map_map.
  assert (G : forall icorn, coords_eq ndim (C16.Model.node (t_grid t) (corner_ind ndim ipol icas icorn indg0))
                                      (cellT ndim (t_grid t) indg0 (map (fun idim => inject_Z (mss ndim ipol icas icorn idim)) (seq 0 ndim)))).
  { intros icorn idim Hd. rewrite nth_cellT by exact Hd. unfold corner_ind.
    destruct ndim as [|[|[|[|?]]]]; try lia.
    - destruct indg0 as [|i [|? ?]]; try discriminate Hl. cbn [seq map C16.Model.map2]. apply node_affine1; assumption.
    - destruct indg0 as [|i [|j [|? ?]]]; try discriminate Hl. cbn [seq map C16.Model.map2]. apply node_affine2; assumption.
    - destruct indg0 as [|i [|j [|k [|? ?]]]]; try discriminate Hl. cbn [seq map C16.Model.map2]. apply node_affine3; assumption. }
  induction (seq 0 (S ndim)) as [|ic l IH]; cbn [map]; constructor; [apply G|exact IH].
Qed.

Lemma wcomb_coords_eq ndim idim : (idim < ndim)%nat -> forall cs cs', Forall2 (coords_eq ndim) cs' cs ->
  forall l, wcomb l cs' idim == wcomb l cs idim.
Proof.
  intros Hd cs cs' H. induction H as [|c' c cs' cs E _ IH]; intros [|w l]; unfold wcomb in *; cbn [C16.Model.map2 lsumQ fold_right]; try reflexivity.
  unfold lsumQ in IH. rewrite (E idim Hd), (IH l). reflexivity.
Qed.

Lemma bary_system_coords_eq ndim cs cs' x x' l :
  Forall2 (coords_eq ndim) cs' cs -> coords_eq ndim x' x -> bary_system ndim cs x l -> bary_system ndim cs' x' l.
Proof.
  intros Hc Hx [Hl [Hs Hw]]. split; [|split; [exact Hs|]].
  - rewrite Hl. clear -Hc. induction Hc; cbn [length]; [reflexivity|]. rewrite IHHc. reflexivity.
  - intros idim Hd. rewrite (wcomb_coords_eq ndim idim Hd cs cs' Hc l). rewrite (Hw idim Hd). symmetry. apply Hx; exact Hd.
Qed.

Lemma polarized_lt flag ndim indg : (polarized flag ndim indg < npol ndim)%nat.
Proof.
  unfold polarized, npol. destruct flag; cbn [negb]; [|destruct ndim as [|[|[|?]]]; lia].
  destruct ndim as [|[|[|?]]]; try lia. destruct (Z.eqb _ 1); lia.
Qed.

Lemma inside_gets_weights t sb indg0 u coor :
  let ndim := t_ndim t in
  (1 <= ndim <= 3)%nat -> wf_shape ndim (t_grid t) -> length indg0 = ndim -> length u = ndim -> in_unit_cube u ->
  length coor = ndim -> coords_eq ndim coor (cellT ndim (t_grid t) indg0 u) ->
  (forall icas, (icas < nper_cell ndim)%nat ->
     Forall (fun r => (r <? 0)%Z = false) (simplex_ranks t icas indg0) /\
     Forall (fun r => (r <? 0)%Z = false) (map (atoR sb) (simplex_ranks t icas indg0)) /\
     bary (simplex_coords t icas indg0) coor <> None) ->
  exists icas lam m, (icas < nper_cell ndim)%nat /\
    add_weights t sb icas indg0 coor = Wok (map (atoR sb) (simplex_ranks t icas indg0)) lam lam m /\ all_nonneg lam.
Proof.
  intros ndim Hn Hwf Hli Hlu Hu Hlc Hx Hcell.
  set (ipol := polarized (t_pol t) ndim indg0).
  destruct (cell_covered ndim ipol (cellT ndim (t_grid t) indg0) (cellA (t_grid t)) (cellt0 ndim (t_grid t) indg0) u
              Hn (polarized_lt _ _ _) Hlu Hu) as [icas [l [Hi [Hnn Hs]]]].
  { intros c idim Hd. rewrite nth_cellT by exact Hd. reflexivity. }
  destruct (Hcell icas Hi) as [Hr [Ha Hnd]].
  assert (Hs' : bary_system (length coor) (simplex_coords t icas indg0) coor l).
  { rewrite Hlc. apply (bary_system_coords_eq ndim _ _ _ _ l (simplex_coords_image t icas indg0 Hn Hwf Hli) Hx Hs). }
  destruct (add_weights_accepts t sb icas indg0 coor l Hr Ha Hnd Hs' Hnn) as [lam [m [Hw Hq]]].
  exists icas, lam, m. split; [exact Hi|]. split; [exact Hw|]. apply (Forall2_Qeq_nonneg lam l Hq Hnn).
Qed.

Lemma add_element_loop_some t sb indg0 coor : forall cases m0 icas idx lam w m,
  In icas cases -> add_weights t sb icas indg0 coor = Wok idx lam w m ->
  fst (add_element_loop t sb indg0 coor cases m0) <> None.
Proof.
  intros cases m0 icas idx lam w m Hin Hw E.
  destruct (add_element_loop t sb indg0 coor cases m0) as [o m'] eqn:El. cbn [fst] in E. subst o.
  destruct (add_element_loop_none _ _ _ _ _ _ _ El icas Hin) as [mj Hj]. rewrite Hj in Hw. discriminate.
Qed.

(* every sample of a cell whose nodes are on the grid and active, and which is not degenerate, gets a row
   (the row is the one of the first accepted simplex: C15_row_is_simplex and C15_weights_affine describe it) *)
Lemma inside_gets_row t indg0 u coor :
  let ndim := t_ndim t in let sb := selbis t in
  (1 <= ndim <= 3)%nat -> wf_shape ndim (t_grid t) -> length indg0 = ndim -> length u = ndim -> in_unit_cube u ->
  length coor = ndim -> coords_eq ndim coor (cellT ndim (t_grid t) indg0 u) ->
  C16.Model.c2i (t_grid t) coor false eps6 = (false, indg0) ->
  (forall icas, (icas < nper_cell ndim)%nat ->
     Forall (fun r => (r <? 0)%Z = false) (simplex_ranks t icas indg0) /\
     Forall (fun r => (r <? 0)%Z = false) (map (atoR sb) (simplex_ranks t icas indg0)) /\
     bary (simplex_coords t icas indg0) coor <> None) ->
  p_found (proj_point t sb coor) <> None.
Proof.
  intros ndim sb Hn Hwf Hli Hlu Hu Hlc Hx Hloc Hcell.
  destruct (inside_gets_weights t sb indg0 u coor Hn Hwf Hli Hlu Hu Hlc Hx Hcell) as [icas [lam [m [Hi [Hw Hnn]]]]].
  unfold proj_point. rewrite Hloc. cbn [fst snd]. unfold add_element. fold ndim.
  destruct (add_element_loop t sb indg0 coor (seq 0 (nper_cell ndim)) 1) as [[f|] m1] eqn:E1; cbn [fst snd p_found]; [discriminate|].
  exfalso.
  assert (Hin : In icas (seq 0 (nper_cell ndim))) by (apply in_seq; split; [apply Nat.le_0_l|exact Hi]).
  apply (add_element_loop_some t sb indg0 coor (seq 0 (nper_cell ndim)) 1 icas _ _ _ _ Hin Hw).
  rewrite E1. reflexivity.
Qed.

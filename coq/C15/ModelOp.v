(* C15 model, part 2 — polynomial of an operator and the two forms of the precision matrix.  Executable mirror of
     ClassicalPolynomial::evalOp            /repo/src/Polynomials/ClassicalPolynomial.cpp:132   (Horner from the highest degree)
     ClassicalPolynomial::evalOpCumul       ClassicalPolynomial.cpp:49   (= addEvalOp :87 for an ALinearOp)
     ClassicalPolynomial::evalOpTraining    ClassicalPolynomial.cpp:184
     ShiftOpCs::prodLambda (power ONE)      /repo/src/LinearOp/ShiftOpCs.cpp:364
     PrecisionOp::_addEvalPower (ONE)       /repo/src/LinearOp/PrecisionOp.cpp:317   Lambda . P(S) . Lambda . v, matrix-free
     PrecisionOp::_evalPoly                 PrecisionOp.cpp:350 (training or not: same value)
     PrecisionOpCs::_build_Q                /repo/src/LinearOp/PrecisionOpCs.cpp:253 (Q = b0 I; Bi = S; Q += b_i Bi; Bi = Bi S; Q = diag(L) Q diag(L))
     ALinearOp::evalDirect / addToDest      /repo/src/LinearOp/ALinearOp.cpp:33 / 28
     PrecisionOp::_addToDest                PrecisionOp.cpp:156   (local evaluation, then added to the destination)
     PrecisionOpCs::_addToDest              PrecisionOpCs.cpp:132 (adds to the destination)
   Vectors are lists of n rationals, matrices lists of n rows (lib/LinAlgQ: mk/get, mmul, mmv keep fractions reduced).
   The operator S and the vector Lambda are inputs (harvested exactly from the library by the correspondence).
   No proofs here. *)
From Coq Require Import List ZArith QArith Bool.
From Gst Require Import lib.QAux lib.LinAlgQ.
Import ListNotations.
Local Open Scope Q_scope.

(* y[i] = x[i] * Lambda[i] *)
Definition prod_lambda (n : nat) (lam x : list Q) : list Q := vkr n (fun i => vget x i * vget lam i).
(* outv[i] = c * inv[i] + work[i] *)
Definition axpy (n : nat) (c : Q) (inv work : list Q) : list Q := vkr n (fun i => c * vget inv i + vget work i).
Definition scal (n : nat) (c : Q) (inv : list Q) : list Q := vkr n (fun i => c * vget inv i).

(* evalOp: outv = c_d inv ; for j = d-1 .. 0 : work = Op outv ; outv = c_j inv + work.
   [crev] = the remaining coefficients c_{j}, c_{j-1}, ..., c_0 *)
Fixpoint eval_op_loop (n : nat) (Op : mat) (crev : list Q) (inv outv : list Q) : list Q :=
  match crev with
  | [] => outv
  | c :: r => eval_op_loop n Op r inv (axpy n c inv (mmv n n Op outv))
  end.
Definition eval_op (n : nat) (Op : mat) (c : list Q) (inv : list Q) : list Q :=
  match rev c with
  | [] => vk n (fun _ => 0)                       (* _coeffs.back() on an empty vector: not a defined call *)
  | cd :: r => eval_op_loop n Op r inv (scal n cd inv)
  end.

(* evalOpCumul / addEvalOp: outv += c_0 inv ; w = Op inv ; for j = 1..d : outv += c_j w ; if j < d : w = Op w *)
Fixpoint cumul_loop (n : nat) (Op : mat) (cs : list Q) (w outv : list Q) : list Q :=
  match cs with
  | [] => outv
  | c :: r => let outv' := axpy n c w outv in
              match r with [] => outv' | _ => cumul_loop n Op r (mmv n n Op w) outv' end
  end.
Definition eval_op_cumul (n : nat) (Op : mat) (c : list Q) (inv outv : list Q) : list Q :=
  match c with
  | [] => outv
  | c0 :: r => cumul_loop n Op r (mmv n n Op inv) (axpy n c0 inv outv)
  end.

(* evalOpTraining: store[d] = c_d inv ; store[j] = c_j inv + Op store[j+1].  Returns store[0..d] *)
Fixpoint eval_op_training (n : nat) (Op : mat) (c : list Q) (inv : list Q) : list (list Q) :=
  match c with
  | [] => []
  | c0 :: r =>
      match r with
      | [] => [scal n c0 inv]
      | _ => let st := eval_op_training n Op r inv in
             axpy n c0 inv (mmv n n Op (hd [] st)) :: st
      end
  end.

(* PrecisionOp::_addEvalPower, power ONE, on top of ALinearOp::evalDirect (outv zeroed first, then overwritten) *)
Definition add_eval_power (n : nat) (S : mat) (lam c inv : list Q) : list Q :=
  prod_lambda n lam (eval_op n S c (prod_lambda n lam inv)).
(* same through _evalPoly's training branch: outv = _workPoly[0] *)
Definition add_eval_power_training (n : nat) (S : mat) (lam c inv : list Q) : list Q :=
  prod_lambda n lam (hd (vk n (fun _ => 0)) (eval_op_training n S c (prod_lambda n lam inv))).

(* PrecisionOpCs::_build_Q *)
Fixpoint build_loop (n : nat) (S : mat) (cs : list Q) (Qm Bi : mat) : mat :=
  match cs with
  | [] => Qm
  | c :: r => let Q' := mkr n n (fun i j => get Qm i j + c * get Bi i j) in
              match r with [] => Q' | _ => build_loop n S r Q' (mmul n n n Bi S) end
  end.
Definition build_Q (n : nat) (S : mat) (lam c : list Q) : mat :=
  match c with
  | [] => []                                        (* "You must have a set of already available 'blin' coefficients" *)
  | c0 :: r =>
      let Q0 := mk n n (fun i j => c0 * delta i j) in
      let Q1 := build_loop n S r Q0 S in
      mkr n n (fun i j => vget lam i * get Q1 i j * vget lam j)     (* prodNormDiagVecInPlace(Lambda, 1) *)
  end.
(* PrecisionOpCs::_addToDest through evalDirect: Q . v *)
Definition eval_direct_cs (n : nat) (S : mat) (lam c inv : list Q) : list Q := mmv n n (build_Q n S lam c) inv.

(* ALinearOp::addToDest on the two forms.  PrecisionOp::_addToDest evaluates _addEvalPower in a local vector and adds it
   to the destination; PrecisionOpCs::_addToDest is _Q->addToDest: destination + Q.inv *)
Definition add_to_dest_free (n : nat) (S : mat) (lam c inv outv : list Q) : list Q :=
  vkr n (fun i => vget outv i + vget (add_eval_power n S lam c inv) i).
Definition add_to_dest_cs (n : nat) (S : mat) (lam c inv outv : list Q) : list Q :=
  vkr n (fun i => vget outv i + vget (mmv n n (build_Q n S lam c) inv) i).

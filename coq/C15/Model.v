(* C15 model, part 1 — projection of points on a meshing.  Executable mirror (exact arithmetic) of
     MeshETurbo::_getGridFromMesh          /repo/src/Mesh/MeshETurbo.cpp:785
     MeshETurbo::_buildMaskInMeshing       MeshETurbo.cpp:292      Indirection::buildFromSel / getAToR  /repo/src/Basic/Indirection.cpp:86 / 155
     MeshETurbo::_addWeights               MeshETurbo.cpp:701      (barycentric system [x_c;1] lambda = [x;1], rejection, clamping)
     MeshETurbo::_addElementToTriplet      MeshETurbo.cpp:478      (first accepted simplex wins)
     MeshETurbo::resetProjMatrix           MeshETurbo.cpp:513      (cell location, upper-edge shift, row counter iech)
     AMesh::_getMeshUnit / _weightsInMesh  /repo/src/Mesh/AMesh.cpp:677 / 633
     MeshEStandard::_defineContainers / _coorInMeshContainer / resetProjMatrix   /repo/src/Mesh/MeshEStandard.cpp:437 / 494 / 272
     AMatrixSquare::determinant            /repo/src/Matrix/AMatrixSquare.cpp:149  (dimensions 1..3)
     NF_Triplet::force                     /repo/src/Matrix/NF_Triplet.cpp:56
   MSS / _setNumberElementPerCell / _getPolarized come from the generated file gen/MSS.v.
   Grid index / coordinate maps are those of the C16 model (imported, not copied).
   No proofs here. *)
From Coq Require Import List ZArith QArith Qround Qabs Qminmax Bool.
From Gst Require Import lib.QAux C15.gen.MSS.
From Gst Require C16.Model.
Import ListNotations.
Local Open Scope Q_scope.

Definition eps6 : Q := 1 # 1000000.      (* EPSILON6 *)
Definition eps5 : Q := 1 # 100000.       (* EPSILON5 *)

(* ------------------------------------------------------------------ small helpers *)
Definition lsumQ (l : list Q) : Q := fold_right Qplus 0 l.
Definition lminQ (d : Q) (l : list Q) : Q := fold_right Qmin d l.
Definition zseq (n : Z) : list Z := map Z.of_nat (seq 0 (Z.to_nat n)).
Definition znth {A} (l : list A) (i : Z) (d : A) : A := if (i <? 0)%Z then d else nth (Z.to_nat i) l d.

(* AMatrixSquare::determinant for 1 <= n <= 3 (a matrix given by its rows; det M = det M^T) *)
Definition det2 (a b c d : Q) : Q := a * d - b * c.
Definition det3 (a b c d e f g h i : Q) : Q :=
  a * (e * i - f * h) - b * (d * i - f * g) + c * (d * h - e * g).
Definition detl (m : list (list Q)) : Q :=
  match m with
  | [[a]] => a
  | [[a; b]; [c; d]] => det2 a b c d
  | [[a; b; c]; [d; e; f]; [g; h; i]] => det3 a b c d e f g h i
  | _ => 0
  end.

(* ------------------------------------------------------------------ barycentric coordinates
   Solution of [x_c ; 1] lambda = [x ; 1] (MeshETurbo::_addWeights inverts the (ndim+1)-square matrix;
   here the same unique solution by elimination of lambda_0 and Cramer's rule on the edge matrix).
   [None] = singular system (lhs.invert() fails). *)
Definition bary (cs : list (list Q)) (x : list Q) : option (list Q) :=
  match cs, x with
  | [[a]; [b]], [x0] =>
      let d := b - a in
      if qeqb d 0 then None else
      let l1 := (x0 - a) / d in
      Some [1 - l1; l1]
  | [[a0; a1]; [b0; b1]; [c0; c1]], [x0; x1] =>
      let d := det2 (b0 - a0) (c0 - a0) (b1 - a1) (c1 - a1) in
      if qeqb d 0 then None else
      let l1 := det2 (x0 - a0) (c0 - a0) (x1 - a1) (c1 - a1) / d in
      let l2 := det2 (b0 - a0) (x0 - a0) (b1 - a1) (x1 - a1) / d in
      Some [1 - l1 - l2; l1; l2]
  | [[a0; a1; a2]; [b0; b1; b2]; [c0; c1; c2]; [d0; d1; d2]], [x0; x1; x2] =>
      let d := det3 (b0 - a0) (c0 - a0) (d0 - a0) (b1 - a1) (c1 - a1) (d1 - a1) (b2 - a2) (c2 - a2) (d2 - a2) in
      if qeqb d 0 then None else
      let l1 := det3 (x0 - a0) (c0 - a0) (d0 - a0) (x1 - a1) (c1 - a1) (d1 - a1) (x2 - a2) (c2 - a2) (d2 - a2) / d in
      let l2 := det3 (b0 - a0) (x0 - a0) (d0 - a0) (b1 - a1) (x1 - a1) (d1 - a1) (b2 - a2) (x2 - a2) (d2 - a2) / d in
      let l3 := det3 (b0 - a0) (c0 - a0) (x0 - a0) (b1 - a1) (c1 - a1) (x1 - a1) (b2 - a2) (c2 - a2) (x2 - a2) / d in
      Some [1 - l1 - l2 - l3; l1; l2; l3]
  | _, _ => None
  end.

(* ------------------------------------------------------------------ turbo meshing *)
Record turbo := { t_grid : C16.Model.grid; t_pol : bool; t_sel : list bool (* [] = no selection; else one flag per grid node *) }.
Definition t_ndim (t : turbo) : nat := length (C16.Model.g_nx (t_grid t)).
Definition t_nx (t : turbo) : list Z := C16.Model.g_nx (t_grid t).

(* indg0 + MSS(ndim, ipol, icas, icorner, .) *)
Definition corner_ind (ndim ipol icas icorn : nat) (indg0 : list Z) : list Z :=
  C16.Model.map2 (fun i idim => (i + mss ndim ipol icas icorn idim)%Z) indg0 (seq 0 ndim).
Definition simplex_inds (ndim ipol icas : nat) (indg0 : list Z) : list (list Z) :=
  map (fun icorn => corner_ind ndim ipol icas icorn indg0) (seq 0 (S ndim)).

(* MeshETurbo::_nmeshInCompleteGrid *)
Definition nmesh_complete (t : turbo) : Z :=
  (C16.Model.prodZ (map (fun n => n - 1) (t_nx t)) * Z.of_nat (nper_cell (t_ndim t)))%Z.
(* _getGridFromMesh followed by rankToIndice(node): starting node indices and simplex rank of a mesh *)
Definition mesh_cell (t : turbo) (imesh : Z) : list Z * nat :=
  let ncas := Z.of_nat (nper_cell (t_ndim t)) in
  let rank := Z.quot imesh ncas in
  let indg := C16.Model.rankToIndice (t_nx t) rank true in
  let node := C16.Model.indiceToRank (t_nx t) indg in
  (C16.Model.rankToIndice (t_nx t) node false, Z.to_nat (imesh - rank * ncas)).
Definition mesh_corner_ranks (t : turbo) (imesh : Z) : list Z :=
  let c := mesh_cell t imesh in
  let ipol := polarized (t_pol t) (t_ndim t) (fst c) in
  map (C16.Model.indiceToRank (t_nx t)) (simplex_inds (t_ndim t) ipol (snd c) (fst c)).
(* _buildMaskInMeshing: a mesh is masked as soon as one of its apices has sel == 0;
   selbis marks the nodes of the active meshes; gridIndirect = buildFromSel(selbis) *)
Definition mesh_masked (t : turbo) (imesh : Z) : bool :=
  existsb (fun iad => negb (znth (t_sel t) iad false)) (mesh_corner_ranks t imesh).
Definition selbis (t : turbo) : list bool :=
  match t_sel t with
  | [] => []
  | _ => let act := flat_map (fun im => if mesh_masked t im then [] else mesh_corner_ranks t im)
                             (zseq (nmesh_complete t)) in
         map (fun iad => existsb (Z.eqb iad) act) (zseq (C16.Model.prodZ (t_nx t)))
  end.
Definition count_true (l : list bool) : Z := Z.of_nat (length (filter (fun b => b) l)).
(* Indirection::getAToR (map storage): identity when no indirection is defined (no selection: selbis = []),
   -1 for an absent node, also when the selection leaves no active node at all *)
Definition atoR (sb : list bool) (iabs : Z) : Z :=
  match sb with
  | [] => iabs
  | _ => if znth sb iabs false then count_true (firstn (Z.to_nat iabs) sb) else (-1)%Z
  end.
(* MeshETurbo::getNApices *)
Definition napices (t : turbo) (sb : list bool) : Z :=
  match t_sel t with [] => C16.Model.prodZ (t_nx t) | _ => count_true sb end.

(* result of _addWeights for one simplex.  [margin]: distance of the closest lambda to a rejection threshold
   (1 when the simplex is refused on indices alone) *)
Inductive wres :=
| Wfail (margin : Q)
| Wok (idx : list Z) (lam w : list Q) (margin : Q).

Definition lam_bad (l : Q) : bool := qltb l (- eps6) || qltb (1 + eps6) l.
Definition clamp01 (l : Q) : Q := if qltb l 0 then 0 else if qltb 1 l then 1 else l.
Definition lam_margin (l : Q) : Q := Qmin (Qabs (l + eps6)) (Qabs (l - 1 - eps6)).

Definition add_weights (t : turbo) (sb : list bool) (icas : nat) (indg0 : list Z) (coor : list Q) : wres :=
  let ndim := t_ndim t in
  let ipol := polarized (t_pol t) ndim indg0 in
  let inds := simplex_inds ndim ipol icas indg0 in
  let ranks := map (C16.Model.indiceToRank (t_nx t)) inds in
  if existsb (fun r => (r <? 0)%Z) ranks then Wfail 1            (* grid node outside grid *)
  else
    let idx := map (atoR sb) ranks in
    if existsb (fun r => (r <? 0)%Z) idx then Wfail 1             (* grid node not active *)
    else
      match bary (map (C16.Model.node (t_grid t)) inds) coor with
      | None => Wfail 1                                           (* lhs.invert() fails *)
      | Some lam =>
          let m := lminQ 1 (map lam_margin lam) in
          if existsb lam_bad lam then Wfail m else Wok idx lam (map clamp01 lam) m
      end.

(* _addElementToTriplet: the simplices of the cell in the order icas = 0.._nPerCell-1; the first accepted one wins.
   Returns the accepted (indices, raw lambda, stored weights) and the smallest margin met on the way *)
Fixpoint add_element_loop (t : turbo) (sb : list bool) (indg0 : list Z) (coor : list Q) (cases : list nat) (m : Q)
  : option (list Z * list Q * list Q) * Q :=
  match cases with
  | [] => (None, m)
  | icas :: rest =>
      match add_weights t sb icas indg0 coor with
      | Wok idx lam w m' => (Some (idx, lam, w), Qmin m m')
      | Wfail m' => add_element_loop t sb indg0 coor rest (Qmin m m')
      end
  end.
Definition add_element (t : turbo) (sb : list bool) (indg0 : list Z) (coor : list Q) :=
  add_element_loop t sb indg0 coor (seq 0 (nper_cell (t_ndim t))) 1.

(* one sample of resetProjMatrix after the activity filters *)
Record prow := { p_located : bool;                                   (* coordinateToIndicesInPlace == 0 *)
                 p_found : option (list Z * list Q * list Q);       (* indices, raw lambda, stored weights *)
                 p_margin : Q;                                       (* simplex decisions *)
                 p_locmargin : Q }.                                  (* cell location: distance of w/dx+eps to an integer *)

Definition frac_margin (x : Q) : Q := let f := x - inject_Z (Qfloor x) in Qmin f (1 - f).
Definition loc_margin (t : turbo) (coor : list Q) : Q :=
  lminQ 1 (C16.Model.map2 (fun w d => frac_margin (C16.Model.c2i_t false eps6 w d)) (C16.Model.grid_frame (t_grid t) coor) (C16.Model.g_dx (t_grid t))).

Definition proj_point (t : turbo) (sb : list bool) (coor : list Q) : prow :=
  let lm := loc_margin t coor in
  let loc := C16.Model.c2i (t_grid t) coor false eps6 in
  if fst loc then {| p_located := false; p_found := None; p_margin := 1; p_locmargin := lm |}
  else
    let indg0 := snd loc in
    let r1 := add_element t sb indg0 coor in
    match fst r1 with
    | Some f => {| p_located := true; p_found := Some f; p_margin := snd r1; p_locmargin := lm |}
    | None =>
        (* "try to shift the point down by one node" on every axis where the index is the last node *)
        let on_edge := C16.Model.map2 (fun i n => Z.eqb i (n - 1)) indg0 (t_nx t) in
        if existsb (fun b => b) on_edge then
          let indg1 := C16.Model.map2 (fun i (b : bool) => if b then (i - 1)%Z else i) indg0 on_edge in
          let r2 := add_element t sb indg1 coor in
          {| p_located := true; p_found := fst r2; p_margin := Qmin (snd r1) (snd r2); p_locmargin := lm |}
        else {| p_located := true; p_found := None; p_margin := snd r1; p_locmargin := lm |}
    end.

(* the loop on samples of MeshETurbo::resetProjMatrix: [iech] is advanced for every valid sample, located on the grid
   or not (a sample outside the grid keeps an empty row).  Triplets are kept as (row, entries). *)
Definition entries_of (f : list Z * list Q * list Q) : list (Z * Q) := combine (fst (fst f)) (snd f).
Fixpoint turbo_loop (t : turbo) (sb : list bool) (pts : list (list Q)) (iech : nat)
  : list (nat * list (Z * Q)) * list prow :=
  match pts with
  | [] => ([], [])
  | coor :: rest =>
      let p := proj_point t sb coor in
      let r := turbo_loop t sb rest (S iech) in
      (match p_found p with Some f => (iech, entries_of f) :: fst r | None => fst r end, p :: snd r)
  end.
Definition row_of (trip : list (nat * list (Z * Q))) (r : nat) : list (Z * Q) :=
  flat_map (fun e => if Nat.eqb (fst e) r then snd e else []) trip.
(* NF_T.force(nvalid, napices) then resetFromTriplet: nvalid rows *)
Definition proj_turbo (t : turbo) (pts : list (list Q)) : list (list (Z * Q)) * list prow :=
  let sb := selbis t in
  let r := turbo_loop t sb pts 0 in
  (map (row_of (fst r)) (seq 0 (length pts)), snd r).

(* ------------------------------------------------------------------ MeshEStandard *)
Record smesh := { s_ndim : nat; s_apices : list (list Q); s_meshes : list (list nat) }.
Definition s_corners (s : smesh) (imesh : nat) : list (list Q) :=
  map (fun ip => nth ip (s_apices s) []) (nth imesh (s_meshes s) []).
Definition facdim (ndim : nat) : Q :=
  match ndim with 1%nat => 1 | 2%nat => 2 | 3%nat => 6 | _ => 0 end.
(* AMesh::_getMeshUnit *)
Definition mesh_unit (ndim : nat) (cs : list (list Q)) : Q :=
  match cs with
  | [] => 0
  | c0 :: r => Qabs (detl (map (fun c => C16.Model.vsub c c0) r)) / facdim ndim
  end.
Fixpoint remove_at {A} (k : nat) (l : list A) : list A :=
  match l, k with
  | [], _ => []
  | _ :: r, O => r
  | x :: r, S k' => x :: remove_at k' r
  end.
(* AMesh::_weightsInMesh: ratio_i = |det(x_j - x, j <> i)| / meshsize / ndim!  ; each within [-eps, 1+eps]; |sum - 1| <= eps *)
Definition sratio (ndim : nat) (cs : list (list Q)) (coor : list Q) (meshsize : Q) (icorn : nat) : Q :=
  Qabs (detl (map (fun c => C16.Model.vsub c coor) (remove_at icorn cs))) / meshsize / facdim ndim.
Definition weights_in_mesh (ndim : nat) (cs : list (list Q)) (coor : list Q) (meshsize eps : Q) : option (list Q) * Q :=
  let ws := map (sratio ndim cs coor meshsize) (seq 0 (length cs)) in
  let total := lsumQ ws in
  let m := Qmin (lminQ 1 (map (fun r => Qabs (r - 1 - eps)) ws)) (Qabs (Qabs (total - 1) - eps)) in
  if existsb (fun r => qltb r (- eps) || qltb (1 + eps) r) ws then (None, m)
  else if qleb (Qabs (total - 1)) eps then (Some ws, m) else (None, m).
(* _defineContainers / _coorInMeshContainer *)
Definition in_container (cs : list (list Q)) (coor : list Q) : bool :=
  forallb (fun idim =>
             let col := map (fun c => nth idim c 0) cs in
             let vmin := lminQ (nth 0 col 0) col in
             let vmax := fold_right Qmax (nth 0 col 0) col in
             negb (qltb 0 ((nth idim coor 0 - vmin) * (nth idim coor 0 - vmax))))
          (seq 0 (length coor)).
(* the search "for jmesh: imesh = imesh0 + jmesh (mod nmeshes)" *)
Fixpoint s_search (s : smesh) (coor : list Q) (cands : list nat) (m : Q) : option (nat * list Q) * Q :=
  match cands with
  | [] => (None, m)
  | imesh :: rest =>
      let cs := s_corners s imesh in
      if in_container cs coor then
        let r := weights_in_mesh (s_ndim s) cs coor (mesh_unit (s_ndim s) cs) eps5 in
        match fst r with
        | Some ws => (Some (imesh, ws), Qmin m (snd r))
        | None => s_search s coor rest (Qmin m (snd r))
        end
      else s_search s coor rest m
  end.
Definition rotate_from (n k : nat) : list nat := map (fun j => ((k + j) mod n)%nat) (seq 0 n).
Record srow := { sr_found : option (nat * list Q); sr_margin : Q }.
Fixpoint standard_loop (s : smesh) (pts : list (list Q)) (imesh0 iech : nat)
  : list (nat * list (Z * Q)) * list srow :=
  match pts with
  | [] => ([], [])
  | coor :: rest =>
      let nm := length (s_meshes s) in
      let r := s_search s coor (rotate_from nm imesh0) 1 in
      match fst r with
      | Some (imesh, ws) =>
          let nxt := standard_loop s rest imesh (S iech) in
          ((iech, combine (map Z.of_nat (nth imesh (s_meshes s) [])) ws) :: fst nxt,
           {| sr_found := fst r; sr_margin := snd r |} :: snd nxt)
      | None =>
          let nxt := standard_loop s rest imesh0 (S iech) in
          (fst nxt, {| sr_found := None; sr_margin := snd r |} :: snd nxt)
      end
  end.
(* NF_T.force(nvalid, getNApices()) whatever the triplets: one row per valid sample *)
Definition srow_entries (s : smesh) (r : srow) : list (Z * Q) :=
  match sr_found r with
  | Some (imesh, ws) => combine (map Z.of_nat (nth imesh (s_meshes s) [])) ws
  | None => []
  end.
Definition proj_standard (s : smesh) (pts : list (list Q)) : nat * list (list (Z * Q)) * list srow :=
  let r := standard_loop s pts 0 0 in
  (length pts, map (row_of (fst r)) (seq 0 (length pts)), snd r).

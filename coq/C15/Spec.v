(* C15 spec: the declarative notions the property refers to. *)
From Coq Require Import List ZArith QArith Qabs Bool.
From Gst Require Import lib.QAux lib.LinAlgQ C15.gen.MSS C15.Model C15.ModelOp.
Import ListNotations.
Local Open Scope Q_scope.

(* ------------------------------------------------------------------ operators (function-level matrices of lib/LinAlgQ) *)
(* A^k v *)
Fixpoint fiter (n : nat) (A : fmat) (k : nat) (v : fvec) : fvec :=
  match k with O => v | S k' => fmv n A (fiter n A k' v) end.
(* A^k *)
Fixpoint fpow (n : nat) (A : fmat) (k : nat) : fmat :=
  match k with O => delta | S k' => fmul n (fpow n A k') A end.
(* sum_j c_j A^j v   and   sum_j c_j A^j *)
Definition poly_apply (n : nat) (A : fmat) (c : list Q) (v : fvec) : fvec :=
  fun i => sumn (length c) (fun j => nth j c 0 * fiter n A j v i).
Definition poly_mat (n : nat) (A : fmat) (c : list Q) : fmat :=
  fun i j => sumn (length c) (fun k => nth k c 0 * fpow n A k i j).
(* the precision matrix  diag(lam) . P(A) . diag(lam) *)
Definition Qspec (n : nat) (A : fmat) (lam : fvec) (c : list Q) : fmat :=
  fun i j => lam i * poly_mat n A c i j * lam j.
(* positive semi-definite / definite on the n x n block *)
Definition fpsd (n : nat) (A : fmat) : Prop := forall x : fvec, 0 <= fdot n x (fmv n A x).
Definition fpd (n : nat) (A : fmat) : Prop :=
  forall x : fvec, (exists i, (i < n)%nat /\ ~ x i == 0) -> 0 < fdot n x (fmv n A x).

(* ------------------------------------------------------------------ barycentric weights *)
(* l solves [x_c ; 1] l = [x ; 1] for the corners cs (one coordinate list per corner) *)
Definition wsum (l : list Q) : Q := lsumQ l.
Definition wcomb (l : list Q) (cs : list (list Q)) (idim : nat) : Q :=
  lsumQ (C16.Model.map2 (fun w c => w * nth idim c 0) l cs).
Definition bary_system (ndim : nat) (cs : list (list Q)) (x l : list Q) : Prop :=
  length l = length cs /\ wsum l == 1 /\ forall idim, (idim < ndim)%nat -> wcomb l cs idim == nth idim x 0.
(* an affine function  f(p) = b + sum_{d < ndim} a_d p_d  *)
Definition affine (ndim : nat) (a : nat -> Q) (b : Q) (p : list Q) : Q := b + sumn ndim (fun d => a d * nth d p 0).
(* sum_c w_c f(x_c) *)
Definition wapply (f : list Q -> Q) (l : list Q) (cs : list (list Q)) : Q :=
  lsumQ (C16.Model.map2 (fun w c => w * f c) l cs).

(* ------------------------------------------------------------------ the reference cell and its simplices *)
(* corners of simplex [icas] (polarity [ipol]) of the unit cell, from the generated table *)
Definition unit_corners (ndim ipol icas : nat) : list (list Q) :=
  map (fun icorn => map (fun idim => inject_Z (mss ndim ipol icas icorn idim)) (seq 0 ndim)) (seq 0 (S ndim)).
Definition all_nonneg (l : list Q) : Prop := fold_right (fun t P => 0 <= t /\ P) True l.
Definition all_pos (l : list Q) : Prop := fold_right (fun t P => 0 < t /\ P) True l.
Definition in_unit_cube (u : list Q) : Prop := fold_right (fun t P => (0 <= t /\ t <= 1) /\ P) True u.
(* number of polarities the table holds for a dimension *)
Definition npol (ndim : nat) : nat := match ndim with 2%nat => 2%nat | _ => 1%nat end.
(* |det| of the edge matrix of a simplex = ndim! times its volume *)
Definition simplex_det (cs : list (list Q)) : Q :=
  match cs with [] => 0 | c0 :: r => detl (map (fun c => C16.Model.vsub c c0) r) end.

(* C15 proofs, barycentric coordinates and the tiling of the reference cell by the generated simplices. *)
From Coq Require Import List Arith ZArith QArith Qabs Bool Lqa Lia Setoid Morphisms.
From Gst Require Import lib.QAux lib.LinAlgQ C15.gen.MSS C15.Model C15.Spec.
Import ListNotations.
Local Open Scope Q_scope.

(* ------------------------------------------------------------------ shape of an answer of [bary] *)
Ltac shapes H :=
  repeat match type of H with
  | context [match ?l with [] => _ | _ :: _ => _ end] => is_var l; destruct l; try discriminate H
  end.

Inductive bary_shape : list (list Q) -> list Q -> list Q -> Prop :=
| BS1 a b x0 : ~ b - a == 0 ->
    bary_shape [[a]; [b]] [x0] (let l1 := (x0 - a) / (b - a) in [1 - l1; l1])
| BS2 a0 a1 b0 b1 c0 c1 x0 x1 :
    let d := det2 (b0 - a0) (c0 - a0) (b1 - a1) (c1 - a1) in ~ d == 0 ->
    bary_shape [[a0; a1]; [b0; b1]; [c0; c1]] [x0; x1]
      (let l1 := det2 (x0 - a0) (c0 - a0) (x1 - a1) (c1 - a1) / d in
       let l2 := det2 (b0 - a0) (x0 - a0) (b1 - a1) (x1 - a1) / d in [1 - l1 - l2; l1; l2])
| BS3 a0 a1 a2 b0 b1 b2 c0 c1 c2 d0 d1 d2 x0 x1 x2 :
    let d := det3 (b0 - a0) (c0 - a0) (d0 - a0) (b1 - a1) (c1 - a1) (d1 - a1) (b2 - a2) (c2 - a2) (d2 - a2) in ~ d == 0 ->
    bary_shape [[a0; a1; a2]; [b0; b1; b2]; [c0; c1; c2]; [d0; d1; d2]] [x0; x1; x2]
      (let l1 := det3 (x0 - a0) (c0 - a0) (d0 - a0) (x1 - a1) (c1 - a1) (d1 - a1) (x2 - a2) (c2 - a2) (d2 - a2) / d in
       let l2 := det3 (b0 - a0) (x0 - a0) (d0 - a0) (b1 - a1) (x1 - a1) (d1 - a1) (b2 - a2) (x2 - a2) (d2 - a2) / d in
       let l3 := det3 (b0 - a0) (c0 - a0) (x0 - a0) (b1 - a1) (c1 - a1) (x1 - a1) (b2 - a2) (c2 - a2) (x2 - a2) / d in
       [1 - l1 - l2 - l3; l1; l2; l3]).

Lemma bary_inv cs x l : bary cs x = Some l -> bary_shape cs x l.
Proof.
  intro H. unfold bary in H. shapes H.
  - match type of H with context [qeqb ?d 0] => destruct (qeqb_spec d 0) as [E|E]; [discriminate|] end.
    injection H as H. subst l. apply BS1. exact E.
  - match type of H with context [qeqb ?d 0] => destruct (qeqb_spec d 0) as [E|E]; [discriminate|] end.
    injection H as H. subst l. apply BS2. exact E.
  - match type of H with context [qeqb ?d 0] => destruct (qeqb_spec d 0) as [E|E]; [discriminate|] end.
    injection H as H. subst l. apply BS3. exact E.
Qed.

Lemma bary_complete cs x l : bary_shape cs x l -> bary cs x = Some l.
Proof.
  intro H. destruct H as [a b x0 Hd|a0 a1 b0 b1 c0 c1 x0 x1 d Hd|a0 a1 a2 b0 b1 b2 c0 c1 c2 d0 d1 d2 x0 x1 x2 d Hd]; unfold bary.
  - destruct (qeqb_spec (b - a) 0) as [E|E]; [contradiction|reflexivity].
  - fold d. destruct (qeqb_spec d 0) as [E|E]; [contradiction|reflexivity].
  - fold d. destruct (qeqb_spec d 0) as [E|E]; [contradiction|reflexivity].
Qed.

(* the answer solves the barycentric system ... *)
Lemma bary_shape_sound cs x l : bary_shape cs x l -> bary_system (length x) cs x l.
Proof.
  intro H. destruct H as [a b x0 Hd|a0 a1 b0 b1 c0 c1 x0 x1 d Hd|a0 a1 a2 b0 b1 b2 c0 c1 c2 d0 d1 d2 x0 x1 x2 d Hd];
    unfold bary_system, wsum, wcomb, lsumQ; cbv zeta; cbn [C16.Model.map2 fold_right nth length].
  - split; [reflexivity|]. split; [field; exact Hd|].
    intros idim Hi. destruct idim as [|?]; [|lia]. cbn [nth]. field. exact Hd.
  - subst d. unfold det2 in *. split; [reflexivity|]. split; [field; exact Hd|].
    intros idim Hi. destruct idim as [|[|?]]; [| |lia]; cbn [nth]; field; exact Hd.
  - subst d. unfold det3 in *. split; [reflexivity|]. split; [field; exact Hd|].
    intros idim Hi. destruct idim as [|[|[|?]]]; [| | |lia]; cbn [nth]; field; exact Hd.
Qed.

Lemma bary_sound cs x l : bary cs x = Some l -> bary_system (length x) cs x l.
Proof. intro H. apply bary_shape_sound, bary_inv, H. Qed.

(* ... and is its only solution *)
Lemma bary_shape_unique cs x l l' :
  bary_shape cs x l -> bary_system (length x) cs x l' -> Forall2 Qeq l' l.
Proof.
  intros H [Hlen [Hs Hc]].
  destruct H as [a b x0 Hd|a0 a1 b0 b1 c0 c1 x0 x1 d Hd|a0 a1 a2 b0 b1 b2 c0 c1 c2 d0 d1 d2 x0 x1 x2 d Hd].
  - destruct l' as [|m0 [|m1 [|? ?]]]; try discriminate Hlen.
    pose proof (Hc 0%nat ltac:(cbn; lia)) as H0.
    unfold wsum, wcomb, lsumQ in *. cbn [C16.Model.map2 fold_right nth length] in *. cbv zeta.
    assert (E0 : m0 == 1 - m1) by lra.
    assert (E1 : m1 == (x0 - a) / (b - a)). { rewrite <- H0, E0. field. exact Hd. }
    repeat constructor; [rewrite E0, E1; reflexivity|exact E1].
  - destruct l' as [|m0 [|m1 [|m2 [|? ?]]]]; try discriminate Hlen.
    pose proof (Hc 0%nat ltac:(cbn; lia)) as H0. pose proof (Hc 1%nat ltac:(cbn; lia)) as H1.
    unfold wsum, wcomb, lsumQ in *. cbn [C16.Model.map2 fold_right nth length] in *. cbv zeta. subst d. unfold det2 in *.
    assert (E0 : m0 == 1 - m1 - m2) by lra.
    match goal with |- Forall2 Qeq _ [_; ?l1; ?l2] =>
      assert (E1 : m1 == l1) by (rewrite <- H0, <- H1, E0; field; exact Hd);
      assert (E2 : m2 == l2) by (rewrite <- H0, <- H1, E0; field; exact Hd)
    end.
    repeat constructor; [rewrite E0, E1, E2; reflexivity|exact E1|exact E2].
  - destruct l' as [|m0 [|m1 [|m2 [|m3 [|? ?]]]]]; try discriminate Hlen.
    pose proof (Hc 0%nat ltac:(cbn; lia)) as H0. pose proof (Hc 1%nat ltac:(cbn; lia)) as H1. pose proof (Hc 2%nat ltac:(cbn; lia)) as H2.
    unfold wsum, wcomb, lsumQ in *. cbn [C16.Model.map2 fold_right nth length] in *. cbv zeta. subst d. unfold det3 in *.
    assert (E0 : m0 == 1 - m1 - m2 - m3) by lra.
    match goal with |- Forall2 Qeq _ [_; ?l1; ?l2; ?l3] =>
      assert (E1 : m1 == l1) by (rewrite <- H0, <- H1, <- H2, E0; field; exact Hd);
      assert (E2 : m2 == l2) by (rewrite <- H0, <- H1, <- H2, E0; field; exact Hd);
      assert (E3 : m3 == l3) by (rewrite <- H0, <- H1, <- H2, E0; field; exact Hd)
    end.
    repeat constructor; [rewrite E0, E1, E2, E3; reflexivity|exact E1|exact E2|exact E3].
Qed.

Lemma bary_unique cs x l l' : bary cs x = Some l -> bary_system (length x) cs x l' -> Forall2 Qeq l' l.
Proof. intros H. apply bary_shape_unique, bary_inv, H. Qed.

(* ------------------------------------------------------------------ the generated simplices tile the reference cell *)
Ltac eval_corners :=
  repeat match goal with |- context [unit_corners ?n ?p ?k] =>
    let cs := eval vm_compute in (unit_corners n p k) in change (unit_corners n p k) with cs end.
Ltac eval_corners_in H :=
  repeat match type of H with context [unit_corners ?n ?p ?k] =>
    let cs := eval vm_compute in (unit_corners n p k) in change (unit_corners n p k) with cs in H end.
Ltac norm_div :=
  repeat match goal with |- context [?a / ?d] =>
    let v := eval vm_compute in (/ d) in change (a / d) with (a * v) end.
Ltac norm_div_in H :=
  repeat match type of H with context [?a / ?d] =>
    let v := eval vm_compute in (/ d) in change (a / d) with (a * v) in H end.

Ltac try_simplex k :=
  exists k; eexists; split; [cbn; lia|]; split;
  [ eval_corners; apply bary_complete; first [apply BS1 | apply BS2 | apply BS3]; cbv zeta; vm_compute; (let Hd := fresh "Hd" in intro Hd; discriminate Hd)
  | cbv zeta; unfold all_nonneg, det2, det3; cbn [fold_right]; norm_div; repeat split; lra ].

Lemma tile_cover1 x : 0 <= x -> x <= 1 ->
  exists icas l, (icas < nper_cell 1)%nat /\ bary (unit_corners 1 0 icas) [x] = Some l /\ all_nonneg l.
Proof. intros. try_simplex 0%nat. Qed.

Lemma tile_cover2 ipol x y : (ipol < 2)%nat -> 0 <= x -> x <= 1 -> 0 <= y -> y <= 1 ->
  exists icas l, (icas < nper_cell 2)%nat /\ bary (unit_corners 2 ipol icas) [x; y] = Some l /\ all_nonneg l.
Proof.
  intros Hp Hx0 Hx1 Hy0 Hy1.
  destruct ipol as [|[|?]]; [| |lia];
    destruct (Qlt_le_dec x y), (Qlt_le_dec (x + y) 1);
    first [try_simplex 0%nat | try_simplex 1%nat].
Qed.

Lemma tile_cover3 x y z : 0 <= x -> x <= 1 -> 0 <= y -> y <= 1 -> 0 <= z -> z <= 1 ->
  exists icas l, (icas < nper_cell 3)%nat /\ bary (unit_corners 3 0 icas) [x; y; z] = Some l /\ all_nonneg l.
Proof.
  intros Hx0 Hx1 Hy0 Hy1 Hz0 Hz1.
  destruct (Qlt_le_dec x y), (Qlt_le_dec y z), (Qlt_le_dec x z);
    first [try_simplex 0%nat | try_simplex 1%nat | try_simplex 2%nat | try_simplex 3%nat | try_simplex 4%nat | try_simplex 5%nat].
Qed.

(* two different simplices of the same cell have no common interior point *)
Ltac closed_form H :=
  eval_corners_in H;
  match type of H with bary ?cs ?u = Some _ =>
    let E := fresh "E" in
    eassert (E : bary cs u = Some _)
      by (apply bary_complete; first [apply BS1 | apply BS2 | apply BS3]; cbv zeta; vm_compute;
          (let Hd := fresh "Hd" in intro Hd; discriminate Hd));
    rewrite E in H; clear E; injection H as H; subst
  end.
Ltac open_pos H := cbv zeta in H; unfold all_pos, det2, det3 in H; cbn [fold_right] in H; norm_div_in H.

Lemma tile_disjoint2 ipol x y i1 i2 l1 l2 :
  (ipol < 2)%nat -> (i1 < nper_cell 2)%nat -> (i2 < nper_cell 2)%nat -> i1 <> i2 ->
  bary (unit_corners 2 ipol i1) [x; y] = Some l1 -> bary (unit_corners 2 ipol i2) [x; y] = Some l2 ->
  all_pos l1 -> all_pos l2 -> False.
Proof.
  intros Hp H1 H2 Hne B1 B2 P1 P2. cbn in H1, H2.
  destruct ipol as [|[|?]]; [| |lia];
    destruct i1 as [|[|?]]; try lia; destruct i2 as [|[|?]]; try lia; try congruence;
    closed_form B1; closed_form B2; open_pos P1; open_pos P2; lra.
Qed.

Lemma tile_disjoint3 x y z i1 i2 l1 l2 :
  (i1 < nper_cell 3)%nat -> (i2 < nper_cell 3)%nat -> i1 <> i2 ->
  bary (unit_corners 3 0 i1) [x; y; z] = Some l1 -> bary (unit_corners 3 0 i2) [x; y; z] = Some l2 ->
  all_pos l1 -> all_pos l2 -> False.
Proof.
  intros H1 H2 Hne B1 B2 P1 P2. cbn in H1, H2.
  destruct i1 as [|[|[|[|[|[|?]]]]]]; try lia; destruct i2 as [|[|[|[|[|[|?]]]]]]; try lia; try congruence;
    closed_form B1; closed_form B2; open_pos P1; open_pos P2; lra.
Qed.

(* volumes: the |det| of the edge matrices add up to ndim! (the cell has volume 1) *)
Definition det_sum (ndim ipol : nat) : Q :=
  lsumQ (map (fun icas => Qabs (simplex_det (unit_corners ndim ipol icas))) (seq 0 (nper_cell ndim))).
Definition dets_nonzero (ndim ipol : nat) : bool :=
  forallb (fun icas => negb (qeqb (simplex_det (unit_corners ndim ipol icas)) 0)) (seq 0 (nper_cell ndim)).
Lemma tile_volumes :
  det_sum 1 0 == facdim 1 /\ det_sum 2 0 == facdim 2 /\ det_sum 2 1 == facdim 2 /\ det_sum 3 0 == facdim 3 /\
  dets_nonzero 1 0 = true /\ dets_nonzero 2 0 = true /\ dets_nonzero 2 1 = true /\ dets_nonzero 3 0 = true.
Proof. vm_compute. repeat split; reflexivity. Qed.

(* one statement for every dimension the table covers *)
Lemma tile_cover ndim ipol u :
  (1 <= ndim <= 3)%nat -> (ipol < npol ndim)%nat -> length u = ndim -> in_unit_cube u ->
  exists icas l, (icas < nper_cell ndim)%nat /\ bary (unit_corners ndim ipol icas) u = Some l /\ all_nonneg l.
Proof.
  intros Hn Hp Hl Hu.
  destruct ndim as [|[|[|[|?]]]]; try lia.
  - destruct u as [|x [|? ?]]; try discriminate Hl. cbn in Hp. assert (ipol = 0%nat) by lia. subst ipol.
    cbn [in_unit_cube fold_right] in Hu. apply tile_cover1; tauto.
  - destruct u as [|x [|y [|? ?]]]; try discriminate Hl. cbn in Hp.
    cbn [in_unit_cube fold_right] in Hu. apply tile_cover2; tauto.
  - destruct u as [|x [|y [|z [|? ?]]]]; try discriminate Hl. cbn in Hp. assert (ipol = 0%nat) by lia. subst ipol.
    cbn [in_unit_cube fold_right] in Hu. apply tile_cover3; tauto.
Qed.

Lemma tile_disjoint ndim ipol u i1 i2 l1 l2 :
  (1 <= ndim <= 3)%nat -> (ipol < npol ndim)%nat -> length u = ndim ->
  (i1 < nper_cell ndim)%nat -> (i2 < nper_cell ndim)%nat -> i1 <> i2 ->
  bary (unit_corners ndim ipol i1) u = Some l1 -> bary (unit_corners ndim ipol i2) u = Some l2 ->
  all_pos l1 -> all_pos l2 -> False.
Proof.
  intros Hn Hp Hl H1 H2 Hne B1 B2 P1 P2.
  destruct ndim as [|[|[|[|?]]]]; try lia.
  - cbn in H1, H2. lia.
  - destruct u as [|x [|y [|? ?]]]; try discriminate Hl. cbn in Hp.
    exact (tile_disjoint2 ipol x y i1 i2 l1 l2 Hp H1 H2 Hne B1 B2 P1 P2).
  - destruct u as [|x [|y [|z [|? ?]]]]; try discriminate Hl. cbn in Hp. assert (ipol = 0%nat) by lia. subst ipol.
    exact (tile_disjoint3 x y z i1 i2 l1 l2 H1 H2 Hne B1 B2 P1 P2).
Qed.

(* C15 — property theorems (placeholder while the proofs are being written) *)
From Coq Require Import List ZArith QArith.
From Gst Require Import C15.Model C15.ModelOp.
Example C15_placeholder : True. Proof. exact I. Qed.

(* C15 — property theorems only. Each is closed by [exact] of a lemma of Proofs_*.v. *)
From Coq Require Import List Arith ZArith QArith Qabs Bool Lia Lqa.
From Gst Require Import lib.QAux lib.LinAlgQ C15.gen.MSS C15.Model C15.ModelOp C15.ModelShift C15.ModelKrig C15.ModelConv C15.Spec
                        C15.Proofs_op C15.Proofs_tile C15.Proofs_proj C15.Proofs_std C15.Proofs_lift C15.Proofs_shift C15.Proofs_krig C15.Proofs_conv.
Import ListNotations.
Local Open Scope Q_scope.

(* ================================================================== projection on a turbo meshing *)

(* What MeshETurbo::_addWeights guarantees for an accepted simplex (corners cs = coordinates of its grid nodes):
   the raw weights lam solve the barycentric system exactly (sum 1, sum lam_c x_c = x), hence reproduce every affine
   function; each lies in [-1e-6, 1+1e-6]; the stored weight is the raw one clamped to [0,1] (no renormalisation: it
   differs from the raw weight by at most 1e-6); when the point is in the simplex (raw weights >= 0) nothing is clamped:
   the stored weights are non-negative, sum to one and reproduce every affine function exactly. *)
Theorem C15_weights_affine : forall t sb icas indg0 coor idx lam w m,
  add_weights t sb icas indg0 coor = Wok idx lam w m ->
  let cs := simplex_coords t icas indg0 in
  bary_system (length coor) cs coor lam /\
  Forall2 (fun l wc => - eps6 <= l /\ l <= 1 + eps6 /\ wc = clamp01 l /\ 0 <= wc /\ wc <= 1 /\ Qabs (wc - l) <= eps6) lam w /\
  (forall a b, wapply (affine (length coor) a b) lam cs == affine (length coor) a b coor) /\
  (all_nonneg lam -> w = lam /\ wsum w == 1 /\
                     forall a b, wapply (affine (length coor) a b) w cs == affine (length coor) a b coor).
Proof. exact weights_affine. Qed.
Print Assumptions C15_weights_affine.

(* the barycentric system has no other solution than the one computed *)
Theorem C15_weights_unique : forall cs x l l',
  bary cs x = Some l -> bary_system (length x) cs x l' -> Forall2 Qeq l' l.
Proof. exact bary_unique. Qed.
Print Assumptions C15_weights_unique.

(* A non-empty row is made of the weights of one accepted simplex of the meshing: its grid nodes exist and are active *)
Theorem C15_row_is_simplex : forall t sb coor idx lam w,
  p_found (proj_point t sb coor) = Some (idx, lam, w) ->
  p_located (proj_point t sb coor) = true /\
  exists indg icas m, (icas < nper_cell (t_ndim t))%nat /\ add_weights t sb icas indg coor = Wok idx lam w m.
Proof. exact proj_point_found. Qed.
Print Assumptions C15_row_is_simplex.

(* the simplices of a cell are tried in the order of the table and the first accepted one wins *)
Theorem C15_first_accepted_wins : forall t sb indg0 coor cases m0 f m,
  add_element_loop t sb indg0 coor cases m0 = (Some f, m) ->
  exists pre icas post m', cases = pre ++ icas :: post /\
    add_weights t sb icas indg0 coor = Wok (fst (fst f)) (snd (fst f)) (snd f) m' /\
    forall j, In j pre -> exists mj, add_weights t sb j indg0 coor = Wfail mj.
Proof. exact add_element_loop_found. Qed.
Print Assumptions C15_first_accepted_wins.

(* For ndim = 1, 2, 3 and every polarity, the simplices of the generated table tile the reference cell:
   every point of the cell lies in one of them (non-negative barycentric coordinates) ... *)
Theorem C15_simplices_tile : forall ndim ipol u,
  (1 <= ndim <= 3)%nat -> (ipol < npol ndim)%nat -> length u = ndim -> in_unit_cube u ->
  exists icas l, (icas < nper_cell ndim)%nat /\ bary (unit_corners ndim ipol icas) u = Some l /\ all_nonneg l.
Proof. exact tile_cover. Qed.
Print Assumptions C15_simplices_tile.

(* ... two different simplices have no common interior point ... *)
Theorem C15_simplices_disjoint : forall ndim ipol u i1 i2 l1 l2,
  (1 <= ndim <= 3)%nat -> (ipol < npol ndim)%nat -> length u = ndim ->
  (i1 < nper_cell ndim)%nat -> (i2 < nper_cell ndim)%nat -> i1 <> i2 ->
  bary (unit_corners ndim ipol i1) u = Some l1 -> bary (unit_corners ndim ipol i2) u = Some l2 ->
  all_pos l1 -> all_pos l2 -> False.
Proof. exact tile_disjoint. Qed.
Print Assumptions C15_simplices_disjoint.

(* ... none is degenerate and their volumes add up to the volume of the cell (|det| sums to ndim!) *)
Theorem C15_simplices_volumes :
  det_sum 1 0 == facdim 1 /\ det_sum 2 0 == facdim 2 /\ det_sum 2 1 == facdim 2 /\ det_sum 3 0 == facdim 3 /\
  dets_nonzero 1 0 = true /\ dets_nonzero 2 0 = true /\ dets_nonzero 2 1 = true /\ dets_nonzero 3 0 = true.
Proof. exact tile_volumes. Qed.
Print Assumptions C15_simplices_volumes.

(* Lifted to any cell given as the affine image T of the reference cell (T sends the table offsets to the grid nodes
   and the local coordinates u to the sample): the sample has non-negative exact weights in one of the cell's simplices *)
Theorem C15_cell_covered : forall ndim ipol (T : list Q -> list Q) A t0 u,
  (1 <= ndim <= 3)%nat -> (ipol < npol ndim)%nat -> length u = ndim -> in_unit_cube u ->
  (forall c idim, (idim < ndim)%nat -> nth idim (T c) 0 == affine ndim (A idim) (t0 idim) c) ->
  exists icas l, (icas < nper_cell ndim)%nat /\ all_nonneg l /\
                 bary_system ndim (map T (unit_corners ndim ipol icas)) (T u) l.
Proof. exact cell_covered. Qed.
Print Assumptions C15_cell_covered.

(* and _addWeights accepts such a simplex, with exactly these weights, when its nodes are on the grid and active
   and the simplex is not degenerate *)
Theorem C15_inside_accepted : forall t sb icas indg0 coor l',
  Forall (fun r => (r <? 0)%Z = false) (simplex_ranks t icas indg0) ->
  Forall (fun r => (r <? 0)%Z = false) (map (atoR sb) (simplex_ranks t icas indg0)) ->
  bary (simplex_coords t icas indg0) coor <> None ->
  bary_system (length coor) (simplex_coords t icas indg0) coor l' -> all_nonneg l' ->
  exists lam m, add_weights t sb icas indg0 coor = Wok (map (atoR sb) (simplex_ranks t icas indg0)) lam lam m /\ Forall2 Qeq l' lam.
Proof. exact add_weights_accepts. Qed.
Print Assumptions C15_inside_accepted.
(* The grid nodes indg0 + s of a cell are the affine image of the offsets s (Grid::indicesToCoordinate is affine in the
   index vector, rotated or not): cellT = t0 + A s with A = rotation x mesh sizes.  Hence, for a grid of dimension 1..3:
   every sample of a cell (local coordinates u in [0,1]^ndim, located in that cell by coordinateToIndices) whose nodes
   are on the grid and active and whose simplices are not degenerate gets a row.  The row is the one of the first
   accepted simplex (C15_row_is_simplex, C15_weights_affine describe it). *)
Theorem C15_inside_gets_row : forall t indg0 u coor,
  let ndim := t_ndim t in let sb := selbis t in
  (1 <= ndim <= 3)%nat -> wf_shape ndim (t_grid t) -> length indg0 = ndim -> length u = ndim -> in_unit_cube u ->
  length coor = ndim -> coords_eq ndim coor (cellT ndim (t_grid t) indg0 u) ->
  C16.Model.c2i (t_grid t) coor false eps6 = (false, indg0) ->
  (forall icas, (icas < nper_cell ndim)%nat ->
     Forall (fun r => (r <? 0)%Z = false) (simplex_ranks t icas indg0) /\
     Forall (fun r => (r <? 0)%Z = false) (map (atoR sb) (simplex_ranks t icas indg0)) /\
     bary (simplex_coords t icas indg0) coor <> None) ->
  p_found (proj_point t sb coor) <> None.
Proof. exact inside_gets_row. Qed.
Print Assumptions C15_inside_gets_row.

(* a sample outside the grid, or none of whose candidate simplices is accepted, has no weights *)
Theorem C15_outside_empty : forall t sb coor,
  (fst (C16.Model.c2i (t_grid t) coor false eps6) = true ->
   p_located (proj_point t sb coor) = false /\ p_found (proj_point t sb coor) = None) /\
  ((forall indg icas, (icas < nper_cell (t_ndim t))%nat -> exists m, add_weights t sb icas indg coor = Wfail m) ->
   p_found (proj_point t sb coor) = None).
Proof. intros t sb coor. split; [exact (proj_point_outside t sb coor)|exact (proj_point_rejected t sb coor)]. Qed.
Print Assumptions C15_outside_empty.

(* Rows and samples: the matrix has one row per sample and row k is the row of sample k, whatever the samples
   (MeshETurbo::resetProjMatrix advances its row counter for a sample outside the grid too); in particular a sample
   outside the grid has an empty row.  (Before the repair the counter was not advanced and the following rows were shifted:
   the former witness - 3x3 unit grid, samples (5, 1/4), (1/4, 1/4) - is kept in corpus/C15.sx and below.) *)
Theorem C15_rows_aligned : forall t pts,
  length (fst (proj_turbo t pts)) = length pts /\
  forall k, (k < length pts)%nat ->
    nth k (fst (proj_turbo t pts)) [] = row_spec t (selbis t) (nth k pts []) /\
    (fst (C16.Model.c2i (t_grid t) (nth k pts []) false eps6) = true -> nth k (fst (proj_turbo t pts)) [] = []).
Proof.
  intros t pts. split; [exact (rows_count t pts)|]. intros k Hk.
  split; [exact (rows_aligned t pts k Hk)|exact (row_outside_empty t pts k Hk)].
Qed.
Print Assumptions C15_rows_aligned.
Definition witness_grid : turbo :=
  {| t_grid := {| C16.Model.g_nx := [3; 3]%Z; C16.Model.g_x0 := [0; 0]; C16.Model.g_dx := [1; 1];
                  C16.Model.g_rot := C16.Model.rot_identity 2 |};
     t_pol := false; t_sel := [] |}.
Example C15_rows_aligned_witness :
  map (map fst) (fst (proj_turbo witness_grid [[5; 1 # 4]; [1 # 4; 1 # 4]])) = [[]; [0; 1; 3]%Z].
Proof. vm_compute. reflexivity. Qed.

(* ================================================================== projection on a standard meshing *)

(* AMesh::_weightsInMesh on the corners of a mesh: accepted weights are non-negative, each at most 1 + eps and they
   sum to one within eps (the code takes absolute values of volume ratios: no negative weight, no clamping) *)
Theorem C15_standard_weights : forall ndim cs coor ws m,
  weights_in_mesh ndim cs coor (mesh_unit ndim cs) eps5 = (Some ws, m) ->
  Forall (fun w => 0 <= w /\ w <= 1 + eps5) ws /\ Qabs (lsumQ ws - 1) <= eps5.
Proof. exact weights_in_mesh_ok. Qed.
Print Assumptions C15_standard_weights.

(* the volume ratios are the absolute values of the exact barycentric coordinates ... *)
Theorem C15_standard_ratio : forall cs x l i,
  bary cs x = Some l -> (i < length cs)%nat ->
  sratio (length x) cs x (mesh_unit (length x) cs) i == Qabs (nth i l 0).
Proof. exact sratio_bary. Qed.
Print Assumptions C15_standard_ratio.

(* ... so a point of the mesh (exact coordinates >= 0) is accepted with exactly its barycentric weights:
   they sum to one and reproduce every affine function *)
Theorem C15_standard_inside_exact : forall cs x l,
  bary cs x = Some l -> all_nonneg l ->
  exists ws m, weights_in_mesh (length x) cs x (mesh_unit (length x) cs) eps5 = (Some ws, m) /\ Forall2 Qeq ws l /\
               lsumQ ws == 1 /\
               forall a b, wapply (affine (length x) a b) ws cs == affine (length x) a b x.
Proof. exact weights_in_mesh_inside. Qed.
Print Assumptions C15_standard_inside_exact.

(* MeshEStandard::resetProjMatrix: one row per sample (the dimensions are always forced), row k holds the weights found
   for sample k in the first accepted mesh of the search, or nothing.  (Before the repair trailing samples outside the
   meshing lost their rows when the last apex had received a weight; former witness kept in corpus/C15.sx and below.) *)
Theorem C15_standard_rows : forall s pts,
  fst (fst (proj_standard s pts)) = length pts /\
  length (snd (fst (proj_standard s pts))) = length pts /\
  forall k, (k < length pts)%nat ->
    nth k (snd (fst (proj_standard s pts))) [] = srow_entries s (nth k (snd (proj_standard s pts)) srow_none).
Proof. exact standard_rows. Qed.
Print Assumptions C15_standard_rows.
Definition witness_smesh : smesh :=
  {| s_ndim := 2; s_apices := [[0; 0]; [1; 0]; [0; 1]; [1; 1]]; s_meshes := [[0; 1; 2]; [2; 1; 3]]%nat |}.
Example C15_standard_rows_witness :
  fst (fst (proj_standard witness_smesh [[3 # 4; 7 # 8]; [5; 1 # 4]])) = 2%nat /\
  map (map fst) (snd (fst (proj_standard witness_smesh [[3 # 4; 7 # 8]; [5; 1 # 4]]))) = [[2; 1; 3]%Z; []].
Proof. vm_compute. split; reflexivity. Qed.

(* ================================================================== polynomial of an operator, precision matrix *)

(* ClassicalPolynomial::evalOp (Horner from the highest degree) applies sum_j c_j S^j, for every size and degree *)
Theorem C15_horner : forall n Op c inv i,
  c <> [] -> (i < n)%nat -> vget (eval_op n Op c inv) i == poly_apply n (get Op) c (vget inv) i.
Proof. exact eval_op_spec. Qed.
Print Assumptions C15_horner.

(* evalOpCumul / addEvalOp add the same polynomial to the destination; evalOpTraining's first stored vector is its value *)
Theorem C15_horner_cumul : forall n Op c inv outv i,
  c <> [] -> (i < n)%nat ->
  vget (eval_op_cumul n Op c inv outv) i == vget outv i + poly_apply n (get Op) c (vget inv) i.
Proof. exact eval_op_cumul_spec. Qed.
Print Assumptions C15_horner_cumul.
Theorem C15_horner_training : forall n Op c inv i,
  c <> [] -> (i < n)%nat ->
  vget (hd [] (eval_op_training n Op c inv)) i == poly_apply n (get Op) c (vget inv) i.
Proof. exact eval_op_training_hd. Qed.
Print Assumptions C15_horner_training.

(* PrecisionOpCs::_build_Q assembles  Q_ij = Lambda_i (sum_k c_k S^k)_ij Lambda_j *)
Theorem C15_Q_entries : forall n S lam c i j,
  c <> [] -> (i < n)%nat -> (j < n)%nat ->
  get (build_Q n S lam c) i j == Qspec n (get S) (vget lam) c i j.
Proof. exact build_Q_entries. Qed.
Print Assumptions C15_Q_entries.

(* the matrix-free operator (PrecisionOp::_addEvalPower, power ONE; also through the training branch) and the assembled
   matrix apply identically to every vector *)
Theorem C15_free_eq_assembled : forall n S lam c v i,
  c <> [] -> (i < n)%nat ->
  vget (eval_direct_cs n S lam c v) i == vget (add_eval_power n S lam c v) i /\
  vget (add_eval_power_training n S lam c v) i == vget (add_eval_power n S lam c v) i.
Proof. intros. split; [apply free_eq_assembled|apply training_eq_plain]; assumption. Qed.
Print Assumptions C15_free_eq_assembled.

(* ALinearOp::addToDest: both forms add the same vector Q.v to the destination
   (PrecisionOp::_addToDest evaluates aside and accumulates; before the repair it wrote over the destination) *)
Theorem C15_addToDest : forall n S lam c inv outv i,
  c <> [] -> (i < n)%nat ->
  vget (add_to_dest_free n S lam c inv outv) i == vget (add_to_dest_cs n S lam c inv outv) i /\
  vget (add_to_dest_cs n S lam c inv outv) i == vget outv i + fmv n (Qspec n (get S) (vget lam) c) (vget inv) i.
Proof. exact add_to_dest_agree. Qed.
Print Assumptions C15_addToDest.

(* S symmetric => Q symmetric *)
Theorem C15_Q_symmetric : forall n S lam c,
  c <> [] -> fsym n (get S) -> fsym n (get (build_Q n S lam c)).
Proof. exact build_Q_sym. Qed.
Print Assumptions C15_Q_symmetric.

(* S symmetric positive semi-definite and non-negative coefficients => Q positive semi-definite;
   if moreover c_0 > 0 and no Lambda_i vanishes, Q is positive definite.
   (The Matern coefficients are the binomial coefficients of (1 + S)^p: non-negative, c_0 = 1; a product of factors
   (S + k^2 I), k^2 >= 0, has non-negative coefficients too.) *)
Theorem C15_Q_psd : forall n S lam c,
  c <> [] -> fsym n (get S) -> fpsd n (get S) -> coeffs_nonneg c -> fpsd n (get (build_Q n S lam c)).
Proof. exact build_Q_psd. Qed.
Print Assumptions C15_Q_psd.
Theorem C15_Q_pd : forall n S lam c,
  fsym n (get S) -> fpsd n (get S) -> coeffs_nonneg c -> 0 < nth 0 c 0 ->
  (forall i, (i < n)%nat -> ~ vget lam i == 0) -> fpd n (get (build_Q n S lam c)).
Proof. exact build_Q_pd. Qed.
Print Assumptions C15_Q_pd.

(* ================================================================== finite-element assembly of the shift operator *)

(* ShiftOpCs::_buildS on a meshing of full-dimensional simplices with a constant anisotropy (hh = A^T diag(s^2) A),
   for any value rt >= 0 standing for sqrt(1/det hh): the assembled stiffness matrix is symmetric, positive semi-definite,
   and its row sums vanish (constants are in its kernel) as soon as the apex ranks are in range *)
Theorem C15_S_assembled : forall ndim n A s rt meshes sh,
  0 <= rt -> build_shift ndim n A s rt meshes = Some sh ->
  fsym n (get (sh_Sraw sh)) /\ fpsd n (get (sh_Sraw sh)) /\
  (apices_in_range ndim n meshes -> forall i, (i < n)%nat -> sumn n (fun j => get (sh_Sraw sh) i j) == 0).
Proof. exact shift_raw_props. Qed.
Print Assumptions C15_S_assembled.

(* the same with a non-stationary anisotropy (one rotation matrix, one set of scales and one factor rt >= 0 per mesh) *)
Theorem C15_S_assembled_nonstationary : forall ndim n params meshes sh,
  Forall (fun p => 0 <= snd p) params -> build_shift_ns ndim n params meshes = Some sh ->
  fsym n (get (sh_Sraw sh)) /\ fpsd n (get (sh_Sraw sh)) /\
  (apices_in_range ndim n meshes -> forall i, (i < n)%nat -> sumn n (fun j => get (sh_Sraw sh) i j) == 0).
Proof. exact shift_ns_props. Qed.
Print Assumptions C15_S_assembled_nonstationary.

(* the final scaling S <- D S D keeps symmetry and positivity, whatever the diagonal D (TildeC^-1/2 in the code) *)
Theorem C15_S_scaled : forall n d Sr,
  (fsym n (get Sr) -> fsym n (get (scaled_S n d Sr))) /\ (fpsd n (get Sr) -> fpsd n (get (scaled_S n d Sr))).
Proof. intros. split; [apply scaled_S_sym|apply scaled_S_psd]. Qed.
Print Assumptions C15_S_scaled.

(* Markov coefficients of a Matern structure: binomial coefficients, non-negative, c_0 = 1 *)
Theorem C15_markov_coeffs : forall p, coeffs_nonneg (markov_coeffs p) /\ nth 0 (markov_coeffs p) 0 == 1 /\ length (markov_coeffs p) = S p.
Proof. intro p. split; [apply markov_nonneg|]. split; [apply markov_c0|]. unfold markov_coeffs. rewrite map_length, seq_length. reflexivity. Qed.
Print Assumptions C15_markov_coeffs.

(* hence, with no hypothesis on S: the precision matrix Q = Lambda P(S) Lambda of a Matern model (nu + d/2 = p integer)
   on a modelled meshing is symmetric positive definite as soon as no Lambda_i vanishes *)
Theorem C15_Q_spd_matern : forall ndim n A s rt meshes sh d lam p,
  0 <= rt -> build_shift ndim n A s rt meshes = Some sh ->
  (forall i, (i < n)%nat -> ~ vget lam i == 0) ->
  let Qm := build_Q n (scaled_S n d (sh_Sraw sh)) lam (markov_coeffs p) in
  fsym n (get Qm) /\ fpd n (get Qm).
Proof. exact matern_Q_spd. Qed.
Print Assumptions C15_Q_spd_matern.

(* binomial theorem for the operator: sum_k C(p,k) S^k = (I + S)^p, so the assembled precision matrix of a Matern structure is
   Q_ij = Lambda_i ((I + S)^p)_ij Lambda_j *)
Theorem C15_Q_matern_binomial : forall n S lam p i j, (i < n)%nat -> (j < n)%nat ->
  get (build_Q n S lam (markov_coeffs p)) i j == vget lam i * fpow n (IplusA (get S)) p i j * vget lam j.
Proof. exact matern_Q_entries. Qed.
Print Assumptions C15_Q_matern_binomial.

(* lumped masses: positive at every apex of a non-degenerate mesh, and they add up to rt x the volume of the meshing in
   every dimension (rt stands for sqrt(1/det hh); the volume of a simplex is |det M| / ndim!) *)
Theorem C15_mass_is_volume : forall ndim n A s rt meshes sh,
  build_shift ndim n A s rt meshes = Some sh -> apices_in_range ndim n meshes ->
  sumn n (fun i => vget (sh_tildeC sh) i) == rt * lsumQ (map (fun m => elem_absdet ndim (snd m) / factq ndim) meshes).
Proof. exact build_shift_mass. Qed.
Print Assumptions C15_mass_is_volume.
Theorem C15_mass_positive : forall n nc els i e a,
  (i < n)%nat -> Forall (fun e => 0 <= e_ratio e) els -> In e els -> (a < nc)%nat -> nth a (e_apex e) 0%nat = i -> 0 < e_ratio e ->
  0 < vget (tildeC n nc els) i.
Proof. exact tildeC_pos. Qed.
Print Assumptions C15_mass_positive.
(* Regression: before commit 080445d32 of /repo, ShiftOpCs::_buildS divided the mass by 6 (and the stiffness by 2) whatever the
   dimension ([tildeC_old]).  On the unit segment with the unit metric the old masses add up to 1/3, the repaired ones to the
   length 1.  The witness is kept in corpus/C15.sx (keys shiftop:lumped-mass-not-the-mesh-volume:1d, :3d). *)
Theorem C15_mass_old_constants_080445d32 :
  let els := [{| e_apex := [0; 1]%nat; e_E := []; e_ratio := 1 |}] in
  sumn 2 (fun i => vget (tildeC_old 2 2 els) i) == 1 # 3 /\ sumn 2 (fun i => vget (tildeC 2 2 els) i) == 1.
Proof. vm_compute. split; reflexivity. Qed.
Print Assumptions C15_mass_old_constants_080445d32.

(* ================================================================== projection matrix as a linear map, kriging system *)

(* mesh2point and point2mesh are transposes of each other: <A v, y> = <v, A^T y> for all v, y *)
Theorem C15_proj_adjoint : forall n rows v y,
  Forall (cols_in n) rows ->
  fdot (length rows) (vget y) (vget (mesh2point rows v)) == fdot n (vget v) (vget (point2mesh n rows y)).
Proof. exact mesh2point_point2mesh_adjoint. Qed.
Print Assumptions C15_proj_adjoint.

(* the posterior precision Q + A^T R^-1 A is positive definite when Q is and the data variances are positive *)
Theorem C15_kriging_matrix_pd : forall n Qm rows var,
  fpd n (get Qm) -> (forall k, (k < length rows)%nat -> 0 < vget var k) -> fpd n (get (krig_matrix n Qm rows var)).
Proof. exact krig_matrix_pd. Qed.
Print Assumptions C15_kriging_matrix_pd.

(* several structures on their meshings: the block-diagonal precision of positive definite blocks is positive definite, so the
   two theorems around it apply to Q = diag(Q_1, ..., Q_k), A = [A_1 | ... | A_k] and R = any positive diagonal (one variance
   per datum: measurement-error variances of the locator V, or setVarianceDataVector) *)
Theorem C15_block_precision_pd : forall blocks,
  Forall (fun b => fpd (fst b) (get (snd b))) blocks -> fpd (block_size blocks) (get (block_diag_mat blocks)).
Proof. exact block_diag_mat_pd. Qed.
Print Assumptions C15_block_precision_pd.

(* the conditional mean returned by the model solves (Q + A^T R^-1 A) z = A^T R^-1 y exactly, and it is the only solution:
   the implementation's Cholesky and conjugate-gradient results are compared with it *)
Theorem C15_kriging_solution : forall n Qm rows var y z,
  krig_solve n Qm rows var y = Some z ->
  (forall i, (i < n)%nat -> fmv n (get (krig_matrix n Qm rows var)) (vget z) i == vget (krig_rhs n rows var y) i) /\
  (fpd n (get Qm) -> (forall k, (k < length rows)%nat -> 0 < vget var k) ->
   forall w, (forall i, (i < n)%nat -> fmv n (get (krig_matrix n Qm rows var)) w i == vget (krig_rhs n rows var y) i) ->
   forall i, (i < n)%nat -> w i == vget z i).
Proof.
  intros n Qm rows var y z Hs. split; [exact (krig_solve_correct n Qm rows var y z Hs)|].
  intros HQ Hv w Hw. exact (krig_solution_unique n Qm rows var y z w HQ Hv Hs Hw).
Qed.
Print Assumptions C15_kriging_solution.

(* Any iterative solver that meets its contract - a residual of at most rho on every component, WHATEVER ITS INITIAL GUESS - returns
   the solution z of A z = b within rho x (absolute row sum of A^-1), and two runs from two guesses differ by at most twice that.
   With C15_kriging_solution (the solution exists and is unique) this is why every solve entry point - cold or warm started,
   conjugate gradient or Cholesky - must return the same vector up to its tolerance; the check compares each of them with the
   exact solution of the model, using this bound (|A^-1| computed from the harvested system). *)
Theorem C15_solution_independent_of_guess : forall n A B b z (solver : fvec -> fvec) rho,
  finv n A B -> (forall k, (k < n)%nat -> fmv n A z k == b k) ->
  (forall guess k, (k < n)%nat -> Qabs (fmv n A (solver guess) k - b k) <= rho) ->
  forall g1 g2 i, (i < n)%nat ->
    Qabs (solver g1 i - z i) <= rho * sumn n (fun j => Qabs (B i j)) /\
    Qabs (solver g1 i - solver g2 i) <= 2 * rho * sumn n (fun j => Qabs (B i j)).
Proof. exact solution_independent_of_guess. Qed.
Print Assumptions C15_solution_independent_of_guess.
(* non-vacuity: A = diag(2, 4), B = diag(1/2, 1/4), b = (2, 4), z = (1, 1); a "solver" adding guess/8 (capped contract rho = 1/2 on
   guesses in [-1, 1] is not needed: the constant solver z meets the contract with rho = 0) *)
Example C15_solution_independent_of_guess_nonvacuous :
  let A := fun i j => if Nat.eqb i j then (if Nat.eqb i 0 then 2 else 4) else 0 in
  let B := fun i j => if Nat.eqb i j then (if Nat.eqb i 0 then 1 # 2 else 1 # 4) else 0 in
  finv 2 A B /\ (forall k, (k < 2)%nat -> fmv 2 A (fun _ => 1) k == (if Nat.eqb k 0 then 2 else 4)) /\
  (forall (guess : fvec) k, (k < 2)%nat -> Qabs (fmv 2 A ((fun _ _ => 1) guess) k - (if Nat.eqb k 0 then 2 else 4)) <= 0).
Proof.
  cbv zeta. split; [|split].
  - intros i j Hi Hj. destruct i as [|[|?]]; try lia; destruct j as [|[|?]]; try lia; vm_compute; split; reflexivity.
  - intros k Hk. destruct k as [|[|?]]; try lia; vm_compute; reflexivity.
  - intros guess k Hk. destruct k as [|[|?]]; try lia; vm_compute; discriminate.
Qed.

(* ================================================================== ProjConvolution *)

(* the vertical convolution and its transpose are adjoint as soon as every shifted index falls in the vertex vector *)
Theorem C15_convolution_adjoint : forall shift conv count nv v y,
  shifts_in shift (length conv) count nv ->
  fdot count (vget y) (vget (convolve shift conv count v)) == fdot nv (vget v) (vget (convolveT shift conv count nv y)).
Proof. exact conv_adjoint. Qed.
Print Assumptions C15_convolution_adjoint.

(* the whole ProjConvolution (vertical convolution, then the horizontal projection slice by slice) and its transpose are adjoint *)
Theorem C15_proj_convolution_adjoint : forall rows sliceR nz nvertex shift conv v y,
  Forall (cols_in sliceR) rows -> shifts_in shift (length conv) (sliceR * nz) nvertex ->
  fdot (nz * length rows) (vget y) (vget (pc_mesh2point rows sliceR nz shift conv v)) ==
  fdot nvertex (vget v) (vget (pc_point2mesh rows sliceR (length rows) nz nvertex shift conv y)).
Proof. exact pc_adjoint. Qed.
Print Assumptions C15_proj_convolution_adjoint.
(* <A v, y> = <v, A^T y> for any matrix: in particular for the block matrix of projections of ProjMulti *)
Theorem C15_adjoint_any_matrix : forall n m (A : fmat) (v y : fvec),
  fdot m y (fun k => sumn n (fun c => A k c * v c)) == fdot n v (fun c => sumn m (fun k => A k c * y k)).
Proof. exact adjoint_dense. Qed.
Print Assumptions C15_adjoint_any_matrix.

(* the index shifts are j x (size of a horizontal slice): every index read by the convolution of a slice-stacked vector falls
   in the vertex vector, whatever the number of seismic samples and the length of the wavelet *)
Theorem C15_conv_shift : forall nxR nz size sliceR,
  C16.Model.prodZ nxR = Z.of_nat sliceR -> (1 <= size)%nat ->
  (forall j, (j < size)%nat -> nth j (pc_shift nxR (Z.of_nat nz) size) 0%Z = (Z.of_nat j * Z.of_nat sliceR)%Z) /\
  shifts_in (pc_shift nxR (Z.of_nat nz) size) size (sliceR * nz) (sliceR * (nz + size - 1)).
Proof.
  intros nxR nz size sliceR Hs Hsz. split; [intros j Hj; rewrite pc_shift_nth by exact Hj; rewrite Hs; reflexivity|].
  apply pc_shift_in; assumption.
Qed.
Print Assumptions C15_conv_shift.
(* Regression: before commit ffc232cc2 of /repo, _buildShiftVector computed the shifts from the ranks of nodes above the centre of
   the resolution grid ([pc_shift_old]): right on an ordinary grid, wrong when the grid has fewer seismic samples than the wavelet is
   long (3x3 slices, nz = 1, wavelet of 5: 0, 9, 18, -23, -23).  Witness kept in corpus/C15.sx (key proj-convolution:shift-vector). *)
Theorem C15_conv_shift_old_ffc232cc2 :
  pc_shift_old [3; 3]%Z 1 5 = [0; 9; 18; -23; -23]%Z /\ pc_shift [3; 3]%Z 1 5 = [0; 9; 18; 27; 36]%Z /\
  pc_shift_old [3; 2]%Z 5 3 = pc_shift [3; 2]%Z 5 3.
Proof. vm_compute. repeat split; reflexivity. Qed.
Print Assumptions C15_conv_shift_old_ffc232cc2.

(* ================================================================== non-vacuity *)
(* a 4x3 grid rotated by the matrix (3/5 -4/5; 4/5 3/5), polarized, one node masked: an interior sample is accepted in the
   second simplex of its cell with weights (3/8, 1/8, 1/2) and a sample of a masked cell has no row *)
Definition ex_turbo : turbo :=
  {| t_grid := {| C16.Model.g_nx := [4; 3]%Z; C16.Model.g_x0 := [10; -2]; C16.Model.g_dx := [2; 1 # 2];
                  C16.Model.g_rot := C16.Model.rot_of_matrix 2 [[3 # 5; - (4 # 5)]; [4 # 5; 3 # 5]] |};
     t_pol := true; t_sel := [true; true; true; true; true; true; true; true; true; true; true; false] |}.
Example C15_nonvacuous_turbo :
  let sb := selbis ex_turbo in
  (* sample of local coordinates (1/4, 5/8) in the cell (0,0), sample of local coordinates (3/4, 3/4) in the cell (2,1) *)
  let x := C16.Model.i2c (t_grid ex_turbo) [0; 0]%Z [1 # 4; 5 # 8] true in
  let y := C16.Model.i2c (t_grid ex_turbo) [2; 1]%Z [3 # 4; 3 # 4] true in
  (exists idx lam w m, add_weights ex_turbo sb 1 [0; 0]%Z x = Wok idx lam w m /\ all_nonneg lam /\ w = lam /\ idx = [0; 4; 5]%Z) /\
  (exists m, add_weights ex_turbo sb 0 [0; 0]%Z x = Wfail m) /\
  p_found (proj_point ex_turbo sb y) = None /\ p_located (proj_point ex_turbo sb y) = true.
Proof.
  cbv zeta. split; [|split; [|split]].
  - vm_compute. eexists _, _, _, _. split; [reflexivity|]. split; [|split; reflexivity]. repeat split; discriminate.
  - vm_compute. eexists. reflexivity.
  - vm_compute. reflexivity.
  - vm_compute. reflexivity.
Qed.

Example C15_nonvacuous_inside_gets_row :
  let x := C16.Model.i2c (t_grid ex_turbo) [0; 0]%Z [1 # 4; 5 # 8] true in
  p_found (proj_point ex_turbo (selbis ex_turbo) x) <> None.
Proof.
  cbv zeta. apply (C15_inside_gets_row ex_turbo [0; 0]%Z [1 # 4; 5 # 8]).
  - vm_compute. lia.
  - vm_compute. repeat split; repeat constructor.
  - reflexivity.
  - reflexivity.
  - vm_compute. repeat split; discriminate.
  - reflexivity.
  - intros idim Hd. destruct idim as [|[|?]]; [| |vm_compute in Hd; lia]; vm_compute; reflexivity.
  - vm_compute. reflexivity.
  - intros icas Hi. destruct icas as [|[|?]]; [| |vm_compute in Hi; lia]; (split; [|split]); vm_compute; repeat constructor; discriminate.
Qed.

(* a symmetric positive semi-definite shift operator (path graph Laplacian), Lambda = (1, 2, 1/2), P = (1 + S)^2 *)
Definition ex_S : mat := [[1; -1; 0]; [-1; 2; -1]; [0; -1; 1]].
Lemma ex_S_sym : fsym 3 (get ex_S).
Proof. intros i j Hi Hj. destruct i as [|[|[|?]]]; try lia; destruct j as [|[|[|?]]]; try lia; vm_compute; reflexivity. Qed.
Lemma ex_S_psd : fpsd 3 (get ex_S).
Proof.
  intro x. unfold fdot, fmv. cbn [sumn]. unfold get, ex_S. cbn [nth].
  assert (E : forall a b c : Q, 0 + a * (0 + 1 * a + -1 * b + 0 * c) + b * (0 + -1 * a + 2 * b + -1 * c) + c * (0 + 0 * a + -1 * b + 1 * c)
                               == (a - b) * (a - b) + (b - c) * (b - c)) by (intros; ring).
  rewrite E. assert (Sq : forall t : Q, 0 <= t * t) by (intro t; nra).
  pose proof (Sq (x 0%nat - x 1%nat)). pose proof (Sq (x 1%nat - x 2%nat)). lra.
Qed.
Example C15_nonvacuous_operator :
  fpd 3 (get (build_Q 3 ex_S [1; 2; 1 # 2] [1; 2; 1])) /\
  fsym 3 (get (build_Q 3 ex_S [1; 2; 1 # 2] [1; 2; 1])) /\
  mmv 3 3 (build_Q 3 ex_S [1; 2; 1 # 2] [1; 2; 1]) [1; -3; 5] = add_eval_power 3 ex_S [1; 2; 1 # 2] [1; 2; 1] [1; -3; 5].
Proof.
  split; [|split].
  - apply C15_Q_pd; [exact ex_S_sym|exact ex_S_psd| | |].
    + intro k. destruct k as [|[|[|[|?]]]]; vm_compute; discriminate.
    + vm_compute. reflexivity.
    + intros i Hi. destruct i as [|[|[|?]]]; try lia; vm_compute; discriminate.
  - apply C15_Q_symmetric; [discriminate|exact ex_S_sym].
  - vm_compute. reflexivity.
Qed.

(* the unit square cut in two triangles, anisotropy (scales 2 and 1, rotation 3-4-5), Matern p = 2: the operator is built,
   Q is symmetric positive definite by the unconditional theorem, and the kriging system of two data has its solution *)
Definition ex_fe_meshes : list (list nat * list (list Q)) :=
  [([0; 1; 2]%nat, [[0; 0]; [1; 0]; [0; 1]]); ([2; 1; 3]%nat, [[0; 1]; [1; 0]; [1; 1]])].
Definition ex_A : mat := [[3 # 5; - (4 # 5)]; [4 # 5; 3 # 5]].
Example C15_nonvacuous_assembly :
  exists sh, build_shift 2 4 ex_A [2; 1] (1 # 2) ex_fe_meshes = Some sh /\
    apices_in_range 2 4 ex_fe_meshes /\
    sumn 4 (fun i => vget (sh_tildeC sh) i) == (1 # 2) * 1 /\
    let Qm := build_Q 4 (scaled_S 4 [1; 2; 2; 1] (sh_Sraw sh)) [1; 1; 2; 1] (markov_coeffs 2) in
    fsym 4 (get Qm) /\ fpd 4 (get Qm) /\
    exists z, krig_solve 4 Qm [[(0%Z, 1 # 2); (1%Z, 1 # 2)]; [(3%Z, 1)]] [1 # 4; 1 # 4] [1; -1] = Some z.
Proof.
  eexists. split; [vm_compute; reflexivity|]. split; [|split; [|split; [|split]]].
  - constructor; [|constructor; [|constructor]]; intros a Ha; destruct a as [|[|[|?]]]; cbn in *; lia.
  - vm_compute. reflexivity.
  - apply (C15_Q_spd_matern 2 4 ex_A [2; 1] (1 # 2) ex_fe_meshes _ [1; 2; 2; 1] [1; 1; 2; 1] 2); [lra|vm_compute; reflexivity|].
    intros i Hi. destruct i as [|[|[|[|?]]]]; try lia; vm_compute; discriminate.
  - apply (C15_Q_spd_matern 2 4 ex_A [2; 1] (1 # 2) ex_fe_meshes _ [1; 2; 2; 1] [1; 1; 2; 1] 2); [lra|vm_compute; reflexivity|].
    intros i Hi. destruct i as [|[|[|[|?]]]]; try lia; vm_compute; discriminate.
  - vm_compute. eexists. reflexivity.
Qed.

(* two structures on the same meshing and a different variance for each datum: the block-diagonal precision is positive
   definite and the kriging system (diag(Q_1, Q_2) + A^T D^-1 A) z = A^T D^-1 y, A = [A_1 | A_2], has its solution *)
Example C15_nonvacuous_multi_kriging :
  let Q1 := build_Q 3 ex_S [1; 2; 1 # 2] [1; 2; 1] in
  let Q2 := build_Q 3 ex_S [2; 1; 1] [1; 1] in
  let rows := [[(0%Z, 1 # 2); (1%Z, 1 # 2)]; [(2%Z, 1)]] in
  fpd 6 (get (block_diag_mat [(3%nat, Q1); (3%nat, Q2)])) /\
  exists z, krig_solve 6 (block_diag_mat [(3%nat, Q1); (3%nat, Q2)])
                       (multi_rows 2 [(3%nat, rows); (3%nat, rows)] 0) [1 # 4; 3] [1; -1] = Some z.
Proof.
  cbv zeta. split.
  - apply (C15_block_precision_pd [(3%nat, build_Q 3 ex_S [1; 2; 1 # 2] [1; 2; 1]); (3%nat, build_Q 3 ex_S [2; 1; 1] [1; 1])]).
    constructor; [|constructor; [|constructor]]; cbn [fst snd].
    + apply C15_Q_pd; [exact ex_S_sym|exact ex_S_psd| | |].
      * intro k. destruct k as [|[|[|[|?]]]]; vm_compute; discriminate.
      * vm_compute. reflexivity.
      * intros i Hi. destruct i as [|[|[|?]]]; try lia; vm_compute; discriminate.
    + apply C15_Q_pd; [exact ex_S_sym|exact ex_S_psd| | |].
      * intro k. destruct k as [|[|[|?]]]; vm_compute; discriminate.
      * vm_compute. reflexivity.
      * intros i Hi. destruct i as [|[|[|?]]]; try lia; vm_compute; discriminate.
  - vm_compute. eexists. reflexivity.
Qed.

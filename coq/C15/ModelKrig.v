(* C15 model, part 4 — projection matrix applied to vectors and the kriging system of the SPDE approach.
     ProjMatrix::mesh2point / point2mesh        /repo/src/LinearOp/ProjMatrix.cpp:104 / 123  (A v and A^T y on the sparse rows)
     PrecisionOpMultiConditional::computeRhs    /repo/src/LinearOp/PrecisionOpMultiConditional.cpp:55   A^T (y / sigma^2)
     PrecisionOpMultiConditional::_evalDirect   :243   (Q + A^T diag(1/sigma^2) A) x
     PrecisionOpMultiConditionalCs::_buildQpAtA /repo/src/LinearOp/PrecisionOpMultiConditionalCs.cpp:120
     PrecisionOpMultiConditionalCs::_buildQmult / _buildAmult   :66 / :93   (block-diagonal Q, glued projections)
     SPDE::_computeKriging                      /repo/src/API/SPDE.cpp:342   solution of that system (Cholesky or conjugate gradient)
   The solve itself is not modelled as an algorithm: the model returns the exact solution with its certificate
   (lib/LinAlgQ.solve_checked), proved to be the only one.  No proofs here. *)
From Coq Require Import List Arith ZArith QArith Bool.
From Gst Require Import lib.QAux lib.LinAlgQ C15.Model C15.ModelOp.
From Gst Require C16.Model.
Import ListNotations.
Local Open Scope Q_scope.

(* a projection matrix by rows: (column, weight) entries *)
Definition prows := list (list (Z * Q)).
(* entry (k, c) of the matrix: duplicates are added (triplet semantics) *)
Definition dense_entry (r : list (Z * Q)) (c : nat) : Q :=
  lsumQ (map (fun e => if Z.eqb (fst e) (Z.of_nat c) then snd e else 0) r).
Definition dense_A (rows : prows) : fmat := fun k c => dense_entry (nth k rows []) c.

(* mesh2point: (A v)_k  computed on the sparse row *)
Definition row_apply (r : list (Z * Q)) (v : list Q) : Q :=
  lsumQ (map (fun e => snd e * (if (fst e <? 0)%Z then 0 else vget v (Z.to_nat (fst e)))) r).
Definition mesh2point (rows : prows) (v : list Q) : list Q := map (fun r => row_apply r v) rows.
(* point2mesh: (A^T y)_c *)
Definition point2mesh (n : nat) (rows : prows) (y : list Q) : list Q :=
  vkr n (fun c => sumnr (length rows) (fun k => dense_A rows k c * vget y k)).

(* Q + A^T diag(1/var) A   and   A^T (y / var) *)
Definition krig_matrix (n : nat) (Qm : mat) (rows : prows) (var : list Q) : mat :=
  mkr n n (fun i j => get Qm i j + sumnr (length rows) (fun k => dense_A rows k i * (/ vget var k) * dense_A rows k j)).
Definition krig_rhs (n : nat) (rows : prows) (var y : list Q) : list Q :=
  point2mesh n rows (vkr (length rows) (fun k => vget y k / vget var k)).
(* the conditional mean on the mesh: exact solution with certificate *)
Definition krig_solve (n : nat) (Qm : mat) (rows : prows) (var y : list Q) : option (list Q) :=
  let M := krig_matrix n Qm rows var in
  let b := krig_rhs n rows var y in
  match solve_checked n 1 M (map (fun x => [x]) b) with
  | Some W => Some (map (fun r => nth 0 r 0) W)
  | None => None
  end.

(* block-diagonal precision of several structures (PrecisionOpMultiConditionalCs::_buildQmult) *)
Fixpoint block_diag (blocks : list (nat * mat)) : fmat :=
  match blocks with
  | [] => fun _ _ => 0
  | (n, Qm) :: r => fun i j =>
      if Nat.ltb i n then (if Nat.ltb j n then get Qm i j else 0)
      else (if Nat.ltb j n then 0 else block_diag r (i - n)%nat (j - n)%nat)
  end.
Fixpoint block_size (blocks : list (nat * mat)) : nat :=
  match blocks with [] => O | (n, _) :: r => (n + block_size r)%nat end.
Definition block_diag_mat (blocks : list (nat * mat)) : mat :=
  mk (block_size blocks) (block_size blocks) (block_diag blocks).
(* glued projection [A_1 | A_2 | ...] (_buildAmult): the columns of block k are shifted by the sizes of the previous blocks *)
Fixpoint multi_rows (ndat : nat) (blocks : list (nat * prows)) (off : Z) : prows :=
  match blocks with
  | [] => repeat [] ndat
  | (n, rows) :: r =>
      C16.Model.map2 (fun a b => a ++ b) (map (map (fun e => ((fst e + off)%Z, snd e))) rows) (multi_rows ndat r (off + Z.of_nat n)%Z)
  end.


(* C15 model, part 4 — projection matrix applied to vectors and the kriging system of the SPDE approach.
     ProjMatrix::mesh2point / point2mesh        /repo/src/LinearOp/ProjMatrix.cpp:104 / 123  (A v and A^T y on the sparse rows)
     PrecisionOpMultiConditional::computeRhs    /repo/src/LinearOp/PrecisionOpMultiConditional.cpp:55   A^T (y / sigma^2)
     PrecisionOpMultiConditional::_evalDirect   :243   (Q + A^T diag(1/sigma^2) A) x
     PrecisionOpMultiConditionalCs::_buildQpAtA /repo/src/LinearOp/PrecisionOpMultiConditionalCs.cpp:120
     SPDE::_computeKriging                      /repo/src/API/SPDE.cpp:342   solution of that system (Cholesky or conjugate gradient)
   The solve itself is not modelled as an algorithm: the model returns the exact solution with its certificate
   (lib/LinAlgQ.solve_checked), proved to be the only one.  No proofs here. *)
From Coq Require Import List Arith ZArith QArith Bool.
From Gst Require Import lib.QAux lib.LinAlgQ C15.Model C15.ModelOp.
Import ListNotations.
Local Open Scope Q_scope.

(* a projection matrix by rows: (column, weight) entries *)
Definition prows := list (list (Z * Q)).
(* entry (k, c) of the matrix: duplicates are added (triplet semantics) *)
Definition dense_entry (r : list (Z * Q)) (c : nat) : Q :=
  lsumQ (map (fun e => if Z.eqb (fst e) (Z.of_nat c) then snd e else 0) r).
Definition dense_A (rows : prows) : fmat := fun k c => dense_entry (nth k rows []) c.

(* mesh2point: (A v)_k  computed on the sparse row *)
Definition row_apply (r : list (Z * Q)) (v : list Q) : Q :=
  lsumQ (map (fun e => snd e * (if (fst e <? 0)%Z then 0 else vget v (Z.to_nat (fst e)))) r).
Definition mesh2point (rows : prows) (v : list Q) : list Q := map (fun r => row_apply r v) rows.
(* point2mesh: (A^T y)_c *)
Definition point2mesh (n : nat) (rows : prows) (y : list Q) : list Q :=
  vkr n (fun c => sumnr (length rows) (fun k => dense_A rows k c * vget y k)).

(* Q + A^T diag(1/var) A   and   A^T (y / var) *)
Definition krig_matrix (n : nat) (Qm : mat) (rows : prows) (var : list Q) : mat :=
  mkr n n (fun i j => get Qm i j + sumnr (length rows) (fun k => dense_A rows k i * (/ vget var k) * dense_A rows k j)).
Definition krig_rhs (n : nat) (rows : prows) (var y : list Q) : list Q :=
  point2mesh n rows (vkr (length rows) (fun k => vget y k / vget var k)).
(* the conditional mean on the mesh: exact solution with certificate *)
Definition krig_solve (n : nat) (Qm : mat) (rows : prows) (var y : list Q) : option (list Q) :=
  let M := krig_matrix n Qm rows var in
  let b := krig_rhs n rows var y in
  match solve_checked n 1 M (map (fun x => [x]) b) with
  | Some W => Some (map (fun r => nth 0 r 0) W)
  | None => None
  end.

(* C15 model, part 5 — ProjConvolution: index shifts of the vertical convolution, convolution and its transpose,
   composition with the horizontal projection.
     ProjConvolution::_buildShiftVector          /repo/src/LinearOp/ProjConvolution.cpp:99   (shift_j = j x slice)
     ProjConvolution::_getGridCharacteristicsRR  :241  (last dimension: nz + size - 1 nodes)
     ProjConvolution::_convolve / _convolveT     :213 / :220  (defined values only: the TEST propagation is not modelled)
     ProjConvolution::_addMesh2point / _addPoint2mesh   :186 / :160
   No proofs here. *)
From Coq Require Import List Arith ZArith QArith Bool.
From Gst Require Import lib.QAux lib.LinAlgQ C15.Model C15.ModelKrig.
From Gst Require C16.Model.
Import ListNotations.
Local Open Scope Q_scope.

(* nx of the resolution grid with its last dimension: nxR ++ [nz + size - 1] *)
Definition rr_nx (nxR : list Z) (nz : Z) (size : nat) : list Z := nxR ++ [(nz + Z.of_nat size - 1)%Z].
Fixpoint upd_last (l : list Z) (f : Z -> Z) : list Z :=
  match l with [] => [] | [x] => [f x] | x :: r => x :: upd_last r f end.
(* _buildShiftVector: the shift of the j-th coefficient is j horizontal slices of the resolution grid *)
Definition pc_shift (nxR : list Z) (nz : Z) (size : nat) : list Z :=
  map (fun j => (Z.of_nat j * C16.Model.prodZ nxR)%Z) (seq 0 size).
(* before commit ffc232cc2: center = ntotal / 2; indp = indices(center); indp[last] += half;
   for i = -half..half: shift[i + half] = rank(indp with last + i) - center   (kept for the regression theorem) *)
Definition pc_shift_old (nxR : list Z) (nz : Z) (size : nat) : list Z :=
  let nx := rr_nx nxR nz size in
  let center := Z.quot (C16.Model.prodZ nx) 2 in
  let half := Z.quot (Z.of_nat size - 1) 2 in
  let indp := upd_last (C16.Model.rankToIndice nx center false) (fun z => (z + half)%Z) in
  map (fun j => let i := (Z.of_nat j - half)%Z in
                (C16.Model.indiceToRank nx (upd_last indp (fun z => (z + i)%Z)) - center)%Z) (seq 0 size).

Definition zget (v : list Q) (z : Z) : Q := if (z <? 0)%Z then 0 else vget v (Z.to_nat z).
(* _convolve: out[is] = sum_j in[is + shift_j] conv_j *)
Definition convolve (shift : list Z) (conv : list Q) (count : nat) (v : list Q) : list Q :=
  vkr count (fun is => sumn (length conv) (fun j => zget v (Z.of_nat is + nth j shift 0%Z) * vget conv j)).
(* _convolveT: out[is + shift_j] += in[is] conv_j *)
Definition convolveT (shift : list Z) (conv : list Q) (count nvertex : nat) (y : list Q) : list Q :=
  vkr nvertex (fun id => sumn count (fun is => sumn (length conv) (fun j =>
     if Z.eqb (Z.of_nat is + nth j shift 0%Z) (Z.of_nat id) then vget y is * vget conv j else 0))).

Definition slice (v : list Q) (k len : nat) : list Q := firstn len (skipn (k * len) v).
(* _addMesh2point: convolution, then the horizontal projection slice by slice *)
Definition pc_mesh2point (rows : prows) (sliceR nz : nat) (shift : list Z) (conv v : list Q) : list Q :=
  let w := convolve shift conv (sliceR * nz) v in
  flat_map (fun iz => mesh2point rows (slice w iz sliceR)) (seq 0 nz).
(* _addPoint2mesh: transposed horizontal projection slice by slice, then the transposed convolution *)
Definition pc_point2mesh (rows : prows) (sliceR sliceS nz nvertex : nat) (shift : list Z) (conv y : list Q) : list Q :=
  let w := flat_map (fun iz => point2mesh sliceR rows (slice y iz sliceS)) (seq 0 nz) in
  convolveT shift conv (sliceR * nz) nvertex w.

(* the 'add' variants accumulate into the destination (since commit 233d5ae9b) *)
Definition vadd_n (n : nat) (a b : list Q) : list Q := vkr n (fun i => vget a i + vget b i).
Definition pc_add_mesh2point (rows : prows) (sliceR nz : nat) (shift : list Z) (conv v dst : list Q) : list Q :=
  vadd_n (length rows * nz) dst (pc_mesh2point rows sliceR nz shift conv v).
Definition pc_add_point2mesh (rows : prows) (sliceR sliceS nz nvertex : nat) (shift : list Z) (conv y dst : list Q) : list Q :=
  vadd_n nvertex dst (pc_point2mesh rows sliceR sliceS nz nvertex shift conv y).

(* C15 runner: decodes a case, runs the model, encodes the result. Executable only.
   kind 0  turbo projection      (0 nx dx x0 rot pol sel pts)        -> (napices rows info)
   kind 1  standard projection   (1 ndim apices meshes pts)          -> (nrows rows info)
   kind 6  shift operator assembly (6 ndim n A scales rt meshes)       -> (ok Sraw tildeC H)
   kind 8  kriging system        (8 nx dx x0 rot pol sel pts n S lambda coeffs var y) -> (solution A.lambda At.y rhs)
   kind 10 ProjConvolution       (10 nxR dxR x0R seismic-nodes nz conv v y) -> (shifts mesh2point point2mesh rows)
   kind 12 shift operator, per-mesh anisotropy (12 ndim n ((A scales rt) ...) meshes) -> (ok Sraw tildeC)
   kind 14 kriging system, several structures, one variance per datum (14 nx dx x0 rot pol sel pts ((n S lambda coeffs) ...) var y) -> (solution rhs)
   kind 7  Markov coefficients   (7 p)                                 -> (coeffs)
   kind 2  precision operators   (2 n S lambda coeffs v dest)        -> (free assembled cumul training horner Q addfree addcs) *)
From Coq Require Import List ZArith QArith Bool.
From Gst Require Import lib.Sx lib.QAux lib.LinAlgQ C15.gen.MSS C15.Model C15.ModelOp C15.ModelShift C15.ModelKrig C15.ModelConv.
From Gst Require C16.Model.
Import ListNotations.

Definition asVQ : sx -> option (list Q) := asListOf asQ.
Definition asVZ : sx -> option (list Z) := asListOf asZ.
Definition asVB : sx -> option (list bool) := asListOf asB.
Definition asMQ : sx -> option (list (list Q)) := asListOf asVQ.

Definition ofEntries (r : list (Z * Q)) : sx := ofList (fun e => L [I (fst e); ofQ (snd e)]) r.
Definition ofVQ (l : list Q) : sx := ofList ofQ l.

Definition mk_grid (nx : list Z) (dx x0 : list Q) (rot : list (list Q)) : C16.Model.grid :=
  let n := length nx in
  {| C16.Model.g_nx := nx; C16.Model.g_x0 := x0; C16.Model.g_dx := dx;
     C16.Model.g_rot := match rot with [] => C16.Model.rot_identity n | _ => C16.Model.rot_of_matrix n rot end |}.

Definition ofProw (p : prow) : sx :=
  L [ofB (p_located p);
     match p_found p with
     | Some f => L [ofList I (fst (fst f)); ofVQ (snd (fst f)); ofVQ (snd f)]
     | None => L []
     end;
     ofQ (p_margin p); ofQ (p_locmargin p)].
Definition ofSrow (r : srow) : sx :=
  L [match sr_found r with Some (im, ws) => L [ofNat im; ofVQ ws] | None => L [] end; ofQ (sr_margin r)].

Definition asMeshFE (s : sx) : option (list nat * list (list Q)) :=
  match s with
  | L [ap; cs] => match asListOf asNat ap, asMQ cs with Some a, Some c => Some (a, c) | _, _ => None end
  | _ => None
  end.

Definition asParamNS (s : sx) : option (mat * list Q * Q) :=
  match s with
  | L [A; sc; rt] => match asMQ A, asVQ sc, asQ rt with Some a, Some b, Some c => Some (a, b, c) | _, _, _ => None end
  | _ => None
  end.

Definition asBlock (s : sx) : option (nat * mat * list Q * list Q) :=
  match s with
  | L [n; Sm; lam; cf] => match asNat n, asMQ Sm, asVQ lam, asVQ cf with Some a, Some b, Some c, Some d => Some (a, b, c, d) | _, _, _, _ => None end
  | _ => None
  end.

Definition run (c : sx) : sx :=
  match c with
  | L [I 0%Z; nx; dx; x0; rot; pol; sel; pts] =>
      match asVZ nx, asVQ dx, asVQ x0, asMQ rot, asB pol, asVB sel, asMQ pts with
      | Some nx', Some dx', Some x0', Some rot', Some pol', Some sel', Some pts' =>
          let t := {| t_grid := mk_grid nx' dx' x0' rot'; t_pol := pol'; t_sel := sel' |} in
          let r := proj_turbo t pts' in
          L [I (napices t (selbis t)); ofList ofEntries (fst r); ofList ofProw (snd r)]
      | _, _, _, _, _, _, _ => sx_error 1
      end
  | L [I 1%Z; nd; ap; ms; pts] =>
      match asNat nd, asMQ ap, asListOf (asListOf asNat) ms, asMQ pts with
      | Some nd', Some ap', Some ms', Some pts' =>
          let s := {| s_ndim := nd'; s_apices := ap'; s_meshes := ms' |} in
          let r := proj_standard s pts' in
          L [ofNat (fst (fst r)); ofList ofEntries (snd (fst r)); ofList ofSrow (snd r)]
      | _, _, _, _ => sx_error 1
      end
  | L [I 2%Z; n; Sm; lam; cf; v; dst] =>
      match asNat n, asMQ Sm, asVQ lam, asVQ cf, asVQ v, asVQ dst with
      | Some n', Some S', Some lam', Some cf', Some v', Some dst' =>
          let Qm := build_Q n' S' lam' cf' in
          L [ofVQ (add_eval_power n' S' lam' cf' v');
             ofVQ (mmv n' n' Qm v');
             ofVQ (eval_op_cumul n' S' cf' v' (vk n' (fun _ => 0%Q)));
             ofVQ (add_eval_power_training n' S' lam' cf' v');
             ofVQ (eval_op n' S' cf' v');
             ofList ofVQ Qm;
             ofVQ (add_to_dest_free n' S' lam' cf' v' dst');
             ofVQ (add_to_dest_cs n' S' lam' cf' v' dst')]
      | _, _, _, _, _, _ => sx_error 1
      end
  | L [I 6%Z; nd; n; A; sc; rt; ms] =>
      match asNat nd, asNat n, asMQ A, asVQ sc, asQ rt, asListOf asMeshFE ms with
      | Some nd', Some n', Some A', Some sc', Some rt', Some ms' =>
          match build_shift nd' n' A' sc' rt' ms' with
          | Some sh => L [I 1; ofList ofVQ (sh_Sraw sh); ofVQ (sh_tildeC sh); ofList ofVQ (sh_H sh)]
          | None => L [I 0]
          end
      | _, _, _, _, _, _ => sx_error 1
      end
  | L [I 8%Z; nx; dx; x0; rot; pol; sel; pts; n; Sm; lam; cf; var; y] =>
      match asVZ nx, asVQ dx, asVQ x0, asMQ rot, asB pol, asVB sel, asMQ pts with
      | Some nx', Some dx', Some x0', Some rot', Some pol', Some sel', Some pts' =>
          match asNat n, asMQ Sm, asVQ lam, asVQ cf, asVQ var, asVQ y with
          | Some n', Some S', Some lam', Some cf', Some var', Some y' =>
              let t := {| t_grid := mk_grid nx' dx' x0' rot'; t_pol := pol'; t_sel := sel' |} in
              let rows := fst (proj_turbo t pts') in
              let Qm := build_Q n' S' lam' cf' in
              L [match krig_solve n' Qm rows var' y' with Some z => L [I 1; ofVQ z] | None => L [I 0] end;
                 ofVQ (mesh2point rows lam'); ofVQ (point2mesh n' rows y'); ofVQ (krig_rhs n' rows var' y')]
          | _, _, _, _, _, _ => sx_error 1
          end
      | _, _, _, _, _, _, _ => sx_error 1
      end
  | L [I 10%Z; nxR; dxR; x0R; ptsS; nz; cv; v; y; d1; d2] =>
      match asVZ nxR, asVQ dxR, asVQ x0R, asMQ ptsS, asNat nz, asVQ cv, asVQ v, asVQ y, asVQ d1, asVQ d2 with
      | Some nx', Some dx', Some x0', Some pts', Some nz', Some cv', Some v', Some y', Some d1', Some d2' =>
          let t := {| t_grid := mk_grid nx' dx' x0' []; t_pol := false; t_sel := [] |} in
          let rows := fst (proj_turbo t pts') in
          let sliceR := Z.to_nat (C16.Model.prodZ nx') in
          let sliceS := length pts' in
          let size := length cv' in
          let sh := pc_shift nx' (Z.of_nat nz') size in
          let nvertex := (sliceR * (nz' + size - 1))%nat in
          L [ofList I sh; ofVQ (pc_mesh2point rows sliceR nz' sh cv' v');
             ofVQ (pc_point2mesh rows sliceR sliceS nz' nvertex sh cv' y'); ofList ofEntries rows;
             ofVQ (pc_add_mesh2point rows sliceR nz' sh cv' v' d1'); ofVQ (pc_add_point2mesh rows sliceR sliceS nz' nvertex sh cv' y' d2')]
      | _, _, _, _, _, _, _, _, _, _ => sx_error 1
      end
  | L [I 12%Z; nd; n; prm; ms] =>
      match asNat nd, asNat n, asListOf asParamNS prm, asListOf asMeshFE ms with
      | Some nd', Some n', Some prm', Some ms' =>
          match build_shift_ns nd' n' prm' ms' with
          | Some sh => L [I 1; ofList ofVQ (sh_Sraw sh); ofVQ (sh_tildeC sh)]
          | None => L [I 0]
          end
      | _, _, _, _ => sx_error 1
      end
  | L [I 14%Z; nx; dx; x0; rot; pol; sel; pts; blk; var; y] =>
      match asVZ nx, asVQ dx, asVQ x0, asMQ rot, asB pol, asVB sel, asMQ pts with
      | Some nx', Some dx', Some x0', Some rot', Some pol', Some sel', Some pts' =>
          match asListOf asBlock blk, asVQ var, asVQ y with
          | Some blk', Some var', Some y' =>
              let t := {| t_grid := mk_grid nx' dx' x0' rot'; t_pol := pol'; t_sel := sel' |} in
              let rows := fst (proj_turbo t pts') in
              let qb := map (fun b => (fst (fst (fst b)), build_Q (fst (fst (fst b))) (snd (fst (fst b))) (snd (fst b)) (snd b))) blk' in
              let Qm := block_diag_mat qb in
              let rm := multi_rows (length pts') (map (fun b => (fst b, rows)) qb) 0 in
              let N := block_size qb in
              L [match krig_solve N Qm rm var' y' with Some z => L [I 1; ofVQ z] | None => L [I 0] end;
                 ofVQ (krig_rhs N rm var' y')]
          | _, _, _ => sx_error 1
          end
      | _, _, _, _, _, _, _ => sx_error 1
      end
  | L [I 7%Z; p] =>
      match asNat p with Some p' => L [ofVQ (markov_coeffs p')] | None => sx_error 1 end
  | _ => sx_error 0
  end.

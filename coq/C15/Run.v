(* C15 runner: decodes a case, runs the model, encodes the result. Executable only.
   kind 0  turbo projection      (0 nx dx x0 rot pol sel pts)        -> (napices rows info)
   kind 1  standard projection   (1 ndim apices meshes pts)          -> (nrows rows info)
   kind 2  precision operators   (2 n S lambda coeffs v dest)        -> (free assembled cumul training horner Q addfree addcs) *)
From Coq Require Import List ZArith QArith Bool.
From Gst Require Import lib.Sx lib.QAux lib.LinAlgQ C15.gen.MSS C15.Model C15.ModelOp.
From Gst Require C16.Model.
Import ListNotations.

Definition asVQ : sx -> option (list Q) := asListOf asQ.
Definition asVZ : sx -> option (list Z) := asListOf asZ.
Definition asVB : sx -> option (list bool) := asListOf asB.
Definition asMQ : sx -> option (list (list Q)) := asListOf asVQ.

Definition ofEntries (r : list (Z * Q)) : sx := ofList (fun e => L [I (fst e); ofQ (snd e)]) r.
Definition ofVQ (l : list Q) : sx := ofList ofQ l.

Definition mk_grid (nx : list Z) (dx x0 : list Q) (rot : list (list Q)) : C16.Model.grid :=
  let n := length nx in
  {| C16.Model.g_nx := nx; C16.Model.g_x0 := x0; C16.Model.g_dx := dx;
     C16.Model.g_rot := match rot with [] => C16.Model.rot_identity n | _ => C16.Model.rot_of_matrix n rot end |}.

Definition ofProw (p : prow) : sx :=
  L [ofB (p_located p);
     match p_found p with
     | Some f => L [ofList I (fst (fst f)); ofVQ (snd (fst f)); ofVQ (snd f)]
     | None => L []
     end;
     ofQ (p_margin p); ofQ (p_locmargin p)].
Definition ofSrow (r : srow) : sx :=
  L [match sr_found r with Some (im, ws) => L [ofNat im; ofVQ ws] | None => L [] end; ofQ (sr_margin r)].

Definition run (c : sx) : sx :=
  match c with
  | L [I 0%Z; nx; dx; x0; rot; pol; sel; pts] =>
      match asVZ nx, asVQ dx, asVQ x0, asMQ rot, asB pol, asVB sel, asMQ pts with
      | Some nx', Some dx', Some x0', Some rot', Some pol', Some sel', Some pts' =>
          let t := {| t_grid := mk_grid nx' dx' x0' rot'; t_pol := pol'; t_sel := sel' |} in
          let r := proj_turbo t pts' in
          L [I (napices t (selbis t)); ofList ofEntries (fst r); ofList ofProw (snd r)]
      | _, _, _, _, _, _, _ => sx_error 1
      end
  | L [I 1%Z; nd; ap; ms; pts] =>
      match asNat nd, asMQ ap, asListOf (asListOf asNat) ms, asMQ pts with
      | Some nd', Some ap', Some ms', Some pts' =>
          let s := {| s_ndim := nd'; s_apices := ap'; s_meshes := ms' |} in
          let r := proj_standard s pts' in
          L [ofNat (fst (fst r)); ofList ofEntries (snd (fst r)); ofList ofSrow (snd r)]
      | _, _, _, _ => sx_error 1
      end
  | L [I 2%Z; n; Sm; lam; cf; v; dst] =>
      match asNat n, asMQ Sm, asVQ lam, asVQ cf, asVQ v, asVQ dst with
      | Some n', Some S', Some lam', Some cf', Some v', Some dst' =>
          let Qm := build_Q n' S' lam' cf' in
          L [ofVQ (add_eval_power n' S' lam' cf' v');
             ofVQ (mmv n' n' Qm v');
             ofVQ (eval_op_cumul n' S' cf' v' (vk n' (fun _ => 0%Q)));
             ofVQ (add_eval_power_training n' S' lam' cf' v');
             ofVQ (eval_op n' S' cf' v');
             ofList ofVQ Qm;
             ofVQ (add_to_dest_free n' S' lam' cf' v' dst');
             ofVQ (add_to_dest_cs n' S' lam' cf' v' dst')]
      | _, _, _, _, _, _ => sx_error 1
      end
  | _ => sx_error 0
  end.

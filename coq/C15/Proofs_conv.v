(* C15 proofs, ProjConvolution: the vertical convolution and its transpose are adjoint. *)
From Coq Require Import List Arith ZArith QArith Qabs Bool Lqa Lia Setoid Morphisms.
From Gst Require Import lib.QAux lib.LinAlgQ C15.Model C15.ModelKrig C15.Proofs_shift C15.Proofs_krig.
From Gst Require Import C15.ModelConv.
Import ListNotations.
Local Open Scope Q_scope.

Lemma sumn_zeqb n z (f : nat -> Q) : (0 <= z < Z.of_nat n)%Z ->
  sumn n (fun id => if Z.eqb z (Z.of_nat id) then f id else 0) == f (Z.to_nat z).
Proof.
  intro Hz.
  rewrite (sumn_ext n _ (fun id => delta (Z.to_nat z) id * f id)).
  - apply sumn_delta_l. lia.
  - intros id _. unfold delta. destruct (Z.eqb_spec z (Z.of_nat id)), (Nat.eqb_spec (Z.to_nat z) id); try lia; ring.
Qed.

Definition shifts_in (shift : list Z) (size count nv : nat) : Prop :=
  forall is j, (is < count)%nat -> (j < size)%nat -> (0 <= Z.of_nat is + nth j shift 0 < Z.of_nat nv)%Z.

(* <conv v, y> = <v, conv^T y> *)
Lemma conv_adjoint shift conv count nv v y :
  shifts_in shift (length conv) count nv ->
  fdot count (vget y) (vget (convolve shift conv count v)) == fdot nv (vget v) (vget (convolveT shift conv count nv y)).
Proof.
  intro Hin. unfold fdot.
  rewrite (sumn_ext count _ (fun is => sumn (length conv) (fun j => vget y is * vget conv j * zget v (Z.of_nat is + nth j shift 0%Z)))).
  2:{ intros is His. unfold convolve. rewrite vget_vkr by exact His. rewrite sumn_mult_l. apply sumn_ext. intros; ring. }
  rewrite (sumn_ext nv _ (fun id => sumn count (fun is => sumn (length conv) (fun j =>
            if Z.eqb (Z.of_nat is + nth j shift 0%Z) (Z.of_nat id) then vget y is * vget conv j * vget v id else 0)))).
  2:{ intros id Hid. unfold convolveT. rewrite vget_vkr by exact Hid. rewrite sumn_mult_l. apply sumn_ext. intros is _.
      rewrite sumn_mult_l. apply sumn_ext. intros j _. destruct (Z.eqb _ _); ring. }
  rewrite (sumn_swap nv count (fun id is => sumn (length conv) (fun j =>
            if Z.eqb (Z.of_nat is + nth j shift 0%Z) (Z.of_nat id) then vget y is * vget conv j * vget v id else 0))).
  apply sumn_ext. intros is His.
  rewrite (sumn_swap nv (length conv) (fun id j =>
            if Z.eqb (Z.of_nat is + nth j shift 0%Z) (Z.of_nat id) then vget y is * vget conv j * vget v id else 0)).
  apply sumn_ext. intros j Hj. symmetry.
  rewrite (sumn_zeqb nv _ (fun id => vget y is * vget conv j * vget v id)) by (apply Hin; assumption).
  unfold zget. destruct (Z.ltb_spec (Z.of_nat is + nth j shift 0%Z) 0); [specialize (Hin is j His Hj); lia|]. reflexivity.
Qed.

(* ------------------------------------------------------------------ the shifts *)
Lemma pc_shift_nth nxR nz size j : (j < size)%nat -> nth j (pc_shift nxR nz size) 0%Z = (Z.of_nat j * C16.Model.prodZ nxR)%Z.
Proof. intro H. unfold pc_shift. exact (nth_map_seq (fun j => (Z.of_nat j * C16.Model.prodZ nxR)%Z) size j 0%Z H). Qed.

(* every shifted index of a slice-stacked vector falls in the vertex vector: the convolution never reads outside *)
Lemma pc_shift_in nxR nz size sliceR :
  C16.Model.prodZ nxR = Z.of_nat sliceR -> (1 <= size)%nat ->
  shifts_in (pc_shift nxR (Z.of_nat nz) size) size (sliceR * nz) (sliceR * (nz + size - 1)).
Proof.
  intros Hs Hsz is j His Hj. rewrite pc_shift_nth by exact Hj. rewrite Hs. nia.
Qed.

(* ------------------------------------------------------------------ block structure of slice-stacked vectors *)
Lemma sumn_blocks m nz g : sumn (nz * m) g == sumn nz (fun iz => sumn m (fun k => g (iz * m + k)%nat)).
Proof.
  induction nz as [|nz IH]; [reflexivity|].
  replace (S nz * m)%nat with (nz * m + m)%nat by lia. rewrite sumn_split, IH. cbn [sumn]. reflexivity.
Qed.

Lemma nth_skipn_add {A} (l : list A) a k d : nth k (skipn a l) d = nth (a + k) l d.
Proof. revert l. induction a as [|a IH]; intro l; [reflexivity|]. destruct l as [|x l]; [destruct k; reflexivity|]. cbn [skipn Nat.add nth]. apply IH. Qed.
Lemma nth_firstn_lt {A} (l : list A) m k d : (k < m)%nat -> nth k (firstn m l) d = nth k l d.
Proof.
  revert l k. induction m as [|m IH]; intros l k H; [lia|]. destruct l as [|x l]; [destruct k; reflexivity|].
  destruct k as [|k]; [reflexivity|]. cbn [firstn nth]. apply IH. lia.
Qed.
Lemma vget_slice y iz m k : (k < m)%nat -> vget (slice y iz m) k = vget y (iz * m + k).
Proof. intro H. unfold vget, slice. rewrite nth_firstn_lt by exact H. apply nth_skipn_add. Qed.

Lemma nth_flat_blocks (f : nat -> list Q) m d : (forall iz, length (f iz) = m) ->
  forall nz s iz k, (iz < nz)%nat -> (k < m)%nat -> nth (iz * m + k) (flat_map f (seq s nz)) d = nth k (f (s + iz)%nat) d.
Proof.
  intros Hl. induction nz as [|nz IH]; intros s iz k Hiz Hk; [lia|].
  cbn [seq flat_map]. destruct iz as [|iz].
  - cbn [Nat.mul Nat.add]. rewrite app_nth1 by (rewrite Hl; exact Hk). rewrite Nat.add_0_r. reflexivity.
  - rewrite app_nth2 by (rewrite Hl; nia). rewrite Hl.
    replace (S iz * m + k - m)%nat with (iz * m + k)%nat by nia.
    rewrite (IH (S s) iz k) by lia. f_equal. f_equal. lia.
Qed.

Lemma fdot_blocks (f : nat -> list Q) m nz y : (forall iz, length (f iz) = m) ->
  fdot (nz * m) (vget (flat_map f (seq 0 nz))) (vget y) == sumn nz (fun iz => fdot m (vget (f iz)) (vget (slice y iz m))).
Proof.
  intro Hl. unfold fdot. rewrite sumn_blocks. apply sumn_ext. intros iz Hiz. apply sumn_ext. intros k Hk.
  unfold vget at 1. rewrite (nth_flat_blocks f m 0 Hl nz 0 iz k Hiz Hk). cbn [Nat.add].
  rewrite vget_slice by exact Hk. reflexivity.
Qed.

Lemma fdot_slices w y m nz :
  fdot (nz * m) (vget w) (vget y) == sumn nz (fun iz => fdot m (vget (slice w iz m)) (vget (slice y iz m))).
Proof.
  unfold fdot. rewrite sumn_blocks. apply sumn_ext. intros iz _. apply sumn_ext. intros k Hk.
  rewrite !vget_slice by exact Hk. reflexivity.
Qed.

Lemma length_mesh2point rows v : length (mesh2point rows v) = length rows.
Proof. unfold mesh2point. apply map_length. Qed.
Lemma length_point2mesh n rows y : length (point2mesh n rows y) = n.
Proof. unfold point2mesh, vkr. apply length_vk. Qed.

(* ------------------------------------------------------------------ <A v, y> = <v, A^T y> for the whole ProjConvolution *)
Lemma pc_adjoint rows sliceR nz nvertex shift conv v y :
  Forall (cols_in sliceR) rows -> shifts_in shift (length conv) (sliceR * nz) nvertex ->
  fdot (nz * length rows) (vget y) (vget (pc_mesh2point rows sliceR nz shift conv v)) ==
  fdot nvertex (vget v) (vget (pc_point2mesh rows sliceR (length rows) nz nvertex shift conv y)).
Proof.
  intros Hc Hs. unfold pc_mesh2point, pc_point2mesh.
  set (w := convolve shift conv (sliceR * nz) v).
  set (w' := flat_map (fun iz => point2mesh sliceR rows (slice y iz (length rows))) (seq 0 nz)).
  (* slice by slice on the seismic side *)
  rewrite fdot_comm.
  rewrite (fdot_blocks (fun iz => mesh2point rows (slice w iz sliceR)) (length rows) nz y) by (intro; apply length_mesh2point).
  rewrite (sumn_ext nz _ (fun iz => fdot sliceR (vget (slice w iz sliceR)) (vget (point2mesh sliceR rows (slice y iz (length rows)))))).
  2:{ intros iz _. rewrite fdot_comm. apply mesh2point_point2mesh_adjoint. exact Hc. }
  (* back to the stacked vectors on the resolution side *)
  assert (E : fdot (nz * sliceR) (vget w) (vget w') ==
              sumn nz (fun iz => fdot sliceR (vget (slice w iz sliceR)) (vget (point2mesh sliceR rows (slice y iz (length rows)))))).
  { rewrite fdot_comm. unfold w'.
    rewrite (fdot_blocks (fun iz => point2mesh sliceR rows (slice y iz (length rows))) sliceR nz w) by (intro; apply length_point2mesh).
    apply sumn_ext. intros iz _. apply fdot_comm. }
  rewrite <- E. rewrite fdot_comm. replace (nz * sliceR)%nat with (sliceR * nz)%nat by lia.
  unfold w. apply conv_adjoint. exact Hs.
Qed.
